import PlumpyModel.PM.Proof3
import PlumpyModel.PM.Proof9
import PlumpyModel.PM.Proof8
import PlumpyModel.PM.Proof7
/-!
# C05 — transparency of pause/play as a simulation (helper definitions and lemmas)

`c` is always the configuration of the run *with* pause/play requests, `d` the configuration of the reference run
without them.  The reference history is computed from the history with pauses by `unpaused`: pause and play requests are
dropped, and so is every tick that finds the stepping task suspended on a pause future (those ticks either do nothing,
or re-suspend, or start the step body that the reference run already executed in the tick that ended the previous step).
-/
namespace PMF

def isAwaitPaused : Pc → Bool
  | .awaitPaused _ => true
  | _ => false

/-- the wait future of the current WAITING state was interrupted by a pause request and the wait is not yet re-armed -/
def waitInterrupted (c : Cfg) : Bool :=
  match c.st with
  | .waiting _ wf _ _ =>
      match c.wfs[wf]? with
      | some (.interrupted _) => true
      | _ => false
  | _ => false

/-- a quiet moment: the stepping task is not suspended on a pause future (neither held nor released-but-not-yet-woken), and
the current wait has not been interrupted by a pause request that the stepping task has still to notice -/
def quiet (c : Cfg) : Bool := !isAwaitPaused c.pc && !waitInterrupted c

/-- the class of histories of the partial theorem: ticks, pause and play anywhere; wake-up requests (`resume`, completion of
an awaited future, its done-callback, `call_soon` and the run of a scheduled callback that does not raise) only at quiet
moments (a pause may be *requested* then, but not in effect); no kill / fail / cancel / failing callback -/
def evAllowed (c : Cfg) : Ev → Bool
  | .tick | .pause | .play => true
  | .resume _ | .complete _ _ | .tickCb (.adone _) => quiet c
  | .callSoon _ | .tickCb (.usercb false) => quiet c      -- scheduling a callback; running one that does not raise
  | _ => false

def admissible (P : Prog) : Cfg → List Ev → Bool
  | _, [] => true
  | c, e :: es => evAllowed c e && admissible P (step P c e).1 es

/-- what one event of the history with pauses becomes in the reference history: pause/play are dropped, and so is a tick
that finds the stepping task suspended on a pause future -/
def evImage (c : Cfg) : Ev → List Ev
  | .pause => []
  | .play => []
  | .tick => if isAwaitPaused c.pc then [] else [.tick]
  | e => [e]

/-- the reference history of a history with pauses, started in `c` -/
def unpaused (P : Prog) : Cfg → List Ev → List Ev
  | _, [] => []
  | c, e :: es => evImage c e ++ unpaused P (step P c e).1 es

/-! ### "the synchronous chain of steps run by one tick ends within the fuel" -/

def stepDoneK (P : Prog) (k : Cfg → Bool) (c : Cfg) : Bool :=
  let c := { c with stepping := true }
  match c.st with
  | .created fn => k (endOfStep c (.next (some (.running fn [] []))))
  | .running fn args kw =>
      let b := P fn args kw c.ctx
      let c := { c with trace := { fn := fn, args := args, kw := kw, paused := c.paused.isSome } :: c.trace }
      if b.awaits = 0 then k (finishUser c b.out) else true
  | .waiting fn wf _ _ =>
      match c.wfs[wf]? with
      | some .pending => true
      | some w => k (wake c fn wf w)
      | none => true
  | _ => k (endOfStep c (.next none))

/-- mirrors `loopHead`: `true` iff the loop suspends (or ends) before the fuel is used up -/
def loopDone (P : Prog) : Nat → Cfg → Bool
  | 0, _ => false
  | fuel+1, c =>
    match c.pc with
    | .crashed _ => true
    | _ =>
    if terminal c.st.label then true else
    if c.closed then true else
    match c.paused with
    | some pf => if c.pfs[pf]? = some false then true else stepDoneK P (loopDone P fuel) c
    | none => stepDoneK P (loopDone P fuel) c

/-- mirrors `tickStepper` -/
def tickDone (P : Prog) (c : Cfg) : Bool :=
  match c.pc with
  | .notStarted => loopDone P fuel0 c
  | .awaitPaused pf =>
      if c.pfs[pf]? = some true then
        match c.paused with
        | some pf' => if c.pfs[pf']? = some false then true else stepDoneK P (loopDone P fuel0) c
        | none => stepDoneK P (loopDone P fuel0) c
      else true
  | .inUser b => if b.awaits = 0 then loopDone P fuel0 (finishUser c b.out) else true
  | .awaitWaiting wf =>
      match c.wfs[wf]? with
      | some .pending => true
      | some w =>
          let fn := match c.st with | .waiting fn .. => fn | _ => 0
          loopDone P fuel0 (wake c fn wf w)
      | none => true
  | _ => true

/-- no tick of the history exhausts the fuel of the model's step loop -/
def fuelOk (P : Prog) : Cfg → List Ev → Bool
  | _, [] => true
  | c, e :: es => (match e with | .tick => tickDone P c | _ => true) && fuelOk P (step P c e).1 es

/-! ### the fields on which both runs agree -/

def notPP : Notif → Bool
  | .paused => false
  | .played => false
  | _ => true

structure ShRec where
  stepping : Bool
  fut : PFut
  futHasKillCb : Bool
  closed : Bool
  cleanups : Nat
  efs : List EFut
  efCb : List Nat
  efKeys : List (Nat × Nat)
  ctx : List (Nat × Val)
  ready : List Cb
  entered : List Label
  trace : List Act
  loopErrs : List Exc
  notif : List Notif
  killing : Option Nat

/-- what both runs share: everything except the pause machinery (actions, interrupt, pausing, paused, pause futures,
cookies, handed-out actions, the paused/played notifications) and the heap of wait futures with the pointers into it -/
def sh (c : Cfg) : ShRec :=
  { stepping := c.stepping, fut := c.fut, futHasKillCb := c.futHasKillCb, closed := c.closed, cleanups := c.cleanups,
    efs := c.efs, efCb := c.efCb, efKeys := c.efKeys, ctx := c.ctx, ready := c.ready, entered := c.entered,
    trace := c.trace, loopErrs := c.loopErrs, notif := c.notif.filter notPP, killing := c.killing }

theorem sh_eq_iff (c d : Cfg) : sh c = sh d ↔
    c.stepping = d.stepping ∧ c.fut = d.fut ∧ c.futHasKillCb = d.futHasKillCb ∧ c.closed = d.closed ∧
    c.cleanups = d.cleanups ∧ c.efs = d.efs ∧ c.efCb = d.efCb ∧ c.efKeys = d.efKeys ∧ c.ctx = d.ctx ∧
    c.ready = d.ready ∧ c.entered = d.entered ∧ c.trace = d.trace ∧ c.loopErrs = d.loopErrs ∧
    c.notif.filter notPP = d.notif.filter notPP ∧ c.killing = d.killing := by
  simp [sh]

/-- one-sided frame: `c'` differs from `c` in pause machinery only -/
def PFrame (c c' : Cfg) : Prop := sh c' = sh c ∧ c'.st = c.st ∧ c'.wfs = c.wfs ∧ c'.pc = c.pc
theorem PFrame.rfl' (c : Cfg) : PFrame c c := ⟨rfl, rfl, rfl, rfl⟩
theorem PFrame.trans {a b c : Cfg} (h1 : PFrame a b) (h2 : PFrame b c) : PFrame a c :=
  ⟨h2.1.trans h1.1, h2.2.1.trans h1.2.1, h2.2.2.1.trans h1.2.2.1, h2.2.2.2.trans h1.2.2.2⟩

theorem setActionStatus_pf (c : Cfg) (i s) : PFrame c (setActionStatus c i s) := by
  unfold setActionStatus; split <;> exact ⟨rfl, rfl, rfl, rfl⟩
theorem cancelAction_pf (c : Cfg) (i) : PFrame c (cancelAction c i) := by
  unfold cancelAction; split
  · exact setActionStatus_pf ..
  · exact PFrame.rfl' c
theorem setInterrupt_pf (c : Cfg) (n) : PFrame c (setInterrupt c n) := by
  unfold setInterrupt; split
  · exact PFrame.trans (cancelAction_pf c _) ⟨rfl, rfl, rfl, rfl⟩
  · exact ⟨rfl, rfl, rfl, rfl⟩
theorem setInterruptFromExc_pf (c : Cfg) (k n) : PFrame c (setInterruptFromExc c k n) := by
  unfold setInterruptFromExc cancelInterrupt
  split
  · exact PFrame.trans (cancelAction_pf c _) ⟨rfl, rfl, rfl, rfl⟩
  · exact ⟨rfl, rfl, rfl, rfl⟩
theorem hand_pf (c : Cfg) (i) : PFrame c (hand c i) := by
  unfold hand; split <;> exact ⟨rfl, rfl, rfl, rfl⟩
theorem doPauseHooks_pf (c : Cfg) : PFrame c (doPauseHooks c) := ⟨by simp [sh, doPauseHooks, notPP], rfl, rfl, rfl⟩

/-! ### state objects of the two runs -/

def NotWaiting (s : SObj) : Prop := ∀ fn wf wk aw, s ≠ .waiting fn wf wk aw

/-- same state object up to the index of the wait future -/
def SSim (s s' : SObj) : Prop :=
  (s = s' ∧ NotWaiting s) ∨ ∃ fn wf aw wf', s = .waiting fn wf none aw ∧ s' = .waiting fn wf' none aw

theorem SSim.label {s s' : SObj} (h : SSim s s') : s.label = s'.label := by
  rcases h with ⟨rfl, _⟩ | ⟨fn, wf, aw, wf', rfl, rfl⟩ <;> rfl

/-- the state objects agree with respect to the heaps `cw`, `dw` of wait futures: equal, or both WAITING on futures with the
same outcome, which is not an interruption -/
def SRel (cw dw : List WF) (s s' : SObj) : Prop :=
  (s = s' ∧ NotWaiting s) ∨
  ∃ fn wf aw wf' w, s = .waiting fn wf none aw ∧ s' = .waiting fn wf' none aw ∧
     cw[wf]? = some w ∧ dw[wf']? = some w ∧ ∀ k, w ≠ .interrupted k

theorem SRel.ssim {cw dw s s'} (h : SRel cw dw s s') : SSim s s' := by
  rcases h with h | ⟨fn, wf, aw, wf', w, h1, h2, _⟩
  · exact Or.inl h
  · exact Or.inr ⟨fn, wf, aw, wf', h1, h2⟩

theorem SRel.of_notWaiting {cw dw : List WF} {s : SObj} (h : NotWaiting s) : SRel cw dw s s := Or.inl ⟨rfl, h⟩

structure Core (c d : Cfg) : Prop where
  sh : sh c = sh d
  st : SRel c.wfs d.wfs c.st d.st
  ckill : c.killing = none
  dint : d.interrupt = none
  dpaused : d.paused = none

theorem Core.label {c d : Cfg} (h : Core c d) : c.st.label = d.st.label := h.st.ssim.label

/-! ### frame of the transition machinery: it never touches interrupt, paused, pc, actions, stepping -/
def KeepP (c c' : Cfg) : Prop :=
  c'.interrupt = c.interrupt ∧ c'.paused = c.paused ∧ c'.pc = c.pc ∧ c'.actions = c.actions ∧ c'.stepping = c.stepping
theorem KeepP.rfl' (c : Cfg) : KeepP c c := ⟨rfl, rfl, rfl, rfl, rfl⟩
theorem KeepP.trans {a b c : Cfg} (h1 : KeepP a b) (h2 : KeepP b c) : KeepP a c :=
  ⟨h2.1.trans h1.1, h2.2.1.trans h1.2.1, h2.2.2.1.trans h1.2.2.1, h2.2.2.2.1.trans h1.2.2.2.1, h2.2.2.2.2.trans h1.2.2.2.2⟩

theorem exitState_kp (c : Cfg) : KeepP c (exitState c) := by
  unfold exitState; split
  · dsimp only; split <;> exact ⟨rfl, rfl, rfl, rfl, rfl⟩
  · exact KeepP.rfl' c
theorem setFutExc_kp (c : Cfg) (e) : KeepP c (setFutExc c e) := by
  unfold setFutExc; split <;> exact ⟨rfl, rfl, rfl, rfl, rfl⟩
theorem freshFut_kp (c : Cfg) : KeepP c (freshFutIfCancelled c) := by
  unfold freshFutIfCancelled; split <;> exact ⟨rfl, rfl, rfl, rfl, rfl⟩
theorem enteringHooks_kp (c c2 : Cfg) (s : SObj) (h : enteringHooks c s = .ok c2) : KeepP c c2 := by
  unfold enteringHooks at h
  split at h
  · dsimp only at h
    split at h
    · cases h; exact KeepP.trans (freshFut_kp c) ⟨rfl, rfl, rfl, rfl, rfl⟩
    · cases h
  · dsimp only at h
    split at h
    · cases h; exact KeepP.trans (freshFut_kp c) ⟨rfl, rfl, rfl, rfl, rfl⟩
    · cases h
  · cases h; exact setFutExc_kp c _
  · cases h; exact KeepP.rfl' c
theorem enterState_kp (c : Cfg) (s : SObj) : KeepP c (enterState c s) := by
  unfold enterState
  split
  · rename_i aw
    induction aw generalizing c with
    | nil => exact KeepP.rfl' c
    | cons p rest ih =>
      rw [List.foldl_cons]
      refine KeepP.trans ?_ (ih _)
      dsimp only
      split <;> exact ⟨rfl, rfl, rfl, rfl, rfl⟩
  · exact KeepP.rfl' c
theorem enteredHooks_kp (c : Cfg) (s : SObj) : KeepP c (enteredHooks c s) := by
  unfold enteredHooks; dsimp only; split <;> split <;> exact ⟨rfl, rfl, rfl, rfl, rfl⟩
theorem onClose_kp (c : Cfg) : KeepP c (onClose c) := by
  unfold onClose; split <;> exact ⟨rfl, rfl, rfl, rfl, rfl⟩
theorem releasePause_kp (c : Cfg) : KeepP c (releasePause c) := by
  unfold releasePause; split
  · split <;> exact ⟨rfl, rfl, rfl, rfl, rfl⟩
  · exact KeepP.rfl' c
theorem onTerminated_kp (c : Cfg) : KeepP c (onTerminated c) :=
  KeepP.trans (releasePause_kp c) (onClose_kp _)
theorem forceExcepted_kp (c : Cfg) (e) : KeepP c (forceExcepted c e) := by
  unfold forceExcepted; split
  · exact ⟨rfl, rfl, rfl, rfl, rfl⟩
  · refine KeepP.trans (setFutExc_kp c e) (KeepP.trans ?_ (onTerminated_kp _))
    exact KeepP.trans (show KeepP (setFutExc c e) (setState (setFutExc c e) (.excepted e)) from ⟨rfl, rfl, rfl, rfl, rfl⟩)
      (enteredHooks_kp _ _)
theorem enterNext_kp (c : Cfg) (s) : KeepP c (enterNext c s) := by
  unfold enterNext; dsimp only
  have h : KeepP c (enteredHooks (setState (enterState c s) s) s) :=
    KeepP.trans (enterState_kp c s) (KeepP.trans (show KeepP (enterState c s) (setState (enterState c s) s) from
      ⟨rfl, rfl, rfl, rfl, rfl⟩) (enteredHooks_kp _ _))
  split
  · exact KeepP.trans h (onTerminated_kp _)
  · exact h
theorem transitionTo_kp (c : Cfg) (s) : KeepP c (transitionTo c s) := by
  unfold transitionTo
  split
  · dsimp only
    split
    · exact KeepP.trans (exitState_kp c) ⟨rfl, rfl, rfl, rfl, rfl⟩
    · split
      · exact KeepP.trans (exitState_kp c) (forceExcepted_kp _ _)
      · rename_i c2 hok
        exact KeepP.trans (exitState_kp c) (KeepP.trans (enteringHooks_kp _ c2 s hok) (enterNext_kp _ _))
  · exact forceExcepted_kp _ _

/-! ### the transition machinery acts in the same way on the shared fields of both runs -/

theorem sh_fields {c d : Cfg} (h : sh c = sh d) :
    c.stepping = d.stepping ∧ c.fut = d.fut ∧ c.futHasKillCb = d.futHasKillCb ∧ c.closed = d.closed ∧
    c.cleanups = d.cleanups ∧ c.efs = d.efs ∧ c.efCb = d.efCb ∧ c.efKeys = d.efKeys ∧ c.ctx = d.ctx ∧
    c.ready = d.ready ∧ c.entered = d.entered ∧ c.trace = d.trace ∧ c.loopErrs = d.loopErrs ∧
    c.notif.filter notPP = d.notif.filter notPP ∧ c.killing = d.killing := (sh_eq_iff c d).mp h

theorem exitState_sh (c d : Cfg) (h : sh c = sh d) (hs : SSim c.st d.st) : sh (exitState c) = sh (exitState d) := by
  obtain ⟨h1, h2, h3, h4, h5, h6, h7, h8, h9, h10, h11, h12, h13, h14, h15⟩ := sh_fields h
  rcases hs with ⟨heq, hnw⟩ | ⟨fn, wf, aw, wf', hc, hd⟩
  · have e1 : exitState c = c := by
      unfold exitState; split
      · rename_i a b c' d' hst; exact absurd hst (hnw _ _ _ _)
      · rfl
    have e2 : exitState d = d := by
      unfold exitState; split
      · rename_i a b c' d' hst; rw [← heq] at hst; exact absurd hst (hnw _ _ _ _)
      · rfl
    rw [e1, e2]; exact h
  · simp only [exitState, hc, hd]
    rw [sh_eq_iff]
    split <;> split <;> simp [*]

theorem setFutExc_sh (c d : Cfg) (e : Exc) (h : sh c = sh d) : sh (setFutExc c e) = sh (setFutExc d e) := by
  obtain ⟨h1, h2, h3, h4, h5, h6, h7, h8, h9, h10, h11, h12, h13, h14, h15⟩ := sh_fields h
  rw [sh_eq_iff]; unfold setFutExc
  rw [h2]
  split <;> simp [*]

theorem freshFut_sh (c d : Cfg) (h : sh c = sh d) : sh (freshFutIfCancelled c) = sh (freshFutIfCancelled d) := by
  obtain ⟨h1, h2, h3, h4, h5, h6, h7, h8, h9, h10, h11, h12, h13, h14, h15⟩ := sh_fields h
  rw [sh_eq_iff]; unfold freshFutIfCancelled futCancelled
  rw [h2]
  split <;> simp [*]

/-- the entering hooks succeed or fail alike -/
theorem enteringHooks_sh (c d : Cfg) (s s' : SObj) (h : sh c = sh d) (hs : SSim s s') :
    (∃ e, enteringHooks c s = .error e ∧ enteringHooks d s' = .error e) ∨
    (∃ c2 d2, enteringHooks c s = .ok c2 ∧ enteringHooks d s' = .ok d2 ∧ sh c2 = sh d2) := by
  rcases hs with ⟨rfl, _⟩ | ⟨fn, wf, aw, wf', rfl, rfl⟩
  · have hf := freshFut_sh c d h
    have hf2 : (freshFutIfCancelled c).fut = (freshFutIfCancelled d).fut := (sh_fields hf).2.1
    cases s with
    | finished v ok =>
      simp only [enteringHooks]
      rw [hf2]
      split
      · refine Or.inr ⟨_, _, rfl, rfl, ?_⟩
        obtain ⟨h1, h2, h3, h4, h5, h6, h7, h8, h9, h10, h11, h12, h13, h14, h15⟩ := sh_fields hf
        rw [sh_eq_iff]; simp [*]
      · exact Or.inl ⟨_, rfl, rfl⟩
    | killed =>
      simp only [enteringHooks]
      rw [hf2]
      split
      · refine Or.inr ⟨_, _, rfl, rfl, ?_⟩
        obtain ⟨h1, h2, h3, h4, h5, h6, h7, h8, h9, h10, h11, h12, h13, h14, h15⟩ := sh_fields hf
        rw [sh_eq_iff]; simp [*]
      · exact Or.inl ⟨_, rfl, rfl⟩
    | excepted e => exact Or.inr ⟨_, _, rfl, rfl, setFutExc_sh c d e h⟩
    | created fn => exact Or.inr ⟨_, _, rfl, rfl, h⟩
    | running fn a k => exact Or.inr ⟨_, _, rfl, rfl, h⟩
    | waiting fn wf wk aw => exact Or.inr ⟨_, _, rfl, rfl, h⟩
  · exact Or.inr ⟨_, _, rfl, rfl, h⟩

theorem enterState_fold_sh (aw : List (Nat × Nat)) : ∀ (c d : Cfg), sh c = sh d →
    sh (aw.foldl (fun c (p : Nat × Nat) =>
        let c := { c with efKeys := p :: c.efKeys }
        match c.efs[p.1]? with
        | some EFut.pending => { c with efCb := c.efCb ++ [p.1] }
        | some _ => { c with ready := c.ready ++ [.adone p.1] }
        | none => c) c) =
    sh (aw.foldl (fun c (p : Nat × Nat) =>
        let c := { c with efKeys := p :: c.efKeys }
        match c.efs[p.1]? with
        | some EFut.pending => { c with efCb := c.efCb ++ [p.1] }
        | some _ => { c with ready := c.ready ++ [.adone p.1] }
        | none => c) d) := by
  induction aw with
  | nil => intro c d h; exact h
  | cons p rest ih =>
    intro c d h
    rw [List.foldl_cons, List.foldl_cons]
    apply ih
    obtain ⟨h1, h2, h3, h4, h5, h6, h7, h8, h9, h10, h11, h12, h13, h14, h15⟩ := sh_fields h
    rw [sh_eq_iff]
    dsimp only
    rw [h6]
    split <;> simp [*]

theorem enterState_sh (c d : Cfg) (s s' : SObj) (h : sh c = sh d) (hs : SSim s s') :
    sh (enterState c s) = sh (enterState d s') := by
  rcases hs with ⟨rfl, hnw⟩ | ⟨fn, wf, aw, wf', rfl, rfl⟩
  · cases s with
    | waiting fn wf wk aw => exact absurd rfl (hnw fn wf wk aw)
    | _ => exact h
  · exact enterState_fold_sh aw c d h

theorem filter_notPP_cons (n : Notif) (l : List Notif) (hn : notPP n = true) :
    (n :: l).filter notPP = n :: l.filter notPP := by simp [List.filter, hn]

theorem enteredNotif_notPP (s : SObj) (n : Notif) (h : enteredNotif s = some n) : notPP n = true := by
  cases s <;> simp [enteredNotif] at h <;> subst h <;> rfl

theorem sh_killnone (c d : Cfg) (h : sh c = sh d) : sh { c with killing := none } = sh { d with killing := none } := by
  obtain ⟨h1, h2, h3, h4, h5, h6, h7, h8, h9, h10, h11, h12, h13, h14, h15⟩ := sh_fields h
  rw [sh_eq_iff]; simp [*]
theorem sh_notif (c d : Cfg) (n : Notif) (hn : notPP n = true) (h : sh c = sh d) :
    sh { c with notif := n :: c.notif } = sh { d with notif := n :: d.notif } := by
  obtain ⟨h1, h2, h3, h4, h5, h6, h7, h8, h9, h10, h11, h12, h13, h14, h15⟩ := sh_fields h
  rw [sh_eq_iff]; simp [List.filter, *]

theorem enteredHooks_sh (c d : Cfg) (s s' : SObj) (h : sh c = sh d) (hs : SSim s s') :
    sh (enteredHooks c s) = sh (enteredHooks d s') := by
  have hl := hs.label
  have hn : enteredNotif s = enteredNotif s' := by
    rcases hs with ⟨rfl, _⟩ | ⟨fn, wf, aw, wf', rfl, rfl⟩ <;> rfl
  unfold enteredHooks
  rw [← hn, ← hl]
  by_cases hk : s.label = .killed
  · simp only [hk, if_true]
    cases hnn : enteredNotif s with
    | none => exact sh_killnone c d h
    | some n => exact sh_notif _ _ n (enteredNotif_notPP s n hnn) (sh_killnone c d h)
  · simp only [hk, if_false]
    cases hnn : enteredNotif s with
    | none => exact h
    | some n => exact sh_notif _ _ n (enteredNotif_notPP s n hnn) h

theorem setState_sh (c d : Cfg) (s s' : SObj) (h : sh c = sh d) (hs : SSim s s') :
    sh (setState c s) = sh (setState d s') := by
  obtain ⟨h1, h2, h3, h4, h5, h6, h7, h8, h9, h10, h11, h12, h13, h14, h15⟩ := sh_fields h
  rw [sh_eq_iff]; simp [setState, hs.label, *]

theorem onClose_sh (c d : Cfg) (h : sh c = sh d) : sh (onClose c) = sh (onClose d) := by
  obtain ⟨h1, h2, h3, h4, h5, h6, h7, h8, h9, h10, h11, h12, h13, h14, h15⟩ := sh_fields h
  rw [sh_eq_iff]; unfold onClose; rw [h4]
  split <;> simp [*]

theorem releasePause_pf (c : Cfg) : PFrame c (releasePause c) := by
  unfold releasePause; split
  · split <;> exact ⟨rfl, rfl, rfl, rfl⟩
  · exact PFrame.rfl' c

theorem onTerminated_sh (c d : Cfg) (h : sh c = sh d) : sh (onTerminated c) = sh (onTerminated d) := by
  unfold onTerminated
  apply onClose_sh
  rw [(releasePause_pf c).1, (releasePause_pf d).1]; exact h

theorem forceExcepted_sh (c d : Cfg) (e : Exc) (h : sh c = sh d) : sh (forceExcepted c e) = sh (forceExcepted d e) := by
  have h4 : c.closed = d.closed := (sh_fields h).2.2.2.1
  unfold forceExcepted
  rw [h4]
  split
  · obtain ⟨h1, h2, h3, h4, h5, h6, h7, h8, h9, h10, h11, h12, h13, h14, h15⟩ := sh_fields h
    rw [sh_eq_iff]; simp [*]
  · apply onTerminated_sh
    apply enteredHooks_sh _ _ _ _ _ (Or.inl ⟨rfl, by intro a b c d h; cases h⟩)
    apply setState_sh _ _ _ _ _ (Or.inl ⟨rfl, by intro a b c d h; cases h⟩)
    exact setFutExc_sh c d e h

theorem enterNext_sh (c d : Cfg) (s s' : SObj) (h : sh c = sh d) (hs : SSim s s') :
    sh (enterNext c s) = sh (enterNext d s') := by
  unfold enterNext
  dsimp only
  have h1 : sh (enteredHooks (setState (enterState c s) s) s) = sh (enteredHooks (setState (enterState d s') s') s') :=
    enteredHooks_sh _ _ _ _ (setState_sh _ _ _ _ (enterState_sh c d s s' h hs) hs) hs
  rw [hs.label]
  split
  · exact onTerminated_sh _ _ h1
  · exact h1

/-! ### transitions of both runs -/

theorem forceExcepted_stw (c : Cfg) (e : Exc) : (forceExcepted c e).st = .excepted e ∧ (forceExcepted c e).wfs = c.wfs := by
  unfold forceExcepted; split
  · exact ⟨rfl, rfl⟩
  · have h1 := onTerminated_sameW (enteredHooks (setState (setFutExc c e) (.excepted e)) (.excepted e))
    have h2 := enteredHooks_sameW (setState (setFutExc c e) (.excepted e)) (.excepted e)
    have h3 := setFutExc_sameW c e
    exact ⟨h1.1.trans h2.1, h1.2.trans (h2.2.trans h3.2)⟩

theorem enterNext_stw (c : Cfg) (s : SObj) : (enterNext c s).st = s ∧ (enterNext c s).wfs = c.wfs := by
  unfold enterNext; dsimp only
  have h2 := enteredHooks_sameW (setState (enterState c s) s) s
  have h3 := enterState_sameW c s
  have h : (enteredHooks (setState (enterState c s) s) s).st = s ∧
      (enteredHooks (setState (enterState c s) s) s).wfs = c.wfs := ⟨h2.1, h2.2.trans h3.2⟩
  split
  · have h1 := onTerminated_sameW (enteredHooks (setState (enterState c s) s) s)
    exact ⟨h1.1.trans h.1, h1.2.trans h.2⟩
  · exact h

/-- a next state object for both runs: they agree, and a wait future they point to is not the one of the state being left -/
def NextRel (c d : Cfg) (s s' : SObj) : Prop :=
  (s = s' ∧ NotWaiting s) ∨
  ∃ fn wf aw wf' w, s = .waiting fn wf none aw ∧ s' = .waiting fn wf' none aw ∧
     c.wfs[wf]? = some w ∧ d.wfs[wf']? = some w ∧ (∀ k, w ≠ .interrupted k) ∧
     (∀ f' w' wk' aw', c.st = .waiting f' w' wk' aw' → w' ≠ wf) ∧
     (∀ f' w' wk' aw', d.st = .waiting f' w' wk' aw' → w' ≠ wf')

theorem NextRel.ssim {c d s s'} (h : NextRel c d s s') : SSim s s' := by
  rcases h with h | ⟨fn, wf, aw, wf', w, h1, h2, _⟩
  · exact Or.inl h
  · exact Or.inr ⟨fn, wf, aw, wf', h1, h2⟩

theorem NextRel.afterExit {c d s s'} (h : NextRel c d s s') : SRel (exitState c).wfs (exitState d).wfs s s' := by
  rcases h with h | ⟨fn, wf, aw, wf', w, h1, h2, h3, h4, h5, h6, h7⟩
  · exact Or.inl h
  · exact Or.inr ⟨fn, wf, aw, wf', w, h1, h2, by rw [exitState_wfs_other c wf h6]; exact h3,
      by rw [exitState_wfs_other d wf' h7]; exact h4, h5⟩

theorem excepted_notWaiting (e : Exc) : NotWaiting (.excepted e) := by intro a b c d h; cases h

theorem transitionTo_core (c d : Cfg) (s s' : SObj) (h : Core c d) (hn : NextRel c d s s') :
    Core (transitionTo c s) (transitionTo d s') := by
  have hss := hn.ssim
  have hsr := hn.afterExit
  have hkc := (transitionTo_kn c s).imp h.ckill
  have hkd := transitionTo_kp d s'
  refine ⟨?_, ?_, hkc, by rw [hkd.1]; exact h.dint, by rw [hkd.2.1]; exact h.dpaused⟩
  · -- shared fields
    have hcl : c.closed = d.closed := (sh_fields h.sh).2.2.2.1
    have he := exitState_sh c d h.sh h.st.ssim
    unfold transitionTo
    rw [hss.label, h.label, hcl]
    split
    · dsimp only
      split
      · exact he
      · rcases enteringHooks_sh (exitState c) (exitState d) s s' he hss with ⟨e, h1, h2⟩ | ⟨c2, d2, h1, h2, h3⟩
        · rw [h1, h2]; exact forceExcepted_sh _ _ e he
        · rw [h1, h2]; exact enterNext_sh _ _ _ _ h3 hss
    · exact forceExcepted_sh _ _ _ h.sh
  · -- state object
    have hcl : c.closed = d.closed := (sh_fields h.sh).2.2.2.1
    have he := exitState_sh c d h.sh h.st.ssim
    unfold transitionTo
    rw [hss.label, h.label, hcl]
    split
    · dsimp only
      split
      · exact hsr
      · rcases enteringHooks_sh (exitState c) (exitState d) s s' he hss with ⟨e, h1, h2⟩ | ⟨c2, d2, h1, h2, h3⟩
        · rw [h1, h2]; dsimp only
          rw [(forceExcepted_stw _ e).1, (forceExcepted_stw _ e).1]
          exact SRel.of_notWaiting (excepted_notWaiting e)
        · rw [h1, h2]; dsimp only
          rw [(enterNext_stw c2 s).1, (enterNext_stw c2 s).2, (enterNext_stw d2 s').1, (enterNext_stw d2 s').2,
            (enteringHooks_sameW _ c2 s h1).2, (enteringHooks_sameW _ d2 s' h2).2]
          exact hsr
    · rw [(forceExcepted_stw _ _).1, (forceExcepted_stw _ _).1]
      exact SRel.of_notWaiting (excepted_notWaiting _)

/-! ### the end of a step -/

theorem Core.left {c c' d : Cfg} (h : Core c d) (f : PFrame c c') : Core c' d :=
  ⟨f.1.trans h.sh, by rw [f.2.1, f.2.2.1]; exact h.st,
   by have := (sh_fields f.1).2.2.2.2.2.2.2.2.2.2.2.2.2.2; rw [this]; exact h.ckill, h.dint, h.dpaused⟩

theorem Core.right {c d d' : Cfg} (h : Core c d) (f : PFrame d d') (hi : d'.interrupt = none) (hp : d'.paused = none) :
    Core c d' :=
  ⟨h.sh.trans f.1.symm, by rw [f.2.1, f.2.2.1]; exact h.st, h.ckill, hi, hp⟩

theorem NextRel.frames {c c' d d' : Cfg} {s s' : SObj} (h : NextRel c d s s') (f : PFrame c c') (g : PFrame d d') :
    NextRel c' d' s s' := by
  unfold NextRel
  rw [f.2.1, f.2.2.1, g.2.1, g.2.2.1]; exact h

/-- the interrupt slot of the run with pauses is empty or holds a pause action that is pending or was retracted by play -/
def IntOk (c : Cfg) : Prop :=
  ∀ i, c.interrupt = some i → ∃ a, c.actions[i]? = some a ∧ a.kind = .pause ∧ (a.status = .pending ∨ a.status = .cancelled)

theorem IntOk.of_none {c : Cfg} (h : c.interrupt = none) : IntOk c := by
  intro i hi; rw [h] at hi; cases hi

/-- `transition_to(next)` when there is a next state -/
def transOpt (c : Cfg) (n : Option SObj) : Cfg :=
  match n with
  | some s => transitionTo c s
  | none => c

theorem runAction_pause (c : Cfg) (i : Nat) (a : Action) (next : Option SObj) (ha : c.actions[i]? = some a)
    (hk : a.kind = .pause) (hs : a.status = .pending) :
    runAction c i next = setActionStatus (doPauseHooks (transOpt c next)) i .done := by
  unfold runAction transOpt
  simp only [ha, hs, hk, ne_eq, not_true_eq_false, if_false]
  cases next <;> rfl

def NextOpt (c d : Cfg) (n n' : Option SObj) : Prop :=
  (n = none ∧ n' = none) ∨ ∃ s s', n = some s ∧ n' = some s' ∧ NextRel c d s s'

theorem transOpt_core (c d : Cfg) (n n' : Option SObj) (h : Core c d) (hn : NextOpt c d n n') :
    Core (transOpt c n) (transOpt d n') := by
  rcases hn with ⟨rfl, rfl⟩ | ⟨s, s', rfl, rfl, hr⟩
  · exact h
  · exact transitionTo_core c d s s' h hr

theorem transOpt_pc (c : Cfg) (n : Option SObj) : (transOpt c n).pc = c.pc := by
  cases n with
  | none => rfl
  | some s => exact (transitionTo_kp c s).2.2.1

theorem dispatch_d (d : Cfg) (n : Option SObj) (hi : d.interrupt = none) (hl : terminal d.st.label = false) :
    dispatch d n = transOpt d n := by
  unfold dispatch transOpt; simp only [hl, hi, Bool.false_eq_true, if_false]
  cases n <;> rfl

/-- `dispatch` of the run with pauses, by the content of its interrupt slot -/
theorem dispatch_c (c : Cfg) (n : Option SObj) (hi : IntOk c) (hl : terminal c.st.label = false) :
    dispatch c n = transOpt c n ∨
    (∃ i, c.interrupt = some i ∧ dispatch c n = setActionStatus (doPauseHooks (transOpt c n)) i .done) := by
  cases hint : c.interrupt with
  | none => exact Or.inl (dispatch_d c n hint hl)
  | some i =>
    obtain ⟨a, ha, hk, hst⟩ := hi i hint
    have hst' : actionStatus c i = a.status := by simp [actionStatus, ha]
    rcases hst with hp | hc
    · right
      refine ⟨i, rfl, ?_⟩
      rw [← runAction_pause c i a n ha hk hp]
      unfold dispatch
      simp only [hl, hint, Bool.false_eq_true, if_false, hst', hp]
      simp
    · left
      unfold dispatch transOpt
      simp only [hl, hint, Bool.false_eq_true, if_false, hst', hc]
      cases n <;> simp

theorem dispatch_core (c d : Cfg) (n n' : Option SObj) (h : Core c d) (hi : IntOk c) (hn : NextOpt c d n n') :
    Core (dispatch c n) (dispatch d n') ∧ (dispatch c n).pc = c.pc ∧ (dispatch d n').pc = d.pc := by
  by_cases hl : terminal c.st.label = true
  · have hl' : terminal d.st.label = true := by rw [← h.label]; exact hl
    have e1 : dispatch c n = c := by unfold dispatch; simp [hl]
    have e2 : dispatch d n' = d := by unfold dispatch; simp [hl']
    rw [e1, e2]; exact ⟨h, rfl, rfl⟩
  · have hlf : terminal c.st.label = false := by simpa using hl
    have hl' : terminal d.st.label = false := by rw [← h.label]; exact hlf
    rw [dispatch_d d n' h.dint hl']
    have ht := transOpt_core c d n n' h hn
    rcases dispatch_c c n hi hlf with e | ⟨i, _, e⟩
    · rw [e]; exact ⟨ht, transOpt_pc c n, transOpt_pc d n'⟩
    · rw [e]
      refine ⟨(ht.left (doPauseHooks_pf _)).left (setActionStatus_pf _ _ _), ?_, transOpt_pc d n'⟩
      rw [(setActionStatus_pf _ _ _).2.2.2, (doPauseHooks_pf _).2.2.2]
      exact transOpt_pc c n

theorem finally_core (c d : Cfg) (h : Core c d) :
    Core (finally_ c) (finally_ d) ∧ (finally_ c).interrupt = none ∧ (finally_ c).pc = c.pc ∧ (finally_ d).pc = d.pc ∧
    (finally_ c).stepping = false := by
  have h0 : Core { c with stepping := false } { d with stepping := false } := by
    refine ⟨?_, h.st, h.ckill, h.dint, h.dpaused⟩
    obtain ⟨h1, h2, h3, h4, h5, h6, h7, h8, h9, h10, h11, h12, h13, h14, h15⟩ := sh_fields h.sh
    rw [sh_eq_iff]; simp [*]
  have f1 := setInterrupt_pf { c with stepping := false } none
  have f2 := setInterrupt_pf { d with stepping := false } none
  have i2 : (setInterrupt { d with stepping := false } none).interrupt = none := by unfold setInterrupt; split <;> rfl
  have i1 : (setInterrupt { c with stepping := false } none).interrupt = none := by unfold setInterrupt; split <;> rfl
  have p2 : (setInterrupt { d with stepping := false } none).paused = none := by
    rw [(setInterrupt_pc _ _).2.2.1]; exact h.dpaused
  refine ⟨(h0.left f1).right f2 i2 p2, i1, f1.2.2.2, f2.2.2.2, ?_⟩
  have := (sh_fields f1.1).1
  exact this

theorem prepare_next_exc (c : Cfg) (e : Exc) :
    prepare c (.next (some (.excepted e))) = (setInterrupt c none, some (.excepted e)) := rfl
theorem prepare_next_other (c : Cfg) (n : Option SObj) (h : ∀ e, n ≠ some (.excepted e)) : prepare c (.next n) = (c, n) := by
  cases n with
  | none => rfl
  | some s => cases s <;> first | rfl | exact absurd rfl (h _)
theorem endOfStep_unfold (c : Cfg) (r : StepEnd) : endOfStep c r = finally_ (dispatch (prepare c r).1 (prepare c r).2) := rfl
theorem endOfStep_exception (c : Cfg) (e : Exc) : endOfStep c (.exception e) = endOfStep c (.next (some (.excepted e))) := rfl

theorem setInterrupt_none_interrupt (c : Cfg) : (setInterrupt c none).interrupt = none := by
  unfold setInterrupt; split <;> rfl

/-- what the end of a step establishes for the two runs -/
structure EndRel (c d c' d' : Cfg) : Prop where
  core : Core c' d'
  int : c'.interrupt = none
  pcc : c'.pc = c.pc
  pcd : d'.pc = d.pc
  stepping : c'.stepping = false

theorem endRel_of (c d c0 d0 : Cfg) (n n' : Option SObj) (h : Core c0 d0) (hi : IntOk c0) (hn : NextOpt c0 d0 n n')
    (hpc : c0.pc = c.pc) (hpd : d0.pc = d.pc) :
    EndRel c d (finally_ (dispatch c0 n)) (finally_ (dispatch d0 n')) := by
  obtain ⟨h1, h2, h3⟩ := dispatch_core c0 d0 n n' h hi hn
  obtain ⟨g1, g2, g3, g4, g5⟩ := finally_core _ _ h1
  exact ⟨g1, g2, g3.trans (h2.trans hpc), g4.trans (h3.trans hpd), g5⟩

theorem endOfStep_core (c d : Cfg) (n n' : Option SObj) (h : Core c d) (hi : IntOk c) (hn : NextOpt c d n n') :
    EndRel c d (endOfStep c (.next n)) (endOfStep d (.next n')) := by
  rw [endOfStep_unfold, endOfStep_unfold]
  by_cases hx : ∃ e, n = some (.excepted e)
  · obtain ⟨e, rfl⟩ := hx
    have hn' : n' = some (.excepted e) := by
      rcases hn with ⟨h1, _⟩ | ⟨s, s', h1, h2, hr⟩
      · cases h1
      · cases h1
        rcases hr with ⟨rfl, _⟩ | ⟨fn, wf, aw, wf', w, h3, _⟩
        · exact h2
        · cases h3
    subst hn'
    rw [prepare_next_exc, prepare_next_exc]
    dsimp only
    have f1 := setInterrupt_pf c none
    have f2 := setInterrupt_pf d none
    apply endRel_of
    · exact (h.left f1).right f2 (setInterrupt_none_interrupt d) (by rw [(setInterrupt_pc _ _).2.2.1]; exact h.dpaused)
    · exact IntOk.of_none (setInterrupt_none_interrupt c)
    · exact Or.inr ⟨_, _, rfl, rfl, Or.inl ⟨rfl, excepted_notWaiting e⟩⟩
    · exact f1.2.2.2
    · exact f2.2.2.2
  · have hne : ∀ e, n ≠ some (.excepted e) := fun e he => hx ⟨e, he⟩
    have hne' : ∀ e, n' ≠ some (.excepted e) := by
      intro e he
      rcases hn with ⟨h1, h2⟩ | ⟨s, s', h1, h2, hr⟩
      · rw [h2] at he; cases he
      · rw [h2] at he; cases he
        rcases hr with ⟨rfl, _⟩ | ⟨fn, wf, aw, wf', w, _, h3, _⟩
        · exact hne e h1
        · cases h3
    rw [prepare_next_other c n hne, prepare_next_other d n' hne']
    exact endRel_of c d c d n n' h hi hn rfl rfl

/-! ### commands returned by user code -/

theorem getElem?_append_of_some {α} (l : List α) (x : α) (i : Nat) (w : α) (h : l[i]? = some w) : (l ++ [x])[i]? = some w := by
  have hlt : i < l.length := (List.getElem?_eq_some_iff.mp h).1
  rw [List.getElem?_append_left hlt]; exact h

theorem SRel.append {cw dw : List WF} {s s' : SObj} (x y : WF) (h : SRel cw dw s s') : SRel (cw ++ [x]) (dw ++ [y]) s s' := by
  rcases h with h | ⟨fn, wf, aw, wf', w, h1, h2, h3, h4, h5⟩
  · exact Or.inl h
  · exact Or.inr ⟨fn, wf, aw, wf', w, h1, h2, getElem?_append_of_some _ _ _ _ h3, getElem?_append_of_some _ _ _ _ h4, h5⟩

theorem SRel.ptr_lt {cw dw : List WF} {s s' : SObj} (h : SRel cw dw s s') :
    (∀ f w wk aw, s = .waiting f w wk aw → w < cw.length) ∧ (∀ f w wk aw, s' = .waiting f w wk aw → w < dw.length) := by
  rcases h with ⟨rfl, hnw⟩ | ⟨fn, wf, aw, wf', w, h1, h2, h3, h4, h5⟩
  · exact ⟨fun f w wk aw hs => absurd hs (hnw _ _ _ _), fun f w wk aw hs => absurd hs (hnw _ _ _ _)⟩
  · subst h1; subst h2
    refine ⟨?_, ?_⟩
    · intro f w' wk aw' hs; cases hs; exact (List.getElem?_eq_some_iff.mp h3).1
    · intro f w' wk aw' hs; cases hs; exact (List.getElem?_eq_some_iff.mp h4).1

theorem nextRel_alloc (c d : Cfg) (fn : Nat) (aw : List (Nat × Nat)) (h : Core c d) :
    NextRel { c with wfs := c.wfs ++ [.pending] } { d with wfs := d.wfs ++ [.pending] }
      (.waiting fn c.wfs.length none aw) (.waiting fn d.wfs.length none aw) := by
  obtain ⟨p1, p2⟩ := h.st.ptr_lt
  refine Or.inr ⟨fn, c.wfs.length, aw, d.wfs.length, .pending, rfl, rfl, ?_, ?_, ?_, ?_, ?_⟩
  · simp
  · simp
  · intro k hk; cases hk
  · intro f w wk aw' hs; exact Nat.ne_of_lt (p1 f w wk aw' hs)
  · intro f w wk aw' hs; exact Nat.ne_of_lt (p2 f w wk aw' hs)

theorem core_alloc (c d : Cfg) (h : Core c d) :
    Core { c with wfs := c.wfs ++ [.pending] } { d with wfs := d.wfs ++ [.pending] } :=
  ⟨h.sh, h.st.append _ _, h.ckill, h.dint, h.dpaused⟩

theorem cmdToState_core (c d : Cfg) (cmd : Cmd) (h : Core c d) :
    Core (cmdToState c cmd).1 (cmdToState d cmd).1 ∧
    NextRel (cmdToState c cmd).1 (cmdToState d cmd).1 (cmdToState c cmd).2 (cmdToState d cmd).2 ∧
    (cmdToState c cmd).1.interrupt = c.interrupt ∧ (cmdToState c cmd).1.actions = c.actions ∧
    (cmdToState c cmd).1.pc = c.pc ∧ (cmdToState d cmd).1.pc = d.pc := by
  cases cmd with
  | cont fn args kw => exact ⟨h, Or.inl ⟨rfl, by intro a b c d h; cases h⟩, rfl, rfl, rfl, rfl⟩
  | stop v ok => exact ⟨h, Or.inl ⟨rfl, by intro a b c d h; cases h⟩, rfl, rfl, rfl, rfl⟩
  | kill => exact ⟨h, Or.inl ⟨rfl, by intro a b c d h; cases h⟩, rfl, rfl, rfl, rfl⟩
  | wait fn => exact ⟨core_alloc c d h, nextRel_alloc c d fn [] h, rfl, rfl, rfl, rfl⟩
  | waitOn fn aw => exact ⟨core_alloc c d h, nextRel_alloc c d fn aw h, rfl, rfl, rfl, rfl⟩

theorem IntOk.of_eq {c c' : Cfg} (h : IntOk c) (h1 : c'.interrupt = c.interrupt) (h2 : c'.actions = c.actions) : IntOk c' := by
  intro i hi; rw [h1] at hi; rw [h2]; exact h i hi

theorem finishUser_core (c d : Cfg) (o : Outcome) (h : Core c d) (hi : IntOk c) :
    EndRel c d (finishUser c o) (finishUser d o) := by
  cases o with
  | raise e =>
    exact endOfStep_core c d _ _ h hi (Or.inr ⟨_, _, rfl, rfl, Or.inl ⟨rfl, excepted_notWaiting e⟩⟩)
  | ret cmd =>
    obtain ⟨h1, h2, h3, h4, h5, h6⟩ := cmdToState_core c d cmd h
    have := endOfStep_core (cmdToState c cmd).1 (cmdToState d cmd).1 _ _ h1 (hi.of_eq h3 h4) (Or.inr ⟨_, _, rfl, rfl, h2⟩)
    exact ⟨this.core, this.int, this.pcc.trans h5, this.pcd.trans h6, this.stepping⟩

/-- waking from a wait whose future completed (not interrupted) -/
theorem wake_core (c d : Cfg) (fn wf wf' : Nat) (w : WF) (h : Core c d) (hi : IntOk c) (hw : ∀ k, w ≠ .interrupted k)
    (hp : w ≠ .pending) : EndRel c d (wake c fn wf w) (wake d fn wf' w) := by
  cases w with
  | pending => exact absurd rfl hp
  | interrupted k => exact absurd rfl (hw k)
  | result v =>
    exact endOfStep_core c d _ _ h hi (Or.inr ⟨_, _, rfl, rfl, Or.inl ⟨rfl, by intro a b c d h; cases h⟩⟩)
  | failed e =>
    show EndRel c d (endOfStep c (.exception e)) (endOfStep d (.exception e))
    rw [endOfStep_exception, endOfStep_exception]
    exact endOfStep_core c d _ _ h hi (Or.inr ⟨_, _, rfl, rfl, Or.inl ⟨rfl, excepted_notWaiting e⟩⟩)

/-! ### the loop of one tick -/

def NotCrashed (c : Cfg) : Prop := ∀ e, c.pc ≠ .crashed e

/-- the stepping task would block on the pause future -/
def Held (c : Cfg) : Prop := ∃ pf, c.paused = some pf ∧ c.pfs[pf]? = some false

theorem loopHead_term (P : Prog) (m : Nat) (c : Cfg) (hn : NotCrashed c) (ht : terminal c.st.label = true) :
    loopHead P (m + 1) c = { c with pc := .done } := by
  unfold loopHead; split
  · rename_i e he; exact absurd he (hn e)
  · simp [ht]

theorem loopHead_closed (P : Prog) (m : Nat) (c : Cfg) (hn : NotCrashed c) (ht : terminal c.st.label = false)
    (hc : c.closed = true) : loopHead P (m + 1) c = { c with pc := .crashed .closedErr } := by
  unfold loopHead; split
  · rename_i e he; exact absurd he (hn e)
  · simp [ht, hc]

theorem loopHead_held (P : Prog) (m : Nat) (c : Cfg) (hn : NotCrashed c) (ht : terminal c.st.label = false)
    (hc : c.closed = false) (pf : Nat) (hp : c.paused = some pf) (hf : c.pfs[pf]? = some false) :
    loopHead P (m + 1) c = { c with pc := .awaitPaused pf } := by
  unfold loopHead; split
  · rename_i e he; exact absurd he (hn e)
  · simp [ht, hc, hp, hf]

theorem loopHead_go (P : Prog) (m : Nat) (c : Cfg) (hn : NotCrashed c) (ht : terminal c.st.label = false)
    (hc : c.closed = false) (hh : ¬ Held c) : loopHead P (m + 1) c = stepBodyK P (loopHead P m) c := by
  unfold loopHead; split
  · rename_i e he; exact absurd he (hn e)
  · simp only [ht, hc, Bool.false_eq_true, if_false]
    split
    · rename_i pf hp
      split
      · rename_i hf; exact absurd ⟨pf, hp, hf⟩ hh
      · rfl
    · rfl

theorem loopDone_go (P : Prog) (m : Nat) (c : Cfg) (hn : NotCrashed c) (ht : terminal c.st.label = false)
    (hc : c.closed = false) (hp : c.paused = none) : loopDone P (m + 1) c = stepDoneK P (loopDone P m) c := by
  unfold loopDone; split
  · rename_i e he; exact absurd he (hn e)
  · simp only [ht, hc, hp, Bool.false_eq_true, if_false]

/-- between two steps of the loop run by one tick (the program counters are stale there) -/
structure Mid (c d : Cfg) : Prop where
  core : Core c d
  int : c.interrupt = none
  stepping : c.stepping = false
  ncc : NotCrashed c
  ncd : NotCrashed d

def isRunningPc : Pc → Bool
  | .inUser _ => true
  | .awaitWaiting _ => true
  | _ => false

/-- the stepping tasks of the two runs are suspended at the same point -/
def PcRelAt : Pc → Cfg → Cfg → Prop
  | .awaitWaiting wf, c, d =>
      ∃ fn wk aw wf', c.st = .waiting fn wf wk aw ∧ d.st = .waiting fn wf' none aw ∧ d.pc = .awaitWaiting wf'
  | .inUser b, c, d => d.pc = .inUser b ∧ ∃ fn args kw, c.st = .running fn args kw
  | .awaitPaused _, _, _ => False
  | p, _, d => d.pc = p

/-- both runs are at the same point of the same step; a pause may have been requested (`interrupt` set) but has not
taken effect -/
structure InStep (c d : Cfg) : Prop where
  core : Core c d
  intOk : IntOk c
  pc : PcRelAt c.pc c d
  run : isRunningPc c.pc = true → c.stepping = true ∧ c.paused = none
  idle : isRunningPc c.pc = false → c.stepping = false ∧ c.interrupt = none

/-- the run with pauses is held at (or released from, but not yet woken after) a pause future; the reference run has
already executed the loop from that point on -/
def Lag (P : Prog) (c d : Cfg) : Prop :=
  isAwaitPaused c.pc = true ∧ ∃ d0 n, n ≤ fuel0 ∧ loopDone P n d0 = true ∧ d = loopHead P n d0 ∧ Mid c d0

/-- a pause was requested while both runs wait on a pending future: the run with pauses has interrupted its future and
will re-arm the wait at the next tick -/
structure QW (c d : Cfg) : Prop where
  sh : sh c = sh d
  ckill : c.killing = none
  dint : d.interrupt = none
  dpaused : d.paused = none
  wait : ∃ fn wf aw wf' k, c.st = .waiting fn wf none aw ∧ d.st = .waiting fn wf' none aw ∧
    c.wfs[wf]? = some (.interrupted k) ∧ d.wfs[wf']? = some .pending ∧ c.pc = .awaitWaiting wf ∧ d.pc = .awaitWaiting wf'
  intOk : IntOk c
  intSome : c.interrupt ≠ none
  stepping : c.stepping = true
  paused : c.paused = none

def SL (P : Prog) (c d : Cfg) : Prop := InStep c d ∨ Lag P c d

/-- the simulation relation between the run with pause/play requests and the reference run -/
def Sim (P : Prog) (c d : Cfg) : Prop := InStep c d ∨ QW c d ∨ Lag P c d

theorem core_pc (c d : Cfg) (p q : Pc) (h : Core c d) : Core { c with pc := p } { d with pc := q } :=
  ⟨h.sh, h.st, h.ckill, h.dint, h.dpaused⟩

theorem core_stepping (c d : Cfg) (b : Bool) (h : Core c d) : Core { c with stepping := b } { d with stepping := b } := by
  refine ⟨?_, h.st, h.ckill, h.dint, h.dpaused⟩
  obtain ⟨h1, h2, h3, h4, h5, h6, h7, h8, h9, h10, h11, h12, h13, h14, h15⟩ := sh_fields h.sh
  rw [sh_eq_iff]; simp [*]

theorem live_of_label {s : SObj} : (∃ fn, s = .created fn) ∨ (∃ fn a k, s = .running fn a k) ∨
    (∃ fn wf wk aw, s = .waiting fn wf wk aw) → terminal s.label = false := by
  rintro (⟨fn, rfl⟩ | ⟨fn, a, k, rfl⟩ | ⟨fn, wf, wk, aw, rfl⟩) <;> simp [SObj.label, terminal, allowed]

/-! reduction of the step body by the kind of state -/
theorem stepBodyK_created (P : Prog) (k : Cfg → Cfg) (c : Cfg) (fn : Nat) (h : c.st = .created fn) :
    stepBodyK P k c = k (endOfStep { c with stepping := true } (.next (some (.running fn [] [])))) := by
  unfold stepBodyK; dsimp only; rw [h]
theorem stepDoneK_created (P : Prog) (k : Cfg → Bool) (c : Cfg) (fn : Nat) (h : c.st = .created fn) :
    stepDoneK P k c = k (endOfStep { c with stepping := true } (.next (some (.running fn [] [])))) := by
  unfold stepDoneK; dsimp only; rw [h]

theorem stepBodyK_running (P : Prog) (k : Cfg → Cfg) (c : Cfg) (fn : Nat) (args : List Val) (kw : List (Nat × Val))
    (h : c.st = .running fn args kw) :
    stepBodyK P k c =
      if (P fn args kw c.ctx).awaits = 0 then
        k (finishUser { c with stepping := true,
                               trace := { fn := fn, args := args, kw := kw, paused := c.paused.isSome } :: c.trace }
             (P fn args kw c.ctx).out)
      else { c with stepping := true,
                    trace := { fn := fn, args := args, kw := kw, paused := c.paused.isSome } :: c.trace,
                    pc := .inUser { P fn args kw c.ctx with awaits := (P fn args kw c.ctx).awaits - 1 } } := by
  unfold stepBodyK; dsimp only; rw [h]
theorem stepDoneK_running (P : Prog) (k : Cfg → Bool) (c : Cfg) (fn : Nat) (args : List Val) (kw : List (Nat × Val))
    (h : c.st = .running fn args kw) :
    stepDoneK P k c =
      if (P fn args kw c.ctx).awaits = 0 then
        k (finishUser { c with stepping := true,
                               trace := { fn := fn, args := args, kw := kw, paused := c.paused.isSome } :: c.trace }
             (P fn args kw c.ctx).out)
      else true := by
  unfold stepDoneK; dsimp only; rw [h]

theorem stepBodyK_waiting_pending (P : Prog) (k : Cfg → Cfg) (c : Cfg) (fn wf : Nat) (wk aw)
    (h : c.st = .waiting fn wf wk aw) (hw : c.wfs[wf]? = some .pending) :
    stepBodyK P k c = { c with stepping := true, pc := .awaitWaiting wf } := by
  unfold stepBodyK; dsimp only; rw [h]; dsimp only; rw [hw]
theorem stepBodyK_waiting_done (P : Prog) (k : Cfg → Cfg) (c : Cfg) (fn wf : Nat) (wk aw) (w : WF)
    (h : c.st = .waiting fn wf wk aw) (hw : c.wfs[wf]? = some w) (hp : w ≠ .pending) :
    stepBodyK P k c = k (wake { c with stepping := true } fn wf w) := by
  unfold stepBodyK; dsimp only; rw [h]; dsimp only; rw [hw]
  cases w <;> first | rfl | exact absurd rfl hp
theorem stepDoneK_waiting_done (P : Prog) (k : Cfg → Bool) (c : Cfg) (fn wf : Nat) (wk aw) (w : WF)
    (h : c.st = .waiting fn wf wk aw) (hw : c.wfs[wf]? = some w) (hp : w ≠ .pending) :
    stepDoneK P k c = k (wake { c with stepping := true } fn wf w) := by
  unfold stepDoneK; dsimp only; rw [h]; dsimp only; rw [hw]
  cases w <;> first | rfl | exact absurd rfl hp

theorem invP_traced (c : Cfg) (h : InvP c) (hp : c.paused = none) (fn : Nat) (args : List Val) (kw : List (Nat × Val)) :
    InvP { c with stepping := true, trace := { fn := fn, args := args, kw := kw, paused := c.paused.isSome } :: c.trace } := by
  refine ⟨?_, h.pausedPending⟩
  intro a ha
  simp at ha
  rcases ha with rfl | ha
  · simp [hp]
  · exact h.traceOk a ha

theorem stepBodyK_sim (P : Prog) (k kd : Cfg → Cfg) (kD : Cfg → Bool)
    (hk : ∀ e e', Mid e e' → InvP e → kD e' = true → SL P (k e) (kd e'))
    (c d : Cfg) (hm : Mid c d) (hp : c.paused = none) (hinv : InvP c)
    (hl : terminal c.st.label = false) (hD : stepDoneK P kD d = true) : SL P (stepBodyK P k c) (stepBodyK P kd d) := by
  have hc1 : Core { c with stepping := true } { d with stepping := true } := core_stepping c d true hm.core
  have hi1 : IntOk { c with stepping := true } := IntOk.of_none hm.int
  have hs1 : InvP { c with stepping := true } := hinv.same ⟨rfl, rfl, rfl, rfl⟩
  have cont : ∀ c1 d1 e e', EndRel c1 d1 e e' → c1.pc = c.pc → d1.pc = d.pc → InvP e → kD e' = true → SL P (k e) (kd e') := by
    intro c1 d1 e e' he hpc hpd hie hde
    exact hk e e' ⟨he.core, he.int, he.stepping, by intro x hx; rw [he.pcc, hpc] at hx; exact hm.ncc x hx,
      by intro x hx; rw [he.pcd, hpd] at hx; exact hm.ncd x hx⟩ hie hde
  have hsh := sh_fields hm.core.sh
  rcases hm.core.st with ⟨heq, hnw⟩ | ⟨fn, wf, aw, wf', w, h1, h2, h3, h4, h5⟩
  · cases hst : c.st with
    | created fn =>
      have hst' : d.st = .created fn := by rw [← heq]; exact hst
      rw [stepBodyK_created P k c fn hst, stepBodyK_created P kd d fn hst']
      rw [stepDoneK_created P kD d fn hst'] at hD
      exact cont _ _ _ _
        (endOfStep_core _ _ _ _ hc1 hi1 (Or.inr ⟨_, _, rfl, rfl, Or.inl ⟨rfl, by intro a b c d h; cases h⟩⟩)) rfl rfl
        (endOfStep_invP _ _ hs1) hD
    | running fn args kw =>
      have hst' : d.st = .running fn args kw := by rw [← heq]; exact hst
      rw [stepBodyK_running P k c fn args kw hst, stepBodyK_running P kd d fn args kw hst']
      rw [stepDoneK_running P kD d fn args kw hst'] at hD
      have hctx : c.ctx = d.ctx := hsh.2.2.2.2.2.2.2.2.1
      have hpz : c.paused.isSome = d.paused.isSome := by rw [hp, hm.core.dpaused]
      have htr : c.trace = d.trace := hsh.2.2.2.2.2.2.2.2.2.2.2.1
      have hb : P fn args kw d.ctx = P fn args kw c.ctx := by rw [hctx]
      rw [hb, ← hpz, ← htr] at hD ⊢
      have hc2 : Core { c with stepping := true, trace := { fn := fn, args := args, kw := kw, paused := c.paused.isSome } :: c.trace }
          { d with stepping := true, trace := { fn := fn, args := args, kw := kw, paused := c.paused.isSome } :: c.trace } := by
        refine ⟨?_, hm.core.st, hm.core.ckill, hm.core.dint, hm.core.dpaused⟩
        obtain ⟨g1, g2, g3, g4, g5, g6, g7, g8, g9, g10, g11, g12, g13, g14, g15⟩ := hsh
        rw [sh_eq_iff]; simp [*]
      have hs2 := invP_traced c hinv hp fn args kw
      by_cases ha : (P fn args kw c.ctx).awaits = 0
      · simp only [ha, if_true] at hD ⊢
        exact cont _ _ _ _ (finishUser_core _ _ _ hc2 (IntOk.of_none hm.int)) rfl rfl (finishUser_invP _ _ hs2) hD
      · simp only [ha, if_false]
        left
        exact ⟨core_pc _ _ _ _ hc2, IntOk.of_none hm.int, ⟨rfl, fn, args, kw, hst⟩, fun _ => ⟨rfl, hp⟩,
          fun h => by simp [isRunningPc] at h⟩
    | waiting fn wf wk aw => exact absurd hst (hnw _ _ _ _)
    | finished v ok => rw [hst] at hl; simp [SObj.label, terminal, allowed] at hl
    | excepted e => rw [hst] at hl; simp [SObj.label, terminal, allowed] at hl
    | killed => rw [hst] at hl; simp [SObj.label, terminal, allowed] at hl
  · by_cases hw : w = .pending
    · subst hw
      rw [stepBodyK_waiting_pending P k c fn wf none aw h1 h3, stepBodyK_waiting_pending P kd d fn wf' none aw h2 h4]
      left
      exact ⟨core_pc _ _ _ _ hc1, IntOk.of_none hm.int, ⟨fn, none, aw, wf', h1, h2, rfl⟩, fun _ => ⟨rfl, hp⟩,
        fun h => by simp [isRunningPc] at h⟩
    · rw [stepBodyK_waiting_done P k c fn wf none aw w h1 h3 hw, stepBodyK_waiting_done P kd d fn wf' none aw w h2 h4 hw]
      rw [stepDoneK_waiting_done P kD d fn wf' none aw w h2 h4 hw] at hD
      exact cont _ _ _ _ (wake_core _ _ fn wf wf' w hc1 hi1 h5 hw) rfl rfl (wake_invP _ _ _ _ hs1) hD

theorem not_held_of_none {d : Cfg} (h : d.paused = none) : ¬ Held d := by
  rintro ⟨pf, hp, _⟩; rw [h] at hp; cases hp

theorem inStep_idle (c d : Cfg) (p : Pc) (hm : Mid c d) (hp : isRunningPc p = false) (hap : isAwaitPaused p = false) :
    InStep { c with pc := p } { d with pc := p } := by
  refine ⟨core_pc _ _ _ _ hm.core, IntOk.of_none hm.int, ?_, ?_, fun _ => ⟨hm.stepping, hm.int⟩⟩
  · show PcRelAt p _ _
    cases p with
    | notStarted => rfl
    | done => rfl
    | crashed e => rfl
    | inUser b => simp [isRunningPc] at hp
    | awaitWaiting wf => simp [isRunningPc] at hp
    | awaitPaused pf => simp [isAwaitPaused] at hap
  · intro h
    have : isRunningPc p = true := h
    rw [hp] at this; cases this

/-- the loop of one tick, run by both runs from related configurations, with enough fuel on the reference side -/
theorem loopHead_sim (P : Prog) : ∀ (n m : Nat) (c d : Cfg), n ≤ m → n ≤ fuel0 → Mid c d → InvP c →
    loopDone P n d = true → SL P (loopHead P m c) (loopHead P n d) := by
  intro n
  induction n with
  | zero => intro m c d _ _ _ _ hD; simp [loopDone] at hD
  | succ n ih =>
    intro m c d hnm hnf hm hinv hD
    obtain ⟨m', rfl⟩ : ∃ m', m = m' + 1 := ⟨m - 1, by omega⟩
    have hlab := hm.core.label
    have hcl : c.closed = d.closed := (sh_fields hm.core.sh).2.2.2.1
    by_cases ht : terminal c.st.label = true
    · rw [loopHead_term P m' c hm.ncc ht, loopHead_term P n d hm.ncd (hlab ▸ ht)]
      exact Or.inl (inStep_idle c d .done hm rfl rfl)
    · have htf : terminal c.st.label = false := by simpa using ht
      have htd : terminal d.st.label = false := hlab ▸ htf
      by_cases hc : c.closed = true
      · rw [loopHead_closed P m' c hm.ncc htf hc, loopHead_closed P n d hm.ncd htd (hcl ▸ hc)]
        exact Or.inl (inStep_idle c d (.crashed .closedErr) hm rfl rfl)
      · have hcf : c.closed = false := by simpa using hc
        by_cases hh : Held c
        · obtain ⟨pf, hp, hf⟩ := hh
          rw [loopHead_held P m' c hm.ncc htf hcf pf hp hf]
          right
          refine ⟨rfl, d, n + 1, hnf, hD, rfl, ⟨⟨hm.core.sh, hm.core.st, hm.core.ckill, hm.core.dint, hm.core.dpaused⟩,
            hm.int, hm.stepping, ?_, hm.ncd⟩⟩
          intro e he; cases he
        · have hp : c.paused = none := by
            cases hpa : c.paused with
            | none => rfl
            | some pf => exact absurd ⟨pf, hpa, hinv.pausedPending htf pf hpa⟩ hh
          rw [loopHead_go P m' c hm.ncc htf hcf hh,
            loopHead_go P n d hm.ncd htd (hcl ▸ hcf) (not_held_of_none hm.core.dpaused)]
          rw [loopDone_go P n d hm.ncd htd (hcl ▸ hcf) hm.core.dpaused] at hD
          exact stepBodyK_sim P _ _ _ (fun e e' hme hie hde => ih m' e e' (by omega) (by omega) hme hie hde)
            c d hm hp hinv htf hD

/-! ### a tick of the stepping task -/

theorem tickStepper_notStarted (P : Prog) (c : Cfg) (h : c.pc = .notStarted) : tickStepper P c = loopHead P fuel0 c := by
  unfold tickStepper; rw [h]
theorem tickDone_notStarted (P : Prog) (c : Cfg) (h : c.pc = .notStarted) : tickDone P c = loopDone P fuel0 c := by
  unfold tickDone; rw [h]
theorem tickStepper_inUser (P : Prog) (c : Cfg) (b : Body) (h : c.pc = .inUser b) :
    tickStepper P c = if b.awaits = 0 then loopHead P fuel0 (finishUser c b.out)
      else { c with pc := .inUser { b with awaits := b.awaits - 1 } } := by
  unfold tickStepper; rw [h]
theorem tickDone_inUser (P : Prog) (c : Cfg) (b : Body) (h : c.pc = .inUser b) :
    tickDone P c = if b.awaits = 0 then loopDone P fuel0 (finishUser c b.out) else true := by
  unfold tickDone; rw [h]
theorem tickStepper_wait_pending (P : Prog) (c : Cfg) (wf : Nat) (h : c.pc = .awaitWaiting wf)
    (hw : c.wfs[wf]? = some .pending) : tickStepper P c = c := by
  unfold tickStepper; rw [h]; dsimp only; rw [hw]
theorem tickStepper_wait_done (P : Prog) (c : Cfg) (fn wf : Nat) (wk aw) (w : WF) (h : c.pc = .awaitWaiting wf)
    (hst : c.st = .waiting fn wf wk aw) (hw : c.wfs[wf]? = some w) (hp : w ≠ .pending) :
    tickStepper P c = loopHead P fuel0 (wake c fn wf w) := by
  unfold tickStepper; rw [h]; dsimp only; rw [hw, hst]
  cases w <;> first | rfl | exact absurd rfl hp
theorem tickDone_wait_done (P : Prog) (c : Cfg) (fn wf : Nat) (wk aw) (w : WF) (h : c.pc = .awaitWaiting wf)
    (hst : c.st = .waiting fn wf wk aw) (hw : c.wfs[wf]? = some w) (hp : w ≠ .pending) :
    tickDone P c = loopDone P fuel0 (wake c fn wf w) := by
  unfold tickDone; rw [h]; dsimp only; rw [hw, hst]
  cases w <;> first | rfl | exact absurd rfl hp
theorem tickStepper_done (P : Prog) (c : Cfg) (h : c.pc = .done) : tickStepper P c = c := by
  unfold tickStepper; rw [h]
theorem tickStepper_crashed (P : Prog) (c : Cfg) (e : Exc) (h : c.pc = .crashed e) : tickStepper P c = c := by
  unfold tickStepper; rw [h]

theorem mid_of_end {c d e e' : Cfg} (he : EndRel c d e e') (hc : NotCrashed c) (hd : NotCrashed d) : Mid e e' :=
  ⟨he.core, he.int, he.stepping, by intro x hx; rw [he.pcc] at hx; exact hc x hx,
    by intro x hx; rw [he.pcd] at hx; exact hd x hx⟩

theorem SRel.waiting_inv {cw dw : List WF} {s s' : SObj} {fn wf : Nat} {wk aw} (h : SRel cw dw s s')
    (hs : s = .waiting fn wf wk aw) :
    ∃ wf' w, wk = none ∧ s' = .waiting fn wf' none aw ∧ cw[wf]? = some w ∧ dw[wf']? = some w ∧ ∀ k, w ≠ .interrupted k := by
  rcases h with ⟨_, hnw⟩ | ⟨fn0, wf0, aw0, wf0', w, h1, h2, h3, h4, h5⟩
  · exact absurd hs (hnw _ _ _ _)
  · rw [hs] at h1; cases h1
    exact ⟨wf0', w, rfl, h2, h3, h4, h5⟩

theorem tick_inStep (P : Prog) (c d : Cfg) (h : InStep c d) (hinv : InvP c) (hD : tickDone P d = true) :
    SL P (tickStepper P c) (tickStepper P d) := by
  have hpcr := h.pc
  cases hpc : c.pc with
  | notStarted =>
    rw [hpc] at hpcr
    have hpd : d.pc = .notStarted := hpcr
    obtain ⟨hs, hi⟩ := h.idle (by rw [hpc]; rfl)
    rw [tickStepper_notStarted P c hpc, tickStepper_notStarted P d hpd]
    rw [tickDone_notStarted P d hpd] at hD
    exact loopHead_sim P fuel0 fuel0 c d (Nat.le_refl _) (Nat.le_refl _)
      ⟨h.core, hi, hs, (by intro e he; rw [hpc] at he; cases he), (by intro e he; rw [hpd] at he; cases he)⟩ hinv hD
  | done =>
    rw [hpc] at hpcr
    have hpd : d.pc = .done := hpcr
    rw [tickStepper_done P c hpc, tickStepper_done P d hpd]; exact Or.inl h
  | crashed e =>
    rw [hpc] at hpcr
    have hpd : d.pc = .crashed e := hpcr
    rw [tickStepper_crashed P c e hpc, tickStepper_crashed P d e hpd]; exact Or.inl h
  | awaitPaused pf => rw [hpc] at hpcr; exact absurd hpcr (by simp [PcRelAt])
  | inUser b =>
    rw [hpc] at hpcr
    obtain ⟨hpd, fn, args, kw, hst⟩ := hpcr
    obtain ⟨hs, hp⟩ := h.run (by rw [hpc]; rfl)
    rw [tickStepper_inUser P c b hpc, tickStepper_inUser P d b hpd]
    rw [tickDone_inUser P d b hpd] at hD
    by_cases ha : b.awaits = 0
    · simp only [ha, if_true] at hD ⊢
      have he := finishUser_core c d b.out h.core h.intOk
      exact loopHead_sim P fuel0 fuel0 _ _ (Nat.le_refl _) (Nat.le_refl _)
        (mid_of_end he (by intro e he; rw [hpc] at he; cases he) (by intro e he; rw [hpd] at he; cases he))
        (finishUser_invP _ _ hinv) hD
    · simp only [ha, if_false]
      left
      exact ⟨core_pc _ _ _ _ h.core, h.intOk.of_eq rfl rfl, ⟨rfl, fn, args, kw, hst⟩, fun _ => ⟨hs, hp⟩,
        fun h => by simp [isRunningPc] at h⟩
  | awaitWaiting wf =>
    rw [hpc] at hpcr
    obtain ⟨fn, wk, aw, wf', hst, hst', hpd⟩ := hpcr
    obtain ⟨wf2, w, hwk, hst2, hw, hw', hni⟩ := h.core.st.waiting_inv hst
    rw [hst'] at hst2; cases hst2
    by_cases hwp : w = .pending
    · subst hwp
      rw [tickStepper_wait_pending P c wf hpc hw, tickStepper_wait_pending P d wf' hpd hw']; exact Or.inl h
    · rw [tickStepper_wait_done P c fn wf wk aw w hpc hst hw hwp, tickStepper_wait_done P d fn wf' none aw w hpd hst' hw' hwp]
      rw [tickDone_wait_done P d fn wf' none aw w hpd hst' hw' hwp] at hD
      have he := wake_core c d fn wf wf' w h.core h.intOk hni hwp
      exact loopHead_sim P fuel0 fuel0 _ _ (Nat.le_refl _) (Nat.le_refl _)
        (mid_of_end he (by intro e he; rw [hpc] at he; cases he) (by intro e he; rw [hpd] at he; cases he))
        (wake_invP _ _ _ _ hinv) hD

theorem wake_interrupted (c : Cfg) (fn wf k f : Nat) (aw : List (Nat × Nat)) (hst : c.st = .waiting f wf none aw)
    (hi : c.interrupt ≠ none) :
    wake c fn wf (.interrupted k) =
      finally_ (dispatch { c with st := .waiting f c.wfs.length none aw, wfs := c.wfs ++ [.pending] } none) := by
  unfold wake; dsimp only; rw [hst]; dsimp only
  simp only [if_true]
  rw [endOfStep_unfold]
  cases hint : c.interrupt with
  | none => exact absurd hint hi
  | some i => simp only [prepare]

theorem stepDoneK_waiting_pending (P : Prog) (k : Cfg → Bool) (c : Cfg) (fn wf : Nat) (wk aw)
    (h : c.st = .waiting fn wf wk aw) (hw : c.wfs[wf]? = some .pending) : stepDoneK P k c = true := by
  unfold stepDoneK; dsimp only; rw [h]; dsimp only; rw [hw]

theorem fuel0_ge_one : 1 ≤ fuel0 := by unfold fuel0; omega

/-- the tick after a pause request that hit a pending wait: the run with pauses re-arms its wait and then either pauses
or (the request was retracted) waits again; the reference run does nothing -/
theorem tick_qw (P : Prog) (c d : Cfg) (h : QW c d) (hinv : InvP c) (hI : Inv c) :
    SL P (tickStepper P c) d ∧ tickStepper P d = d := by
  obtain ⟨fn, wf, aw, wf', k, hst, hst', hw, hw', hpc, hpd⟩ := h.wait
  have hd : tickStepper P d = d := tickStepper_wait_pending P d wf' hpd hw'
  refine ⟨?_, hd⟩
  rw [tickStepper_wait_done P c fn wf none aw (.interrupted k) hpc hst hw (by intro x; cases x)]
  have hwinv := wake_invP c fn wf (.interrupted k) hinv
  rw [wake_interrupted c fn wf k fn aw hst h.intSome] at hwinv ⊢
  have hcore : Core { c with st := .waiting fn c.wfs.length none aw, wfs := c.wfs ++ [.pending] } d := by
    refine ⟨h.sh, Or.inr ⟨fn, c.wfs.length, aw, wf', .pending, rfl, hst', ?_, hw', ?_⟩, h.ckill, h.dint, h.dpaused⟩
    · simp
    · intro x hx; cases hx
  have he := endRel_of c d _ d none none hcore (h.intOk.of_eq rfl rfl) (Or.inl ⟨rfl, rfl⟩) rfl rfl
  have hm := mid_of_end he (by intro e he; rw [hpc] at he; cases he) (by intro e he; rw [hpd] at he; cases he)
  -- the reference side of the end of step is `d` with the stepping flag cleared; one loop iteration restores `d`
  have hlive : terminal d.st.label = false := by rw [hst']; simp [SObj.label, terminal, allowed]
  have hlivec : terminal c.st.label = false := by rw [hst]; simp [SObj.label, terminal, allowed]
  have hcl : d.closed = false := by
    have h1 : c.closed = false := not_closed_of_live hI hlivec
    have h2 : c.closed = d.closed := (sh_fields h.sh).2.2.2.1
    rw [← h2]; exact h1
  have hstep : d.stepping = true := by
    have h2 : c.stepping = d.stepping := (sh_fields h.sh).1
    rw [← h2]; exact h.stepping
  have he' : finally_ (dispatch d none) = { d with stepping := false, interrupt := none } := by
    rw [dispatch_d d none h.dint hlive]
    unfold transOpt finally_ setInterrupt
    simp only [h.dint]
  have hnc : NotCrashed { d with stepping := false, interrupt := none } := by intro e he; rw [show _ = d.pc from rfl, hpd] at he; cases he
  have hl1 : loopHead P 1 { d with stepping := false, interrupt := none } = d := by
    rw [loopHead_go P 0 _ hnc hlive hcl (not_held_of_none h.dpaused)]
    rw [stepBodyK_waiting_pending P _ { d with stepping := false, interrupt := none } fn wf' none aw hst' hw']
    cases d
    simp only at hstep hpd
    have hdi := h.dint
    simp only at hdi
    subst hstep hpd hdi
    rfl
  have hD1 : loopDone P 1 { d with stepping := false, interrupt := none } = true := by
    rw [loopDone_go P 0 _ hnc hlive hcl h.dpaused]
    exact stepDoneK_waiting_pending P _ { d with stepping := false, interrupt := none } fn wf' none aw hst' hw'
  rw [he'] at hm
  have := loopHead_sim P 1 fuel0 _ _ fuel0_ge_one fuel0_ge_one hm hwinv hD1
  rw [hl1] at this
  exact this

theorem stepBodyK_terminal (P : Prog) (k : Cfg → Cfg) (c : Cfg) (ht : terminal c.st.label = true) :
    stepBodyK P k c = k (endOfStep { c with stepping := true } (.next none)) := by
  obtain ⟨h1, h2, h3⟩ := not_live_of_terminal ht
  unfold stepBodyK; dsimp only
  split
  · rename_i fn h; exact absurd h (h1 fn)
  · rename_i fn a k h; exact absurd h (h2 fn a k)
  · rename_i fn wf wk aw h; exact absurd h (h3 fn wf wk aw)
  · rfl

theorem endOfStep_terminal_pf (c : Cfg) (ht : terminal c.st.label = true) (hs : c.stepping = false) :
    PFrame c (endOfStep { c with stepping := true } (.next none)) ∧
    (endOfStep { c with stepping := true } (.next none)).interrupt = none := by
  rw [endOfStep_unfold, prepare_next_other _ none (by intro e he; cases he)]
  have e1 : dispatch { c with stepping := true } none = { c with stepping := true } := by
    unfold dispatch; simp [ht]
  dsimp only
  rw [e1]
  unfold finally_
  refine ⟨PFrame.trans ?_ (setInterrupt_pf _ none), setInterrupt_none_interrupt _⟩
  refine ⟨?_, rfl, rfl, rfl⟩
  rw [sh_eq_iff]; simp [hs]

/-- a tick while the run with pauses is suspended on a pause future: nothing, or re-suspension on a newer pause future, or
(released) the rest of the loop that the reference run has already executed -/
theorem tick_lag (P : Prog) (c d : Cfg) (h : Lag P c d) (hinv : InvP c) (hI : Inv c) :
    SL P (tickStepper P c) d := by
  obtain ⟨hap, d0, n, hn, hD, hd, hm⟩ := h
  cases hpc : c.pc with
  | notStarted => rw [hpc] at hap; cases hap
  | done => rw [hpc] at hap; cases hap
  | crashed e => rw [hpc] at hap; cases hap
  | inUser b => rw [hpc] at hap; cases hap
  | awaitWaiting wf => rw [hpc] at hap; cases hap
  | awaitPaused pf =>
    have hlag : ∀ p, Lag P { c with pc := .awaitPaused p } d := fun p =>
      ⟨rfl, d0, n, hn, hD, hd, ⟨hm.core.sh, hm.core.st, hm.core.ckill, hm.core.dint, hm.core.dpaused⟩, hm.int, hm.stepping,
        (by intro e he; cases he), hm.ncd⟩
    -- the released case
    have go : (terminal c.st.label = false → c.paused = none) → SL P (stepBody P fuel0 c) d := by
      intro hpn
      obtain ⟨n', rfl⟩ : ∃ n', n = n' + 1 := by
        cases n with
        | zero => simp [loopDone] at hD
        | succ n' => exact ⟨n', rfl⟩
      have hlab := hm.core.label
      by_cases ht : terminal c.st.label = true
      · have htd : terminal d0.st.label = true := hlab ▸ ht
        obtain ⟨pf1, hi1⟩ := endOfStep_terminal_pf c ht hm.stepping
        have hm1 : Mid (endOfStep { c with stepping := true } (.next none)) d0 :=
          ⟨hm.core.left pf1, hi1, (by have := (sh_fields pf1.1).1; rw [this]; exact hm.stepping),
            (by intro e he; rw [pf1.2.2.2, hpc] at he; cases he), hm.ncd⟩
        unfold stepBody
        rw [stepBodyK_terminal P _ c ht, hd, loopHead_term P n' d0 hm.ncd htd]
        have hf : fuel0 = 999 + 1 := rfl
        rw [hf, loopHead_term P 999 _ hm1.ncc (by rw [pf1.2.1]; exact ht)]
        exact Or.inl (inStep_idle _ d0 .done hm1 rfl rfl)
      · have htf : terminal c.st.label = false := by simpa using ht
        have htd : terminal d0.st.label = false := hlab ▸ htf
        have hcl : c.closed = d0.closed := (sh_fields hm.core.sh).2.2.2.1
        have hcf : c.closed = false := not_closed_of_live hI htf
        rw [hd, loopHead_go P n' d0 hm.ncd htd (hcl ▸ hcf) (not_held_of_none hm.core.dpaused)]
        rw [loopDone_go P n' d0 hm.ncd htd (hcl ▸ hcf) hm.core.dpaused] at hD
        unfold stepBody
        exact stepBodyK_sim P _ _ _
          (fun e e' hme hie hde => loopHead_sim P n' fuel0 e e' (by omega) (by omega) hme hie hde)
          c d0 hm (hpn htf) hinv htf hD
    unfold tickStepper
    rw [hpc]
    dsimp only
    split
    · split
      · rename_i pf' hpa
        split
        · exact Or.inr (hlag pf')
        · rename_i hne
          apply go
          intro hl
          exact absurd (hinv.pausedPending hl pf' hpa) hne
      · rename_i hpa
        exact go (fun _ => hpa)
    · exact Or.inr ⟨by rw [hpc]; rfl, d0, n, hn, hD, hd, hm⟩

/-! ### pause and play requests: they only touch the pause machinery of the run with pauses -/

theorem intOk_iff (c : Cfg) : IntOk c ↔ ∀ i, c.interrupt = some i →
    actionKind c i = some .pause ∧ (actionStatus c i = .pending ∨ actionStatus c i = .cancelled) := by
  constructor
  · intro h i hi
    obtain ⟨a, ha, hk, hs⟩ := h i hi
    simp [actionKind, actionStatus, ha, hk, hs]
  · intro h i hi
    obtain ⟨hk, hs⟩ := h i hi
    cases ha : c.actions[i]? with
    | none => simp [actionKind, ha] at hk
    | some a =>
      refine ⟨a, rfl, ?_, ?_⟩
      · simpa [actionKind, ha] using hk
      · simpa [actionStatus, ha] using hs

theorem cancelAction_status_self (c : Cfg) (i : Nat) (hk : actionKind c i = some .pause)
    (hs : actionStatus c i = .pending ∨ actionStatus c i = .cancelled) :
    actionStatus (cancelAction c i) i = .cancelled := by
  unfold cancelAction
  split
  · cases ha : c.actions[i]? with
    | none => simp [actionKind, ha] at hk
    | some a =>
      have hlt : i < c.actions.length := (List.getElem?_eq_some_iff.mp ha).1
      simp [setActionStatus, actionStatus, setAt, hlt]
  · rename_i hnp
    rcases hs with hs | hs
    · exact absurd hs hnp
    · exact hs

theorem cancelAction_intOk (c : Cfg) (j : Nat) (h : IntOk c) : IntOk (cancelAction c j) := by
  rw [intOk_iff] at h ⊢
  intro i hi
  rw [(cancelAction_fields c j).2.1] at hi
  obtain ⟨hk, hs⟩ := h i hi
  refine ⟨by rw [cancelAction_kind]; exact hk, ?_⟩
  by_cases hij : j = i
  · subst hij; exact Or.inr (cancelAction_status_self c j hk hs)
  · rw [cancelAction_other c j i hij]; exact hs

/-- bookkeeping only: nothing the simulation looks at changes -/
def BFrame (c c' : Cfg) : Prop := PFrame c c' ∧ c'.interrupt = c.interrupt ∧ c'.actions = c.actions ∧ c'.paused = c.paused
theorem BFrame.rfl' (c : Cfg) : BFrame c c := ⟨PFrame.rfl' c, rfl, rfl, rfl⟩
theorem hand_bf (c : Cfg) (i : Nat) : BFrame c (hand c i) := by
  unfold hand; split <;> exact ⟨⟨rfl, rfl, rfl, rfl⟩, rfl, rfl, rfl⟩

theorem pause_shape (c : Cfg) (hk : c.killing = none) :
    BFrame c (pause c).1 ∨
    (c.stepping = false ∧ (pause c).1 = doPauseHooks c) ∨
    (c.stepping = true ∧ c.paused = none ∧ BFrame (requestInterrupt c .pause) (pause c).1) := by
  unfold pause
  split
  · exact Or.inl (BFrame.rfl' c)
  · split
    · exact Or.inl (BFrame.rfl' c)
    · rename_i hnp
      have hpn : c.paused = none := by
        cases hp : c.paused with
        | none => rfl
        | some pf => simp [hp] at hnp
      split
      · exact Or.inl (hand_bf c _)
      · split
        · rename_i hks; simp [hk] at hks
        · split
          · rename_i hst
            refine Or.inr (Or.inr ⟨hst, hpn, ?_⟩)
            dsimp only
            split
            · exact ⟨PFrame.trans ⟨rfl, rfl, rfl, rfl⟩ (hand_bf _ _).1, (hand_bf _ _).2.1, (hand_bf _ _).2.2.1, (hand_bf _ _).2.2.2⟩
            · exact ⟨⟨rfl, rfl, rfl, rfl⟩, rfl, rfl, rfl⟩
          · rename_i hst
            exact Or.inr (Or.inl ⟨by simpa using hst, rfl⟩)

theorem requestInterrupt_props (c : Cfg) :
    sh (requestInterrupt c .pause) = sh c ∧ (requestInterrupt c .pause).st = c.st ∧
    (requestInterrupt c .pause).pc = c.pc ∧ (requestInterrupt c .pause).paused = c.paused ∧
    IntOk (requestInterrupt c .pause) ∧ (requestInterrupt c .pause).interrupt ≠ none ∧
    ((requestInterrupt c .pause).wfs = c.wfs ∨
      ∃ fn wf wk aw, c.st = .waiting fn wf wk aw ∧ c.wfs[wf]? = some .pending ∧
        (requestInterrupt c .pause).wfs = setAt c.wfs wf (.interrupted c.nextCookie)) := by
  obtain ⟨n1, n2, n3⟩ := requestInterrupt_new c .pause
  have hio : IntOk (requestInterrupt c .pause) := by
    rw [intOk_iff]
    intro i hi
    rw [n1] at hi; cases hi
    exact ⟨n2, Or.inl n3⟩
  have hne : (requestInterrupt c .pause).interrupt ≠ none := by rw [n1]; intro h; cases h
  have f := setInterruptFromExc_pf { c with nextCookie := c.nextCookie + 1 } .pause c.nextCookie
  have fp := (setInterruptFromExc_pc { c with nextCookie := c.nextCookie + 1 } .pause c.nextCookie).2.2.1
  refine ⟨?_, ?_, ?_, ?_, hio, hne, ?_⟩
  all_goals unfold requestInterrupt interruptState
  · split
    · split
      · exact f.1
      · exact f.1
    · exact f.1
  · split
    · split
      · exact f.2.1
      · exact f.2.1
    · exact f.2.1
  · split
    · split
      · exact f.2.2.2
      · exact f.2.2.2
    · exact f.2.2.2
  · split
    · split
      · exact fp
      · exact fp
    · exact fp
  · split
    · rename_i fn wf wk aw hst
      have hst' : c.st = .waiting fn wf wk aw := by rw [← f.2.1]; exact hst
      split
      · rename_i hpend
        right
        refine ⟨fn, wf, wk, aw, hst', by rw [← f.2.2.1]; exact hpend, ?_⟩
        show setAt _ wf _ = _
        rw [f.2.2.1]
      · left; exact f.2.2.1
    · left; exact f.2.2.1

theorem play_shape (c : Cfg) :
    PFrame c (play c).1 ∧ (play c).1.interrupt = c.interrupt ∧ (IntOk c → IntOk (play c).1) ∧ (play c).1.paused = none := by
  unfold play
  split
  · rename_i hp
    split
    · rename_i i hi
      have f := cancelAction_pf c i
      refine ⟨PFrame.trans f ⟨rfl, rfl, rfl, rfl⟩, (cancelAction_fields c i).2.1, ?_, ?_⟩
      · intro h; exact (cancelAction_intOk c i h).of_eq rfl rfl
      · show (cancelAction c i).paused = none
        rw [(cancelAction_pc c i).2.2.1]; exact hp
    · exact ⟨PFrame.rfl' c, rfl, id, hp⟩
  · dsimp only
    split
    · exact ⟨⟨by simp [sh, notPP], rfl, rfl, rfl⟩, rfl, fun h => h.of_eq rfl rfl, rfl⟩
    · exact ⟨⟨by simp [sh, notPP], rfl, rfl, rfl⟩, rfl, fun h => h.of_eq rfl rfl, rfl⟩

theorem PcRelAt_congr (p : Pc) (c c' d : Cfg) (hst : c'.st = c.st) (h : PcRelAt p c d) : PcRelAt p c' d := by
  cases p with
  | notStarted => exact h
  | done => exact h
  | crashed e => exact h
  | awaitPaused pf => exact h
  | inUser b => simp only [PcRelAt] at h ⊢; rw [hst]; exact h
  | awaitWaiting wf => simp only [PcRelAt] at h ⊢; rw [hst]; exact h

theorem InStep.frame {c c' d : Cfg} (h : InStep c d) (f : PFrame c c') (hio : IntOk c')
    (hi : isRunningPc c.pc = false → c'.interrupt = none)
    (hp : isRunningPc c.pc = true → c'.paused = none) : InStep c' d := by
  have hs : c'.stepping = c.stepping := (sh_fields f.1).1
  refine ⟨h.core.left f, hio, ?_, ?_, ?_⟩
  · rw [f.2.2.2]; exact PcRelAt_congr _ _ _ _ f.2.1 h.pc
  · intro hr; rw [f.2.2.2] at hr; exact ⟨by rw [hs]; exact (h.run hr).1, hp hr⟩
  · intro hr; rw [f.2.2.2] at hr; exact ⟨by rw [hs]; exact (h.idle hr).1, hi hr⟩

theorem InStep.bframe {c c' d : Cfg} (h : InStep c d) (b : BFrame c c') : InStep c' d :=
  h.frame b.1 (h.intOk.of_eq b.2.1 b.2.2.1) (fun hr => by rw [b.2.1]; exact (h.idle hr).2)
    (fun hr => by rw [b.2.2.2]; exact (h.run hr).2)

theorem QW.frame {c c' d : Cfg} (h : QW c d) (f : PFrame c c') (hi : c'.interrupt ≠ none) (hio : IntOk c')
    (hp : c'.paused = none) : QW c' d := by
  obtain ⟨g1, g2, g3, g4, g5, g6, g7, g8, g9, g10, g11, g12, g13, g14, g15⟩ := sh_fields f.1
  obtain ⟨fn, wf, aw, wf', k, hst, hst', hw, hw', hpc, hpd⟩ := h.wait
  exact ⟨f.1.trans h.sh, by rw [g15]; exact h.ckill, h.dint, h.dpaused,
    ⟨fn, wf, aw, wf', k, by rw [f.2.1]; exact hst, hst', by rw [f.2.2.1]; exact hw, hw', by rw [f.2.2.2]; exact hpc, hpd⟩,
    hio, hi, by rw [g1]; exact h.stepping, hp⟩

theorem Lag.frame {P : Prog} {c c' d : Cfg} (h : Lag P c d) (f : PFrame c c') (hi : c'.interrupt = none) : Lag P c' d := by
  obtain ⟨hap, d0, n, hn, hD, hd, hm⟩ := h
  refine ⟨by rw [f.2.2.2]; exact hap, d0, n, hn, hD, hd, hm.core.left f, hi, ?_, ?_, hm.ncd⟩
  · have := (sh_fields f.1).1; rw [this]; exact hm.stepping
  · intro e he; rw [f.2.2.2] at he; exact hm.ncc e he

theorem setAt_self_get {α} (l : List α) (i : Nat) (a b : α) (h : l[i]? = some b) : (setAt l i a)[i]? = some a := by
  have hlt : i < l.length := (List.getElem?_eq_some_iff.mp h).1
  simp [setAt, hlt]

theorem QW.bframe {c c' d : Cfg} (h : QW c d) (b : BFrame c c') : QW c' d :=
  h.frame b.1 (by rw [b.2.1]; exact h.intSome) (h.intOk.of_eq b.2.1 b.2.2.1) (by rw [b.2.2.2]; exact h.paused)

theorem Lag.bframe {P : Prog} {c c' d : Cfg} (h : Lag P c d) (b : BFrame c c') : Lag P c' d :=
  h.frame b.1 (by rw [b.2.1]; exact h.2.choose_spec.choose_spec.2.2.2.int)

/-- a pause request keeps the simulation -/
theorem pause_sim (P : Prog) (c d : Cfg) (h : Sim P c d) : Sim P (pause c).1 d := by
  rcases h with h | h | h
  · -- in step
    rcases pause_shape c h.core.ckill with b | ⟨hs, he⟩ | ⟨hs, hpn, b⟩
    · exact Or.inl (h.bframe b)
    · rw [he]
      refine Or.inl (h.frame (doPauseHooks_pf c) (h.intOk.of_eq rfl rfl) (fun hr => (h.idle hr).2) ?_)
      intro hr; have := (h.run hr).1; rw [hs] at this; cases this
    · obtain ⟨r1, r2, r3, r4, r5, r6, r7⟩ := requestInterrupt_props c
      have hrun : isRunningPc c.pc = true := by
        cases hr : isRunningPc c.pc with
        | true => rfl
        | false => have := (h.idle hr).1; rw [hs] at this; cases this
      have hnotidle : isRunningPc c.pc = false → (requestInterrupt c .pause).interrupt = none := by
        intro hf; rw [hrun] at hf; cases hf
      rcases r7 with hw | ⟨fn, wf, wk, aw, hst, hpend, hw⟩
      · exact Or.inl ((h.frame ⟨r1, r2, hw, r3⟩ r5 hnotidle (fun _ => by rw [r4]; exact hpn)).bframe b)
      · -- the pending wait is interrupted
        have hpcr := h.pc
        cases hpc : c.pc with
        | notStarted => rw [hpc] at hrun; cases hrun
        | done => rw [hpc] at hrun; cases hrun
        | crashed e => rw [hpc] at hrun; cases hrun
        | awaitPaused pf => rw [hpc] at hrun; cases hrun
        | inUser b' =>
          rw [hpc] at hpcr
          obtain ⟨_, fn', a', k', hst2⟩ := hpcr
          rw [hst] at hst2; cases hst2
        | awaitWaiting wf0 =>
          rw [hpc] at hpcr
          obtain ⟨fn0, wk0, aw0, wf', hst0, hst', hpd⟩ := hpcr
          rw [hst] at hst0; cases hst0
          obtain ⟨wf2, w, hwk, hst2, hcw, hdw, hni⟩ := h.core.st.waiting_inv hst
          rw [hst'] at hst2; cases hst2
          subst hwk
          rw [hpend] at hcw; cases hcw
          obtain ⟨g1, g2, g3, g4, g5, g6, g7, g8, g9, g10, g11, g12, g13, g14, g15⟩ := sh_fields r1
          have hq : QW (requestInterrupt c .pause) d :=
            ⟨r1.trans h.core.sh, by rw [g15]; exact h.core.ckill, h.core.dint, h.core.dpaused,
              ⟨fn, wf, aw, wf', c.nextCookie, by rw [r2]; exact hst, hst', by rw [hw]; exact setAt_self_get _ _ _ _ hpend,
                hdw, by rw [r3]; exact hpc, hpd⟩,
              r5, r6, by rw [g1]; exact hs, by rw [r4]; exact hpn⟩
          exact Or.inr (Or.inl (hq.bframe b))
  · -- interrupted wait
    rcases pause_shape c h.ckill with b | ⟨hs, he⟩ | ⟨hs, hpn, b⟩
    · exact Or.inr (Or.inl (h.bframe b))
    · rw [h.stepping] at hs; cases hs
    · obtain ⟨r1, r2, r3, r4, r5, r6, r7⟩ := requestInterrupt_props c
      obtain ⟨fn, wf, aw, wf', k, hst, hst', hw, hw', hpc, hpd⟩ := h.wait
      have hwfs : (requestInterrupt c .pause).wfs = c.wfs := by
        rcases r7 with hw2 | ⟨fn2, wf2, wk2, aw2, hst2, hpend, _⟩
        · exact hw2
        · rw [hst] at hst2; cases hst2
          rw [hw] at hpend; cases hpend
      exact Or.inr (Or.inl ((h.frame ⟨r1, r2, hwfs, r3⟩ r6 r5 (by rw [r4]; exact hpn)).bframe b))
  · -- lagging
    have hm := h.2.choose_spec.choose_spec.2.2.2
    rcases pause_shape c hm.core.ckill with b | ⟨hs, he⟩ | ⟨hs, hpn, b⟩
    · exact Or.inr (Or.inr (h.bframe b))
    · rw [he]; exact Or.inr (Or.inr (h.frame (doPauseHooks_pf c) hm.int))
    · rw [hm.stepping] at hs; cases hs

/-- a play request keeps the simulation -/
theorem play_sim (P : Prog) (c d : Cfg) (h : Sim P c d) : Sim P (play c).1 d := by
  obtain ⟨f, hi, hio, hp⟩ := play_shape c
  rcases h with h | h | h
  · exact Or.inl (h.frame f (hio h.intOk) (fun hr => by rw [hi]; exact (h.idle hr).2) (fun _ => hp))
  · exact Or.inr (Or.inl (h.frame f (by rw [hi]; exact h.intSome) (hio h.intOk) hp))
  · exact Or.inr (Or.inr (h.frame f (by rw [hi]; exact h.2.choose_spec.choose_spec.2.2.2.int)))

/-! ### wake-up requests at quiet moments act alike on both runs -/

theorem PcRelAt_congr2 (p : Pc) (c c' d d' : Cfg) (hc : c'.st = c.st) (hd : d'.st = d.st) (hp : d'.pc = d.pc)
    (h : PcRelAt p c d) : PcRelAt p c' d' := by
  cases p with
  | notStarted => exact hp.trans h
  | done => exact hp.trans h
  | crashed e => exact hp.trans h
  | awaitPaused pf => exact h
  | inUser b => simp only [PcRelAt] at h ⊢; rw [hc, hp]; exact h
  | awaitWaiting wf => simp only [PcRelAt] at h ⊢; rw [hc, hd, hp]; exact h

/-- both runs changed in a way that keeps what `InStep` needs besides `Core` -/
theorem InStep.transfer {c d c' d' : Cfg} (h : InStep c d) (hcore : Core c' d') (hc : c'.st = c.st) (hd : d'.st = d.st)
    (hpc : c'.pc = c.pc) (hpd : d'.pc = d.pc) (hint : c'.interrupt = c.interrupt) (hact : c'.actions = c.actions)
    (hstep : c'.stepping = c.stepping) (hpa : c'.paused = c.paused) : InStep c' d' := by
  refine ⟨hcore, h.intOk.of_eq hint hact, ?_, ?_, ?_⟩
  · rw [hpc]; exact PcRelAt_congr2 _ _ _ _ _ hc hd hpd h.pc
  · intro hr; rw [hpc] at hr; rw [hstep, hpa]; exact h.run hr
  · intro hr; rw [hpc] at hr; rw [hstep, hint]; exact h.idle hr

/-- `Waiting._deliver` of an outcome on both runs -/
theorem deliver_inStep (c d : Cfg) (o : WF) (h : InStep c d) (ho : ∀ k, o ≠ .interrupted k) :
    InStep (deliver c o) (deliver d o) := by
  rcases h.core.st with ⟨heq, hnw⟩ | ⟨fn, wf, aw, wf', w, h1, h2, h3, h4, h5⟩
  · have e1 : deliver c o = c := by
      unfold deliver; split
      · rename_i a b c' d' hst; exact absurd hst (hnw _ _ _ _)
      · rfl
    have e2 : deliver d o = d := by
      unfold deliver; split
      · rename_i a b c' d' hst; rw [← heq] at hst; exact absurd hst (hnw _ _ _ _)
      · rfl
    rw [e1, e2]; exact h
  · by_cases hw : w = .pending
    · subst hw
      have e1 : deliver c o = { c with wfs := setAt c.wfs wf o } := by simp only [deliver, h1, h3]
      have e2 : deliver d o = { d with wfs := setAt d.wfs wf' o } := by simp only [deliver, h2, h4]
      rw [e1, e2]
      refine h.transfer ⟨h.core.sh, ?_, h.core.ckill, h.core.dint, h.core.dpaused⟩ rfl rfl rfl rfl rfl rfl rfl rfl
      exact Or.inr ⟨fn, wf, aw, wf', o, h1, h2, setAt_self_get _ _ _ _ h3, setAt_self_get _ _ _ _ h4, ho⟩
    · have e1 : deliver c o = c := by
        simp only [deliver, h1, h3]
        cases w <;> first | rfl | exact absurd rfl hw | exact absurd rfl (h5 _)
      have e2 : deliver d o = d := by
        simp only [deliver, h2, h4]
        cases w <;> first | rfl | exact absurd rfl hw | exact absurd rfl (h5 _)
      rw [e1, e2]; exact h

theorem resume_inStep (c d : Cfg) (v : Option Val) (h : InStep c d) : InStep (resume c v).1 (resume d v).1 := by
  rcases h.core.st with ⟨heq, hnw⟩ | ⟨fn, wf, aw, wf', w, h1, h2, h3, h4, h5⟩
  · have e1 : (resume c v).1 = c := by
      unfold resume; split
      · rename_i a b c' d' hst; exact absurd hst (hnw _ _ _ _)
      · rfl
    have e2 : (resume d v).1 = d := by
      unfold resume; split
      · rename_i a b c' d' hst; rw [← heq] at hst; exact absurd hst (hnw _ _ _ _)
      · rfl
    rw [e1, e2]; exact h
  · have e1 : (resume c v).1 = deliver c (.result v) := by simp only [resume, h1]
    have e2 : (resume d v).1 = deliver d (.result v) := by simp only [resume, h2]
    rw [e1, e2]; exact deliver_inStep c d _ h (by intro k hk; cases hk)

theorem complete_inStep (c d : Cfg) (f : Nat) (o : EFut) (h : InStep c d) : InStep (complete c f o) (complete d f o) := by
  obtain ⟨g1, g2, g3, g4, g5, g6, g7, g8, g9, g10, g11, g12, g13, g14, g15⟩ := sh_fields h.core.sh
  have e1 : d.efs[f]? = c.efs[f]? := by rw [g6]
  have e2 : d.efCb.contains f = c.efCb.contains f := by rw [g7]
  unfold complete
  rw [e1]
  split
  · dsimp only
    rw [e2]
    split
    · refine h.transfer ⟨?_, h.core.st, h.core.ckill, h.core.dint, h.core.dpaused⟩ rfl rfl rfl rfl rfl rfl rfl rfl
      rw [sh_eq_iff]; simp [*]
    · refine h.transfer ⟨?_, h.core.st, h.core.ckill, h.core.dint, h.core.dpaused⟩ rfl rfl rfl rfl rfl rfl rfl rfl
      rw [sh_eq_iff]; simp [*]
  · exact h

/-- `_awaitable_done` of a callback whose state object was left: it still writes the context -/
def onOld (c : Cfg) (f : Nat) : Cfg :=
  match c.efKeys.find? (·.1 = f), c.efs[f]? with
  | some (_, key), some (EFut.result v) => { c with ctx := (key, v) :: c.ctx.filter (·.1 ≠ key) }
  | _, _ => c

theorem aD_notWaiting (c : Cfg) (f : Nat) (h : NotWaiting c.st) : awaitableDone c f = onOld c f := by
  unfold awaitableDone onOld
  split
  · rename_i a b c' d' hst; exact absurd hst (h _ _ _ _)
  · rfl

theorem aD_waiting_none (c : Cfg) (f fn wf : Nat) (wk aw) (hst : c.st = .waiting fn wf wk aw)
    (hf : aw.find? (·.1 = f) = none) : awaitableDone c f = onOld c f := by
  unfold awaitableDone onOld
  simp only [hst, hf]
  rfl

theorem aD_some_result (c : Cfg) (f fn wf : Nat) (wk aw) (x key : Nat) (v : Val) (hst : c.st = .waiting fn wf wk aw)
    (hf : aw.find? (·.1 = f) = some (x, key)) (he : c.efs[f]? = some (.result v)) :
    awaitableDone c f =
      if (aw.filter (·.1 ≠ f)).isEmpty then
        deliver { c with st := .waiting fn wf wk (aw.filter (·.1 ≠ f)), ctx := (key, v) :: c.ctx.filter (·.1 ≠ key) } (.result none)
      else { c with st := .waiting fn wf wk (aw.filter (·.1 ≠ f)), ctx := (key, v) :: c.ctx.filter (·.1 ≠ key) } := by
  unfold awaitableDone
  simp only [hst, hf, he]

theorem aD_some_exc (c : Cfg) (f fn wf : Nat) (wk aw) (x key : Nat) (e : Exc) (hst : c.st = .waiting fn wf wk aw)
    (hf : aw.find? (·.1 = f) = some (x, key)) (he : c.efs[f]? = some (.exc e)) :
    awaitableDone c f = deliver { c with st := .waiting fn wf wk (aw.filter (·.1 ≠ f)) } (.failed e) := by
  unfold awaitableDone
  simp only [hst, hf, he]

theorem aD_some_other (c : Cfg) (f fn wf : Nat) (wk aw) (x key : Nat) (hst : c.st = .waiting fn wf wk aw)
    (hf : aw.find? (·.1 = f) = some (x, key)) (h1 : ∀ v, c.efs[f]? ≠ some (.result v)) (h2 : ∀ e, c.efs[f]? ≠ some (.exc e)) :
    awaitableDone c f = { c with st := .waiting fn wf wk (aw.filter (·.1 ≠ f)) } := by
  unfold awaitableDone
  simp only [hst, hf]

theorem InStep.ctx {c d : Cfg} (h : InStep c d) (X : List (Nat × Val)) : InStep { c with ctx := X } { d with ctx := X } := by
  refine h.transfer ⟨?_, h.core.st, h.core.ckill, h.core.dint, h.core.dpaused⟩ rfl rfl rfl rfl rfl rfl rfl rfl
  obtain ⟨g1, g2, g3, g4, g5, g6, g7, g8, g9, g10, g11, g12, g13, g14, g15⟩ := sh_fields h.core.sh
  rw [sh_eq_iff]; simp [*]

theorem onOld_inStep (c d : Cfg) (f : Nat) (h : InStep c d) : InStep (onOld c f) (onOld d f) := by
  obtain ⟨g1, g2, g3, g4, g5, g6, g7, g8, g9, g10, g11, g12, g13, g14, g15⟩ := sh_fields h.core.sh
  have e1 : d.efKeys.find? (·.1 = f) = c.efKeys.find? (·.1 = f) := by rw [g8]
  have e2 : d.efs[f]? = c.efs[f]? := by rw [g6]
  have e3 : d.ctx = c.ctx := g9.symm
  unfold onOld
  rw [e1, e2]
  split
  · rw [e3]; exact h.ctx _
  · exact h

theorem InStep.aw {c d : Cfg} (h : InStep c d) (fn wf wf' : Nat) (aw aw' : List (Nat × Nat))
    (hst : c.st = .waiting fn wf none aw) (hst' : d.st = .waiting fn wf' none aw) :
    InStep { c with st := .waiting fn wf none aw' } { d with st := .waiting fn wf' none aw' } := by
  obtain ⟨wf2, w, _, hst2, hcw, hdw, hni⟩ := h.core.st.waiting_inv hst
  rw [hst'] at hst2; cases hst2
  refine ⟨⟨h.core.sh, Or.inr ⟨fn, wf, aw', wf', w, rfl, rfl, hcw, hdw, hni⟩, h.core.ckill, h.core.dint, h.core.dpaused⟩,
    h.intOk.of_eq rfl rfl, ?_, h.run, h.idle⟩
  have hp := h.pc
  show PcRelAt c.pc _ _
  cases hpc : c.pc with
  | notStarted => rw [hpc] at hp; exact hp
  | done => rw [hpc] at hp; exact hp
  | crashed e => rw [hpc] at hp; exact hp
  | awaitPaused pf => rw [hpc] at hp; exact hp
  | inUser b =>
    rw [hpc] at hp
    obtain ⟨_, fn', a', k', hr⟩ := hp
    rw [hst] at hr; cases hr
  | awaitWaiting wf0 =>
    rw [hpc] at hp
    obtain ⟨fn0, wk0, aw0, wf0', h1, h2, h3⟩ := hp
    rw [hst] at h1; cases h1
    rw [hst'] at h2; cases h2
    exact ⟨fn, none, aw', wf', rfl, rfl, h3⟩

theorem awaitableDone_inStep (c d : Cfg) (f : Nat) (h : InStep c d) : InStep (awaitableDone c f) (awaitableDone d f) := by
  obtain ⟨g1, g2, g3, g4, g5, g6, g7, g8, g9, g10, g11, g12, g13, g14, g15⟩ := sh_fields h.core.sh
  rcases h.core.st with ⟨heq, hnw⟩ | ⟨fn, wf, aw, wf', w, h1, h2, h3, h4, h5⟩
  · rw [aD_notWaiting c f hnw, aD_notWaiting d f (heq ▸ hnw)]
    exact onOld_inStep c d f h
  · cases hf : aw.find? (·.1 = f) with
    | none =>
      rw [aD_waiting_none c f fn wf none aw h1 hf, aD_waiting_none d f fn wf' none aw h2 hf]
      exact onOld_inStep c d f h
    | some xk =>
      obtain ⟨x, key⟩ := xk
      have e2 : d.efs[f]? = c.efs[f]? := by rw [g6]
      have haw := h.aw fn wf wf' aw (aw.filter (·.1 ≠ f)) h1 h2
      cases he : c.efs[f]? with
      | none =>
        rw [aD_some_other c f fn wf none aw x key h1 hf (by rw [he]; intro v hv; cases hv) (by rw [he]; intro v hv; cases hv),
          aD_some_other d f fn wf' none aw x key h2 hf (by rw [e2, he]; intro v hv; cases hv) (by rw [e2, he]; intro v hv; cases hv)]
        exact haw
      | some o =>
        cases o with
        | pending =>
          rw [aD_some_other c f fn wf none aw x key h1 hf (by rw [he]; intro v hv; cases hv) (by rw [he]; intro v hv; cases hv),
            aD_some_other d f fn wf' none aw x key h2 hf (by rw [e2, he]; intro v hv; cases hv) (by rw [e2, he]; intro v hv; cases hv)]
          exact haw
        | result v =>
          rw [aD_some_result c f fn wf none aw x key v h1 hf he, aD_some_result d f fn wf' none aw x key v h2 hf (by rw [e2, he])]
          have hc2 := haw.ctx ((key, v) :: c.ctx.filter (·.1 ≠ key))
          rw [← g9]
          split
          · exact deliver_inStep _ _ _ hc2 (by intro k hk; cases hk)
          · exact hc2
        | exc e =>
          rw [aD_some_exc c f fn wf none aw x key e h1 hf he, aD_some_exc d f fn wf' none aw x key e h2 hf (by rw [e2, he])]
          exact deliver_inStep _ _ _ haw (by intro k hk; cases hk)

theorem tickCb_adone_inStep (c d : Cfg) (f : Nat) (h : InStep c d) :
    InStep (tickCb c (.adone f)) (tickCb d (.adone f)) := by
  have g10 : c.ready = d.ready := (sh_fields h.core.sh).2.2.2.2.2.2.2.2.2.1
  unfold tickCb
  rw [← g10]
  split
  · dsimp only
    apply awaitableDone_inStep
    refine h.transfer ⟨?_, h.core.st, h.core.ckill, h.core.dint, h.core.dpaused⟩ rfl rfl rfl rfl rfl rfl rfl rfl
    obtain ⟨g1, g2, g3, g4, g5, g6, g7, g8, g9, g10, g11, g12, g13, g14, g15⟩ := sh_fields h.core.sh
    rw [sh_eq_iff]; simp [*]
  · exact h

theorem InStep.ready {c d : Cfg} (h : InStep c d) (R R' : List Cb) (hR : R = R') :
    InStep { c with ready := R } { d with ready := R' } := by
  subst hR
  refine h.transfer ⟨?_, h.core.st, h.core.ckill, h.core.dint, h.core.dpaused⟩ rfl rfl rfl rfl rfl rfl rfl rfl
  obtain ⟨g1, g2, g3, g4, g5, g6, g7, g8, g9, g10, g11, g12, g13, g14, g15⟩ := sh_fields h.core.sh
  rw [sh_eq_iff]; simp [*]

theorem callSoon_inStep (c d : Cfg) (r : Bool) (h : InStep c d) :
    InStep { c with ready := c.ready ++ [.usercb r] } { d with ready := d.ready ++ [.usercb r] } :=
  h.ready _ _ (by rw [(sh_fields h.core.sh).2.2.2.2.2.2.2.2.2.1])

theorem tickCb_usercb_inStep (c d : Cfg) (h : InStep c d) :
    InStep (tickCb c (.usercb false)) (tickCb d (.usercb false)) := by
  have g10 : c.ready = d.ready := (sh_fields h.core.sh).2.2.2.2.2.2.2.2.2.1
  unfold tickCb
  rw [← g10]
  split
  · simp only [Bool.false_eq_true, if_false]
    exact h.ready _ _ (by rw [g10])
  · exact h

/-! ### whole histories -/

theorem run_append (P : Prog) (c : Cfg) (xs ys : List Ev) : run P c (xs ++ ys) = run P (run P c xs) ys := by
  simp [run, List.foldl_append]

theorem fuelOk_append (P : Prog) : ∀ (xs ys : List Ev) (c : Cfg),
    fuelOk P c (xs ++ ys) = (fuelOk P c xs && fuelOk P (run P c xs) ys) := by
  intro xs
  induction xs with
  | nil => intro ys c; simp [fuelOk, run]
  | cons x rest ih =>
    intro ys c
    simp only [List.cons_append, fuelOk, ih, Bool.and_assoc]
    rfl

theorem sim_init (P : Prog) (nf : Nat) : Sim P (init nf) (init nf) := by
  refine Or.inl ⟨⟨rfl, Or.inl ⟨rfl, by intro a b c d h; cases h⟩, rfl, rfl, rfl⟩, IntOk.of_none rfl, rfl, ?_, fun _ => ⟨rfl, rfl⟩⟩
  intro h; cases h

theorem SL.sim {P : Prog} {c d : Cfg} (h : SL P c d) : Sim P c d := by
  rcases h with h | h
  · exact Or.inl h
  · exact Or.inr (Or.inr h)

theorem quiet_inStep {P : Prog} {c d : Cfg} (h : Sim P c d) (hq : quiet c = true) : InStep c d := by
  simp only [quiet, Bool.and_eq_true, Bool.not_eq_true'] at hq
  rcases h with h | h | h
  · exact h
  · obtain ⟨fn, wf, aw, wf', k, hst, _, hw, _⟩ := h.wait
    have : waitInterrupted c = true := by simp only [waitInterrupted, hst, hw]
    rw [this] at hq; simp at hq
  · rw [h.1] at hq; simp at hq

/-- one event of the history with pauses and its image in the reference history -/
theorem step_sim (P : Prog) (c d : Cfg) (e : Ev) (h : Sim P c d) (hinv : InvP c) (hI : Inv c)
    (ha : evAllowed c e = true) (hf : fuelOk P d (evImage c e) = true) :
    Sim P (step P c e).1 (run P d (evImage c e)) := by
  cases e with
  | pause => exact pause_sim P c d h
  | play => exact play_sim P c d h
  | tick =>
    rcases h with h | h | h
    · have hnp : isAwaitPaused c.pc = false := by
        cases hpc : c.pc with
        | awaitPaused pf => have := h.pc; rw [hpc] at this; exact absurd this (by simp [PcRelAt])
        | _ => rfl
      simp only [evImage, hnp, Bool.false_eq_true, if_false, fuelOk, Bool.and_true] at hf ⊢
      exact (tick_inStep P c d h hinv hf).sim
    · obtain ⟨fn, wf, aw, wf', k, hst, hst', hw, hw', hpc, hpd⟩ := h.wait
      have hnp : isAwaitPaused c.pc = false := by rw [hpc]; rfl
      simp only [evImage, hnp, Bool.false_eq_true, if_false]
      obtain ⟨h1, h2⟩ := tick_qw P c d h hinv hI
      show Sim P (tickStepper P c) (tickStepper P d)
      rw [h2]; exact h1.sim
    · simp only [evImage, h.1, if_true]
      exact (tick_lag P c d h hinv hI).sim
  | resume v =>
    have hq := quiet_inStep h ha
    exact Or.inl (resume_inStep c d v hq)
  | complete f o =>
    have hq := quiet_inStep h ha
    exact Or.inl (complete_inStep c d f o hq)
  | tickCb cb =>
    cases cb with
    | adone f =>
      have hq := quiet_inStep h ha
      exact Or.inl (tickCb_adone_inStep c d f hq)
    | trykill => simp [evAllowed] at ha
    | usercb r =>
      cases r with
      | true => simp [evAllowed] at ha
      | false =>
        have hq := quiet_inStep h ha
        exact Or.inl (tickCb_usercb_inStep c d hq)
  | kill => simp [evAllowed] at ha
  | fail e => simp [evAllowed] at ha
  | cancelFut => simp [evAllowed] at ha
  | callSoon r =>
    have hq := quiet_inStep h ha
    exact Or.inl (callSoon_inStep c d r hq)

/-- **simulation over whole histories** -/
theorem run_sim (P : Prog) : ∀ (evs : List Ev) (c d : Cfg), Sim P c d → InvP c → Inv c → admissible P c evs = true →
    fuelOk P d (unpaused P c evs) = true → Sim P (run P c evs) (run P d (unpaused P c evs)) := by
  intro evs
  induction evs with
  | nil => intro c d h _ _ _ _; exact h
  | cons e es ih =>
    intro c d h hinv hI ha hf
    simp only [admissible, Bool.and_eq_true] at ha
    simp only [unpaused, fuelOk_append, Bool.and_eq_true] at hf
    rw [show run P c (e :: es) = run P (step P c e).1 es from rfl]
    simp only [unpaused, run_append]
    exact ih _ _ (step_sim P c d e h hinv hI ha.1 hf.1) (step_invP P c e hinv) (step_inv P c e hI) ha.2 hf.2

/-! ### what the simulation gives -/

/-- when the run with pauses has terminated, so has the reference run, in the same state and with the same shared fields -/
theorem Sim.of_terminal {P : Prog} {c d : Cfg} (h : Sim P c d) (ht : terminal c.st.label = true) : d.st = c.st ∧ sh d = sh c := by
  have nw : ∀ {x y : Cfg}, Core x y → terminal x.st.label = true → y.st = x.st := by
    intro x y hc hx
    rcases hc.st with ⟨heq, _⟩ | ⟨fn, wf, aw, wf', w, h1, _⟩
    · exact heq.symm
    · rw [h1] at hx; simp [SObj.label, PMF.terminal, allowed] at hx
  rcases h with h | h | h
  · exact ⟨nw h.core ht, h.core.sh.symm⟩
  · obtain ⟨fn, wf, aw, wf', k, hst, _⟩ := h.wait
    rw [hst] at ht; simp [SObj.label, PMF.terminal, allowed] at ht
  · obtain ⟨_, d0, n, _, hD, hd, hm⟩ := h
    obtain ⟨n', rfl⟩ : ∃ n', n = n' + 1 := by
      cases n with
      | zero => simp [loopDone] at hD
      | succ n' => exact ⟨n', rfl⟩
    have h0 := nw hm.core ht
    rw [hd, loopHead_term P n' d0 hm.ncd (by rw [h0]; exact ht)]
    exact ⟨h0, hm.core.sh.symm⟩

/-- at a quiet moment both runs are at the same point: same state object up to the index of the wait future, same shared
fields (trace, context, process future, logs, scheduled callbacks, stepping flag, …) -/
theorem Sim.at_quiet {P : Prog} {c d : Cfg} (h : Sim P c d) (hq : quiet c = true) : SSim c.st d.st ∧ sh d = sh c :=
  ⟨(quiet_inStep h hq).core.st.ssim, (quiet_inStep h hq).core.sh.symm⟩

/-- erasure of the pause and play requests of a history -/
def erasePP : List Ev → List Ev
  | [] => []
  | .pause :: es => erasePP es
  | .play :: es => erasePP es
  | e :: es => e :: erasePP es

def isTick : Ev → Bool
  | .tick => true
  | _ => false

theorem evImage_mem (c : Cfg) (x e : Ev) (h : e ∈ evImage c x) : e ≠ .pause ∧ e ≠ .play := by
  cases x with
  | pause => simp [evImage] at h
  | play => simp [evImage] at h
  | tick =>
    simp only [evImage] at h
    split at h
    · cases h
    · simp at h; subst h; exact ⟨(by intro h; cases h), (by intro h; cases h)⟩
  | _ => simp [evImage] at h; subst h; exact ⟨(by intro h; cases h), (by intro h; cases h)⟩

theorem unpaused_no_pp (P : Prog) : ∀ (evs : List Ev) (c : Cfg), ∀ e ∈ unpaused P c evs, e ≠ .pause ∧ e ≠ .play := by
  intro evs
  induction evs with
  | nil => intro c e he; simp [unpaused] at he
  | cons x rest ih =>
    intro c e he
    simp only [unpaused, List.mem_append] at he
    rcases he with he | he
    · exact evImage_mem c x e he
    · exact ih _ e he

theorem unpaused_sublist (P : Prog) : ∀ (evs : List Ev) (c : Cfg), (unpaused P c evs).Sublist (erasePP evs) := by
  intro evs
  induction evs with
  | nil => intro c; exact List.Sublist.slnil
  | cons x rest ih =>
    intro c
    have := ih (step P c x).1
    cases x with
    | pause => simpa [unpaused, evImage, erasePP] using this
    | play => simpa [unpaused, evImage, erasePP] using this
    | tick =>
      simp only [unpaused, evImage, erasePP]
      split
      · exact List.Sublist.cons _ this
      · exact List.Sublist.cons_cons _ this
    | tickCb cb => exact List.Sublist.cons_cons _ this
    | kill => exact List.Sublist.cons_cons _ this
    | resume v => exact List.Sublist.cons_cons _ this
    | fail e => exact List.Sublist.cons_cons _ this
    | cancelFut => exact List.Sublist.cons_cons _ this
    | complete f o => exact List.Sublist.cons_cons _ this
    | callSoon r => exact List.Sublist.cons_cons _ this

theorem unpaused_nonticks (P : Prog) : ∀ (evs : List Ev) (c : Cfg),
    (unpaused P c evs).filter (fun e => !isTick e) = (erasePP evs).filter (fun e => !isTick e) := by
  intro evs
  induction evs with
  | nil => intro c; rfl
  | cons x rest ih =>
    intro c
    have := ih (step P c x).1
    cases x with
    | pause => simpa [unpaused, evImage, erasePP] using this
    | play => simpa [unpaused, evImage, erasePP] using this
    | tick =>
      simp only [unpaused, evImage, erasePP]
      split <;> simpa [isTick] using this
    | tickCb cb => simpa [unpaused, evImage, erasePP, isTick] using this
    | kill => simpa [unpaused, evImage, erasePP, isTick] using this
    | resume v => simpa [unpaused, evImage, erasePP, isTick] using this
    | fail e => simpa [unpaused, evImage, erasePP, isTick] using this
    | cancelFut => simpa [unpaused, evImage, erasePP, isTick] using this
    | complete f o => simpa [unpaused, evImage, erasePP, isTick] using this
    | callSoon r => simpa [unpaused, evImage, erasePP, isTick] using this

/-! ### the run with pauses is never ahead: its trace is the older part of the reference run's trace -/

/-- `c'` has executed what `c` has executed, and possibly more (traces are newest first) -/
def TraceExt (c c' : Cfg) : Prop := ∃ l, c'.trace = l ++ c.trace
theorem TraceExt.of_eq {c c' : Cfg} (h : c'.trace = c.trace) : TraceExt c c' := ⟨[], by simp [h]⟩
theorem TraceExt.trans {a b c : Cfg} (h1 : TraceExt a b) (h2 : TraceExt b c) : TraceExt a c := by
  obtain ⟨l1, e1⟩ := h1; obtain ⟨l2, e2⟩ := h2
  exact ⟨l2 ++ l1, by rw [e2, e1, List.append_assoc]⟩

theorem runAction_trace (c : Cfg) (i : Nat) (next : Option SObj) : (runAction c i next).trace = c.trace := by
  unfold runAction
  split
  · rfl
  · split
    · rfl
    · split
      · dsimp only
        rw [(setActionStatus_sameP _ _ _).2.1]
        show (match next with | some s => transitionTo c s | none => c).trace = c.trace
        cases next with
        | none => rfl
        | some s => exact (transitionTo_keep c s).1
      · dsimp only
        rw [(setActionStatus_sameP _ _ _).2.1]
        exact (transitionTo_keep c _).1

theorem dispatch_trace (c : Cfg) (next : Option SObj) : (dispatch c next).trace = c.trace := by
  unfold dispatch
  split
  · rfl
  · split
    · split
      · exact runAction_trace ..
      · cases next with
        | none => rfl
        | some s => exact (transitionTo_keep c s).1
    · cases next with
      | none => rfl
      | some s => exact (transitionTo_keep c s).1

theorem endOfStep_trace (c : Cfg) (r : StepEnd) : (endOfStep c r).trace = c.trace := by
  rw [endOfStep_unfold]
  rw [(finally_sameP _).2.1, dispatch_trace, (prepare_sameP c r).2.1]

theorem finishUser_trace (c : Cfg) (o : Outcome) : (finishUser c o).trace = c.trace := by
  cases o with
  | raise e => exact endOfStep_trace ..
  | ret cmd =>
    show (endOfStep (cmdToState c cmd).1 _).trace = c.trace
    rw [endOfStep_trace, (cmdToState_sameP c cmd).2.1]

theorem wake_trace (c : Cfg) (fn wf : Nat) (w : WF) : (wake c fn wf w).trace = c.trace := by
  cases w with
  | pending => rfl
  | result v => exact endOfStep_trace ..
  | failed e => exact endOfStep_trace ..
  | interrupted k =>
    unfold wake
    dsimp only
    rw [endOfStep_trace]
    split
    · split <;> rfl
    · rfl

theorem traceExt_cont (k : Cfg → Cfg) (hk : ∀ e, TraceExt e (k e)) (c e : Cfg) (h : e.trace = c.trace) : TraceExt c (k e) :=
  TraceExt.trans (TraceExt.of_eq h) (hk e)

theorem stepBodyK_traceExt (P : Prog) (k : Cfg → Cfg) (hk : ∀ e, TraceExt e (k e)) (c : Cfg) :
    TraceExt c (stepBodyK P k c) := by
  cases hst : c.st with
  | created fn =>
    rw [stepBodyK_created P k c fn hst]
    exact traceExt_cont k hk c _ (endOfStep_trace _ _)
  | running fn args kw =>
    rw [stepBodyK_running P k c fn args kw hst]
    split
    · refine TraceExt.trans ?_ (hk _)
      exact ⟨[{ fn := fn, args := args, kw := kw, paused := c.paused.isSome }], by rw [finishUser_trace]; rfl⟩
    · exact ⟨[{ fn := fn, args := args, kw := kw, paused := c.paused.isSome }], rfl⟩
  | waiting fn wf wk aw =>
    cases hw : c.wfs[wf]? with
    | none =>
      have : stepBodyK P k c = { c with stepping := true } := by
        unfold stepBodyK; dsimp only; rw [hst]; dsimp only; rw [hw]
      rw [this]; exact TraceExt.of_eq rfl
    | some w =>
      by_cases hp : w = .pending
      · subst hp
        rw [stepBodyK_waiting_pending P k c fn wf wk aw hst hw]; exact TraceExt.of_eq rfl
      · rw [stepBodyK_waiting_done P k c fn wf wk aw w hst hw hp]
        exact traceExt_cont k hk c _ (wake_trace _ _ _ _)
  | finished v ok =>
    rw [stepBodyK_terminal P k c (by rw [hst]; simp [SObj.label, terminal, allowed])]
    exact traceExt_cont k hk c _ (endOfStep_trace _ _)
  | excepted e =>
    rw [stepBodyK_terminal P k c (by rw [hst]; simp [SObj.label, terminal, allowed])]
    exact traceExt_cont k hk c _ (endOfStep_trace _ _)
  | killed =>
    rw [stepBodyK_terminal P k c (by rw [hst]; simp [SObj.label, terminal, allowed])]
    exact traceExt_cont k hk c _ (endOfStep_trace _ _)

theorem loopHead_traceExt (P : Prog) : ∀ (n : Nat) (c : Cfg), TraceExt c (loopHead P n c) := by
  intro n
  induction n with
  | zero => intro c; exact TraceExt.of_eq rfl
  | succ n ih =>
    intro c
    unfold loopHead
    split
    · exact TraceExt.of_eq rfl
    · split
      · exact TraceExt.of_eq rfl
      · split
        · exact TraceExt.of_eq rfl
        · split
          · split
            · exact TraceExt.of_eq rfl
            · exact stepBodyK_traceExt P _ ih c
          · exact stepBodyK_traceExt P _ ih c

/-- in every phase of the simulation the reference run has executed everything the run with pauses has executed, in the
same order, and possibly more -/
theorem Sim.never_ahead {P : Prog} {c d : Cfg} (h : Sim P c d) : TraceExt c d := by
  rcases h with h | h | h
  · exact TraceExt.of_eq (sh_fields h.core.sh).2.2.2.2.2.2.2.2.2.2.2.1.symm
  · exact TraceExt.of_eq (sh_fields h.sh).2.2.2.2.2.2.2.2.2.2.2.1.symm
  · obtain ⟨_, d0, n, _, _, hd, hm⟩ := h
    rw [hd]
    exact TraceExt.trans (TraceExt.of_eq (sh_fields hm.core.sh).2.2.2.2.2.2.2.2.2.2.2.1.symm) (loopHead_traceExt P n d0)

end PMF
