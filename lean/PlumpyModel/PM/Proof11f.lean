import PlumpyModel.PM.Proof11e
/-!
# C06 at the level of histories, part 6: the first accepted value wins (`Deliv`)

`Deliv fn v t0 c` describes every configuration that can follow the acceptance of `resume(v)` by a WAITING state with
continuation `fn`, when the trace of user calls was `t0` at that moment:

* `held`  — still the same WAITING epoch, and its wait still holds `v` (in the future, or parked), nothing activated;
* `ready` — the wait was consumed: the state is RUNNING `fn(*argsOf v)`, not yet activated (the process is paused);
* `over`  — the process terminated (kill, fail, …) before the continuation was activated; nothing was activated;
* `done`  — the first activation after the acceptance was `fn(*argsOf v)`.

`step_deliv`: every event keeps `Deliv` (in coherent configurations).  Hence no later `resume(u)`, no pause / play /
interruption / re-arming can change what the continuation receives, and nothing else is activated in between.
-/
namespace PMF.H6
open PMF

def actOf (fn : Nat) (v : Option Val) : Act := { fn := fn, args := argsOf v, kw := [], paused := false }

inductive Deliv (fn : Nat) (v : Option Val) (t0 : List Act) (c : Cfg) : Prop
  | held (wf : Nat) (wk : Option WF) (aw : List (Nat × Nat)) (hst : c.st = .waiting fn wf wk aw) (hh : Holds c wf wk v)
      (ht : c.trace = t0)
  | ready (hst : c.st = .running fn (argsOf v) []) (hns : c.stepping = false) (ht : c.trace = t0)
  | over (hterm : terminal c.st.label = true) (ht : c.trace = t0)
  | done (extra : List Act) (ht : c.trace = extra ++ actOf fn v :: t0)

/-! ### terminal configurations: no tick adds to the trace -/

theorem loopHead_terminal_fields (P : Prog) (fuel : Nat) (c : Cfg) (ht : terminal c.st.label = true) :
    (loopHead P fuel c).trace = c.trace ∧ (loopHead P fuel c).st = c.st := by
  cases fuel with
  | zero => exact ⟨rfl, rfl⟩
  | succ n =>
    unfold loopHead
    split
    · exact ⟨rfl, rfl⟩
    · simp [ht]

theorem stepBody_terminal_fields (P : Prog) (fuel : Nat) (c : Cfg) (ht : terminal c.st.label = true) :
    (stepBody P fuel c).trace = c.trace := by
  obtain ⟨h1, h2, h3⟩ := not_live_of_terminal ht
  unfold stepBody stepBodyK
  dsimp only
  split
  · rename_i fn h; exact absurd h (h1 fn)
  · rename_i fn a k h; exact absurd h (h2 fn a k)
  · rename_i fn wf wk aw h; exact absurd h (h3 fn wf wk aw)
  · have he := endOfStep_terminal { c with stepping := true } (.next none) ht
    exact ((loopHead_terminal_fields P fuel _ (by rw [he.2.1]; exact ht)).1).trans (endOfStep_trace _ _)

theorem tickStepper_terminal_trace (P : Prog) (c : Cfg) (ht : terminal c.st.label = true) :
    (tickStepper P c).trace = c.trace := by
  unfold tickStepper
  split
  · exact (loopHead_terminal_fields P _ c ht).1
  · split
    · split
      · split
        · rfl
        · exact stepBody_terminal_fields P _ c ht
      · exact stepBody_terminal_fields P _ c ht
    · rfl
  · split
    · have hf := finishUser_terminal c ‹Body›.out ht
      exact ((loopHead_terminal_fields P _ _ (by rw [hf.2]; exact ht)).1).trans (finishUser_trace _ _)
    · rfl
  · rename_i wf _
    split
    · rfl
    · rename_i w _ _
      have hf := wake_terminal c (wakeFn c) wf w ht
      exact ((loopHead_terminal_fields P _ (wake c (wakeFn c) wf w) (by rw [hf.2]; exact ht)).1).trans (wake_trace _ _ _ _)
    · rfl
  · rfl

theorem step_terminal_trace (P : Prog) (c : Cfg) (ev : Ev) (ht : terminal c.st.label = true) :
    (step P c ev).1.trace = c.trace := by
  cases ev <;> simp only [step]
  · exact tickStepper_terminal_trace P c ht
  · exact tickCb_trace c _
  · exact pause_trace c
  · exact play_trace c
  · exact kill_trace c
  · exact resume_trace c _
  · exact fail_trace c _
  · unfold cancelFut; split <;> rfl
  · unfold complete; split
    · dsimp only; split <;> rfl
    · rfl

end PMF.H6
