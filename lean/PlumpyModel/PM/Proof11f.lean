import PlumpyModel.PM.Proof11e
/-!
# C06 at the level of histories, part 6: the first accepted value wins (`Deliv`)

`Deliv fn v t0 c` describes every configuration that can follow the acceptance of `resume(v)` by a WAITING state with
continuation `fn`, when the trace of user calls was `t0` at that moment:

* `held`  — still the same WAITING epoch, and its wait still holds `v` (in the future, or parked), nothing activated;
* `ready` — the wait was consumed: the state is RUNNING `fn(*argsOf v)`, not yet activated (the process is paused);
* `over`  — the process terminated (kill, fail, …) before the continuation was activated; nothing was activated;
* `done`  — the first activation after the acceptance was `fn(*argsOf v)`.

`step_deliv`: every event keeps `Deliv` (in coherent configurations).  Hence no later `resume(u)`, no pause / play /
interruption / re-arming can change what the continuation receives, and nothing else is activated in between.
-/
namespace PMF.H6
open PMF

def actOf (fn : Nat) (v : Option Val) : Act := { fn := fn, args := argsOf v, kw := [], paused := false }

inductive Deliv (fn : Nat) (v : Option Val) (t0 : List Act) (c : Cfg) : Prop
  | held (wf : Nat) (wk : Option WF) (aw : List (Nat × Nat)) (hst : c.st = .waiting fn wf wk aw) (hh : Holds c wf wk v)
      (ht : c.trace = t0)
  | ready (hst : c.st = .running fn (argsOf v) []) (hns : c.stepping = false) (ht : c.trace = t0)
  | over (hterm : terminal c.st.label = true) (ht : c.trace = t0)
  | done (extra : List Act) (ht : c.trace = extra ++ actOf fn v :: t0)

/-! ### terminal configurations: no tick adds to the trace -/

theorem loopHead_terminal_fields (P : Prog) (fuel : Nat) (c : Cfg) (ht : terminal c.st.label = true) :
    (loopHead P fuel c).trace = c.trace ∧ (loopHead P fuel c).st = c.st := by
  cases fuel with
  | zero => exact ⟨rfl, rfl⟩
  | succ n =>
    unfold loopHead
    split
    · exact ⟨rfl, rfl⟩
    · simp [ht]

theorem stepBody_terminal_fields (P : Prog) (fuel : Nat) (c : Cfg) (ht : terminal c.st.label = true) :
    (stepBody P fuel c).trace = c.trace := by
  obtain ⟨h1, h2, h3⟩ := not_live_of_terminal ht
  unfold stepBody stepBodyK
  dsimp only
  split
  · rename_i fn h; exact absurd h (h1 fn)
  · rename_i fn a k h; exact absurd h (h2 fn a k)
  · rename_i fn wf wk aw h; exact absurd h (h3 fn wf wk aw)
  · have he := endOfStep_terminal { c with stepping := true } (.next none) ht
    exact ((loopHead_terminal_fields P fuel _ (by rw [he.2.1]; exact ht)).1).trans (endOfStep_trace _ _)

theorem tickStepper_terminal_trace (P : Prog) (c : Cfg) (ht : terminal c.st.label = true) :
    (tickStepper P c).trace = c.trace := by
  unfold tickStepper
  split
  · exact (loopHead_terminal_fields P _ c ht).1
  · split
    · split
      · split
        · rfl
        · exact stepBody_terminal_fields P _ c ht
      · exact stepBody_terminal_fields P _ c ht
    · rfl
  · split
    · have hf := finishUser_terminal c ‹Body›.out ht
      exact ((loopHead_terminal_fields P _ _ (by rw [hf.2]; exact ht)).1).trans (finishUser_trace _ _)
    · rfl
  · rename_i wf _
    split
    · rfl
    · rename_i w _ _
      have hf := wake_terminal c (wakeFn c) wf w ht
      exact ((loopHead_terminal_fields P _ (wake c (wakeFn c) wf w) (by rw [hf.2]; exact ht)).1).trans (wake_trace _ _ _ _)
    · rfl
  · rfl

theorem step_terminal_trace (P : Prog) (c : Cfg) (ev : Ev) (ht : terminal c.st.label = true) :
    (step P c ev).1.trace = c.trace := by
  cases ev <;> simp only [step]
  · exact tickStepper_terminal_trace P c ht
  · exact tickCb_trace c _
  · exact pause_trace c
  · exact play_trace c
  · exact kill_trace c
  · exact resume_trace c _
  · exact fail_trace c _
  · unfold cancelFut; split <;> rfl
  · unfold complete; split
    · dsimp only; split <;> rfl
    · rfl


/-! ### `Deliv` under the control calls and scheduled callbacks -/

/-- `d` differs from `c` in nothing `Deliv` looks at (an interruption may have been written into a PENDING future) -/
def Quiet (c d : Cfg) : Prop :=
  d.st = c.st ∧ d.stepping = c.stepping ∧ d.trace = c.trace ∧
  (∀ wf, wfOf c.st = some wf → c.wfs[wf]? ≠ some .pending → d.wfs = c.wfs)

theorem Quiet.of_eq {c d : Cfg} (h1 : d.st = c.st) (h2 : d.stepping = c.stepping) (h3 : d.trace = c.trace) (h4 : d.wfs = c.wfs) :
    Quiet c d := ⟨h1, h2, h3, fun _ _ _ => h4⟩

theorem holds_not_pending {c : Cfg} {wf : Nat} {wk : Option WF} {v : Option Val} (hh : Holds c wf wk v) :
    c.wfs[wf]? ≠ some .pending := by
  rcases hh with g | ⟨⟨k, g⟩, _⟩ <;> rw [g] <;> intro h <;> cases h

theorem Deliv.quiet {fn : Nat} {v : Option Val} {t0 : List Act} {c d : Cfg} (h : Deliv fn v t0 c) (q : Quiet c d) :
    Deliv fn v t0 d := by
  cases h with
  | held wf wk aw hst hh ht =>
    have hw : d.wfs = c.wfs := q.2.2.2 wf (by rw [hst]; rfl) (holds_not_pending hh)
    exact .held wf wk aw (q.1.trans hst) (by unfold Holds at *; rw [hw]; exact hh) (q.2.2.1.trans ht)
  | ready hst hns ht => exact .ready (q.1.trans hst) (q.2.1.trans hns) (q.2.2.1.trans ht)
  | over hterm ht => exact .over (by rw [q.1]; exact hterm) (q.2.2.1.trans ht)
  | done extra ht => exact .done extra (q.2.2.1.trans ht)

theorem Deliv.terminated {fn : Nat} {v : Option Val} {t0 : List Act} {c d : Cfg} (h : Deliv fn v t0 c)
    (hterm : terminal d.st.label = true) (htr : d.trace = c.trace) : Deliv fn v t0 d := by
  cases h with
  | held wf wk aw hst hh ht => exact .over hterm (htr.trans ht)
  | ready hst hns ht => exact .over hterm (htr.trans ht)
  | over _ ht => exact .over hterm (htr.trans ht)
  | done extra ht => exact .done extra (htr.trans ht)

theorem Deliv.trext {fn : Nat} {v : Option Val} {t0 : List Act} {c d : Cfg} (extra : List Act)
    (ht : c.trace = extra ++ actOf fn v :: t0) (hx : TrExt c d) : Deliv fn v t0 d := by
  obtain ⟨x, hx⟩ := hx.ext
  exact .done (x ++ extra) (by rw [hx, ht, List.append_assoc])

theorem requestInterrupt_wfs (c : Cfg) (k : AKind) (wf : Nat) (hw : wfOf c.st = some wf) (hnp : c.wfs[wf]? ≠ some .pending) :
    (requestInterrupt c k).wfs = c.wfs := by
  have h2 := setInterruptFromExc_rest { c with nextCookie := c.nextCookie + 1 } k c.nextCookie
  obtain ⟨fn, wk, aw, hst⟩ := wfOf_waiting hw
  unfold requestInterrupt interruptState
  have hst2 : (setInterruptFromExc { c with nextCookie := c.nextCookie + 1 } k c.nextCookie).st = .waiting fn wf wk aw :=
    h2.st.trans hst
  simp only [hst2]
  have hw2 : (setInterruptFromExc { c with nextCookie := c.nextCookie + 1 } k c.nextCookie).wfs = c.wfs := h2.wfs
  rw [hw2]
  simp only [hnp, if_false]
  exact hw2

theorem pause_quiet (c : Cfg) : Quiet c (pause c).1 := by
  have hq : ∀ k, Quiet c (requestInterrupt c k) := fun k =>
    ⟨(requestInterrupt_fields c k).1, (requestInterrupt_fields c k).2.2.1, (requestInterrupt_sameP c k).2.1,
      fun wf h1 h2 => requestInterrupt_wfs c k wf h1 h2⟩
  have hh : ∀ (d : Cfg) i, Quiet c d → Quiet c (hand d i) := by
    intro d i q
    unfold hand; split
    · exact q
    · exact q
  unfold pause
  split
  · exact Quiet.of_eq rfl rfl rfl rfl
  · split
    · exact Quiet.of_eq rfl rfl rfl rfl
    · split
      · exact hh c _ (Quiet.of_eq rfl rfl rfl rfl)
      · split
        · exact Quiet.of_eq rfl rfl rfl rfl
        · split
          · dsimp only
            split
            · exact hh _ _ (hq .pause)
            · exact hq .pause
          · exact Quiet.of_eq rfl rfl rfl rfl

theorem play_quiet (c : Cfg) : Quiet c (play c).1 := by
  unfold play
  split
  · split
    · have h := (cancelAction_rest c ‹Nat›).1
      exact Quiet.of_eq h.st h.stepping h.trace h.wfs
    · exact Quiet.of_eq rfl rfl rfl rfl
  · dsimp only; split <;> exact Quiet.of_eq rfl rfl rfl rfl

theorem kill_quiet (c : Cfg) : Quiet c (kill c).1 ∨ terminal (kill c).1.st.label = true := by
  have hq : ∀ k, Quiet c (requestInterrupt c k) := fun k =>
    ⟨(requestInterrupt_fields c k).1, (requestInterrupt_fields c k).2.2.1, (requestInterrupt_sameP c k).2.1,
      fun wf h1 h2 => requestInterrupt_wfs c k wf h1 h2⟩
  have hh : ∀ (d : Cfg) i, Quiet c d → Quiet c (hand d i) := by
    intro d i q
    unfold hand; split
    · exact q
    · exact q
  unfold kill
  split
  · exact Or.inl (Quiet.of_eq rfl rfl rfl rfl)
  · split
    · exact Or.inl (Quiet.of_eq rfl rfl rfl rfl)
    · split
      · exact Or.inl (hh c _ (Quiet.of_eq rfl rfl rfl rfl))
      · split
        · dsimp only
          split
          · exact Or.inl (hh _ _ (hq .kill))
          · exact Or.inl (hq .kill)
        · exact Or.inr (transitionTo_terminal c .killed (by simp [SObj.label, terminal, allowed]))

theorem kill_deliv {fn : Nat} {v : Option Val} {t0 : List Act} (c : Cfg) (h : Deliv fn v t0 c) : Deliv fn v t0 (kill c).1 := by
  rcases kill_quiet c with q | ht
  · exact h.quiet q
  · exact h.terminated ht (kill_trace c)

theorem fail_deliv {fn : Nat} {v : Option Val} {t0 : List Act} (c : Cfg) (e) (h : Deliv fn v t0 c) :
    Deliv fn v t0 (fail c e).1 := by
  unfold fail; split
  · exact h
  · exact h.terminated (transitionTo_terminal c _ (by simp [SObj.label, terminal, allowed])) (transitionTo_core c _).trace

/-- a wait that holds an outcome ignores every further delivery (`C06_later_resume_ignored`,
`C06_parked_not_overwritten` in one) -/
theorem deliver_held_noop (c : Cfg) (o : WF) (fn wf : Nat) (wk : Option WF) (aw : List (Nat × Nat)) (v : Option Val)
    (hst : c.st = .waiting fn wf wk aw) (hh : Holds c wf wk v) : deliver c o = c := by
  unfold deliver
  rcases hh with g | ⟨⟨k, g⟩, hwk⟩
  · simp [hst, g]
  · simp [hst, g, hwk]

theorem deliver_deliv {fn : Nat} {v : Option Val} {t0 : List Act} (c : Cfg) (o : WF) (h : Deliv fn v t0 c) :
    Deliv fn v t0 (deliver c o) := by
  cases h with
  | held wf wk aw hst hh ht => rw [deliver_held_noop c o fn wf wk aw v hst hh]; exact .held wf wk aw hst hh ht
  | ready hst hns ht =>
    have : deliver c o = c := by unfold deliver; simp [hst]
    rw [this]; exact .ready hst hns ht
  | over hterm ht =>
    have : deliver c o = c := by
      obtain ⟨_, _, h3⟩ := not_live_of_terminal hterm
      unfold deliver
      split
      · rename_i fn' wf' wk' aw' hst; exact absurd hst (h3 fn' wf' wk' aw')
      · rfl
    rw [this]; exact .over hterm ht
  | done extra ht => exact .done extra ((deliver_sameP c o).2.1.trans ht)

theorem resume_deliv {fn : Nat} {v : Option Val} {t0 : List Act} (c : Cfg) (u) (h : Deliv fn v t0 c) :
    Deliv fn v t0 (resume c u).1 := by
  unfold resume; split
  · exact deliver_deliv c _ h
  · exact h

theorem awaitableDone_deliv {fn : Nat} {v : Option Val} {t0 : List Act} (c : Cfg) (f) (h : Deliv fn v t0 c) :
    Deliv fn v t0 (awaitableDone c f) := by
  unfold awaitableDone
  have hold : ∀ d : Cfg, Deliv fn v t0 d → Deliv fn v t0 (match d.efKeys.find? (·.1 = f), d.efs[f]? with
      | some (_, key), some (EFut.result v) => { d with ctx := (key, v) :: d.ctx.filter (·.1 ≠ key) }
      | _, _ => d) := by
    intro d hd; split
    · exact hd.quiet (Quiet.of_eq rfl rfl rfl rfl)
    · exact hd
  dsimp only
  split
  · rename_i fn' wf wakeup aw hst
    split
    · exact hold c h
    · -- `f` leaves the awaiting set: same epoch, same wait
      have h1 : Deliv fn v t0 { c with st := .waiting fn' wf wakeup (aw.filter (·.1 ≠ f)) } := by
        cases h with
        | held wf' wk' aw' hst' hh ht =>
          rw [hst] at hst'; cases hst'
          exact .held wf wakeup _ rfl hh ht
        | ready hst' _ _ => rw [hst] at hst'; cases hst'
        | over hterm _ => rw [hst] at hterm; simp [SObj.label, terminal, allowed] at hterm
        | done extra ht => exact .done extra ht
      split
      · split
        · exact deliver_deliv _ _ (h1.quiet (Quiet.of_eq rfl rfl rfl rfl))
        · exact h1.quiet (Quiet.of_eq rfl rfl rfl rfl)
      · exact deliver_deliv _ _ h1
      · exact h1
  · exact hold c h

theorem tickCb_deliv {fn : Nat} {v : Option Val} {t0 : List Act} (c : Cfg) (cb) (h : Deliv fn v t0 c) :
    Deliv fn v t0 (tickCb c cb) := by
  unfold tickCb; split
  · have h1 : Deliv fn v t0 { c with ready := c.ready.erase cb } := h.quiet (Quiet.of_eq rfl rfl rfl rfl)
    split
    · exact awaitableDone_deliv _ _ h1
    · exact (kill_deliv _ h1).quiet (Quiet.of_eq rfl rfl rfl rfl)
    · split
      · exact fail_deliv _ _ h1
      · exact h1
  · exact h


/-! ### `Deliv` under a callback of the stepping task -/

theorem held_result_of_nstep {c : Cfg} {fn wf : Nat} {wk : Option WF} {aw : List (Nat × Nat)} {v : Option Val}
    (hr : Rob c) (hns : c.stepping = false) (hst : c.st = .waiting fn wf wk aw) (hh : Holds c wf wk v) :
    c.wfs[wf]? = some (.result v) := by
  rcases hh with g | ⟨⟨k, g⟩, _⟩
  · exact g
  · have := (hr.intr wf k (by rw [hst]; rfl) g).1
    rw [hns] at this; cases this

theorem plain_of_nstep {c : Cfg} (hr : Rob c) (hns : c.stepping = false) : Plain c := by
  intro i hi; rw [hr.int0 hns] at hi; cases hi

/-- between two steps of one callback (at least two iterations of fuel left): the loop keeps `Deliv` -/
theorem loopHead_mid_deliv {fn : Nat} {v : Option Val} {t0 : List Act} (P : Prog) (m : Nat) (d : Cfg) (hm : Mid d)
    (h : Deliv fn v t0 d) : Deliv fn v t0 (loopHead P (m + 2) d) := by
  cases h with
  | held wf wk aw hst hh ht =>
    have hw := held_result_of_nstep hm.rob hm.nstep hst hh
    have hlive : terminal d.st.label = false := by rw [hst]; simp [SObj.label, terminal, allowed]
    have hcl := not_closed_of_live hm.inv hlive
    cases hpa : d.paused with
    | none =>
      obtain ⟨x, hx⟩ := loopHead_waiting_delivers P m d fn wf wk aw v hst hw (plain_of_nstep hm.rob hm.nstep) hm.ncr hcl hpa
      exact .done x (by rw [hx, ht]; rfl)
    | some pf =>
      rw [loopHead_blocked P (m + 1) d pf hm.ncr hlive hcl hpa (hm.invP.pausedPending hlive pf hpa)]
      exact .held wf wk aw hst hh ht
  | ready hst hns ht =>
    have hlive : terminal d.st.label = false := by rw [hst]; simp [SObj.label, terminal, allowed]
    have hcl := not_closed_of_live hm.inv hlive
    cases hpa : d.paused with
    | none =>
      obtain ⟨x, hx⟩ := loopHead_activates P (m + 1) d fn (argsOf v) hst hm.ncr hcl hpa
      exact .done x (by rw [hx, ht]; rfl)
    | some pf =>
      rw [loopHead_blocked P (m + 1) d pf hm.ncr hlive hcl hpa (hm.invP.pausedPending hlive pf hpa)]
      exact .ready hst hns ht
  | over hterm ht =>
    have hf := loopHead_terminal_fields P (m + 2) d hterm
    exact .over (by rw [hf.2]; exact hterm) (hf.1.trans ht)
  | done extra ht => exact Deliv.trext extra ht (loopHead_trext P _ d)

/-- what the end of the step leaves of a `held` configuration whose wait is being consumed -/
theorem deliv_of_stepRes {fn : Nat} {v : Option Val} {t0 : List Act} (c d : Cfg) (next : Option SObj)
    (wf : Nat) (wk : Option WF) (aw : List (Nat × Nat))
    (hst : c.st = .waiting fn wf wk aw) (hw : c.wfs[wf]? = some (.result v)) (ht : c.trace = t0)
    (hres : StepRes c d next) (hnext : ∀ s, next = some s → s = .running fn (argsOf v) [])
    (hns : d.stepping = false) (htr : d.trace = c.trace) : Deliv fn v t0 d := by
  rcases hres with ⟨a, b⟩ | a | ⟨s, hs, a, _⟩
  · exact .held wf wk aw (a.trans hst) (Or.inl (by rw [b]; exact hw)) (htr.trans ht)
  · exact .over a (htr.trans ht)
  · exact .ready (a.trans (hnext s hs)) hns (htr.trans ht)

theorem tickStepper_deliv {fn : Nat} {v : Option Val} {t0 : List Act} (P : Prog) (c : Cfg) (hC : Coh c)
    (h : Deliv fn v t0 c) : Deliv fn v t0 (tickStepper P c) := by
  have hpcok := hC.pcOk
  unfold PcOk at hpcok
  cases h with
  | done extra ht => exact Deliv.trext extra ht (tickStepper_trext P c)
  | over hterm ht =>
    exact .over (by rw [(tickStepper_fix P c hterm).1]; exact hterm) ((tickStepper_terminal_trace P c hterm).trans ht)
  | ready hst hns ht =>
    have hlive : terminal c.st.label = false := by rw [hst]; simp [SObj.label, terminal, allowed]
    cases hpc : c.pc with
    | notStarted =>
      unfold tickStepper
      simp only [hpc]
      exact loopHead_mid_deliv P 998 c ⟨hC.rob, hC.inv, hC.invP, hns, by intro e; rw [hpc]; intro g; cases g⟩ (.ready hst hns ht)
    | awaitPaused pf =>
      unfold tickStepper
      simp only [hpc]
      split
      · split
        · rename_i pf' hpa
          simp only [hC.invP.pausedPending hlive pf' hpa, if_true]
          exact .ready hst hns ht
        · rename_i hpa
          obtain ⟨x, hx⟩ := stepBodyK_activates P fuel0 c fn (argsOf v) hst hpa
          exact .done x (by unfold stepBody; rw [hx, ht]; rfl)
      · exact .ready hst hns ht
    | inUser b => simp only [hpc] at hpcok; rw [hns] at hpcok; cases hpcok.1
    | awaitWaiting wf => simp only [hpc] at hpcok; rw [hns] at hpcok; cases hpcok.1
    | done => simp only [hpc] at hpcok; rw [hlive] at hpcok; cases hpcok.2
    | crashed e => simp only [hpc] at hpcok
  | held wf wk aw hst hh ht =>
    have hlab : c.st.label = .waiting := by rw [hst]; rfl
    have hlive : terminal c.st.label = false := by rw [hlab]; decide
    have hcl : c.closed = false := not_closed_of_live hC.inv hlive
    have hwfo : wfOf c.st = some wf := by rw [hst]; rfl
    cases hpc : c.pc with
    | notStarted =>
      simp only [hpc] at hpcok
      unfold tickStepper
      simp only [hpc]
      exact loopHead_mid_deliv P 998 c ⟨hC.rob, hC.inv, hC.invP, hpcok, by intro e; rw [hpc]; intro g; cases g⟩
        (.held wf wk aw hst hh ht)
    | awaitPaused pf =>
      simp only [hpc] at hpcok
      have hw := held_result_of_nstep hC.rob hpcok.1 hst hh
      unfold tickStepper
      simp only [hpc]
      split
      · split
        · rename_i pf' hpa
          simp only [hC.invP.pausedPending hlive pf' hpa, if_true]
          exact .held wf wk aw hst hh ht
        · rename_i hpa
          obtain ⟨x, hx⟩ := stepBodyK_waiting_delivers P 999 c fn wf wk aw v hst hw (plain_of_nstep hC.rob hpcok.1)
            (by intro e; rw [hpc]; intro g; cases g) hcl hpa
          have hx' : (stepBody P fuel0 c).trace = x ++ actOf fn v :: c.trace := hx
          exact .done x (by rw [hx', ht])
      · exact .held wf wk aw hst hh ht
    | inUser b => simp only [hpc] at hpcok; rw [hpcok.2] at hwfo; cases hwfo
    | done => simp only [hpc] at hpcok; rw [hlive] at hpcok; cases hpcok.2
    | crashed e => simp only [hpc] at hpcok
    | awaitWaiting wf' =>
      simp only [hpc] at hpcok
      have hwf' : wf' = wf := by
        rcases hpcok.2 with g | g
        · rw [hlive] at g; cases g
        · rw [hwfo] at g; cases g; rfl
      subst hwf'
      have hwfn : wakeFn c = fn := by unfold wakeFn; rw [hst]
      -- in both cases the tick is `loopHead P fuel0 (wake c fn wf w)` with `w` not pending
      have key : ∀ w, c.wfs[wf']? = some w → w ≠ .pending → Deliv fn v t0 (wake c fn wf' w) →
          Deliv fn v t0 (tickStepper P c) := by
        intro w hw hne hd
        have hwf : ∀ wf'', wfOf c.st = some wf'' → wf'' = wf' := by
          intro wf'' h1; rw [hwfo] at h1; cases h1; rfl
        have hk := wake_rsp c fn wf' w hC.rob hw hne hwf
        have hm : Mid (wake c fn wf' w) := ⟨hk.1, wake_inv _ _ _ _ hC.inv, wake_invP _ _ _ _ hC.invP, hk.2.1,
          by intro e; rw [hk.2.2, hpc]; intro g; cases g⟩
        have := loopHead_mid_deliv P 998 _ hm hd
        unfold tickStepper
        simp only [hpc, hw, hst]
        cases w <;> first | exact absurd rfl hne | exact this
      rcases hh with hw | ⟨⟨k, hwk⟩, hwkv⟩
      · apply key _ hw (by intro g; cases g)
        have hs := endOfStep_spec c (.next (some (.running fn (argsOf v) []))) hC.rob.actOk
        have hwake : wake c fn wf' (.result v) = endOfStep c (.next (some (.running fn (argsOf v) []))) := by
          unfold wake; rfl
        rw [hwake]
        exact deliv_of_stepRes c _ _ wf' wk aw hst hw ht hs.2.2.2.2 (by intro s hs'; cases hs'; rfl) hs.1 hs.2.2.2.1
      · apply key _ hwk (by intro g; cases g)
        subst hwkv
        have hwake : wake c fn wf' (.interrupted k) =
            endOfStep { c with st := .waiting fn c.wfs.length none aw, wfs := c.wfs ++ [WF.result v] } (.interruption k) := by
          unfold wake
          simp only [hst, if_true]
        rw [hwake]
        have hs := endOfStep_spec { c with st := .waiting fn c.wfs.length none aw, wfs := c.wfs ++ [WF.result v] }
          (.interruption k) hC.rob.actOk
        exact deliv_of_stepRes { c with st := .waiting fn c.wfs.length none aw, wfs := c.wfs ++ [WF.result v] } _ _
          c.wfs.length none aw rfl (by simp) ht hs.2.2.2.2 (by intro s hs'; cases hs') hs.1 hs.2.2.2.1

/-- every event keeps `Deliv` -/
theorem step_deliv {fn : Nat} {v : Option Val} {t0 : List Act} (P : Prog) (c : Cfg) (ev : Ev) (hC : Coh c)
    (h : Deliv fn v t0 c) : Deliv fn v t0 (step P c ev).1 := by
  cases ev <;> simp only [step]
  · exact tickStepper_deliv P c hC h
  · exact tickCb_deliv c _ h
  · exact h.quiet (pause_quiet c)
  · exact h.quiet (play_quiet c)
  · exact kill_deliv c h
  · exact resume_deliv c _ h
  · exact fail_deliv c _ h
  · unfold cancelFut; split
    · exact h.quiet (Quiet.of_eq rfl rfl rfl rfl)
    · exact h
  · unfold complete; split
    · dsimp only; split <;> exact h.quiet (Quiet.of_eq rfl rfl rfl rfl)
    · exact h
  · exact h.quiet (Quiet.of_eq rfl rfl rfl rfl)

theorem run_deliv {fn : Nat} {v : Option Val} {t0 : List Act} (P : Prog) (c0 : Cfg) (evs : List Ev) (hC : Coh c0)
    (hf : histFuelOk P c0 evs = true) (h : Deliv fn v t0 c0) : Deliv fn v t0 (run P c0 evs) := by
  induction evs generalizing c0 with
  | nil => exact h
  | cons e es ih =>
    unfold histFuelOk at hf
    rw [Bool.and_eq_true] at hf
    have hfe : e = .tick → tickFuelOk P c0 = true := by intro he; subst he; exact hf.1
    exact ih _ (step_coh P c0 e hC hfe) hf.2 (step_deliv P c0 e hC h)

end PMF.H6
