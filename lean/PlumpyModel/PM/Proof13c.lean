import PlumpyModel.PM.Proof13b
/-!
# C10 at the level of histories, part 3: a held failure excepts the chain; the invariant of the context

* `tick_fails`: in a coherent configuration whose WAITING state holds the failure `e` (`HoldsF`), if the process is playing,
  the next callback of the stepping task ends the process EXCEPTED with exactly `e`, and logs no activation.
* `CtxOk`: the keys of the context are pairwise distinct (an assignment replaces the earlier value of its key) — in every
  configuration, whatever the history.
* `bar_init`: a WAITING configuration to which nothing has been delivered starts `Bar`.
-/
namespace PMF.B10
open PMF PMF.H6

/-! ### the failure is delivered -/

theorem transitionTo_excepted_exact (c : Cfg) (e : Exc) (hal : Label.excepted ∈ allowed c.st.label) :
    (transitionTo c (.excepted e)).st = .excepted e := by
  have hl : (SObj.excepted e).label = .excepted := rfl
  unfold transitionTo
  rw [hl, if_pos hal]
  dsimp only
  split
  · rfl
  · simp only [enteringHooks]
    unfold enterNext
    simp only [terminal_excepted, if_true]
    rw [(onTerminated_keep _).1, (enteredHooks_keep _ _).1]; rfl

theorem endOfStep_exception_live (c : Cfg) (e : Exc) (hl : terminal c.st.label = false) :
    endOfStep c (.exception e) = finally_ (transitionTo (setInterrupt c none) (.excepted e)) := by
  have hp : prepare c (.exception e) = (setInterrupt c none, some (.excepted e)) := by unfold prepare; rfl
  have hs := setInterrupt_rest c none
  have hd : dispatch (setInterrupt c none) (some (.excepted e)) = transitionTo (setInterrupt c none) (.excepted e) := by
    unfold dispatch
    simp only [hs.1.st, hl, Bool.false_eq_true, if_false, hs.2]
  unfold endOfStep
  rw [hp]
  simp only [hd]

/-- `Waiting.execute` whose future failed with `e`: the process is EXCEPTED with `e`, no activation -/
theorem wake_failed_fields (c : Cfg) (fn wf : Nat) (e : Exc) (hl : c.st.label = .waiting) :
    (wake c fn wf (.failed e)).st = .excepted e ∧ (wake c fn wf (.failed e)).pc = c.pc ∧
    (wake c fn wf (.failed e)).trace = c.trace := by
  have hlive : terminal c.st.label = false := by rw [hl]; decide
  have hw : wake c fn wf (.failed e) = endOfStep c (.exception e) := by unfold wake; rfl
  have hs := setInterrupt_rest c none
  have hal : Label.excepted ∈ allowed (setInterrupt c none).st.label := by rw [hs.1.st, hl]; decide
  rw [hw, endOfStep_exception_live c e hlive]
  have hf := finally_fields (transitionTo (setInterrupt c none) (.excepted e))
  have hc := transitionTo_core (setInterrupt c none) (.excepted e)
  exact ⟨hf.1.trans (transitionTo_excepted_exact _ e hal), (hf.2.2.2.2.1.trans hc.pc).trans hs.1.pc,
    (hf.2.2.2.2.2.1.trans hc.trace).trans hs.1.trace⟩

theorem stepBodyK_waiting_fails (P : Prog) (m : Nat) (c : Cfg) (fn wf : Nat) (wk : Option WF) (aw : List (Nat × Nat))
    (e : Exc) (hst : c.st = .waiting fn wf wk aw) (hw : c.wfs[wf]? = some (.failed e)) :
    (stepBodyK P (loopHead P m) c).st = .excepted e ∧ (stepBodyK P (loopHead P m) c).trace = c.trace := by
  have hl : ({ c with stepping := true } : Cfg).st.label = .waiting := by show c.st.label = _; rw [hst]; rfl
  have hf := wake_failed_fields { c with stepping := true } fn wf e hl
  have ht := loopHead_terminal_fields P m (wake { c with stepping := true } fn wf (.failed e))
    (by rw [hf.1]; exact terminal_excepted e)
  have : stepBodyK P (loopHead P m) c = loopHead P m (wake { c with stepping := true } fn wf (.failed e)) := by
    unfold stepBodyK
    simp only [hst, hw]
  rw [this]
  exact ⟨ht.2.trans hf.1, ht.1.trans hf.2.2⟩

theorem loopHead_waiting_fails (P : Prog) (m : Nat) (c : Cfg) (fn wf : Nat) (wk : Option WF) (aw : List (Nat × Nat))
    (e : Exc) (hst : c.st = .waiting fn wf wk aw) (hw : c.wfs[wf]? = some (.failed e))
    (hncr : ∀ e', c.pc ≠ .crashed e') (hcl : c.closed = false) (hpa : c.paused = none) :
    (loopHead P (m + 1) c).st = .excepted e ∧ (loopHead P (m + 1) c).trace = c.trace := by
  have hlive : terminal c.st.label = false := by rw [hst]; exact terminal_waiting ..
  unfold loopHead
  split
  · rename_i e' he; exact absurd he (hncr e')
  · simp only [hlive, hcl, Bool.false_eq_true, if_false, hpa]
    exact stepBodyK_waiting_fails P m c fn wf wk aw e hst hw

/-- **a held failure is delivered**: in a coherent configuration whose WAITING state holds the failure `e`, if the process
is playing (not paused, no pause or kill request pending), the next callback of the stepping task ends it EXCEPTED with
`e`; the trace of user calls is unchanged (the following step is not activated). -/
theorem tick_fails (P : Prog) (c : Cfg) (fn wf : Nat) (wk : Option WF) (aw : List (Nat × Nat)) (e : Exc)
    (h : Coh c) (hst : c.st = .waiting fn wf wk aw) (hh : HoldsF c wf wk e)
    (hpa : c.paused = none) (hpi : c.pausing = none) (hk : c.killing = none) :
    (tickStepper P c).st = .excepted e ∧ (tickStepper P c).trace = c.trace := by
  have hplain : Plain c := plain_of_no_request c h.rob hpi hk
  have hlab : c.st.label = .waiting := by rw [hst]; rfl
  have hlive : terminal c.st.label = false := by rw [hlab]; decide
  have hcl : c.closed = false := not_closed_of_live h.inv hlive
  have hwfo : wfOf c.st = some wf := by rw [hst]; rfl
  have hpcok := h.pcOk
  unfold PcOk at hpcok
  rcases hh with hw | ⟨⟨k, hwk⟩, hwkv⟩
  · cases hpc : c.pc with
    | notStarted =>
      unfold tickStepper
      simp only [hpc]
      exact loopHead_waiting_fails P 999 c fn wf wk aw e hst hw (by intro e'; rw [hpc]; intro g; cases g) hcl hpa
    | awaitPaused pf =>
      simp only [hpc] at hpcok
      have hpf : c.pfs[pf]? = some true := by
        rcases hpcok.2 hlive with g | g
        · exact g
        · rw [hpa] at g; cases g
      unfold tickStepper
      simp only [hpc, hpf, if_true, hpa]
      unfold stepBody
      exact stepBodyK_waiting_fails P fuel0 c fn wf wk aw e hst hw
    | inUser b =>
      simp only [hpc] at hpcok
      rw [hpcok.2] at hwfo; cases hwfo
    | awaitWaiting wf' =>
      simp only [hpc] at hpcok
      have hwf' : wf' = wf := by
        rcases hpcok.2 with g | g
        · rw [hlive] at g; cases g
        · rw [hwfo] at g; cases g; rfl
      subst hwf'
      have hf := wake_failed_fields c fn wf' e hlab
      have ht := loopHead_terminal_fields P fuel0 (wake c fn wf' (.failed e)) (by rw [hf.1]; exact terminal_excepted e)
      unfold tickStepper
      simp only [hpc, hw, hst]
      exact ⟨ht.2.trans hf.1, ht.1.trans hf.2.2⟩
    | done =>
      simp only [hpc] at hpcok
      rw [hlive] at hpcok; cases hpcok.2
    | crashed e' => simp only [hpc] at hpcok
  · obtain ⟨hstep, hint⟩ := h.rob.intr wf k hwfo hwk
    cases hpc : c.pc with
    | notStarted => simp only [hpc] at hpcok; rw [hstep] at hpcok; cases hpcok
    | awaitPaused pf => simp only [hpc] at hpcok; rw [hstep] at hpcok; cases hpcok.1
    | inUser b =>
      simp only [hpc] at hpcok
      rw [hpcok.2] at hwfo; cases hwfo
    | done => simp only [hpc] at hpcok; rw [hstep] at hpcok; cases hpcok.1
    | crashed e' => simp only [hpc] at hpcok
    | awaitWaiting wf' =>
      simp only [hpc] at hpcok
      have hwf' : wf' = wf := by
        rcases hpcok.2 with g | g
        · rw [hlive] at g; cases g
        · rw [hwfo] at g; cases g; rfl
      subst hwf'
      cases hi : c.interrupt with
      | none => exact absurd hi hint
      | some i =>
        have hc := hplain i hi
        subst hwkv
        have hwake : wake c fn wf' (.interrupted k) =
            finally_ { c with st := .waiting fn c.wfs.length none aw, wfs := c.wfs ++ [WF.failed e] } :=
          wake_interrupted_plain c fn wf' (some (.failed e)) aw k i hst hi hc
        have hf := finally_fields { c with st := .waiting fn c.wfs.length none aw, wfs := c.wfs ++ [WF.failed e] }
        have hd := loopHead_waiting_fails P 999
          (finally_ { c with st := .waiting fn c.wfs.length none aw, wfs := c.wfs ++ [WF.failed e] })
          fn c.wfs.length none aw e hf.1 (by rw [hf.2.1]; simp)
          (by intro e'; rw [hf.2.2.2.2.1]; show c.pc ≠ _; rw [hpc]; intro g; cases g)
          (by rw [hf.2.2.2.1]; exact hcl) (by rw [hf.2.2.1]; exact hpa)
        rw [hf.2.2.2.2.2.1] at hd
        unfold tickStepper
        simp only [hpc, hwk, hst]
        rw [hwake]
        exact hd

/-! ### the context is a map: keys are pairwise distinct, whatever the history -/

/-- the keys of the context are pairwise distinct -/
def CtxOk (c : Cfg) : Prop := (c.ctx.map (·.1)).Nodup

theorem ctxOk_assign (l : List (Nat × Val)) (key : Nat) (v : Val) (h : (l.map (·.1)).Nodup) :
    (((key, v) :: l.filter (·.1 ≠ key)).map (·.1)).Nodup := by
  rw [List.map_cons, List.nodup_cons]
  refine ⟨?_, List.Nodup.sublist (List.Sublist.map _ List.filter_sublist) h⟩
  intro hm
  rw [List.mem_map] at hm
  obtain ⟨a, ha, hk⟩ := hm
  have := (List.mem_filter.mp ha).2
  simp at this
  exact this hk

/-- a context with distinct keys maps a key to the value of its (only) binding -/
theorem ctx_lookup_of_mem (l : List (Nat × Val)) (k : Nat) (v : Val) (h : (l.map (·.1)).Nodup) (hm : (k, v) ∈ l) :
    l.find? (·.1 = k) = some (k, v) := by
  induction l with
  | nil => cases hm
  | cons p rest ih =>
    rw [List.map_cons, List.nodup_cons] at h
    rw [List.mem_cons] at hm
    rcases hm with hm | hm
    · subst hm; simp
    · have hne : p.1 ≠ k := by
        intro hp; apply h.1; rw [List.mem_map]; exact ⟨(k, v), hm, by rw [hp]⟩
      rw [List.find?_cons_of_neg (by simpa using hne)]
      exact ih h.2 hm

theorem ctx_unique (l : List (Nat × Val)) (k : Nat) (v u : Val) (h : (l.map (·.1)).Nodup) (hv : (k, v) ∈ l) (hu : (k, u) ∈ l) :
    u = v := by
  have h1 := ctx_lookup_of_mem l k v h hv
  have h2 := ctx_lookup_of_mem l k u h hu
  rw [h1] at h2; cases h2; rfl

theorem awaitableDone_ctxOk (c : Cfg) (f : Nat) (h : CtxOk c) : CtxOk (awaitableDone c f) := by
  unfold awaitableDone
  have hold : ∀ d : Cfg, CtxOk d → CtxOk (match d.efKeys.find? (·.1 = f), d.efs[f]? with
      | some (_, key), some (EFut.result v) => { d with ctx := (key, v) :: d.ctx.filter (·.1 ≠ key) }
      | _, _ => d) := by
    intro d hd; split
    · exact ctxOk_assign d.ctx _ _ hd
    · exact hd
  have hdel : ∀ (d : Cfg) (o : WF), CtxOk d → CtxOk (deliver d o) := by
    intro d o hd; unfold CtxOk; rw [(deliver_g d o).2.2.2.2.2.2]; exact hd
  dsimp only
  split
  · split
    · exact hold c h
    · split
      · split
        · exact hdel _ _ (ctxOk_assign c.ctx _ _ h)
        · exact ctxOk_assign c.ctx _ _ h
      · exact hdel _ _ h
      · exact h
  · exact hold c h

/-- the end of a step never touches the context -/
theorem endOfStep_ctx (c : Cfg) (r : StepEnd) : (endOfStep c r).ctx = c.ctx := by
  refine endOfStep_pres (fun d => d.ctx = c.ctx) (fun _ _ f g => f.ctx.trans g) c r rfl ?_
  intro _ c' s f _; exact (transitionTo_x c' s).1.trans f.ctx

theorem finishUser_ctx (c : Cfg) (o : Outcome) : (finishUser c o).ctx = c.ctx := by
  unfold finishUser
  split
  · rename_i cmd
    refine (endOfStep_ctx _ _).trans ?_
    cases cmd <;> rfl
  · exact endOfStep_ctx _ _

theorem wake_ctx (c : Cfg) (fn wf : Nat) (w : WF) : (wake c fn wf w).ctx = c.ctx := by
  unfold wake
  split
  · exact endOfStep_ctx _ _
  · refine (endOfStep_ctx _ _).trans ?_
    split
    · split <;> rfl
    · rfl
  · exact endOfStep_ctx _ _
  · rfl

theorem stepBodyK_ctx (P : Prog) (k : Cfg → Cfg) (hk : ∀ d, (k d).ctx = d.ctx) (c : Cfg) : (stepBodyK P k c).ctx = c.ctx := by
  unfold stepBodyK
  dsimp only
  split
  · exact (hk _).trans (endOfStep_ctx _ _)
  · split
    · exact (hk _).trans (finishUser_ctx _ _)
    · rfl
  · split
    · rfl
    · exact (hk _).trans (wake_ctx _ _ _ _)
    · rfl
  · exact (hk _).trans (endOfStep_ctx _ _)

theorem loopHead_ctx (P : Prog) : ∀ (fuel : Nat) (c : Cfg), (loopHead P fuel c).ctx = c.ctx := by
  intro fuel
  induction fuel with
  | zero => intro c; rfl
  | succ n ih =>
    intro c
    unfold loopHead
    split
    · rfl
    · split
      · rfl
      · split
        · rfl
        · split
          · split
            · rfl
            · exact stepBodyK_ctx P _ ih c
          · exact stepBodyK_ctx P _ ih c

/-- a callback of the stepping task never touches the context: every step activated in it sees the same context -/
theorem tickStepper_ctx (P : Prog) (c : Cfg) : (tickStepper P c).ctx = c.ctx := by
  unfold tickStepper
  split
  · exact loopHead_ctx P _ c
  · split
    · split
      · split
        · rfl
        · exact stepBodyK_ctx P _ (loopHead_ctx P _) c
      · exact stepBodyK_ctx P _ (loopHead_ctx P _) c
    · rfl
  · split
    · exact (loopHead_ctx P _ _).trans (finishUser_ctx _ _)
    · rfl
  · split
    · rfl
    · exact (loopHead_ctx P _ _).trans (wake_ctx _ _ _ _)
    · rfl
  · rfl

/-- only an awaitable's done-callback changes the context -/
theorem step_ctx (P : Prog) (c : Cfg) (ev : Ev) (hna : ∀ g, ev ≠ .tickCb (.adone g)) : (step P c ev).1.ctx = c.ctx := by
  cases ev with
  | tick => exact tickStepper_ctx P c
  | tickCb cb =>
    simp only [step]
    unfold tickCb; split
    · cases cb with
      | adone g => exact absurd rfl (hna g)
      | trykill => exact (kill_ce { c with ready := c.ready.erase Cb.trykill }).1
      | usercb r =>
        dsimp only
        split
        · exact (fail_ce { c with ready := c.ready.erase (Cb.usercb r) } (.user 8)).1
        · rfl
    · rfl
  | pause => exact (pause_bf c).ctx
  | play => exact (play_bf c).ctx
  | kill => exact (kill_ce c).1
  | resume v =>
    simp only [step]
    unfold resume; split
    · exact (deliver_g c _).2.2.2.2.2.2
    · rfl
  | fail e => exact (fail_ce c e).1
  | cancelFut =>
    simp only [step]
    unfold cancelFut; split <;> rfl
  | complete f o =>
    simp only [step]
    unfold complete; split
    · dsimp only; split <;> rfl
    · rfl
  | callSoon r => rfl

theorem step_ctxOk (P : Prog) (c : Cfg) (ev : Ev) (h : CtxOk c) : CtxOk (step P c ev).1 := by
  by_cases hna : ∃ g, ev = .tickCb (.adone g)
  · obtain ⟨g, rfl⟩ := hna
    simp only [step]
    unfold tickCb; split
    · exact awaitableDone_ctxOk _ g h
    · exact h
  · unfold CtxOk
    rw [step_ctx P c ev (fun g hg => hna ⟨g, hg⟩)]; exact h

theorem run_ctxOk (P : Prog) (c0 : Cfg) (evs : List Ev) (h : CtxOk c0) : CtxOk (run P c0 evs) := by
  induction evs generalizing c0 with
  | nil => exact h
  | cons e es ih => exact ih _ (step_ctxOk P c0 e h)

theorem ctxOk_init (nf : Nat) : CtxOk (init nf) := by simp [CtxOk, init]

/-! ### starting `Bar` -/

/-- a WAITING configuration to which nothing has been delivered starts `Bar` for its own awaitables -/
theorem bar_init {fn wf : Nat} {aw0 : List (Nat × Nat)} (c : Cfg) (hst : c.st = .waiting fn wf none aw0)
    (he : c.wfs[wf]? = some .pending ∨ ∃ k, c.wfs[wf]? = some (.interrupted k)) : Bar fn aw0 c.trace c :=
  .pre wf aw0 hst he rfl ⟨fun _ h => h, fun _ _ h => Or.inl h⟩

/-- only a callback of the stepping task adds to the trace of user calls -/
theorem step_trace_of_ne_tick (P : Prog) (c : Cfg) (ev : Ev) (h : ev ≠ .tick) : (step P c ev).1.trace = c.trace := by
  cases ev with
  | tick => exact absurd rfl h
  | tickCb cb => exact tickCb_trace c cb
  | pause => exact pause_trace c
  | play => exact play_trace c
  | kill => exact kill_trace c
  | resume v => exact resume_trace c v
  | fail e => exact fail_trace c e
  | cancelFut =>
    simp only [step]
    unfold cancelFut; split <;> rfl
  | complete f o =>
    simp only [step]
    unfold complete; split
    · dsimp only; split <;> rfl
    · rfl
  | callSoon r => rfl

theorem find?_of_mem_distinct (aw : List (Nat × Nat)) (h : DistinctF aw) (f k : Nat) (hm : (f, k) ∈ aw) :
    aw.find? (·.1 = f) = some (f, k) := by
  cases hfind : aw.find? (·.1 = f) with
  | none =>
    rw [List.find?_eq_none] at hfind
    exact absurd (by simp) (hfind (f, k) hm)
  | some p =>
    have hp1 : p.1 = f := by simpa using List.find?_some hfind
    have hpm : p ∈ aw := List.mem_of_find?_eq_some hfind
    obtain ⟨f', k'⟩ := p
    have : f' = f := hp1
    subst this
    rw [distinct_key_unique aw h f' k' k hpm hm]

/-- the done-callback of an awaited future that FAILED with `e`, while nothing has been delivered to the wait: the wait
now holds the failure `e` -/
theorem adone_exc_held {fn : Nat} (c : Cfg) (f k : Nat) (e : Exc) (hR : Reach c)
    (wf : Nat) (aw : List (Nat × Nat)) (hst : c.st = .waiting fn wf none aw)
    (he : c.wfs[wf]? = some .pending ∨ ∃ j, c.wfs[wf]? = some (.interrupted j))
    (hin : (f, k) ∈ aw) (hexc : c.efs[f]? = some (.exc e)) (hsched : Cb.adone f ∈ c.ready) :
    FailD fn e c.trace (tickCb c (.adone f)) := by
  have hnd : DistinctF aw := by have := hR.g.nd; rw [hst] at this; exact this
  have hfind := find?_of_mem_distinct aw hnd f k hin
  have htick : tickCb c (.adone f) = awaitableDone { c with ready := c.ready.erase (Cb.adone f) } f := by
    unfold tickCb
    rw [if_pos (List.contains_iff_mem.mpr hsched)]
  rw [htick, awaitableDone_exc { c with ready := c.ready.erase (Cb.adone f) } fn wf none aw f k e hst hfind hexc]
  obtain ⟨wk', h1, h2, h3⟩ := deliver_unres
    { ({ c with ready := c.ready.erase (Cb.adone f) } : Cfg) with st := .waiting fn wf none (aw.filter (·.1 ≠ f)) }
    fn wf (aw.filter (·.1 ≠ f)) (.failed e) rfl he
  exact .held wf wk' _ h1 h2 h3

/-! ### the corpus programs `Chain` and `Chain2` of harness/pm.py -/

/-- the corpus program `Chain2` of harness/pm.py (`chain_prog([[(0, 0), (1, 1)], [(2, 0)], []], 3)`): step 0 awaits futures
0 and 1 under the keys 0 and 1, step 1 awaits future 2 under the key 0 again, step 2 stops -/
def Chain2 : Prog := fun fn _ _ _ =>
  if fn = 0 then ⟨0, .ret (.waitOn 1 [(0, 0), (1, 1)])⟩
  else if fn = 1 then ⟨0, .ret (.waitOn 2 [(2, 0)])⟩ else ⟨0, .ret (.stop none true)⟩

/-- the corpus program `Chain` (`chain_prog([[(0, 0)], []], 1)`): step 0 awaits future 0 under key 0, step 1 stops -/
def Chain : Prog := fun fn _ _ _ =>
  if fn = 0 then ⟨0, .ret (.waitOn 1 [(0, 0)])⟩ else ⟨0, .ret (.stop none true)⟩

theorem chain2_awDistinct : AwDistinct Chain2 := by
  intro fn args kw ctx; unfold Chain2; split
  · simp [OutOk, DistinctF]
  · split <;> simp [OutOk, DistinctF]

theorem chain_awDistinct : AwDistinct Chain := by
  intro fn args kw ctx; unfold Chain; split <;> simp [OutOk, DistinctF]

end PMF.B10
