import PlumpyModel.PM.LProof13
import PlumpyModel.PM.Proof10
/-!
# `PMF.L` — with the empty plan the model with listeners is the model (conservativity, part 1: the twins)

With no plan entry the notification function of `stepL` is `fireN 0`, which only counts.  Every `…L` twin then repeats its
original on the `Cfg` component (`Cons`), with two exceptions that need a hypothesis:

* `requestL` interrupts the state only if `_executing ∧ ¬_transitioning` where the original looks at `_stepping`;
* `runActionL` tests "retracted while transitioning" (`_pausing` cleared) after the transition of a pause action, and stores the
  result only if the action is still pending; `dispatchL` re-runs a pending action in the `while` loop.

The first is an invariant of the `L` configuration between events (`Ex`), the second an invariant of the ORIGINAL model (`PI`,
`LProof15.lean`): a pending pause action in the interrupt slot is the one recorded in `_pausing`.
-/
namespace PMF

/-- the control fields a transition never writes -/
structure PF (c c' : Cfg) : Prop where
  pausing : c'.pausing = c.pausing
  interrupt : c'.interrupt = c.interrupt
  actions : c'.actions = c.actions
  stepping : c'.stepping = c.stepping

theorem PF.rfl' (c : Cfg) : PF c c := ⟨rfl, rfl, rfl, rfl⟩
theorem PF.trans {a b c : Cfg} (h1 : PF a b) (h2 : PF b c) : PF a c :=
  ⟨h2.pausing.trans h1.pausing, h2.interrupt.trans h1.interrupt, h2.actions.trans h1.actions, h2.stepping.trans h1.stepping⟩

theorem exitState_pf (c : Cfg) : PF c (exitState c) := by
  obtain ⟨w, e, h⟩ := L.exitState_shape c; rw [h]; exact ⟨rfl, rfl, rfl, rfl⟩
theorem onTerminated_pf (c : Cfg) : PF c (onTerminated c) := by
  obtain ⟨p, cl, n, h⟩ := L.onTerminated_shape c; rw [h]; exact ⟨rfl, rfl, rfl, rfl⟩
theorem setFutExc_pf (c : Cfg) (e : Exc) : PF c (setFutExc c e) := by
  obtain ⟨f, b, h⟩ := L.setFutExc_shape c e; rw [h]; exact ⟨rfl, rfl, rfl, rfl⟩
theorem enteringHooks_pf (c c2 : Cfg) (s : SObj) (hok : enteringHooks c s = .ok c2) : PF c c2 := by
  obtain ⟨f, b, h⟩ := L.enteringHooks_shape c c2 s hok; rw [h]; exact ⟨rfl, rfl, rfl, rfl⟩
theorem enter_pf (c : Cfg) (s : SObj) : PF c (setState (enterState c s) s) := by
  obtain ⟨k, e, r, h⟩ := L.enterState_shape c s; rw [h]; exact ⟨rfl, rfl, rfl, rfl⟩
theorem enteredHooks_pf (c : Cfg) (s : SObj) : PF c (enteredHooks c s) := by
  obtain ⟨n, h⟩ := L.enteredHooks_shape c s; rw [h]; exact ⟨rfl, rfl, rfl, rfl⟩

theorem forceExcepted_pf (c : Cfg) (e : Exc) : PF c (forceExcepted c e) := by
  unfold forceExcepted; split
  · exact ⟨rfl, rfl, rfl, rfl⟩
  · exact ((((setFutExc_pf c e).trans ⟨rfl, rfl, rfl, rfl⟩ : PF c (setState (setFutExc c e) (.excepted e))).trans
      (enteredHooks_pf _ _)).trans (onTerminated_pf _))

theorem enterNext_pf (c : Cfg) (s : SObj) : PF c (enterNext c s) := by
  unfold enterNext
  have h := (enter_pf c s).trans (enteredHooks_pf _ s)
  dsimp only
  split
  · exact h.trans (onTerminated_pf _)
  · exact h

theorem transitionTo_pf (c : Cfg) (s : SObj) : PF c (transitionTo c s) := by
  unfold transitionTo
  split
  · dsimp only
    split
    · exact (exitState_pf c).trans ⟨rfl, rfl, rfl, rfl⟩
    · split
      · exact (exitState_pf c).trans (forceExcepted_pf _ _)
      · rename_i c2 hok
        exact ((exitState_pf c).trans (enteringHooks_pf _ c2 s hok)).trans (enterNext_pf c2 s)
  · exact forceExcepted_pf _ _

namespace L

/-- `l'` is `l` with the `Cfg` component replaced by `c'` (and the bookkeeping of the oracle — counters, `_transitioning` —
possibly changed) -/
structure Cons (l : LCfg) (c' : Cfg) (l' : LCfg) : Prop where
  c : l'.c = c'
  plan : l'.plan = l.plan
  ef : l'.entryFails = l.entryFails
  exe : l'.executing = l.executing

theorem Cons.trans {l l1 l2 : LCfg} {c1 c2 : Cfg} (h1 : Cons l c1 l1) (h2 : Cons l1 c2 l2) : Cons l c2 l2 :=
  ⟨h2.c, h2.plan.trans h1.plan, h2.ef.trans h1.ef, h2.exe.trans h1.exe⟩

theorem Cons.upd {l l1 : LCfg} {c1 : Cfg} (h : Cons l c1 l1) (f : Cfg → Cfg) : Cons l (f c1) (l1.upd f) :=
  ⟨by rw [upd_c, h.c], h.plan, h.ef, h.exe⟩

theorem Cons.of_c {l l' : LCfg} {c1 c2 : Cfg} (h : Cons l c1 l') (e : c1 = c2) : Cons l c2 l' := e ▸ h

/-- the notification function of the empty plan -/
abbrev F0 : Hook → LCfg → LCfg := fireN 0

theorem F0_cons (h : Hook) (l : LCfg) : Cons l l.c (F0 h l) := ⟨rfl, rfl, rfl, rfl⟩
theorem F0_trans (h : Hook) (l : LCfg) : (F0 h l).trans = l.trans := rfl

theorem enteredHooksL_cons (l : LCfg) (s : SObj) : Cons l (enteredHooks l.c s) (enteredHooksL F0 l s) := by
  unfold enteredHooksL
  dsimp only
  split <;> exact ⟨rfl, rfl, rfl, rfl⟩

theorem forceExceptedL_cons (l : LCfg) (e : Exc) : Cons l (forceExcepted l.c e) (forceExceptedL F0 l e) := by
  unfold forceExceptedL forceExcepted
  by_cases hc : l.c.closed = true
  · rw [if_pos hc, if_pos hc]; exact ⟨rfl, rfl, rfl, rfl⟩
  · rw [if_neg hc, if_neg hc]
    dsimp only
    rw [enteredHooksL_nohook _ _ (by simp [SObj.label, terminal, allowed])]
    exact ⟨rfl, rfl, rfl, rfl⟩

theorem enterNextL_cons (l : LCfg) (s : SObj) : Cons l (enterNext l.c s) (enterNextL F0 l s) := by
  unfold enterNextL enterNext
  dsimp only
  have h := enteredHooksL_cons (l.upd (fun c => setState (enterState c s) s)) s
  have h' : Cons l (enteredHooks (setState (enterState l.c s) s) s)
      (enteredHooksL F0 (l.upd (fun c => setState (enterState c s) s)) s) := ⟨h.c, h.plan, h.ef, h.exe⟩
  split
  · exact h'.upd onTerminated
  · exact h'

theorem exitPhaseL_cons (l : LCfg) (s : SObj) (hef : l.entryFails = false) : Cons l (exitState l.c) (exitPhaseL F0 l s) := by
  unfold exitPhaseL
  have hr : retargeted ((F0 .exiting l).upd exitState) s = false := by
    unfold retargeted; split
    · exact hef
    · rfl
  simp only [hr, Bool.false_eq_true, if_false]
  exact ⟨rfl, rfl, rfl, rfl⟩

theorem transitionToL_cons (l : LCfg) (s : SObj) (hef : l.entryFails = false) :
    Cons l (transitionTo l.c s) (transitionToL F0 l s) := by
  have key : ∀ d : LCfg, Cons l (transitionTo l.c s) d → Cons l (transitionTo l.c s) { d with trans := none } :=
    fun d h => ⟨h.c, h.plan, h.ef, h.exe⟩
  unfold transitionToL
  dsimp only
  apply key
  unfold transitionTo
  by_cases hin : s.label ∈ allowed l.c.st.label
  · rw [if_pos hin, if_pos hin]
    dsimp only
    by_cases hc : l.c.closed = true
    · rw [if_pos hc, if_pos hc]; exact ⟨rfl, rfl, rfl, rfl⟩
    · rw [if_neg hc, if_neg hc]
      have hx := exitPhaseL_cons { l with trans := some s.label } s hef
      have hx' : Cons l (exitState l.c) (exitPhaseL F0 { l with trans := some s.label } s) := ⟨hx.c, hx.plan, hx.ef, hx.exe⟩
      rw [hx'.c]
      cases hh : enteringHooks (exitState l.c) s with
      | error e =>
        dsimp only
        exact hx'.trans ((forceExceptedL_cons _ e).of_c (by rw [hx'.c]))
      | ok c2 =>
        dsimp only
        have h1 : Cons l c2 (F0 .entering { exitPhaseL F0 { l with trans := some s.label } s with c := c2 }) :=
          ⟨rfl, hx'.plan, hx'.ef, hx'.exe⟩
        exact h1.trans ((enterNextL_cons _ s).of_c (by rw [h1.c]))
  · rw [if_neg hin, if_neg hin]
    have h := forceExceptedL_cons { l with trans := some s.label } (.noTransition l.c.st.label s.label)
    exact ⟨h.c, h.plan, h.ef, h.exe⟩

/-! ### control calls -/

/-- between two events: a step in progress is executing its state (`_stepping → _executing`) -/
def Ex (l : LCfg) : Prop := l.c.stepping = true → l.executing = true

theorem requestL_eq (l : LCfg) (k : AKind) (hs : l.c.stepping = true) (hex : Ex l) (htr : l.trans = none) :
    requestL l k = requestInterrupt l.c k := by
  unfold requestL
  rw [hex hs, htr]; rfl

theorem doPauseL_cons (l : LCfg) : Cons l (doPauseHooks l.c) (doPauseL F0 l) := ⟨rfl, rfl, rfl, rfl⟩
theorem doPauseL_trans (l : LCfg) : (doPauseL F0 l).trans = l.trans := rfl

theorem pauseL_cons (l : LCfg) (hex : Ex l) (htr : l.trans = none) :
    Cons l (pause l.c).1 (pauseL F0 l).1 ∧ (pauseL F0 l).2 = (pause l.c).2 := by
  unfold pauseL pause
  dsimp only
  by_cases h1 : terminal l.c.st.label = true
  · rw [if_pos h1, if_pos h1]; exact ⟨⟨rfl, rfl, rfl, rfl⟩, rfl⟩
  · rw [if_neg h1, if_neg h1]
    by_cases h2 : l.c.paused.isSome = true
    · rw [if_pos h2, if_pos h2]; exact ⟨⟨rfl, rfl, rfl, rfl⟩, rfl⟩
    · rw [if_neg h2, if_neg h2]
      cases h3 : l.c.pausing with
      | some i => exact ⟨⟨rfl, rfl, rfl, rfl⟩, rfl⟩
      | none =>
        dsimp only
        by_cases h4 : l.c.killing.isSome = true
        · rw [if_pos h4, if_pos h4]; exact ⟨⟨rfl, rfl, rfl, rfl⟩, rfl⟩
        · rw [if_neg h4, if_neg h4]
          by_cases h5 : l.c.stepping = true
          · rw [if_pos h5, if_pos h5, requestL_eq l .pause h5 hex htr]
            cases h6 : (requestInterrupt l.c .pause).interrupt <;> exact ⟨⟨rfl, rfl, rfl, rfl⟩, rfl⟩
          · rw [if_neg h5, if_neg h5]; exact ⟨doPauseL_cons l, rfl⟩

theorem playL_cons (l : LCfg) : Cons l (play l.c).1 (playL F0 l).1 ∧ (playL F0 l).2 = (play l.c).2 := by
  have h2 : (play l.c).2 = .bool true := by unfold play; split <;> (try split) <;> rfl
  unfold playL
  split <;> exact ⟨⟨rfl, rfl, rfl, rfl⟩, h2.symm⟩

theorem killL_cons (l : LCfg) (hex : Ex l) (htr : l.trans = none) (hef : l.entryFails = false) :
    Cons l (kill l.c).1 (killL F0 l).1 ∧ (killL F0 l).2 = (kill l.c).2 := by
  unfold killL kill
  dsimp only
  by_cases h1 : l.c.st.label = .killed
  · rw [if_pos h1, if_pos h1]; exact ⟨⟨rfl, rfl, rfl, rfl⟩, rfl⟩
  · rw [if_neg h1, if_neg h1]
    by_cases h2 : terminal l.c.st.label = true
    · rw [if_pos h2, if_pos h2]; exact ⟨⟨rfl, rfl, rfl, rfl⟩, rfl⟩
    · rw [if_neg h2, if_neg h2]
      cases h3 : l.c.killing with
      | some i => exact ⟨⟨rfl, rfl, rfl, rfl⟩, rfl⟩
      | none =>
        dsimp only
        by_cases h5 : l.c.stepping = true
        · rw [if_pos h5, if_pos h5, requestL_eq l .kill h5 hex htr]
          cases h6 : (requestInterrupt l.c .kill).interrupt <;> exact ⟨⟨rfl, rfl, rfl, rfl⟩, rfl⟩
        · rw [if_neg h5, if_neg h5]; exact ⟨transitionToL_cons l .killed hef, rfl⟩

theorem failL_cons (l : LCfg) (e : Exc) (hef : l.entryFails = false) :
    Cons l (fail l.c e).1 (failL F0 l e).1 ∧ (failL F0 l e).2 = (fail l.c e).2 := by
  unfold failL fail
  by_cases h1 : terminal l.c.st.label = true
  · rw [if_pos h1, if_pos h1]; exact ⟨⟨rfl, rfl, rfl, rfl⟩, rfl⟩
  · rw [if_neg h1, if_neg h1]; exact ⟨transitionToL_cons l _ hef, rfl⟩

theorem tickCbL_cons (l : LCfg) (cb : Cb) (hex : Ex l) (htr : l.trans = none) (hef : l.entryFails = false) :
    Cons l (tickCb l.c cb) (tickCbL F0 l cb) := by
  unfold tickCbL tickCb
  by_cases h1 : l.c.ready.contains cb = true
  · rw [if_pos h1, if_pos h1]
    dsimp only
    cases cb with
    | adone f => exact ⟨rfl, rfl, rfl, rfl⟩
    | trykill =>
      dsimp only
      have h := (killL_cons (l.upd (fun c => { c with ready := c.ready.erase Cb.trykill })) hex htr hef).1
      unfold tryKillingL tryKilling
      exact ⟨by rw [upd_c, h.c]; rfl, h.plan, h.ef, h.exe⟩
    | usercb raises =>
      dsimp only
      cases raises with
      | true =>
        have h := (failL_cons (l.upd (fun c => { c with ready := c.ready.erase (Cb.usercb true) })) (.user 8) hef).1
        exact ⟨h.c, h.plan, h.ef, h.exe⟩
      | false => exact ⟨rfl, rfl, rfl, rfl⟩
  · rw [if_neg h1, if_neg h1]; exact ⟨rfl, rfl, rfl, rfl⟩

/-! ### the closing part of a step -/

/-- what `runActionL`'s "retracted while transitioning" test relies on: a pending pause action that is run with a next state is
recorded in `_pausing` -/
def PIr (c : Cfg) (i : Nat) (next : Option SObj) : Prop :=
  ∀ s, actionStatus c i = .pending → actionKind c i = some .pause → next = some s → c.pausing.isSome = true

theorem actionStatus_of_actions {c c' : Cfg} (h : c'.actions = c.actions) (i : Nat) : actionStatus c' i = actionStatus c i := by
  unfold actionStatus; rw [h]

theorem runActionL_cons (l : LCfg) (i : Nat) (next : Option SObj) (hef : l.entryFails = false) (hpi : PIr l.c i next) :
    Cons l (runAction l.c i next) (runActionL F0 l i next) := by
  unfold runActionL runAction
  cases ha : l.c.actions[i]? with
  | none => exact ⟨rfl, rfl, rfl, rfl⟩
  | some a =>
    dsimp only
    by_cases hp : a.status ≠ .pending
    · rw [if_pos hp, if_pos hp]; exact ⟨rfl, rfl, rfl, rfl⟩
    · rw [if_neg hp, if_neg hp]
      have hp' : a.status = .pending := by simpa using hp
      have hst : actionStatus l.c i = .pending := by simp [actionStatus, ha, hp']
      -- the body of the action, then the conditional `set_result`
      have fin : ∀ (body : LCfg) (c' : Cfg), Cons l c' body → c'.actions = l.c.actions →
          Cons l (setActionStatus c' i .done)
            (if actionStatus body.c i = .pending then body.upd (fun c => setActionStatus c i .done) else body) := by
        intro body c' hb hact
        have : actionStatus body.c i = .pending := by rw [hb.c, actionStatus_of_actions hact]; exact hst
        rw [if_pos this]
        exact hb.upd (fun c => setActionStatus c i .done)
      cases hk : a.kind with
      | pause =>
        dsimp only
        cases next with
        | none =>
          dsimp only
          exact fin _ _ (doPauseL_cons l) rfl
        | some s =>
          dsimp only
          have ht := transitionToL_cons l s hef
          have hpa : (transitionToL F0 l s).c.pausing.isNone = false := by
            rw [ht.c, (transitionTo_pf l.c s).pausing]
            have := hpi s hst (by simp [actionKind, ha, hk]) rfl
            cases hq : l.c.pausing with
            | none => rw [hq] at this; cases this
            | some j => rfl
          simp only [hpa, Bool.false_eq_true, if_false]
          refine fin _ _ (ht.trans ((doPauseL_cons _).of_c (by rw [ht.c]))) ?_
          exact (transitionTo_pf l.c s).actions
      | kill =>
        dsimp only
        have ht := transitionToL_cons l .killed hef
        exact fin _ _ (ht.upd (fun c => { c with killing := none })) (transitionTo_pf l.c .killed).actions

theorem dispatch1L_cons (l : LCfg) (next : Option SObj) (hef : l.entryFails = false)
    (hl : terminal l.c.st.label = false) (hpi : ∀ i, l.c.interrupt = some i → PIr l.c i next) :
    Cons l (dispatch l.c next) (dispatch1L F0 l next) := by
  unfold dispatch1L dispatch
  rw [hl]
  simp only [Bool.false_eq_true, if_false]
  cases hi : l.c.interrupt with
  | some i =>
    dsimp only
    by_cases hc : actionStatus l.c i ≠ .cancelled
    · rw [if_pos hc, if_pos hc]; exact runActionL_cons l i next hef (hpi i hi)
    · rw [if_neg hc, if_neg hc]
      cases next with
      | none => exact ⟨rfl, rfl, rfl, rfl⟩
      | some s => exact transitionToL_cons l s hef
  | none =>
    dsimp only
    cases next with
    | none => exact ⟨rfl, rfl, rfl, rfl⟩
    | some s => exact transitionToL_cons l s hef

/-- with nothing left in the plan, the first branch of the closing part leaves nothing to enact -/
theorem dispatch1L_quiet (l : LCfg) (next : Option SObj) (hplan : l.plan = []) : Quiet (dispatch1L F0 l next) := by
  have hF : FAdv F0 := fireN_adv 0
  have hadv : ∀ d : LCfg, Adv l d → d.c.interrupt = l.c.interrupt ∧ d.c.actions = l.c.actions := by
    intro d hd
    rcases hd with hd | hd
    · rw [hplan] at hd; cases hd
    · exact hd.2
  unfold dispatch1L
  cases hi : l.c.interrupt with
  | some i =>
    dsimp only
    split
    · rcases runActionL_adv hF l i next with h | h
      · rw [hplan] at h; cases h
      · unfold Quiet; rw [h.2.1, hi]; exact Or.inl h.2.2
    · rename_i hc
      have hc' : actionStatus l.c i = .cancelled := by simpa using hc
      have hnp : actionStatus l.c i ≠ .pending := by rw [hc']; simp
      cases next with
      | none => unfold Quiet; rw [hi]; exact Or.inl hnp
      | some s =>
        dsimp only
        obtain ⟨h1, h2⟩ := hadv _ (transitionToL_adv hF l s)
        unfold Quiet; rw [h1, hi]; dsimp only
        exact Or.inl (by rw [actionStatus_of_actions h2]; exact hnp)
  | none =>
    dsimp only
    cases next with
    | none => unfold Quiet; rw [hi]; trivial
    | some s =>
      dsimp only
      obtain ⟨h1, _⟩ := hadv _ (transitionToL_adv hF l s)
      unfold Quiet; rw [h1, hi]; trivial

theorem dispatchL_cons (l : LCfg) (next : Option SObj) (hef : l.entryFails = false) (hplan : l.plan = [])
    (hpi : ∀ i, l.c.interrupt = some i → PIr l.c i next) : Cons l (dispatch l.c next) (dispatchL F0 l next) := by
  unfold dispatchL
  by_cases ht : terminal l.c.st.label = true
  · rw [if_pos ht]
    unfold dispatch; rw [if_pos ht]; exact ⟨rfl, rfl, rfl, rfl⟩
  · rw [if_neg ht]
    dsimp only
    rw [enactLoop_of_quiet _ _ (dispatch1L_quiet l next hplan)]
    exact dispatch1L_cons l next hef (by simpa using ht) hpi

end L

/-- **the invariant of the original model that conservativity needs**: a pending pause action in the interrupt slot is the
one recorded in `_pausing` (so `play()` retracts it by cancelling it, and nothing else can clear `_pausing` while it is pending) -/
def PI (c : Cfg) : Prop :=
  ∀ i, c.interrupt = some i → actionStatus c i = .pending → actionKind c i = some .pause → c.pausing = some i

theorem PI.of_eq {c c' : Cfg} (h : PI c) (h1 : c'.interrupt = c.interrupt) (h2 : c'.actions = c.actions)
    (h3 : c'.pausing = c.pausing) : PI c' := by
  unfold PI actionStatus actionKind; rw [h1, h2, h3]; exact h
theorem PI.of_none {c : Cfg} (h : c.interrupt = none) : PI c := by
  intro i hi; rw [h] at hi; cases hi
theorem PI.keep {c c' : Cfg} (h : PI c) (k : Keep c c') : PI c' := h.of_eq k.2.2.1 k.2.2.2.1 k.2.2.2.2.2

/-- the `except` clauses keep what `runActionL` relies on: an action installed by them is run without a next state -/
theorem prepare_pir (c : Cfg) (r : StepEnd) (h : PI c) :
    ∀ i, (prepare c r).1.interrupt = some i → L.PIr (prepare c r).1 i (prepare c r).2 := by
  have hnone : ∀ d : Cfg, ∀ nx, (setInterrupt d none).interrupt = some nx → False := by
    intro d nx hx; rw [setInterrupt_interrupt] at hx; cases hx
  unfold prepare
  split
  · intro i hi; exact (hnone _ _ hi).elim
  · intro i hi s hp hk _
    dsimp only at hi hp hk ⊢
    rw [h i hi hp hk]; rfl
  · split
    · intro i _ s _ _ hn; cases hn
    · intro i _ s _ _ hn; cases hn
  · intro i hi; exact (hnone _ _ hi).elim

namespace L

/-- `l` carries the configuration `c` of the original model, an empty plan and no failing entry -/
structure Sim (l : LCfg) (c : Cfg) : Prop where
  c : l.c = c
  plan : l.plan = []
  ef : l.entryFails = false

theorem Sim.cons {l l' : LCfg} {c' : Cfg} (h : Sim l l.c) (k : Cons l c' l') : Sim l' c' :=
  ⟨k.c, k.plan.trans h.plan, k.ef.trans h.ef⟩

theorem endOfStepL_sim (l : LCfg) (r : StepEnd) (h : Sim l l.c) (hpi : PI l.c) :
    Sim (endOfStepL F0 l r) (endOfStep l.c r) := by
  unfold endOfStepL endOfStep
  dsimp only
  have h0 : Sim { l with executing := false, c := (prepare l.c r).1 } (prepare l.c r).1 := ⟨rfl, h.plan, h.ef⟩
  have hd := dispatchL_cons { l with executing := false, c := (prepare l.c r).1 } (prepare l.c r).2 h.ef h.plan
    (prepare_pir l.c r hpi)
  exact Sim.cons h0 (hd.upd finally_)

end L
end PMF
