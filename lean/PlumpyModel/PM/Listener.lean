import PlumpyModel.PM.Model
/-!
# Process-control model with control requests issued DURING a transition (`PMF.L`)

`PM/Model.lean` lets the environment call `pause / play / kill` only BETWEEN two event-loop callbacks.  Real listeners
(`ProcessListener.on_process_running/waiting/paused/played`) and state-event callbacks (the EXITING / ENTERING phase of
`transition_to`, i.e. an overridden `on_exit_*` / `on_entering`) can call them from INSIDE a transition or from inside the
enactment of a pending request, most importantly during the closing part of `Process.step()`:

```
            self._executing = False                                   # (finally of the execute block)
            … except clauses …                                        # `prepare`
            if self.has_terminated(): pass
            else:
                if self._interrupt_action is not None and not self._interrupt_action.cancelled():
                    self._interrupt_action.run(next_state)            # `runActionL`
                else:
                    self.transition_to(next_state)                    # `transitionToL`
                while (self._interrupt_action is not None and not self._interrupt_action.done()
                       and not self.has_terminated()):
                    self._interrupt_action.run(None)                  # `enactLoop`
        finally:
            self._stepping = False; self._set_interrupt_action(None)  # `finally_`
```

This file extends the model ADDITIVELY: a configuration `LCfg` carries the old `Cfg`, the oracle (`Plan`), its occurrence
counters and the two flags the requests look at (`_executing`, `_transitioning`); every model function that contains a
notification point gets an `…L` twin that consults the oracle there; everything else is reused through `LCfg.upd`.
The oracle's requests are executed by the `…L` twins themselves (a `play()` made by `on_process_paused` notifies
`on_process_played`, whose listener may `pause()` again, …); the knot is tied by open recursion: every `…L` function takes
the notification function `F : Hook → LCfg → LCfg`, and `fireN n` is `F` with nesting depth `n`.
With the empty plan the `…L` model is the old model: a theorem (`Props/C01.lean`, `C01_listener_conservative_proved`;
`PM/LProof14.lean`, `PM/LProof15.lean`).

Notification points and their order (checked against the source):
* `_exit_current_state`: ALLOWED check, EXITING callbacks (**exiting**), `state.do_exit()`;
* `_enter_next_state`: ENTERING callbacks — first the process's own `on_entering` (resolves the future, may fail), then the
  others (**entering**) —, `do_enter()`, `self._state = …`, ENTERED callbacks: `on_entered` → `on_running` (**running**) /
  `on_waiting` (**waiting**) / …; then `on_terminated`;
* `on_paused` (**paused**) after `_pausing = None; _paused = Future()`; `_do_pause`'s `finally: _pausing = None`;
* `on_playing` (**played**) after `_paused = None`.
A request from the exiting / entering phase is issued only in the closing part of a step (`_stepping` and no longer `_executing`; the
harness: only from inside the stepping task's own callback): outside a step `pause()/kill()` would start a transition inside a
transition, which the state machine documents as unsupported.
-/
namespace PMF
namespace L

inductive Hook | running | waiting | paused | played | exiting | entering
deriving DecidableEq, Repr, Inhabited

inductive Req | pause | play | kill
deriving DecidableEq, Repr, Inhabited

/-- the oracle: at the `n`-th occurrence (1-based) of `hook` the callback issues `req` -/
abbrev Plan := List (Hook × Nat × Req)

structure LCfg where
  c : Cfg
  plan : Plan := []
  cnt : Hook → Nat := fun _ => 0         -- occurrences so far
  executing : Bool := false              -- `_executing`
  trans : Option Label := none           -- `_transitioning`, with the target label of the transition in progress
  entryFails : Bool := false
    -- the program's successful FINISHED state fails its output validation (`StateEntryFailed`, a required output is missing):
    -- `transition_to` re-targets the unsuccessful FINISHED state and runs the exit phase a second time.  (The model abstracts
    -- outputs: such a program is presented to it as one whose `stop` is unsuccessful, with this flag set.)
  issued : List (Hook × Req × Bool) := []
    -- log (newest first) of the requests issued by the oracle; the flag says: the process was live and no transition into a
    -- terminal state was in progress.  No model function reads it.

def LCfg.upd (l : LCfg) (f : Cfg → Cfg) : LCfg := { l with c := f l.c }

def bump (cnt : Hook → Nat) (h : Hook) : Hook → Nat := fun h' => if h' = h then cnt h + 1 else cnt h'

def hookPhase : Hook → Bool
  | .exiting => true | .entering => true | _ => false

def hookOfNotif : Notif → Option Hook
  | .running => some .running | .waiting => some .waiting | _ => none

/-- a transition into a terminal state is in progress (it cannot be abandoned: C01) -/
def terminalBound (l : LCfg) : Bool := match l.trans with | some t => terminal t | none => false

def logIssued (l : LCfg) (h : Hook) (r : Req) : LCfg :=
  { l with issued := (h, r, live l.c && !terminalBound l) :: l.issued }

/-- one notification: count it, look the occurrence up in the plan, let `R` execute the request.  (`dict.get`: an entry is
    used at most once since the counter only grows; it is removed.) -/
def fireK (R : Req → LCfg → LCfg) (h : Hook) (l : LCfg) : LCfg :=
  let n := l.cnt h + 1
  let l := { l with cnt := bump l.cnt h }
  if hookPhase h && !(l.c.stepping && !l.executing) then l else
  match l.plan.find? (fun e => e.1 = h && e.2.1 = n) with
  | none => l
  | some e => R e.2.2 (logIssued { l with plan := l.plan.erase e } h e.2.2)

/-! ### transitions -/
section
variable (F : Hook → LCfg → LCfg)

/-- ENTERED callbacks: `on_killed` clears `_killing`; the listeners are notified, the oracle is consulted -/
def enteredHooksL (l : LCfg) (s : SObj) : LCfg :=
  let l := l.upd (fun c => enteredHooks c s)
  match (enteredNotif s).bind hookOfNotif with
  | some h => F h l
  | none => l

/-- `transition_failed` → `transition_to(EXCEPTED)` with the exit phase bypassed -/
def forceExceptedL (l : LCfg) (e : Exc) : LCfg :=
  if l.c.closed then l.upd (fun c => { c with st := .excepted e }) else
  let l := { l with trans := some .excepted }
  let l := l.upd (fun c => setFutExc c e)
  let l := F .entering l
  let l := l.upd (fun c => setState c (.excepted e))
  let l := enteredHooksL F l (.excepted e)
  l.upd onTerminated

def enterNextL (l : LCfg) (s : SObj) : LCfg :=
  let l := l.upd (fun c => setState (enterState c s) s)
  let l := enteredHooksL F l s
  if terminal s.label then l.upd onTerminated else l

/-- the state was re-targeted after `StateEntryFailed` -/
def retargeted (l : LCfg) : SObj → Bool
  | .finished _ false => l.entryFails
  | _ => false

/-- `_exit_current_state` (after the ALLOWED check): EXITING callbacks, `do_exit()`; twice when the entry is re-targeted -/
def exitPhaseL (l : LCfg) (s : SObj) : LCfg :=
  let l := (F .exiting l).upd exitState
  if retargeted l s then (F .exiting l).upd exitState else l

def transitionToL (l : LCfg) (s : SObj) : LCfg :=
  let l := { l with trans := some s.label }
  let l :=
    if s.label ∈ allowed l.c.st.label then
      if l.c.closed then l.upd (fun c => { exitState c with st := s })
      else
        let l := exitPhaseL F l s
        match enteringHooks l.c s with
        | .error e => forceExceptedL F l e
        | .ok c2 => enterNextL F (F .entering { l with c := c2 }) s
    else forceExceptedL F l (.noTransition l.c.st.label s.label)
  { l with trans := none }

/-! ### control calls -/

/-- the `_stepping` branch of pause() / kill(): the state is interrupted only while it is being executed -/
def requestL (l : LCfg) (k : AKind) : Cfg :=
  if l.executing && l.trans.isNone then requestInterrupt l.c k
  else setInterruptFromExc { l.c with nextCookie := l.c.nextCookie + 1 } k l.c.nextCookie

/-- `on_pausing; on_paused` (listeners notified), then `_do_pause`'s `finally: self._pausing = None` -/
def doPauseL (l : LCfg) : LCfg :=
  let l := F .paused (l.upd doPauseHooks)
  l.upd (fun c => { c with pausing := none })

def pauseL (l : LCfg) : LCfg × RetV :=
  let c := l.c
  if terminal c.st.label then (l, .bool false)
  else if c.paused.isSome then (l, .bool true)
  else match c.pausing with
  | some i => (l.upd (fun c => hand c i), .action i)
  | none =>
    if c.killing.isSome then (l, .bool false)
    else if c.stepping then
      let c := requestL l .pause
      let c := { c with pausing := c.interrupt }
      match c.interrupt with
      | some i => ({ l with c := hand c i }, .action i)
      | none => ({ l with c := c }, .none)
    else (doPauseL F l, .bool true)

def playL (l : LCfg) : LCfg × RetV :=
  match l.c.paused with
  | none => (l.upd (fun c => (play c).1), .bool true)
  | some _ => (F .played (l.upd (fun c => (play c).1)), .bool true)

def killL (l : LCfg) : LCfg × RetV :=
  let c := l.c
  if c.st.label = .killed then (l, .bool true)
  else if terminal c.st.label then (l, .bool false)
  else match c.killing with
  | some i => (l.upd (fun c => hand c i), .action i)
  | none =>
    if c.stepping then
      let c := requestL l .kill
      let c := { c with killing := c.interrupt }
      match c.interrupt with
      | some i => ({ l with c := hand c i }, .action i)
      | none => ({ l with c := c }, .none)
    else (transitionToL F l .killed, .bool true)

def failL (l : LCfg) (e : Exc) : LCfg × RetV :=
  if terminal l.c.st.label then (l, .bool false) else (transitionToL F l (.excepted e), .none)

/-- a request of the oracle (its return value goes to the callback that made it) -/
def reqK : Req → LCfg → LCfg
  | .pause, l => (pauseL F l).1
  | .play, l => (playL F l).1
  | .kill, l => (killL F l).1

/-! ### the closing part of `Process.step` -/

/-- `CancellableAction.run(next)`: `_do_pause(msg, next)` / `do_kill(next)`; the result is stored only if the action was not
    cancelled (superseded by another request) while it ran -/
def runActionL (l : LCfg) (i : Nat) (next : Option SObj) : LCfg :=
  match l.c.actions[i]? with
  | none => l
  | some a =>
    if a.status ≠ .pending then l.upd (fun c => { c with pc := .crashed .alreadyRan }) else
    let l :=
      match a.kind with
      | .pause =>
          match next with
          | some s =>
              let l := transitionToL F l s
              if l.c.pausing.isNone then l            -- retracted by play() while transitioning: `return False`
              else doPauseL F l
          | none => doPauseL F l
      | .kill =>
          let l := transitionToL F l .killed
          l.upd (fun c => { c with killing := none })
    if actionStatus l.c i = .pending then l.upd (fun c => setActionStatus c i .done) else l

/-- the `while` loop: enact what was requested meanwhile -/
def enactLoop : Nat → LCfg → LCfg
  | 0, l => l
  | n+1, l =>
    match l.c.interrupt with
    | some i =>
        if actionStatus l.c i = .pending && !terminal l.c.st.label then enactLoop n (runActionL F l i none) else l
    | none => l

/-- the first branch: run the pending action with the next state, or do the nominal transition -/
def dispatch1L (l : LCfg) (next : Option SObj) : LCfg :=
  match l.c.interrupt with
  | some i =>
      if actionStatus l.c i ≠ .cancelled then runActionL F l i next
      else match next with | some s => transitionToL F l s | none => l
  | none => match next with | some s => transitionToL F l s | none => l

/-- every iteration of the loop that leaves something to enact has used up an entry of the plan -/
def dispatchL (l : LCfg) (next : Option SObj) : LCfg :=
  if terminal l.c.st.label then l else
  let l := dispatch1L F l next
  enactLoop F (l.plan.length + 1) l

def endOfStepL (l : LCfg) (r : StepEnd) : LCfg :=
  let l := { l with executing := false }
  let p := prepare l.c r
  (dispatchL F { l with c := p.1 } p.2).upd finally_

def finishUserL (l : LCfg) (o : Outcome) : LCfg :=
  match o with
  | .ret cmd => endOfStepL F { l with c := (cmdToState l.c cmd).1 } (.next (some (cmdToState l.c cmd).2))
  | .raise e => endOfStepL F l (.next (some (.excepted e)))

/-- the re-arming of an interrupted wait inside `Waiting.execute` (as in `wake`) -/
def rearm (c : Cfg) (wf : Nat) : Cfg :=
  match c.st with
  | .waiting f wf' wakeup aw =>
      if wf' = wf then
        let nw : WF := match wakeup with | some o => o | none => .pending
        { c with st := .waiting f c.wfs.length none aw, wfs := c.wfs ++ [nw] }
      else c
  | _ => c

def wakeL (l : LCfg) (fn wf : Nat) (w : WF) : LCfg :=
  match w with
  | .result v => endOfStepL F l (.next (some (.running fn (match v with | some x => [x] | none => []) [])))
  | .interrupted cookie => endOfStepL F (l.upd (fun c => rearm c wf)) (.interruption cookie)
  | .failed e => endOfStepL F l (.exception e)
  | .pending => l

def stepBodyKL (P : Prog) (k : LCfg → LCfg) (l : LCfg) : LCfg :=
  let l := { l with c := { l.c with stepping := true }, executing := true }
  match l.c.st with
  | .created fn => k (endOfStepL F l (.next (some (.running fn [] []))))
  | .running fn args kw =>
      let b := P fn args kw l.c.ctx
      let l := l.upd (fun c => { c with trace := { fn := fn, args := args, kw := kw, paused := c.paused.isSome } :: c.trace })
      if b.awaits = 0 then k (finishUserL F l b.out) else l.upd (fun c => { c with pc := .inUser { b with awaits := b.awaits - 1 } })
  | .waiting fn wf _ _ =>
      match l.c.wfs[wf]? with
      | some .pending => l.upd (fun c => { c with pc := .awaitWaiting wf })
      | some w => k (wakeL F l fn wf w)
      | none => l
  | _ => k (endOfStepL F l (.next none))

def loopHeadL (P : Prog) : Nat → LCfg → LCfg
  | 0, l => l
  | fuel+1, l =>
    match l.c.pc with
    | .crashed _ => l
    | _ =>
    if terminal l.c.st.label then l.upd (fun c => { c with pc := .done }) else
    if l.c.closed then l.upd (fun c => { c with pc := .crashed .closedErr }) else
    match l.c.paused with
    | some pf => if l.c.pfs[pf]? = some false then l.upd (fun c => { c with pc := .awaitPaused pf })
                 else stepBodyKL F P (loopHeadL P fuel) l
    | none => stepBodyKL F P (loopHeadL P fuel) l

def stepBodyL (P : Prog) (fuel : Nat) (l : LCfg) : LCfg := stepBodyKL F P (loopHeadL F P fuel) l

def tickStepperL (P : Prog) (l : LCfg) : LCfg :=
  match l.c.pc with
  | .notStarted => loopHeadL F P fuel0 l
  | .awaitPaused pf =>
      if l.c.pfs[pf]? = some true then
        match l.c.paused with
        | some pf' => if l.c.pfs[pf']? = some false then l.upd (fun c => { c with pc := .awaitPaused pf' }) else stepBodyL F P fuel0 l
        | none => stepBodyL F P fuel0 l
      else l
  | .inUser b =>
      if b.awaits = 0 then loopHeadL F P fuel0 (finishUserL F l b.out)
      else l.upd (fun c => { c with pc := .inUser { b with awaits := b.awaits - 1 } })
  | .awaitWaiting wf =>
      match l.c.wfs[wf]? with
      | some .pending => l
      | some w =>
          let fn := match l.c.st with | .waiting fn .. => fn | _ => 0
          loopHeadL F P fuel0 (wakeL F l fn wf w)
      | none => l
  | _ => l

def tryKillingL (l : LCfg) : LCfg := (killL F l).1.upd (fun c => { c with handed := l.c.handed })

def tickCbL (l : LCfg) (cb : Cb) : LCfg :=
  if l.c.ready.contains cb then
    let l := l.upd (fun c => { c with ready := c.ready.erase cb })
    match cb with
    | .adone f => l.upd (fun c => awaitableDone c f)
    | .trykill => tryKillingL F l
    | .usercb raises => if raises then (failL F l (.user 8)).1 else l
  else l

def stepLF (P : Prog) (l : LCfg) : Ev → LCfg × RetV
  | .tick => (tickStepperL F P l, .none)
  | .tickCb cb => (tickCbL F l cb, .none)
  | .pause => pauseL F l
  | .play => playL F l
  | .kill => killL F l
  | .resume v => (l.upd (fun c => (resume c v).1), (resume l.c v).2)
  | .fail e => failL F l e
  | .cancelFut => (l.upd (fun c => (cancelFut c).1), (cancelFut l.c).2)
  | .complete f o => (l.upd (fun c => complete c f o), .none)
  | .callSoon r => (l.upd (fun c => { c with ready := c.ready ++ [.usercb r] }), .none)

end

/-- notifications with requests nested at most `n` deep (every issued request uses up a plan entry, so `plan.length` is
    never exceeded) -/
def fireN : Nat → Hook → LCfg → LCfg
  | 0, h, l => { l with cnt := bump l.cnt h }
  | n+1, h, l => fireK (reqK (fireN n)) h l

/-- one event of the model with listeners: the same events as `step`, the oracle consulted at every notification point -/
def stepL (P : Prog) (l : LCfg) (ev : Ev) : LCfg × RetV := stepLF (fireN l.plan.length) P l ev

def runL (P : Prog) (l0 : LCfg) (evs : List Ev) : LCfg := evs.foldl (fun l e => (stepL P l e).1) l0

def initL (nfut : Nat) (plan : Plan) : LCfg := { c := init nfut, plan := plan }

end L
end PMF
