import PlumpyModel.PM.Proof16
import PlumpyModel.PM.Proof13
/-!
# C05 — transparency, fourth class: wake-ups while the process is held at a step boundary in CREATED or RUNNING

Helper definitions and lemmas of `C05_transparent_partial4` (`Props/C05.lean`).

When a tick of the run with pauses ends with the pause taking effect at a step boundary in CREATED or RUNNING, the reference
run executes in the same tick the same first step *and the rest of the loop*: it is ahead.  A wake-up request that arrives
during the hold therefore has to reach the reference run *before* that tick.  The reference history `unpaused4` does this by
**deferring the tick**: the tick is not emitted when it happens but when the held stepping task is woken (or at the end of
the history); the wake-ups of the hold are emitted at once, i.e. before it.  While a tick is deferred the two runs are related
by `Pend`: the reference configuration `d` is the one *before* the deferred tick, and the run with pauses is related (`Mid`)
to `firstStep d`, the configuration of the reference run after the first step of that tick.  A wake-up `W` keeps `Pend`
because it commutes with that first step on the reference side — `firstStep (W d) = W (firstStep d)` — the first step being a
transition into RUNNING (or nothing at all, before the process started), which neither reads nor writes what `W` touches.
-/
namespace PMF

/-! ### the first step of a tick, in closed form -/

/-- the configuration after the first `Process.step` of the tick that finds the stepping task at `c.pc` (not suspended on a
pause future) -/
def firstStep (c : Cfg) : Cfg :=
  match c.pc with
  | .inUser b => finishUser c b.out
  | .awaitWaiting wf =>
      match c.st, c.wfs[wf]? with
      | .waiting fn _ _ _, some w => wake c fn wf w
      | _, _ => c
  | _ => c

/-- the first step of the next tick is a transition into RUNNING, or the stepping task has not started: the user code
suspended at its last `await` returns a continuation, or the wait of the stepping task has a result -/
def okFirst (c : Cfg) : Bool :=
  match c.pc with
  | .notStarted => true
  | .inUser b => b.awaits == 0 && (match b.out with | .ret (.cont _ _ _) => true | _ => false)
  | .awaitWaiting wf =>
      match c.st, c.wfs[wf]? with
      | .waiting _ wf' _ _, some (.result _) => wf' == wf
      | _, _ => false
  | _ => false

theorem tick_first (P : Prog) (c : Cfg) (h : okFirst c = true) :
    tickStepper P c = loopHead P fuel0 (firstStep c) ∧ tickDone P c = loopDone P fuel0 (firstStep c) := by
  unfold okFirst at h
  split at h
  · rename_i hpc
    exact ⟨by rw [tickStepper_notStarted P c hpc]; unfold firstStep; rw [hpc],
      by rw [tickDone_notStarted P c hpc]; unfold firstStep; rw [hpc]⟩
  · rename_i b hpc
    simp only [Bool.and_eq_true, beq_iff_eq] at h
    exact ⟨by rw [tickStepper_inUser P c b hpc, if_pos h.1]; unfold firstStep; rw [hpc],
      by rw [tickDone_inUser P c b hpc, if_pos h.1]; unfold firstStep; rw [hpc]⟩
  · rename_i wf hpc
    split at h
    · rename_i fn wf' wk aw v hst hw
      have hwf : wf' = wf := by simpa using h
      subst hwf
      have hne : (WF.result v) ≠ .pending := by intro x; cases x
      exact ⟨by rw [tickStepper_wait_done P c fn wf' wk aw _ hpc hst hw hne]; unfold firstStep; rw [hpc]; dsimp only; rw [hst, hw],
        by rw [tickDone_wait_done P c fn wf' wk aw _ hpc hst hw hne]; unfold firstStep; rw [hpc]; dsimp only; rw [hst, hw]⟩
    · cases h
  · cases h

/-- what `transition_to(RUNNING)` followed by the `finally` of `Process.step` does to a configuration without pending
interrupt action: closed form -/
def toRunning (d : Cfg) (s : SObj) : Cfg :=
  { exitState d with st := s, entered := .running :: d.entered, notif := .running :: d.notif, stepping := false,
                     interrupt := none }

theorem exitState_fields17 (d : Cfg) : (exitState d).closed = d.closed ∧ (exitState d).st = d.st ∧
    (exitState d).entered = d.entered ∧ (exitState d).notif = d.notif ∧ (exitState d).interrupt = d.interrupt ∧
    (exitState d).efs = d.efs ∧ (exitState d).ready = d.ready ∧ (exitState d).ctx = d.ctx ∧
    (exitState d).efKeys = d.efKeys := by
  unfold exitState
  split
  · split <;> exact ⟨rfl, rfl, rfl, rfl, rfl, rfl, rfl, rfl, rfl⟩
  · exact ⟨rfl, rfl, rfl, rfl, rfl, rfl, rfl, rfl, rfl⟩

theorem endOfStep_toRunning (d : Cfg) (fn : Nat) (args : List Val) (kw : List (Nat × Val))
    (hi : d.interrupt = none) (hl : terminal d.st.label = false) (hc : d.closed = false) :
    endOfStep d (.next (some (.running fn args kw))) = toRunning d (.running fn args kw) := by
  have hal : SObj.label (.running fn args kw) ∈ allowed d.st.label := by
    show Label.running ∈ allowed d.st.label
    generalize d.st.label = l at hl
    cases l <;> simp [terminal, allowed] at hl ⊢
  obtain ⟨e1, e2, e3, e4, e5, _⟩ := exitState_fields17 d
  rw [endOfStep_unfold, prepare_next_other d _ (by intro e he; cases he)]
  dsimp only
  rw [dispatch_d d _ hi hl]
  unfold transOpt
  dsimp only
  unfold transitionTo
  rw [if_pos hal]
  simp only [hc, Bool.false_eq_true, if_false, enteringHooks]
  unfold enterNext enterState setState enteredHooks enteredNotif finally_ setInterrupt toRunning
  simp [SObj.label, terminal, allowed, e5, hi, e3, e4]

/-- the state the first step of the next tick enters (when `okFirst`): RUNNING, with the continuation returned by the user
code or the value the wait was resumed with -/
def firstTarget (c : Cfg) : Option SObj :=
  match c.pc with
  | .inUser b => (match b.out with | .ret (.cont fn a k) => some (.running fn a k) | _ => none)
  | .awaitWaiting wf =>
      match c.st, c.wfs[wf]? with
      | .waiting fn _ _ _, some (.result v) => some (.running fn (match v with | some x => [x] | none => []) [])
      | _, _ => none
  | _ => none

theorem firstStep_eq (d : Cfg) (hok : okFirst d = true) (hi : d.interrupt = none) (hl : terminal d.st.label = false)
    (hc : d.closed = false) :
    firstStep d = match firstTarget d with | some s => toRunning d s | none => d := by
  unfold okFirst at hok
  split at hok
  · rename_i hpc
    unfold firstStep firstTarget; rw [hpc]
  · rename_i b hpc
    simp only [Bool.and_eq_true, beq_iff_eq] at hok
    unfold firstStep firstTarget; rw [hpc]; dsimp only
    split at hok
    · rename_i fn a k hout
      rw [hout]; dsimp only
      exact endOfStep_toRunning d fn a k hi hl hc
    · cases hok.2
  · rename_i wf hpc
    unfold firstStep firstTarget; rw [hpc]; dsimp only
    split at hok
    · rename_i fn wf' wk aw v hst hw
      rw [hst, hw]; dsimp only
      exact endOfStep_toRunning d fn _ [] hi hl hc
    · cases hok
  · cases hok

/-- the passive part of a configuration that the wake-up requests of the fourth class touch: the awaited external futures and
the scheduled callbacks -/
def upd (c : Cfg) (E : List EFut) (R : List Cb) : Cfg := { c with efs := E, ready := R }

theorem upd_self (c : Cfg) : upd c c.efs c.ready = c := by cases c; rfl

theorem exitState_upd (d : Cfg) (E : List EFut) (R : List Cb) : exitState (upd d E R) = upd (exitState d) E R := by
  unfold exitState upd
  dsimp only
  split
  · split <;> rfl
  · rfl

theorem toRunning_upd (d : Cfg) (s : SObj) (E : List EFut) (R : List Cb) : toRunning (upd d E R) s = upd (toRunning d s) E R := by
  unfold toRunning
  rw [exitState_upd]
  rfl

/-- **the first step of a tick commutes with a change of the awaited futures' outcomes and of the scheduled callbacks** when it
is a transition into RUNNING (or nothing) -/
theorem firstStep_upd (d : Cfg) (E : List EFut) (R : List Cb) (hok : okFirst d = true) (hi : d.interrupt = none)
    (hl : terminal d.st.label = false) (hc : d.closed = false) : firstStep (upd d E R) = upd (firstStep d) E R := by
  rw [firstStep_eq (upd d E R) hok hi hl hc, firstStep_eq d hok hi hl hc]
  show (match firstTarget d with | some s => toRunning (upd d E R) s | none => upd d E R) = _
  split
  · exact toRunning_upd ..
  · rfl

theorem toRunning_fields (d : Cfg) (s : SObj) : (toRunning d s).efs = d.efs ∧ (toRunning d s).ready = d.ready ∧
    (∀ f, f ∈ (toRunning d s).efCb → f ∈ d.efCb) ∧ (toRunning d s).st = s := by
  obtain ⟨e1, e2, e3, e4, e5, e6, e7, e8, e9⟩ := exitState_fields17 d
  refine ⟨e6, e7, ?_, rfl⟩
  intro f hf
  have hf' : f ∈ (exitState d).efCb := hf
  unfold exitState at hf'
  split at hf'
  · have := (List.mem_filter.mp hf').1
    split at this <;> exact this
  · exact hf'

theorem firstStep_fields (d : Cfg) (hok : okFirst d = true) (hi : d.interrupt = none) (hl : terminal d.st.label = false)
    (hc : d.closed = false) : (firstStep d).efs = d.efs ∧ (firstStep d).ready = d.ready ∧
    (∀ f, f ∈ (firstStep d).efCb → f ∈ d.efCb) := by
  rw [firstStep_eq d hok hi hl hc]
  split
  · exact ⟨(toRunning_fields d _).1, (toRunning_fields d _).2.1, (toRunning_fields d _).2.2.1⟩
  · exact ⟨rfl, rfl, fun _ h => h⟩

/-! ### the wake-up requests admitted while a tick is deferred, as changes of the passive part -/

/-- wake-up requests admitted while the process is held at a step boundary in CREATED or RUNNING and a tick is deferred; `L`
lists the external futures that carried a done-callback when the deferred tick started (the futures the program was waiting
on): `resume` (the process is not WAITING: the request is refused on both sides), `call_soon`, the run of a non-raising
scheduled callback, and the completion of a future that is not in `L` -/
def pendOk (L : List Nat) : Ev → Bool
  | .resume _ => true
  | .callSoon _ => true
  | .tickCb (.usercb false) => true
  | .complete f _ => !L.contains f
  | _ => false

def newE (E : List EFut) : Ev → List EFut
  | .complete f o => if E[f]? = some .pending then setAt E f o else E
  | _ => E

def newR (R : List Cb) : Ev → List Cb
  | .callSoon r => R ++ [.usercb r]
  | .tickCb (.usercb false) => R.erase (.usercb false)
  | _ => R

/-- `resume` changes nothing: the state is not WAITING, or its wait already has a result -/
def ResumeNoop (x : Cfg) : Prop :=
  NotWaiting x.st ∨ ∃ fn wf wk aw v, x.st = .waiting fn wf wk aw ∧ x.wfs[wf]? = some (.result v)

theorem resume_noop (x : Cfg) (v : Option Val) (h : ResumeNoop x) : (resume x v).1 = x := by
  unfold resume
  rcases h with h | ⟨fn, wf, wk, aw, w, hst, hw⟩
  · split
    · rename_i fn wf wk aw hst; exact absurd hst (h _ _ _ _)
    · rfl
  · rw [hst]; dsimp only
    unfold deliver
    rw [hst]; dsimp only
    rw [hw]

theorem wake_upd (P : Prog) (x : Cfg) (L : List Nat) (e : Ev) (hok : pendOk L e = true) (hL : ∀ f, f ∈ x.efCb → f ∈ L)
    (hr : ResumeNoop x) : (step P x e).1 = upd x (newE x.efs e) (newR x.ready e) := by
  cases e with
  | resume v =>
    show (resume x v).1 = upd x x.efs x.ready
    rw [resume_noop x v hr, upd_self]
  | callSoon r => rfl
  | complete f o =>
    have hnf : x.efCb.contains f = false := by
      cases hc : x.efCb.contains f with
      | false => rfl
      | true =>
        have h1 : f ∈ L := hL f (List.contains_iff_mem.mp hc)
        simp [pendOk] at hok
        exact absurd h1 hok
    show complete x f o = upd x (if x.efs[f]? = some .pending then setAt x.efs f o else x.efs) x.ready
    unfold complete
    split
    · rename_i hp
      dsimp only
      rw [hnf, if_pos hp]
      simp [upd]
    · rename_i hp
      have hp' : ¬ x.efs[f]? = some .pending := fun h => hp h
      rw [if_neg hp', upd_self]
  | tickCb cb =>
    cases cb with
    | usercb r =>
      cases r with
      | false =>
        rw [show (step P x (.tickCb (.usercb false))).1 = tickCb x (.usercb false) from rfl, tickCb_usercb_eq]
        show _ = upd x x.efs (x.ready.erase (.usercb false))
        split
        · rfl
        · rename_i hc
          have : Cb.usercb false ∉ x.ready := fun h => hc (List.contains_iff_mem.mpr h)
          rw [List.erase_of_not_mem this, upd_self]
      | true => cases hok
    | _ => cases hok
  | _ => cases hok

theorem pendOk_isWake (L : List Nat) (e : Ev) (h : pendOk L e = true) : isWake e = true := by
  cases e with
  | tickCb cb =>
    cases cb with
    | usercb r => cases r <;> first | rfl | cases h
    | _ => cases h
  | _ => first | rfl | cases h

/-! ### the phase `Pend`: a tick of the reference run is deferred -/

def isCR : SObj → Bool
  | .created _ => true
  | .running _ _ _ => true
  | _ => false

theorem isCR_notWaiting {s : SObj} (h : isCR s = true) : NotWaiting s := by
  intro fn wf wk aw hs; rw [hs] at h; cases h

theorem isCR_live {s : SObj} (h : isCR s = true) : terminal s.label = false := by
  cases s <;> first | rfl | cases h

theorem SRel.eq_of_notWaiting {cw dw : List WF} {s s' : SObj} (h : SRel cw dw s s') (hn : NotWaiting s) : s' = s := by
  rcases h with ⟨h, _⟩ | ⟨fn, wf, aw, wf', w, h1, _⟩
  · exact h.symm
  · exact absurd h1 (hn _ _ _ _)

/-- the run with pauses `c` is held at a step boundary in CREATED or RUNNING; the reference run `d` has **not yet** received the
tick in which `c` got there: `c` corresponds (`Mid`) to `firstStep d`, the configuration of the reference run after the first
step of that tick.  `L` contains the futures that carry a done-callback in `d`. -/
structure Pend (L : List Nat) (c d : Cfg) : Prop where
  held : isAwaitPaused c.pc = true
  cr : isCR c.st = true
  ok : okFirst d = true
  mid : Mid c (firstStep d)
  dint : d.interrupt = none
  dlive : terminal d.st.label = false
  dclosed : d.closed = false
  blk : ∀ f, f ∈ d.efCb → f ∈ L
  rn : ResumeNoop d

theorem mid_upd {c d0 : Cfg} (h : Mid c d0) (E : List EFut) (R : List Cb) : Mid (upd c E R) (upd d0 E R) := by
  refine ⟨⟨?_, h.core.st, h.core.ckill, h.core.dint, h.core.dpaused⟩, h.int, h.stepping, h.ncc, h.ncd⟩
  obtain ⟨g1, g2, g3, g4, g5, g6, g7, g8, g9, g10, g11, g12, g13, g14, g15⟩ := sh_fields h.core.sh
  rw [sh_eq_iff]
  exact ⟨g1, g2, g3, g4, g5, rfl, g7, g8, g9, rfl, g11, g12, g13, g14, g15⟩

/-- **a wake-up request of the fourth class keeps `Pend`**: delivered to the run with pauses while it is held, and to the
reference run before the deferred tick -/
theorem pend_wake (P : Prog) (L : List Nat) (c d : Cfg) (e : Ev) (h : Pend L c d) (hok : pendOk L e = true) :
    Pend L (step P c e).1 (step P d e).1 := by
  obtain ⟨f1, f2, f3⟩ := firstStep_fields d h.ok h.dint h.dlive h.dclosed
  obtain ⟨g1, g2, g3, g4, g5, g6, g7, g8, g9, g10, g11, g12, g13, g14, g15⟩ := sh_fields h.mid.core.sh
  have hcn : NotWaiting c.st := isCR_notWaiting h.cr
  have hd0 : (firstStep d).st = c.st := h.mid.core.st.eq_of_notWaiting hcn
  have e1 : (step P d e).1 = upd d (newE d.efs e) (newR d.ready e) := wake_upd P d L e hok h.blk h.rn
  have e2 : (step P c e).1 = upd c (newE d.efs e) (newR d.ready e) := by
    rw [wake_upd P c L e hok (fun f hf => h.blk f (f3 f (by rw [← g7]; exact hf))) (Or.inl hcn), g6, g10, f1, f2]
  rw [e1, e2]
  refine ⟨h.held, h.cr, h.ok, ?_, h.dint, h.dlive, h.dclosed, h.blk, h.rn⟩
  rw [firstStep_upd d _ _ h.ok h.dint h.dlive h.dclosed]
  exact mid_upd h.mid _ _

theorem Pend.frame {L : List Nat} {c c' d : Cfg} (h : Pend L c d) (f : PFrame c c') (hi : c'.interrupt = none) : Pend L c' d := by
  refine ⟨by rw [f.2.2.2]; exact h.held, by rw [f.2.1]; exact h.cr, h.ok, ?_, h.dint, h.dlive, h.dclosed, h.blk, h.rn⟩
  refine ⟨h.mid.core.left f, hi, ?_, ?_, h.mid.ncd⟩
  · have := (sh_fields f.1).1; rw [this]; exact h.mid.stepping
  · intro e he; rw [f.2.2.2] at he; exact h.mid.ncc e he

theorem pause_pend (L : List Nat) (c d : Cfg) (h : Pend L c d) : Pend L (pause c).1 d := by
  rcases pause_shape c h.mid.core.ckill with b | ⟨hs, he⟩ | ⟨hs, hpn, b⟩
  · exact h.frame b.1 (by rw [b.2.1]; exact h.mid.int)
  · rw [he]; exact h.frame (doPauseHooks_pf c) h.mid.int
  · rw [h.mid.stepping] at hs; cases hs

theorem play_pend (L : List Nat) (c d : Cfg) (h : Pend L c d) : Pend L (play c).1 d := by
  obtain ⟨f, hi, hio, hp⟩ := play_shape c
  exact h.frame f (by rw [hi]; exact h.mid.int)

/-- a tick that does not wake the held stepping task keeps `Pend` -/
theorem tick_pend_idle (P : Prog) (L : List Nat) (c d : Cfg) (h : Pend L c d) (hr : runsBody c = false) :
    Pend L (tickStepper P c) d := by
  rcases tickStepper_not_runsBody P c h.held hr with e | ⟨pf', e⟩
  · rw [e]; exact h
  · rw [e]
    exact ⟨rfl, h.cr, h.ok, ⟨⟨h.mid.core.sh, h.mid.core.st, h.mid.core.ckill, h.mid.core.dint, h.mid.core.dpaused⟩,
      h.mid.int, h.mid.stepping, (by intro x hx; cases hx), h.mid.ncd⟩, h.dint, h.dlive, h.dclosed, h.blk, h.rn⟩

/-- **flushing the deferred tick**: once the reference run receives it, the two runs are in the phase `Lag` of the earlier
classes -/
theorem pend_flush (P : Prog) (L : List Nat) (c d : Cfg) (h : Pend L c d) (hD : tickDone P d = true) :
    Lag P c (tickStepper P d) := by
  obtain ⟨t1, t2⟩ := tick_first P d h.ok
  rw [t2] at hD
  exact ⟨h.held, firstStep d, fuel0, Nat.le_refl _, hD, t1, h.mid⟩

/-! ### entering `Pend`: the tick after whose first step the pause takes effect at a CREATED / RUNNING boundary -/

theorem firstStep_inv (c : Cfg) (h : Inv c) : Inv (firstStep c) := by
  unfold firstStep
  split
  · exact finishUser_inv _ _ h
  · split
    · exact wake_inv _ _ _ _ h
    · exact h
  · exact h

/-- the first steps of the two runs, started in step with each other -/
theorem firstStep_mid (c d : Cfg) (h : InStep c d) (hok : okFirst c = true) :
    Mid (firstStep c) (firstStep d) ∧ okFirst d = true ∧
      (isCR (firstStep c).st = true → ResumeNoop d ∧ terminal c.st.label = false) := by
  have hpcr := h.pc
  unfold okFirst at hok
  split at hok
  · rename_i hpc
    rw [hpc] at hpcr
    have hpd : d.pc = .notStarted := hpcr
    obtain ⟨hs, hi⟩ := h.idle (by rw [hpc]; rfl)
    have e1 : firstStep c = c := by unfold firstStep; rw [hpc]
    have e2 : firstStep d = d := by unfold firstStep; rw [hpd]
    rw [e1, e2]
    refine ⟨⟨h.core, hi, hs, (by intro e he; rw [hpc] at he; cases he), (by intro e he; rw [hpd] at he; cases he)⟩,
      by unfold okFirst; rw [hpd], ?_⟩
    intro hcr
    have hnw := isCR_notWaiting hcr
    have := h.core.st.eq_of_notWaiting hnw
    exact ⟨Or.inl (this ▸ hnw), isCR_live hcr⟩
  · rename_i b hpc
    rw [hpc] at hpcr
    obtain ⟨hpd, fn, args, kw, hst⟩ := hpcr
    have e1 : firstStep c = finishUser c b.out := by unfold firstStep; rw [hpc]
    have e2 : firstStep d = finishUser d b.out := by unfold firstStep; rw [hpd]
    rw [e1, e2]
    have he := finishUser_core c d b.out h.core h.intOk
    refine ⟨mid_of_end he (by intro e he; rw [hpc] at he; cases he) (by intro e he; rw [hpd] at he; cases he),
      by unfold okFirst; rw [hpd]; exact hok, ?_⟩
    intro _
    have hnw : NotWaiting c.st := by rw [hst]; intro a b c d h; cases h
    have := h.core.st.eq_of_notWaiting hnw
    exact ⟨Or.inl (this ▸ hnw), by rw [hst]; rfl⟩
  · rename_i wf hpc
    rw [hpc] at hpcr
    obtain ⟨fn, wk, aw, wf', hst, hst', hpd⟩ := hpcr
    obtain ⟨wf2, w, hwk, hst2, hw, hw', hni⟩ := h.core.st.waiting_inv hst
    rw [hst'] at hst2; cases hst2
    rw [hst, hw] at hok
    cases w with
    | result v =>
      have e1 : firstStep c = wake c fn wf (.result v) := by unfold firstStep; rw [hpc]; dsimp only; rw [hst, hw]
      have e2 : firstStep d = wake d fn wf' (.result v) := by unfold firstStep; rw [hpd]; dsimp only; rw [hst', hw']
      rw [e1, e2]
      have he := wake_core c d fn wf wf' (.result v) h.core h.intOk hni (by intro x; cases x)
      refine ⟨mid_of_end he (by intro e he; rw [hpc] at he; cases he) (by intro e he; rw [hpd] at he; cases he),
        by unfold okFirst; rw [hpd]; dsimp only; rw [hst', hw']; simp, ?_⟩
      intro _
      exact ⟨Or.inr ⟨fn, wf', none, aw, v, hst', hw'⟩, by rw [hst]; rfl⟩
    | _ => cases hok
  · cases hok

/-- **entering `Pend`**: the run with pauses and the reference run are in step, and the first step of the next tick ends, in
the run with pauses, with the pause taking effect at a step boundary in CREATED or RUNNING.  The run with pauses performs
the tick; the reference run does not (yet). -/
theorem pend_intro (P : Prog) (c d : Cfg) (h : InStep c d) (hI : Inv c) (hok : okFirst c = true)
    (hh : heldB (firstStep c) = true) (hcr : isCR (firstStep c).st = true) : Pend c.efCb (tickStepper P c) d := by
  obtain ⟨hm, hokd, hrest⟩ := firstStep_mid c d h hok
  obtain ⟨hrn, hlive⟩ := hrest hcr
  obtain ⟨pf, hp, hf⟩ := (heldB_iff _).mp hh
  have hl1 := isCR_live hcr
  have hc1 : (firstStep c).closed = false := not_closed_of_live (firstStep_inv c hI) hl1
  have ht : tickStepper P c = { firstStep c with pc := .awaitPaused pf } := by
    rw [(tick_first P c hok).1]
    exact loopHead_held P 999 (firstStep c) hm.ncc hl1 hc1 pf hp hf
  obtain ⟨g1, g2, g3, g4, g5, g6, g7, g8, g9, g10, g11, g12, g13, g14, g15⟩ := sh_fields h.core.sh
  rw [ht]
  refine ⟨rfl, hcr, hokd, ⟨⟨hm.core.sh, hm.core.st, hm.core.ckill, hm.core.dint, hm.core.dpaused⟩, hm.int, hm.stepping,
    (by intro x hx; cases hx), hm.ncd⟩, h.core.dint, by rw [← h.core.label]; exact hlive, ?_, ?_, hrn⟩
  · rw [← g4]; exact not_closed_of_live hI hlive
  · intro f hf; rw [g7]; exact hf

end PMF
