import PlumpyModel.PM.Proof16
import PlumpyModel.PM.Proof13
/-!
# C05 — transparency, fourth class: wake-ups while the process is held at a step boundary in CREATED or RUNNING

Helper definitions and lemmas of `C05_transparent_partial4` (`Props/C05.lean`).

When a tick of the run with pauses ends with the pause taking effect at a step boundary in CREATED or RUNNING, the reference
run executes in the same tick the same first step *and the rest of the loop*: it is ahead.  A wake-up request that arrives
during the hold therefore has to reach the reference run *before* that tick.  The reference history `unpaused4` does this by
**deferring the tick**: the tick is not emitted when it happens but when the held stepping task is woken (or at the end of
the history); the wake-ups of the hold are emitted at once, i.e. before it.  While a tick is deferred the two runs are related
by `Pend`: the reference configuration `d` is the one *before* the deferred tick, and the run with pauses is related (`Mid`)
to `firstStep d`, the configuration of the reference run after the first step of that tick.  A wake-up `W` keeps `Pend`
because it commutes with that first step on the reference side — `firstStep (W d) = W (firstStep d)` — the first step being a
transition into RUNNING (or nothing at all, before the process started), which neither reads nor writes what `W` touches.
-/
namespace PMF

/-! ### the first step of a tick, in closed form -/

/-- the configuration after the first `Process.step` of the tick that finds the stepping task at `c.pc` (not suspended on a
pause future) -/
def firstStep (c : Cfg) : Cfg :=
  match c.pc with
  | .inUser b => finishUser c b.out
  | .awaitWaiting wf =>
      match c.st, c.wfs[wf]? with
      | .waiting fn _ _ _, some w => wake c fn wf w
      | _, _ => c
  | _ => c

/-- the first step of the next tick is a transition into RUNNING, or the stepping task has not started: the user code
suspended at its last `await` returns a continuation, or the wait of the stepping task has a result -/
def okFirst (c : Cfg) : Bool :=
  match c.pc with
  | .notStarted => true
  | .inUser b => b.awaits == 0 && (match b.out with | .ret (.cont _ _ _) => true | _ => false)
  | .awaitWaiting wf =>
      match c.st, c.wfs[wf]? with
      | .waiting _ wf' _ _, some (.result _) => wf' == wf
      | _, _ => false
  | _ => false

theorem tick_first (P : Prog) (c : Cfg) (h : okFirst c = true) :
    tickStepper P c = loopHead P fuel0 (firstStep c) ∧ tickDone P c = loopDone P fuel0 (firstStep c) := by
  unfold okFirst at h
  split at h
  · rename_i hpc
    exact ⟨by rw [tickStepper_notStarted P c hpc]; unfold firstStep; rw [hpc],
      by rw [tickDone_notStarted P c hpc]; unfold firstStep; rw [hpc]⟩
  · rename_i b hpc
    simp only [Bool.and_eq_true, beq_iff_eq] at h
    exact ⟨by rw [tickStepper_inUser P c b hpc, if_pos h.1]; unfold firstStep; rw [hpc],
      by rw [tickDone_inUser P c b hpc, if_pos h.1]; unfold firstStep; rw [hpc]⟩
  · rename_i wf hpc
    split at h
    · rename_i fn wf' wk aw v hst hw
      have hwf : wf' = wf := by simpa using h
      subst hwf
      have hne : (WF.result v) ≠ .pending := by intro x; cases x
      exact ⟨by rw [tickStepper_wait_done P c fn wf' wk aw _ hpc hst hw hne]; unfold firstStep; rw [hpc]; dsimp only; rw [hst, hw],
        by rw [tickDone_wait_done P c fn wf' wk aw _ hpc hst hw hne]; unfold firstStep; rw [hpc]; dsimp only; rw [hst, hw]⟩
    · cases h
  · cases h

/-- what `transition_to(RUNNING)` followed by the `finally` of `Process.step` does to a configuration without pending
interrupt action: closed form -/
def toRunning (d : Cfg) (s : SObj) : Cfg :=
  { exitState d with st := s, entered := .running :: d.entered, notif := .running :: d.notif, stepping := false,
                     interrupt := none }

theorem exitState_fields17 (d : Cfg) : (exitState d).closed = d.closed ∧ (exitState d).st = d.st ∧
    (exitState d).entered = d.entered ∧ (exitState d).notif = d.notif ∧ (exitState d).interrupt = d.interrupt ∧
    (exitState d).efs = d.efs ∧ (exitState d).ready = d.ready ∧ (exitState d).ctx = d.ctx ∧
    (exitState d).efKeys = d.efKeys := by
  unfold exitState
  split
  · split <;> exact ⟨rfl, rfl, rfl, rfl, rfl, rfl, rfl, rfl, rfl⟩
  · exact ⟨rfl, rfl, rfl, rfl, rfl, rfl, rfl, rfl, rfl⟩

theorem endOfStep_toRunning (d : Cfg) (fn : Nat) (args : List Val) (kw : List (Nat × Val))
    (hi : d.interrupt = none) (hl : terminal d.st.label = false) (hc : d.closed = false) :
    endOfStep d (.next (some (.running fn args kw))) = toRunning d (.running fn args kw) := by
  have hal : SObj.label (.running fn args kw) ∈ allowed d.st.label := by
    show Label.running ∈ allowed d.st.label
    generalize d.st.label = l at hl
    cases l <;> simp [terminal, allowed] at hl ⊢
  obtain ⟨e1, e2, e3, e4, e5, _⟩ := exitState_fields17 d
  rw [endOfStep_unfold, prepare_next_other d _ (by intro e he; cases he)]
  dsimp only
  rw [dispatch_d d _ hi hl]
  unfold transOpt
  dsimp only
  unfold transitionTo
  rw [if_pos hal]
  simp only [hc, Bool.false_eq_true, if_false, enteringHooks]
  unfold enterNext enterState setState enteredHooks enteredNotif finally_ setInterrupt toRunning
  simp [SObj.label, terminal, allowed, e5, hi, e3, e4]

end PMF
