import PlumpyModel.PM.LProof17
/-!
# `PMF.L` — progress with listeners, part 3: the closing part of a step, the step loop, every event, every history

`Inv10L` is `Inv10` of PM/Proof10.lean for the model with listeners (with the lifecycle invariant `Inv` in the place of `Inv2`
for "a live process is not closed"): it holds in every configuration reached by `runL`, for every plan (`runL_inv10L`).
On a terminated process a wake-up of the stepping task consults no listener (`tickStepperL_terminal_c`), so
`stepper_returns_gen` applies: **`step_until_terminated()` returns also when listeners issue requests** (`stepperL_returns`).
-/
namespace PMF
namespace L

theorem Hq.qq {l l' : LCfg} (h : Hq l.c) (q : QQ l l') : Hq l'.c := by
  intro pf hp; rw [q.pc] at hp; exact q.pfs.2 pf (h pf hp)

theorem pending_of_status {c : Cfg} {i : Nat} (h : actionStatus c i = .pending) :
    ∀ a, c.actions[i]? = some a → a.status = .pending := by
  intro a ha; simpa [actionStatus, ha] using h

section
variable {F : Hook → LCfg → LCfg}

/-- the conditional `set_result` at the end of `CancellableAction.run` -/
theorem setDone_invS (i : Nat) (body : LCfg) (h : InvS body.c ∧ Hq body.c) :
    InvS (if actionStatus body.c i = .pending then body.upd (fun c => setActionStatus c i .done) else body).c ∧
    Hq (if actionStatus body.c i = .pending then body.upd (fun c => setActionStatus c i .done) else body).c := by
  split
  · exact ⟨h.1.ar (setActionStatus_ar ..), h.2.ar (setActionStatus_ar ..)⟩
  · exact h

/-- running the interrupt action (pending) — whatever listeners request meanwhile -/
theorem runActionL_invS (hF : FJ F) (l : LCfg) (i : Nat) (next : Option SObj) (h : InvS l.c) (hi : Inv l.c) (hq : Hq l.c)
    (hl : terminal l.c.st.label = false)
    (hp : ∀ a, l.c.actions[i]? = some a → a.status = .pending)
    (hn : (∃ pf, l.c.pc = .awaitPaused pf) → next = none)
    (ht : ∀ s, next = some s → TargetOk l.c s) :
    InvS (runActionL F l i next).c ∧ Hq (runActionL F l i next).c := by
  cases next with
  | none =>
    unfold runActionL
    split
    · exact ⟨h, hq⟩
    · rename_i a ha
      split
      · rename_i hne; exact absurd (hp a ha) hne
      · apply setDone_invS
        split
        · dsimp only
          exact ⟨doPauseL_invS hF l h hi hq (fun _ _ => hl), Hq.qq hq (doPauseL_qq hF.q l)⟩
        · have q1 := transitionToL_qq hF.q l .killed
          have h1 := transitionToL_invS hF l .killed h hi hl (targetOk_killed _)
          have hq1 : Hq (transitionToL F l .killed).c := Hq.qq hq q1
          exact ⟨⟨h1.nocrash, h1.aw, h1.ap, h1.pv, h1.wv, h1.tp⟩, hq1⟩
  | some s =>
    unfold runActionL
    split
    · exact ⟨h, hq⟩
    · rename_i a ha
      split
      · rename_i hne; exact absurd (hp a ha) hne
      · apply setDone_invS
        split
        · dsimp only
          have q1 := transitionToL_qq hF.q l s
          have h1 := transitionToL_invS hF l s h hi hl (ht s rfl)
          have i1 := transitionToL_inv hF.g1 l s hi hl
          have hq1 : Hq (transitionToL F l s).c := Hq.qq hq q1
          split
          · exact ⟨h1, hq1⟩
          · have hl1 : ∀ pf, (transitionToL F l s).c.pc = .awaitPaused pf → terminal (transitionToL F l s).c.st.label = false := by
              intro pf hpf; rw [q1.pc] at hpf; have := hn ⟨pf, hpf⟩; cases this
            exact ⟨doPauseL_invS hF _ h1 i1 hq1 hl1, Hq.qq hq1 (doPauseL_qq hF.q _)⟩
        · have q1 := transitionToL_qq hF.q l .killed
          have h1 := transitionToL_invS hF l .killed h hi hl (targetOk_killed _)
          have hq1 : Hq (transitionToL F l .killed).c := Hq.qq hq q1
          exact ⟨⟨h1.nocrash, h1.aw, h1.ap, h1.pv, h1.wv, h1.tp⟩, hq1⟩

theorem enactLoop_invS (hF : FJ F) : ∀ (n : Nat) (l : LCfg), InvS l.c → Inv l.c → Hq l.c →
    InvS (enactLoop F n l).c ∧ Inv (enactLoop F n l).c ∧ Hq (enactLoop F n l).c
  | 0, _, h, hi, hq => ⟨h, hi, hq⟩
  | n+1, l, h, hi, hq => by
    unfold enactLoop
    split
    · rename_i i _
      split
      · rename_i hc
        simp only [Bool.and_eq_true, decide_eq_true_eq, Bool.not_eq_true'] at hc
        obtain ⟨h1, q1⟩ := runActionL_invS hF l i none h hi hq hc.2 (pending_of_status hc.1) (fun _ => rfl)
          (fun s hs => by cases hs)
        exact enactLoop_invS hF n _ h1 (runActionL_inv hF.g1 l i none hi hc.2) q1
      · exact ⟨h, hi, hq⟩
    · exact ⟨h, hi, hq⟩

theorem dispatchL_invS (hF : FJ F) (l : LCfg) (next : Option SObj) (h : InvS l.c) (hi : Inv l.c) (hq : Hq l.c) (hia : IA l.c)
    (hn : (∃ pf, l.c.pc = .awaitPaused pf) → l.c.interrupt = none ∨ next = none)
    (ht : ∀ s, next = some s → TargetOk l.c s) :
    InvS (dispatchL F l next).c ∧ Inv (dispatchL F l next).c ∧ Hq (dispatchL F l next).c := by
  unfold dispatchL
  split
  · exact ⟨h, hi, hq⟩
  · rename_i hl
    have hl' : terminal l.c.st.label = false := by simpa using hl
    have h1 : InvS (dispatch1L F l next).c ∧ Inv (dispatch1L F l next).c ∧ Hq (dispatch1L F l next).c := by
      have nominal : InvS (match next with | some s => transitionToL F l s | none => l).c ∧
          Inv (match next with | some s => transitionToL F l s | none => l).c ∧
          Hq (match next with | some s => transitionToL F l s | none => l).c := by
        cases next with
        | none => exact ⟨h, hi, hq⟩
        | some s =>
          exact ⟨transitionToL_invS hF l s h hi hl' (ht s rfl), transitionToL_inv hF.g1 l s hi hl',
            Hq.qq hq (transitionToL_qq hF.q l s)⟩
      unfold dispatch1L
      split
      · rename_i i hint
        split
        · rename_i hnc
          have hp : ∀ a, l.c.actions[i]? = some a → a.status = .pending := by
            intro a ha
            rcases hia i a hint ha with hp | hp
            · exact hp
            · exfalso; apply hnc; simp [actionStatus, ha, hp]
          obtain ⟨a1, a2⟩ := runActionL_invS hF l i next h hi hq hl' hp
            (by intro hx; rcases hn hx with h0 | h0
                · rw [hint] at h0; cases h0
                · exact h0) ht
          exact ⟨a1, runActionL_inv hF.g1 l i next hi hl', a2⟩
        · exact nominal
      · exact nominal
    exact enactLoop_invS hF _ _ h1.1 h1.2.1 h1.2.2

/-- what holds at the head of `step_until_terminated`'s loop inside a wake-up of the stepping task -/
structure TickL (l : LCfg) : Prop where
  s : InvS l.c
  i : Inv l.c
  q : Hq l.c
  int : l.c.interrupt = none
  stp : l.c.stepping = false

theorem endOfStepL_tick (hF : FJ F) (l : LCfg) (r : StepEnd) (h : InvS l.c) (hi : Inv l.c) (hq : Hq l.c) (hia : IA l.c)
    (hqi : (∃ pf, l.c.pc = .awaitPaused pf) → l.c.interrupt = none)
    (hr : ∀ s, r = .next (some s) → TargetOk l.c s) : TickL (endOfStepL F l r) := by
  have a := prepare_ar l.c r
  unfold endOfStepL; dsimp only
  obtain ⟨d1, d2, d3⟩ := dispatchL_invS hF { l with executing := false, c := (prepare l.c r).1 } (prepare l.c r).2
    (h.ar a) (hi.same (prepare_same l.c r)) (hq.ar a) (prepare_ia l.c r hia)
    (by intro ⟨pf, hpf⟩
        have hpf' : (prepare l.c r).1.pc = .awaitPaused pf := hpf
        rw [a.pc] at hpf'; exact prepare_hn l.c r (hqi ⟨pf, hpf'⟩))
    (prepare_target l.c r hr)
  exact ⟨finally_invS _ d1, d2.same (finally_same _), finally_hq _ d3, finally_interrupt _, finally_stepping _⟩

end

/-- the linking invariant of PM/Proof10.lean for the model with listeners (between two events) -/
structure Inv10L (l : LCfg) : Prop where
  s : InvS l.c
  i : Inv l.c
  ia : IA l.c
  qi : PMF.Quiet l.c → l.c.interrupt = none
  qs : PMF.Quiet l.c → l.c.stepping = false

theorem Inv10L.old {l : LCfg} (h : Inv10L l) : Inv10 l.c := ⟨h.s, h.ia, h.qi, h.qs⟩
theorem inv10L_of_old {l : LCfg} (h : Inv10 l.c) (hi : Inv l.c) : Inv10L l := ⟨h.s, hi, h.ia, h.qi, h.qs⟩

theorem tickL_inv10 {l : LCfg} (h : TickL l) : Inv10L l :=
  ⟨h.s, h.i, IA.of_none h.int, fun _ => h.int, fun _ => h.stp⟩

theorem inv10L_init (nf : Nat) (plan : Plan) : Inv10L (initL nf plan) := inv10L_of_old (inv10_init nf) (inv_init nf)

/-- an event that is not a wake-up of the stepping task: the frame `QQ` carries the rest of the invariant -/
theorem inv10L_of_qq {l l' : LCfg} (h : Inv10L l) (q : QQ l l') (s : InvS l'.c) (i : Inv l'.c) : Inv10L l' := by
  have hquiet : PMF.Quiet l'.c → PMF.Quiet l.c := by intro hq; unfold PMF.Quiet at *; rw [q.pc] at hq; exact hq
  refine ⟨s, i, q.ia h.ia, ?_, ?_⟩
  · intro hq; rw [q.int (h.qs (hquiet hq))]; exact h.qi (hquiet hq)
  · intro hq; rw [q.stepping]; exact h.qs (hquiet hq)

section
variable {F : Hook → LCfg → LCfg}

theorem rearm_eq (c : Cfg) (wf : Nat) : rearm c wf = PMF.rearm c wf := rfl

theorem finishUserL_tick (hF : FJ F) (l : LCfg) (o : Outcome) (h : InvS l.c) (hi : Inv l.c) (hq : Hq l.c) (hia : IA l.c)
    (hqi : (∃ pf, l.c.pc = .awaitPaused pf) → l.c.interrupt = none) : TickL (finishUserL F l o) := by
  unfold finishUserL
  split
  · rename_i cmd
    have r := cmdToState_tr l.c cmd
    have hs : StW l.c (cmdToState l.c cmd).1 := Or.inl (cmdToState_fields l.c cmd).2
    apply endOfStepL_tick hF _ _ (h.tr r hs) (hi.same (cmdToState_same ..)) (hq.tr r) (hia.of_eq r.interrupt r.actions)
    · intro ⟨pf, hpf⟩
      have hpf' : (cmdToState l.c cmd).1.pc = .awaitPaused pf := hpf
      show (cmdToState l.c cmd).1.interrupt = none
      rw [r.interrupt]; rw [r.pc] at hpf'; exact hqi ⟨pf, hpf'⟩
    · intro s hs; cases hs; exact cmdToState_target l.c cmd
  · exact endOfStepL_tick hF l _ h hi hq hia hqi (by intro s hs; cases hs; exact targetOk_excepted ..)

theorem wakeL_tick (hF : FJ F) (l : LCfg) (fn wf : Nat) (w : WF) (h : InvS l.c) (hi : Inv l.c) (hq : Hq l.c) (hia : IA l.c)
    (hqi : (∃ pf, l.c.pc = .awaitPaused pf) → l.c.interrupt = none)
    (hw : l.c.wfs[wf]? = some w) (hne : w ≠ .pending) : TickL (wakeL F l fn wf w) := by
  unfold wakeL
  split
  · exact endOfStepL_tick hF l _ h hi hq hia hqi (by intro s hs; cases hs; exact targetOk_running ..)
  · rename_i cookie
    have r := rearm_tr l.c wf
    have hs := rearm_invS l.c wf h cookie hw
    rw [← rearm_eq] at r hs
    apply endOfStepL_tick hF _ _ hs (hi.same (rearm_same _ _)) (hq.tr r) (hia.of_eq r.interrupt r.actions)
    · intro ⟨pf, hpf⟩
      have hpf' : (rearm l.c wf).pc = .awaitPaused pf := hpf
      show (rearm l.c wf).interrupt = none
      rw [r.interrupt]; rw [r.pc] at hpf'; exact hqi ⟨pf, hpf'⟩
    · intro s hs; cases hs
  · exact endOfStepL_tick hF l _ h hi hq hia hqi (by intro s hs; cases hs)
  · exact absurd rfl hne

theorem stepBodyKL_inv10L (hF : FJ F) (P : Prog) (k : LCfg → LCfg) (hk : ∀ d, TickL d → Inv10L (k d)) (l : LCfg) (h : TickL l) :
    Inv10L (stepBodyKL F P k l) := by
  obtain ⟨hs, hi, hq, hint, hstp⟩ := h
  have hs1 : InvS ({ l with c := { l.c with stepping := true }, executing := true } : LCfg).c :=
    ⟨hs.nocrash, hs.aw, hs.ap, hs.pv, hs.wv, hs.tp⟩
  have hi1 : Inv ({ l with c := { l.c with stepping := true }, executing := true } : LCfg).c := hi.same ⟨rfl, rfl, rfl⟩
  have hq1 : Hq ({ l with c := { l.c with stepping := true }, executing := true } : LCfg).c := hq
  have hia1 : IA ({ l with c := { l.c with stepping := true }, executing := true } : LCfg).c := IA.of_none hint
  have hqi1 : (∃ pf, ({ l with c := { l.c with stepping := true }, executing := true } : LCfg).c.pc = .awaitPaused pf) →
      ({ l with c := { l.c with stepping := true }, executing := true } : LCfg).c.interrupt = none := fun _ => hint
  unfold stepBodyKL
  dsimp only
  split
  · exact hk _ (endOfStepL_tick hF _ _ hs1 hi1 hq1 hia1 hqi1 (by intro s hs; cases hs; exact targetOk_running ..))
  · rename_i fn args kw hst
    split
    · exact hk _ (finishUserL_tick hF _ _ ⟨hs.nocrash, hs.aw, hs.ap, hs.pv, hs.wv, hs.tp⟩ (hi.same ⟨rfl, rfl, rfl⟩) hq
        (IA.of_none hint) (fun _ => hint))
    · refine ⟨⟨?_, ?_, ?_, hs.pv, hs.wv, ?_⟩, hi.same ⟨rfl, rfl, rfl⟩, IA.of_none hint, ?_, ?_⟩
      · intro e h; cases h
      · intro wf h; cases h
      · intro pf h; cases h
      · intro pf h; cases h
      · intro hq; rcases hq with h | ⟨pf, h⟩ <;> cases h
      · intro hq; rcases hq with h | ⟨pf, h⟩ <;> cases h
  · rename_i fn wf wk aw hst
    split
    · rename_i hp
      refine ⟨⟨?_, ?_, ?_, hs.pv, hs.wv, ?_⟩, hi.same ⟨rfl, rfl, rfl⟩, IA.of_none hint, ?_, ?_⟩
      · intro e h; cases h
      · intro j hj; cases hj
        exact ⟨(List.getElem?_eq_some_iff.mp hp).1, Or.inl ⟨fn, wk, aw, hst⟩⟩
      · intro pf h; cases h
      · intro pf h; cases h
      · intro hq; rcases hq with h | ⟨pf, h⟩ <;> cases h
      · intro hq; rcases hq with h | ⟨pf, h⟩ <;> cases h
    · rename_i w hnp hw
      have hne : w ≠ .pending := by intro h; exact hnp h
      exact hk _ (wakeL_tick hF _ fn wf w hs1 hi1 hq1 hia1 hqi1 hw hne)
    · rename_i hnone
      exfalso
      have hlt := hs.wv _ _ _ _ hst
      have hnone' : l.c.wfs[wf]? = none := hnone
      rw [List.getElem?_eq_getElem hlt] at hnone'; cases hnone'
  · exact hk _ (endOfStepL_tick hF _ _ hs1 hi1 hq1 hia1 hqi1 (by intro s hs; cases hs))

theorem loopHeadL_inv10L (hF : FJ F) (P : Prog) : ∀ (fuel : Nat) (l : LCfg), TickL l → Inv10L (loopHeadL F P fuel l) := by
  intro fuel
  induction fuel with
  | zero => intro l h; simpa [loopHeadL] using tickL_inv10 h
  | succ n ih =>
    intro l h
    have hb := stepBodyKL_inv10L hF P (loopHeadL F P n) ih l h
    unfold loopHeadL
    split
    · exact tickL_inv10 h
    · split
      · refine ⟨⟨?_, ?_, ?_, h.s.pv, h.s.wv, ?_⟩, h.i.same ⟨rfl, rfl, rfl⟩, IA.of_none h.int, fun _ => h.int, fun _ => h.stp⟩
        · intro e h; cases h
        · intro wf h; cases h
        · intro pf h; cases h
        · intro pf h; cases h
      · rename_i hl
        have hl' : terminal l.c.st.label = false := by simpa using hl
        split
        · rename_i hcl
          rw [not_closed_of_live h.i hl'] at hcl; cases hcl
        · split
          · rename_i pf hpa
            split
            · refine ⟨⟨?_, ?_, ?_, h.s.pv, h.s.wv, ?_⟩, h.i.same ⟨rfl, rfl, rfl⟩, IA.of_none h.int, fun _ => h.int,
                fun _ => h.stp⟩
              · intro e h; cases h
              · intro wf h; cases h
              · intro pf' hp; cases hp
                exact ⟨h.s.pv pf hpa, Or.inl hpa⟩
              · intro pf' _ ht
                have ht' : terminal l.c.st.label = true := ht
                rw [hl'] at ht'; cases ht'
            · exact hb
          · exact hb

theorem tickStepperL_inv10L (hF : FJ F) (P : Prog) (l : LCfg) (h : Inv10L l) : Inv10L (tickStepperL F P l) := by
  unfold tickStepperL
  split
  · rename_i hpc
    exact loopHeadL_inv10L hF P _ l ⟨h.s, h.i, (by intro pf hp; rw [hpc] at hp; cases hp), h.qi (Or.inl hpc), h.qs (Or.inl hpc)⟩
  · rename_i pf hpc
    split
    · rename_i htrue
      have tk : TickL l := ⟨h.s, h.i, (by intro pf' hp; rw [hpc] at hp; cases hp; exact htrue),
        h.qi (Or.inr ⟨pf, hpc⟩), h.qs (Or.inr ⟨pf, hpc⟩)⟩
      have hb : Inv10L (stepBodyL F P fuel0 l) := stepBodyKL_inv10L hF P _ (loopHeadL_inv10L hF P fuel0) l tk
      split
      · rename_i pf' hpa
        split
        · refine ⟨⟨?_, ?_, ?_, h.s.pv, h.s.wv, ?_⟩, h.i.same ⟨rfl, rfl, rfl⟩, h.ia, fun _ => h.qi (Or.inr ⟨pf, hpc⟩),
            fun _ => h.qs (Or.inr ⟨pf, hpc⟩)⟩
          · intro e h; cases h
          · intro wf h; cases h
          · intro p hp; cases hp
            exact ⟨h.s.pv pf' hpa, Or.inl hpa⟩
          · intro p _
            exact h.s.tp pf hpc
        · exact hb
      · exact hb
    · exact h
  · rename_i b hpc
    have hqv : Hq l.c := by intro pf hp; rw [hpc] at hp; cases hp
    have hqiv : (∃ pf, l.c.pc = .awaitPaused pf) → l.c.interrupt = none := by
      intro ⟨pf, hp⟩; rw [hpc] at hp; cases hp
    split
    · exact loopHeadL_inv10L hF P _ _ (finishUserL_tick hF l b.out h.s h.i hqv h.ia hqiv)
    · refine ⟨⟨?_, ?_, ?_, h.s.pv, h.s.wv, ?_⟩, h.i.same ⟨rfl, rfl, rfl⟩, h.ia, ?_, ?_⟩
      · intro e h; cases h
      · intro wf h; cases h
      · intro pf h; cases h
      · intro pf h; cases h
      · intro hq; rcases hq with h | ⟨pf, h⟩ <;> cases h
      · intro hq; rcases hq with h | ⟨pf, h⟩ <;> cases h
  · rename_i wf hpc
    have hqv : Hq l.c := by intro pf hp; rw [hpc] at hp; cases hp
    have hqiv : (∃ pf, l.c.pc = .awaitPaused pf) → l.c.interrupt = none := by
      intro ⟨pf, hp⟩; rw [hpc] at hp; cases hp
    split
    · exact h
    · rename_i w hnp hw
      have hne : w ≠ .pending := by intro h; exact hnp h
      exact loopHeadL_inv10L hF P _ _ (wakeL_tick hF l _ wf w h.s h.i hqv h.ia hqiv hw hne)
    · exact h
  · exact h

/-! ### the other events -/

theorem tickCbL_inv10L (hF : FJ F) (l : LCfg) (cb : Cb) (h : Inv10L l) : Inv10L (tickCbL F l cb) := by
  unfold tickCbL; split
  · have h1 : Inv10L (l.upd (fun c => { c with ready := c.ready.erase cb })) :=
      inv10L_of_old (h.old.same rfl rfl rfl rfl rfl rfl rfl rfl) (h.i.same ⟨rfl, rfl, rfl⟩)
    dsimp only
    split
    · exact inv10L_of_old (awaitableDone_inv10 _ _ h1.old) (awaitableDone_inv _ _ h1.i)
    · unfold tryKillingL
      have h2 : Inv10L (killL F (l.upd (fun c => { c with ready := c.ready.erase Cb.trykill }))).1 :=
        inv10L_of_qq h1 (killL_qq hF.q _) (killL_invS hF _ h1.s h1.i) (killL_inv hF.g1 _ h1.i)
      exact inv10L_of_old (h2.old.same rfl rfl rfl rfl rfl rfl rfl rfl) (h2.i.same ⟨rfl, rfl, rfl⟩)
    · split
      · exact inv10L_of_qq h1 (failL_qq hF.q _ _) (failL_invS hF _ _ h1.s h1.i) (failL_inv hF.g1 _ _ h1.i)
      · exact h1
  · exact h

/-- every event preserves the linking invariant, for every notification function of the family -/
theorem stepLF_inv10L (hF : FJ F) (P : Prog) (l : LCfg) (ev : Ev) (h : Inv10L l) : Inv10L (stepLF F P l ev).1 := by
  cases ev <;> simp only [stepLF]
  · exact tickStepperL_inv10L hF P l h
  · exact tickCbL_inv10L hF l _ h
  · exact inv10L_of_qq h (pauseL_qq hF.q l) (pauseL_invS hF l h.s h.i) (pauseL_inv hF.g1 l h.i)
  · exact inv10L_of_qq h (playL_qq hF.q l) (playL_invS hF l h.s h.i) (playL_inv hF.g1 l h.i)
  · exact inv10L_of_qq h (killL_qq hF.q l) (killL_invS hF l h.s h.i) (killL_inv hF.g1 l h.i)
  · exact inv10L_of_old (resume_inv10 l.c _ h.old) (resume_inv l.c _ h.i)
  · exact inv10L_of_qq h (failL_qq hF.q l _) (failL_invS hF l _ h.s h.i) (failL_inv hF.g1 l _ h.i)
  · exact inv10L_of_old (cancelFut_inv10 l.c h.old) (cancelFut_inv l.c h.i)
  · exact inv10L_of_old (complete_inv10 l.c _ _ h.old) (complete_inv l.c _ _ h.i)
  · exact inv10L_of_old (h.old.same rfl rfl rfl rfl rfl rfl rfl rfl) (h.i.same ⟨rfl, rfl, rfl⟩)
end

/-- **the linking invariant holds in every configuration reached by `runL`**, for every plan -/
theorem runL_inv10L (P : Prog) (l0 : LCfg) (evs : List Ev) (h : Inv10L l0) : Inv10L (runL P l0 evs) := by
  induction evs generalizing l0 with
  | nil => exact h
  | cons e es ih => exact ih _ (stepLF_inv10L (fireN_fj _) P l0 e h)

/-! ### on a terminated process a wake-up of the stepping task consults no listener -/
section
variable {F : Hook → LCfg → LCfg}

theorem endOfStepL_terminal_c (l : LCfg) (r : StepEnd) (ht : terminal l.c.st.label = true) :
    (endOfStepL F l r).c = endOfStep l.c r := by
  have hp : (prepare l.c r).1.st = l.c.st := (prepare_ar l.c r).st
  unfold endOfStepL endOfStep dispatchL dispatch
  dsimp only
  rw [hp, if_pos ht, if_pos ht]
  rfl

theorem finishUserL_terminal_c (l : LCfg) (o : Outcome) (ht : terminal l.c.st.label = true) :
    (finishUserL F l o).c = finishUser l.c o := by
  unfold finishUserL finishUser
  cases o with
  | ret cmd =>
    exact endOfStepL_terminal_c (F := F) { l with c := (cmdToState l.c cmd).1 } _
      (by show terminal (cmdToState l.c cmd).1.st.label = true; rw [(cmdToState_fields l.c cmd).2]; exact ht)
  | raise e => exact endOfStepL_terminal_c l _ ht

theorem wakeL_terminal_c (l : LCfg) (fn wf : Nat) (w : WF) (ht : terminal l.c.st.label = true) :
    (wakeL F l fn wf w).c = wake l.c fn wf w := by
  unfold wakeL wake
  cases w with
  | result v => exact endOfStepL_terminal_c l _ ht
  | interrupted k =>
    exact endOfStepL_terminal_c (F := F) (l.upd (fun c => rearm c wf)) _ (by rw [upd_c, rearm_fix _ _ ht]; exact ht)
  | failed e => exact endOfStepL_terminal_c l _ ht
  | pending => rfl

theorem loopHeadL_terminal_c (P : Prog) (fuel : Nat) (l : LCfg) (ht : terminal l.c.st.label = true) :
    (loopHeadL F P fuel l).c = loopHead P fuel l.c := by
  cases fuel with
  | zero => rfl
  | succ n =>
    unfold loopHeadL
    split
    · rename_i e hc; rw [loopHead_crashed P n l.c e hc]
    · rename_i hnc
      rw [loopHead_eq P n l.c (fun e h => hnc e h), if_pos ht, if_pos ht]; rfl

theorem stepBodyL_terminal_c (P : Prog) (fuel : Nat) (l : LCfg) (ht : terminal l.c.st.label = true) :
    (stepBodyL F P fuel l).c = stepBody P fuel l.c := by
  obtain ⟨h1, h2, h3⟩ := not_live_of_terminal ht
  unfold stepBodyL stepBodyKL stepBody
  dsimp only
  rw [stepBodyK_other P _ l.c (fun fn h => h1 fn h) (fun fn a k h => h2 fn a k h) (fun fn wf wk aw h => h3 fn wf wk aw h)]
  split
  · rename_i fn h; exact absurd h (h1 fn)
  · rename_i fn a k h; exact absurd h (h2 fn a k)
  · rename_i fn wf wk aw h; exact absurd h (h3 fn wf wk aw)
  · have he := endOfStepL_terminal_c (F := F) { l with c := { l.c with stepping := true }, executing := true } (.next none) ht
    have hfix := endOfStepL_fix (F := F) { l with c := { l.c with stepping := true }, executing := true } (.next none) ht
    rw [loopHeadL_terminal_c P fuel _ (fix_term hfix ht), he]

theorem tickStepperL_terminal_c (P : Prog) (l : LCfg) (ht : terminal l.c.st.label = true) :
    (tickStepperL F P l).c = tickStepper P l.c := by
  unfold tickStepperL
  split
  · rename_i hpc
    unfold tickStepper; rw [hpc]; dsimp only
    exact loopHeadL_terminal_c P _ l ht
  · rename_i pf hpc
    unfold tickStepper; rw [hpc]; dsimp only
    by_cases hpf : l.c.pfs[pf]? = some true
    · rw [if_pos hpf, if_pos hpf]
      split
      · rename_i pf' hpa
        by_cases hf : l.c.pfs[pf']? = some false
        · rw [if_pos hf]; simp only [hpa, hf, if_true]; rw [upd_c, hpa]
        · rw [if_neg hf]; simp only [hpa, hf, if_false]; exact stepBodyL_terminal_c P _ l ht
      · rename_i hpa
        simp only [hpa]; exact stepBodyL_terminal_c P _ l ht
    · rw [if_neg hpf, if_neg hpf]
  · rename_i b hpc
    unfold tickStepper; rw [hpc]; dsimp only
    by_cases hb0 : b.awaits = 0
    · rw [if_pos hb0, if_pos hb0]
      have hfix := finishUserL_fix (F := F) l b.out ht
      rw [loopHeadL_terminal_c P _ _ (fix_term hfix ht), finishUserL_terminal_c l _ ht]
    · rw [if_neg hb0, if_neg hb0]; rfl
  · rename_i wf hpc
    unfold tickStepper; rw [hpc]; dsimp only
    cases hw : l.c.wfs[wf]? with
    | none => rfl
    | some w =>
      cases w with
      | pending => rfl
      | result v =>
        dsimp only
        exact (loopHeadL_terminal_c P _ _ (fix_term (wakeL_fix l _ wf _ ht) ht)).trans
          (congrArg (loopHead P fuel0) (wakeL_terminal_c l _ _ _ ht))
      | interrupted k =>
        dsimp only
        exact (loopHeadL_terminal_c P _ _ (fix_term (wakeL_fix l _ wf _ ht) ht)).trans
          (congrArg (loopHead P fuel0) (wakeL_terminal_c l _ _ _ ht))
      | failed e =>
        dsimp only
        exact (loopHeadL_terminal_c P _ _ (fix_term (wakeL_fix l _ wf _ ht) ht)).trans
          (congrArg (loopHead P fuel0) (wakeL_terminal_c l _ _ _ ht))
  · rename_i h1 h2 h3 h4
    unfold tickStepper
    split
    · rename_i hh; exact (h1 hh).elim
    · rename_i pf hh; exact (h2 pf hh).elim
    · rename_i b hh; exact (h3 b hh).elim
    · rename_i wf hh; exact (h4 wf hh).elim
    · rfl
end

/-- `n` wake-ups of the stepping task in the model with listeners -/
def ticksL (P : Prog) : Nat → LCfg → LCfg
  | 0, l => l
  | n + 1, l => ticksL P n (stepL P l .tick).1

theorem ticksL_terminal_c (P : Prog) : ∀ (n : Nat) (l : LCfg), terminal l.c.st.label = true →
    (ticksL P n l).c = ticks P n l.c
  | 0, _, _ => rfl
  | n+1, l, ht => by
    have h1 : (stepL P l .tick).1.c = tickStepper P l.c := tickStepperL_terminal_c P l ht
    have hfix : Fix l.c (stepL P l .tick).1.c := tickStepperL_fix P l ht
    show (ticksL P n (stepL P l .tick).1).c = ticks P n (tickStepper P l.c)
    rw [ticksL_terminal_c P n _ (fix_term hfix ht), h1]

/-- **step_until_terminated() returns, with listeners**: in every terminated configuration reached by `runL` (any plan),
finitely many wake-ups of the stepping task end it normally -/
theorem stepperL_returns (P : Prog) (nf : Nat) (plan : Plan) (evs : List Ev)
    (ht : terminal (runL P (initL nf plan) evs).c.st.label = true) :
    ∃ n, (ticksL P n (runL P (initL nf plan) evs)).c.pc = .done := by
  have h := runL_inv10L P (initL nf plan) evs (inv10L_init nf plan)
  have key : ∃ n, (ticks P n (runL P (initL nf plan) evs).c).pc = .done := by
    refine stepper_returns_gen P _ ht h.s.nocrash ?_ ?_ ?_
    · intro pf pf' hpc hpa
      exact h.s.tp pf hpc ht pf' hpa
    · intro pf hpc
      rcases (h.s.ap pf hpc).2 with hp | hp
      · exact h.s.tp pf hpc ht pf hp
      · exact hp
    · intro wf hpc
      obtain ⟨hlt, hw⟩ := h.s.aw wf hpc
      rcases hw with ⟨fn, wk, aw, hst⟩ | hn
      · exact absurd hst ((not_live_of_terminal ht).2.2 fn wf wk aw)
      · exact ⟨_, List.getElem?_eq_getElem hlt, by intro hp; rw [List.getElem?_eq_getElem hlt, hp] at hn; exact hn rfl⟩
  obtain ⟨n, hn⟩ := key
  exact ⟨n, by rw [ticksL_terminal_c P n _ ht]; exact hn⟩

/-! ### the `while` loop of the closing part is never stopped by its bound -/
section
variable {F : Hook → LCfg → LCfg}

theorem enactLoop_succ (n : Nat) (l : LCfg) :
    enactLoop F (n+1) l =
      match l.c.interrupt with
      | some i => if actionStatus l.c i = .pending && !terminal l.c.st.label then enactLoop F n (runActionL F l i none) else l
      | none => l := rfl

/-- one more iteration than entries in the plan changes nothing -/
theorem enactLoop_stable (hF : FAdv F) : ∀ (n : Nat) (l : LCfg), l.plan.length < n → enactLoop F (n+1) l = enactLoop F n l
  | 0, _, h => by cases h
  | n+1, l, h => by
    rw [enactLoop_succ (n+1) l, enactLoop_succ n l]
    split
    · rename_i i hi
      split
      · rcases runActionL_adv hF l i none with h1 | h1
        · exact enactLoop_stable hF n _ (by omega)
        · have hq : Quiet (runActionL F l i none) := by
            unfold Quiet; rw [h1.2.1, hi]; exact Or.inl h1.2.2
          rw [enactLoop_of_quiet _ _ hq, enactLoop_of_quiet _ _ hq]
      · rfl
    · rfl

theorem enactLoop_fuel (hF : FAdv F) (l : LCfg) : ∀ (m : Nat), l.plan.length < m →
    enactLoop F m l = enactLoop F (l.plan.length + 1) l := by
  intro m hm
  induction m with
  | zero => cases hm
  | succ k ih =>
    by_cases hk : l.plan.length < k
    · rw [enactLoop_stable hF k l hk]; exact ih hk
    · have : k = l.plan.length := by omega
      rw [this]
end

end L
end PMF
