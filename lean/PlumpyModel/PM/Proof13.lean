import PlumpyModel.PM.Proof11g
/-!
# C10 at the level of histories, part 1: no stale done-callbacks (`G`), frames, the history predicate `histOk`

Namespace `PMF.B10`.  The results of this file hold in every configuration reachable by a history that

* contains no callback of the stepping task that runs out of the model's fuel (`H6.histFuelOk`, as for C06), and
* is *well formed for the barrier* (`histOk`): a `resume()` is placed only while the current state awaits nothing (the
  model — like `Waiting.resume` of the library — lets a `resume()` complete the wait of a work chain whatever is still
  awaited), and no awaitable is "completed" with the outcome `pending`,

for a program whose `waitOn` commands name pairwise distinct futures (`AwDistinct`: the awaiting map is a `dict`).

* `G`: every scheduled `_awaitable_done` callback and every registered done-callback belongs to a future that the current
  WAITING state still awaits, at most one per future (**no stale callbacks**), and the future of a scheduled callback is done.
* `BF` / `endOfStep_cases`: the end of a step leaves the workchain fields alone or is one transition.
* `R`: `G` together with "the context and the awaitables are the ones given" — kept by a callback of the stepping task.
-/
namespace PMF.B10
open PMF PMF.H6

/-- the awaitables of a WAITING state object (future, context key) -/
def awOf : SObj → List (Nat × Nat)
  | .waiting _ _ _ aw => aw
  | _ => []

theorem awOf_of_terminal {s : SObj} (h : terminal s.label = true) : awOf s = [] := by
  cases s <;> simp [awOf, SObj.label, terminal, allowed] at h ⊢

theorem awOf_of_wfOf_none {s : SObj} (h : wfOf s = none) : awOf s = [] := by
  cases s <;> simp [awOf, wfOf] at h ⊢

/-- the futures of a list of awaitables are pairwise distinct (the awaiting map is a `dict` keyed by the future) -/
def DistinctF (aw : List (Nat × Nat)) : Prop := (aw.map (·.1)).Nodup

/-- the outcome of a step body names distinct futures if it is a `waitOn` -/
def OutOk : Outcome → Prop
  | .ret (.waitOn _ aw) => DistinctF aw
  | _ => True

/-- the program never awaits the same future twice in ONE `ToContext` (dict semantics of `Waiting._awaiting`) -/
def AwDistinct (P : Prog) : Prop := ∀ fn args kw ctx, OutOk (P fn args kw ctx).out

/-! ### frames -/

/-- `d` differs from `c` in nothing the workchain invariants look at (state object, context, awaitables, callbacks);
the program counter is the same or the coroutine crashed -/
structure BF (c d : Cfg) : Prop where
  ctx : d.ctx = c.ctx
  efs : d.efs = c.efs
  efCb : d.efCb = c.efCb
  ready : d.ready = c.ready
  st : d.st = c.st
  pc : d.pc = c.pc ∨ ∃ e, d.pc = .crashed e

theorem BF.rfl' (c : Cfg) : BF c c := ⟨rfl, rfl, rfl, rfl, rfl, Or.inl rfl⟩
theorem BF.trans {a b c : Cfg} (h1 : BF a b) (h2 : BF b c) : BF a c := by
  refine ⟨h2.ctx.trans h1.ctx, h2.efs.trans h1.efs, h2.efCb.trans h1.efCb, h2.ready.trans h1.ready, h2.st.trans h1.st, ?_⟩
  rcases h2.pc with g | g
  · rcases h1.pc with g1 | ⟨e, g1⟩
    · exact Or.inl (g.trans g1)
    · exact Or.inr ⟨e, g.trans g1⟩
  · exact Or.inr g

theorem setActionStatus_bf (c : Cfg) (i s) : BF c (setActionStatus c i s) := by
  unfold setActionStatus; split <;> exact ⟨rfl, rfl, rfl, rfl, rfl, Or.inl rfl⟩
theorem cancelAction_bf (c : Cfg) (i) : BF c (cancelAction c i) := by
  unfold cancelAction; split
  · exact setActionStatus_bf ..
  · exact BF.rfl' c
theorem setInterrupt_bf (c : Cfg) (n) : BF c (setInterrupt c n) := by
  unfold setInterrupt; split
  · exact BF.trans (cancelAction_bf c _) ⟨rfl, rfl, rfl, rfl, rfl, Or.inl rfl⟩
  · exact ⟨rfl, rfl, rfl, rfl, rfl, Or.inl rfl⟩
theorem setInterruptFromExc_bf (c : Cfg) (k n) : BF c (setInterruptFromExc c k n) := by
  unfold setInterruptFromExc cancelInterrupt
  split
  · exact BF.trans (cancelAction_bf c _) ⟨rfl, rfl, rfl, rfl, rfl, Or.inl rfl⟩
  · exact ⟨rfl, rfl, rfl, rfl, rfl, Or.inl rfl⟩
theorem hand_bf (c : Cfg) (i) : BF c (hand c i) := by
  unfold hand; split <;> exact ⟨rfl, rfl, rfl, rfl, rfl, Or.inl rfl⟩
theorem doPauseHooks_bf (c : Cfg) : BF c (doPauseHooks c) := ⟨rfl, rfl, rfl, rfl, rfl, Or.inl rfl⟩
theorem finally_bf (c : Cfg) : BF c (finally_ c) :=
  BF.trans (⟨rfl, rfl, rfl, rfl, rfl, Or.inl rfl⟩ : BF c { c with stepping := false }) (setInterrupt_bf _ _)
theorem prepare_bf (c : Cfg) (r : StepEnd) : BF c (prepare c r).1 := by
  unfold prepare
  split
  · exact setInterrupt_bf ..
  · exact BF.rfl' c
  · split
    · exact BF.rfl' c
    · exact setInterruptFromExc_bf ..
  · exact setInterrupt_bf ..

/-- the next state a step end asks for -/
def nextOf : StepEnd → Option SObj
  | .next s => s
  | .interruption _ => none
  | .exception e => some (.excepted e)

theorem prepare_nextOf (c : Cfg) (r : StepEnd) : (prepare c r).2 = nextOf r := by
  rw [prepare_snd]; cases r <;> rfl

/-- the end of a step, seen from the workchain fields: nothing happens to them, or exactly one transition — to the state
the step asked for, or to KILLED — is made from a configuration that agrees with `c` on them -/
theorem runAction_cases (c : Cfg) (i : Nat) (next : Option SObj) :
    BF c (runAction c i next) ∨
    ∃ s, BF (transitionTo c s) (runAction c i next) ∧ (s = .killed ∨ next = some s) := by
  unfold runAction
  split
  · exact Or.inl (BF.rfl' c)
  · split
    · exact Or.inl ⟨rfl, rfl, rfl, rfl, rfl, Or.inr ⟨_, rfl⟩⟩
    · split
      · cases next with
        | none => exact Or.inl (BF.trans (doPauseHooks_bf c) (setActionStatus_bf ..))
        | some s => exact Or.inr ⟨s, BF.trans (doPauseHooks_bf _) (setActionStatus_bf ..), Or.inr rfl⟩
      · exact Or.inr ⟨.killed, BF.trans (⟨rfl, rfl, rfl, rfl, rfl, Or.inl rfl⟩ :
          BF (transitionTo c .killed) { transitionTo c .killed with killing := none }) (setActionStatus_bf ..), Or.inl rfl⟩

theorem dispatch_cases (c : Cfg) (next : Option SObj) :
    BF c (dispatch c next) ∨
    (terminal c.st.label = false ∧ ∃ s, BF (transitionTo c s) (dispatch c next) ∧ (s = .killed ∨ next = some s)) := by
  unfold dispatch
  split
  · exact Or.inl (BF.rfl' c)
  · rename_i hl
    have hl' : terminal c.st.label = false := by simpa using hl
    split
    · split
      · rcases runAction_cases c _ next with h | h
        · exact Or.inl h
        · exact Or.inr ⟨hl', h⟩
      · cases next with
        | none => exact Or.inl (BF.rfl' c)
        | some s => exact Or.inr ⟨hl', s, BF.rfl' _, Or.inr rfl⟩
    · cases next with
      | none => exact Or.inl (BF.rfl' c)
      | some s => exact Or.inr ⟨hl', s, BF.rfl' _, Or.inr rfl⟩

theorem endOfStep_cases (c : Cfg) (r : StepEnd) :
    BF c (endOfStep c r) ∨
    (terminal c.st.label = false ∧
      ∃ c' s, BF c c' ∧ BF (transitionTo c' s) (endOfStep c r) ∧ (s = .killed ∨ nextOf r = some s)) := by
  unfold endOfStep
  dsimp only
  have hp := prepare_bf c r
  rcases dispatch_cases (prepare c r).1 (prepare c r).2 with h | ⟨hl, s, h, hs⟩
  · exact Or.inl (BF.trans hp (BF.trans h (finally_bf _)))
  · refine Or.inr ⟨by rw [← hp.st]; exact hl, (prepare c r).1, s, hp, BF.trans h (finally_bf _), ?_⟩
    rw [← prepare_nextOf c r]; exact hs

/-- a predicate that only looks at the fields of `BF` survives the end of a step if it survives the one transition -/
theorem endOfStep_pres (Q : Cfg → Prop) (hbf : ∀ c d, BF c d → Q c → Q d) (c : Cfg) (r : StepEnd) (hQ : Q c)
    (hT : terminal c.st.label = false → ∀ c' s, BF c c' → (s = .killed ∨ nextOf r = some s) → Q (transitionTo c' s)) :
    Q (endOfStep c r) := by
  rcases endOfStep_cases c r with h | ⟨hl, c', s, h1, h2, hs⟩
  · exact hbf _ _ h hQ
  · exact hbf _ _ h2 (hT hl c' s h1 hs)

/-! ### what a transition does to the workchain fields -/

/-- registration of one awaitable by `Waiting.enter` -/
def regStep (c : Cfg) (p : Nat × Nat) : Cfg :=
  let c := { c with efKeys := p :: c.efKeys }
  match c.efs[p.1]? with
  | some EFut.pending => { c with efCb := c.efCb ++ [p.1] }
  | some _ => { c with ready := c.ready ++ [.adone p.1] }
  | none => c

theorem enterState_waiting (c : Cfg) (fn wf : Nat) (wk : Option WF) (aw : List (Nat × Nat)) :
    enterState c (.waiting fn wf wk aw) = aw.foldl regStep c := rfl

theorem enterState_not_waiting (c : Cfg) (s : SObj) (h : ∀ fn wf wk aw, s ≠ .waiting fn wf wk aw) : enterState c s = c := by
  unfold enterState; split
  · rename_i fn wf wk aw; exact absurd rfl (h fn wf wk aw)
  · rfl

/-- the future of a scheduled done-callback is done -/
def ReadyDone (c : Cfg) : Prop := ∀ g, Cb.adone g ∈ c.ready → ∃ o, c.efs[g]? = some o ∧ o ≠ EFut.pending

theorem regStep_fields (c : Cfg) (p : Nat × Nat) :
    (regStep c p).ctx = c.ctx ∧ (regStep c p).efs = c.efs ∧ (regStep c p).pc = c.pc ∧ (regStep c p).st = c.st ∧
    (∀ f, (regStep c p).ready.count (Cb.adone f) + (regStep c p).efCb.count f ≤
        c.ready.count (Cb.adone f) + c.efCb.count f + (if p.1 = f then 1 else 0)) ∧
    (ReadyDone c → ReadyDone (regStep c p)) := by
  unfold regStep
  dsimp only
  cases ho : c.efs[p.1]? with
  | none =>
    refine ⟨rfl, rfl, rfl, rfl, ?_, ?_⟩
    · intro f; dsimp only; omega
    · intro h g hg; exact h g hg
  | some o =>
    have hready : ∀ (hne : o ≠ EFut.pending) (d : Cfg), d.efs = c.efs → d.ready = c.ready ++ [Cb.adone p.1] →
        ReadyDone c → ReadyDone d := by
      intro hne d he hr h g hg
      rw [hr, List.mem_append] at hg
      rw [he]
      rcases hg with hg | hg
      · exact h g hg
      · simp only [List.mem_singleton, Cb.adone.injEq] at hg
        subst hg
        exact ⟨o, ho, hne⟩
    cases o with
    | pending =>
      refine ⟨rfl, rfl, rfl, rfl, ?_, ?_⟩
      · intro f
        simp only [List.count_append, List.count_singleton, beq_iff_eq]
        split <;> omega
      · intro h g hg; exact h g hg
    | result v =>
      refine ⟨rfl, rfl, rfl, rfl, ?_, hready (by intro h; cases h) _ rfl rfl⟩
      intro f
      simp only [List.count_append, List.count_singleton, beq_iff_eq, Cb.adone.injEq]
      split <;> omega
    | exc e =>
      refine ⟨rfl, rfl, rfl, rfl, ?_, hready (by intro h; cases h) _ rfl rfl⟩
      intro f
      simp only [List.count_append, List.count_singleton, beq_iff_eq, Cb.adone.injEq]
      split <;> omega

theorem regFold_fields (aw : List (Nat × Nat)) : ∀ (c : Cfg),
    (aw.foldl regStep c).ctx = c.ctx ∧ (aw.foldl regStep c).efs = c.efs ∧ (aw.foldl regStep c).pc = c.pc ∧
    (aw.foldl regStep c).st = c.st ∧
    (∀ f, (aw.foldl regStep c).ready.count (Cb.adone f) + (aw.foldl regStep c).efCb.count f ≤
        c.ready.count (Cb.adone f) + c.efCb.count f + aw.countP (·.1 = f)) ∧
    (ReadyDone c → ReadyDone (aw.foldl regStep c)) := by
  induction aw with
  | nil => intro c; exact ⟨rfl, rfl, rfl, rfl, fun f => by simp, fun h => h⟩
  | cons p rest ih =>
    intro c
    rw [List.foldl_cons]
    obtain ⟨a1, a2, a3, a4, a5, a6⟩ := ih (regStep c p)
    obtain ⟨b1, b2, b3, b4, b5, b6⟩ := regStep_fields c p
    refine ⟨a1.trans b1, a2.trans b2, a3.trans b3, a4.trans b4, ?_, fun h => a6 (b6 h)⟩
    intro f
    have h1 := a5 f
    have h2 := b5 f
    rw [List.countP_cons]
    by_cases hp : p.1 = f
    · simp only [hp, if_true] at h2
      simp only [hp, decide_true, if_true]
      omega
    · simp only [hp, if_false] at h2
      simp only [hp, decide_false, Bool.false_eq_true, if_false]
      omega

/-- `d` agrees with `c` on context, awaitables, callbacks, program counter (the state object may differ) -/
structure XF (c d : Cfg) : Prop where
  ctx : d.ctx = c.ctx
  efs : d.efs = c.efs
  efCb : d.efCb = c.efCb
  ready : d.ready = c.ready
  pc : d.pc = c.pc

theorem XF.rfl' (c : Cfg) : XF c c := ⟨rfl, rfl, rfl, rfl, rfl⟩
theorem XF.trans {a b c : Cfg} (h1 : XF a b) (h2 : XF b c) : XF a c :=
  ⟨h2.ctx.trans h1.ctx, h2.efs.trans h1.efs, h2.efCb.trans h1.efCb, h2.ready.trans h1.ready, h2.pc.trans h1.pc⟩

theorem freshFut_xf (c : Cfg) : XF c (freshFutIfCancelled c) := by
  unfold freshFutIfCancelled; split <;> exact ⟨rfl, rfl, rfl, rfl, rfl⟩
theorem setFutExc_xf (c : Cfg) (e) : XF c (setFutExc c e) := by
  unfold setFutExc; split <;> exact ⟨rfl, rfl, rfl, rfl, rfl⟩
theorem enteringHooks_xf (c c2 : Cfg) (s : SObj) (h : enteringHooks c s = .ok c2) : XF c c2 := by
  unfold enteringHooks at h
  split at h
  · dsimp only at h
    split at h
    · cases h; exact XF.trans (freshFut_xf c) ⟨rfl, rfl, rfl, rfl, rfl⟩
    · cases h
  · dsimp only at h
    split at h
    · cases h; exact XF.trans (freshFut_xf c) ⟨rfl, rfl, rfl, rfl, rfl⟩
    · cases h
  · cases h; exact setFutExc_xf c _
  · cases h; exact XF.rfl' c
theorem enteringHooks_live (c : Cfg) (s : SObj) (hs : terminal s.label = false) : enteringHooks c s = .ok c := by
  cases s <;> simp [SObj.label, terminal, allowed] at hs <;> rfl
theorem enteredHooks_xf (c : Cfg) (s : SObj) : XF c (enteredHooks c s) := by
  unfold enteredHooks
  split <;> split <;> exact ⟨rfl, rfl, rfl, rfl, rfl⟩
theorem onClose_xf (c : Cfg) : XF c (onClose c) := by
  unfold onClose; split <;> exact ⟨rfl, rfl, rfl, rfl, rfl⟩
theorem releasePause_xf (c : Cfg) : XF c (releasePause c) := by
  unfold releasePause; split
  · split <;> exact ⟨rfl, rfl, rfl, rfl, rfl⟩
  · exact XF.rfl' c
theorem onTerminated_xf (c : Cfg) : XF c (onTerminated c) := by
  unfold onTerminated; exact XF.trans (releasePause_xf c) (onClose_xf _)
theorem forceExcepted_xf (c : Cfg) (e) : XF c (forceExcepted c e) := by
  unfold forceExcepted; split
  · exact ⟨rfl, rfl, rfl, rfl, rfl⟩
  · exact XF.trans (XF.trans (XF.trans (setFutExc_xf c e) (show XF (setFutExc c e) (setState (setFutExc c e) (.excepted e)) from ⟨rfl, rfl, rfl, rfl, rfl⟩))
      (enteredHooks_xf _ _)) (onTerminated_xf _)

theorem exitState_x (c : Cfg) : (exitState c).ctx = c.ctx ∧ (exitState c).efs = c.efs ∧ (exitState c).ready = c.ready ∧
    (exitState c).pc = c.pc ∧ (exitState c).st = c.st ∧
    (exitState c).efCb = c.efCb.filter (fun f => !((awOf c.st).any (·.1 = f))) := by
  unfold exitState; split
  · rename_i fn wf wk aw hst
    dsimp only
    split <;> exact ⟨rfl, rfl, rfl, rfl, rfl, by rw [hst]; rfl⟩
  · rename_i hnw
    refine ⟨rfl, rfl, rfl, rfl, rfl, ?_⟩
    have : awOf c.st = [] := by
      cases hst : c.st <;> first | rfl | exact absurd hst (hnw _ _ _ _)
    rw [this]; exact (List.filter_eq_self.mpr (by intro a _; rfl)).symm

theorem terminal_excepted (e : Exc) : terminal (SObj.excepted e).label = true := by simp [SObj.label, terminal, allowed]

/-- the workchain fields after a transition: the result is terminal and no callback was scheduled, or it is the requested
live state and the callbacks are those of `Waiting.exit` followed (unless the process was closed) by `Waiting.enter` -/
theorem transitionTo_x (c : Cfg) (s : SObj) :
    (transitionTo c s).ctx = c.ctx ∧ (transitionTo c s).efs = c.efs ∧ (transitionTo c s).pc = c.pc ∧
    ((terminal (transitionTo c s).st.label = true ∧ (transitionTo c s).ready = c.ready) ∨
     ((transitionTo c s).st = s ∧ terminal s.label = false ∧ terminal c.st.label = false ∧
       (((transitionTo c s).ready = c.ready ∧ (transitionTo c s).efCb = (exitState c).efCb) ∨
        ((transitionTo c s).ready = (enterState (exitState c) s).ready ∧
         (transitionTo c s).efCb = (enterState (exitState c) s).efCb)))) := by
  have hx := exitState_x c
  have hfe : ∀ d e, terminal (forceExcepted d e).st.label = true := by
    intro d e; rw [forceExcepted_st]; exact terminal_excepted e
  unfold transitionTo
  split
  · rename_i hal
    have hlive : terminal c.st.label = false := by
      cases hc : terminal c.st.label with
      | false => rfl
      | true =>
        unfold terminal at hc
        rw [List.isEmpty_iff] at hc
        rw [hc] at hal; cases hal
    dsimp only
    split
    · -- closed: the state object is just replaced
      refine ⟨hx.1, hx.2.1, hx.2.2.2.1, ?_⟩
      by_cases hs : terminal s.label = true
      · exact Or.inl ⟨hs, hx.2.2.1⟩
      · exact Or.inr ⟨rfl, by simpa using hs, hlive, Or.inl ⟨hx.2.2.1, rfl⟩⟩
    · split
      · rename_i e he
        have hf := forceExcepted_xf (exitState c) e
        exact ⟨hf.ctx.trans hx.1, hf.efs.trans hx.2.1, hf.pc.trans hx.2.2.2.1, Or.inl ⟨hfe _ _, hf.ready.trans hx.2.2.1⟩⟩
      · rename_i c2 hok
        have h2 := enteringHooks_xf _ c2 s hok
        by_cases hs : terminal s.label = true
        · -- terminal target: nothing is registered
          have hnw : ∀ fn wf wk aw, s ≠ .waiting fn wf wk aw := by
            intro fn wf wk aw h; rw [h] at hs; simp [SObj.label, terminal, allowed] at hs
          have hen : enterNext c2 s = onTerminated (enteredHooks (setState c2 s) s) := by
            unfold enterNext; simp only [hs, if_true]; rw [enterState_not_waiting c2 s hnw]
          have h3 : XF c2 (enterNext c2 s) := by
            rw [hen]
            exact XF.trans (XF.trans (⟨rfl, rfl, rfl, rfl, rfl⟩ : XF c2 (setState c2 s)) (enteredHooks_xf _ _)) (onTerminated_xf _)
          have hst : (enterNext c2 s).st = s := by
            rw [hen, (onTerminated_keep _).1, (enteredHooks_keep _ _).1]; rfl
          exact ⟨(h3.ctx.trans h2.ctx).trans hx.1, (h3.efs.trans h2.efs).trans hx.2.1, (h3.pc.trans h2.pc).trans hx.2.2.2.1,
            Or.inl ⟨by rw [hst]; exact hs, (h3.ready.trans h2.ready).trans hx.2.2.1⟩⟩
        · have hs' : terminal s.label = false := by simpa using hs
          have hc2 : c2 = exitState c := by
            rw [enteringHooks_live _ s hs'] at hok; cases hok; rfl
          subst hc2
          have hen : enterNext (exitState c) s = enteredHooks (setState (enterState (exitState c) s) s) s := by
            unfold enterNext; simp only [hs', Bool.false_eq_true, if_false]
          have h3 : XF (enterState (exitState c) s) (enterNext (exitState c) s) := by
            rw [hen]
            exact XF.trans (show XF (enterState (exitState c) s) (setState (enterState (exitState c) s) s) from ⟨rfl, rfl, rfl, rfl, rfl⟩) (enteredHooks_xf _ _)
          have hst : (enterNext (exitState c) s).st = s := (enterNext_live _ s hs').1
          have hes : (enterState (exitState c) s).ctx = (exitState c).ctx ∧ (enterState (exitState c) s).efs = (exitState c).efs ∧
              (enterState (exitState c) s).pc = (exitState c).pc := by
            cases s with
            | waiting fn wf wk aw =>
              rw [enterState_waiting]
              have := regFold_fields aw (exitState c)
              exact ⟨this.1, this.2.1, this.2.2.1⟩
            | _ => exact ⟨rfl, rfl, rfl⟩
          exact ⟨(h3.ctx.trans hes.1).trans hx.1, (h3.efs.trans hes.2.1).trans hx.2.1, (h3.pc.trans hes.2.2).trans hx.2.2.2.1,
            Or.inr ⟨hst, hs', hlive, Or.inr ⟨h3.ready, h3.efCb⟩⟩⟩
  · have hf := forceExcepted_xf c (.noTransition c.st.label s.label)
    exact ⟨hf.ctx, hf.efs, hf.pc, Or.inl ⟨hfe _ _, hf.ready⟩⟩

/-! ### `G`: no stale done-callbacks -/

/-- **no stale callbacks**: while the process is live, every scheduled `_awaitable_done` and every registered
done-callback belongs to a future the current WAITING state still awaits — at most one per awaited future (`ns`); the
awaited futures are distinct (`nd`); the future of a scheduled callback is done (`rd`); a step body suspended at an `await`
will return a command with distinct futures (`pcd`). -/
structure G (c : Cfg) : Prop where
  ns : terminal c.st.label = false → ∀ f, c.ready.count (Cb.adone f) + c.efCb.count f ≤ (awOf c.st).countP (·.1 = f)
  nd : DistinctF (awOf c.st)
  rd : ReadyDone c
  pcd : ∀ b, c.pc = .inUser b → OutOk b.out

theorem G.congr {c d : Cfg} (h : G c) (hl : terminal d.st.label = terminal c.st.label) (ha : awOf d.st = awOf c.st)
    (hr : d.ready = c.ready) (hcb : d.efCb = c.efCb) (he : d.efs = c.efs) (hpc : d.pc = c.pc ∨ ∃ e, d.pc = .crashed e) :
    G d := by
  refine ⟨?_, ?_, ?_, ?_⟩
  · intro hlive f; rw [hr, hcb, ha]; exact h.ns (by rw [← hl]; exact hlive) f
  · rw [ha]; exact h.nd
  · intro g hg; rw [he]; exact h.rd g (by rw [← hr]; exact hg)
  · intro b hb
    rcases hpc with g | ⟨e, g⟩
    · exact h.pcd b (by rw [← g]; exact hb)
    · rw [g] at hb; cases hb

theorem G.bf {c d : Cfg} (h : G c) (f : BF c d) : G d :=
  h.congr (by rw [f.st]) (by rw [f.st]) f.ready f.efCb f.efs f.pc

theorem g_init (nf : Nat) : G (init nf) := by
  refine ⟨?_, ?_, ?_, ?_⟩
  · intro _ f; simp [init, awOf]
  · simp [init, awOf, DistinctF]
  · intro g hg; simp [init] at hg
  · intro b hb; simp [init] at hb

/-- what a step must know about the state it asks for: it is terminal, or the state being left awaits nothing (any more)
and the new state's awaited futures are distinct -/
def GSide (c : Cfg) (s : SObj) : Prop := terminal s.label = true ∨ (awOf c.st = [] ∧ DistinctF (awOf s))

theorem gside_of_terminal (c : Cfg) {s : SObj} (h : terminal s.label = true) : GSide c s := Or.inl h

theorem transitionTo_G (c : Cfg) (s : SObj) (h : G c) (hside : GSide c s) : G (transitionTo c s) := by
  obtain ⟨_, h2, h3, h4⟩ := transitionTo_x c s
  rcases h4 with ⟨ht, hr⟩ | ⟨hst, hs, hlive, halt⟩
  · refine ⟨?_, ?_, ?_, ?_⟩
    · intro hl; rw [ht] at hl; cases hl
    · rw [awOf_of_terminal ht]; exact List.nodup_nil
    · intro g hg; rw [h2]; exact h.rd g (by rw [← hr]; exact hg)
    · intro b hb; exact h.pcd b (by rw [← h3]; exact hb)
  · rcases hside with hs' | ⟨hnil, hd⟩
    · rw [hs] at hs'; cases hs'
    · have hx := exitState_x c
      have h0 : ∀ f, c.ready.count (Cb.adone f) + c.efCb.count f ≤ 0 := by
        intro f; have := h.ns hlive f; rw [hnil] at this; simpa using this
      have h0' : ∀ f, (exitState c).ready.count (Cb.adone f) + (exitState c).efCb.count f ≤ 0 := by
        intro f
        have h1 := h0 f
        have h5 : (exitState c).efCb.count f ≤ c.efCb.count f := by
          rw [hx.2.2.2.2.2]; exact List.Sublist.count_le f List.filter_sublist
        rw [hx.2.2.1]; omega
      have hrd0 : ReadyDone (exitState c) := by
        intro g hg; rw [hx.2.1]; exact h.rd g (by rw [← hx.2.2.1]; exact hg)
      -- the fields of `enterState (exitState c) s`
      have hen : (∀ f, (enterState (exitState c) s).ready.count (Cb.adone f) + (enterState (exitState c) s).efCb.count f ≤
            (awOf s).countP (·.1 = f)) ∧ ReadyDone (enterState (exitState c) s) ∧
            (enterState (exitState c) s).efs = c.efs := by
        cases s with
        | waiting fn wf wk aw =>
          rw [enterState_waiting]
          have hf := regFold_fields aw (exitState c)
          refine ⟨?_, hf.2.2.2.2.2 hrd0, hf.2.1.trans hx.2.1⟩
          intro f
          have := hf.2.2.2.2.1 f
          have := h0' f
          show _ ≤ aw.countP (·.1 = f)
          omega
        | _ =>
          refine ⟨?_, hrd0, hx.2.1⟩
          intro f; have := h0' f; show _ ≤ 0; simpa [enterState] using this
      refine ⟨?_, ?_, ?_, ?_⟩
      · intro _ f
        rw [hst]
        rcases halt with ⟨a, b⟩ | ⟨a, b⟩
        · rw [a, b]; have := h0' f; rw [hx.2.2.1] at this; omega
        · rw [a, b]; exact hen.1 f
      · rw [hst]; exact hd
      · intro g hg
        rw [h2]
        rcases halt with ⟨a, _⟩ | ⟨a, _⟩
        · exact h.rd g (by rw [← a]; exact hg)
        · have := hen.2.1 g (by rw [← a]; exact hg)
          rw [hen.2.2] at this; exact this
      · intro b hb; exact h.pcd b (by rw [← h3]; exact hb)

theorem gside_bf {c c' : Cfg} {s : SObj} (h : GSide c s) (f : BF c c') : GSide c' s := by
  rcases h with h | ⟨a, b⟩
  · exact Or.inl h
  · exact Or.inr ⟨by rw [f.st]; exact a, b⟩

theorem endOfStep_G (c : Cfg) (r : StepEnd) (h : G c)
    (hside : terminal c.st.label = false → ∀ s, r = .next (some s) → GSide c s) : G (endOfStep c r) := by
  refine endOfStep_pres G (fun _ _ f g => g.bf f) c r h ?_
  intro hlive c' s f hs
  have hside := hside hlive
  refine transitionTo_G c' s (h.bf f) ?_
  rcases hs with rfl | hs
  · exact gside_of_terminal _ (by simp [SObj.label, terminal, allowed])
  · cases r with
    | next o => simp only [nextOf] at hs; subst hs; exact gside_bf (hside s rfl) f
    | interruption k => simp [nextOf] at hs
    | exception e =>
      simp only [nextOf, Option.some.injEq] at hs; subst hs
      exact gside_of_terminal _ (terminal_excepted e)

/-! ### `R`: `G`, and the context and the awaitables are the given ones — through a callback of the stepping task -/

structure R (X : List (Nat × Val)) (Y : List EFut) (d : Cfg) : Prop where
  g : G d
  ctx : d.ctx = X
  efs : d.efs = Y

theorem R.bf {X Y} {c d : Cfg} (h : R X Y c) (f : BF c d) : R X Y d := ⟨h.g.bf f, f.ctx.trans h.ctx, f.efs.trans h.efs⟩

theorem G.setPc {c : Cfg} (h : G c) (pc' : Pc) (hp : ∀ b, pc' = .inUser b → OutOk b.out) : G { c with pc := pc' } :=
  ⟨h.ns, h.nd, h.rd, hp⟩

theorem R.setPc {X Y} {c : Cfg} (h : R X Y c) (pc' : Pc) (hp : ∀ b, pc' = .inUser b → OutOk b.out) :
    R X Y { c with pc := pc' } := ⟨h.g.setPc pc' hp, h.ctx, h.efs⟩

theorem endOfStep_R {X Y} (c : Cfg) (r : StepEnd) (h : R X Y c)
    (hside : terminal c.st.label = false → ∀ s, r = .next (some s) → GSide c s) : R X Y (endOfStep c r) := by
  refine ⟨endOfStep_G c r h.g hside, ?_, ?_⟩
  · refine endOfStep_pres (fun d => d.ctx = X) (fun _ _ f g => f.ctx.trans g) c r h.ctx ?_
    intro _ c' s f _; exact (transitionTo_x c' s).1.trans (f.ctx.trans h.ctx)
  · refine endOfStep_pres (fun d => d.efs = Y) (fun _ _ f g => f.efs.trans g) c r h.efs ?_
    intro _ c' s f _; exact (transitionTo_x c' s).2.1.trans (f.efs.trans h.efs)

theorem distinctF_nil : DistinctF [] := List.nodup_nil

theorem finishUser_R {X Y} (c : Cfg) (o : Outcome) (h : R X Y c) (hnw : awOf c.st = []) (ho : OutOk o) :
    R X Y (finishUser c o) := by
  unfold finishUser
  split
  · rename_i cmd
    have happ : R X Y { c with wfs := c.wfs ++ [WF.pending] } := h.bf ⟨rfl, rfl, rfl, rfl, rfl, Or.inl rfl⟩
    cases cmd with
    | cont fn args kw =>
      exact endOfStep_R c _ h (by intro _ s hs; cases hs; exact Or.inr ⟨hnw, distinctF_nil⟩)
    | wait fn =>
      exact endOfStep_R _ _ happ (by intro _ s hs; cases hs; exact Or.inr ⟨hnw, distinctF_nil⟩)
    | waitOn fn aw =>
      exact endOfStep_R _ _ happ (by intro _ s hs; cases hs; exact Or.inr ⟨hnw, ho⟩)
    | stop v ok =>
      exact endOfStep_R c _ h (by intro _ s hs; cases hs; exact Or.inl (by simp [SObj.label, terminal, allowed]))
    | kill =>
      exact endOfStep_R c _ h (by intro _ s hs; cases hs; exact Or.inl (by simp [SObj.label, terminal, allowed]))
  · exact endOfStep_R c _ h (by intro _ s hs; cases hs; exact Or.inl (terminal_excepted _))

theorem wake_R {X Y} (c : Cfg) (fn wf : Nat) (w : WF) (h : R X Y c) (hB : InvB c) (hw : c.wfs[wf]? = some w)
    (hown : terminal c.st.label = true ∨ wfOf c.st = some wf) : R X Y (wake c fn wf w) := by
  unfold wake
  split
  · rename_i v
    refine endOfStep_R c _ h ?_
    intro hlive s hs; cases hs
    rcases hown with g | g
    · rw [hlive] at g; cases g
    · obtain ⟨fn', wk, aw, hst⟩ := wfOf_waiting g
      have : aw = [] := (hB fn' wf wk aw hst).2 (Or.inl (by rw [hw]; rfl))
      exact Or.inr ⟨by rw [hst, this]; rfl, distinctF_nil⟩
  · dsimp only
    refine endOfStep_R _ _ ?_ (by intro _ s hs; cases hs)
    split
    · rename_i f wf' wk aw hst
      split
      · exact ⟨h.g.congr (by simp [hst, SObj.label]) (by simp [hst, awOf]) rfl rfl rfl (Or.inl rfl), h.ctx, h.efs⟩
      · exact h
    · exact h
  · exact endOfStep_R c _ h (by intro _ s hs; cases hs)
  · exact h

theorem stepBodyK_R {X Y} (P : Prog) (hP : AwDistinct P) (k : Cfg → Cfg) (c : Cfg) (h : R X Y c) (hB : InvB c)
    (hk : ∀ d, R X Y d → InvB d → R X Y (k d)) : R X Y (stepBodyK P k c) := by
  unfold stepBodyK
  have hs : R X Y { c with stepping := true } := h.bf ⟨rfl, rfl, rfl, rfl, rfl, Or.inl rfl⟩
  have hsB : InvB { c with stepping := true } := hB.sameW ⟨rfl, rfl⟩
  dsimp only
  split
  · rename_i fn hst
    have hst' : c.st = .created fn := hst
    refine hk _ (endOfStep_R _ _ hs ?_) (endOfStep_invB _ _ hsB ?_)
    · intro _ s hs'; cases hs'
      exact Or.inr ⟨by show awOf c.st = []; rw [hst']; rfl, distinctF_nil⟩
    · intro s hs'; cases hs'; exact fresh_of_not_waiting _ _ (by intro _ _ _ _ h; cases h)
  · rename_i fn args kw hst
    have hst' : c.st = .running fn args kw := hst
    split
    · refine hk _ (finishUser_R _ _ (hs.bf ⟨rfl, rfl, rfl, rfl, rfl, Or.inl rfl⟩) ?_ (hP fn args kw c.ctx))
        (finishUser_invB _ _ (hsB.sameW ⟨rfl, rfl⟩))
      show awOf c.st = []; rw [hst']; rfl
    · refine (hs.bf (d := { { c with stepping := true } with
          trace := { fn := fn, args := args, kw := kw, paused := c.paused.isSome } :: c.trace })
          ⟨rfl, rfl, rfl, rfl, rfl, Or.inl rfl⟩).setPc _ ?_
      intro b hb; cases hb; exact hP fn args kw c.ctx
  · rename_i fn wf wk aw hst
    have hst' : c.st = .waiting fn wf wk aw := hst
    split
    · exact hs.setPc _ (by intro b hb; cases hb)
    · rename_i w _ hw
      exact hk _ (wake_R _ fn wf w hs hsB hw (Or.inr (by show wfOf c.st = some wf; rw [hst']; rfl))) (wake_invB _ _ _ _ hsB)
    · exact hs
  · exact hk _ (endOfStep_R _ _ hs (by intro _ s hs'; cases hs')) (endOfStep_invB _ _ hsB (by intro s hs'; cases hs'))

theorem loopHead_R {X Y} (P : Prog) (hP : AwDistinct P) : ∀ (fuel : Nat) (c : Cfg), R X Y c → InvB c → R X Y (loopHead P fuel c) := by
  intro fuel
  induction fuel with
  | zero => intro c h _; simpa [loopHead] using h
  | succ n ih =>
    intro c h hB
    unfold loopHead
    split
    · exact h
    · split
      · exact h.setPc _ (by intro b hb; cases hb)
      · split
        · exact h.setPc _ (by intro b hb; cases hb)
        · split
          · split
            · exact h.setPc _ (by intro b hb; cases hb)
            · exact stepBodyK_R P hP _ c h hB ih
          · exact stepBodyK_R P hP _ c h hB ih

theorem tickStepper_R {X Y} (P : Prog) (hP : AwDistinct P) (c : Cfg) (h : R X Y c) (hB : InvB c) (hC : Coh c) :
    R X Y (tickStepper P c) := by
  have hpcok := hC.pcOk
  unfold PcOk at hpcok
  unfold tickStepper
  split
  · exact loopHead_R P hP _ c h hB
  · split
    · split
      · split
        · exact h.setPc _ (by intro b hb; cases hb)
        · exact stepBodyK_R P hP _ c h hB (loopHead_R P hP _)
      · exact stepBodyK_R P hP _ c h hB (loopHead_R P hP _)
    · exact h
  · rename_i b hpc
    simp only [hpc] at hpcok
    split
    · exact loopHead_R P hP _ _ (finishUser_R c b.out h (awOf_of_wfOf_none hpcok.2) (h.g.pcd b hpc)) (finishUser_invB _ _ hB)
    · exact h.setPc _ (by intro b' hb'; cases hb'; exact h.g.pcd b hpc)
  · rename_i wf hpc
    simp only [hpc] at hpcok
    split
    · exact h
    · rename_i w _ hw
      exact loopHead_R P hP _ _ (wake_R c _ wf w h hB hw hpcok.2) (wake_invB _ _ _ _ hB)
    · exact h
  · exact h

/-! ### `G` under the other events -/

theorem countP_fst_le_one (l : List (Nat × Nat)) (g : Nat) (h : DistinctF l) : l.countP (·.1 = g) ≤ 1 := by
  unfold DistinctF at h
  induction l with
  | nil => simp
  | cons p rest ih =>
    rw [List.map_cons, List.nodup_cons] at h
    rw [List.countP_cons]
    by_cases hp : p.1 = g
    · have : rest.countP (·.1 = g) = 0 := by
        rw [List.countP_eq_zero]
        intro a ha hg
        apply h.1
        rw [List.mem_map]
        exact ⟨a, ha, by rw [hp]; simpa using hg⟩
      simp [hp, this]
    · have := ih h.2
      simp [hp]; exact this

/-- dict semantics: a future is registered under one key -/
theorem distinct_key_unique (l : List (Nat × Nat)) (h : DistinctF l) (g k1 k2 : Nat)
    (h1 : (g, k1) ∈ l) (h2 : (g, k2) ∈ l) : k1 = k2 := by
  unfold DistinctF at h
  induction l with
  | nil => cases h1
  | cons p rest ih =>
    rw [List.map_cons, List.nodup_cons] at h
    rw [List.mem_cons] at h1 h2
    rcases h1 with h1 | h1 <;> rcases h2 with h2 | h2
    · rw [← h1] at h2; cases h2; rfl
    · exfalso; apply h.1; rw [List.mem_map]; exact ⟨(g, k2), h2, by rw [← h1]⟩
    · exfalso; apply h.1; rw [List.mem_map]; exact ⟨(g, k1), h1, by rw [← h2]⟩
    · exact ih h.2 h1 h2

theorem distinctF_filter (l : List (Nat × Nat)) (p : Nat × Nat → Bool) (h : DistinctF l) : DistinctF (l.filter p) :=
  List.Nodup.sublist (List.Sublist.map _ List.filter_sublist) h

theorem deliver_g (c : Cfg) (o : WF) :
    terminal (deliver c o).st.label = terminal c.st.label ∧ awOf (deliver c o).st = awOf c.st ∧
    (deliver c o).ready = c.ready ∧ (deliver c o).efCb = c.efCb ∧ (deliver c o).efs = c.efs ∧ (deliver c o).pc = c.pc ∧
    (deliver c o).ctx = c.ctx := by
  unfold deliver
  split
  · rename_i fn wf wk aw hst
    split
    · exact ⟨rfl, rfl, rfl, rfl, rfl, rfl, rfl⟩
    · split
      · exact ⟨by simp [hst, SObj.label], by simp [hst, awOf], rfl, rfl, rfl, rfl, rfl⟩
      · exact ⟨rfl, rfl, rfl, rfl, rfl, rfl, rfl⟩
    · exact ⟨rfl, rfl, rfl, rfl, rfl, rfl, rfl⟩
  · exact ⟨rfl, rfl, rfl, rfl, rfl, rfl, rfl⟩

theorem deliver_G (c : Cfg) (o : WF) (h : G c) : G (deliver c o) := by
  obtain ⟨a, b, d, e, f, g, _⟩ := deliver_g c o
  exact h.congr a b d e f (Or.inl g)

theorem interruptState_bf (c : Cfg) (k : Nat) : BF c (interruptState c k) := by
  unfold interruptState; split
  · split <;> exact ⟨rfl, rfl, rfl, rfl, rfl, Or.inl rfl⟩
  · exact BF.rfl' c

theorem requestInterrupt_bf (c : Cfg) (k : AKind) : BF c (requestInterrupt c k) := by
  unfold requestInterrupt
  exact BF.trans (BF.trans (⟨rfl, rfl, rfl, rfl, rfl, Or.inl rfl⟩ : BF c { c with nextCookie := c.nextCookie + 1 })
    (setInterruptFromExc_bf ..)) (interruptState_bf ..)

/-- `pause()` changes nothing the workchain invariants look at -/
theorem pause_bf (c : Cfg) : BF c (pause c).1 := by
  unfold pause
  split
  · exact BF.rfl' c
  · split
    · exact BF.rfl' c
    · split
      · exact hand_bf ..
      · split
        · exact BF.rfl' c
        · split
          · dsimp only
            have h1 : BF c { requestInterrupt c .pause with pausing := (requestInterrupt c .pause).interrupt } :=
              BF.trans (requestInterrupt_bf c .pause) ⟨rfl, rfl, rfl, rfl, rfl, Or.inl rfl⟩
            split
            · exact BF.trans h1 (hand_bf ..)
            · exact h1
          · exact doPauseHooks_bf c

theorem play_bf (c : Cfg) : BF c (play c).1 := by
  unfold play
  split
  · split
    · exact BF.trans (cancelAction_bf ..) ⟨rfl, rfl, rfl, rfl, rfl, Or.inl rfl⟩
    · exact BF.rfl' c
  · dsimp only; split <;> exact ⟨rfl, rfl, rfl, rfl, rfl, Or.inl rfl⟩

/-- `kill()` defers (nothing the workchain invariants look at changes) or is the transition to KILLED -/
theorem kill_cases (c : Cfg) : BF c (kill c).1 ∨ (kill c).1 = transitionTo c .killed := by
  unfold kill
  split
  · exact Or.inl (BF.rfl' c)
  · split
    · exact Or.inl (BF.rfl' c)
    · split
      · exact Or.inl (hand_bf ..)
      · split
        · dsimp only
          have h1 : BF c { requestInterrupt c .kill with killing := (requestInterrupt c .kill).interrupt } :=
            BF.trans (requestInterrupt_bf c .kill) ⟨rfl, rfl, rfl, rfl, rfl, Or.inl rfl⟩
          split
          · exact Or.inl (BF.trans h1 (hand_bf ..))
          · exact Or.inl h1
        · exact Or.inr rfl

theorem terminal_killed : terminal SObj.killed.label = true := by simp [SObj.label, terminal, allowed]

theorem kill_G (c : Cfg) (h : G c) : G (kill c).1 := by
  rcases kill_cases c with f | e
  · exact h.bf f
  · rw [e]; exact transitionTo_G c _ h (Or.inl terminal_killed)

theorem fail_G (c : Cfg) (e) (h : G c) : G (fail c e).1 := by
  unfold fail; split
  · exact h
  · exact transitionTo_G c _ h (Or.inl (terminal_excepted e))

theorem G.eraseReady {c : Cfg} (h : G c) (cb : Cb) : G { c with ready := c.ready.erase cb } := by
  refine ⟨?_, h.nd, ?_, h.pcd⟩
  · intro hl f
    have := h.ns hl f
    have h2 : (c.ready.erase cb).count (Cb.adone f) ≤ c.ready.count (Cb.adone f) := List.Sublist.count_le _ List.erase_sublist
    show (c.ready.erase cb).count (Cb.adone f) + c.efCb.count f ≤ (awOf c.st).countP (·.1 = f)
    omega
  · intro g hg; exact h.rd g (List.mem_of_mem_erase hg)

/-- the done-callback of `g` runs: `g` leaves the awaiting set, and no callback for `g` is left behind -/
theorem tickCb_adone_G (c : Cfg) (g : Nat) (h : G c) : G (tickCb c (.adone g)) := by
  unfold tickCb
  split
  · rename_i hcont
    have hmem : Cb.adone g ∈ c.ready := List.contains_iff_mem.mp hcont
    have h1 := h.eraseReady (.adone g)
    dsimp only
    unfold awaitableDone
    have hold : ∀ d : Cfg, G d → G (match d.efKeys.find? (·.1 = g), d.efs[g]? with
        | some (_, key), some (EFut.result v) => { d with ctx := (key, v) :: d.ctx.filter (·.1 ≠ key) }
        | _, _ => d) := by
      intro d hd; split
      · exact hd.congr rfl rfl rfl rfl rfl (Or.inl rfl)
      · exact hd
    dsimp only
    split
    · rename_i fn wf wk aw hst
      have hst' : c.st = .waiting fn wf wk aw := hst
      split
      · exact hold _ h1
      · rename_i g' key hfind
        -- the configuration in which `g` has left the awaiting set
        have h3 : G { ({ c with ready := c.ready.erase (Cb.adone g) } : Cfg) with
            st := .waiting fn wf wk (aw.filter (·.1 ≠ g)) } := by
          have hlive : terminal c.st.label = false := by rw [hst']; simp [SObj.label, terminal, allowed]
          have hnd : DistinctF aw := by have := h.nd; rw [hst'] at this; exact this
          refine ⟨?_, ?_, h1.rd, h1.pcd⟩
          · intro _ f
            have hns := h.ns hlive f
            rw [hst'] at hns
            show (c.ready.erase (Cb.adone g)).count (Cb.adone f) + c.efCb.count f ≤ (aw.filter (·.1 ≠ g)).countP (·.1 = f)
            by_cases hfg : f = g
            · subst hfg
              have hle := countP_fst_le_one aw f hnd
              have hpos : 0 < c.ready.count (Cb.adone f) := List.count_pos_iff.mpr hmem
              rw [List.count_erase_self]
              have hns' : c.ready.count (Cb.adone f) + c.efCb.count f ≤ aw.countP (·.1 = f) := hns
              omega
            · have hne : Cb.adone f ≠ Cb.adone g := by intro hh; cases hh; exact hfg rfl
              rw [List.count_erase_of_ne hne, List.countP_filter]
              have : (aw.countP fun a => decide (a.1 = f) && decide (a.1 ≠ g)) = aw.countP (·.1 = f) := by
                congr 1; funext a
                by_cases ha : a.1 = f
                · simp [ha, hfg]
                · simp [ha]
              rw [this]; exact hns
          · exact distinctF_filter aw _ hnd
        split
        · split
          · exact deliver_G _ _ (h3.congr rfl rfl rfl rfl rfl (Or.inl rfl))
          · exact h3.congr rfl rfl rfl rfl rfl (Or.inl rfl)
        · exact deliver_G _ _ h3
        · exact h3
    · exact hold _ h1
  · exact h

theorem tickCb_G (c : Cfg) (cb : Cb) (h : G c) : G (tickCb c cb) := by
  cases cb with
  | adone g => exact tickCb_adone_G c g h
  | trykill =>
    unfold tickCb; split
    · exact (kill_G _ (h.eraseReady _)).congr rfl rfl rfl rfl rfl (Or.inl rfl)
    · exact h
  | usercb r =>
    unfold tickCb; split
    · dsimp only
      split
      · exact fail_G _ _ (h.eraseReady _)
      · exact h.eraseReady _
    · exact h

theorem G.addReady {c : Cfg} (h : G c) (cb : Cb) (hcb : ∀ g, cb ≠ .adone g) : G { c with ready := c.ready ++ [cb] } := by
  refine ⟨?_, h.nd, ?_, h.pcd⟩
  · intro hl f
    have := h.ns hl f
    show (c.ready ++ [cb]).count (Cb.adone f) + c.efCb.count f ≤ (awOf c.st).countP (·.1 = f)
    rw [List.count_append, List.count_singleton]
    have : (if (cb == Cb.adone f) = true then 1 else 0) = 0 := by
      rw [if_neg]; simpa using hcb f
    rw [this]
    omega
  · intro g hg
    have hg' : Cb.adone g ∈ c.ready ++ [cb] := hg
    rw [List.mem_append, List.mem_singleton] at hg'
    rcases hg' with hg' | hg'
    · exact h.rd g hg'
    · exact absurd hg'.symm (hcb g)

theorem cancelFut_G (c : Cfg) (h : G c) : G (cancelFut c).1 := by
  unfold cancelFut; split
  · dsimp only
    split
    · exact (h.addReady .trykill (by intro g hg; cases hg)).congr rfl rfl rfl rfl rfl (Or.inl rfl)
    · exact h.congr rfl rfl rfl rfl rfl (Or.inl rfl)
  · exact h

/-- completing an awaitable with an outcome moves its registered callback to the scheduled ones -/
theorem complete_G (c : Cfg) (f : Nat) (o : EFut) (ho : o ≠ .pending) (h : G c) : G (complete c f o) := by
  unfold complete
  split
  · rename_i hp
    have hlt : f < c.efs.length := (List.getElem?_eq_some_iff.mp hp).1
    have hrd : ∀ (d : Cfg), d.efs = setAt c.efs f o → (∀ g, Cb.adone g ∈ d.ready → Cb.adone g ∈ c.ready ∨ g = f) → ReadyDone d := by
      intro d he hr g hg
      rw [he]
      rcases hr g hg with hg' | rfl
      · obtain ⟨o', ho', hne⟩ := h.rd g hg'
        by_cases hgf : f = g
        · subst hgf; rw [hp] at ho'; cases ho'; exact absurd rfl hne
        · exact ⟨o', by simpa [setAt, List.getElem?_set, hgf] using ho', hne⟩
      · exact ⟨o, by simp [setAt, hlt], ho⟩
    dsimp only
    split
    · rename_i hc
      have hmem : f ∈ c.efCb := List.contains_iff_mem.mp hc
      refine ⟨?_, h.nd, ?_, h.pcd⟩
      · intro hl f'
        have hns := h.ns hl f'
        show (c.ready ++ [Cb.adone f]).count (Cb.adone f') + (c.efCb.erase f).count f' ≤ (awOf c.st).countP (·.1 = f')
        rw [List.count_append, List.count_singleton]
        by_cases hff : f' = f
        · subst hff
          have hpos : 0 < c.efCb.count f' := List.count_pos_iff.mpr hmem
          rw [List.count_erase_self]
          simp only [beq_self_eq_true, if_true]
          omega
        · have hne : (if (Cb.adone f == Cb.adone f') = true then 1 else 0) = 0 := by
            rw [if_neg]; simp; exact fun hh => hff hh.symm
          rw [List.count_erase_of_ne hff, hne]
          omega
      · refine hrd _ rfl ?_
        intro g hg
        have hg' : Cb.adone g ∈ c.ready ++ [Cb.adone f] := hg
        rw [List.mem_append, List.mem_singleton] at hg'
        rcases hg' with hg' | hg'
        · exact Or.inl hg'
        · cases hg'; exact Or.inr rfl
    · exact ⟨h.ns, h.nd, hrd _ rfl (fun g hg => Or.inl hg), h.pcd⟩
  · exact h

/-! ### well-formed histories for the barrier -/

/-- an event that respects the barrier's protocol: a `resume()` only while the current state awaits nothing, and an
awaitable is completed with an outcome (not with "pending") -/
def evOk (c : Cfg) : Ev → Bool
  | .resume _ => (awOf c.st).isEmpty
  | .complete _ .pending => false
  | _ => true

/-- every event of the history (started at `c`) respects the barrier's protocol -/
def histOk (P : Prog) : Cfg → List Ev → Bool
  | _, [] => true
  | c, e :: es => evOk c e && histOk P (step P c e).1 es

theorem histOk_append (P : Prog) (c0 : Cfg) (es1 es2 : List Ev) :
    histOk P c0 (es1 ++ es2) = (histOk P c0 es1 && histOk P (run P c0 es1) es2) := by
  induction es1 generalizing c0 with
  | nil => simp [histOk, run]
  | cons e es ih =>
    simp only [List.cons_append, histOk, ih, Bool.and_assoc]
    rfl

/-- a history without `resume()` whose completions carry an outcome is well formed -/
theorem histOk_of_no_resume (P : Prog) (c0 : Cfg) (evs : List Ev) (hnr : ∀ e ∈ evs, ∀ v, e ≠ .resume v)
    (hnp : ∀ e ∈ evs, ∀ f, e ≠ .complete f .pending) : histOk P c0 evs = true := by
  induction evs generalizing c0 with
  | nil => rfl
  | cons e es ih =>
    unfold histOk
    rw [Bool.and_eq_true]
    refine ⟨?_, ih _ (fun e' he' => hnr e' (by simp [he'])) (fun e' he' => hnp e' (by simp [he']))⟩
    cases e with
    | resume v => exact absurd rfl (hnr _ (by simp) v)
    | complete f o => cases o <;> first | rfl | exact absurd rfl (hnp _ (by simp) f)
    | _ => rfl

/-- every well-formed event keeps the barrier invariant `InvB` (a `resume()` while nothing is awaited is harmless) -/
theorem step_invB_ok (P : Prog) (c : Cfg) (ev : Ev) (h : InvB c) (hok : evOk c ev = true) : InvB (step P c ev).1 := by
  cases ev with
  | resume v =>
    simp only [step]
    unfold resume
    split
    · rename_i fn wf wk aw hst
      refine deliver_invB c _ h ?_
      intro _ fn' wf' wk' aw' hst'
      rw [hst] at hst'; cases hst'
      have : (awOf c.st).isEmpty = true := hok
      rw [hst] at this
      exact List.isEmpty_iff.mp this
    · exact h
  | tick => exact step_invB P c _ h (by intro v hv; cases hv)
  | tickCb cb => exact step_invB P c _ h (by intro v hv; cases hv)
  | pause => exact step_invB P c _ h (by intro v hv; cases hv)
  | play => exact step_invB P c _ h (by intro v hv; cases hv)
  | kill => exact step_invB P c _ h (by intro v hv; cases hv)
  | fail e => exact step_invB P c _ h (by intro v hv; cases hv)
  | cancelFut => exact step_invB P c _ h (by intro v hv; cases hv)
  | complete f o => exact step_invB P c _ h (by intro v hv; cases hv)
  | callSoon r => exact step_invB P c _ h (by intro v hv; cases hv)

theorem run_invB_ok (P : Prog) (c0 : Cfg) (evs : List Ev) (h : InvB c0) (hok : histOk P c0 evs = true) :
    InvB (run P c0 evs) := by
  induction evs generalizing c0 with
  | nil => exact h
  | cons e es ih =>
    unfold histOk at hok
    rw [Bool.and_eq_true] at hok
    exact ih _ (step_invB_ok P c0 e h hok.1) hok.2

/-! ### everything that holds in a reachable configuration -/

/-- what holds in every configuration reached by a well-formed history in which no callback runs out of fuel -/
structure Reach (c : Cfg) : Prop where
  coh : Coh c
  invB : InvB c
  g : G c

theorem reach_init (nf : Nat) : Reach (init nf) := ⟨coh_init nf, invB_init nf, g_init nf⟩

theorem step_G (P : Prog) (hP : AwDistinct P) (c : Cfg) (ev : Ev) (h : Reach c) (hok : evOk c ev = true) :
    G (step P c ev).1 := by
  cases ev with
  | tick => exact (tickStepper_R P hP c ⟨h.g, rfl, rfl⟩ h.invB h.coh).g
  | tickCb cb => exact tickCb_G c cb h.g
  | pause => exact h.g.bf (pause_bf c)
  | play => exact h.g.bf (play_bf c)
  | kill => exact kill_G c h.g
  | resume v =>
    simp only [step]
    unfold resume; split
    · exact deliver_G c _ h.g
    · exact h.g
  | fail e => exact fail_G c e h.g
  | cancelFut => exact cancelFut_G c h.g
  | complete f o =>
    refine complete_G c f o ?_ h.g
    intro ho; subst ho; simp [evOk] at hok
  | callSoon r => exact h.g.addReady _ (by intro g hg; cases hg)

theorem step_reach (P : Prog) (hP : AwDistinct P) (c : Cfg) (ev : Ev) (h : Reach c)
    (hf : ev = .tick → tickFuelOk P c = true) (hok : evOk c ev = true) : Reach (step P c ev).1 :=
  ⟨step_coh P c ev h.coh hf, step_invB_ok P c ev h.invB hok, step_G P hP c ev h hok⟩

theorem run_reach (P : Prog) (hP : AwDistinct P) (c0 : Cfg) (evs : List Ev) (h : Reach c0)
    (hf : histFuelOk P c0 evs = true) (hok : histOk P c0 evs = true) : Reach (run P c0 evs) := by
  induction evs generalizing c0 with
  | nil => exact h
  | cons e es ih =>
    unfold histFuelOk at hf
    unfold histOk at hok
    rw [Bool.and_eq_true] at hf hok
    exact ih _ (step_reach P hP c0 e h (by intro he; subst he; exact hf.1) hok.1) hf.2 hok.2

end PMF.B10
