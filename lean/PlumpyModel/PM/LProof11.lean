import PlumpyModel.PM.LProof10
/-!
# `PMF.L` — C01 with listeners: terminal states are final under every event and every request of the oracle
-/
namespace PMF
namespace L

def FFix (F : Hook → LCfg → LCfg) : Prop := ∀ h l, terminal l.c.st.label = true → Fix l.c (F h l).c

theorem fix_term {c c' : Cfg} (h : Fix c c') (ht : terminal c.st.label = true) : terminal c'.st.label = true := by
  rw [h.1]; exact ht

section
variable {F : Hook → LCfg → LCfg}

theorem pauseL_fix (l : LCfg) (ht : terminal l.c.st.label = true) : Fix l.c (pauseL F l).1.c := by
  unfold pauseL; simp [ht]; exact Fix.rfl' _

theorem killL_fix (l : LCfg) (ht : terminal l.c.st.label = true) : Fix l.c (killL F l).1.c := by
  unfold killL; dsimp only; split
  · exact Fix.rfl' _
  · simp [ht]; exact Fix.rfl' _

theorem failL_fix (l : LCfg) (e : Exc) (ht : terminal l.c.st.label = true) : Fix l.c (failL F l e).1.c := by
  unfold failL; simp [ht]; exact Fix.rfl' _

theorem playL_fix (hF : FFix F) (l : LCfg) (ht : terminal l.c.st.label = true) : Fix l.c (playL F l).1.c := by
  unfold playL
  have h1 : Fix l.c (l.upd (fun c => (play c).1)).c := play_fix l.c
  split
  · exact h1
  · exact h1.trans (hF _ _ (fix_term h1 ht))

theorem reqK_fix (hF : FFix F) (r : Req) (l : LCfg) (ht : terminal l.c.st.label = true) : Fix l.c (reqK F r l).c := by
  cases r
  · exact pauseL_fix l ht
  · exact playL_fix hF l ht
  · exact killL_fix l ht
end

theorem fireK_fix {R : Req → LCfg → LCfg} (hR : ∀ r l, terminal l.c.st.label = true → Fix l.c (R r l).c) (h : Hook) (l : LCfg)
    (ht : terminal l.c.st.label = true) : Fix l.c (fireK R h l).c := by
  rcases fireK_cases R h l with h1 | ⟨e, _, h1⟩
  · rw [h1]; exact Fix.rfl' _
  · rw [h1]; exact hR _ _ ht

theorem fireN_fix : ∀ n, FFix (fireN n)
  | 0 => fun _ _ _ => Fix.rfl' _
  | n+1 => fun h l ht => by
      unfold fireN
      exact fireK_fix (fun r l ht => reqK_fix (fireN_fix n) r l ht) h l ht

section
variable {F : Hook → LCfg → LCfg}

theorem endOfStepL_fix (l : LCfg) (r : StepEnd) (ht : terminal l.c.st.label = true) : Fix l.c (endOfStepL F l r).c := by
  unfold endOfStepL; dsimp only
  have hp := prepare_fix l.c r
  have : dispatchL F { l with executing := false, c := (prepare l.c r).1 } (prepare l.c r).2 =
      { l with executing := false, c := (prepare l.c r).1 } := by
    unfold dispatchL; simp [hp.1, ht]
  rw [this, upd_c]
  exact Fix.trans hp (Fix.trans (⟨rfl, rfl⟩ : Fix _ { (prepare l.c r).1 with stepping := false }) (setInterrupt_fix _ _))

theorem finishUserL_fix (l : LCfg) (o : Outcome) (ht : terminal l.c.st.label = true) : Fix l.c (finishUserL F l o).c := by
  unfold finishUserL
  split
  · have h1 := cmdToState_fix l.c ‹_›
    exact h1.trans (endOfStepL_fix _ _ (by show terminal (cmdToState l.c _).1.st.label = true; rw [h1.1]; exact ht))
  · exact endOfStepL_fix _ _ ht

theorem rearm_fix (c : Cfg) (wf : Nat) (ht : terminal c.st.label = true) : rearm c wf = c := by
  unfold rearm; split
  · rename_i hs; exact absurd hs (not_waiting_of_terminal ht _ _ _ _)
  · rfl

theorem wakeL_fix (l : LCfg) (fn wf : Nat) (w : WF) (ht : terminal l.c.st.label = true) : Fix l.c (wakeL F l fn wf w).c := by
  unfold wakeL
  split
  · exact endOfStepL_fix _ _ ht
  · have h0 : Fix l.c (l.upd (fun c => rearm c wf)).c := by rw [upd_c, rearm_fix _ _ ht]; exact Fix.rfl' _
    exact h0.trans (endOfStepL_fix _ _ (fix_term h0 ht))
  · exact endOfStepL_fix _ _ ht
  · exact Fix.rfl' _

theorem loopHeadL_fix (P : Prog) (fuel : Nat) (l : LCfg) (ht : terminal l.c.st.label = true) :
    Fix l.c (loopHeadL F P fuel l).c := by
  cases fuel with
  | zero => exact Fix.rfl' _
  | succ n =>
    unfold loopHeadL
    split
    · exact Fix.rfl' _
    · simp [ht]; exact ⟨rfl, rfl⟩

theorem stepBodyL_fix (P : Prog) (fuel : Nat) (l : LCfg) (ht : terminal l.c.st.label = true) :
    Fix l.c (stepBodyL F P fuel l).c := by
  unfold stepBodyL stepBodyKL
  dsimp only
  split
  · rename_i hst; have hst' : l.c.st = _ := hst; rw [hst'] at ht; simp [SObj.label, terminal, allowed] at ht
  · rename_i hst; have hst' : l.c.st = _ := hst; rw [hst'] at ht; simp [SObj.label, terminal, allowed] at ht
  · rename_i hst; have hst' : l.c.st = _ := hst; rw [hst'] at ht; simp [SObj.label, terminal, allowed] at ht
  · have h1 := endOfStepL_fix (F := F) { l with c := { l.c with stepping := true }, executing := true } (.next none) ht
    exact h1.trans (loopHeadL_fix P fuel _ (fix_term h1 ht))

theorem tickStepperL_fix (P : Prog) (l : LCfg) (ht : terminal l.c.st.label = true) : Fix l.c (tickStepperL F P l).c := by
  unfold tickStepperL
  split
  · exact loopHeadL_fix P _ l ht
  · split
    · split
      · split
        · exact ⟨rfl, rfl⟩
        · exact stepBodyL_fix P _ l ht
      · exact stepBodyL_fix P _ l ht
    · exact Fix.rfl' _
  · split
    · have h1 := finishUserL_fix (F := F) l ‹Body›.out ht
      exact h1.trans (loopHeadL_fix P _ _ (fix_term h1 ht))
    · exact ⟨rfl, rfl⟩
  · split
    · exact Fix.rfl' _
    · have h1 := wakeL_fix (F := F) l (match l.c.st with | .waiting fn .. => fn | _ => 0) ‹Nat› ‹WF› ht
      exact h1.trans (loopHeadL_fix P _ _ (fix_term h1 ht))
    · exact Fix.rfl' _
  · exact Fix.rfl' _

theorem tickCbL_fix (l : LCfg) (cb : Cb) (ht : terminal l.c.st.label = true) : Fix l.c (tickCbL F l cb).c := by
  unfold tickCbL; split
  · have h1 : Fix l.c (l.upd (fun c => { c with ready := c.ready.erase cb })).c := ⟨rfl, rfl⟩
    dsimp only
    split
    · exact h1.trans (awaitableDone_fix _ _ ht)
    · unfold tryKillingL
      have h2 : Fix l.c (killL F (l.upd (fun c => { c with ready := c.ready.erase Cb.trykill }))).1.c :=
        h1.trans (killL_fix _ ht)
      exact h2.trans ⟨rfl, rfl⟩
    · split
      · exact h1.trans (failL_fix _ _ ht)
      · exact h1
  · exact Fix.rfl' _

theorem stepLF_fix (hF : FFix F) (P : Prog) (l : LCfg) (ev : Ev) (ht : terminal l.c.st.label = true) :
    Fix l.c (stepLF F P l ev).1.c := by
  cases ev <;> simp only [stepLF]
  · exact tickStepperL_fix P l ht
  · exact tickCbL_fix l _ ht
  · exact pauseL_fix l ht
  · exact playL_fix hF l ht
  · exact killL_fix l ht
  · exact resume_fix l.c _ ht
  · exact failL_fix l _ ht
  · exact cancelFut_fix l.c
  · exact complete_fix l.c _ _
  · exact ⟨rfl, rfl⟩
end

theorem runL_terminal_final (P : Prog) (l : LCfg) (evs : List Ev) (ht : terminal l.c.st.label = true) :
    (runL P l evs).c.st = l.c.st ∧ (runL P l evs).c.entered = l.c.entered := by
  induction evs generalizing l with
  | nil => exact ⟨rfl, rfl⟩
  | cons e es ih =>
    have h1 : Fix l.c (stepL P l e).1.c := stepLF_fix (fireN_fix l.plan.length) P l e ht
    have h2 := ih (stepL P l e).1 (fix_term h1 ht)
    exact ⟨h2.1.trans h1.1, h2.2.trans h1.2⟩

end L
end PMF
