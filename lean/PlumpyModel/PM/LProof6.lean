import PlumpyModel.PM.LProof5
/-!
# `PMF.L` — the action table only grows: an action never changes its kind (`Kd`), for every model function
-/
namespace PMF
namespace L

/-- kinds of existing actions are kept -/
def Kd (c c' : Cfg) : Prop := ∀ i a, actionKind c i = some a → actionKind c' i = some a
theorem Kd.rfl' (c : Cfg) : Kd c c := fun _ _ h => h
theorem Kd.trans {a b c : Cfg} (h1 : Kd a b) (h2 : Kd b c) : Kd a c := fun i x h => h2 i x (h1 i x h)
theorem Kd.of_eq {c c' : Cfg} (h : c'.actions = c.actions) : Kd c c' := fun i a hi => by simpa [actionKind, h] using hi

def KdL (l l' : LCfg) : Prop := Kd l.c l'.c
theorem KdL.rfl' (l : LCfg) : KdL l l := Kd.rfl' _
theorem KdL.trans {a b c : LCfg} (h1 : KdL a b) (h2 : KdL b c) : KdL a c := Kd.trans h1 h2
theorem KdL.upd (l : LCfg) (f : Cfg → Cfg) (h : (f l.c).actions = l.c.actions) : KdL l (l.upd f) := Kd.of_eq h
theorem KdL.same (l l' : LCfg) (h : l'.c.actions = l.c.actions) : KdL l l' := Kd.of_eq h

def FKd (F : Hook → LCfg → LCfg) : Prop := ∀ h l, KdL l (F h l)

theorem requestL_kd (l : LCfg) (k : AKind) : Kd l.c (requestL l k) := by
  unfold requestL; split
  · exact (requestInterrupt_kx ..).1
  · exact Kd.trans (Kd.of_eq rfl : Kd l.c { l.c with nextCookie := l.c.nextCookie + 1 }) (setInterruptFromExc_kx ..).1

section
variable {F : Hook → LCfg → LCfg}

theorem kd_exitState (l : LCfg) : KdL l (l.upd exitState) := by
  obtain ⟨w, e, h⟩ := exitState_shape l.c
  exact KdL.upd l _ (by rw [h])
theorem kd_onTerminated (l : LCfg) : KdL l (l.upd onTerminated) := by
  obtain ⟨p, cl, n, h⟩ := onTerminated_shape l.c
  exact KdL.upd l _ (by rw [h])
theorem kd_enteredHooks (l : LCfg) (s : SObj) : KdL l (l.upd (fun c => enteredHooks c s)) := by
  obtain ⟨n, h⟩ := enteredHooks_shape l.c s
  exact KdL.upd l _ (by simp only [h])
theorem kd_setFutExc (l : LCfg) (e : Exc) : KdL l (l.upd (fun c => setFutExc c e)) := by
  obtain ⟨f, b, h⟩ := setFutExc_shape l.c e
  exact KdL.upd l _ (by simp only [h])
theorem kd_enter (l : LCfg) (s : SObj) : KdL l (l.upd (fun c => setState (enterState c s) s)) := by
  obtain ⟨k, e, r, h⟩ := enterState_shape l.c s
  exact KdL.upd l _ (by simp only [h, setState])

theorem enteredHooksL_kd (hF : FKd F) (l : LCfg) (s : SObj) : KdL l (enteredHooksL F l s) := by
  unfold enteredHooksL; dsimp only
  split
  · exact (kd_enteredHooks l s).trans (hF _ _)
  · exact kd_enteredHooks l s

theorem forceExceptedL_kd (hF : FKd F) (l : LCfg) (e : Exc) : KdL l (forceExceptedL F l e) := by
  unfold forceExceptedL
  split
  · exact KdL.same _ _ rfl
  · dsimp only
    have h1 : KdL l ({ l with trans := some .excepted }.upd (fun c => setFutExc c e)) :=
      KdL.trans (KdL.same _ _ rfl : KdL l { l with trans := some .excepted }) (kd_setFutExc _ e)
    have h2 := h1.trans (hF .entering _)
    have h3 := h2.trans (KdL.same _ ((F .entering _).upd (fun c => setState c (.excepted e))) rfl)
    exact (h3.trans (enteredHooksL_kd hF _ _)).trans (kd_onTerminated _)

theorem enterNextL_kd (hF : FKd F) (l : LCfg) (s : SObj) : KdL l (enterNextL F l s) := by
  unfold enterNextL; dsimp only
  have h1 : KdL l (enteredHooksL F (l.upd (fun c => setState (enterState c s) s)) s) :=
    (kd_enter l s).trans (enteredHooksL_kd hF _ _)
  split
  · exact h1.trans (kd_onTerminated _)
  · exact h1

theorem exitPhaseL_kd (hF : FKd F) (l : LCfg) (s : SObj) : KdL l (exitPhaseL F l s) := by
  unfold exitPhaseL; dsimp only
  have h1 : KdL l ((F .exiting l).upd exitState) := (hF _ _).trans (kd_exitState _)
  split
  · exact h1.trans ((hF _ _).trans (kd_exitState _))
  · exact h1

theorem transitionToL_kd (hF : FKd F) (l : LCfg) (s : SObj) : KdL l (transitionToL F l s) := by
  have h0 : KdL l { l with trans := some s.label } := KdL.same _ _ rfl
  have hfin : ∀ d : LCfg, KdL l d → KdL l { d with trans := none } := fun d hd => hd.trans (KdL.same _ _ rfl)
  unfold transitionToL; dsimp only
  apply hfin
  split
  · split
    · obtain ⟨w, e, h⟩ := exitState_shape l.c
      exact KdL.same _ _ (by simp only [upd_c, h])
    · have h1 := h0.trans (exitPhaseL_kd hF { l with trans := some s.label } s)
      split
      · exact h1.trans (forceExceptedL_kd hF _ _)
      · rename_i c2 hok
        obtain ⟨f, b, h⟩ := enteringHooks_shape _ _ _ hok
        refine KdL.trans (h1.trans ?_) (enterNextL_kd hF _ _)
        refine KdL.trans ?_ (hF _ _)
        exact KdL.same _ _ (by simp only [h])
  · exact h0.trans (forceExceptedL_kd hF _ _)

theorem doPauseL_kd (hF : FKd F) (l : LCfg) : KdL l (doPauseL F l) := by
  unfold doPauseL; dsimp only
  refine KdL.trans (KdL.trans ?_ (hF _ _)) (KdL.same _ _ rfl)
  exact KdL.same _ _ rfl

theorem pauseL_kd (hF : FKd F) (l : LCfg) : KdL l (pauseL F l).1 := by
  unfold pauseL; dsimp only
  split
  · exact KdL.rfl' l
  · split
    · exact KdL.rfl' l
    · split
      · exact (hand_kx ..).1
      · split
        · exact KdL.rfl' l
        · split
          · have h1 : Kd l.c { requestL l .pause with pausing := (requestL l .pause).interrupt } :=
              Kd.trans (requestL_kd l .pause) (Kd.of_eq rfl)
            split
            · exact Kd.trans h1 (hand_kx ..).1
            · exact h1
          · exact doPauseL_kd hF l

theorem playL_kd (hF : FKd F) (l : LCfg) : KdL l (playL F l).1 := by
  unfold playL
  have h1 : KdL l (l.upd (fun c => (play c).1)) := (play_kx l.c).1
  split
  · exact h1
  · exact h1.trans (hF _ _)

theorem killL_kd (hF : FKd F) (l : LCfg) : KdL l (killL F l).1 := by
  unfold killL; dsimp only
  split
  · exact KdL.rfl' l
  · split
    · exact KdL.rfl' l
    · split
      · exact (hand_kx ..).1
      · split
        · have h1 : Kd l.c { requestL l .kill with killing := (requestL l .kill).interrupt } :=
            Kd.trans (requestL_kd l .kill) (Kd.of_eq rfl)
          split
          · exact Kd.trans h1 (hand_kx ..).1
          · exact h1
        · exact transitionToL_kd hF l _

theorem reqK_kd (hF : FKd F) (r : Req) (l : LCfg) : KdL l (reqK F r l) := by
  cases r
  · exact pauseL_kd hF l
  · exact playL_kd hF l
  · exact killL_kd hF l
end

theorem fireK_kd {R : Req → LCfg → LCfg} (hR : ∀ r l, KdL l (R r l)) (h : Hook) (l : LCfg) : KdL l (fireK R h l) := by
  rcases fireK_cases R h l with h1 | ⟨e, _, h1⟩
  · rw [h1]; exact KdL.same _ _ rfl
  · rw [h1]
    refine KdL.trans ?_ (hR _ _)
    exact KdL.same _ _ rfl

theorem fireN_kd : ∀ n, FKd (fireN n)
  | 0 => fun _ _ => KdL.same _ _ rfl
  | n+1 => fun h l => by
      unfold fireN
      exact fireK_kd (fun r l => reqK_kd (fireN_kd n) r l) h l

end L
end PMF
