import PlumpyModel.PM.Proof11d
/-!
# C06 at the level of histories, part 5: delivery — one tick of the stepping task starts the continuation

`tick_delivers`: in a coherent configuration (`Coh`, i.e. every configuration reachable without running out of fuel) whose
WAITING state holds an outcome `v` for its continuation `fn` (`Holds`: the waiting future completed with `v`, or `v` is
parked in the wake-up slot while the future carries an interruption), if the process is playing (not paused, no pause
or kill request pending), the next callback of the stepping task activates `fn` with exactly `v`'s argument list.
-/
namespace PMF.H6
open PMF

/-- the positional arguments a continuation is called with when the wait completed with `v` -/
def argsOf (v : Option Val) : List Val := match v with | some x => [x] | none => []

/-- the wait of the current WAITING state (future `wf`, wake-up slot `wk`) holds the outcome `v` -/
def Holds (c : Cfg) (wf : Nat) (wk : Option WF) (v : Option Val) : Prop :=
  c.wfs[wf]? = some (.result v) ∨ ((∃ k, c.wfs[wf]? = some (.interrupted k)) ∧ wk = some (.result v))

/-- no runnable interrupt action: none installed, or the installed one was cancelled by `play()` -/
def Plain (c : Cfg) : Prop := ∀ i, c.interrupt = some i → actionStatus c i = .cancelled

theorem endOfStep_next_plain (c : Cfg) (s : SObj) (hl : terminal c.st.label = false) (hne : ∀ e, s ≠ .excepted e)
    (hi : Plain c) : endOfStep c (.next (some s)) = finally_ (transitionTo c s) := by
  have hp : prepare c (.next (some s)) = (c, some s) := by
    cases s <;> first | rfl | exact absurd rfl (hne _)
  have hd : dispatch c (some s) = transitionTo c s := by
    unfold dispatch
    simp only [hl, Bool.false_eq_true, if_false]
    split
    · rename_i i hi'; simp [hi i hi']
    · rfl
  unfold endOfStep
  rw [hp]
  simp only [hd]

theorem endOfStep_interruption_plain (c : Cfg) (k i : Nat) (hl : terminal c.st.label = false)
    (hi : c.interrupt = some i) (hc : actionStatus c i = .cancelled) : endOfStep c (.interruption k) = finally_ c := by
  have hp : prepare c (.interruption k) = (c, none) := by unfold prepare; simp [hi]
  have hd : dispatch c none = c := by unfold dispatch; simp [hl, hi, hc]
  unfold endOfStep
  rw [hp]
  simp only [hd]

theorem finally_fields (d : Cfg) : (finally_ d).st = d.st ∧ (finally_ d).wfs = d.wfs ∧ (finally_ d).paused = d.paused ∧
    (finally_ d).closed = d.closed ∧ (finally_ d).pc = d.pc ∧ (finally_ d).trace = d.trace ∧
    (finally_ d).stepping = false ∧ (finally_ d).interrupt = none ∧ (finally_ d).pausing = d.pausing ∧
    (finally_ d).killing = d.killing := by
  have h := finally_rest d
  exact ⟨h.1.st, h.1.wfs, h.1.paused, h.1.closed, h.1.pc, h.1.trace, h.1.stepping, h.2, h.1.pausing, h.1.killing⟩

/-- `Waiting.execute` after its future completed with `v`, no runnable interrupt action: RUNNING `fn(*argsOf v)` -/
theorem wake_result_fields (c : Cfg) (fn wf : Nat) (v : Option Val) (hl : c.st.label = .waiting) (hcl : c.closed = false)
    (hi : Plain c) :
    (wake c fn wf (.result v)).st = .running fn (argsOf v) [] ∧ (wake c fn wf (.result v)).paused = c.paused ∧
    (wake c fn wf (.result v)).closed = false ∧ (wake c fn wf (.result v)).pc = c.pc ∧
    (wake c fn wf (.result v)).trace = c.trace := by
  have hlive : terminal c.st.label = false := by rw [hl]; decide
  have hal : Label.running ∈ allowed c.st.label := by rw [hl]; decide
  have hw : wake c fn wf (.result v) = finally_ (transitionTo c (.running fn (argsOf v) [])) := by
    unfold wake
    simp only
    exact endOfStep_next_plain c _ hlive (by intro e h; cases h) hi
  have hf := finally_fields (transitionTo c (.running fn (argsOf v) []))
  have hc := transitionTo_core c (.running fn (argsOf v) [])
  have hst := transitionTo_running_exact c fn (argsOf v) [] hal hcl
  rw [hw]
  refine ⟨hf.1.trans hst, hf.2.2.1.trans hc.paused, ?_, hf.2.2.2.2.1.trans hc.pc, hf.2.2.2.2.2.1.trans hc.trace⟩
  rw [hf.2.2.2.1]
  rcases transitionTo_res c (.running fn (argsOf v) []) with ⟨e, he⟩ | ⟨_, _, h3⟩
  · rw [hst] at he; cases he
  · exact (h3 (by simp [SObj.label, terminal, allowed])).2.1.trans hcl

/-- the body of `Process.step` on a RUNNING state of a process that is not paused logs the activation -/
theorem stepBodyK_activates (P : Prog) (m : Nat) (d : Cfg) (fn : Nat) (args : List Val)
    (hst : d.st = .running fn args []) (hpa : d.paused = none) :
    ∃ extra, (stepBodyK P (loopHead P m) d).trace =
      extra ++ { fn := fn, args := args, kw := [], paused := false } :: d.trace := by
  unfold stepBodyK
  dsimp only
  split
  · rename_i fn' h; have h' : d.st = .created fn' := h; rw [hst] at h'; cases h'
  · rename_i fn' args' kw' h
    have h' : d.st = .running fn' args' kw' := h
    rw [hst] at h'; cases h'
    have hp : d.paused.isSome = false := by rw [hpa]; rfl
    rw [hp]
    split
    · obtain ⟨x, hx⟩ := (loopHead_trext P m (finishUser { { d with stepping := true } with
          trace := { fn := fn, args := args, kw := [], paused := false } :: d.trace } (P fn args [] d.ctx).out)).ext
      exact ⟨x, by rw [hx, finishUser_trace]⟩
    · exact ⟨[], rfl⟩
  · rename_i fn' wf' wk' aw' h; have h' : d.st = .waiting fn' wf' wk' aw' := h; rw [hst] at h'; cases h'
  · rename_i h1 h2 h3; exact absurd hst (h2 fn args [])

/-- a RUNNING state that is reached inside the loop of a playing process is activated by the next iteration -/
theorem loopHead_activates (P : Prog) (m : Nat) (d : Cfg) (fn : Nat) (args : List Val)
    (hst : d.st = .running fn args []) (hncr : ∀ e, d.pc ≠ .crashed e) (hcl : d.closed = false) (hpa : d.paused = none) :
    ∃ extra, (loopHead P (m + 1) d).trace = extra ++ { fn := fn, args := args, kw := [], paused := false } :: d.trace := by
  have hlive : terminal d.st.label = false := by rw [hst]; simp [SObj.label, terminal, allowed]
  unfold loopHead
  split
  · rename_i e he; exact absurd he (hncr e)
  · simp only [hlive, hcl, Bool.false_eq_true, if_false, hpa]
    exact stepBodyK_activates P m d fn args hst hpa

/-- the loop head of a live process that is paused on an unreleased pause future suspends there -/
theorem loopHead_blocked (P : Prog) (m : Nat) (d : Cfg) (pf : Nat) (hncr : ∀ e, d.pc ≠ .crashed e)
    (hlive : terminal d.st.label = false) (hcl : d.closed = false) (hpa : d.paused = some pf)
    (hpf : d.pfs[pf]? = some false) : loopHead P (m + 1) d = { d with pc := .awaitPaused pf } := by
  unfold loopHead
  split
  · rename_i e he; exact absurd he (hncr e)
  · simp only [hlive, hcl, Bool.false_eq_true, if_false, hpa, hpf, if_true]

/-- the body of `Process.step` on a WAITING state whose future completed with `v`, then the rest of the loop -/
theorem stepBodyK_waiting_delivers (P : Prog) (m : Nat) (c : Cfg) (fn wf : Nat) (wk : Option WF) (aw : List (Nat × Nat))
    (v : Option Val) (hst : c.st = .waiting fn wf wk aw) (hw : c.wfs[wf]? = some (.result v)) (hi : Plain c)
    (hncr : ∀ e, c.pc ≠ .crashed e) (hcl : c.closed = false) (hpa : c.paused = none) :
    ∃ extra, (stepBodyK P (loopHead P (m + 1)) c).trace =
      extra ++ { fn := fn, args := argsOf v, kw := [], paused := false } :: c.trace := by
  have hl : ({ c with stepping := true } : Cfg).st.label = .waiting := by show c.st.label = _; rw [hst]; rfl
  have hf := wake_result_fields { c with stepping := true } fn wf v hl hcl hi
  have ha := loopHead_activates P m (wake { c with stepping := true } fn wf (.result v)) fn (argsOf v) hf.1
    (by intro e; rw [hf.2.2.2.1]; exact hncr e) hf.2.2.1 (hf.2.1.trans hpa)
  rw [hf.2.2.2.2] at ha
  unfold stepBodyK
  dsimp only
  split
  · rename_i fn' h; have h' : c.st = .created fn' := h; rw [hst] at h'; cases h'
  · rename_i fn' args' kw' h; have h' : c.st = .running fn' args' kw' := h; rw [hst] at h'; cases h'
  · rename_i fn' wf' wk' aw' h
    have h' : c.st = .waiting fn' wf' wk' aw' := h
    rw [hst] at h'; cases h'
    split
    · rename_i hp; have hp' : c.wfs[wf]? = some .pending := hp; rw [hw] at hp'; cases hp'
    · rename_i w hnp hw'
      have hw'' : c.wfs[wf]? = some w := hw'
      rw [hw] at hw''; cases hw''
      exact ha
    · rename_i hn; have hn' : c.wfs[wf]? = none := hn; rw [hw] at hn'; cases hn'
  · rename_i h1 h2 h3; exact absurd hst (h3 fn wf wk aw)

theorem loopHead_waiting_delivers (P : Prog) (m : Nat) (c : Cfg) (fn wf : Nat) (wk : Option WF) (aw : List (Nat × Nat))
    (v : Option Val) (hst : c.st = .waiting fn wf wk aw) (hw : c.wfs[wf]? = some (.result v)) (hi : Plain c)
    (hncr : ∀ e, c.pc ≠ .crashed e) (hcl : c.closed = false) (hpa : c.paused = none) :
    ∃ extra, (loopHead P (m + 2) c).trace = extra ++ { fn := fn, args := argsOf v, kw := [], paused := false } :: c.trace := by
  have hlive : terminal c.st.label = false := by rw [hst]; simp [SObj.label, terminal, allowed]
  unfold loopHead
  split
  · rename_i e he; exact absurd he (hncr e)
  · simp only [hlive, hcl, Bool.false_eq_true, if_false, hpa]
    exact stepBodyK_waiting_delivers P m c fn wf wk aw v hst hw hi hncr hcl hpa


/-- `Waiting.execute` resumed by an interruption whose action was retracted: the wait is re-armed on a fresh future that
holds the parked outcome, and the step ends without doing anything else -/
theorem wake_interrupted_plain (c : Cfg) (fn wf : Nat) (wk : Option WF) (aw : List (Nat × Nat)) (k i : Nat)
    (hst : c.st = .waiting fn wf wk aw) (hi : c.interrupt = some i) (hc : actionStatus c i = .cancelled) :
    wake c fn wf (.interrupted k) =
      finally_ { c with st := .waiting fn c.wfs.length none aw, wfs := c.wfs ++ [wk.getD WF.pending] } := by
  cases wk with
  | none =>
    unfold wake
    simp only [hst, if_true]
    exact endOfStep_interruption_plain { c with st := .waiting fn c.wfs.length none aw, wfs := c.wfs ++ [WF.pending] }
      k i (by simp [SObj.label, terminal, allowed]) hi hc
  | some o =>
    unfold wake
    simp only [hst, if_true]
    exact endOfStep_interruption_plain { c with st := .waiting fn c.wfs.length none aw, wfs := c.wfs ++ [o] }
      k i (by simp [SObj.label, terminal, allowed]) hi hc

/-- **delivery, one configuration**: see the header of this file -/
theorem tick_delivers_plain (P : Prog) (c : Cfg) (fn wf : Nat) (wk : Option WF) (aw : List (Nat × Nat)) (v : Option Val)
    (h : Coh c) (hst : c.st = .waiting fn wf wk aw) (hh : Holds c wf wk v)
    (hpa : c.paused = none) (hplain : Plain c) :
    ∃ extra, (tickStepper P c).trace = extra ++ { fn := fn, args := argsOf v, kw := [], paused := false } :: c.trace := by
  have hlab : c.st.label = .waiting := by rw [hst]; rfl
  have hlive : terminal c.st.label = false := by rw [hlab]; decide
  have hcl : c.closed = false := not_closed_of_live h.inv hlive
  have hwfo : wfOf c.st = some wf := by rw [hst]; rfl
  have hpcok := h.pcOk
  unfold PcOk at hpcok
  rcases hh with hw | ⟨⟨k, hwk⟩, hwkv⟩
  · -- the waiting future completed with `v`
    cases hpc : c.pc with
    | notStarted =>
      unfold tickStepper
      simp only [hpc]
      exact loopHead_waiting_delivers P 998 c fn wf wk aw v hst hw hplain (by intro e; rw [hpc]; intro g; cases g) hcl hpa
    | awaitPaused pf =>
      simp only [hpc] at hpcok
      have hpf : c.pfs[pf]? = some true := by
        rcases hpcok.2 hlive with g | g
        · exact g
        · rw [hpa] at g; cases g
      unfold tickStepper
      simp only [hpc, hpf, if_true, hpa]
      unfold stepBody
      exact stepBodyK_waiting_delivers P 999 c fn wf wk aw v hst hw hplain (by intro e; rw [hpc]; intro g; cases g) hcl hpa
    | inUser b =>
      simp only [hpc] at hpcok
      rw [hpcok.2] at hwfo; cases hwfo
    | awaitWaiting wf' =>
      simp only [hpc] at hpcok
      have hwf' : wf' = wf := by
        rcases hpcok.2 with g | g
        · rw [hlive] at g; cases g
        · rw [hwfo] at g; cases g; rfl
      subst hwf'
      have hf := wake_result_fields c fn wf' v hlab hcl hplain
      have ha := loopHead_activates P 999 (wake c fn wf' (.result v)) fn (argsOf v) hf.1
        (by intro e; rw [hf.2.2.2.1, hpc]; intro g; cases g) hf.2.2.1 (hf.2.1.trans hpa)
      rw [hf.2.2.2.2] at ha
      unfold tickStepper
      simp only [hpc, hw, hst]
      exact ha
    | done =>
      simp only [hpc] at hpcok
      rw [hlive] at hpcok; cases hpcok.2
    | crashed e => simp only [hpc] at hpcok
  · -- the outcome is parked while the future carries an interruption: the interrupted step is still in flight
    obtain ⟨hstep, hint⟩ := h.rob.intr wf k hwfo hwk
    cases hpc : c.pc with
    | notStarted => simp only [hpc] at hpcok; rw [hstep] at hpcok; cases hpcok
    | awaitPaused pf => simp only [hpc] at hpcok; rw [hstep] at hpcok; cases hpcok.1
    | inUser b =>
      simp only [hpc] at hpcok
      rw [hpcok.2] at hwfo; cases hwfo
    | done => simp only [hpc] at hpcok; rw [hstep] at hpcok; cases hpcok.1
    | crashed e => simp only [hpc] at hpcok
    | awaitWaiting wf' =>
      simp only [hpc] at hpcok
      have hwf' : wf' = wf := by
        rcases hpcok.2 with g | g
        · rw [hlive] at g; cases g
        · rw [hwfo] at g; cases g; rfl
      subst hwf'
      cases hi : c.interrupt with
      | none => exact absurd hi hint
      | some i =>
        have hc := hplain i hi
        subst hwkv
        have hwake : wake c fn wf' (.interrupted k) =
            finally_ { c with st := .waiting fn c.wfs.length none aw, wfs := c.wfs ++ [WF.result v] } :=
          wake_interrupted_plain c fn wf' (some (.result v)) aw k i hst hi hc
        have hf := finally_fields { c with st := .waiting fn c.wfs.length none aw, wfs := c.wfs ++ [WF.result v] }
        have hd := loopHead_waiting_delivers P 998
          (finally_ { c with st := .waiting fn c.wfs.length none aw, wfs := c.wfs ++ [WF.result v] })
          fn c.wfs.length none aw v hf.1 (by rw [hf.2.1]; simp)
          (by intro j hj; rw [hf.2.2.2.2.2.2.2.1] at hj; cases hj)
          (by intro e; rw [hf.2.2.2.2.1]; show c.pc ≠ _; rw [hpc]; intro g; cases g)
          (by rw [hf.2.2.2.1]; exact hcl) (by rw [hf.2.2.1]; exact hpa)
        rw [hf.2.2.2.2.2.1] at hd
        unfold tickStepper
        simp only [hpc, hwk, hst]
        rw [hwake]
        exact hd


theorem plain_of_no_request (c : Cfg) (h : Rob c) (hpi : c.pausing = none) (hk : c.killing = none) : Plain c := by
  intro i hi
  rcases h.alias i hi with g | g | g
  · exact g
  · rw [hpi] at g; cases g
  · rw [hk] at g; cases g

theorem tick_delivers (P : Prog) (c : Cfg) (fn wf : Nat) (wk : Option WF) (aw : List (Nat × Nat)) (v : Option Val)
    (h : Coh c) (hst : c.st = .waiting fn wf wk aw) (hh : Holds c wf wk v)
    (hpa : c.paused = none) (hpi : c.pausing = none) (hk : c.killing = none) :
    ∃ extra, (tickStepper P c).trace = extra ++ { fn := fn, args := argsOf v, kw := [], paused := false } :: c.trace :=
  tick_delivers_plain P c fn wf wk aw v h hst hh hpa (plain_of_no_request c h.rob hpi hk)

end PMF.H6
