import PlumpyModel.PM.LProof9
/-!
# `PMF.L` — C01 with listeners: the entered log stays a path of the lifecycle graph (`Inv`) for every history of `runL`
-/
namespace PMF
namespace L

theorem Hk.same {l l' : LCfg} (h : Hk l l') : Same l.c l'.c := ⟨by rw [h.c.st], h.c.entered, h.c.closed⟩

def FInv (F : Hook → LCfg → LCfg) : Prop := ∀ h l, Inv l.c → Inv (F h l).c

structure FG1 (F : Hook → LCfg → LCfg) : Prop where
  inv : FInv F
  phase : FHkPhase F

section
variable {F : Hook → LCfg → LCfg}

theorem enteredHooksL_inv (hF : FG1 F) (l : LCfg) (s : SObj) (h : Inv l.c) : Inv (enteredHooksL F l s).c := by
  unfold enteredHooksL; dsimp only
  have h1 : Inv (l.upd (fun c => enteredHooks c s)).c := h.same (enteredHooks_same _ _)
  split
  · exact hF.inv _ _ h1
  · exact h1

theorem forceExceptedL_inv (hF : FG1 F) (l : LCfg) (e : Exc) (h : Inv l.c) (hl : terminal l.c.st.label = false) :
    Inv (forceExceptedL F l e).c := by
  have hnc := not_closed_of_live h hl
  unfold forceExceptedL
  simp only [hnc, Bool.false_eq_true, if_false]
  have hs1 : Same l.c ({ l with trans := some .excepted }.upd (fun c => setFutExc c e)).c := setFutExc_same l.c e
  have hs2 := hs1.trans (hF.phase .entering _ rfl).same
  have h3 : Inv ((F .entering ({ l with trans := some .excepted }.upd (fun c => setFutExc c e))).upd
      (fun c => setState c (.excepted e))).c :=
    setState_inv _ _ (h.same hs2) (by rw [hs2.1]; exact live_excepted _ hl) (by rw [hs2.2.2]; exact hnc)
  rw [enteredHooksL_nohook _ _ (by simp [SObj.label, terminal, allowed])]
  apply onTerminated_inv _ (h3.same (enteredHooks_same _ _))
  rw [(enteredHooks_same _ _).1]; simp [setState, SObj.label, terminal, allowed]

theorem enterNextL_inv (hF : FG1 F) (l : LCfg) (s : SObj) (h : Inv l.c) (hin : s.label ∈ allowed l.c.st.label)
    (hnc : l.c.closed = false) : Inv (enterNextL F l s).c := by
  have he := enterState_same l.c s
  have h1 : Inv (l.upd (fun c => setState (enterState c s) s)).c :=
    setState_inv _ _ (h.same he) (by rw [he.1]; exact hin) (by rw [he.2.2]; exact hnc)
  by_cases ht : terminal s.label = true
  · unfold enterNextL; dsimp only
    rw [enteredHooksL_nohook _ _ ht]
    simp only [ht, if_true]
    apply onTerminated_inv _ (h1.same (enteredHooks_same _ s))
    rw [(enteredHooks_same _ s).1]; simpa [setState] using ht
  · unfold enterNextL; dsimp only
    simp only [ht]
    exact enteredHooksL_inv hF _ s h1

theorem exitPhaseL_same (hF : FG1 F) (l : LCfg) (s : SObj) : Same l.c (exitPhaseL F l s).c := by
  unfold exitPhaseL; dsimp only
  have h1 : Same l.c ((F .exiting l).upd exitState).c := (hF.phase .exiting l rfl).same.trans (exitState_same _)
  split
  · exact h1.trans ((hF.phase .exiting _ rfl).same.trans (exitState_same _))
  · exact h1

theorem transitionToL_inv (hF : FG1 F) (l : LCfg) (s : SObj) (h : Inv l.c) (hl : terminal l.c.st.label = false) :
    Inv (transitionToL F l s).c := by
  have hnc := not_closed_of_live h hl
  unfold transitionToL; dsimp only
  split
  · rename_i hin
    simp only [hnc, Bool.false_eq_true, if_false]
    have hex := exitPhaseL_same hF { l with trans := some s.label } s
    split
    · rename_i e _
      exact forceExceptedL_inv hF _ e (h.same hex) (by rw [hex.1]; exact hl)
    · rename_i c2 hok
      have h2 : Same l.c c2 := hex.trans (enteringHooks_same _ _ _ hok)
      have h3 : Same l.c (F .entering { exitPhaseL F { l with trans := some s.label } s with c := c2 }).c :=
        h2.trans (hF.phase .entering _ rfl).same
      exact enterNextL_inv hF _ s (h.same h3) (by rw [h3.1]; exact hin) (by rw [h3.2.2]; exact hnc)
  · exact forceExceptedL_inv hF _ _ h hl

theorem doPauseL_inv (hF : FG1 F) (l : LCfg) (h : Inv l.c) : Inv (doPauseL F l).c := by
  unfold doPauseL; dsimp only
  have h1 : Inv (F .paused (l.upd doPauseHooks)).c := hF.inv _ _ (h.same (doPauseHooks_same l.c))
  exact h1.same ⟨rfl, rfl, rfl⟩

theorem requestL_same (l : LCfg) (k : AKind) : Same l.c (requestL l k) := by
  have := requestL_hkc l k; exact ⟨by rw [this.st], this.entered, this.closed⟩

theorem pauseL_inv (hF : FG1 F) (l : LCfg) (h : Inv l.c) : Inv (pauseL F l).1.c := by
  unfold pauseL; dsimp only
  split
  · exact h
  · split
    · exact h
    · split
      · exact h.same (hand_same ..)
      · split
        · exact h
        · split
          · have hs : Same l.c { requestL l .pause with pausing := (requestL l .pause).interrupt } :=
              (requestL_same l .pause).trans ⟨rfl, rfl, rfl⟩
            split
            · exact (h.same hs).same (hand_same ..)
            · exact h.same hs
          · exact doPauseL_inv hF l h

theorem playL_inv (hF : FG1 F) (l : LCfg) (h : Inv l.c) : Inv (playL F l).1.c := by
  unfold playL
  split
  · exact play_inv l.c h
  · exact hF.inv _ _ (play_inv l.c h)

theorem killL_inv (hF : FG1 F) (l : LCfg) (h : Inv l.c) : Inv (killL F l).1.c := by
  unfold killL; dsimp only
  split
  · exact h
  · split
    · exact h
    · rename_i hnk hnt
      have hl : terminal l.c.st.label = false := by simpa using hnt
      split
      · exact h.same (hand_same ..)
      · split
        · have hs : Same l.c { requestL l .kill with killing := (requestL l .kill).interrupt } :=
            (requestL_same l .kill).trans ⟨rfl, rfl, rfl⟩
          split
          · exact (h.same hs).same (hand_same ..)
          · exact h.same hs
        · exact transitionToL_inv hF l .killed h hl

theorem failL_inv (hF : FG1 F) (l : LCfg) (e : Exc) (h : Inv l.c) : Inv (failL F l e).1.c := by
  unfold failL; split
  · exact h
  · rename_i hnt
    exact transitionToL_inv hF l _ h (by simpa using hnt)

theorem reqK_inv (hF : FG1 F) (r : Req) (l : LCfg) (h : Inv l.c) : Inv (reqK F r l).c := by
  cases r
  · exact pauseL_inv hF l h
  · exact playL_inv hF l h
  · exact killL_inv hF l h
end

theorem fireK_inv {R : Req → LCfg → LCfg} (hR : ∀ r l, Inv l.c → Inv (R r l).c) (h : Hook) (l : LCfg) (hi : Inv l.c) :
    Inv (fireK R h l).c := by
  rcases fireK_cases R h l with h1 | ⟨e, _, h1⟩
  · rw [h1]; exact hi
  · rw [h1]; exact hR _ _ hi

theorem fireN_g1 : ∀ n, FG1 (fireN n)
  | 0 => ⟨fun _ _ h => h, fireN_fhkPhase 0⟩
  | n+1 => ⟨fun h l hi => by
      unfold fireN
      exact fireK_inv (fun r l hi => reqK_inv (fireN_g1 n) r l hi) h l hi, fireN_fhkPhase (n+1)⟩

section
variable {F : Hook → LCfg → LCfg}

theorem runActionL_inv (hF : FG1 F) (l : LCfg) (i : Nat) (next : Option SObj) (h : Inv l.c)
    (hl : terminal l.c.st.label = false) : Inv (runActionL F l i next).c := by
  unfold runActionL
  split
  · exact h
  · split
    · exact h.same ⟨rfl, rfl, rfl⟩
    · have hclose : ∀ body : LCfg, Inv body.c →
          Inv (if actionStatus body.c i = .pending then body.upd (fun c => setActionStatus c i .done) else body).c := by
        intro body hb
        split
        · exact hb.same (setActionStatus_same ..)
        · exact hb
      apply hclose
      split
      · split
        · dsimp only
          split
          · exact transitionToL_inv hF _ _ h hl
          · exact doPauseL_inv hF _ (transitionToL_inv hF _ _ h hl)
        · exact doPauseL_inv hF _ h
      · exact (transitionToL_inv hF _ _ h hl).same ⟨rfl, rfl, rfl⟩

theorem enactLoop_inv (hF : FG1 F) : ∀ (n : Nat) (l : LCfg), Inv l.c → Inv (enactLoop F n l).c
  | 0, _, h => h
  | n+1, l, h => by
    unfold enactLoop
    split
    · split
      · rename_i hc
        simp only [Bool.and_eq_true, decide_eq_true_eq, Bool.not_eq_true'] at hc
        exact enactLoop_inv hF n _ (runActionL_inv hF l _ none h hc.2)
      · exact h
    · exact h

theorem dispatchL_inv (hF : FG1 F) (l : LCfg) (next : Option SObj) (h : Inv l.c) : Inv (dispatchL F l next).c := by
  unfold dispatchL
  split
  · exact h
  · rename_i hl
    have hl' : terminal l.c.st.label = false := by simpa using hl
    apply enactLoop_inv hF
    unfold dispatch1L
    split
    · split
      · exact runActionL_inv hF l _ next h hl'
      · split
        · exact transitionToL_inv hF l _ h hl'
        · exact h
    · split
      · exact transitionToL_inv hF l _ h hl'
      · exact h

theorem endOfStepL_inv (hF : FG1 F) (l : LCfg) (r : StepEnd) (h : Inv l.c) : Inv (endOfStepL F l r).c := by
  unfold endOfStepL; dsimp only
  rw [upd_c]
  exact (dispatchL_inv hF _ _ (h.same (prepare_same l.c r))).same (finally_same _)

theorem finishUserL_inv (hF : FG1 F) (l : LCfg) (o : Outcome) (h : Inv l.c) : Inv (finishUserL F l o).c := by
  unfold finishUserL
  split
  · exact endOfStepL_inv hF _ _ (h.same (cmdToState_same ..))
  · exact endOfStepL_inv hF _ _ h

theorem rearm_same (c : Cfg) (wf : Nat) : Same c (rearm c wf) := by
  unfold rearm
  split
  · rename_i hst
    split
    · exact ⟨by simp [hst, SObj.label], rfl, rfl⟩
    · exact Same.rfl' c
  · exact Same.rfl' c

theorem wakeL_inv (hF : FG1 F) (l : LCfg) (fn wf : Nat) (w : WF) (h : Inv l.c) : Inv (wakeL F l fn wf w).c := by
  unfold wakeL
  split
  · exact endOfStepL_inv hF _ _ h
  · exact endOfStepL_inv hF _ _ (h.same (rearm_same _ _))
  · exact endOfStepL_inv hF _ _ h
  · exact h

theorem stepBodyKL_inv (hF : FG1 F) (P : Prog) (k : LCfg → LCfg) (hk : ∀ l, Inv l.c → Inv (k l).c) (l : LCfg) (h : Inv l.c) :
    Inv (stepBodyKL F P k l).c := by
  unfold stepBodyKL
  have hs : Inv ({ l with c := { l.c with stepping := true }, executing := true } : LCfg).c := h.same ⟨rfl, rfl, rfl⟩
  dsimp only
  split
  · exact hk _ (endOfStepL_inv hF _ _ hs)
  · split
    · exact hk _ (finishUserL_inv hF _ _ (hs.same ⟨rfl, rfl, rfl⟩))
    · exact hs.same ⟨rfl, rfl, rfl⟩
  · split
    · exact hs.same ⟨rfl, rfl, rfl⟩
    · exact hk _ (wakeL_inv hF _ _ _ _ hs)
    · exact hs
  · exact hk _ (endOfStepL_inv hF _ _ hs)

theorem loopHeadL_inv (hF : FG1 F) (P : Prog) : ∀ (fuel : Nat) (l : LCfg), Inv l.c → Inv (loopHeadL F P fuel l).c
  | 0, _, h => h
  | n+1, l, h => by
    have hb := fun l h => stepBodyKL_inv hF P (loopHeadL F P n) (loopHeadL_inv hF P n) l h
    unfold loopHeadL
    split
    · exact h
    · split
      · exact h.same ⟨rfl, rfl, rfl⟩
      · split
        · exact h.same ⟨rfl, rfl, rfl⟩
        · split
          · split
            · exact h.same ⟨rfl, rfl, rfl⟩
            · exact hb l h
          · exact hb l h

theorem tickStepperL_inv (hF : FG1 F) (P : Prog) (l : LCfg) (h : Inv l.c) : Inv (tickStepperL F P l).c := by
  have hb := fun l h => stepBodyKL_inv hF P (loopHeadL F P fuel0) (loopHeadL_inv hF P fuel0) l h
  unfold tickStepperL
  split
  · exact loopHeadL_inv hF P _ l h
  · split
    · split
      · split
        · exact h.same ⟨rfl, rfl, rfl⟩
        · exact hb l h
      · exact hb l h
    · exact h
  · split
    · exact loopHeadL_inv hF P _ _ (finishUserL_inv hF _ _ h)
    · exact h.same ⟨rfl, rfl, rfl⟩
  · split
    · exact h
    · exact loopHeadL_inv hF P _ _ (wakeL_inv hF _ _ _ _ h)
    · exact h
  · exact h

theorem tickCbL_inv (hF : FG1 F) (l : LCfg) (cb : Cb) (h : Inv l.c) : Inv (tickCbL F l cb).c := by
  unfold tickCbL; split
  · have h1 : Inv (l.upd (fun c => { c with ready := c.ready.erase cb })).c := h.same ⟨rfl, rfl, rfl⟩
    dsimp only
    split
    · exact awaitableDone_inv _ _ h1
    · unfold tryKillingL
      exact (killL_inv hF _ h1).same ⟨rfl, rfl, rfl⟩
    · split
      · exact failL_inv hF _ _ h1
      · exact h1
  · exact h

theorem stepLF_inv (hF : FG1 F) (P : Prog) (l : LCfg) (ev : Ev) (h : Inv l.c) : Inv (stepLF F P l ev).1.c := by
  cases ev <;> simp only [stepLF]
  · exact tickStepperL_inv hF P l h
  · exact tickCbL_inv hF l _ h
  · exact pauseL_inv hF l h
  · exact playL_inv hF l h
  · exact killL_inv hF l h
  · exact resume_inv l.c _ h
  · exact failL_inv hF l _ h
  · exact cancelFut_inv l.c h
  · exact complete_inv l.c _ _ h
  · exact h.same ⟨rfl, rfl, rfl⟩
end

theorem runL_inv (P : Prog) (l0 : LCfg) (evs : List Ev) (h : Inv l0.c) : Inv (runL P l0 evs).c := by
  induction evs generalizing l0 with
  | nil => exact h
  | cons e es ih => exact ih _ (stepLF_inv (fireN_g1 _) P l0 e h)

end L
end PMF
