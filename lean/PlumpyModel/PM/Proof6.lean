import PlumpyModel.PM.Proof2
/-!
# Outcome agreement invariant (C02)

Generated skeleton: the per-function lemmas mirror `Proof1.lean` (same case structure), for the invariant `Inv2`
relating the state label, the process future, the closed flag, the cleanup counter and the terminal notifications.
-/
namespace PMF

def isTermNotif : Notif → Bool
  | .finished => true | .excepted => true | .killed => true | _ => false
def termCount (l : List Notif) : Nat := (l.filter isTermNotif).length

/-- what the future must hold for a terminal state object -/
def outcomeOf : SObj → Option PFut
  | .finished _ _ => some .result
  | .killed => some (.exc .killedErr)
  | .excepted e => some (.exc e)
  | _ => none

structure Inv2 (c : Cfg) : Prop where
  live : terminal c.st.label = false →
    (c.fut = .pending ∨ c.fut = .cancelled) ∧ c.closed = false ∧ c.cleanups = 0 ∧ termCount c.notif = 0
  term : terminal c.st.label = true →
    c.closed = true ∧ c.cleanups = 1 ∧ termCount c.notif = 1 ∧ outcomeOf c.st = some c.fut

/-- `c'` agrees with `c` on everything `Inv2` looks at -/
def Same2 (c c' : Cfg) : Prop :=
  c'.st.label = c.st.label ∧ outcomeOf c'.st = outcomeOf c.st ∧ c'.fut = c.fut ∧ c'.closed = c.closed ∧
  c'.cleanups = c.cleanups ∧ termCount c'.notif = termCount c.notif

theorem Same2.rfl' (c : Cfg) : Same2 c c := ⟨rfl, rfl, rfl, rfl, rfl, rfl⟩
theorem Same2.trans {a b c : Cfg} (h1 : Same2 a b) (h2 : Same2 b c) : Same2 a c :=
  ⟨h2.1.trans h1.1, h2.2.1.trans h1.2.1, h2.2.2.1.trans h1.2.2.1, h2.2.2.2.1.trans h1.2.2.2.1,
   h2.2.2.2.2.1.trans h1.2.2.2.2.1, h2.2.2.2.2.2.trans h1.2.2.2.2.2⟩
theorem Inv2.same2 {c c' : Cfg} (h : Inv2 c) (s : Same2 c c') : Inv2 c' := by
  obtain ⟨s1, s2, s3, s4, s5, s6⟩ := s
  constructor
  · intro hl; rw [s1] at hl; rw [s3, s4, s5, s6]; exact h.live hl
  · intro ht; rw [s1] at ht; rw [s2, s3, s4, s5, s6]; exact h.term ht

theorem inv2_init (nf : Nat) : Inv2 (init nf) := by
  constructor
  · intro _; simp [init, termCount]
  · intro h; simp [init, SObj.label, terminal, allowed] at h

/-! frame lemmas -/
theorem setActionStatus_same2 (c : Cfg) (i s) : Same2 c (setActionStatus c i s) := by
  unfold setActionStatus; split <;> exact ⟨rfl, rfl, rfl, rfl, rfl, rfl⟩
theorem cancelAction_same2 (c : Cfg) (i) : Same2 c (cancelAction c i) := by
  unfold cancelAction; split
  · exact setActionStatus_same2 ..
  · exact Same2.rfl' c
theorem setInterrupt_same2 (c : Cfg) (n) : Same2 c (setInterrupt c n) := by
  unfold setInterrupt
  split
  · exact Same2.trans (cancelAction_same2 c _) ⟨rfl, rfl, rfl, rfl, rfl, rfl⟩
  · exact ⟨rfl, rfl, rfl, rfl, rfl, rfl⟩
theorem setInterruptFromExc_same2 (c : Cfg) (k n) : Same2 c (setInterruptFromExc c k n) := by
  unfold setInterruptFromExc cancelInterrupt
  split
  · exact Same2.trans (cancelAction_same2 c _) ⟨rfl, rfl, rfl, rfl, rfl, rfl⟩
  · exact ⟨rfl, rfl, rfl, rfl, rfl, rfl⟩
theorem hand_same2 (c : Cfg) (i) : Same2 c (hand c i) := by
  unfold hand; split <;> exact ⟨rfl, rfl, rfl, rfl, rfl, rfl⟩
theorem interruptState_same2 (c : Cfg) (k) : Same2 c (interruptState c k) := by
  unfold interruptState; split
  · split <;> exact ⟨rfl, rfl, rfl, rfl, rfl, rfl⟩
  · exact Same2.rfl' c
theorem doPauseHooks_same2 (c : Cfg) : Same2 c (doPauseHooks c) := ⟨rfl, rfl, rfl, rfl, rfl, rfl⟩
theorem deliver_same2 (c : Cfg) (o) : Same2 c (deliver c o) := by
  unfold deliver
  split
  · rename_i fn wf wakeup aw hst
    split
    · exact ⟨rfl, rfl, rfl, rfl, rfl, rfl⟩
    · split
      · exact ⟨by simp [hst, SObj.label], by simp [hst, outcomeOf], rfl, rfl, rfl, rfl⟩
      · exact Same2.rfl' c
    · exact Same2.rfl' c
  · exact Same2.rfl' c

end PMF

namespace PMF

/-- the facts `Inv2` asserts of a live configuration, without reference to the state object -/
def LiveF (c : Cfg) : Prop :=
  (c.fut = .pending ∨ c.fut = .cancelled) ∧ c.closed = false ∧ c.cleanups = 0 ∧ termCount c.notif = 0

theorem LiveF.same2 {c c' : Cfg} (h : LiveF c) (s : Same2 c c') : LiveF c' := by
  obtain ⟨_, _, s3, s4, s5, s6⟩ := s
  unfold LiveF; rw [s3, s4, s5, s6]; exact h

theorem exitState_same2 (c : Cfg) : Same2 c (exitState c) := by
  unfold exitState; split
  · rename_i hst
    dsimp only
    split <;> exact ⟨rfl, rfl, rfl, rfl, rfl, rfl⟩
  · exact Same2.rfl' c

theorem enterState_same2 (c : Cfg) (s : SObj) : Same2 c (enterState c s) := by
  unfold enterState; split
  · rename_i aw
    generalize hc : c = c0
    have : ∀ (l : List (Nat × Nat)) (d : Cfg), Same2 c0 d →
        Same2 c0 (l.foldl (fun c (p : Nat × Nat) =>
          let c := { c with efKeys := p :: c.efKeys }
          match c.efs[p.1]? with
          | some EFut.pending => { c with efCb := c.efCb ++ [p.1] }
          | some _ => { c with ready := c.ready ++ [.adone p.1] }
          | none => c) d) := by
      intro l; induction l with
      | nil => intro d hd; exact hd
      | cons a l ih =>
        intro d hd; simp only [List.foldl]
        apply ih
        split <;> exact Same2.trans hd ⟨rfl, rfl, rfl, rfl, rfl, rfl⟩
    exact this aw c0 (Same2.rfl' c0)
  · exact Same2.rfl' c

theorem releasePause_fields (c : Cfg) : (releasePause c).st = c.st ∧ (releasePause c).fut = c.fut ∧
    (releasePause c).closed = c.closed ∧ (releasePause c).cleanups = c.cleanups ∧ (releasePause c).notif = c.notif := by
  unfold releasePause; split
  · split <;> exact ⟨rfl, rfl, rfl, rfl, rfl⟩
  · exact ⟨rfl, rfl, rfl, rfl, rfl⟩

theorem onTerminated_fields (d : Cfg) (hc : d.closed = false) : (onTerminated d).st = d.st ∧ (onTerminated d).fut = d.fut ∧
    (onTerminated d).closed = true ∧ (onTerminated d).cleanups = d.cleanups + 1 ∧ (onTerminated d).notif = d.notif := by
  obtain ⟨r1, r2, r3, r4, r5⟩ := releasePause_fields d
  have hrc : (releasePause d).closed = false := by rw [r3]; exact hc
  unfold onTerminated onClose
  rw [if_neg (by simp [hrc])]
  exact ⟨r1, r2, rfl, by show (releasePause d).cleanups + 1 = _; rw [r4], r5⟩

theorem termCount_cons (n : Notif) (l : List Notif) :
    termCount (n :: l) = (if isTermNotif n then 1 else 0) + termCount l := by
  unfold termCount
  cases h : isTermNotif n <;> simp [List.filter, h] <;> omega

theorem enteredHooks_fields (d : Cfg) (s : SObj) : (enteredHooks d s).st = d.st ∧ (enteredHooks d s).fut = d.fut ∧
    (enteredHooks d s).closed = d.closed ∧ (enteredHooks d s).cleanups = d.cleanups ∧
    termCount (enteredHooks d s).notif = (if terminal s.label then 1 else 0) + termCount d.notif := by
  unfold enteredHooks
  cases s <;> simp [enteredNotif, SObj.label, termCount_cons, isTermNotif, terminal, allowed] <;> split <;> simp

/-- entering a terminal state `s` whose outcome is already recorded in the future: everything agrees afterwards -/
theorem enter_terminal (d : Cfg) (s : SObj) (hterm : terminal s.label = true) (hf : outcomeOf s = some d.fut)
    (hc : d.closed = false) (hcl : d.cleanups = 0) (hn : termCount d.notif = 0) :
    Inv2 (onTerminated (enteredHooks (setState d s) s)) := by
  obtain ⟨e1, e2, e3, e4, e5⟩ := enteredHooks_fields (setState d s) s
  have hc' : (enteredHooks (setState d s) s).closed = false := by rw [e3]; exact hc
  obtain ⟨t1, t2, t3, t4, t5⟩ := onTerminated_fields _ hc'
  have hst : (onTerminated (enteredHooks (setState d s) s)).st = s := by rw [t1, e1]; rfl
  constructor
  · intro hl; rw [hst, hterm] at hl; cases hl
  · intro _
    refine ⟨t3, ?_, ?_, ?_⟩
    · rw [t4, e4]; simp [setState, hcl]
    · rw [t5, e5, hterm]; simp [setState, hn]
    · rw [hst, t2, e2]; simpa [setState] using hf

theorem setFutExc_fields (c : Cfg) (e : Exc) : (setFutExc c e).fut = .exc e ∧ (setFutExc c e).closed = c.closed ∧
    (setFutExc c e).cleanups = c.cleanups ∧ (setFutExc c e).notif = c.notif ∧ (setFutExc c e).st = c.st := by
  unfold setFutExc; split <;> exact ⟨rfl, rfl, rfl, rfl, rfl⟩

theorem forceExcepted_inv2 (c : Cfg) (e : Exc) (h : LiveF c) : Inv2 (forceExcepted c e) := by
  obtain ⟨_, hc, hcl, hn⟩ := h
  unfold forceExcepted
  simp only [hc, Bool.false_eq_true, if_false]
  obtain ⟨f1, f2, f3, f4, _⟩ := setFutExc_fields c e
  exact enter_terminal (setFutExc c e) (.excepted e) (by simp [SObj.label, terminal, allowed]) (by rw [f1]; rfl) (by rw [f2]; exact hc)
    (by rw [f3]; exact hcl) (by rw [f4]; exact hn)

theorem freshFut_fields (c : Cfg) (hf : c.fut = .pending ∨ c.fut = .cancelled) :
    (freshFutIfCancelled c).fut = .pending ∧ (freshFutIfCancelled c).closed = c.closed ∧
    (freshFutIfCancelled c).cleanups = c.cleanups ∧ (freshFutIfCancelled c).notif = c.notif := by
  unfold freshFutIfCancelled futCancelled
  rcases hf with h | h <;> simp [h]

/-- what the entering hooks guarantee when they succeed on a configuration with an unresolved future -/
theorem enteringHooks_ok (c c2 : Cfg) (s : SObj) (h : enteringHooks c s = .ok c2) (hl : LiveF c) :
    c2.closed = false ∧ c2.cleanups = 0 ∧ termCount c2.notif = 0 ∧
    (terminal s.label = true → outcomeOf s = some c2.fut) ∧
    (terminal s.label = false → (c2.fut = .pending ∨ c2.fut = .cancelled)) := by
  obtain ⟨hf, hc, hcl, hn⟩ := hl
  unfold enteringHooks at h
  split at h
  · obtain ⟨g1, g2, g3, g4⟩ := freshFut_fields c hf
    simp only [g1, if_true] at h
    cases h
    exact ⟨by simpa [g2] using hc, by simpa [g3] using hcl, by simpa [g4] using hn, fun _ => rfl,
      fun ht => by simp [SObj.label, terminal, allowed] at ht⟩
  · obtain ⟨g1, g2, g3, g4⟩ := freshFut_fields c hf
    simp only [g1, if_true] at h
    cases h
    exact ⟨by simpa [g2] using hc, by simpa [g3] using hcl, by simpa [g4] using hn, fun _ => rfl,
      fun ht => by simp [SObj.label, terminal, allowed] at ht⟩
  · cases h
    obtain ⟨f1, f2, f3, f4, _⟩ := setFutExc_fields c ‹Exc›
    exact ⟨by rw [f2]; exact hc, by rw [f3]; exact hcl, by rw [f4]; exact hn, fun _ => by rw [f1]; rfl,
      fun ht => by simp [SObj.label, terminal, allowed] at ht⟩
  · cases h
    rename_i hne1 hne2 hne3
    refine ⟨hc, hcl, hn, fun ht => ?_, fun _ => hf⟩
    cases s <;> simp_all [SObj.label, terminal, allowed]

theorem enterNext_inv2 (d : Cfg) (s : SObj) (hc : d.closed = false) (hcl : d.cleanups = 0) (hn : termCount d.notif = 0)
    (hft : terminal s.label = true → outcomeOf s = some d.fut)
    (hfl : terminal s.label = false → (d.fut = .pending ∨ d.fut = .cancelled)) : Inv2 (enterNext d s) := by
  unfold enterNext
  have he := enterState_same2 d s
  obtain ⟨_, _, s3, s4, s5, s6⟩ := he
  dsimp only
  split
  · rename_i ht
    have ht' : terminal s.label = true := by simpa using ht
    exact enter_terminal (enterState d s) s ht' (by rw [s3]; exact hft ht') (by rw [s4]; exact hc)
      (by rw [s5]; exact hcl) (by rw [s6]; exact hn)
  · rename_i ht
    have ht' : terminal s.label = false := by simpa using ht
    obtain ⟨e1, e2, e3, e4, e5⟩ := enteredHooks_fields (setState (enterState d s) s) s
    have hst : (enteredHooks (setState (enterState d s) s) s).st = s := by rw [e1]; rfl
    constructor
    · intro _
      refine ⟨?_, ?_, ?_, ?_⟩
      · rw [e2]; show (enterState d s).fut = _ ∨ (enterState d s).fut = _; rw [s3]; exact hfl ht'
      · rw [e3]; show (enterState d s).closed = false; rw [s4]; exact hc
      · rw [e4]; show (enterState d s).cleanups = 0; rw [s5]; exact hcl
      · rw [e5, ht']; show 0 + termCount (enterState d s).notif = 0; rw [s6, hn]
    · intro hl; rw [hst, ht'] at hl; cases hl

theorem transitionTo_inv2 (c : Cfg) (s : SObj) (h : Inv2 c) (hl : terminal c.st.label = false) :
    Inv2 (transitionTo c s) := by
  have hlive : LiveF c := h.live hl
  have hnc := hlive.2.1
  unfold transitionTo
  split
  · simp only [hnc, Bool.false_eq_true, if_false]
    have hex := exitState_same2 c
    have hl1 : LiveF (exitState c) := hlive.same2 hex
    split
    · rename_i e _
      exact forceExcepted_inv2 _ e hl1
    · rename_i c2 hok
      obtain ⟨k1, k2, k3, k4, k5⟩ := enteringHooks_ok _ c2 s hok hl1
      exact enterNext_inv2 c2 s k1 k2 k3 k4 k5
  · exact forceExcepted_inv2 _ _ hlive

end PMF

namespace PMF

/-- a step of the model either keeps the invariant-relevant part, or is reached from a live state -/
theorem runAction_inv2 (c : Cfg) (i : Nat) (next : Option SObj) (h : Inv2 c) (hl : terminal c.st.label = false) :
    Inv2 (runAction c i next) := by
  unfold runAction
  split
  · exact h
  · split
    · exact h.same2 ⟨rfl, rfl, rfl, rfl, rfl, rfl⟩
    · split
      · cases next with
        | none => exact (h.same2 (doPauseHooks_same2 c)).same2 (setActionStatus_same2 ..)
        | some s => exact ((transitionTo_inv2 c s h hl).same2 (doPauseHooks_same2 _)).same2 (setActionStatus_same2 ..)
      · exact ((transitionTo_inv2 c .killed h hl).same2 ⟨rfl, rfl, rfl, rfl, rfl, rfl⟩).same2 (setActionStatus_same2 ..)

theorem prepare_same2 (c : Cfg) (r : StepEnd) : Same2 c (prepare c r).1 := by
  unfold prepare
  split
  · exact setInterrupt_same2 ..
  · exact Same2.rfl' c
  · split
    · exact Same2.rfl' c
    · exact setInterruptFromExc_same2 ..
  · exact setInterrupt_same2 ..

theorem dispatch_inv2 (c : Cfg) (next : Option SObj) (h : Inv2 c) : Inv2 (dispatch c next) := by
  unfold dispatch
  split
  · exact h
  · rename_i hl
    have hl' : terminal c.st.label = false := by simpa using hl
    split
    · split
      · exact runAction_inv2 c _ next h hl'
      · cases next with
        | none => exact h
        | some s => exact transitionTo_inv2 c s h hl'
    · cases next with
      | none => exact h
      | some s => exact transitionTo_inv2 c s h hl'

theorem finally_same2 (c : Cfg) : Same2 c (finally_ c) :=
  Same2.trans (⟨rfl, rfl, rfl, rfl, rfl, rfl⟩ : Same2 c { c with stepping := false }) (setInterrupt_same2 _ _)

theorem endOfStep_inv2 (c : Cfg) (r : StepEnd) (h : Inv2 c) : Inv2 (endOfStep c r) := by
  unfold endOfStep
  exact (dispatch_inv2 _ _ (h.same2 (prepare_same2 c r))).same2 (finally_same2 _)

theorem cmdToState_same2 (c : Cfg) (cmd : Cmd) : Same2 c (cmdToState c cmd).1 := by
  unfold cmdToState; split <;> exact ⟨rfl, rfl, rfl, rfl, rfl, rfl⟩

theorem finishUser_inv2 (c : Cfg) (o : Outcome) (h : Inv2 c) : Inv2 (finishUser c o) := by
  unfold finishUser
  split
  · exact endOfStep_inv2 _ _ (h.same2 (cmdToState_same2 ..))
  · exact endOfStep_inv2 _ _ h

theorem wake_inv2 (c : Cfg) (fn wf : Nat) (w : WF) (h : Inv2 c) : Inv2 (wake c fn wf w) := by
  unfold wake
  split
  · exact endOfStep_inv2 _ _ h
  · apply endOfStep_inv2
    split
    · rename_i f wf' wakeup aw hst
      split
      · exact h.same2 ⟨by simp [hst, SObj.label], by simp [hst, outcomeOf], rfl, rfl, rfl, rfl⟩
      · exact h
    · exact h
  · exact endOfStep_inv2 _ _ h
  · exact h

theorem stepBody_of_loopHead2 (P : Prog) (n : Nat) (hL : ∀ c, Inv2 c → Inv2 (loopHead P n c)) :
    ∀ c, Inv2 c → Inv2 (stepBody P n c) := by
  intro c h
  unfold stepBody stepBodyK
  have hs : Inv2 { c with stepping := true } := h.same2 ⟨rfl, rfl, rfl, rfl, rfl, rfl⟩
  dsimp only
  split
  · exact hL _ (endOfStep_inv2 _ _ hs)
  · split
    · exact hL _ (finishUser_inv2 _ _ (hs.same2 ⟨rfl, rfl, rfl, rfl, rfl, rfl⟩))
    · exact hs.same2 ⟨rfl, rfl, rfl, rfl, rfl, rfl⟩
  · split
    · exact hs.same2 ⟨rfl, rfl, rfl, rfl, rfl, rfl⟩
    · exact hL _ (wake_inv2 _ _ _ _ hs)
    · exact hs
  · exact hL _ (endOfStep_inv2 _ _ hs)

theorem loopHead_inv2 (P : Prog) : ∀ (fuel : Nat) (c : Cfg), Inv2 c → Inv2 (loopHead P fuel c) := by
  intro fuel
  induction fuel with
  | zero => intro c h; simpa [loopHead] using h
  | succ n ih =>
    intro c h
    have hb := stepBody_of_loopHead2 P n ih
    unfold loopHead
    split
    · exact h
    · split
      · exact h.same2 ⟨rfl, rfl, rfl, rfl, rfl, rfl⟩
      · split
        · exact h.same2 ⟨rfl, rfl, rfl, rfl, rfl, rfl⟩
        · split
          · split
            · exact h.same2 ⟨rfl, rfl, rfl, rfl, rfl, rfl⟩
            · exact hb c h
          · exact hb c h

theorem stepBody_inv2 (P : Prog) (fuel : Nat) (c : Cfg) (h : Inv2 c) : Inv2 (stepBody P fuel c) :=
  stepBody_of_loopHead2 P fuel (loopHead_inv2 P fuel) c h

theorem tickStepper_inv2 (P : Prog) (c : Cfg) (h : Inv2 c) : Inv2 (tickStepper P c) := by
  unfold tickStepper
  split
  · exact loopHead_inv2 P _ c h
  · split
    · split
      · split
        · exact h.same2 ⟨rfl, rfl, rfl, rfl, rfl, rfl⟩
        · exact stepBody_inv2 P _ c h
      · exact stepBody_inv2 P _ c h
    · exact h
  · split
    · exact loopHead_inv2 P _ _ (finishUser_inv2 _ _ h)
    · exact h.same2 ⟨rfl, rfl, rfl, rfl, rfl, rfl⟩
  · split
    · exact h
    · exact loopHead_inv2 P _ _ (wake_inv2 _ _ _ _ h)
    · exact h
  · exact h

end PMF

namespace PMF

theorem requestInterrupt_same2 (c : Cfg) (k) : Same2 c (requestInterrupt c k) := by
  unfold requestInterrupt
  exact Same2.trans (Same2.trans (⟨rfl, rfl, rfl, rfl, rfl, rfl⟩ : Same2 c { c with nextCookie := c.nextCookie + 1 })
    (setInterruptFromExc_same2 ..)) (interruptState_same2 ..)

theorem pause_inv2 (c : Cfg) (h : Inv2 c) : Inv2 (pause c).1 := by
  unfold pause
  split
  · exact h
  · split
    · exact h
    · split
      · exact h.same2 (hand_same2 ..)
      · split
        · exact h
        · split
          · dsimp only
            have hs : Same2 c { requestInterrupt c .pause with pausing := (requestInterrupt c .pause).interrupt } :=
              Same2.trans (requestInterrupt_same2 c .pause) ⟨rfl, rfl, rfl, rfl, rfl, rfl⟩
            split
            · exact (h.same2 hs).same2 (hand_same2 ..)
            · exact h.same2 hs
          · exact h.same2 (doPauseHooks_same2 c)

theorem play_inv2 (c : Cfg) (h : Inv2 c) : Inv2 (play c).1 := by
  unfold play
  split
  · split
    · exact (h.same2 (cancelAction_same2 ..)).same2 ⟨rfl, rfl, rfl, rfl, rfl, rfl⟩
    · exact h
  · dsimp only
    split <;> exact h.same2 ⟨rfl, rfl, rfl, rfl, rfl, rfl⟩

theorem kill_inv2 (c : Cfg) (h : Inv2 c) : Inv2 (kill c).1 := by
  unfold kill
  split
  · exact h
  · split
    · exact h
    · rename_i hnk hnt
      have hl : terminal c.st.label = false := by simpa using hnt
      split
      · exact h.same2 (hand_same2 ..)
      · split
        · dsimp only
          have hs : Same2 c { requestInterrupt c .kill with killing := (requestInterrupt c .kill).interrupt } :=
            Same2.trans (requestInterrupt_same2 c .kill) ⟨rfl, rfl, rfl, rfl, rfl, rfl⟩
          split
          · exact (h.same2 hs).same2 (hand_same2 ..)
          · exact h.same2 hs
        · exact transitionTo_inv2 c .killed h hl

theorem resume_inv2 (c : Cfg) (v) (h : Inv2 c) : Inv2 (resume c v).1 := by
  unfold resume; split
  · exact h.same2 (deliver_same2 ..)
  · exact h

theorem fail_inv2 (c : Cfg) (e) (h : Inv2 c) : Inv2 (fail c e).1 := by
  unfold fail; split
  · exact h
  · rename_i hnt
    exact transitionTo_inv2 c _ h (by simpa using hnt)

theorem cancelFut_inv2 (c : Cfg) (h : Inv2 c) : Inv2 (cancelFut c).1 := by
  unfold cancelFut; split
  · rename_i hp
    -- the future is pending, hence the process is live (a terminal process has its outcome in the future)
    have hl : terminal c.st.label = false := by
      cases ht : terminal c.st.label with
      | false => rfl
      | true =>
        have := (h.term ht).2.2.2
        rw [hp] at this
        cases hs : c.st <;> simp [hs, outcomeOf] at this
    obtain ⟨_, l2, l3, l4⟩ := h.live hl
    constructor
    · intro _; exact ⟨Or.inr rfl, l2, l3, l4⟩
    · intro ht; rw [show terminal c.st.label = false from hl] at ht; cases ht
  · exact h

theorem complete_inv2 (c : Cfg) (f o) (h : Inv2 c) : Inv2 (complete c f o) := by
  unfold complete; split
  · dsimp only; split <;> exact h.same2 ⟨rfl, rfl, rfl, rfl, rfl, rfl⟩
  · exact h

theorem awaitableDone_inv2 (c : Cfg) (f) (h : Inv2 c) : Inv2 (awaitableDone c f) := by
  unfold awaitableDone
  have hold : ∀ d : Cfg, Inv2 d → Inv2 (match d.efKeys.find? (·.1 = f), d.efs[f]? with
      | some (_, key), some (EFut.result v) => { d with ctx := (key, v) :: d.ctx.filter (·.1 ≠ key) }
      | _, _ => d) := by
    intro d hd; split
    · exact hd.same2 ⟨rfl, rfl, rfl, rfl, rfl, rfl⟩
    · exact hd
  dsimp only
  split
  · rename_i fn wf wakeup aw hst
    split
    · exact hold c h
    · have h1 : Inv2 { c with st := .waiting fn wf wakeup (aw.filter (·.1 ≠ f)) } :=
        h.same2 ⟨by simp [hst, SObj.label], by simp [hst, outcomeOf], rfl, rfl, rfl, rfl⟩
      split
      · split
        · exact (h1.same2 ⟨rfl, rfl, rfl, rfl, rfl, rfl⟩).same2 (deliver_same2 ..)
        · exact h1.same2 ⟨rfl, rfl, rfl, rfl, rfl, rfl⟩
      · exact h1.same2 (deliver_same2 ..)
      · exact h1
  · exact hold c h

theorem tickCb_inv2 (c : Cfg) (cb) (h : Inv2 c) : Inv2 (tickCb c cb) := by
  unfold tickCb; split
  · have h1 : Inv2 { c with ready := c.ready.erase cb } := h.same2 ⟨rfl, rfl, rfl, rfl, rfl, rfl⟩
    split
    · exact awaitableDone_inv2 _ _ h1
    · exact (kill_inv2 _ h1).same2 ⟨rfl, rfl, rfl, rfl, rfl, rfl⟩
    · split
      · exact fail_inv2 _ _ h1
      · exact h1
  · exact h

/-- every event preserves the lifecycle invariant -/
theorem step_inv2 (P : Prog) (c : Cfg) (ev : Ev) (h : Inv2 c) : Inv2 (step P c ev).1 := by
  cases ev <;> simp only [step]
  · exact tickStepper_inv2 P c h
  · exact tickCb_inv2 c _ h
  · exact pause_inv2 c h
  · exact play_inv2 c h
  · exact kill_inv2 c h
  · exact resume_inv2 c _ h
  · exact fail_inv2 c _ h
  · exact cancelFut_inv2 c h
  · exact complete_inv2 c _ _ h
  · exact h.same2 ⟨rfl, rfl, rfl, rfl, rfl, rfl⟩

theorem run_inv2 (P : Prog) (c0 : Cfg) (evs : List Ev) (h : Inv2 c0) : Inv2 (run P c0 evs) := by
  induction evs generalizing c0 with
  | nil => exact h
  | cons e es ih => exact ih _ (step_inv2 P c0 e h)


end PMF
