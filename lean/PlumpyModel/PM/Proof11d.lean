import PlumpyModel.PM.Proof11c
import PlumpyModel.Props.C13
/-!
# C06 at the level of histories, part 4: the trace of user calls only grows, and one tick delivers a held outcome
-/
namespace PMF.H6
open PMF

/-! ### the trace of user calls: untouched by everything but the activation of a RUNNING state's function -/

theorem runAction_trace (c : Cfg) (i : Nat) (next : Option SObj) : (runAction c i next).trace = c.trace := by
  unfold runAction
  split
  · rfl
  · split
    · rfl
    · split
      · cases next with
        | none => exact (setActionStatus_rest (doPauseHooks c) i .done).1.trace
        | some s =>
          exact ((setActionStatus_rest (doPauseHooks (transitionTo c s)) i .done).1.trace).trans (transitionTo_core c s).trace
      · exact ((setActionStatus_rest { transitionTo c .killed with killing := none } i .done).1.trace).trans
          (transitionTo_core c .killed).trace

theorem dispatch_trace (c : Cfg) (next : Option SObj) : (dispatch c next).trace = c.trace := by
  unfold dispatch
  split
  · rfl
  · split
    · split
      · exact runAction_trace ..
      · cases next with
        | none => rfl
        | some s => exact (transitionTo_core c s).trace
    · cases next with
      | none => rfl
      | some s => exact (transitionTo_core c s).trace

theorem endOfStep_trace (c : Cfg) (r : StepEnd) : (endOfStep c r).trace = c.trace := by
  unfold endOfStep
  exact ((finally_rest _).1.trace.trans (dispatch_trace _ _)).trans (prepare_rest c r).trace

theorem finishUser_trace (c : Cfg) (o : Outcome) : (finishUser c o).trace = c.trace := by
  unfold finishUser
  split
  · rename_i cmd
    exact (endOfStep_trace _ _).trans (cmdToState_sameP c cmd).2.1
  · exact endOfStep_trace _ _

theorem wake_trace (c : Cfg) (fn wf : Nat) (w : WF) : (wake c fn wf w).trace = c.trace := by
  unfold wake
  split
  · exact endOfStep_trace _ _
  · refine (endOfStep_trace _ _).trans ?_
    split
    · split <;> rfl
    · rfl
  · exact endOfStep_trace _ _
  · rfl

/-- `d`'s trace extends `c`'s (newest first) -/
structure TrExt (c d : Cfg) : Prop where
  ext : ∃ extra, d.trace = extra ++ c.trace

theorem TrExt.rfl' (c : Cfg) : TrExt c c := ⟨[], rfl⟩
theorem TrExt.of_eq {c d : Cfg} (h : d.trace = c.trace) : TrExt c d := ⟨[], h⟩
theorem TrExt.trans {a b c : Cfg} (h1 : TrExt a b) (h2 : TrExt b c) : TrExt a c := by
  obtain ⟨x, hx⟩ := h1.ext; obtain ⟨y, hy⟩ := h2.ext
  exact ⟨y ++ x, by rw [hy, hx, List.append_assoc]⟩

theorem stepBodyK_trext (P : Prog) (k : Cfg → Cfg) (hk : ∀ d, TrExt d (k d)) (c : Cfg) : TrExt c (stepBodyK P k c) := by
  have hS : TrExt c { c with stepping := true } := ⟨[], rfl⟩
  unfold stepBodyK
  dsimp only
  split
  · exact TrExt.trans hS (TrExt.trans (TrExt.of_eq (endOfStep_trace _ _)) (hk _))
  · rename_i fn args kw hst
    have hc' : TrExt c { { c with stepping := true } with
        trace := { fn := fn, args := args, kw := kw, paused := c.paused.isSome } :: c.trace } :=
      ⟨[{ fn := fn, args := args, kw := kw, paused := c.paused.isSome }], rfl⟩
    split
    · exact TrExt.trans hc' (TrExt.trans (TrExt.of_eq (finishUser_trace _ _)) (hk _))
    · exact ⟨[{ fn := fn, args := args, kw := kw, paused := c.paused.isSome }], rfl⟩
  · split
    · exact TrExt.of_eq rfl
    · exact TrExt.trans hS (TrExt.trans (TrExt.of_eq (wake_trace _ _ _ _)) (hk _))
    · exact TrExt.of_eq rfl
  · exact TrExt.trans hS (TrExt.trans (TrExt.of_eq (endOfStep_trace _ _)) (hk _))

theorem loopHead_trext (P : Prog) : ∀ (fuel : Nat) (c : Cfg), TrExt c (loopHead P fuel c) := by
  intro fuel
  induction fuel with
  | zero => intro c; exact TrExt.rfl' c
  | succ n ih =>
    intro c
    unfold loopHead
    split
    · exact TrExt.rfl' c
    · split
      · exact TrExt.of_eq rfl
      · split
        · exact TrExt.of_eq rfl
        · split
          · split
            · exact TrExt.of_eq rfl
            · exact stepBodyK_trext P _ ih c
          · exact stepBodyK_trext P _ ih c

theorem tickStepper_trext (P : Prog) (c : Cfg) : TrExt c (tickStepper P c) := by
  unfold tickStepper
  split
  · exact loopHead_trext P _ c
  · split
    · split
      · split
        · exact TrExt.of_eq rfl
        · exact stepBodyK_trext P _ (loopHead_trext P _) c
      · exact stepBodyK_trext P _ (loopHead_trext P _) c
    · exact TrExt.rfl' c
  · split
    · exact TrExt.trans (TrExt.of_eq (finishUser_trace _ _)) (loopHead_trext P _ _)
    · exact TrExt.of_eq rfl
  · split
    · exact TrExt.rfl' c
    · exact TrExt.trans (TrExt.of_eq (wake_trace _ _ _ _)) (loopHead_trext P _ _)
    · exact TrExt.rfl' c
  · exact TrExt.rfl' c

theorem pause_trace (c : Cfg) : (pause c).1.trace = c.trace := by
  unfold pause
  split
  · rfl
  · split
    · rfl
    · split
      · exact (hand_sameP ..).2.1
      · split
        · rfl
        · split
          · dsimp only
            split
            · exact ((hand_sameP ..).2.1).trans (requestInterrupt_sameP c .pause).2.1
            · exact (requestInterrupt_sameP c .pause).2.1
          · rfl

theorem play_trace (c : Cfg) : (play c).1.trace = c.trace := by
  unfold play
  split
  · split
    · exact (cancelAction_rest ..).1.trace
    · rfl
  · dsimp only; split <;> rfl

theorem kill_trace (c : Cfg) : (kill c).1.trace = c.trace := by
  unfold kill
  split
  · rfl
  · split
    · rfl
    · split
      · exact (hand_sameP ..).2.1
      · split
        · dsimp only
          split
          · exact ((hand_sameP ..).2.1).trans (requestInterrupt_sameP c .kill).2.1
          · exact (requestInterrupt_sameP c .kill).2.1
        · exact (transitionTo_core c .killed).trace

theorem fail_trace (c : Cfg) (e) : (fail c e).1.trace = c.trace := by
  unfold fail; split
  · rfl
  · exact (transitionTo_core c _).trace

theorem resume_trace (c : Cfg) (v) : (resume c v).1.trace = c.trace := by
  unfold resume; split
  · exact (deliver_sameP ..).2.1
  · rfl

theorem awaitableDone_trace (c : Cfg) (f) : (awaitableDone c f).trace = c.trace := by
  unfold awaitableDone
  have hold : ∀ d : Cfg, (match d.efKeys.find? (fun (p : Nat × Nat) => decide (p.1 = f)), d.efs[f]? with
      | some (_, key), some (EFut.result v) =>
          ({ d with ctx := (key, v) :: d.ctx.filter (fun (p : Nat × Val) => decide (p.1 ≠ key)) } : Cfg)
      | _, _ => d).trace = d.trace := by
    intro d; split <;> rfl
  dsimp only
  split
  · split
    · exact hold c
    · split
      · split
        · exact (deliver_sameP ..).2.1
        · rfl
      · exact (deliver_sameP ..).2.1
      · rfl
  · exact hold c

theorem tickCb_trace (c : Cfg) (cb) : (tickCb c cb).trace = c.trace := by
  unfold tickCb; split
  · split
    · exact awaitableDone_trace _ _
    · exact kill_trace _
    · split
      · exact fail_trace _ _
      · rfl
  · rfl

/-- only a tick of the stepping task can add to the trace of user calls, and it only ever adds -/
theorem step_trext (P : Prog) (c : Cfg) (ev : Ev) : TrExt c (step P c ev).1 := by
  cases ev <;> simp only [step]
  · exact tickStepper_trext P c
  · exact TrExt.of_eq (tickCb_trace c _)
  · exact TrExt.of_eq (pause_trace c)
  · exact TrExt.of_eq (play_trace c)
  · exact TrExt.of_eq (kill_trace c)
  · exact TrExt.of_eq (resume_trace c _)
  · exact TrExt.of_eq (fail_trace c _)
  · unfold cancelFut; split <;> exact TrExt.of_eq rfl
  · unfold complete; split
    · dsimp only; split <;> exact TrExt.of_eq rfl
    · exact TrExt.of_eq rfl
  · exact TrExt.of_eq rfl

theorem run_trext (P : Prog) (c : Cfg) (evs : List Ev) : TrExt c (run P c evs) := by
  induction evs generalizing c with
  | nil => exact TrExt.rfl' c
  | cons e es ih => exact TrExt.trans (step_trext P c e) (ih _)

end PMF.H6
