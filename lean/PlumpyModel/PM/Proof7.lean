import PlumpyModel.PM.Proof5
/-!
# No stale `_killing` (C04: from every reachable live configuration a further kill() still terminates the process)

`Kn c c'`: if no kill was pending in `c` then none is pending in `c'` — every function of the model except `kill()`
itself keeps it.  Together with `step_committed` this gives the invariant `KillingOk`: whenever `_killing` is set, the
process is KILLED / EXCEPTED or that very action is the pending interrupt action of the step in flight.
-/
namespace PMF

structure Kn (c c' : Cfg) : Prop where
  imp : c.killing = none → c'.killing = none
theorem Kn.rfl' (c : Cfg) : Kn c c := ⟨fun h => h⟩
theorem Kn.trans {a b c : Cfg} (h1 : Kn a b) (h2 : Kn b c) : Kn a c := ⟨fun h => h2.imp (h1.imp h)⟩
theorem Kn.of_eq {c c' : Cfg} (h : c'.killing = c.killing) : Kn c c' := ⟨fun g => by rw [h]; exact g⟩

theorem setActionStatus_kn (c : Cfg) (i s) : Kn c (setActionStatus c i s) := by
  unfold setActionStatus; split <;> exact Kn.of_eq rfl
theorem cancelAction_kn (c : Cfg) (i) : Kn c (cancelAction c i) := by
  unfold cancelAction; split
  · exact setActionStatus_kn ..
  · exact Kn.rfl' c
theorem setInterrupt_kn (c : Cfg) (n) : Kn c (setInterrupt c n) := by
  unfold setInterrupt; split
  · exact Kn.trans (cancelAction_kn c _) (Kn.of_eq rfl)
  · exact Kn.of_eq rfl
theorem append_kn (c : Cfg) (a : Action) (n : Option Nat) :
    Kn c { c with actions := c.actions ++ [a], interrupt := n } := Kn.of_eq rfl
theorem setInterruptFromExc_kn (c : Cfg) (k n) : Kn c (setInterruptFromExc c k n) := by
  unfold setInterruptFromExc cancelInterrupt
  split
  · exact Kn.trans (cancelAction_kn c _) (append_kn _ _ _)
  · exact append_kn _ _ _
theorem hand_kn (c : Cfg) (i) : Kn c (hand c i) := by
  unfold hand; split <;> exact Kn.of_eq rfl
theorem interruptState_kn (c : Cfg) (k) : Kn c (interruptState c k) := by
  unfold interruptState; split
  · split <;> exact Kn.of_eq rfl
  · exact Kn.rfl' c
theorem doPauseHooks_kn (c : Cfg) : Kn c (doPauseHooks c) := Kn.of_eq rfl
theorem deliver_kn (c : Cfg) (o) : Kn c (deliver c o) := by
  have := deliver_keep c o; exact Kn.of_eq this.2.1
theorem exitState_kn (c : Cfg) : Kn c (exitState c) := by
  unfold exitState; split
  · split <;> exact Kn.of_eq rfl
  · exact Kn.rfl' c
theorem setFutExc_kn (c : Cfg) (e) : Kn c (setFutExc c e) := by
  unfold setFutExc; split <;> exact Kn.of_eq rfl
theorem freshFut_kn (c : Cfg) : Kn c (freshFutIfCancelled c) := by
  unfold freshFutIfCancelled; split <;> exact Kn.of_eq rfl
theorem enteringHooks_kn (c c2 : Cfg) (s : SObj) (h : enteringHooks c s = .ok c2) : Kn c c2 := by
  unfold enteringHooks at h
  split at h
  · dsimp only at h
    split at h
    · cases h; exact Kn.trans (freshFut_kn c) (Kn.of_eq rfl)
    · cases h
  · dsimp only at h
    split at h
    · cases h; exact Kn.trans (freshFut_kn c) (Kn.of_eq rfl)
    · cases h
  · cases h; exact setFutExc_kn c _
  · cases h; exact Kn.rfl' c
theorem enterState_kn (c : Cfg) (s : SObj) : Kn c (enterState c s) := by
  unfold enterState; split
  · rename_i aw
    have : ∀ (l : List (Nat × Nat)) (d : Cfg), Kn c d →
        Kn c (l.foldl (fun c (p : Nat × Nat) =>
          let c := { c with efKeys := p :: c.efKeys }
          match c.efs[p.1]? with
          | some EFut.pending => { c with efCb := c.efCb ++ [p.1] }
          | some _ => { c with ready := c.ready ++ [.adone p.1] }
          | none => c) d) := by
      intro l; induction l with
      | nil => intro d hd; exact hd
      | cons a l ih =>
        intro d hd; simp only [List.foldl]
        apply ih
        split <;> exact Kn.trans hd (Kn.of_eq rfl)
    exact this aw c (Kn.rfl' c)
  · exact Kn.rfl' c
theorem enteredHooks_kn (c : Cfg) (s : SObj) : Kn c (enteredHooks c s) := by
  unfold enteredHooks; split <;> split <;> constructor <;> intro h <;> first | exact h | rfl
theorem setState_kn (c : Cfg) (s : SObj) : Kn c (setState c s) := Kn.of_eq rfl
theorem onClose_kn (c : Cfg) : Kn c (onClose c) := by
  unfold onClose; split <;> exact Kn.of_eq rfl
theorem releasePause_kn (c : Cfg) : Kn c (releasePause c) := by
  unfold releasePause; split
  · split <;> exact Kn.of_eq rfl
  · exact Kn.rfl' c
theorem onTerminated_kn (c : Cfg) : Kn c (onTerminated c) := by
  unfold onTerminated
  exact Kn.trans (releasePause_kn c) (onClose_kn _)
theorem forceExcepted_kn (c : Cfg) (e) : Kn c (forceExcepted c e) := by
  unfold forceExcepted; split
  · exact Kn.of_eq rfl
  · exact Kn.trans (Kn.trans (Kn.trans (setFutExc_kn c e) (setState_kn _ _)) (enteredHooks_kn _ _))
      (onTerminated_kn _)
theorem enterNext_kn (c : Cfg) (s) : Kn c (enterNext c s) := by
  unfold enterNext; dsimp only
  have h := Kn.trans (Kn.trans (enterState_kn c s) (setState_kn _ s)) (enteredHooks_kn _ s)
  split
  · exact Kn.trans h (onTerminated_kn _)
  · exact h
theorem transitionTo_kn (c : Cfg) (s) : Kn c (transitionTo c s) := by
  unfold transitionTo
  split
  · dsimp only
    split
    · exact Kn.trans (exitState_kn c) (Kn.of_eq rfl)
    · split
      · exact Kn.trans (exitState_kn c) (forceExcepted_kn _ _)
      · rename_i c2 hok
        exact Kn.trans (Kn.trans (exitState_kn c) (enteringHooks_kn _ _ _ hok)) (enterNext_kn _ _)
  · exact forceExcepted_kn _ _


theorem Kn.step {c d e : Cfg} (h1 : Kn c d) (hk : e.killing = d.killing) : Kn c e :=
  Kn.trans h1 (Kn.of_eq hk)

theorem runAction_kn (c : Cfg) (i next) : Kn c (runAction c i next) := by
  unfold runAction
  split
  · exact Kn.rfl' c
  · split
    · exact Kn.of_eq rfl
    · split
      · cases next with
        | none => exact Kn.trans (doPauseHooks_kn c) (setActionStatus_kn ..)
        | some s => exact Kn.trans (Kn.trans (transitionTo_kn c s) (doPauseHooks_kn _)) (setActionStatus_kn ..)
      · dsimp only
        refine Kn.trans ?_ (setActionStatus_kn ..)
        exact ⟨fun _ => rfl⟩
theorem prepare_kn (c : Cfg) (r) : Kn c (prepare c r).1 := by
  unfold prepare
  split
  · exact setInterrupt_kn ..
  · exact Kn.rfl' c
  · split
    · exact Kn.rfl' c
    · exact setInterruptFromExc_kn ..
  · exact setInterrupt_kn ..
theorem dispatch_kn (c : Cfg) (next) : Kn c (dispatch c next) := by
  unfold dispatch
  split
  · exact Kn.rfl' c
  · split
    · split
      · exact runAction_kn ..
      · cases next with
        | none => exact Kn.rfl' c
        | some s => exact transitionTo_kn c s
    · cases next with
      | none => exact Kn.rfl' c
      | some s => exact transitionTo_kn c s
theorem finally_kn (c : Cfg) : Kn c (finally_ c) := by
  unfold finally_
  exact Kn.trans (Kn.of_eq rfl : Kn c { c with stepping := false }) (setInterrupt_kn _ _)
theorem endOfStep_kn (c : Cfg) (r) : Kn c (endOfStep c r) := by
  unfold endOfStep
  exact Kn.trans (Kn.trans (prepare_kn c r) (dispatch_kn _ _)) (finally_kn _)
theorem cmdToState_kn (c : Cfg) (cmd : Cmd) : Kn c (cmdToState c cmd).1 := by
  have h := cmdToState_keep c cmd
  exact Kn.of_eq h.2.1
theorem finishUser_kn (c : Cfg) (o) : Kn c (finishUser c o) := by
  unfold finishUser
  split
  · exact Kn.trans (cmdToState_kn c _) (endOfStep_kn _ _)
  · exact endOfStep_kn _ _
theorem wake_kn (c : Cfg) (fn wf w) : Kn c (wake c fn wf w) := by
  unfold wake
  split
  · exact endOfStep_kn _ _
  · refine Kn.trans ?_ (endOfStep_kn _ _)
    split
    · split
      · exact Kn.of_eq rfl
      · exact Kn.rfl' c
    · exact Kn.rfl' c
  · exact endOfStep_kn _ _
  · exact Kn.rfl' c
theorem stepBodyK_kn (P : Prog) (k : Cfg → Cfg) (hk : ∀ d, Kn d (k d)) (c : Cfg) : Kn c (stepBodyK P k c) := by
  unfold stepBodyK
  have hs : Kn c { c with stepping := true } := Kn.of_eq rfl
  dsimp only
  split
  · exact Kn.trans (Kn.trans hs (endOfStep_kn _ _)) (hk _)
  · split
    · refine Kn.trans (Kn.trans ?_ (finishUser_kn _ _)) (hk _)
      exact Kn.step hs rfl
    · exact Kn.step hs rfl
  · split
    · exact Kn.step hs rfl
    · exact Kn.trans (Kn.trans hs (wake_kn _ _ _ _)) (hk _)
    · exact hs
  · exact Kn.trans (Kn.trans hs (endOfStep_kn _ _)) (hk _)
theorem loopHead_kn (P : Prog) : ∀ (fuel : Nat) (c : Cfg), Kn c (loopHead P fuel c) := by
  intro fuel
  induction fuel with
  | zero => intro c; simp [loopHead]; exact Kn.rfl' c
  | succ n ih =>
    intro c
    unfold loopHead
    split
    · exact Kn.rfl' c
    · split
      · exact Kn.of_eq rfl
      · split
        · exact Kn.of_eq rfl
        · split
          · split
            · exact Kn.of_eq rfl
            · exact stepBodyK_kn P _ ih c
          · exact stepBodyK_kn P _ ih c
theorem tickStepper_kn (P : Prog) (c : Cfg) : Kn c (tickStepper P c) := by
  have hb : ∀ d, Kn d (stepBody P fuel0 d) := fun d => stepBodyK_kn P _ (loopHead_kn P fuel0) d
  unfold tickStepper
  split
  · exact loopHead_kn P _ c
  · split
    · split
      · split
        · exact Kn.of_eq rfl
        · exact hb c
      · exact hb c
    · exact Kn.rfl' c
  · split
    · exact Kn.trans (finishUser_kn _ _) (loopHead_kn P _ _)
    · exact Kn.of_eq rfl
  · split
    · exact Kn.rfl' c
    · exact Kn.trans (wake_kn _ _ _ _) (loopHead_kn P _ _)
    · exact Kn.rfl' c
  · exact Kn.rfl' c

theorem requestInterrupt_kn (c : Cfg) (k) : Kn c (requestInterrupt c k) := by
  unfold requestInterrupt
  exact Kn.trans (Kn.trans (Kn.of_eq rfl : Kn c { c with nextCookie := c.nextCookie + 1 })
    (setInterruptFromExc_kn ..)) (interruptState_kn ..)

theorem play_kn (c : Cfg) : Kn c (play c).1 := by
  unfold play
  split
  · split
    · rename_i i _
      exact Kn.trans (cancelAction_kn c i) (Kn.of_eq rfl)
    · exact Kn.rfl' c
  · dsimp only; split <;> exact Kn.of_eq rfl



theorem awaitableDone_kn (c : Cfg) (f) : Kn c (awaitableDone c f) := by
  have h := awaitableDone_keep c f
  exact Kn.of_eq h.2.1

theorem pause_kn (c : Cfg) : Kn c (pause c).1 := by
  unfold pause
  split
  · exact Kn.rfl' c
  · split
    · exact Kn.rfl' c
    · split
      · exact hand_kn ..
      · split
        · exact Kn.rfl' c
        · split
          · dsimp only
            have hs : Kn c { requestInterrupt c .pause with pausing := (requestInterrupt c .pause).interrupt } :=
              Kn.step (requestInterrupt_kn c .pause) rfl
            split
            · exact Kn.trans hs (hand_kn ..)
            · exact hs
          · exact doPauseHooks_kn c

theorem fail_kn (c : Cfg) (e : Exc) : Kn c (fail c e).1 := by
  unfold fail; split
  · exact Kn.rfl' c
  · exact transitionTo_kn ..

/-- every event other than a kill request (direct or through the cancelled future) keeps "no kill pending" -/
theorem step_kn (P : Prog) (c : Cfg) (ev : Ev) (h1 : ev ≠ .kill) (h2 : ev ≠ .tickCb .trykill) : Kn c (step P c ev).1 := by
  cases ev <;> simp only [step]
  · exact tickStepper_kn P c
  · rename_i cb
    unfold tickCb; split
    · have h0 : Kn c { c with ready := c.ready.erase cb } := Kn.of_eq rfl
      split
      · exact Kn.trans h0 (awaitableDone_kn ..)
      · exact absurd rfl h2
      · split
        · exact Kn.trans h0 (fail_kn ..)
        · exact h0
    · exact Kn.rfl' c
  · exact pause_kn c
  · exact play_kn c
  · exact absurd rfl h1
  · unfold resume; split
    · exact deliver_kn ..
    · exact Kn.rfl' c
  · exact fail_kn ..
  · unfold cancelFut; split
    · exact Kn.of_eq rfl
    · exact Kn.rfl' c
  · unfold complete; split
    · dsimp only; split <;> exact Kn.of_eq rfl
    · exact Kn.rfl' c
  · exact Kn.of_eq rfl

theorem hand_killing (c : Cfg) (i : Nat) : (hand c i).killing = c.killing := by
  unfold hand; split <;> rfl

/-- what `kill()` leaves in `_killing` when no kill was pending: nothing, or exactly the action it hands back -/
theorem kill_killing (c : Cfg) (hnk : c.killing = none) (j : Nat) (hj : (kill c).1.killing = some j) :
    terminal c.st.label = false ∧ (kill c).2 = .action j := by
  by_cases hkl : c.st.label = .killed
  · have : kill c = (c, .bool true) := by unfold kill; simp [hkl]
    rw [this, hnk] at hj; cases hj
  · cases hl : terminal c.st.label with
    | true =>
      have : kill c = (c, .bool false) := by unfold kill; simp [hkl, hl]
      rw [this, hnk] at hj; cases hj
    | false =>
      refine ⟨rfl, ?_⟩
      have hn := requestInterrupt_new c .kill
      by_cases hstep : c.stepping = true
      · have hval : kill c = (hand { requestInterrupt c .kill with killing := (requestInterrupt c .kill).interrupt }
            c.actions.length, .action c.actions.length) := by
          unfold kill
          simp only [hkl, if_false, hl, Bool.false_eq_true, hnk, hstep, if_true]
          simp only [hn.1]
        rw [hval] at hj ⊢
        rw [hand_killing] at hj
        have : (some c.actions.length : Option Nat) = some j := by rw [← hn.1]; exact hj
        cases this; rfl
      · have hval : kill c = (transitionTo c .killed, .bool true) := by
          unfold kill
          simp [hkl, hl, hnk, hstep]
        rw [hval] at hj
        have := (transitionTo_kn c .killed).imp hnk
        rw [this] at hj; cases hj

/-- **no stale `_killing`**: whenever a kill is recorded as pending, the process is KILLED / EXCEPTED or that very
action is the pending interrupt action of the step in flight -/
def KillingOk (c : Cfg) : Prop := ∀ i, c.killing = some i → Committed i c

theorem committed_killing {c : Cfg} {i : Nat} (h : Committed i c) : KillingOk c := by
  intro j hj
  rcases h with h | h | h
  · exact Or.inl h
  · exact Or.inr (Or.inl h)
  · have := h.2.1; rw [this] at hj; cases hj; exact Or.inr (Or.inr h)

theorem kill_killingOk (c : Cfg) (hnk : c.killing = none) : KillingOk (kill c).1 := by
  intro j hj
  obtain ⟨hl, hr⟩ := kill_killing c hnk j hj
  exact Or.inr (Or.inr (kill_commits c j hl hnk hr))

theorem step_killingOk (P : Prog) (c : Cfg) (ev : Ev) (h : KillingOk c) (hp : PausingOk c) : KillingOk (step P c ev).1 := by
  cases hk : c.killing with
  | some i => exact committed_killing (step_committed P i c ev (h i hk) hp)
  | none =>
    by_cases h1 : ev = .kill
    · subst h1; simp only [step]; exact kill_killingOk c hk
    · by_cases h2 : ev = .tickCb .trykill
      · subst h2
        simp only [step]
        unfold tickCb
        split
        · dsimp only
          have hk' : ({ c with ready := c.ready.erase Cb.trykill } : Cfg).killing = none := hk
          have := kill_killingOk _ hk'
          intro j hj
          have hj' : (kill { c with ready := c.ready.erase Cb.trykill }).1.killing = some j := hj
          rcases this j hj' with g | g | g
          · exact Or.inl g
          · exact Or.inr (Or.inl g)
          · exact Or.inr (Or.inr (g.keep ⟨rfl, rfl, rfl, rfl, rfl, rfl⟩))
        · intro j hj; rw [hk] at hj; cases hj
      · intro j hj
        have := (step_kn P c ev h1 h2).imp hk
        rw [this] at hj; cases hj

theorem run_killingOk (P : Prog) (c0 : Cfg) (evs : List Ev) (h : KillingOk c0) (hp : PausingOk c0) :
    KillingOk (run P c0 evs) ∧ PausingOk (run P c0 evs) := by
  induction evs generalizing c0 with
  | nil => exact ⟨h, hp⟩
  | cons e es ih => exact ih _ (step_killingOk P c0 e h hp) (step_pausingOk P c0 e hp)

theorem killingOk_init (nf : Nat) : KillingOk (init nf) := by
  intro i hi; simp [init] at hi

end PMF
