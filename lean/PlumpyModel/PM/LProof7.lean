import PlumpyModel.PM.LProof6
/-!
# `PMF.L` — a kill requested by a listener during the closing part of a step is enacted before the step ends

`Owed l`: the oracle has issued a `kill()` at a moment when the process was live and no transition into a terminal state
was in progress.  `KJ` is the invariant carried through every function of the closing part (while `_stepping`):
* `kok`  a recorded kill (`_killing`) is the pending action in the interrupt slot, unless the process terminated;
* `pok`  the pause alias points to a pause action;
* `nofin`/`ook`  once a kill is owed the process is not FINISHED nor on its way there, and it is KILLED / EXCEPTED, or on its
  way there, or the kill is recorded.
-/
namespace PMF
namespace L

def Owed (l : LCfg) : Prop := ∃ h, (h, Req.kill, true) ∈ l.issued
def boundKE (l : LCfg) : Prop := l.trans = some .killed ∨ l.trans = some .excepted

structure KJ (l : LCfg) : Prop where
  kok : ∀ k, l.c.killing = some k → terminal l.c.st.label = true ∨ Pending k l.c
  pok : PausingOk l.c
  nofin : Owed l → l.c.st.label ≠ .finished ∧ l.trans ≠ some .finished
  ook : Owed l → KE l.c ∨ boundKE l ∨ l.c.killing ≠ none

/-- control part of a configuration untouched (the pause alias may be cleared) -/
structure Ctl (c c' : Cfg) : Prop where
  killing : c'.killing = c.killing
  interrupt : c'.interrupt = c.interrupt
  actions : c'.actions = c.actions
  stepping : c'.stepping = c.stepping
  pausing : c'.pausing = c.pausing ∨ c'.pausing = none

theorem pending_ctl {k : Nat} {c c' : Cfg} (h : Pending k c) (s : Ctl c c') (hl : terminal c'.st.label = false) :
    Pending k c' := by
  obtain ⟨_, h2, h3, h4, h5, h6⟩ := h
  exact ⟨hl, by rw [s.killing]; exact h2, by rw [s.interrupt]; exact h3, by simpa [actionStatus, s.actions] using h4,
    by rw [s.stepping]; exact h5, by simpa [actionKind, s.actions] using h6⟩

theorem pausingOk_ctl {c c' : Cfg} (h : PausingOk c) (s : Ctl c c') : PausingOk c' := by
  intro i hi
  rcases s.pausing with g | g
  · have := h i (by rw [← g]; exact hi)
    simpa [actionKind, s.actions] using this
  · rw [g] at hi; cases hi

theorem ke_not_live {c : Cfg} (h : KE c) (hl : terminal c.st.label = false) : False := by
  rw [ke_terminal h] at hl; cases hl

/-- a control-preserving update keeps the invariant: the label is unchanged, or the process was live (then the new label
must not be FINISHED while a kill is owed) -/
theorem KJ.ctl {l : LCfg} (h : KJ l) (c' : Cfg) (s : Ctl l.c c')
    (hl : c'.st.label = l.c.st.label ∨ terminal l.c.st.label = false)
    (hf : Owed l → c'.st.label ≠ .finished) : KJ { l with c := c' } := by
  refine ⟨?_, pausingOk_ctl h.pok s, fun ho => ⟨hf ho, (h.nofin ho).2⟩, ?_⟩
  · intro k hk
    have hk' : l.c.killing = some k := by rw [← s.killing]; exact hk
    rcases h.kok k hk' with ht | hp
    · rcases hl with hl | hl
      · left; show terminal c'.st.label = true; rw [hl]; exact ht
      · rw [hl] at ht; cases ht
    · by_cases ht : terminal c'.st.label = true
      · exact Or.inl ht
      · exact Or.inr (pending_ctl hp s (by simpa using ht))
  · intro ho
    rcases h.ook ho with hke | hb | hk
    · rcases hl with hl | hl
      · left; unfold KE at hke ⊢; show c'.st.label = _ ∨ c'.st.label = _; rw [hl]; exact hke
      · exact (ke_not_live hke hl).elim
    · exact Or.inr (Or.inl hb)
    · right; right; show c'.killing ≠ none; rw [s.killing]; exact hk

theorem KJ.upd {l : LCfg} (h : KJ l) (f : Cfg → Cfg) (s : Ctl l.c (f l.c))
    (hl : (f l.c).st.label = l.c.st.label ∨ terminal l.c.st.label = false)
    (hf : Owed l → (f l.c).st.label ≠ .finished) : KJ (l.upd f) := h.ctl (f l.c) s hl hf

/-- fields of `l` that the invariant does not look at -/
theorem KJ.same {l l' : LCfg} (h : KJ l) (hc : l'.c = l.c) (ht : l'.trans = l.trans) (hi : l'.issued = l.issued) : KJ l' := by
  refine ⟨by rw [hc]; exact h.kok, by rw [hc]; exact h.pok, ?_, ?_⟩
  · intro ho; have ho' : Owed l := by unfold Owed at ho ⊢; rw [← hi]; exact ho
    rw [hc, ht]; exact h.nofin ho'
  · intro ho; have ho' : Owed l := by unfold Owed at ho ⊢; rw [← hi]; exact ho
    unfold KE boundKE; rw [hc, ht]; exact h.ook ho'

theorem KJ.of_owed_imp {l l' : LCfg} (h : KJ l) (hc : l'.c = l.c) (ht : l'.trans = l.trans) (ho : Owed l' → Owed l) : KJ l' := by
  refine ⟨by rw [hc]; exact h.kok, by rw [hc]; exact h.pok, ?_, ?_⟩
  · intro o; rw [hc, ht]; exact h.nofin (ho o)
  · intro o; unfold KE boundKE; rw [hc, ht]; exact h.ook (ho o)

/-! ### Ctl for the primitive updates -/
theorem ctl_exitState (c : Cfg) : Ctl c (exitState c) ∧ (exitState c).st = c.st := by
  obtain ⟨w, e, h⟩ := exitState_shape c; rw [h]; exact ⟨⟨rfl, rfl, rfl, rfl, Or.inl rfl⟩, rfl⟩
theorem ctl_onTerminated (c : Cfg) : Ctl c (onTerminated c) ∧ (onTerminated c).st = c.st := by
  obtain ⟨p, cl, n, h⟩ := onTerminated_shape c; rw [h]; exact ⟨⟨rfl, rfl, rfl, rfl, Or.inl rfl⟩, rfl⟩
theorem ctl_setFutExc (c : Cfg) (e : Exc) : Ctl c (setFutExc c e) ∧ (setFutExc c e).st = c.st := by
  obtain ⟨f, b, h⟩ := setFutExc_shape c e; rw [h]; exact ⟨⟨rfl, rfl, rfl, rfl, Or.inl rfl⟩, rfl⟩
theorem ctl_enteringHooks (c c2 : Cfg) (s : SObj) (hok : enteringHooks c s = .ok c2) : Ctl c c2 ∧ c2.st = c.st := by
  obtain ⟨f, b, h⟩ := enteringHooks_shape c c2 s hok; rw [h]; exact ⟨⟨rfl, rfl, rfl, rfl, Or.inl rfl⟩, rfl⟩
theorem ctl_enter (c : Cfg) (s : SObj) : Ctl c (setState (enterState c s) s) ∧ (setState (enterState c s) s).st = s := by
  obtain ⟨k, e, r, h⟩ := enterState_shape c s
  exact ⟨by rw [h]; exact ⟨rfl, rfl, rfl, rfl, Or.inl rfl⟩, rfl⟩
theorem ctl_enteredHooks (c : Cfg) (s : SObj) (hs : s.label ≠ .killed) :
    Ctl c (enteredHooks c s) ∧ (enteredHooks c s).st = c.st := by
  obtain ⟨n, h⟩ := enteredHooks_shape c s
  refine ⟨?_, enteredHooks_st c s⟩
  rw [h]
  exact ⟨by simp [hs], rfl, rfl, rfl, Or.inl rfl⟩

theorem setActionStatus_ctl' (c : Cfg) (i s) : (setActionStatus c i s).killing = c.killing ∧
    (setActionStatus c i s).interrupt = c.interrupt ∧ (setActionStatus c i s).stepping = c.stepping ∧
    (setActionStatus c i s).pausing = c.pausing ∧ (setActionStatus c i s).st = c.st := by
  unfold setActionStatus; split <;> exact ⟨rfl, rfl, rfl, rfl, rfl⟩

theorem hand_ctl (c : Cfg) (i) : Ctl c (hand c i) ∧ (hand c i).st = c.st := by
  unfold hand; split <;> exact ⟨⟨rfl, rfl, rfl, rfl, Or.inl rfl⟩, rfl⟩

/-! ### what a deferred request creates -/
theorem setInterruptFromExc_new (c : Cfg) (k : AKind) (n : Nat) :
    (setInterruptFromExc c k n).interrupt = some c.actions.length ∧
    actionKind (setInterruptFromExc c k n) c.actions.length = some k ∧
    actionStatus (setInterruptFromExc c k n) c.actions.length = .pending ∧
    (setInterruptFromExc c k n).killing = c.killing ∧ (setInterruptFromExc c k n).pausing = c.pausing := by
  have hlen := cancelInterrupt_len c
  have hf : (cancelInterrupt c).killing = c.killing ∧ (cancelInterrupt c).pausing = c.pausing := by
    unfold cancelInterrupt; split
    · exact ⟨(cancelAction_fields _ _).1, (cancelAction_fields _ _).2.2.2.1⟩
    · exact ⟨rfl, rfl⟩
  unfold setInterruptFromExc
  dsimp only
  have hget : ((cancelInterrupt c).actions ++ [({ kind := k, cookie := n, status := .pending } : Action)])[c.actions.length]? =
      some { kind := k, cookie := n, status := .pending } := by
    rw [List.getElem?_append_right (by rw [hlen]; exact Nat.le_refl _)]
    simp [hlen]
  refine ⟨by rw [hlen], ?_, ?_, hf.1, hf.2⟩
  · simp [actionKind, hget]
  · simp [actionStatus, hget]

theorem interruptState_fields (c : Cfg) (k : Nat) : (interruptState c k).killing = c.killing ∧
    (interruptState c k).pausing = c.pausing ∧ (interruptState c k).interrupt = c.interrupt ∧
    (interruptState c k).actions = c.actions := by
  unfold interruptState; split
  · split <;> exact ⟨rfl, rfl, rfl, rfl⟩
  · exact ⟨rfl, rfl, rfl, rfl⟩

theorem requestL_new (l : LCfg) (k : AKind) :
    (requestL l k).interrupt = some l.c.actions.length ∧
    actionKind (requestL l k) l.c.actions.length = some k ∧
    actionStatus (requestL l k) l.c.actions.length = .pending ∧
    (requestL l k).killing = l.c.killing ∧ (requestL l k).pausing = l.c.pausing := by
  have h := setInterruptFromExc_new { l.c with nextCookie := l.c.nextCookie + 1 } k l.c.nextCookie
  unfold requestL; split
  · unfold requestInterrupt
    have hi := interruptState_fields (setInterruptFromExc { l.c with nextCookie := l.c.nextCookie + 1 } k l.c.nextCookie) l.c.nextCookie
    refine ⟨by rw [hi.2.2.1]; exact h.1, ?_, ?_, by rw [hi.1]; exact h.2.2.2.1, by rw [hi.2.1]; exact h.2.2.2.2⟩
    · simpa [actionKind, hi.2.2.2] using h.2.1
    · simpa [actionStatus, hi.2.2.2] using h.2.2.1
  · exact h

end L
end PMF

namespace PMF
namespace L

def FK (F : Hook → LCfg → LCfg) : Prop := ∀ h l, l.c.stepping = true → KJ l → KJ (F h l)

/-- rebuild the invariant for a new `Cfg` with the same state object -/
theorem KJ.rebuild {l : LCfg} (h : KJ l) (c' : Cfg) (hst : c'.st = l.c.st)
    (hkok : ∀ k, c'.killing = some k → terminal c'.st.label = true ∨ Pending k c') (hpok : PausingOk c')
    (hkill : l.c.killing ≠ none → c'.killing ≠ none) : KJ { l with c := c' } := by
  refine ⟨hkok, hpok, fun ho => ?_, fun ho => ?_⟩
  · show c'.st.label ≠ _ ∧ _; rw [hst]; exact h.nofin ho
  · rcases h.ook ho with hke | hb | hk
    · left; unfold KE; show c'.st.label = _ ∨ c'.st.label = _; rw [hst]; exact hke
    · exact Or.inr (Or.inl hb)
    · exact Or.inr (Or.inr (hkill hk))

theorem play_killing (c : Cfg) : (play c).1.killing = c.killing := by
  unfold play
  split
  · split
    · exact (cancelAction_fields _ _).1
    · rfl
  · dsimp only; split <;> rfl

section
variable {F : Hook → LCfg → LCfg}

theorem hand_kj {l : LCfg} (h : KJ l) (i : Nat) : KJ (l.upd (fun c => hand c i)) :=
  h.upd _ (hand_ctl l.c i).1 (Or.inl (by rw [(hand_ctl l.c i).2])) (fun ho => by rw [(hand_ctl l.c i).2]; exact (h.nofin ho).1)

theorem pauseL_kj (l : LCfg) (hs : l.c.stepping = true) (h : KJ l) : KJ (pauseL F l).1 := by
  unfold pauseL
  dsimp only
  split
  · exact h
  · split
    · exact h
    · split
      · exact hand_kj h _
      · split
        · exact h
        · rename_i hnk
          have hkn : l.c.killing = none := by
            cases hk : l.c.killing with
            | none => rfl
            | some k => simp [hk] at hnk
          have hn := requestL_new l .pause
          have hst := (requestL_hkc l .pause).st
          -- the configuration with the alias set
          have hkj : KJ { l with c := { requestL l .pause with pausing := (requestL l .pause).interrupt } } := by
            refine h.rebuild _ hst ?_ ?_ (fun hne => (hne hkn).elim)
            · intro k hk
              have : (requestL l .pause).killing = some k := hk
              rw [hn.2.2.2.1, hkn] at this; cases this
            · intro i hi
              have hi' : (requestL l .pause).interrupt = some i := hi
              rw [hn.1] at hi'; cases hi'
              simpa [actionKind] using hn.2.1
          split
          · exact hand_kj hkj _
          · exact hkj

theorem playL_kj (hF : FK F) (l : LCfg) (hs : l.c.stepping = true) (h : KJ l) : KJ (playL F l).1 := by
  have h1 : KJ (l.upd (fun c => (play c).1)) := by
    refine h.rebuild _ (play_hkc l.c).st ?_ (h.pok.kx (play_kx l.c)) (fun hne => by rw [play_killing]; exact hne)
    intro k hk
    rw [play_killing] at hk
    rcases h.kok k hk with ht | hp
    · left; rw [(play_hkc l.c).st]; exact ht
    · exact Or.inr (play_pending k l.c hp h.pok)
  have hs1 : (l.upd (fun c => (play c).1)).c.stepping = true := by rw [upd_c, (play_hkc l.c).stepping]; exact hs
  unfold playL
  split
  · exact h1
  · exact hF _ _ hs1 h1

theorem owed_cons (l l1 : LCfg) (hk : Hook) (b : Bool) (hi : l1.issued = (hk, Req.kill, b) :: l.issued) :
    Owed l1 ↔ Owed l ∨ b = true := by
  unfold Owed
  rw [hi]
  constructor
  · rintro ⟨h, hm⟩
    rcases List.mem_cons.mp hm with he | hm
    · right; injection he with _ he; injection he with _ he; exact he.symm
    · exact Or.inl ⟨h, hm⟩
  · rintro (⟨h, hm⟩ | hb)
    · exact ⟨h, List.mem_cons_of_mem _ hm⟩
    · exact ⟨hk, by rw [hb]; exact List.mem_cons_self⟩

theorem owed_cons_other (l l1 : LCfg) (e : Hook × Req × Bool) (hne : e.2.1 ≠ Req.kill) (hi : l1.issued = e :: l.issued) :
    Owed l1 ↔ Owed l := by
  unfold Owed
  rw [hi]
  constructor
  · rintro ⟨h, hm⟩
    rcases List.mem_cons.mp hm with he | hm
    · rw [← he] at hne; exact (hne rfl).elim
    · exact ⟨h, hm⟩
  · rintro ⟨h, hm⟩
    exact ⟨h, List.mem_cons_of_mem _ hm⟩

/-- `kill()` issued by the oracle, logged with the flag "live and not on the way into a terminal state" -/
theorem killL_kj (l l1 : LCfg) (hk : Hook) (hs : l.c.stepping = true) (h : KJ l) (hc : l1.c = l.c) (ht : l1.trans = l.trans)
    (hi : l1.issued = (hk, Req.kill, live l.c && !terminalBound l) :: l.issued) : KJ (killL F l1).1 := by
  have how := owed_cons l l1 hk _ hi
  -- facts available when the new log entry is what makes the kill owed
  have hflag : (live l.c && !terminalBound l) = true → terminal l.c.st.label = false ∧ l.trans ≠ some .finished := by
    intro hb
    simp only [live, Bool.and_eq_true, Bool.not_eq_eq_eq_not, Bool.not_true] at hb
    refine ⟨hb.1, ?_⟩
    intro htf
    have := hb.2
    simp [terminalBound, htf, terminal, allowed] at this
  have hlive_nofin : terminal l.c.st.label = false → l.c.st.label ≠ .finished := by
    intro hl hf; rw [hf] at hl; simp [terminal, allowed] at hl
  -- the invariant for `l1` itself whenever the process is not live (the flag is false)
  have hdead : terminal l.c.st.label = true → KJ l1 := by
    intro hterm
    have hnb : (live l.c && !terminalBound l) = false := by simp [live, hterm]
    have ho : Owed l1 → Owed l := fun ho => by
      rcases how.mp ho with h' | h'
      · exact h'
      · rw [hnb] at h'; cases h'
    exact h.of_owed_imp hc ht ho
  unfold killL
  dsimp only
  split
  · rename_i hkl
    exact hdead (by rw [hc] at hkl; simp [hkl, terminal, allowed])
  · split
    · rename_i hterm
      exact hdead (by rw [hc] at hterm; exact hterm)
    · rename_i hnk hnt
      have hl : terminal l.c.st.label = false := by rw [hc] at hnt; simpa using hnt
      split
      · -- a kill is recorded already
        rename_i i hki
        have hki' : l.c.killing = some i := by rw [← hc]; exact hki
        have hbase : KJ { l1 with c := hand l1.c i } := by
          rw [hc]
          have hh := hand_ctl l.c i
          refine ⟨?_, pausingOk_ctl h.pok hh.1, fun o => ?_, fun o => ?_⟩
          · intro k hk'
            have : l.c.killing = some k := by rw [← hh.1.killing]; exact hk'
            rcases h.kok k this with ht' | hp
            · rw [ht'] at hl; cases hl
            · exact Or.inr (pending_ctl hp hh.1 (by rw [hh.2]; exact hl))
          · show (hand l.c i).st.label ≠ _ ∧ l1.trans ≠ _
            rw [hh.2, ht]
            rcases how.mp o with o' | o'
            · exact h.nofin o'
            · exact ⟨hlive_nofin hl, (hflag o').2⟩
          · right; right
            show (hand l.c i).killing ≠ none
            rw [hh.1.killing, hki']; simp
        exact hbase
      · rename_i hkn
        have hkn' : l.c.killing = none := by rw [← hc]; exact hkn
        have hs1 : l1.c.stepping = true := by rw [hc]; exact hs
        -- (the `if stepping` has been decided by `hs1`)
        simp only [hs1, if_true]
        have hn := requestL_new l1 .kill
        have hhk := requestL_hkc l1 .kill
        have hkd := requestL_kd l1 .kill
        have hkj : KJ { l1 with c := { requestL l1 .kill with killing := (requestL l1 .kill).interrupt } } := by
          refine ⟨?_, ?_, fun o => ?_, fun o => ?_⟩
          · intro k hk'
            have hk'' : (requestL l1 .kill).interrupt = some k := hk'
            rw [hn.1] at hk''; cases hk''
            right
            refine ⟨?_, hn.1, hn.1, ?_, ?_, ?_⟩
            · show terminal (requestL l1 .kill).st.label = false; rw [hhk.st, hc]; exact hl
            · simpa [actionStatus] using hn.2.2.1
            · show (requestL l1 .kill).stepping = true; rw [hhk.stepping]; exact hs1
            · simpa [actionKind] using hn.2.1
          · intro i hi'
            have hi'' : (requestL l1 .kill).pausing = some i := hi'
            rw [hn.2.2.2.2, hc] at hi''
            have := hkd i _ (by rw [hc]; exact h.pok i hi'')
            simpa [actionKind] using this
          · show (requestL l1 .kill).st.label ≠ _ ∧ l1.trans ≠ _
            rw [hhk.st, hc, ht]
            rcases how.mp o with o' | o'
            · exact h.nofin o'
            · exact ⟨hlive_nofin hl, (hflag o').2⟩
          · right; right
            show (requestL l1 .kill).interrupt ≠ none
            rw [hn.1]; simp
        split
        · exact hand_kj hkj _
        · exact hkj

theorem reqK_kj_logged (hF : FK F) (l l0 : LCfg) (hk : Hook) (r : Req) (hs : l.c.stepping = true) (h : KJ l)
    (hc : l0.c = l.c) (ht : l0.trans = l.trans) (hi : l0.issued = l.issued) :
    KJ (reqK F r (logIssued l0 hk r)) := by
  have hlog : (logIssued l0 hk r).issued = (hk, r, live l.c && !terminalBound l) :: l.issued := by
    unfold logIssued terminalBound; simp only [hc, ht, hi]
  cases r with
  | kill => exact killL_kj l _ hk hs h hc ht hlog
  | pause =>
    have h1 : KJ (logIssued l0 hk .pause) := by
      have ho := owed_cons_other l (logIssued l0 hk .pause) _ (by simp) hlog
      exact h.of_owed_imp hc ht ho.mp
    exact pauseL_kj _ (by show l0.c.stepping = true; rw [hc]; exact hs) h1
  | play =>
    have h1 : KJ (logIssued l0 hk .play) := by
      have ho := owed_cons_other l (logIssued l0 hk .play) _ (by simp) hlog
      exact h.of_owed_imp hc ht ho.mp
    exact playL_kj hF _ (by show l0.c.stepping = true; rw [hc]; exact hs) h1

theorem fireK_kj (hF : FK F) (hk : Hook) (l : LCfg) (hs : l.c.stepping = true) (h : KJ l) : KJ (fireK (reqK F) hk l) := by
  rcases fireK_cases (reqK F) hk l with h1 | ⟨e, _, h1⟩
  · rw [h1]; exact h.same rfl rfl rfl
  · rw [h1]
    exact reqK_kj_logged hF l _ hk e.2.2 hs h rfl rfl rfl
end

theorem fireN_fk : ∀ n, FK (fireN n)
  | 0 => fun _ _ _ h => h.same rfl rfl rfl
  | n+1 => fun hk l hs h => by
      unfold fireN
      exact fireK_kj (fireN_fk n) hk l hs h

end L
end PMF
