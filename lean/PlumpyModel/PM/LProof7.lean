import PlumpyModel.PM.LProof6
/-!
# `PMF.L` — a kill requested by a listener during the closing part of a step is enacted before the step ends

`Owed l`: the oracle has issued a `kill()` at a moment when the process was live and no transition into a terminal state
was in progress.  `KJ` is the invariant carried through every function of the closing part (while `_stepping`):
* `kok`  a recorded kill (`_killing`) is the pending action in the interrupt slot, unless the process terminated;
* `pok`  the pause alias points to a pause action;
* `nofin`/`ook`  once a kill is owed the process is not FINISHED nor on its way there, and it is KILLED / EXCEPTED, or on its
  way there, or the kill is recorded.
-/
namespace PMF
namespace L

def Owed (l : LCfg) : Prop := ∃ h, (h, Req.kill, true) ∈ l.issued
def boundKE (l : LCfg) : Prop := l.trans = some .killed ∨ l.trans = some .excepted

structure KJ (l : LCfg) : Prop where
  kok : ∀ k, l.c.killing = some k → terminal l.c.st.label = true ∨ Pending k l.c
  pok : PausingOk l.c
  nofin : Owed l → l.c.st.label ≠ .finished ∧ l.trans ≠ some .finished
  ook : Owed l → KE l.c ∨ boundKE l ∨ l.c.killing ≠ none

/-- control part of a configuration untouched (the pause alias may be cleared) -/
structure Ctl (c c' : Cfg) : Prop where
  killing : c'.killing = c.killing
  interrupt : c'.interrupt = c.interrupt
  actions : c'.actions = c.actions
  stepping : c'.stepping = c.stepping
  pausing : c'.pausing = c.pausing ∨ c'.pausing = none

theorem pending_ctl {k : Nat} {c c' : Cfg} (h : Pending k c) (s : Ctl c c') (hl : terminal c'.st.label = false) :
    Pending k c' := by
  obtain ⟨_, h2, h3, h4, h5, h6⟩ := h
  exact ⟨hl, by rw [s.killing]; exact h2, by rw [s.interrupt]; exact h3, by simpa [actionStatus, s.actions] using h4,
    by rw [s.stepping]; exact h5, by simpa [actionKind, s.actions] using h6⟩

theorem pausingOk_ctl {c c' : Cfg} (h : PausingOk c) (s : Ctl c c') : PausingOk c' := by
  intro i hi
  rcases s.pausing with g | g
  · have := h i (by rw [← g]; exact hi)
    simpa [actionKind, s.actions] using this
  · rw [g] at hi; cases hi

theorem ke_not_live {c : Cfg} (h : KE c) (hl : terminal c.st.label = false) : False := by
  rw [ke_terminal h] at hl; cases hl

/-- a control-preserving update keeps the invariant: the label is unchanged, or the process was live (then the new label
must not be FINISHED while a kill is owed) -/
theorem KJ.ctl {l : LCfg} (h : KJ l) (c' : Cfg) (s : Ctl l.c c')
    (hl : c'.st.label = l.c.st.label ∨ terminal l.c.st.label = false)
    (hf : Owed l → c'.st.label ≠ .finished) : KJ { l with c := c' } := by
  refine ⟨?_, pausingOk_ctl h.pok s, fun ho => ⟨hf ho, (h.nofin ho).2⟩, ?_⟩
  · intro k hk
    have hk' : l.c.killing = some k := by rw [← s.killing]; exact hk
    rcases h.kok k hk' with ht | hp
    · rcases hl with hl | hl
      · left; show terminal c'.st.label = true; rw [hl]; exact ht
      · rw [hl] at ht; cases ht
    · by_cases ht : terminal c'.st.label = true
      · exact Or.inl ht
      · exact Or.inr (pending_ctl hp s (by simpa using ht))
  · intro ho
    rcases h.ook ho with hke | hb | hk
    · rcases hl with hl | hl
      · left; unfold KE at hke ⊢; show c'.st.label = _ ∨ c'.st.label = _; rw [hl]; exact hke
      · exact (ke_not_live hke hl).elim
    · exact Or.inr (Or.inl hb)
    · right; right; show c'.killing ≠ none; rw [s.killing]; exact hk

theorem KJ.upd {l : LCfg} (h : KJ l) (f : Cfg → Cfg) (s : Ctl l.c (f l.c))
    (hl : (f l.c).st.label = l.c.st.label ∨ terminal l.c.st.label = false)
    (hf : Owed l → (f l.c).st.label ≠ .finished) : KJ (l.upd f) := h.ctl (f l.c) s hl hf

/-- fields of `l` that the invariant does not look at -/
theorem KJ.same {l l' : LCfg} (h : KJ l) (hc : l'.c = l.c) (ht : l'.trans = l.trans) (hi : l'.issued = l.issued) : KJ l' := by
  refine ⟨by rw [hc]; exact h.kok, by rw [hc]; exact h.pok, ?_, ?_⟩
  · intro ho; have ho' : Owed l := by unfold Owed at ho ⊢; rw [← hi]; exact ho
    rw [hc, ht]; exact h.nofin ho'
  · intro ho; have ho' : Owed l := by unfold Owed at ho ⊢; rw [← hi]; exact ho
    unfold KE boundKE; rw [hc, ht]; exact h.ook ho'

theorem KJ.of_owed_imp {l l' : LCfg} (h : KJ l) (hc : l'.c = l.c) (ht : l'.trans = l.trans) (ho : Owed l' → Owed l) : KJ l' := by
  refine ⟨by rw [hc]; exact h.kok, by rw [hc]; exact h.pok, ?_, ?_⟩
  · intro o; rw [hc, ht]; exact h.nofin (ho o)
  · intro o; unfold KE boundKE; rw [hc, ht]; exact h.ook (ho o)

/-! ### Ctl for the primitive updates -/
theorem ctl_exitState (c : Cfg) : Ctl c (exitState c) ∧ (exitState c).st = c.st := by
  obtain ⟨w, e, h⟩ := exitState_shape c; rw [h]; exact ⟨⟨rfl, rfl, rfl, rfl, Or.inl rfl⟩, rfl⟩
theorem ctl_onTerminated (c : Cfg) : Ctl c (onTerminated c) ∧ (onTerminated c).st = c.st := by
  obtain ⟨p, cl, n, h⟩ := onTerminated_shape c; rw [h]; exact ⟨⟨rfl, rfl, rfl, rfl, Or.inl rfl⟩, rfl⟩
theorem ctl_setFutExc (c : Cfg) (e : Exc) : Ctl c (setFutExc c e) ∧ (setFutExc c e).st = c.st := by
  obtain ⟨f, b, h⟩ := setFutExc_shape c e; rw [h]; exact ⟨⟨rfl, rfl, rfl, rfl, Or.inl rfl⟩, rfl⟩
theorem ctl_enteringHooks (c c2 : Cfg) (s : SObj) (hok : enteringHooks c s = .ok c2) : Ctl c c2 ∧ c2.st = c.st := by
  obtain ⟨f, b, h⟩ := enteringHooks_shape c c2 s hok; rw [h]; exact ⟨⟨rfl, rfl, rfl, rfl, Or.inl rfl⟩, rfl⟩
theorem ctl_enter (c : Cfg) (s : SObj) : Ctl c (setState (enterState c s) s) ∧ (setState (enterState c s) s).st = s := by
  obtain ⟨k, e, r, h⟩ := enterState_shape c s
  exact ⟨by rw [h]; exact ⟨rfl, rfl, rfl, rfl, Or.inl rfl⟩, rfl⟩
theorem ctl_enteredHooks (c : Cfg) (s : SObj) (hs : s.label ≠ .killed) :
    Ctl c (enteredHooks c s) ∧ (enteredHooks c s).st = c.st := by
  obtain ⟨n, h⟩ := enteredHooks_shape c s
  refine ⟨?_, enteredHooks_st c s⟩
  rw [h]
  exact ⟨by simp [hs], rfl, rfl, rfl, Or.inl rfl⟩

theorem setActionStatus_ctl' (c : Cfg) (i s) : (setActionStatus c i s).killing = c.killing ∧
    (setActionStatus c i s).interrupt = c.interrupt ∧ (setActionStatus c i s).stepping = c.stepping ∧
    (setActionStatus c i s).pausing = c.pausing ∧ (setActionStatus c i s).st = c.st := by
  unfold setActionStatus; split <;> exact ⟨rfl, rfl, rfl, rfl, rfl⟩

theorem hand_ctl (c : Cfg) (i) : Ctl c (hand c i) ∧ (hand c i).st = c.st := by
  unfold hand; split <;> exact ⟨⟨rfl, rfl, rfl, rfl, Or.inl rfl⟩, rfl⟩

/-! ### what a deferred request creates -/
theorem setInterruptFromExc_new (c : Cfg) (k : AKind) (n : Nat) :
    (setInterruptFromExc c k n).interrupt = some c.actions.length ∧
    actionKind (setInterruptFromExc c k n) c.actions.length = some k ∧
    actionStatus (setInterruptFromExc c k n) c.actions.length = .pending ∧
    (setInterruptFromExc c k n).killing = c.killing ∧ (setInterruptFromExc c k n).pausing = c.pausing := by
  have hlen := cancelInterrupt_len c
  have hf : (cancelInterrupt c).killing = c.killing ∧ (cancelInterrupt c).pausing = c.pausing := by
    unfold cancelInterrupt; split
    · exact ⟨(cancelAction_fields _ _).1, (cancelAction_fields _ _).2.2.2.1⟩
    · exact ⟨rfl, rfl⟩
  unfold setInterruptFromExc
  dsimp only
  have hget : ((cancelInterrupt c).actions ++ [({ kind := k, cookie := n, status := .pending } : Action)])[c.actions.length]? =
      some { kind := k, cookie := n, status := .pending } := by
    rw [List.getElem?_append_right (by rw [hlen]; exact Nat.le_refl _)]
    simp [hlen]
  refine ⟨by rw [hlen], ?_, ?_, hf.1, hf.2⟩
  · simp [actionKind, hget]
  · simp [actionStatus, hget]

theorem interruptState_fields (c : Cfg) (k : Nat) : (interruptState c k).killing = c.killing ∧
    (interruptState c k).pausing = c.pausing ∧ (interruptState c k).interrupt = c.interrupt ∧
    (interruptState c k).actions = c.actions := by
  unfold interruptState; split
  · split <;> exact ⟨rfl, rfl, rfl, rfl⟩
  · exact ⟨rfl, rfl, rfl, rfl⟩

theorem requestL_new (l : LCfg) (k : AKind) :
    (requestL l k).interrupt = some l.c.actions.length ∧
    actionKind (requestL l k) l.c.actions.length = some k ∧
    actionStatus (requestL l k) l.c.actions.length = .pending ∧
    (requestL l k).killing = l.c.killing ∧ (requestL l k).pausing = l.c.pausing := by
  have h := setInterruptFromExc_new { l.c with nextCookie := l.c.nextCookie + 1 } k l.c.nextCookie
  unfold requestL; split
  · unfold requestInterrupt
    have hi := interruptState_fields (setInterruptFromExc { l.c with nextCookie := l.c.nextCookie + 1 } k l.c.nextCookie) l.c.nextCookie
    refine ⟨by rw [hi.2.2.1]; exact h.1, ?_, ?_, by rw [hi.1]; exact h.2.2.2.1, by rw [hi.2.1]; exact h.2.2.2.2⟩
    · simpa [actionKind, hi.2.2.2] using h.2.1
    · simpa [actionStatus, hi.2.2.2] using h.2.2.1
  · exact h

end L
end PMF

namespace PMF
namespace L

/-! ### the pause alias points to a pause action: every model function, every context -/
theorem pausingOk_of_eq {c c' : Cfg} (h : PausingOk c) (ha : c'.actions = c.actions)
    (hp : c'.pausing = c.pausing ∨ c'.pausing = none) : PausingOk c' := by
  intro i hi
  rcases hp with g | g
  · have := h i (by rw [← g]; exact hi)
    simpa [actionKind, ha] using this
  · rw [g] at hi; cases hi

def FP (F : Hook → LCfg → LCfg) : Prop := ∀ h l, PausingOk l.c → PausingOk (F h l).c

section
variable {F : Hook → LCfg → LCfg}

theorem enteredHooksL_pok (hF : FP F) (l : LCfg) (s : SObj) (h : PausingOk l.c) : PausingOk (enteredHooksL F l s).c := by
  have h1 : PausingOk (l.upd (fun c => enteredHooks c s)).c := by
    obtain ⟨n, hn⟩ := enteredHooks_shape l.c s
    exact pausingOk_of_eq h (by simp only [upd_c, hn]) (Or.inl (by simp only [upd_c, hn]))
  unfold enteredHooksL; dsimp only
  split
  · exact hF _ _ h1
  · exact h1

theorem forceExceptedL_pok (hF : FP F) (l : LCfg) (e : Exc) (h : PausingOk l.c) : PausingOk (forceExceptedL F l e).c := by
  unfold forceExceptedL
  split
  · exact pausingOk_of_eq h rfl (Or.inl rfl)
  · dsimp only
    have h1 : PausingOk ({ l with trans := some .excepted }.upd (fun c => setFutExc c e)).c := pausingOk_ctl h (ctl_setFutExc _ e).1
    have h2 := hF .entering _ h1
    have h3 : PausingOk ((F .entering ({ l with trans := some .excepted }.upd (fun c => setFutExc c e))).upd
        (fun c => setState c (.excepted e))).c := pausingOk_of_eq h2 rfl (Or.inl rfl)
    exact pausingOk_ctl (enteredHooksL_pok hF _ _ h3) (ctl_onTerminated _).1

theorem enterNextL_pok (hF : FP F) (l : LCfg) (s : SObj) (h : PausingOk l.c) : PausingOk (enterNextL F l s).c := by
  unfold enterNextL; dsimp only
  have h1 : PausingOk (l.upd (fun c => setState (enterState c s) s)).c := pausingOk_ctl h (ctl_enter l.c s).1
  have h2 := enteredHooksL_pok hF _ s h1
  split
  · exact pausingOk_ctl h2 (ctl_onTerminated _).1
  · exact h2

theorem exitPhaseL_pok (hF : FP F) (l : LCfg) (s : SObj) (h : PausingOk l.c) : PausingOk (exitPhaseL F l s).c := by
  unfold exitPhaseL; dsimp only
  have h1 : PausingOk ((F .exiting l).upd exitState).c := pausingOk_ctl (hF _ _ h) (ctl_exitState _).1
  split
  · exact pausingOk_ctl (hF _ _ h1) (ctl_exitState _).1
  · exact h1

theorem transitionToL_pok (hF : FP F) (l : LCfg) (s : SObj) (h : PausingOk l.c) : PausingOk (transitionToL F l s).c := by
  unfold transitionToL; dsimp only
  show PausingOk (_ : LCfg).c
  split
  · split
    · obtain ⟨w, e, hh⟩ := exitState_shape l.c
      exact pausingOk_of_eq h (by simp only [upd_c, hh]) (Or.inl (by simp only [upd_c, hh]))
    · have h1 := exitPhaseL_pok hF { l with trans := some s.label } s h
      split
      · exact forceExceptedL_pok hF _ _ h1
      · rename_i c2 hok
        have h2 : PausingOk c2 := pausingOk_ctl h1 (ctl_enteringHooks _ _ _ hok).1
        exact enterNextL_pok hF _ s (hF .entering { exitPhaseL F { l with trans := some s.label } s with c := c2 } h2)
  · exact forceExceptedL_pok hF { l with trans := some s.label } _ h

theorem doPauseL_pok (hF : FP F) (l : LCfg) (h : PausingOk l.c) : PausingOk (doPauseL F l).c := by
  unfold doPauseL; dsimp only
  have h1 : PausingOk (l.upd doPauseHooks).c := pausingOk_of_eq h rfl (Or.inr rfl)
  exact pausingOk_of_eq (hF .paused _ h1) rfl (Or.inr rfl)

/-- the configuration in which `pause()` has filled the slot and set the alias -/
theorem pause_alias_pok (l : LCfg) : PausingOk { requestL l .pause with pausing := (requestL l .pause).interrupt } := by
  have hn := requestL_new l .pause
  intro i hi
  have hi' : (requestL l .pause).interrupt = some i := hi
  rw [hn.1] at hi'; cases hi'
  simpa [actionKind] using hn.2.1

theorem pauseL_pok (hF : FP F) (l : LCfg) (h : PausingOk l.c) : PausingOk (pauseL F l).1.c := by
  unfold pauseL; dsimp only
  split
  · exact h
  · split
    · exact h
    · split
      · exact pausingOk_ctl h (hand_ctl _ _).1
      · split
        · exact h
        · split
          · split
            · exact pausingOk_ctl (pause_alias_pok l) (hand_ctl _ _).1
            · exact pause_alias_pok l
          · exact doPauseL_pok hF l h

theorem playL_pok (hF : FP F) (l : LCfg) (h : PausingOk l.c) : PausingOk (playL F l).1.c := by
  unfold playL
  have h1 : PausingOk (l.upd (fun c => (play c).1)).c := h.kx (play_kx l.c)
  split
  · exact h1
  · exact hF _ _ h1

theorem kill_alias_pok (l : LCfg) (h : PausingOk l.c) :
    PausingOk { requestL l .kill with killing := (requestL l .kill).interrupt } := by
  have hn := requestL_new l .kill
  have hkd := requestL_kd l .kill
  intro i hi
  have hi' : (requestL l .kill).pausing = some i := hi
  rw [hn.2.2.2.2] at hi'
  have := hkd i _ (h i hi')
  simpa [actionKind] using this

theorem killL_pok (hF : FP F) (l : LCfg) (h : PausingOk l.c) : PausingOk (killL F l).1.c := by
  unfold killL; dsimp only
  split
  · exact h
  · split
    · exact h
    · split
      · exact pausingOk_ctl h (hand_ctl _ _).1
      · split
        · split
          · exact pausingOk_ctl (kill_alias_pok l h) (hand_ctl _ _).1
          · exact kill_alias_pok l h
        · exact transitionToL_pok hF l _ h

theorem reqK_pok (hF : FP F) (r : Req) (l : LCfg) (h : PausingOk l.c) : PausingOk (reqK F r l).c := by
  cases r
  · exact pauseL_pok hF l h
  · exact playL_pok hF l h
  · exact killL_pok hF l h
end

theorem fireK_pok {R : Req → LCfg → LCfg} (hR : ∀ r l, PausingOk l.c → PausingOk (R r l).c) (h : Hook) (l : LCfg)
    (hp : PausingOk l.c) : PausingOk (fireK R h l).c := by
  rcases fireK_cases R h l with h1 | ⟨e, _, h1⟩
  · rw [h1]; exact hp
  · rw [h1]; exact hR _ _ hp

theorem fireN_fp : ∀ n, FP (fireN n)
  | 0 => fun _ _ h => h
  | n+1 => fun h l hp => by
      unfold fireN
      exact fireK_pok (fun r l hp => reqK_pok (fireN_fp n) r l hp) h l hp

end L
end PMF

namespace PMF
namespace L

/-! ### the requests of the oracle keep `KJ`, in every context -/

/-- the transition flag is kept, or cleared by a (nested) transition that ran to its end -/
def TrRel (l l' : LCfg) : Prop := l'.trans = l.trans ∨ l'.trans = none
theorem TrRel.rfl' (l : LCfg) : TrRel l l := Or.inl rfl
theorem TrRel.trans {a b c : LCfg} (h1 : TrRel a b) (h2 : TrRel b c) : TrRel a c := by
  rcases h2 with h2 | h2
  · rcases h1 with h1 | h1
    · exact Or.inl (h2.trans h1)
    · exact Or.inr (h2.trans h1)
  · exact Or.inr h2
theorem TrRel.none {l l' : LCfg} (h : TrRel l l') (hn : l.trans = none) : l'.trans = none := by
  rcases h with h | h
  · rw [h]; exact hn
  · exact h

def FK (F : Hook → LCfg → LCfg) : Prop := ∀ h l, KJ l → KJ (F h l) ∧ TrRel l (F h l)

/-- rebuild the invariant for a new `Cfg` with the same state object -/
theorem KJ.rebuild {l : LCfg} (h : KJ l) (c' : Cfg) (hst : c'.st = l.c.st)
    (hkok : ∀ k, c'.killing = some k → terminal c'.st.label = true ∨ Pending k c') (hpok : PausingOk c')
    (hkill : l.c.killing ≠ none → c'.killing ≠ none) : KJ { l with c := c' } := by
  refine ⟨hkok, hpok, fun ho => ?_, fun ho => ?_⟩
  · show c'.st.label ≠ _ ∧ _; rw [hst]; exact h.nofin ho
  · rcases h.ook ho with hke | hb | hk
    · left; unfold KE; show c'.st.label = _ ∨ c'.st.label = _; rw [hst]; exact hke
    · exact Or.inr (Or.inl hb)
    · exact Or.inr (Or.inr (hkill hk))

/-- a process that is KILLED / EXCEPTED with no transition in progress satisfies the invariant -/
theorem KJ.of_ke {d : LCfg} (hke : KE d.c) (hp : PausingOk d.c) (htr : d.trans = none) : KJ d :=
  ⟨fun _ _ => Or.inl (ke_terminal hke), hp,
    fun _ => ⟨by rcases hke with h | h <;> rw [h] <;> simp, by rw [htr]; simp⟩, fun _ => Or.inl hke⟩

theorem transitionToL_trans (F : Hook → LCfg → LCfg) (l : LCfg) (s : SObj) : (transitionToL F l s).trans = none := by
  unfold transitionToL; rfl

/-- a transition into KILLED / EXCEPTED, from any configuration -/
theorem transitionToL_ke_kj {F : Hook → LCfg → LCfg} (hP : FP F) (l : LCfg) (s : SObj)
    (hs : s.label = .killed ∨ s.label = .excepted) (hp : PausingOk l.c) : KJ (transitionToL F l s) :=
  KJ.of_ke (transitionToL_ke l s hs) (transitionToL_pok hP l s hp) (transitionToL_trans F l s)

theorem play_killing (c : Cfg) : (play c).1.killing = c.killing := by
  unfold play
  split
  · split
    · exact (cancelAction_fields _ _).1
    · rfl
  · dsimp only; split <;> rfl

section
variable {F : Hook → LCfg → LCfg}

theorem hand_kj {l : LCfg} (h : KJ l) (i : Nat) : KJ (l.upd (fun c => hand c i)) :=
  h.upd _ (hand_ctl l.c i).1 (Or.inl (by rw [(hand_ctl l.c i).2])) (fun ho => by rw [(hand_ctl l.c i).2]; exact (h.nofin ho).1)

theorem doPauseL_kj (hF : FK F) (l : LCfg) (h : KJ l) : KJ (doPauseL F l) ∧ TrRel l (doPauseL F l) := by
  unfold doPauseL; dsimp only
  have h1 : KJ (l.upd doPauseHooks) :=
    h.upd _ ⟨rfl, rfl, rfl, rfl, Or.inr rfl⟩ (Or.inl rfl) (fun ho => (h.nofin ho).1)
  obtain ⟨h2, t2⟩ := hF .paused _ h1
  exact ⟨h2.upd _ ⟨rfl, rfl, rfl, rfl, Or.inr rfl⟩ (Or.inl rfl) (fun ho => (h2.nofin ho).1), t2⟩

theorem pauseL_kj (hF : FK F) (l : LCfg) (h : KJ l) : KJ (pauseL F l).1 ∧ TrRel l (pauseL F l).1 := by
  unfold pauseL
  dsimp only
  split
  · exact ⟨h, TrRel.rfl' l⟩
  · split
    · exact ⟨h, TrRel.rfl' l⟩
    · split
      · exact ⟨hand_kj h _, TrRel.rfl' l⟩
      · split
        · exact ⟨h, TrRel.rfl' l⟩
        · rename_i hnk
          split
          · have hkn : l.c.killing = none := by
              cases hk : l.c.killing with
              | none => rfl
              | some k => simp [hk] at hnk
            have hn := requestL_new l .pause
            have hst := (requestL_hkc l .pause).st
            have hkj : KJ { l with c := { requestL l .pause with pausing := (requestL l .pause).interrupt } } := by
              refine h.rebuild _ hst ?_ (pause_alias_pok l) (fun hne => (hne hkn).elim)
              intro k hk
              have : (requestL l .pause).killing = some k := hk
              rw [hn.2.2.2.1, hkn] at this; cases this
            split
            · exact ⟨hand_kj hkj _, Or.inl rfl⟩
            · exact ⟨hkj, Or.inl rfl⟩
          · exact doPauseL_kj hF l h

theorem playL_kj (hF : FK F) (l : LCfg) (h : KJ l) : KJ (playL F l).1 ∧ TrRel l (playL F l).1 := by
  have h1 : KJ (l.upd (fun c => (play c).1)) := by
    refine h.rebuild _ (play_hkc l.c).st ?_ (h.pok.kx (play_kx l.c)) (fun hne => by rw [play_killing]; exact hne)
    intro k hk
    rw [play_killing] at hk
    rcases h.kok k hk with ht | hp
    · left; rw [(play_hkc l.c).st]; exact ht
    · exact Or.inr (play_pending k l.c hp h.pok)
  unfold playL
  split
  · exact ⟨h1, Or.inl rfl⟩
  · exact hF _ _ h1

theorem owed_cons (l l1 : LCfg) (hk : Hook) (b : Bool) (hi : l1.issued = (hk, Req.kill, b) :: l.issued) :
    Owed l1 ↔ Owed l ∨ b = true := by
  unfold Owed
  rw [hi]
  constructor
  · rintro ⟨h, hm⟩
    rcases List.mem_cons.mp hm with he | hm
    · right; injection he with _ he; injection he with _ he; exact he.symm
    · exact Or.inl ⟨h, hm⟩
  · rintro (⟨h, hm⟩ | hb)
    · exact ⟨h, List.mem_cons_of_mem _ hm⟩
    · exact ⟨hk, by rw [hb]; exact List.mem_cons_self⟩

theorem owed_cons_other (l l1 : LCfg) (e : Hook × Req × Bool) (hne : e.2.1 ≠ Req.kill) (hi : l1.issued = e :: l.issued) :
    Owed l1 ↔ Owed l := by
  unfold Owed
  rw [hi]
  constructor
  · rintro ⟨h, hm⟩
    rcases List.mem_cons.mp hm with he | hm
    · rw [← he] at hne; exact (hne rfl).elim
    · exact ⟨h, hm⟩
  · rintro ⟨h, hm⟩
    exact ⟨h, List.mem_cons_of_mem _ hm⟩

/-- `kill()` issued by the oracle, logged with the flag "live and not on the way into a terminal state" -/
theorem killL_kj (hP : FP F) (l l1 : LCfg) (h : KJ l) (hc : l1.c = l.c) (ht : l1.trans = l.trans)
    (how' : Owed l1 → Owed l ∨ (live l.c && !terminalBound l) = true) :
    KJ (killL F l1).1 ∧ TrRel l (killL F l1).1 := by
  have how : Owed l1 ↔ Owed l1 := Iff.rfl
  replace how : (Owed l1 → Owed l ∨ (live l.c && !terminalBound l) = true) ∧ True := ⟨how', trivial⟩
  have hflag : (live l.c && !terminalBound l) = true → terminal l.c.st.label = false ∧ l.trans ≠ some .finished := by
    intro hb
    simp only [live, Bool.and_eq_true, Bool.not_eq_eq_eq_not, Bool.not_true] at hb
    refine ⟨hb.1, ?_⟩
    intro htf
    have := hb.2
    simp [terminalBound, htf, terminal, allowed] at this
  have hlive_nofin : terminal l.c.st.label = false → l.c.st.label ≠ .finished := by
    intro hl hf; rw [hf] at hl; simp [terminal, allowed] at hl
  have hdead : terminal l.c.st.label = true → KJ l1 := by
    intro hterm
    have hnb : (live l.c && !terminalBound l) = false := by simp [live, hterm]
    have ho : Owed l1 → Owed l := fun ho => by
      rcases how.1 ho with h' | h'
      · exact h'
      · rw [hnb] at h'; cases h'
    exact h.of_owed_imp hc ht ho
  unfold killL
  dsimp only
  split
  · rename_i hkl
    exact ⟨hdead (by rw [hc] at hkl; simp [hkl, terminal, allowed]), Or.inl ht⟩
  · split
    · rename_i hterm
      exact ⟨hdead (by rw [hc] at hterm; exact hterm), Or.inl ht⟩
    · rename_i hnk hnt
      have hl : terminal l.c.st.label = false := by rw [hc] at hnt; simpa using hnt
      split
      · rename_i i hki
        have hki' : l.c.killing = some i := by rw [← hc]; exact hki
        refine ⟨?_, Or.inl ht⟩
        show KJ { l1 with c := hand l1.c i }
        rw [hc]
        have hh := hand_ctl l.c i
        refine ⟨?_, pausingOk_ctl h.pok hh.1, fun o => ?_, fun o => ?_⟩
        · intro k hk'
          have : l.c.killing = some k := by rw [← hh.1.killing]; exact hk'
          rcases h.kok k this with ht' | hp
          · rw [ht'] at hl; cases hl
          · exact Or.inr (pending_ctl hp hh.1 (by rw [hh.2]; exact hl))
        · show (hand l.c i).st.label ≠ _ ∧ l1.trans ≠ _
          rw [hh.2, ht]
          rcases how.1 o with o' | o'
          · exact h.nofin o'
          · exact ⟨hlive_nofin hl, (hflag o').2⟩
        · right; right
          show (hand l.c i).killing ≠ none
          rw [hh.1.killing, hki']; simp
      · rename_i hkn
        have hkn' : l.c.killing = none := by rw [← hc]; exact hkn
        split
        · rename_i hs1
          have hn := requestL_new l1 .kill
          have hhk := requestL_hkc l1 .kill
          have hkj : KJ { l1 with c := { requestL l1 .kill with killing := (requestL l1 .kill).interrupt } } := by
            refine ⟨?_, kill_alias_pok l1 (by rw [hc]; exact h.pok), fun o => ?_, fun o => ?_⟩
            · intro k hk'
              have hk'' : (requestL l1 .kill).interrupt = some k := hk'
              rw [hn.1] at hk''; cases hk''
              right
              refine ⟨?_, hn.1, hn.1, ?_, ?_, ?_⟩
              · show terminal (requestL l1 .kill).st.label = false; rw [hhk.st, hc]; exact hl
              · simpa [actionStatus] using hn.2.2.1
              · show (requestL l1 .kill).stepping = true; rw [hhk.stepping]; exact hs1
              · simpa [actionKind] using hn.2.1
            · show (requestL l1 .kill).st.label ≠ _ ∧ l1.trans ≠ _
              rw [hhk.st, hc, ht]
              rcases how.1 o with o' | o'
              · exact h.nofin o'
              · exact ⟨hlive_nofin hl, (hflag o').2⟩
            · right; right
              show (requestL l1 .kill).interrupt ≠ none
              rw [hn.1]; simp
          split
          · exact ⟨hand_kj hkj _, Or.inl ht⟩
          · exact ⟨hkj, Or.inl ht⟩
        · -- outside a step: the transition into KILLED is made at once
          exact ⟨transitionToL_ke_kj hP l1 .killed (Or.inl rfl) (by rw [hc]; exact h.pok),
            Or.inr (transitionToL_trans F l1 .killed)⟩

theorem reqK_kj_logged (hF : FK F) (hP : FP F) (l l0 : LCfg) (hk : Hook) (r : Req) (h : KJ l)
    (hc : l0.c = l.c) (ht : l0.trans = l.trans) (hi : l0.issued = l.issued) :
    KJ (reqK F r (logIssued l0 hk r)) ∧ TrRel l (reqK F r (logIssued l0 hk r)) := by
  have hlog : (logIssued l0 hk r).issued = (hk, r, live l.c && !terminalBound l) :: l.issued := by
    unfold logIssued terminalBound; simp only [hc, ht, hi]
  have htl : TrRel l (logIssued l0 hk r) := Or.inl ht
  cases r with
  | kill => exact killL_kj hP l _ h hc ht (owed_cons l _ hk _ hlog).mp
  | pause =>
    have h1 : KJ (logIssued l0 hk .pause) := by
      have ho := owed_cons_other l (logIssued l0 hk .pause) _ (by simp) hlog
      exact h.of_owed_imp hc ht ho.mp
    obtain ⟨h2, t2⟩ := pauseL_kj hF _ h1
    exact ⟨h2, htl.trans t2⟩
  | play =>
    have h1 : KJ (logIssued l0 hk .play) := by
      have ho := owed_cons_other l (logIssued l0 hk .play) _ (by simp) hlog
      exact h.of_owed_imp hc ht ho.mp
    obtain ⟨h2, t2⟩ := playL_kj hF _ h1
    exact ⟨h2, htl.trans t2⟩

theorem fireK_kj (hF : FK F) (hP : FP F) (hk : Hook) (l : LCfg) (h : KJ l) :
    KJ (fireK (reqK F) hk l) ∧ TrRel l (fireK (reqK F) hk l) := by
  rcases fireK_cases (reqK F) hk l with h1 | ⟨e, _, h1⟩
  · rw [h1]; exact ⟨h.same rfl rfl rfl, Or.inl rfl⟩
  · rw [h1]
    exact reqK_kj_logged hF hP l _ hk e.2.2 h rfl rfl rfl
end

theorem fireN_fk : ∀ n, FK (fireN n)
  | 0 => fun _ _ h => ⟨h.same rfl rfl rfl, Or.inl rfl⟩
  | n+1 => fun hk l h => by
      unfold fireN
      exact fireK_kj (fireN_fk n) (fireN_fp n) hk l h

end L
end PMF
