import PlumpyModel.PM.Proof2
/-!
# Barrier invariant (C10)

`InvB`: the wait of a WAITING state can hold (or have parked) a *result* only when nothing is awaited any more.
Per-function lemmas mirror `Proof1.lean` (same case structure).
-/
namespace PMF

def isResult : WF → Bool
  | .result _ => true | _ => false

/-- the barrier invariant, together with well-formedness of the waiting-future index -/
def InvB (c : Cfg) : Prop :=
  ∀ fn wf wk aw, c.st = .waiting fn wf wk aw →
    wf < c.wfs.length ∧
    (((c.wfs[wf]?).map isResult = some true ∨ (wk.map isResult) = some true) → aw = [])

/-- `c'` has the same state object and the same waiting futures -/
def SameW (c c' : Cfg) : Prop := c'.st = c.st ∧ c'.wfs = c.wfs

theorem SameW.rfl' (c : Cfg) : SameW c c := ⟨rfl, rfl⟩
theorem SameW.trans {a b c : Cfg} (h1 : SameW a b) (h2 : SameW b c) : SameW a c := ⟨h2.1.trans h1.1, h2.2.trans h1.2⟩
theorem InvB.sameW {c c' : Cfg} (h : InvB c) (s : SameW c c') : InvB c' := by
  intro fn wf wk aw hst
  rw [s.1] at hst; rw [s.2]; exact h fn wf wk aw hst

theorem invB_init (nf : Nat) : InvB (init nf) := by
  intro fn wf wk aw hst; simp [init] at hst

/-! frame lemmas -/
theorem setActionStatus_sameW (c : Cfg) (i s) : SameW c (setActionStatus c i s) := by
  unfold setActionStatus; split <;> exact ⟨rfl, rfl⟩
theorem cancelAction_sameW (c : Cfg) (i) : SameW c (cancelAction c i) := by
  unfold cancelAction; split
  · exact setActionStatus_sameW ..
  · exact SameW.rfl' c
theorem setInterrupt_sameW (c : Cfg) (n) : SameW c (setInterrupt c n) := by
  unfold setInterrupt
  split
  · exact SameW.trans (cancelAction_sameW c _) ⟨rfl, rfl⟩
  · exact ⟨rfl, rfl⟩
theorem setInterruptFromExc_sameW (c : Cfg) (k n) : SameW c (setInterruptFromExc c k n) := by
  unfold setInterruptFromExc cancelInterrupt
  split
  · exact SameW.trans (cancelAction_sameW c _) ⟨rfl, rfl⟩
  · exact ⟨rfl, rfl⟩
theorem hand_sameW (c : Cfg) (i) : SameW c (hand c i) := by
  unfold hand; split <;> exact ⟨rfl, rfl⟩
theorem doPauseHooks_sameW (c : Cfg) : SameW c (doPauseHooks c) := ⟨rfl, rfl⟩

theorem exitState_st (c : Cfg) : (exitState c).st = c.st := by
  unfold exitState; split
  · dsimp only; split <;> rfl
  · rfl

theorem enterState_sameW (c : Cfg) (s : SObj) : SameW c (enterState c s) := by
  unfold enterState; split
  · rename_i aw
    generalize hc : c = c0
    have : ∀ (l : List (Nat × Nat)) (d : Cfg), SameW c0 d →
        SameW c0 (l.foldl (fun c (p : Nat × Nat) =>
          let c := { c with efKeys := p :: c.efKeys }
          match c.efs[p.1]? with
          | some EFut.pending => { c with efCb := c.efCb ++ [p.1] }
          | some _ => { c with ready := c.ready ++ [.adone p.1] }
          | none => c) d) := by
      intro l; induction l with
      | nil => intro d hd; exact hd
      | cons a l ih =>
        intro d hd; simp only [List.foldl]
        apply ih
        split <;> exact SameW.trans hd ⟨rfl, rfl⟩
    exact this aw c0 (SameW.rfl' c0)
  · exact SameW.rfl' c

theorem freshFut_sameW (c : Cfg) : SameW c (freshFutIfCancelled c) := by
  unfold freshFutIfCancelled; split <;> exact ⟨rfl, rfl⟩
theorem setFutExc_sameW (c : Cfg) (e) : SameW c (setFutExc c e) := by
  unfold setFutExc; split <;> exact ⟨rfl, rfl⟩
theorem enteringHooks_sameW (c c2 : Cfg) (s : SObj) (h : enteringHooks c s = .ok c2) : SameW c c2 := by
  unfold enteringHooks at h
  split at h
  · dsimp only at h
    split at h
    · cases h; exact SameW.trans (freshFut_sameW c) ⟨rfl, rfl⟩
    · cases h
  · dsimp only at h
    split at h
    · cases h; exact SameW.trans (freshFut_sameW c) ⟨rfl, rfl⟩
    · cases h
  · cases h; exact setFutExc_sameW c _
  · cases h; exact SameW.rfl' c
theorem enteredHooks_sameW (c : Cfg) (s : SObj) : SameW c (enteredHooks c s) := by
  unfold enteredHooks
  split <;> split <;> exact ⟨rfl, rfl⟩
theorem releasePause_sameW (c : Cfg) : SameW c (releasePause c) := by
  unfold releasePause; split
  · split <;> exact ⟨rfl, rfl⟩
  · exact SameW.rfl' c
theorem onClose_sameW (c : Cfg) : SameW c (onClose c) := by
  unfold onClose; split <;> exact ⟨rfl, rfl⟩
theorem onTerminated_sameW (c : Cfg) : SameW c (onTerminated c) := by
  unfold onTerminated; exact SameW.trans (releasePause_sameW c) (onClose_sameW _)

/-- a state that is not WAITING satisfies the barrier invariant trivially -/
theorem invB_of_not_waiting {c : Cfg} (h : ∀ fn wf wk aw, c.st ≠ .waiting fn wf wk aw) : InvB c := by
  intro fn wf wk aw hst; exact absurd hst (h fn wf wk aw)

theorem forceExcepted_invB (c : Cfg) (e : Exc) : InvB (forceExcepted c e) := by
  apply invB_of_not_waiting
  intro fn wf wk aw
  unfold forceExcepted
  split
  · intro h; cases h
  · rw [(onTerminated_sameW _).1, (enteredHooks_sameW _ _).1]; intro h; cases h

/-- the target of a transition is *fresh*: if it is a WAITING state, its future is pending, nothing is parked, and its
index differs from the one of the state being left -/
def Fresh (c : Cfg) (s : SObj) : Prop :=
  ∀ fn wf wk aw, s = .waiting fn wf wk aw →
    c.wfs[wf]? = some .pending ∧ wk = none ∧ ∀ f' wf' wk' aw', c.st = .waiting f' wf' wk' aw' → wf' ≠ wf

theorem fresh_of_not_waiting (c : Cfg) (s : SObj) (h : ∀ fn wf wk aw, s ≠ .waiting fn wf wk aw) : Fresh c s := by
  intro fn wf wk aw hs; exact absurd hs (h fn wf wk aw)

/-- `exitState` touches the waiting future of the state being left only -/
theorem exitState_wfs_other (c : Cfg) (j : Nat) (hj : ∀ f' wf' wk' aw', c.st = .waiting f' wf' wk' aw' → wf' ≠ j) :
    (exitState c).wfs[j]? = c.wfs[j]? := by
  unfold exitState; split
  · rename_i f' wf' wk' aw' hst
    dsimp only
    split
    · have : wf' ≠ j := hj _ _ _ _ hst
      simp [setAt, List.getElem?_set, this]
    · rfl
  · rfl

theorem exitState_wfs_len (c : Cfg) : (exitState c).wfs.length = c.wfs.length := by
  unfold exitState; split
  · dsimp only; split
    · simp [setAt]
    · rfl
  · rfl

/-- installing a fresh state `s` over a configuration whose waiting futures are those of `c1` -/
theorem invB_install (d : Cfg) (s : SObj) (hst : d.st = s)
    (hfr : ∀ fn wf wk aw, s = .waiting fn wf wk aw → d.wfs[wf]? = some .pending ∧ wk = none) : InvB d := by
  intro fn wf wk aw h
  rw [hst] at h
  obtain ⟨hp, hw⟩ := hfr fn wf wk aw h
  refine ⟨(List.getElem?_eq_some_iff.mp hp).1, ?_⟩
  intro hpre
  rcases hpre with g | g
  · rw [hp] at g; simp [isResult] at g
  · rw [hw] at g; simp at g

theorem enterNext_invB (c : Cfg) (s : SObj)
    (hfr : ∀ fn wf wk aw, s = .waiting fn wf wk aw → c.wfs[wf]? = some .pending ∧ wk = none) : InvB (enterNext c s) := by
  unfold enterNext
  dsimp only
  have hW : SameW c (enterState c s) := enterState_sameW c s
  have h1 : (enteredHooks (setState (enterState c s) s) s).st = s := by rw [(enteredHooks_sameW _ _).1]; rfl
  have h2 : (enteredHooks (setState (enterState c s) s) s).wfs = c.wfs := by
    rw [(enteredHooks_sameW _ _).2]; show (enterState c s).wfs = c.wfs; exact hW.2
  split
  · apply invB_install _ s (by rw [(onTerminated_sameW _).1]; exact h1)
    intro fn wf wk aw hs; rw [(onTerminated_sameW _).2, h2]; exact hfr fn wf wk aw hs
  · apply invB_install _ s h1
    intro fn wf wk aw hs; rw [h2]; exact hfr fn wf wk aw hs

theorem transitionTo_invB (c : Cfg) (s : SObj) (hf : Fresh c s) : InvB (transitionTo c s) := by
  have hfr1 : ∀ fn wf wk aw, s = .waiting fn wf wk aw → (exitState c).wfs[wf]? = some .pending ∧ wk = none := by
    intro fn wf wk aw hs
    obtain ⟨hp, hw, hne⟩ := hf fn wf wk aw hs
    exact ⟨by rw [exitState_wfs_other c wf hne]; exact hp, hw⟩
  unfold transitionTo
  split
  · dsimp only
    split
    · apply invB_install _ s rfl
      intro fn wf wk aw hs; exact hfr1 fn wf wk aw hs
    · split
      · exact forceExcepted_invB _ _
      · rename_i c2 hok
        have hW := enteringHooks_sameW _ c2 s hok
        apply enterNext_invB
        intro fn wf wk aw hs; rw [hW.2]; exact hfr1 fn wf wk aw hs
  · exact forceExcepted_invB _ _

theorem interruptState_invB (c : Cfg) (k : Nat) (h : InvB c) : InvB (interruptState c k) := by
  unfold interruptState
  split
  · rename_i fn wf wk aw hst
    split
    · rename_i hp
      intro fn' wf' wk' aw' hst'
      have hst'' : c.st = .waiting fn' wf' wk' aw' := hst'
      rw [hst] at hst''; cases hst''
      obtain ⟨hlt, himp⟩ := h fn wf wk aw hst
      refine ⟨by simpa [setAt] using hlt, ?_⟩
      intro hpre
      apply himp
      rcases hpre with g | g
      · simp [setAt, List.getElem?_set, hlt, isResult] at g
      · exact Or.inr g
    · exact h
  · exact h

theorem deliver_invB (c : Cfg) (o : WF) (h : InvB c)
    (hempty : isResult o = true → ∀ fn wf wk aw, c.st = .waiting fn wf wk aw → aw = []) : InvB (deliver c o) := by
  unfold deliver
  split
  · rename_i fn wf wk aw hst
    obtain ⟨hlt, himp⟩ := h fn wf wk aw hst
    split
    · intro fn' wf' wk' aw' hst'
      have hst'' : c.st = .waiting fn' wf' wk' aw' := hst'
      rw [hst] at hst''; cases hst''
      refine ⟨by simpa [setAt] using hlt, ?_⟩
      intro hpre
      rcases hpre with g | g
      · have : isResult o = true := by simpa [setAt, List.getElem?_set, hlt] using g
        exact hempty this fn wf wk aw hst
      · exact himp (Or.inr g)
    · split
      · intro fn' wf' wk' aw' hst'
        have hst'' : SObj.waiting fn wf (some o) aw = .waiting fn' wf' wk' aw' := hst'
        cases hst''
        refine ⟨hlt, ?_⟩
        intro hpre
        rcases hpre with g | g
        · exact himp (Or.inl g)
        · have : isResult o = true := by simpa using g
          exact hempty this fn wf wk aw hst
      · exact h
    · exact h
  · exact h

theorem cmdToState_invB (c : Cfg) (cmd : Cmd) (h : InvB c) : InvB (cmdToState c cmd).1 := by
  have happ : InvB { c with wfs := c.wfs ++ [WF.pending] } := by
    intro fn wf wk aw hst
    obtain ⟨hlt, himp⟩ := h fn wf wk aw hst
    refine ⟨by simp; omega, ?_⟩
    intro hpre; apply himp
    simpa [List.getElem?_append_left hlt] using hpre
  unfold cmdToState; split <;> first | exact h | exact happ

theorem cmdToState_fresh (c : Cfg) (cmd : Cmd) (h : InvB c) : Fresh (cmdToState c cmd).1 (cmdToState c cmd).2 := by
  have key : ∀ fn aw, Fresh { c with wfs := c.wfs ++ [WF.pending] } (.waiting fn c.wfs.length none aw) := by
    intro fn aw fn' wf wk aw' hs
    cases hs
    refine ⟨by simp, rfl, ?_⟩
    intro f' wf' wk' aw'' hst
    have := (h f' wf' wk' aw'' hst).1
    omega
  unfold cmdToState; split
  · exact fresh_of_not_waiting _ _ (by intro _ _ _ _ h; cases h)
  · exact key _ _
  · exact key _ _
  · exact fresh_of_not_waiting _ _ (by intro _ _ _ _ h; cases h)
  · exact fresh_of_not_waiting _ _ (by intro _ _ _ _ h; cases h)

end PMF

namespace PMF

theorem Fresh.sameW {c c' : Cfg} {s : SObj} (h : Fresh c s) (w : SameW c c') : Fresh c' s := by
  intro fn wf wk aw hs
  obtain ⟨a, b, d⟩ := h fn wf wk aw hs
  exact ⟨by rw [w.2]; exact a, b, by intro f' wf' wk' aw' hst; rw [w.1] at hst; exact d f' wf' wk' aw' hst⟩

theorem runAction_invB (c : Cfg) (i : Nat) (next : Option SObj) (h : InvB c) (hf : ∀ s, next = some s → Fresh c s) :
    InvB (runAction c i next) := by
  unfold runAction
  split
  · exact h
  · split
    · exact h.sameW ⟨rfl, rfl⟩
    · split
      · cases next with
        | none => exact (h.sameW (doPauseHooks_sameW c)).sameW (setActionStatus_sameW ..)
        | some s => exact ((transitionTo_invB c s (hf s rfl)).sameW (doPauseHooks_sameW _)).sameW (setActionStatus_sameW ..)
      · exact ((transitionTo_invB c .killed (fresh_of_not_waiting _ _ (by intro _ _ _ _ h; cases h))).sameW ⟨rfl, rfl⟩).sameW
          (setActionStatus_sameW ..)

theorem prepare_sameW (c : Cfg) (r : StepEnd) : SameW c (prepare c r).1 := by
  unfold prepare
  split
  · exact setInterrupt_sameW ..
  · exact SameW.rfl' c
  · split
    · exact SameW.rfl' c
    · exact setInterruptFromExc_sameW ..
  · exact setInterrupt_sameW ..

theorem prepare_next (c : Cfg) (r : StepEnd) (s : SObj) (h : (prepare c r).2 = some s) :
    r = .next (some s) ∨ (∀ fn wf wk aw, s ≠ .waiting fn wf wk aw) := by
  unfold prepare at h
  split at h
  · cases h; exact Or.inr (by intro _ _ _ _ h; cases h)
  · left; simp at h; rw [h]
  · split at h <;> cases h
  · cases h; exact Or.inr (by intro _ _ _ _ h; cases h)

theorem dispatch_invB (c : Cfg) (next : Option SObj) (h : InvB c) (hf : ∀ s, next = some s → Fresh c s) :
    InvB (dispatch c next) := by
  unfold dispatch
  split
  · exact h
  · split
    · split
      · exact runAction_invB c _ next h hf
      · cases next with
        | none => exact h
        | some s => exact transitionTo_invB c s (hf s rfl)
    · cases next with
      | none => exact h
      | some s => exact transitionTo_invB c s (hf s rfl)

theorem finally_sameW (c : Cfg) : SameW c (finally_ c) :=
  SameW.trans (⟨rfl, rfl⟩ : SameW c { c with stepping := false }) (setInterrupt_sameW _ _)

theorem endOfStep_invB (c : Cfg) (r : StepEnd) (h : InvB c) (hf : ∀ s, r = .next (some s) → Fresh c s) :
    InvB (endOfStep c r) := by
  unfold endOfStep
  have hW := prepare_sameW c r
  refine (dispatch_invB _ _ (h.sameW hW) ?_).sameW (finally_sameW _)
  intro s hs
  rcases prepare_next c r s hs with g | g
  · exact (hf s g).sameW hW
  · exact fresh_of_not_waiting _ _ g

theorem finishUser_invB (c : Cfg) (o : Outcome) (h : InvB c) : InvB (finishUser c o) := by
  unfold finishUser
  split
  · rename_i cmd
    refine endOfStep_invB _ _ (cmdToState_invB c cmd h) ?_
    intro s hs; cases hs; exact cmdToState_fresh c cmd h
  · refine endOfStep_invB _ _ h ?_
    intro s hs; cases hs; exact fresh_of_not_waiting _ _ (by intro _ _ _ _ h; cases h)

theorem wake_invB (c : Cfg) (fn wf : Nat) (w : WF) (h : InvB c) : InvB (wake c fn wf w) := by
  unfold wake
  split
  · refine endOfStep_invB _ _ h ?_
    intro s hs; cases hs; exact fresh_of_not_waiting _ _ (by intro _ _ _ _ h; cases h)
  · refine endOfStep_invB _ _ ?_ (by intro s hs; cases hs)
    split
    · rename_i f wf' wakeup aw hst
      split
      · -- re-arm: fresh future holding the parked outcome
        obtain ⟨hlt, himp⟩ := h f wf' wakeup aw hst
        intro fn' wf'' wk' aw' hst'
        have hst'' : SObj.waiting f c.wfs.length none aw = .waiting fn' wf'' wk' aw' := hst'
        cases hst''
        refine ⟨by simp, ?_⟩
        intro hpre
        apply himp
        rcases hpre with g | g
        · right
          cases wakeup with
          | none => simp [isResult] at g
          | some o => simpa using g
        · simp at g
      · exact h
    · exact h
  · refine endOfStep_invB _ _ h (by intro s hs; cases hs)
  · exact h

theorem stepBody_of_loopHeadB (P : Prog) (n : Nat) (hL : ∀ c, InvB c → InvB (loopHead P n c)) :
    ∀ c, InvB c → InvB (stepBody P n c) := by
  intro c h
  unfold stepBody stepBodyK
  have hs : InvB { c with stepping := true } := h.sameW ⟨rfl, rfl⟩
  dsimp only
  split
  · refine hL _ (endOfStep_invB _ _ hs ?_)
    intro s hs'; cases hs'; exact fresh_of_not_waiting _ _ (by intro _ _ _ _ h; cases h)
  · split
    · exact hL _ (finishUser_invB _ _ (hs.sameW ⟨rfl, rfl⟩))
    · exact hs.sameW ⟨rfl, rfl⟩
  · split
    · exact hs.sameW ⟨rfl, rfl⟩
    · exact hL _ (wake_invB _ _ _ _ hs)
    · exact hs
  · exact hL _ (endOfStep_invB _ _ hs (by intro s hs'; cases hs'))

theorem loopHead_invB (P : Prog) : ∀ (fuel : Nat) (c : Cfg), InvB c → InvB (loopHead P fuel c) := by
  intro fuel
  induction fuel with
  | zero => intro c h; simpa [loopHead] using h
  | succ n ih =>
    intro c h
    have hb := stepBody_of_loopHeadB P n ih
    unfold loopHead
    split
    · exact h
    · split
      · exact h.sameW ⟨rfl, rfl⟩
      · split
        · exact h.sameW ⟨rfl, rfl⟩
        · split
          · split
            · exact h.sameW ⟨rfl, rfl⟩
            · exact hb c h
          · exact hb c h

theorem stepBody_invB (P : Prog) (fuel : Nat) (c : Cfg) (h : InvB c) : InvB (stepBody P fuel c) :=
  stepBody_of_loopHeadB P fuel (loopHead_invB P fuel) c h

theorem tickStepper_invB (P : Prog) (c : Cfg) (h : InvB c) : InvB (tickStepper P c) := by
  unfold tickStepper
  split
  · exact loopHead_invB P _ c h
  · split
    · split
      · split
        · exact h.sameW ⟨rfl, rfl⟩
        · exact stepBody_invB P _ c h
      · exact stepBody_invB P _ c h
    · exact h
  · split
    · exact loopHead_invB P _ _ (finishUser_invB _ _ h)
    · exact h.sameW ⟨rfl, rfl⟩
  · split
    · exact h
    · exact loopHead_invB P _ _ (wake_invB _ _ _ _ h)
    · exact h
  · exact h

theorem requestInterrupt_invB (c : Cfg) (k) (h : InvB c) : InvB (requestInterrupt c k) := by
  unfold requestInterrupt
  apply interruptState_invB
  exact (h.sameW (⟨rfl, rfl⟩ : SameW c { c with nextCookie := c.nextCookie + 1 })).sameW (setInterruptFromExc_sameW ..)

theorem pause_invB (c : Cfg) (h : InvB c) : InvB (pause c).1 := by
  unfold pause
  split
  · exact h
  · split
    · exact h
    · split
      · exact h.sameW (hand_sameW ..)
      · split
        · exact h
        · split
          · dsimp only
            have hs : InvB { requestInterrupt c .pause with pausing := (requestInterrupt c .pause).interrupt } :=
              (requestInterrupt_invB c .pause h).sameW ⟨rfl, rfl⟩
            split
            · exact hs.sameW (hand_sameW ..)
            · exact hs
          · exact h.sameW (doPauseHooks_sameW c)

theorem play_invB (c : Cfg) (h : InvB c) : InvB (play c).1 := by
  unfold play
  split
  · split
    · exact (h.sameW (cancelAction_sameW ..)).sameW ⟨rfl, rfl⟩
    · exact h
  · dsimp only
    split <;> exact h.sameW ⟨rfl, rfl⟩

theorem kill_invB (c : Cfg) (h : InvB c) : InvB (kill c).1 := by
  unfold kill
  split
  · exact h
  · split
    · exact h
    · split
      · exact h.sameW (hand_sameW ..)
      · split
        · dsimp only
          have hs : InvB { requestInterrupt c .kill with killing := (requestInterrupt c .kill).interrupt } :=
            (requestInterrupt_invB c .kill h).sameW ⟨rfl, rfl⟩
          split
          · exact hs.sameW (hand_sameW ..)
          · exact hs
        · exact transitionTo_invB c .killed (fresh_of_not_waiting _ _ (by intro _ _ _ _ h; cases h))

theorem fail_invB (c : Cfg) (e) (h : InvB c) : InvB (fail c e).1 := by
  unfold fail; split
  · exact h
  · exact transitionTo_invB c _ (fresh_of_not_waiting _ _ (by intro _ _ _ _ h; cases h))

theorem cancelFut_invB (c : Cfg) (h : InvB c) : InvB (cancelFut c).1 := by
  unfold cancelFut; split
  · exact h.sameW ⟨rfl, rfl⟩
  · exact h

theorem complete_invB (c : Cfg) (f o) (h : InvB c) : InvB (complete c f o) := by
  unfold complete; split
  · dsimp only; split <;> exact h.sameW ⟨rfl, rfl⟩
  · exact h

theorem awaitableDone_invB (c : Cfg) (f) (h : InvB c) : InvB (awaitableDone c f) := by
  unfold awaitableDone
  have hold : ∀ d : Cfg, InvB d → InvB (match d.efKeys.find? (·.1 = f), d.efs[f]? with
      | some (_, key), some (EFut.result v) => { d with ctx := (key, v) :: d.ctx.filter (·.1 ≠ key) }
      | _, _ => d) := by
    intro d hd; split
    · exact hd.sameW ⟨rfl, rfl⟩
    · exact hd
  dsimp only
  split
  · rename_i fn wf wakeup aw hst
    split
    · exact hold c h
    · -- `f` leaves the awaiting set
      obtain ⟨hlt, himp⟩ := h fn wf wakeup aw hst
      have h1 : InvB { c with st := .waiting fn wf wakeup (aw.filter (·.1 ≠ f)) } := by
        intro fn' wf' wk' aw' hst'
        have hst'' : SObj.waiting fn wf wakeup (aw.filter (·.1 ≠ f)) = .waiting fn' wf' wk' aw' := hst'
        cases hst''
        refine ⟨hlt, ?_⟩
        intro hpre
        have := himp hpre
        rw [this]; rfl
      split
      · split
        · rename_i hemp
          refine deliver_invB _ _ (h1.sameW ⟨rfl, rfl⟩) ?_
          intro _ fn' wf' wk' aw' hst'
          have hst'' : SObj.waiting fn wf wakeup (aw.filter (·.1 ≠ f)) = .waiting fn' wf' wk' aw' := hst'
          cases hst''
          simpa using hemp
        · exact h1.sameW ⟨rfl, rfl⟩
      · refine deliver_invB _ _ h1 ?_
        intro hr; simp [isResult] at hr
      · exact h1
  · exact hold c h

theorem tickCb_invB (c : Cfg) (cb) (h : InvB c) : InvB (tickCb c cb) := by
  unfold tickCb; split
  · have h1 : InvB { c with ready := c.ready.erase cb } := h.sameW ⟨rfl, rfl⟩
    split
    · exact awaitableDone_invB _ _ h1
    · exact (kill_invB _ h1).sameW ⟨rfl, rfl⟩
    · split
      · exact fail_invB _ _ h1
      · exact h1
  · exact h

/-- every event other than an external `resume()` preserves the barrier invariant -/
theorem step_invB (P : Prog) (c : Cfg) (ev : Ev) (h : InvB c) (hnr : ∀ v, ev ≠ .resume v) : InvB (step P c ev).1 := by
  cases ev <;> simp only [step]
  · exact tickStepper_invB P c h
  · exact tickCb_invB c _ h
  · exact pause_invB c h
  · exact play_invB c h
  · exact kill_invB c h
  · exact absurd rfl (hnr _)
  · exact fail_invB c _ h
  · exact cancelFut_invB c h
  · exact complete_invB c _ _ h
  · exact h.sameW ⟨rfl, rfl⟩

theorem run_invB (P : Prog) (c0 : Cfg) (evs : List Ev) (h : InvB c0) (hnr : ∀ e ∈ evs, ∀ v, e ≠ .resume v) :
    InvB (run P c0 evs) := by
  induction evs generalizing c0 with
  | nil => exact h
  | cons e es ih =>
    exact ih _ (step_invB P c0 e h (hnr e (by simp))) (fun e' he' => hnr e' (by simp [he']))

end PMF
