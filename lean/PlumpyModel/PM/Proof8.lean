import PlumpyModel.PM.Proof2
/-!
# Barrier invariant (C10)

`InvB`: the wait of a WAITING state can hold (or have parked) a *result* only when nothing is awaited any more.
Per-function lemmas mirror `Proof1.lean` (same case structure).
-/
namespace PMF

def isResult : WF → Bool
  | .result _ => true | _ => false

/-- the barrier invariant, together with well-formedness of the waiting-future index -/
def InvB (c : Cfg) : Prop :=
  ∀ fn wf wk aw, c.st = .waiting fn wf wk aw →
    wf < c.wfs.length ∧
    (((c.wfs[wf]?).map isResult = some true ∨ (wk.map isResult) = some true) → aw = [])

/-- `c'` has the same state object and the same waiting futures -/
def SameW (c c' : Cfg) : Prop := c'.st = c.st ∧ c'.wfs = c.wfs

theorem SameW.rfl' (c : Cfg) : SameW c c := ⟨rfl, rfl⟩
theorem SameW.trans {a b c : Cfg} (h1 : SameW a b) (h2 : SameW b c) : SameW a c := ⟨h2.1.trans h1.1, h2.2.trans h1.2⟩
theorem InvB.sameW {c c' : Cfg} (h : InvB c) (s : SameW c c') : InvB c' := by
  intro fn wf wk aw hst
  rw [s.1] at hst; rw [s.2]; exact h fn wf wk aw hst

theorem invB_init (nf : Nat) : InvB (init nf) := by
  intro fn wf wk aw hst; simp [init] at hst

/-! frame lemmas -/
theorem setActionStatus_sameW (c : Cfg) (i s) : SameW c (setActionStatus c i s) := by
  unfold setActionStatus; split <;> exact ⟨rfl, rfl⟩
theorem cancelAction_sameW (c : Cfg) (i) : SameW c (cancelAction c i) := by
  unfold cancelAction; split
  · exact setActionStatus_sameW ..
  · exact SameW.rfl' c
theorem setInterrupt_sameW (c : Cfg) (n) : SameW c (setInterrupt c n) := by
  unfold setInterrupt
  split
  · exact SameW.trans (cancelAction_sameW c _) ⟨rfl, rfl⟩
  · exact ⟨rfl, rfl⟩
theorem setInterruptFromExc_sameW (c : Cfg) (k n) : SameW c (setInterruptFromExc c k n) := by
  unfold setInterruptFromExc cancelInterrupt
  split
  · exact SameW.trans (cancelAction_sameW c _) ⟨rfl, rfl⟩
  · exact ⟨rfl, rfl⟩
theorem hand_sameW (c : Cfg) (i) : SameW c (hand c i) := by
  unfold hand; split <;> exact ⟨rfl, rfl⟩
theorem interruptState_sameW (c : Cfg) (k) : SameW c (interruptState c k) := by
  unfold interruptState; split
  · split <;> exact ⟨rfl, rfl⟩
  · exact SameW.rfl' c
theorem doPauseHooks_sameW (c : Cfg) : SameW c (doPauseHooks c) := ⟨rfl, rfl⟩
theorem deliver_sameW (c : Cfg) (o) : SameW c (deliver c o) := by
  unfold deliver
  split
  · rename_i fn wf wakeup aw hst
    split
    · exact ⟨rfl, rfl⟩
    · split
      · exact ⟨by simp [hst, SObj.label], rfl, rfl⟩
      · exact SameW.rfl' c
    · exact SameW.rfl' c
  · exact SameW.rfl' c

theorem live_excepted (l : Label) (h : terminal l = false) : Label.excepted ∈ allowed l := by
  cases l <;> simp_all [terminal, allowed]

theorem edgesOk_cons {a b : Label} {rest : List Label} (h : edgesOk (a :: rest) = true) (hab : b ∈ allowed a) :
    edgesOk (b :: a :: rest) = true := by
  simp [edgesOk, hab, h]

end PMF

namespace PMF

theorem exitState_sameW (c : Cfg) : SameW c (exitState c) := by
  unfold exitState; split
  · split <;> exact ⟨rfl, rfl⟩
  · exact SameW.rfl' c

theorem freshFut_sameW (c : Cfg) : SameW c (freshFutIfCancelled c) := by
  unfold freshFutIfCancelled; split <;> exact ⟨rfl, rfl⟩

theorem setFutExc_sameW (c : Cfg) (e) : SameW c (setFutExc c e) := by
  unfold setFutExc; split <;> exact ⟨rfl, rfl⟩

theorem enteringHooks_sameW (c c2 : Cfg) (s : SObj) (h : enteringHooks c s = .ok c2) : SameW c c2 := by
  unfold enteringHooks at h
  split at h
  · dsimp only at h
    split at h
    · cases h; exact SameW.trans (freshFut_sameW c) ⟨rfl, rfl⟩
    · cases h
  · dsimp only at h
    split at h
    · cases h; exact SameW.trans (freshFut_sameW c) ⟨rfl, rfl⟩
    · cases h
  · cases h; exact setFutExc_sameW c _
  · cases h; exact SameW.rfl' c

theorem enterState_sameW (c : Cfg) (s : SObj) : SameW c (enterState c s) := by
  unfold enterState; split
  · rename_i aw
    generalize hc : c = c0
    have : ∀ (l : List (Nat × Nat)) (d : Cfg), SameW c0 d →
        SameW c0 (l.foldl (fun c (p : Nat × Nat) =>
          let c := { c with efKeys := p :: c.efKeys }
          match c.efs[p.1]? with
          | some EFut.pending => { c with efCb := c.efCb ++ [p.1] }
          | some _ => { c with ready := c.ready ++ [.adone p.1] }
          | none => c) d) := by
      intro l; induction l with
      | nil => intro d hd; exact hd
      | cons a l ih =>
        intro d hd; simp only [List.foldl]
        apply ih
        split <;> exact SameW.trans hd ⟨rfl, rfl⟩
    exact this aw c0 (SameW.rfl' c0)
  · exact SameW.rfl' c

theorem enteredHooks_sameW (c : Cfg) (s : SObj) : SameW c (enteredHooks c s) := by
  unfold enteredHooks
  split <;> split <;> exact ⟨rfl, rfl⟩

theorem onClose_invB (c : Cfg) (h : InvB c) (ht : terminal c.st.label = true) : InvB (onClose c) := by
  unfold onClose; split
  · exact h
  · exact ⟨h.chain, h.head, fun _ => ht⟩

theorem releasePause_sameW (c : Cfg) : SameW c (releasePause c) := by
  unfold releasePause; split
  · split <;> exact ⟨rfl, rfl⟩
  · exact SameW.rfl' c

/-- entering a terminal state: the stepper is released and the process is closed -/
theorem onTerminated_invB (c : Cfg) (h : InvB c) (ht : terminal c.st.label = true) : InvB (onTerminated c) := by
  unfold onTerminated
  have hs := releasePause_sameW c
  exact onClose_invB _ (h.sameW hs) (by rw [hs.1]; exact ht)

/-- assigning an allowed next state keeps the invariant (the process is not closed while live) -/
theorem setState_invB (c : Cfg) (s : SObj) (h : InvB c) (hin : s.label ∈ allowed c.st.label)
    (hnc : c.closed = false) : InvB (setState c s) := by
  refine ⟨?_, by simp [setState], by simp [setState, hnc]⟩
  cases hent : c.entered with
  | nil => have := h.head; simp [hent] at this
  | cons a rest =>
    have hh := h.head; simp [hent] at hh; subst hh
    have hc := h.chain; rw [hent] at hc
    simp only [setState, hent]
    exact edgesOk_cons hc hin

theorem not_closed_of_live {c : Cfg} (h : InvB c) (hl : terminal c.st.label = false) : c.closed = false := by
  cases hc : c.closed with
  | false => rfl
  | true => have := h.closedTerm hc; simp [hl] at this

theorem forceExcepted_invB (c : Cfg) (e : Exc) (h : InvB c) (hl : terminal c.st.label = false) :
    InvB (forceExcepted c e) := by
  have hnc := not_closed_of_live h hl
  unfold forceExcepted
  simp only [hnc, Bool.false_eq_true, if_false]
  have hs := setFutExc_sameW c e
  have h1 : InvB (setState (setFutExc c e) (.excepted e)) :=
    setState_invB _ _ (h.sameW hs) (by rw [hs.1]; exact live_excepted _ hl) (by rw [hs.2.2]; exact hnc)
  apply onTerminated_invB _ (h1.sameW (enteredHooks_sameW _ _))
  rw [(enteredHooks_sameW _ _).1]; simp [setState, SObj.label, terminal, allowed]

theorem enterNext_invB (c : Cfg) (s : SObj) (h : InvB c) (hin : s.label ∈ allowed c.st.label)
    (hnc : c.closed = false) : InvB (enterNext c s) := by
  unfold enterNext
  have he := enterState_sameW c s
  have h1 : InvB (setState (enterState c s) s) :=
    setState_invB _ _ (h.sameW he) (by rw [he.1]; exact hin) (by rw [he.2.2]; exact hnc)
  have h2 := h1.sameW (enteredHooks_sameW _ s)
  dsimp only
  split
  · rename_i ht
    apply onTerminated_invB _ h2
    rw [(enteredHooks_sameW _ s).1]; simpa [setState] using ht
  · exact h2

theorem transitionTo_invB (c : Cfg) (s : SObj) (h : InvB c) (hl : terminal c.st.label = false) :
    InvB (transitionTo c s) := by
  have hnc := not_closed_of_live h hl
  unfold transitionTo
  split
  · rename_i hin
    simp only [hnc, Bool.false_eq_true, if_false]
    have hex := exitState_sameW c
    split
    · rename_i e _
      exact forceExcepted_invB _ e (h.sameW hex) (by rw [hex.1]; exact hl)
    · rename_i c2 hok
      have h2 : SameW c c2 := SameW.trans hex (enteringHooks_sameW _ _ _ hok)
      exact enterNext_invB c2 s (h.sameW h2) (by rw [h2.1]; exact hin) (by rw [h2.2.2]; exact hnc)
  · exact forceExcepted_invB _ _ h hl

end PMF

namespace PMF

/-- a step of the model either keeps the invariant-relevant part, or is reached from a live state -/
theorem runAction_invB (c : Cfg) (i : Nat) (next : Option SObj) (h : InvB c) (hl : terminal c.st.label = false) :
    InvB (runAction c i next) := by
  unfold runAction
  split
  · exact h
  · split
    · exact h.sameW ⟨rfl, rfl⟩
    · split
      · cases next with
        | none => exact (h.sameW (doPauseHooks_sameW c)).sameW (setActionStatus_sameW ..)
        | some s => exact ((transitionTo_invB c s h hl).sameW (doPauseHooks_sameW _)).sameW (setActionStatus_sameW ..)
      · exact ((transitionTo_invB c .killed h hl).sameW ⟨rfl, rfl⟩).sameW (setActionStatus_sameW ..)

theorem prepare_sameW (c : Cfg) (r : StepEnd) : SameW c (prepare c r).1 := by
  unfold prepare
  split
  · exact setInterrupt_sameW ..
  · exact SameW.rfl' c
  · split
    · exact SameW.rfl' c
    · exact setInterruptFromExc_sameW ..
  · exact setInterrupt_sameW ..

theorem dispatch_invB (c : Cfg) (next : Option SObj) (h : InvB c) : InvB (dispatch c next) := by
  unfold dispatch
  split
  · exact h
  · rename_i hl
    have hl' : terminal c.st.label = false := by simpa using hl
    split
    · split
      · exact runAction_invB c _ next h hl'
      · cases next with
        | none => exact h
        | some s => exact transitionTo_invB c s h hl'
    · cases next with
      | none => exact h
      | some s => exact transitionTo_invB c s h hl'

theorem finally_sameW (c : Cfg) : SameW c (finally_ c) :=
  SameW.trans (⟨rfl, rfl⟩ : SameW c { c with stepping := false }) (setInterrupt_sameW _ _)

theorem endOfStep_invB (c : Cfg) (r : StepEnd) (h : InvB c) : InvB (endOfStep c r) := by
  unfold endOfStep
  exact (dispatch_invB _ _ (h.sameW (prepare_sameW c r))).sameW (finally_sameW _)

theorem cmdToState_sameW (c : Cfg) (cmd : Cmd) : SameW c (cmdToState c cmd).1 := by
  unfold cmdToState; split <;> exact ⟨rfl, rfl⟩

theorem finishUser_invB (c : Cfg) (o : Outcome) (h : InvB c) : InvB (finishUser c o) := by
  unfold finishUser
  split
  · exact endOfStep_invB _ _ (h.sameW (cmdToState_sameW ..))
  · exact endOfStep_invB _ _ h

theorem wake_invB (c : Cfg) (fn wf : Nat) (w : WF) (h : InvB c) : InvB (wake c fn wf w) := by
  unfold wake
  split
  · exact endOfStep_invB _ _ h
  · apply endOfStep_invB
    split
    · rename_i f wf' wakeup aw hst
      split
      · exact h.sameW ⟨by simp [hst, SObj.label], rfl, rfl⟩
      · exact h
    · exact h
  · exact endOfStep_invB _ _ h
  · exact h

theorem stepBody_of_loopHeadB (P : Prog) (n : Nat) (hL : ∀ c, InvB c → InvB (loopHead P n c)) :
    ∀ c, InvB c → InvB (stepBody P n c) := by
  intro c h
  unfold stepBody stepBodyK
  have hs : InvB { c with stepping := true } := h.sameW ⟨rfl, rfl⟩
  dsimp only
  split
  · exact hL _ (endOfStep_invB _ _ hs)
  · split
    · exact hL _ (finishUser_invB _ _ (hs.sameW ⟨rfl, rfl⟩))
    · exact hs.sameW ⟨rfl, rfl⟩
  · split
    · exact hs.sameW ⟨rfl, rfl⟩
    · exact hL _ (wake_invB _ _ _ _ hs)
    · exact hs
  · exact hL _ (endOfStep_invB _ _ hs)

theorem loopHead_invB (P : Prog) : ∀ (fuel : Nat) (c : Cfg), InvB c → InvB (loopHead P fuel c) := by
  intro fuel
  induction fuel with
  | zero => intro c h; simpa [loopHead] using h
  | succ n ih =>
    intro c h
    have hb := stepBody_of_loopHeadB P n ih
    unfold loopHead
    split
    · exact h
    · split
      · exact h.sameW ⟨rfl, rfl⟩
      · split
        · exact h.sameW ⟨rfl, rfl⟩
        · split
          · split
            · exact h.sameW ⟨rfl, rfl⟩
            · exact hb c h
          · exact hb c h

theorem stepBody_invB (P : Prog) (fuel : Nat) (c : Cfg) (h : InvB c) : InvB (stepBody P fuel c) :=
  stepBody_of_loopHeadB P fuel (loopHead_invB P fuel) c h

theorem tickStepper_invB (P : Prog) (c : Cfg) (h : InvB c) : InvB (tickStepper P c) := by
  unfold tickStepper
  split
  · exact loopHead_invB P _ c h
  · split
    · split
      · split
        · exact h.sameW ⟨rfl, rfl⟩
        · exact stepBody_invB P _ c h
      · exact stepBody_invB P _ c h
    · exact h
  · split
    · exact loopHead_invB P _ _ (finishUser_invB _ _ h)
    · exact h.sameW ⟨rfl, rfl⟩
  · split
    · exact h
    · exact loopHead_invB P _ _ (wake_invB _ _ _ _ h)
    · exact h
  · exact h

end PMF

namespace PMF

theorem requestInterrupt_sameW (c : Cfg) (k) : SameW c (requestInterrupt c k) := by
  unfold requestInterrupt
  exact SameW.trans (SameW.trans (⟨rfl, rfl⟩ : SameW c { c with nextCookie := c.nextCookie + 1 })
    (setInterruptFromExc_sameW ..)) (interruptState_sameW ..)

theorem pause_invB (c : Cfg) (h : InvB c) : InvB (pause c).1 := by
  unfold pause
  split
  · exact h
  · split
    · exact h
    · split
      · exact h.sameW (hand_sameW ..)
      · split
        · exact h
        · split
          · dsimp only
            have hs : SameW c { requestInterrupt c .pause with pausing := (requestInterrupt c .pause).interrupt } :=
              SameW.trans (requestInterrupt_sameW c .pause) ⟨rfl, rfl⟩
            split
            · exact (h.sameW hs).sameW (hand_sameW ..)
            · exact h.sameW hs
          · exact h.sameW (doPauseHooks_sameW c)

theorem play_invB (c : Cfg) (h : InvB c) : InvB (play c).1 := by
  unfold play
  split
  · split
    · exact (h.sameW (cancelAction_sameW ..)).sameW ⟨rfl, rfl⟩
    · exact h
  · dsimp only
    split <;> exact h.sameW ⟨rfl, rfl⟩

theorem kill_invB (c : Cfg) (h : InvB c) : InvB (kill c).1 := by
  unfold kill
  split
  · exact h
  · split
    · exact h
    · rename_i hnk hnt
      have hl : terminal c.st.label = false := by simpa using hnt
      split
      · exact h.sameW (hand_sameW ..)
      · split
        · dsimp only
          have hs : SameW c { requestInterrupt c .kill with killing := (requestInterrupt c .kill).interrupt } :=
            SameW.trans (requestInterrupt_sameW c .kill) ⟨rfl, rfl⟩
          split
          · exact (h.sameW hs).sameW (hand_sameW ..)
          · exact h.sameW hs
        · exact transitionTo_invB c .killed h hl

theorem resume_invB (c : Cfg) (v) (h : InvB c) : InvB (resume c v).1 := by
  unfold resume; split
  · exact h.sameW (deliver_sameW ..)
  · exact h

theorem fail_invB (c : Cfg) (e) (h : InvB c) : InvB (fail c e).1 := by
  unfold fail; split
  · exact h
  · rename_i hnt
    exact transitionTo_invB c _ h (by simpa using hnt)

theorem cancelFut_invB (c : Cfg) (h : InvB c) : InvB (cancelFut c).1 := by
  unfold cancelFut; split
  · exact h.sameW ⟨rfl, rfl⟩
  · exact h

theorem complete_invB (c : Cfg) (f o) (h : InvB c) : InvB (complete c f o) := by
  unfold complete; split
  · dsimp only; split <;> exact h.sameW ⟨rfl, rfl⟩
  · exact h

theorem awaitableDone_invB (c : Cfg) (f) (h : InvB c) : InvB (awaitableDone c f) := by
  unfold awaitableDone
  have hold : ∀ d : Cfg, InvB d → InvB (match d.efKeys.find? (·.1 = f), d.efs[f]? with
      | some (_, key), some (EFut.result v) => { d with ctx := (key, v) :: d.ctx.filter (·.1 ≠ key) }
      | _, _ => d) := by
    intro d hd; split
    · exact hd.sameW ⟨rfl, rfl⟩
    · exact hd
  dsimp only
  split
  · rename_i fn wf wakeup aw hst
    split
    · exact hold c h
    · have h1 : InvB { c with st := .waiting fn wf wakeup (aw.filter (·.1 ≠ f)) } :=
        h.sameW ⟨by simp [hst, SObj.label], rfl, rfl⟩
      split
      · split
        · exact (h1.sameW ⟨rfl, rfl⟩).sameW (deliver_sameW ..)
        · exact h1.sameW ⟨rfl, rfl⟩
      · exact h1.sameW (deliver_sameW ..)
      · exact h1
  · exact hold c h

theorem tickCb_invB (c : Cfg) (cb) (h : InvB c) : InvB (tickCb c cb) := by
  unfold tickCb; split
  · have h1 : InvB { c with ready := c.ready.erase cb } := h.sameW ⟨rfl, rfl⟩
    split
    · exact awaitableDone_invB _ _ h1
    · exact (kill_invB _ h1).sameW ⟨rfl, rfl⟩
    · split
      · exact fail_invB _ _ h1
      · exact h1
  · exact h

/-- every event preserves the lifecycle invariant -/
theorem step_invB (P : Prog) (c : Cfg) (ev : Ev) (h : InvB c) : InvB (step P c ev).1 := by
  cases ev <;> simp only [step]
  · exact tickStepper_invB P c h
  · exact tickCb_invB c _ h
  · exact pause_invB c h
  · exact play_invB c h
  · exact kill_invB c h
  · exact resume_invB c _ h
  · exact fail_invB c _ h
  · exact cancelFut_invB c h
  · exact complete_invB c _ _ h
  · exact h.sameW ⟨rfl, rfl⟩

theorem run_invB (P : Prog) (c0 : Cfg) (evs : List Ev) (h : InvB c0) : InvB (run P c0 evs) := by
  induction evs generalizing c0 with
  | nil => exact h
  | cons e es ih => exact ih _ (step_invB P c0 e h)


end PMF
