import PlumpyModel.PM.LProof12
import PlumpyModel.PM.Proof6
/-!
# `PMF.L` — C02 with listeners: all reports of the outcome agree (`Inv2`) for every history of `runL`

Inside a transition the invariant is temporarily broken (the future is resolved by `on_entering` before the state object is
assigned), and that is exactly where the exiting / entering callbacks run: the requests made there are deferred or refused and
touch nothing `Inv2` looks at (`S2`: `Same2` while stepping and in the exiting / entering phase).
-/
namespace PMF
namespace L

theorem play_same2 (c : Cfg) : Same2 c (play c).1 := by
  unfold play
  split
  · split
    · exact Same2.trans (cancelAction_same2 ..) ⟨rfl, rfl, rfl, rfl, rfl, rfl⟩
    · exact Same2.rfl' c
  · dsimp only
    split <;> exact ⟨rfl, rfl, rfl, rfl, rfl, by simp [termCount_cons, isTermNotif]⟩

theorem requestL_same2 (l : LCfg) (k : AKind) : Same2 l.c (requestL l k) := by
  unfold requestL; split
  · exact requestInterrupt_same2 ..
  · exact Same2.trans (⟨rfl, rfl, rfl, rfl, rfl, rfl⟩ : Same2 l.c { l.c with nextCookie := l.c.nextCookie + 1 })
      (setInterruptFromExc_same2 ..)

/-- `F` touches nothing `Inv2` looks at while stepping, and in the exiting / entering phase always -/
def S2 (F : Hook → LCfg → LCfg) : Prop := ∀ h l, (l.c.stepping = true ∨ hookPhase h = true) → Same2 l.c (F h l).c

section
variable {F : Hook → LCfg → LCfg}

theorem pauseL_s2 (l : LCfg) (hs : l.c.stepping = true) : Same2 l.c (pauseL F l).1.c := by
  unfold pauseL; dsimp only
  split
  · exact Same2.rfl' _
  · split
    · exact Same2.rfl' _
    · split
      · exact hand_same2 ..
      · split
        · exact Same2.rfl' _
        · have h1 : Same2 l.c { requestL l .pause with pausing := (requestL l .pause).interrupt } :=
            Same2.trans (requestL_same2 l .pause) ⟨rfl, rfl, rfl, rfl, rfl, rfl⟩
          split
          · exact Same2.trans h1 (hand_same2 ..)
          · exact h1

theorem killL_s2 (l : LCfg) (hs : l.c.stepping = true) : Same2 l.c (killL F l).1.c := by
  unfold killL; dsimp only
  split
  · exact Same2.rfl' _
  · split
    · exact Same2.rfl' _
    · split
      · exact hand_same2 ..
      · have h1 : Same2 l.c { requestL l .kill with killing := (requestL l .kill).interrupt } :=
          Same2.trans (requestL_same2 l .kill) ⟨rfl, rfl, rfl, rfl, rfl, rfl⟩
        split
        · exact Same2.trans h1 (hand_same2 ..)
        · exact h1

theorem playL_s2 (hF : S2 F) (l : LCfg) (hs : l.c.stepping = true) : Same2 l.c (playL F l).1.c := by
  unfold playL
  have h1 : Same2 l.c (l.upd (fun c => (play c).1)).c := play_same2 l.c
  split
  · exact h1
  · exact Same2.trans h1 (hF _ _ (Or.inl (by rw [upd_c, (play_hkc l.c).stepping]; exact hs)))

theorem reqK_s2 (hF : S2 F) (r : Req) (l : LCfg) (hs : l.c.stepping = true) : Same2 l.c (reqK F r l).c := by
  cases r
  · exact pauseL_s2 l hs
  · exact playL_s2 hF l hs
  · exact killL_s2 l hs
end

theorem fireK_s2 {R : Req → LCfg → LCfg} (hR : ∀ r l, l.c.stepping = true → Same2 l.c (R r l).c) (h : Hook) (l : LCfg)
    (hs : l.c.stepping = true ∨ hookPhase h = true) : Same2 l.c (fireK R h l).c := by
  unfold fireK
  dsimp only
  split
  · exact Same2.rfl' _
  · rename_i hg
    have hst : l.c.stepping = true := by
      rcases hs with hs | hs
      · exact hs
      · have : (l.c.stepping && !l.executing) = true := by simpa [hs] using hg
        simp only [Bool.and_eq_true] at this
        exact this.1
    split
    · exact Same2.rfl' _
    · exact hR _ _ hst

theorem fireN_s2 : ∀ n, S2 (fireN n)
  | 0 => fun _ _ _ => Same2.rfl' _
  | n+1 => fun h l hs => by
      unfold fireN
      exact fireK_s2 (fun r l hs => reqK_s2 (fireN_s2 n) r l hs) h l hs

structure FG3 (F : Hook → LCfg → LCfg) : Prop where
  inv : ∀ h l, Inv2 l.c → Inv2 (F h l).c
  s2 : S2 F

section
variable {F : Hook → LCfg → LCfg}

theorem forceExceptedL_inv2 (hF : FG3 F) (l : LCfg) (e : Exc) (h : LiveF l.c) : Inv2 (forceExceptedL F l e).c := by
  obtain ⟨hf, hc, hcl, hn⟩ := h
  unfold forceExceptedL
  simp only [hc, Bool.false_eq_true, if_false]
  rw [enteredHooksL_nohook _ _ (by simp [SObj.label, terminal, allowed])]
  obtain ⟨f1, f2, f3, f4, _⟩ := setFutExc_fields l.c e
  have hs := hF.s2 .entering ({ l with trans := some .excepted }.upd (fun c => setFutExc c e)) (Or.inr rfl)
  obtain ⟨_, _, s3, s4, s5, s6⟩ := hs
  exact enter_terminal (F .entering ({ l with trans := some .excepted }.upd (fun c => setFutExc c e))).c (.excepted e)
    (by simp [SObj.label, terminal, allowed]) (by rw [s3]; show _ = some (setFutExc l.c e).fut; rw [f1]; rfl)
    (by rw [s4]; show (setFutExc l.c e).closed = false; rw [f2]; exact hc)
    (by rw [s5]; show (setFutExc l.c e).cleanups = 0; rw [f3]; exact hcl)
    (by rw [s6]; show termCount (setFutExc l.c e).notif = 0; rw [f4]; exact hn)

theorem enterNextL_inv2 (hF : FG3 F) (l : LCfg) (s : SObj) (hc : l.c.closed = false) (hcl : l.c.cleanups = 0)
    (hn : termCount l.c.notif = 0) (hft : terminal s.label = true → outcomeOf s = some l.c.fut)
    (hfl : terminal s.label = false → (l.c.fut = .pending ∨ l.c.fut = .cancelled)) : Inv2 (enterNextL F l s).c := by
  have hold := enterNext_inv2 l.c s hc hcl hn hft hfl
  by_cases ht : terminal s.label = true
  · have : (enterNextL F l s).c = enterNext l.c s := by
      unfold enterNextL enterNext; dsimp only
      rw [enteredHooksL_nohook _ _ ht]
      simp only [ht, if_true]; rfl
    rw [this]; exact hold
  · have hx : Inv2 ((l.upd fun c => setState (enterState c s) s).upd (fun c => enteredHooks c s)).c := by
      have : enterNext l.c s = enteredHooks (setState (enterState l.c s) s) s := by
        unfold enterNext; simp only [ht]; rfl
      rw [this] at hold; exact hold
    have htf : terminal s.label = false := by simpa using ht
    unfold enterNextL enteredHooksL; dsimp only
    simp only [htf, Bool.false_eq_true, if_false]
    split
    · exact hF.inv _ _ hx
    · exact hx

theorem exitPhaseL_same2 (hF : FG3 F) (l : LCfg) (s : SObj) : Same2 l.c (exitPhaseL F l s).c := by
  unfold exitPhaseL; dsimp only
  have h1 : Same2 l.c ((F .exiting l).upd exitState).c := Same2.trans (hF.s2 .exiting l (Or.inr rfl)) (exitState_same2 _)
  split
  · exact Same2.trans h1 (Same2.trans (hF.s2 .exiting _ (Or.inr rfl)) (exitState_same2 _))
  · exact h1

theorem transitionToL_inv2 (hF : FG3 F) (l : LCfg) (s : SObj) (h : Inv2 l.c) (hl : terminal l.c.st.label = false) :
    Inv2 (transitionToL F l s).c := by
  have hlive : LiveF l.c := h.live hl
  have hnc := hlive.2.1
  unfold transitionToL; dsimp only
  split
  · simp only [hnc, Bool.false_eq_true, if_false]
    have hex := exitPhaseL_same2 hF { l with trans := some s.label } s
    have hl1 : LiveF (exitPhaseL F { l with trans := some s.label } s).c := hlive.same2 hex
    split
    · exact forceExceptedL_inv2 hF _ _ hl1
    · rename_i c2 hok
      obtain ⟨k1, k2, k3, k4, k5⟩ := enteringHooks_ok _ c2 s hok hl1
      obtain ⟨_, _, s3, s4, s5, s6⟩ := hF.s2 .entering { exitPhaseL F { l with trans := some s.label } s with c := c2 } (Or.inr rfl)
      exact enterNextL_inv2 hF _ s (by rw [s4]; exact k1) (by rw [s5]; exact k2) (by rw [s6]; exact k3)
        (fun ht => by rw [s3]; exact k4 ht) (fun ht => by rw [s3]; exact k5 ht)
  · exact forceExceptedL_inv2 hF _ _ hlive

theorem doPauseL_inv2 (hF : FG3 F) (l : LCfg) (h : Inv2 l.c) : Inv2 (doPauseL F l).c := by
  unfold doPauseL; dsimp only
  have h1 : Inv2 (F .paused (l.upd doPauseHooks)).c := hF.inv _ _ (h.same2 (doPauseHooks_same2 l.c))
  exact h1.same2 ⟨rfl, rfl, rfl, rfl, rfl, rfl⟩

theorem pauseL_inv2 (hF : FG3 F) (l : LCfg) (h : Inv2 l.c) : Inv2 (pauseL F l).1.c := by
  unfold pauseL; dsimp only
  split
  · exact h
  · split
    · exact h
    · split
      · exact h.same2 (hand_same2 ..)
      · split
        · exact h
        · split
          · have hs : Same2 l.c { requestL l .pause with pausing := (requestL l .pause).interrupt } :=
              Same2.trans (requestL_same2 l .pause) ⟨rfl, rfl, rfl, rfl, rfl, rfl⟩
            split
            · exact (h.same2 hs).same2 (hand_same2 ..)
            · exact h.same2 hs
          · exact doPauseL_inv2 hF l h

theorem playL_inv2 (hF : FG3 F) (l : LCfg) (h : Inv2 l.c) : Inv2 (playL F l).1.c := by
  unfold playL
  split
  · exact play_inv2 l.c h
  · exact hF.inv _ _ (play_inv2 l.c h)

theorem killL_inv2 (hF : FG3 F) (l : LCfg) (h : Inv2 l.c) : Inv2 (killL F l).1.c := by
  unfold killL; dsimp only
  split
  · exact h
  · split
    · exact h
    · rename_i hnk hnt
      have hl : terminal l.c.st.label = false := by simpa using hnt
      split
      · exact h.same2 (hand_same2 ..)
      · split
        · have hs : Same2 l.c { requestL l .kill with killing := (requestL l .kill).interrupt } :=
            Same2.trans (requestL_same2 l .kill) ⟨rfl, rfl, rfl, rfl, rfl, rfl⟩
          split
          · exact (h.same2 hs).same2 (hand_same2 ..)
          · exact h.same2 hs
        · exact transitionToL_inv2 hF l .killed h hl

theorem failL_inv2 (hF : FG3 F) (l : LCfg) (e : Exc) (h : Inv2 l.c) : Inv2 (failL F l e).1.c := by
  unfold failL; split
  · exact h
  · rename_i hnt
    exact transitionToL_inv2 hF l _ h (by simpa using hnt)

theorem reqK_inv2 (hF : FG3 F) (r : Req) (l : LCfg) (h : Inv2 l.c) : Inv2 (reqK F r l).c := by
  cases r
  · exact pauseL_inv2 hF l h
  · exact playL_inv2 hF l h
  · exact killL_inv2 hF l h
end

theorem fireK_inv2 {R : Req → LCfg → LCfg} (hR : ∀ r l, Inv2 l.c → Inv2 (R r l).c) (h : Hook) (l : LCfg) (hi : Inv2 l.c) :
    Inv2 (fireK R h l).c := by
  rcases fireK_cases R h l with h1 | ⟨e, _, h1⟩
  · rw [h1]; exact hi
  · rw [h1]; exact hR _ _ hi

theorem fireN_g3 : ∀ n, FG3 (fireN n)
  | 0 => ⟨fun _ _ h => h, fireN_s2 0⟩
  | n+1 => ⟨fun h l hi => by
      unfold fireN
      exact fireK_inv2 (fun r l hi => reqK_inv2 (fireN_g3 n) r l hi) h l hi, fireN_s2 (n+1)⟩

section
variable {F : Hook → LCfg → LCfg}

theorem runActionL_inv2 (hF : FG3 F) (l : LCfg) (i : Nat) (next : Option SObj) (h : Inv2 l.c)
    (hl : terminal l.c.st.label = false) : Inv2 (runActionL F l i next).c := by
  unfold runActionL
  split
  · exact h
  · split
    · exact h.same2 ⟨rfl, rfl, rfl, rfl, rfl, rfl⟩
    · have hclose : ∀ body : LCfg, Inv2 body.c →
          Inv2 (if actionStatus body.c i = .pending then body.upd (fun c => setActionStatus c i .done) else body).c := by
        intro body hb
        split
        · exact hb.same2 (setActionStatus_same2 ..)
        · exact hb
      apply hclose
      split
      · split
        · dsimp only
          split
          · exact transitionToL_inv2 hF _ _ h hl
          · exact doPauseL_inv2 hF _ (transitionToL_inv2 hF _ _ h hl)
        · exact doPauseL_inv2 hF _ h
      · exact (transitionToL_inv2 hF _ _ h hl).same2 ⟨rfl, rfl, rfl, rfl, rfl, rfl⟩

theorem enactLoop_inv2 (hF : FG3 F) : ∀ (n : Nat) (l : LCfg), Inv2 l.c → Inv2 (enactLoop F n l).c
  | 0, _, h => h
  | n+1, l, h => by
    unfold enactLoop
    split
    · split
      · rename_i hc
        simp only [Bool.and_eq_true, decide_eq_true_eq, Bool.not_eq_true'] at hc
        exact enactLoop_inv2 hF n _ (runActionL_inv2 hF l _ none h hc.2)
      · exact h
    · exact h

theorem dispatchL_inv2 (hF : FG3 F) (l : LCfg) (next : Option SObj) (h : Inv2 l.c) : Inv2 (dispatchL F l next).c := by
  unfold dispatchL
  split
  · exact h
  · rename_i hl
    have hl' : terminal l.c.st.label = false := by simpa using hl
    apply enactLoop_inv2 hF
    unfold dispatch1L
    split
    · split
      · exact runActionL_inv2 hF l _ next h hl'
      · split
        · exact transitionToL_inv2 hF l _ h hl'
        · exact h
    · split
      · exact transitionToL_inv2 hF l _ h hl'
      · exact h

theorem endOfStepL_inv2 (hF : FG3 F) (l : LCfg) (r : StepEnd) (h : Inv2 l.c) : Inv2 (endOfStepL F l r).c := by
  unfold endOfStepL; dsimp only
  rw [upd_c]
  exact (dispatchL_inv2 hF _ _ (h.same2 (prepare_same2 l.c r))).same2 (finally_same2 _)

theorem finishUserL_inv2 (hF : FG3 F) (l : LCfg) (o : Outcome) (h : Inv2 l.c) : Inv2 (finishUserL F l o).c := by
  unfold finishUserL
  split
  · exact endOfStepL_inv2 hF _ _ (h.same2 (cmdToState_same2 ..))
  · exact endOfStepL_inv2 hF _ _ h

theorem rearm_same2 (c : Cfg) (wf : Nat) : Same2 c (rearm c wf) := by
  unfold rearm
  split
  · rename_i hst
    split
    · exact ⟨by simp [hst, SObj.label], by simp [hst, outcomeOf], rfl, rfl, rfl, rfl⟩
    · exact Same2.rfl' c
  · exact Same2.rfl' c

theorem wakeL_inv2 (hF : FG3 F) (l : LCfg) (fn wf : Nat) (w : WF) (h : Inv2 l.c) : Inv2 (wakeL F l fn wf w).c := by
  unfold wakeL
  split
  · exact endOfStepL_inv2 hF _ _ h
  · exact endOfStepL_inv2 hF _ _ (h.same2 (rearm_same2 _ _))
  · exact endOfStepL_inv2 hF _ _ h
  · exact h

theorem stepBodyKL_inv2 (hF : FG3 F) (P : Prog) (k : LCfg → LCfg) (hk : ∀ l, Inv2 l.c → Inv2 (k l).c) (l : LCfg) (h : Inv2 l.c) :
    Inv2 (stepBodyKL F P k l).c := by
  unfold stepBodyKL
  have hs : Inv2 ({ l with c := { l.c with stepping := true }, executing := true } : LCfg).c := h.same2 ⟨rfl, rfl, rfl, rfl, rfl, rfl⟩
  dsimp only
  split
  · exact hk _ (endOfStepL_inv2 hF _ _ hs)
  · split
    · exact hk _ (finishUserL_inv2 hF _ _ (hs.same2 ⟨rfl, rfl, rfl, rfl, rfl, rfl⟩))
    · exact hs.same2 ⟨rfl, rfl, rfl, rfl, rfl, rfl⟩
  · split
    · exact hs.same2 ⟨rfl, rfl, rfl, rfl, rfl, rfl⟩
    · exact hk _ (wakeL_inv2 hF _ _ _ _ hs)
    · exact hs
  · exact hk _ (endOfStepL_inv2 hF _ _ hs)

theorem loopHeadL_inv2 (hF : FG3 F) (P : Prog) : ∀ (fuel : Nat) (l : LCfg), Inv2 l.c → Inv2 (loopHeadL F P fuel l).c
  | 0, _, h => h
  | n+1, l, h => by
    have hb := fun l h => stepBodyKL_inv2 hF P (loopHeadL F P n) (loopHeadL_inv2 hF P n) l h
    unfold loopHeadL
    split
    · exact h
    · split
      · exact h.same2 ⟨rfl, rfl, rfl, rfl, rfl, rfl⟩
      · split
        · exact h.same2 ⟨rfl, rfl, rfl, rfl, rfl, rfl⟩
        · split
          · split
            · exact h.same2 ⟨rfl, rfl, rfl, rfl, rfl, rfl⟩
            · exact hb l h
          · exact hb l h

theorem tickStepperL_inv2 (hF : FG3 F) (P : Prog) (l : LCfg) (h : Inv2 l.c) : Inv2 (tickStepperL F P l).c := by
  have hb := fun l h => stepBodyKL_inv2 hF P (loopHeadL F P fuel0) (loopHeadL_inv2 hF P fuel0) l h
  unfold tickStepperL
  split
  · exact loopHeadL_inv2 hF P _ l h
  · split
    · split
      · split
        · exact h.same2 ⟨rfl, rfl, rfl, rfl, rfl, rfl⟩
        · exact hb l h
      · exact hb l h
    · exact h
  · split
    · exact loopHeadL_inv2 hF P _ _ (finishUserL_inv2 hF _ _ h)
    · exact h.same2 ⟨rfl, rfl, rfl, rfl, rfl, rfl⟩
  · split
    · exact h
    · exact loopHeadL_inv2 hF P _ _ (wakeL_inv2 hF _ _ _ _ h)
    · exact h
  · exact h

theorem tickCbL_inv2 (hF : FG3 F) (l : LCfg) (cb : Cb) (h : Inv2 l.c) : Inv2 (tickCbL F l cb).c := by
  unfold tickCbL; split
  · have h1 : Inv2 (l.upd (fun c => { c with ready := c.ready.erase cb })).c := h.same2 ⟨rfl, rfl, rfl, rfl, rfl, rfl⟩
    dsimp only
    split
    · exact awaitableDone_inv2 _ _ h1
    · unfold tryKillingL
      have h2 := killL_inv2 hF _ h1
      exact h2.same2 ⟨rfl, rfl, rfl, rfl, rfl, rfl⟩
    · split
      · exact failL_inv2 hF _ _ h1
      · exact h1
  · exact h

theorem stepLF_inv2 (hF : FG3 F) (P : Prog) (l : LCfg) (ev : Ev) (h : Inv2 l.c) : Inv2 (stepLF F P l ev).1.c := by
  cases ev <;> simp only [stepLF]
  · exact tickStepperL_inv2 hF P l h
  · exact tickCbL_inv2 hF l _ h
  · exact pauseL_inv2 hF l h
  · exact playL_inv2 hF l h
  · exact killL_inv2 hF l h
  · exact resume_inv2 l.c _ h
  · exact failL_inv2 hF l _ h
  · exact cancelFut_inv2 l.c h
  · exact complete_inv2 l.c _ _ h
  · exact h.same2 ⟨rfl, rfl, rfl, rfl, rfl, rfl⟩
end

theorem runL_inv2 (P : Prog) (l0 : LCfg) (evs : List Ev) (h : Inv2 l0.c) : Inv2 (runL P l0 evs).c := by
  induction evs generalizing l0 with
  | nil => exact h
  | cons e es ih => exact ih _ (stepLF_inv2 (fireN_g3 _) P l0 e h)

end L
end PMF
