import PlumpyModel.PM.LProof1
/-!
# `PMF.L` — transitions: shapes of the primitive updates, the control frame, labels
-/
namespace PMF
namespace L

/-! ### shape of the primitive updates of a transition (which fields they can write) -/
theorem exitState_shape (c : Cfg) : ∃ w e, exitState c = { c with wfs := w, efCb := e } := by
  unfold exitState; split
  · split <;> exact ⟨_, _, rfl⟩
  · exact ⟨_, _, rfl⟩

theorem enterState_shape (c : Cfg) (s : SObj) : ∃ k e r, enterState c s = { c with efKeys := k, efCb := e, ready := r } := by
  unfold enterState; split
  · rename_i aw
    have : ∀ (l : List (Nat × Nat)) (d : Cfg), (∃ k e r, d = { c with efKeys := k, efCb := e, ready := r }) →
        ∃ k e r, (l.foldl (fun c (p : Nat × Nat) =>
          let c := { c with efKeys := p :: c.efKeys }
          match c.efs[p.1]? with
          | some EFut.pending => { c with efCb := c.efCb ++ [p.1] }
          | some _ => { c with ready := c.ready ++ [.adone p.1] }
          | none => c) d) = { c with efKeys := k, efCb := e, ready := r } := by
      intro l; induction l with
      | nil => intro d hd; exact hd
      | cons a l ih =>
        intro d hd; simp only [List.foldl]
        apply ih
        obtain ⟨k, e, r, rfl⟩ := hd
        split <;> exact ⟨_, _, _, rfl⟩
    exact this aw c ⟨_, _, _, rfl⟩
  · exact ⟨_, _, _, rfl⟩

theorem setFutExc_shape (c : Cfg) (e : Exc) : ∃ f b, setFutExc c e = { c with fut := f, futHasKillCb := b } := by
  unfold setFutExc; split <;> exact ⟨_, _, rfl⟩

theorem enteringHooks_shape (c c2 : Cfg) (s : SObj) (h : enteringHooks c s = .ok c2) :
    ∃ f b, c2 = { c with fut := f, futHasKillCb := b } := by
  have hfresh : ∃ f b, freshFutIfCancelled c = { c with fut := f, futHasKillCb := b } := by
    unfold freshFutIfCancelled; split <;> exact ⟨_, _, rfl⟩
  unfold enteringHooks at h
  split at h
  · dsimp only at h
    split at h
    · cases h; obtain ⟨f, b, hf⟩ := hfresh; rw [hf]; exact ⟨_, _, rfl⟩
    · cases h
  · dsimp only at h
    split at h
    · cases h; obtain ⟨f, b, hf⟩ := hfresh; rw [hf]; exact ⟨_, _, rfl⟩
    · cases h
  · cases h; exact setFutExc_shape c _
  · cases h; exact ⟨_, _, rfl⟩

theorem enteredHooks_shape (c : Cfg) (s : SObj) : ∃ n, enteredHooks c s =
    { c with killing := if s.label = .killed then none else c.killing, notif := n } := by
  unfold enteredHooks
  by_cases hk : s.label = .killed <;> simp only [hk, if_true, if_false] <;> split <;> exact ⟨_, rfl⟩

theorem onTerminated_shape (c : Cfg) : ∃ p cl n, onTerminated c = { c with pfs := p, closed := cl, cleanups := n } := by
  have h1 : ∃ p, releasePause c = { c with pfs := p } := by
    unfold releasePause; split
    · split <;> exact ⟨_, rfl⟩
    · exact ⟨_, rfl⟩
  obtain ⟨p, hp⟩ := h1
  unfold onTerminated onClose
  rw [hp]
  split <;> exact ⟨_, _, _, rfl⟩

/-! ### labels -/
theorem onTerminated_st (c : Cfg) : (onTerminated c).st = c.st := by
  obtain ⟨p, cl, n, h⟩ := onTerminated_shape c; rw [h]
theorem enteredHooks_st (c : Cfg) (s : SObj) : (enteredHooks c s).st = c.st := by
  obtain ⟨n, h⟩ := enteredHooks_shape c s; rw [h]

def KE (c : Cfg) : Prop := c.st.label = .killed ∨ c.st.label = .excepted

section
variable {F : Hook → LCfg → LCfg}

theorem enteredHooksL_nohook (l : LCfg) (s : SObj) (ht : terminal s.label = true) :
    enteredHooksL F l s = l.upd (fun c => enteredHooks c s) := by
  unfold enteredHooksL
  cases s <;> simp [SObj.label, terminal, allowed] at ht <;> simp [enteredNotif, hookOfNotif]

theorem forceExceptedL_label (l : LCfg) (e : Exc) : (forceExceptedL F l e).c.st.label = .excepted := by
  unfold forceExceptedL
  split
  · rfl
  · dsimp only
    rw [enteredHooksL_nohook _ _ (by simp [SObj.label, terminal, allowed])]
    simp only [upd_c, onTerminated_st, enteredHooks_st]
    rfl

theorem enterNextL_label_terminal (l : LCfg) (s : SObj) (ht : terminal s.label = true) :
    (enterNextL F l s).c.st = s := by
  unfold enterNextL
  dsimp only
  rw [enteredHooksL_nohook _ _ ht]
  simp only [ht, if_true, upd_c, onTerminated_st, enteredHooks_st]
  rfl

/-- a transition into a terminal state ends in that state or (if entering it fails) in EXCEPTED -/
theorem transitionToL_terminal (l : LCfg) (s : SObj) (ht : terminal s.label = true) :
    (transitionToL F l s).c.st = s ∨ (transitionToL F l s).c.st.label = .excepted := by
  unfold transitionToL
  dsimp only
  split
  · split
    · left; rfl
    · split
      · right; exact forceExceptedL_label _ _
      · left; exact enterNextL_label_terminal _ _ ht
  · right; exact forceExceptedL_label _ _

theorem transitionToL_ke (l : LCfg) (s : SObj) (hs : s.label = .killed ∨ s.label = .excepted) :
    KE (transitionToL F l s).c := by
  have ht : terminal s.label = true := by rcases hs with h | h <;> simp [h, terminal, allowed]
  rcases transitionToL_terminal (F := F) l s ht with h | h
  · unfold KE; rw [h]; exact hs
  · exact Or.inr h
end

end L
end PMF
