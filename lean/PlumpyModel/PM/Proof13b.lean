import PlumpyModel.PM.Proof13
/-!
# C10 at the level of histories, part 2: what becomes of one wait (`Bar`)

Fix a configuration in which the chain is WAITING for continuation `fn` on the awaitables `aw0`, nothing processed yet, the
trace of user calls being `t0`.  `Bar fn aw0 t0 c` describes every configuration `c` that can follow:

* `pre`    — still the same WAITING epoch, nothing delivered to the wait; the awaiting set `aw` is a part of `aw0`, and every
             awaitable of `aw0` that left it was processed with a RESULT and the context holds, under its key, the result of a
             future of this wait registered under that key (`DoneRes`);
* `res v`  — the wait was completed with `v` (`H6.Deliv`: still held / RUNNING `fn` but not yet activated / terminated /
             `fn` activated first), and as long as `fn` has not been activated every awaitable of `aw0` is `DoneRes`;
* `failed e` — an awaitable that failed with `e` was processed first: the wait holds that failure, or the process terminated;
             nothing is activated (`FailD`);
* `over`   — the process terminated (kill, fail) before anything was delivered.

`step_bar`: every well-formed event keeps `Bar` in a reachable configuration.

The tick of the stepping task is handled once, generically (`tick_gen`): a predicate on WAITING / terminated configurations
survives a callback of the stepping task if it survives one synchronous step (`stepBody P 0`) and the wake-up of the
coroutine on its waiting future.
-/
namespace PMF.B10
open PMF PMF.H6

/-! ### one callback of the stepping task, generically -/

theorem mid_of_coh_nstep {c : Cfg} (h : Coh c) (hns : c.stepping = false) : Mid c := by
  refine ⟨h.rob, h.inv, h.invP, hns, ?_⟩
  intro e he
  have := h.pcOk; unfold PcOk at this; rw [he] at this; exact this

theorem stepBodyK_gen (P : Prog) (Q : Cfg → Prop) (k : Cfg → Cfg)
    (hbody : ∀ d, Mid d → terminal d.st.label = false → d.paused = none → Q d → Q (stepBody P 0 d))
    (hk : ∀ d, Mid d → Q d → Q (k d))
    (d : Cfg) (hm : Mid d) (hl : terminal d.st.label = false) (hpa : d.paused = none) (hQ : Q d) : Q (stepBodyK P k d) := by
  cases hs : stepSync P d with
  | true =>
    rw [stepBodyK_sync P k d hs]
    exact hk _ (stepBody0_mid P d hm (fun _ => hpa) hs) (hbody d hm hl hpa hQ)
  | false =>
    rw [stepBodyK_susp P k d hs]
    exact hbody d hm hl hpa hQ

theorem loopHead_gen (P : Prog) (Q : Cfg → Prop) (hpc : ∀ c pc', Q c → Q { c with pc := pc' })
    (hbody : ∀ d, Mid d → terminal d.st.label = false → d.paused = none → Q d → Q (stepBody P 0 d)) :
    ∀ (fuel : Nat) (d : Cfg), Mid d → Q d → Q (loopHead P fuel d) := by
  intro fuel
  induction fuel with
  | zero => intro d _ hQ; simpa [loopHead] using hQ
  | succ n ih =>
    intro d hm hQ
    unfold loopHead
    split
    · exact hQ
    · split
      · exact hpc _ _ hQ
      · rename_i hnt
        have hl : terminal d.st.label = false := by simpa using hnt
        split
        · exact hpc _ _ hQ
        · split
          · rename_i pf hpa
            split
            · exact hpc _ _ hQ
            · rename_i hne
              exact absurd (hm.invP.pausedPending hl pf hpa) hne
          · rename_i hpa
            exact stepBodyK_gen P Q _ hbody ih d hm hl hpa hQ

/-- a predicate `Q` on WAITING or terminated configurations survives a callback of the stepping task -/
theorem tick_gen (P : Prog) (Q : Cfg → Prop) (hsetpc : ∀ c pc', Q c → Q { c with pc := pc' })
    (hbody : ∀ d, Mid d → terminal d.st.label = false → d.paused = none → Q d → Q (stepBody P 0 d))
    (hterm : ∀ c d, Q c → terminal c.st.label = true → d.st = c.st → d.trace = c.trace → Q d)
    (hwake : ∀ c wf w, Coh c → terminal c.st.label = false → c.pc = .awaitWaiting wf → c.wfs[wf]? = some w →
      w ≠ .pending → Q c → Q (wake c (wakeFn c) wf w))
    (hnw : ∀ c, Q c → terminal c.st.label = false → wfOf c.st ≠ none)
    (c : Cfg) (hC : Coh c) (hQ : Q c) : Q (tickStepper P c) := by
  cases hl : terminal c.st.label with
  | true => exact hterm c _ hQ hl (tickStepper_fix P c hl).1 (tickStepper_terminal_trace P c hl)
  | false =>
    have hpcok := hC.pcOk
    unfold PcOk at hpcok
    unfold tickStepper
    split
    · rename_i hpc
      simp only [hpc] at hpcok
      exact loopHead_gen P Q hsetpc hbody _ c (mid_of_coh_nstep hC hpcok) hQ
    · rename_i pf hpc
      simp only [hpc] at hpcok
      have hm := mid_of_coh_nstep hC hpcok.1
      split
      · split
        · rename_i pf' hpa
          split
          · exact hsetpc _ _ hQ
          · rename_i hne
            exact absurd (hC.invP.pausedPending hl pf' hpa) hne
        · rename_i hpa
          unfold stepBody
          exact stepBodyK_gen P Q _ hbody (loopHead_gen P Q hsetpc hbody _) c hm hl hpa hQ
      · exact hQ
    · rename_i b hpc
      simp only [hpc] at hpcok
      exact absurd hpcok.2 (hnw c hQ hl)
    · rename_i wf hpc
      simp only [hpc] at hpcok
      split
      · exact hQ
      · rename_i w hnp hw
        have hne : w ≠ .pending := by intro g; exact hnp g
        have hwf : ∀ wf', wfOf c.st = some wf' → wf' = wf := by
          intro wf' h1
          rcases hpcok.2 with g | g
          · rw [hl] at g; cases g
          · rw [g] at h1; cases h1; rfl
        have key := wake_rsp c (wakeFn c) wf w hC.rob hw hne hwf
        have hm : Mid (wake c (wakeFn c) wf w) := ⟨key.1, wake_inv _ _ _ _ hC.inv, wake_invP _ _ _ _ hC.invP, key.2.1,
          by intro e; rw [key.2.2, hpc]; intro g; cases g⟩
        show Q (loopHead P fuel0 (wake c (wakeFn c) wf w))
        exact loopHead_gen P Q hsetpc hbody _ _ hm (hwake c wf w hC hl hpc hw hne hQ)
      · exact hQ
    · rename_i h1 h2 h3 h4
      cases hpc : c.pc with
      | notStarted => exact absurd hpc h1
      | awaitPaused pf => exact absurd hpc (h2 pf)
      | inUser b => exact absurd hpc (h3 b)
      | awaitWaiting wf => exact absurd hpc (h4 wf)
      | done => simp only [hpc] at hpcok; rw [hl] at hpcok; cases hpcok.2
      | crashed e => simp only [hpc] at hpcok

/-! ### the phases of one wait -/

/-- `(f, k)` was processed with a result, and the context holds under `k` the result of a future of `aw0` registered under
`k` (`f` itself if `k` is registered once; the one processed last if several futures share the key) -/
def DoneRes (aw0 : List (Nat × Nat)) (c : Cfg) (f k : Nat) : Prop :=
  (∃ v, c.efs[f]? = some (.result v)) ∧ ∃ f' v', (f', k) ∈ aw0 ∧ c.efs[f']? = some (.result v') ∧ (k, v') ∈ c.ctx

theorem DoneRes.mono {aw0 : List (Nat × Nat)} {c d : Cfg} {f k : Nat} (h : DoneRes aw0 c f k) (hctx : d.ctx = c.ctx)
    (hefs : ∀ (f : Nat) (v : Val), c.efs[f]? = some (EFut.result v) → d.efs[f]? = some (EFut.result v)) : DoneRes aw0 d f k := by
  obtain ⟨⟨v, hv⟩, f', v', h1, h2, h3⟩ := h
  exact ⟨⟨v, hefs f v hv⟩, f', v', h1, hefs f' v' h2, by rw [hctx]; exact h3⟩

theorem DoneRes.congr {aw0 : List (Nat × Nat)} {c d : Cfg} {f k : Nat} (h : DoneRes aw0 c f k) (hctx : d.ctx = c.ctx)
    (hefs : d.efs = c.efs) : DoneRes aw0 d f k := h.mono hctx (by intro f v hv; rw [hefs]; exact hv)

/-- every awaitable of `aw0` was processed with a result and is found in the context -/
def AllRes (aw0 : List (Nat × Nat)) (c : Cfg) : Prop := ∀ f k, (f, k) ∈ aw0 → DoneRes aw0 c f k

/-- what is known about the awaitables while nothing has been delivered to the wait -/
structure PreF (aw0 aw : List (Nat × Nat)) (c : Cfg) : Prop where
  sub : ∀ p ∈ aw, p ∈ aw0
  done : ∀ f k, (f, k) ∈ aw0 → (f, k) ∈ aw ∨ DoneRes aw0 c f k

theorem PreF.mono {aw0 aw : List (Nat × Nat)} {c d : Cfg} (h : PreF aw0 aw c) (hctx : d.ctx = c.ctx)
    (hefs : ∀ (f : Nat) (v : Val), c.efs[f]? = some (EFut.result v) → d.efs[f]? = some (EFut.result v)) : PreF aw0 aw d :=
  ⟨h.sub, fun f k hk => (h.done f k hk).imp id (fun g => g.mono hctx hefs)⟩

theorem PreF.allRes {aw0 : List (Nat × Nat)} {c : Cfg} (h : PreF aw0 [] c) : AllRes aw0 c := by
  intro f k hk
  rcases h.done f k hk with g | g
  · cases g
  · exact g

/-- still WAITING for `fn` on `aw`, nothing delivered, nothing activated — or terminated -/
inductive UnresA (fn : Nat) (aw : List (Nat × Nat)) (t0 : List Act) (c : Cfg) : Prop
  | waiting (wf : Nat) (hst : c.st = .waiting fn wf none aw)
      (he : c.wfs[wf]? = some .pending ∨ ∃ k, c.wfs[wf]? = some (.interrupted k)) (ht : c.trace = t0)
  | over (hterm : terminal c.st.label = true) (ht : c.trace = t0)

/-- the wait of the current WAITING state holds the failure `e` (in its future, or parked behind an interruption) -/
def HoldsF (c : Cfg) (wf : Nat) (wk : Option WF) (e : Exc) : Prop :=
  c.wfs[wf]? = some (.failed e) ∨ ((∃ k, c.wfs[wf]? = some (.interrupted k)) ∧ wk = some (.failed e))

/-- the wait for `fn` holds the failure `e` and nothing was activated — or the process terminated, nothing activated -/
inductive FailD (fn : Nat) (e : Exc) (t0 : List Act) (c : Cfg) : Prop
  | held (wf : Nat) (wk : Option WF) (aw : List (Nat × Nat)) (hst : c.st = .waiting fn wf wk aw) (hh : HoldsF c wf wk e)
      (ht : c.trace = t0)
  | over (hterm : terminal c.st.label = true) (ht : c.trace = t0)

theorem FailD.trace {fn e t0} {c : Cfg} (h : FailD fn e t0 c) : c.trace = t0 := by
  cases h with
  | held _ _ _ _ _ ht => exact ht
  | over _ ht => exact ht

theorem UnresA.trace {fn aw t0} {c : Cfg} (h : UnresA fn aw t0 c) : c.trace = t0 := by
  cases h with
  | waiting _ _ _ ht => exact ht
  | over _ ht => exact ht

theorem terminal_waiting (fn wf : Nat) (wk : Option WF) (aw : List (Nat × Nat)) :
    terminal (SObj.waiting fn wf wk aw).label = false := by simp [SObj.label, terminal, allowed]

/-! ### the stepping task: nothing delivered (`UnresA`) -/

theorem tickStepper_unresA {fn : Nat} {aw : List (Nat × Nat)} {t0 : List Act} (P : Prog) (c : Cfg) (hC : Coh c)
    (h : UnresA fn aw t0 c) : UnresA fn aw t0 (tickStepper P c) := by
  refine tick_gen P (UnresA fn aw t0) ?_ ?_ ?_ ?_ ?_ c hC h
  · intro c pc' h
    cases h with
    | waiting wf hst he ht => exact .waiting wf hst he ht
    | over hterm ht => exact .over hterm ht
  · intro d hm hl _ h
    cases h with
    | over hterm _ => rw [hl] at hterm; cases hterm
    | waiting wf hst he ht =>
      have hw := pending_of_nstep hm.rob hm.nstep hst he
      have hf := stepBodyK_pending_fields P (loopHead P 0) d fn wf none aw hst hw
      unfold stepBody
      exact .waiting wf (hf.1.trans hst) (Or.inl (by rw [hf.2.1]; exact hw)) (hf.2.2.trans ht)
  · intro c d h hterm hst htr
    exact .over (by rw [hst]; exact hterm) (htr.trans h.trace)
  · intro c wf' w hC hl hpc hw hne h
    cases h with
    | over hterm _ => rw [hl] at hterm; cases hterm
    | waiting wf hst he ht =>
      have hwfo : wfOf c.st = some wf := by rw [hst]; rfl
      have hpcok := hC.pcOk
      unfold PcOk at hpcok
      simp only [hpc] at hpcok
      have hwf' : wf' = wf := by
        rcases hpcok.2 with g | g
        · rw [hl] at g; cases g
        · rw [hwfo] at g; cases g; rfl
      subst hwf'
      have hwfn : wakeFn c = fn := by unfold wakeFn; rw [hst]
      rw [hwfn]
      rcases he with hp | ⟨k, hk⟩
      · rw [hp] at hw; cases hw; exact absurd rfl hne
      · rw [hk] at hw; cases hw
        have hwake : wake c fn wf' (.interrupted k) =
            endOfStep { c with st := .waiting fn c.wfs.length none aw, wfs := c.wfs ++ [WF.pending] } (.interruption k) := by
          unfold wake
          simp only [hst, if_true]
        have hs := endOfStep_spec { c with st := .waiting fn c.wfs.length none aw, wfs := c.wfs ++ [WF.pending] }
          (.interruption k) hC.rob.actOk
        rw [hwake]
        rcases hs.2.2.2.2 with ⟨a, b⟩ | a | ⟨s, hs', _, _⟩
        · exact .waiting c.wfs.length a (Or.inl (by rw [b]; simp)) (hs.2.2.2.1.trans ht)
        · exact .over a (hs.2.2.2.1.trans ht)
        · cases hs'
  · intro c h hl
    cases h with
    | over hterm _ => rw [hl] at hterm; cases hterm
    | waiting wf hst _ _ => rw [hst]; simp [wfOf]

/-! ### the stepping task: a failure is held (`FailD`) -/

theorem faild_of_stepRes {fn : Nat} {e : Exc} {t0 : List Act} (c d : Cfg) (next : Option SObj)
    (wf : Nat) (wk : Option WF) (aw : List (Nat × Nat))
    (hst : c.st = .waiting fn wf wk aw) (hw : c.wfs[wf]? = some (.failed e)) (ht : c.trace = t0)
    (hres : StepRes c d next) (hnext : ∀ s, next = some s → terminal s.label = true)
    (htr : d.trace = c.trace) : FailD fn e t0 d := by
  rcases hres with ⟨a, b⟩ | a | ⟨s, hs, a, _⟩
  · exact .held wf wk aw (a.trans hst) (Or.inl (by rw [b]; exact hw)) (htr.trans ht)
  · exact .over a (htr.trans ht)
  · exact .over (by rw [a]; exact hnext s hs) (htr.trans ht)

theorem tickStepper_faild {fn : Nat} {e : Exc} {t0 : List Act} (P : Prog) (c : Cfg) (hC : Coh c)
    (h : FailD fn e t0 c) : FailD fn e t0 (tickStepper P c) := by
  refine tick_gen P (FailD fn e t0) ?_ ?_ ?_ ?_ ?_ c hC h
  · intro c pc' h
    cases h with
    | held wf wk aw hst hh ht => exact .held wf wk aw hst hh ht
    | over hterm ht => exact .over hterm ht
  · intro d hm hl _ h
    cases h with
    | over hterm _ => rw [hl] at hterm; cases hterm
    | held wf wk aw hst hh ht =>
      have hw : d.wfs[wf]? = some (.failed e) := by
        rcases hh with g | ⟨⟨k, g⟩, _⟩
        · exact g
        · have := (hm.rob.intr wf k (by rw [hst]; rfl) g).1
          rw [hm.nstep] at this; cases this
      have hR := rob_stepping d hm.rob hm.nstep
      have hbody : stepBody P 0 d = endOfStep { d with stepping := true } (.exception e) := by
        unfold stepBody stepBodyK
        simp only [hst, hw]
        simp [loopHead, wake]
      rw [hbody]
      have hs := endOfStep_spec { d with stepping := true } (.exception e) hR.actOk
      exact faild_of_stepRes { d with stepping := true } _ _ wf wk aw hst hw ht hs.2.2.2.2
        (by intro s hs'; cases hs'; exact terminal_excepted e) hs.2.2.2.1
  · intro c d h hterm hst htr
    exact .over (by rw [hst]; exact hterm) (htr.trans h.trace)
  · intro c wf' w hC hl hpc hw hne h
    cases h with
    | over hterm _ => rw [hl] at hterm; cases hterm
    | held wf wk aw hst hh ht =>
      have hwfo : wfOf c.st = some wf := by rw [hst]; rfl
      have hpcok := hC.pcOk
      unfold PcOk at hpcok
      simp only [hpc] at hpcok
      have hwf' : wf' = wf := by
        rcases hpcok.2 with g | g
        · rw [hl] at g; cases g
        · rw [hwfo] at g; cases g; rfl
      subst hwf'
      have hwfn : wakeFn c = fn := by unfold wakeFn; rw [hst]
      rw [hwfn]
      rcases hh with hf | ⟨⟨k, hk⟩, hwk⟩
      · rw [hf] at hw; cases hw
        have hwake : wake c fn wf' (.failed e) = endOfStep c (.exception e) := by unfold wake; rfl
        rw [hwake]
        have hs := endOfStep_spec c (.exception e) hC.rob.actOk
        exact faild_of_stepRes c _ _ wf' wk aw hst hf ht hs.2.2.2.2
          (by intro s hs'; cases hs'; exact terminal_excepted e) hs.2.2.2.1
      · rw [hk] at hw; cases hw
        subst hwk
        have hwake : wake c fn wf' (.interrupted k) =
            endOfStep { c with st := .waiting fn c.wfs.length none aw, wfs := c.wfs ++ [WF.failed e] } (.interruption k) := by
          unfold wake
          simp only [hst, if_true]
        rw [hwake]
        have hs := endOfStep_spec { c with st := .waiting fn c.wfs.length none aw, wfs := c.wfs ++ [WF.failed e] }
          (.interruption k) hC.rob.actOk
        exact faild_of_stepRes { c with st := .waiting fn c.wfs.length none aw, wfs := c.wfs ++ [WF.failed e] } _ _
          c.wfs.length none aw rfl (by simp) ht hs.2.2.2.2 (by intro s hs'; cases hs') hs.2.2.2.1
  · intro c h hl
    cases h with
    | over hterm _ => rw [hl] at hterm; cases hterm
    | held wf wk aw hst _ _ => rw [hst]; simp [wfOf]

end PMF.B10
