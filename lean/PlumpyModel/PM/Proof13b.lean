import PlumpyModel.PM.Proof13
/-!
# C10 at the level of histories, part 2: what becomes of one wait (`Bar`)

Fix a configuration in which the chain is WAITING for continuation `fn` on the awaitables `aw0`, nothing processed yet, the
trace of user calls being `t0`.  `Bar fn aw0 t0 c` describes every configuration `c` that can follow:

* `pre`    — still the same WAITING epoch, nothing delivered to the wait; the awaiting set `aw` is a part of `aw0`, and every
             awaitable of `aw0` that left it was processed with a RESULT and the context holds, under its key, the result of a
             future of this wait registered under that key (`DoneRes`);
* `res v`  — the wait was completed with `v` (`H6.Deliv`: still held / RUNNING `fn` but not yet activated / terminated /
             `fn` activated first), and as long as `fn` has not been activated every awaitable of `aw0` is `DoneRes`;
* `failed e` — an awaitable that failed with `e` was processed first: the wait holds that failure, or the process terminated;
             nothing is activated (`FailD`);
* `over`   — the process terminated (kill, fail) before anything was delivered.

`step_bar`: every well-formed event keeps `Bar` in a reachable configuration.

The tick of the stepping task is handled once, generically (`tick_gen`): a predicate on WAITING / terminated configurations
survives a callback of the stepping task if it survives one synchronous step (`stepBody P 0`) and the wake-up of the
coroutine on its waiting future.
-/
namespace PMF.B10
open PMF PMF.H6

/-! ### one callback of the stepping task, generically -/

theorem mid_of_coh_nstep {c : Cfg} (h : Coh c) (hns : c.stepping = false) : Mid c := by
  refine ⟨h.rob, h.inv, h.invP, hns, ?_⟩
  intro e he
  have := h.pcOk; unfold PcOk at this; rw [he] at this; exact this

theorem stepBodyK_gen (P : Prog) (Q : Cfg → Prop) (k : Cfg → Cfg)
    (hbody : ∀ d, Mid d → terminal d.st.label = false → d.paused = none → Q d → Q (stepBody P 0 d))
    (hk : ∀ d, Mid d → Q d → Q (k d))
    (d : Cfg) (hm : Mid d) (hl : terminal d.st.label = false) (hpa : d.paused = none) (hQ : Q d) : Q (stepBodyK P k d) := by
  cases hs : stepSync P d with
  | true =>
    rw [stepBodyK_sync P k d hs]
    exact hk _ (stepBody0_mid P d hm (fun _ => hpa) hs) (hbody d hm hl hpa hQ)
  | false =>
    rw [stepBodyK_susp P k d hs]
    exact hbody d hm hl hpa hQ

theorem loopHead_gen (P : Prog) (Q : Cfg → Prop) (hpc : ∀ c pc', Q c → Q { c with pc := pc' })
    (hbody : ∀ d, Mid d → terminal d.st.label = false → d.paused = none → Q d → Q (stepBody P 0 d)) :
    ∀ (fuel : Nat) (d : Cfg), Mid d → Q d → Q (loopHead P fuel d) := by
  intro fuel
  induction fuel with
  | zero => intro d _ hQ; simpa [loopHead] using hQ
  | succ n ih =>
    intro d hm hQ
    unfold loopHead
    split
    · exact hQ
    · split
      · exact hpc _ _ hQ
      · rename_i hnt
        have hl : terminal d.st.label = false := by simpa using hnt
        split
        · exact hpc _ _ hQ
        · split
          · rename_i pf hpa
            split
            · exact hpc _ _ hQ
            · rename_i hne
              exact absurd (hm.invP.pausedPending hl pf hpa) hne
          · rename_i hpa
            exact stepBodyK_gen P Q _ hbody ih d hm hl hpa hQ

/-- a predicate `Q` on WAITING or terminated configurations survives a callback of the stepping task -/
theorem tick_gen (P : Prog) (Q : Cfg → Prop) (hsetpc : ∀ c pc', Q c → Q { c with pc := pc' })
    (hbody : ∀ d, Mid d → terminal d.st.label = false → d.paused = none → Q d → Q (stepBody P 0 d))
    (hterm : ∀ c d, Q c → terminal c.st.label = true → d.st = c.st → d.trace = c.trace → Q d)
    (hwake : ∀ c wf w, Coh c → terminal c.st.label = false → c.pc = .awaitWaiting wf → c.wfs[wf]? = some w →
      w ≠ .pending → Q c → Q (wake c (wakeFn c) wf w))
    (hnw : ∀ c, Q c → terminal c.st.label = false → wfOf c.st ≠ none)
    (c : Cfg) (hC : Coh c) (hQ : Q c) : Q (tickStepper P c) := by
  cases hl : terminal c.st.label with
  | true => exact hterm c _ hQ hl (tickStepper_fix P c hl).1 (tickStepper_terminal_trace P c hl)
  | false =>
    have hpcok := hC.pcOk
    unfold PcOk at hpcok
    unfold tickStepper
    split
    · rename_i hpc
      simp only [hpc] at hpcok
      exact loopHead_gen P Q hsetpc hbody _ c (mid_of_coh_nstep hC hpcok) hQ
    · rename_i pf hpc
      simp only [hpc] at hpcok
      have hm := mid_of_coh_nstep hC hpcok.1
      split
      · split
        · rename_i pf' hpa
          split
          · exact hsetpc _ _ hQ
          · rename_i hne
            exact absurd (hC.invP.pausedPending hl pf' hpa) hne
        · rename_i hpa
          unfold stepBody
          exact stepBodyK_gen P Q _ hbody (loopHead_gen P Q hsetpc hbody _) c hm hl hpa hQ
      · exact hQ
    · rename_i b hpc
      simp only [hpc] at hpcok
      exact absurd hpcok.2 (hnw c hQ hl)
    · rename_i wf hpc
      simp only [hpc] at hpcok
      split
      · exact hQ
      · rename_i w hnp hw
        have hne : w ≠ .pending := by intro g; exact hnp g
        have hwf : ∀ wf', wfOf c.st = some wf' → wf' = wf := by
          intro wf' h1
          rcases hpcok.2 with g | g
          · rw [hl] at g; cases g
          · rw [g] at h1; cases h1; rfl
        have key := wake_rsp c (wakeFn c) wf w hC.rob hw hne hwf
        have hm : Mid (wake c (wakeFn c) wf w) := ⟨key.1, wake_inv _ _ _ _ hC.inv, wake_invP _ _ _ _ hC.invP, key.2.1,
          by intro e; rw [key.2.2, hpc]; intro g; cases g⟩
        show Q (loopHead P fuel0 (wake c (wakeFn c) wf w))
        exact loopHead_gen P Q hsetpc hbody _ _ hm (hwake c wf w hC hl hpc hw hne hQ)
      · exact hQ
    · rename_i h1 h2 h3 h4
      cases hpc : c.pc with
      | notStarted => exact absurd hpc h1
      | awaitPaused pf => exact absurd hpc (h2 pf)
      | inUser b => exact absurd hpc (h3 b)
      | awaitWaiting wf => exact absurd hpc (h4 wf)
      | done => simp only [hpc] at hpcok; rw [hl] at hpcok; cases hpcok.2
      | crashed e => simp only [hpc] at hpcok

/-! ### the phases of one wait -/

/-- `(f, k)` was processed with a result, and the context holds under `k` the result of a future of `aw0` registered under
`k` (`f` itself if `k` is registered once; the one processed last if several futures share the key) -/
def DoneRes (aw0 : List (Nat × Nat)) (c : Cfg) (f k : Nat) : Prop :=
  (∃ v, c.efs[f]? = some (.result v)) ∧ ∃ f' v', (f', k) ∈ aw0 ∧ c.efs[f']? = some (.result v') ∧ (k, v') ∈ c.ctx

theorem DoneRes.mono {aw0 : List (Nat × Nat)} {c d : Cfg} {f k : Nat} (h : DoneRes aw0 c f k) (hctx : d.ctx = c.ctx)
    (hefs : ∀ (f : Nat) (v : Val), c.efs[f]? = some (EFut.result v) → d.efs[f]? = some (EFut.result v)) : DoneRes aw0 d f k := by
  obtain ⟨⟨v, hv⟩, f', v', h1, h2, h3⟩ := h
  exact ⟨⟨v, hefs f v hv⟩, f', v', h1, hefs f' v' h2, by rw [hctx]; exact h3⟩

theorem DoneRes.congr {aw0 : List (Nat × Nat)} {c d : Cfg} {f k : Nat} (h : DoneRes aw0 c f k) (hctx : d.ctx = c.ctx)
    (hefs : d.efs = c.efs) : DoneRes aw0 d f k := h.mono hctx (by intro f v hv; rw [hefs]; exact hv)

/-- every awaitable of `aw0` was processed with a result and is found in the context -/
def AllRes (aw0 : List (Nat × Nat)) (c : Cfg) : Prop := ∀ f k, (f, k) ∈ aw0 → DoneRes aw0 c f k

/-- what is known about the awaitables while nothing has been delivered to the wait -/
structure PreF (aw0 aw : List (Nat × Nat)) (c : Cfg) : Prop where
  sub : ∀ p ∈ aw, p ∈ aw0
  done : ∀ f k, (f, k) ∈ aw0 → (f, k) ∈ aw ∨ DoneRes aw0 c f k

theorem PreF.mono {aw0 aw : List (Nat × Nat)} {c d : Cfg} (h : PreF aw0 aw c) (hctx : d.ctx = c.ctx)
    (hefs : ∀ (f : Nat) (v : Val), c.efs[f]? = some (EFut.result v) → d.efs[f]? = some (EFut.result v)) : PreF aw0 aw d :=
  ⟨h.sub, fun f k hk => (h.done f k hk).imp id (fun g => g.mono hctx hefs)⟩

theorem PreF.allRes {aw0 : List (Nat × Nat)} {c : Cfg} (h : PreF aw0 [] c) : AllRes aw0 c := by
  intro f k hk
  rcases h.done f k hk with g | g
  · cases g
  · exact g

/-- still WAITING for `fn` on `aw`, nothing delivered, nothing activated — or terminated -/
inductive UnresA (fn : Nat) (aw : List (Nat × Nat)) (t0 : List Act) (c : Cfg) : Prop
  | waiting (wf : Nat) (hst : c.st = .waiting fn wf none aw)
      (he : c.wfs[wf]? = some .pending ∨ ∃ k, c.wfs[wf]? = some (.interrupted k)) (ht : c.trace = t0)
  | over (hterm : terminal c.st.label = true) (ht : c.trace = t0)

/-- the wait of the current WAITING state holds the failure `e` (in its future, or parked behind an interruption) -/
def HoldsF (c : Cfg) (wf : Nat) (wk : Option WF) (e : Exc) : Prop :=
  c.wfs[wf]? = some (.failed e) ∨ ((∃ k, c.wfs[wf]? = some (.interrupted k)) ∧ wk = some (.failed e))

/-- the wait for `fn` holds the failure `e` and nothing was activated — or the process terminated, nothing activated -/
inductive FailD (fn : Nat) (e : Exc) (t0 : List Act) (c : Cfg) : Prop
  | held (wf : Nat) (wk : Option WF) (aw : List (Nat × Nat)) (hst : c.st = .waiting fn wf wk aw) (hh : HoldsF c wf wk e)
      (ht : c.trace = t0)
  | over (hterm : terminal c.st.label = true) (ht : c.trace = t0)

theorem FailD.trace {fn e t0} {c : Cfg} (h : FailD fn e t0 c) : c.trace = t0 := by
  cases h with
  | held _ _ _ _ _ ht => exact ht
  | over _ ht => exact ht

theorem UnresA.trace {fn aw t0} {c : Cfg} (h : UnresA fn aw t0 c) : c.trace = t0 := by
  cases h with
  | waiting _ _ _ ht => exact ht
  | over _ ht => exact ht

theorem terminal_waiting (fn wf : Nat) (wk : Option WF) (aw : List (Nat × Nat)) :
    terminal (SObj.waiting fn wf wk aw).label = false := by simp [SObj.label, terminal, allowed]

/-! ### the stepping task: nothing delivered (`UnresA`) -/

theorem tickStepper_unresA {fn : Nat} {aw : List (Nat × Nat)} {t0 : List Act} (P : Prog) (c : Cfg) (hC : Coh c)
    (h : UnresA fn aw t0 c) : UnresA fn aw t0 (tickStepper P c) := by
  refine tick_gen P (UnresA fn aw t0) ?_ ?_ ?_ ?_ ?_ c hC h
  · intro c pc' h
    cases h with
    | waiting wf hst he ht => exact .waiting wf hst he ht
    | over hterm ht => exact .over hterm ht
  · intro d hm hl _ h
    cases h with
    | over hterm _ => rw [hl] at hterm; cases hterm
    | waiting wf hst he ht =>
      have hw := pending_of_nstep hm.rob hm.nstep hst he
      have hf := stepBodyK_pending_fields P (loopHead P 0) d fn wf none aw hst hw
      unfold stepBody
      exact .waiting wf (hf.1.trans hst) (Or.inl (by rw [hf.2.1]; exact hw)) (hf.2.2.trans ht)
  · intro c d h hterm hst htr
    exact .over (by rw [hst]; exact hterm) (htr.trans h.trace)
  · intro c wf' w hC hl hpc hw hne h
    cases h with
    | over hterm _ => rw [hl] at hterm; cases hterm
    | waiting wf hst he ht =>
      have hwfo : wfOf c.st = some wf := by rw [hst]; rfl
      have hpcok := hC.pcOk
      unfold PcOk at hpcok
      simp only [hpc] at hpcok
      have hwf' : wf' = wf := by
        rcases hpcok.2 with g | g
        · rw [hl] at g; cases g
        · rw [hwfo] at g; cases g; rfl
      subst hwf'
      have hwfn : wakeFn c = fn := by unfold wakeFn; rw [hst]
      rw [hwfn]
      rcases he with hp | ⟨k, hk⟩
      · rw [hp] at hw; cases hw; exact absurd rfl hne
      · rw [hk] at hw; cases hw
        have hwake : wake c fn wf' (.interrupted k) =
            endOfStep { c with st := .waiting fn c.wfs.length none aw, wfs := c.wfs ++ [WF.pending] } (.interruption k) := by
          unfold wake
          simp only [hst, if_true]
        have hs := endOfStep_spec { c with st := .waiting fn c.wfs.length none aw, wfs := c.wfs ++ [WF.pending] }
          (.interruption k) hC.rob.actOk
        rw [hwake]
        rcases hs.2.2.2.2 with ⟨a, b⟩ | a | ⟨s, hs', _, _⟩
        · exact .waiting c.wfs.length a (Or.inl (by rw [b]; simp)) (hs.2.2.2.1.trans ht)
        · exact .over a (hs.2.2.2.1.trans ht)
        · cases hs'
  · intro c h hl
    cases h with
    | over hterm _ => rw [hl] at hterm; cases hterm
    | waiting wf hst _ _ => rw [hst]; simp [wfOf]

/-! ### the stepping task: a failure is held (`FailD`) -/

theorem faild_of_stepRes {fn : Nat} {e : Exc} {t0 : List Act} (c d : Cfg) (next : Option SObj)
    (wf : Nat) (wk : Option WF) (aw : List (Nat × Nat))
    (hst : c.st = .waiting fn wf wk aw) (hw : c.wfs[wf]? = some (.failed e)) (ht : c.trace = t0)
    (hres : StepRes c d next) (hnext : ∀ s, next = some s → terminal s.label = true)
    (htr : d.trace = c.trace) : FailD fn e t0 d := by
  rcases hres with ⟨a, b⟩ | a | ⟨s, hs, a, _⟩
  · exact .held wf wk aw (a.trans hst) (Or.inl (by rw [b]; exact hw)) (htr.trans ht)
  · exact .over a (htr.trans ht)
  · exact .over (by rw [a]; exact hnext s hs) (htr.trans ht)

theorem tickStepper_faild {fn : Nat} {e : Exc} {t0 : List Act} (P : Prog) (c : Cfg) (hC : Coh c)
    (h : FailD fn e t0 c) : FailD fn e t0 (tickStepper P c) := by
  refine tick_gen P (FailD fn e t0) ?_ ?_ ?_ ?_ ?_ c hC h
  · intro c pc' h
    cases h with
    | held wf wk aw hst hh ht => exact .held wf wk aw hst hh ht
    | over hterm ht => exact .over hterm ht
  · intro d hm hl _ h
    cases h with
    | over hterm _ => rw [hl] at hterm; cases hterm
    | held wf wk aw hst hh ht =>
      have hw : d.wfs[wf]? = some (.failed e) := by
        rcases hh with g | ⟨⟨k, g⟩, _⟩
        · exact g
        · have := (hm.rob.intr wf k (by rw [hst]; rfl) g).1
          rw [hm.nstep] at this; cases this
      have hR := rob_stepping d hm.rob hm.nstep
      have hbody : stepBody P 0 d = endOfStep { d with stepping := true } (.exception e) := by
        unfold stepBody stepBodyK
        simp only [hst, hw]
        simp [loopHead, wake]
      rw [hbody]
      have hs := endOfStep_spec { d with stepping := true } (.exception e) hR.actOk
      exact faild_of_stepRes { d with stepping := true } _ _ wf wk aw hst hw ht hs.2.2.2.2
        (by intro s hs'; cases hs'; exact terminal_excepted e) hs.2.2.2.1
  · intro c d h hterm hst htr
    exact .over (by rw [hst]; exact hterm) (htr.trans h.trace)
  · intro c wf' w hC hl hpc hw hne h
    cases h with
    | over hterm _ => rw [hl] at hterm; cases hterm
    | held wf wk aw hst hh ht =>
      have hwfo : wfOf c.st = some wf := by rw [hst]; rfl
      have hpcok := hC.pcOk
      unfold PcOk at hpcok
      simp only [hpc] at hpcok
      have hwf' : wf' = wf := by
        rcases hpcok.2 with g | g
        · rw [hl] at g; cases g
        · rw [hwfo] at g; cases g; rfl
      subst hwf'
      have hwfn : wakeFn c = fn := by unfold wakeFn; rw [hst]
      rw [hwfn]
      rcases hh with hf | ⟨⟨k, hk⟩, hwk⟩
      · rw [hf] at hw; cases hw
        have hwake : wake c fn wf' (.failed e) = endOfStep c (.exception e) := by unfold wake; rfl
        rw [hwake]
        have hs := endOfStep_spec c (.exception e) hC.rob.actOk
        exact faild_of_stepRes c _ _ wf' wk aw hst hf ht hs.2.2.2.2
          (by intro s hs'; cases hs'; exact terminal_excepted e) hs.2.2.2.1
      · rw [hk] at hw; cases hw
        subst hwk
        have hwake : wake c fn wf' (.interrupted k) =
            endOfStep { c with st := .waiting fn c.wfs.length none aw, wfs := c.wfs ++ [WF.failed e] } (.interruption k) := by
          unfold wake
          simp only [hst, if_true]
        rw [hwake]
        have hs := endOfStep_spec { c with st := .waiting fn c.wfs.length none aw, wfs := c.wfs ++ [WF.failed e] }
          (.interruption k) hC.rob.actOk
        exact faild_of_stepRes { c with st := .waiting fn c.wfs.length none aw, wfs := c.wfs ++ [WF.failed e] } _ _
          c.wfs.length none aw rfl (by simp) ht hs.2.2.2.2 (by intro s hs'; cases hs') hs.2.2.2.1
  · intro c h hl
    cases h with
    | over hterm _ => rw [hl] at hterm; cases hterm
    | held wf wk aw hst _ _ => rw [hst]; simp [wfOf]

/-! ### events other than the stepping task, a done-callback and `resume()`: quiet, or terminating -/

theorem UnresA.quiet {fn : Nat} {aw : List (Nat × Nat)} {t0 : List Act} {c d : Cfg} (h : UnresA fn aw t0 c)
    (q : QuietU c d) : UnresA fn aw t0 d := by
  cases h with
  | waiting wf hst he ht =>
    refine .waiting wf (q.1.trans hst) ?_ (q.2.1.trans ht)
    rcases q.2.2 wf (by rw [hst]; rfl) with g | ⟨_, k, g⟩
    · rw [g]; exact he
    · exact Or.inr ⟨k, g⟩
  | over hterm ht => exact .over (by rw [q.1]; exact hterm) (q.2.1.trans ht)

theorem FailD.quiet {fn : Nat} {e : Exc} {t0 : List Act} {c d : Cfg} (h : FailD fn e t0 c) (q : QuietU c d) :
    FailD fn e t0 d := by
  cases h with
  | held wf wk aw hst hh ht =>
    refine .held wf wk aw (q.1.trans hst) ?_ (q.2.1.trans ht)
    rcases q.2.2 wf (by rw [hst]; rfl) with g | ⟨g, _⟩
    · unfold HoldsF at *; rw [g]; exact hh
    · rcases hh with g' | ⟨⟨k, g'⟩, _⟩ <;> rw [g] at g' <;> cases g'
  | over hterm ht => exact .over (by rw [q.1]; exact hterm) (q.2.1.trans ht)

theorem play_wfs (c : Cfg) : (play c).1.wfs = c.wfs := by
  unfold play
  split
  · split
    · exact (cancelAction_rest c _).1.wfs
    · rfl
  · dsimp only; split <;> rfl

theorem kill_quietU (c : Cfg) : QuietU c (kill c).1 ∨ (terminal (kill c).1.st.label = true ∧ (kill c).1.trace = c.trace) := by
  unfold kill
  split
  · exact Or.inl (QuietU.of_eq rfl rfl rfl)
  · split
    · exact Or.inl (QuietU.of_eq rfl rfl rfl)
    · split
      · exact Or.inl (hand_quietU c c _ (QuietU.of_eq rfl rfl rfl))
      · split
        · dsimp only
          split
          · exact Or.inl (hand_quietU _ _ _ (requestInterrupt_quietU c .kill))
          · exact Or.inl (requestInterrupt_quietU c .kill)
        · exact Or.inr ⟨transitionTo_terminal c .killed terminal_killed, (transitionTo_core c .killed).trace⟩

theorem fail_quietU (c : Cfg) (e : Exc) :
    QuietU c (fail c e).1 ∨ (terminal (fail c e).1.st.label = true ∧ (fail c e).1.trace = c.trace) := by
  unfold fail; split
  · exact Or.inl (QuietU.of_eq rfl rfl rfl)
  · exact Or.inr ⟨transitionTo_terminal c _ (terminal_excepted e), (transitionTo_core c _).trace⟩

/-- an event that is neither a callback of the stepping task, nor a done-callback, nor a `resume()`, leaves the state
object, the trace and the wait alone (at most an interruption is written into the pending wait) — or terminates the process -/
theorem step_quietU (P : Prog) (c : Cfg) (ev : Ev) (hnt : ev ≠ .tick) (hna : ∀ g, ev ≠ .tickCb (.adone g))
    (hnr : ∀ v, ev ≠ .resume v) :
    QuietU c (step P c ev).1 ∨ (terminal (step P c ev).1.st.label = true ∧ (step P c ev).1.trace = c.trace) := by
  cases ev with
  | tick => exact absurd rfl hnt
  | resume v => exact absurd rfl (hnr v)
  | tickCb cb =>
    simp only [step]
    unfold tickCb; split
    · cases cb with
      | adone g => exact absurd rfl (hna g)
      | trykill =>
        dsimp only
        rcases kill_quietU { c with ready := c.ready.erase Cb.trykill } with q | ⟨a, b⟩
        · exact Or.inl ⟨q.1, q.2.1, q.2.2⟩
        · exact Or.inr ⟨a, b⟩
      | usercb r =>
        dsimp only
        split
        · rcases fail_quietU { c with ready := c.ready.erase (Cb.usercb r) } (.user 8) with q | ⟨a, b⟩
          · exact Or.inl ⟨q.1, q.2.1, q.2.2⟩
          · exact Or.inr ⟨a, b⟩
        · exact Or.inl (QuietU.of_eq rfl rfl rfl)
    · exact Or.inl (QuietU.of_eq rfl rfl rfl)
  | pause => exact Or.inl (pause_quietU c)
  | play => exact Or.inl (QuietU.of_eq (play_bf c).st (play_trace c) (play_wfs c))
  | kill => exact kill_quietU c
  | fail e => exact fail_quietU c e
  | cancelFut =>
    simp only [step]
    unfold cancelFut; split
    · exact Or.inl (QuietU.of_eq rfl rfl rfl)
    · exact Or.inl (QuietU.of_eq rfl rfl rfl)
  | complete f o =>
    simp only [step]
    unfold complete; split
    · dsimp only; split <;> exact Or.inl (QuietU.of_eq rfl rfl rfl)
    · exact Or.inl (QuietU.of_eq rfl rfl rfl)
  | callSoon r => exact Or.inl (QuietU.of_eq rfl rfl rfl)

/-! ### the context and the awaitables' results are stable -/

theorem kill_ce (c : Cfg) : (kill c).1.ctx = c.ctx ∧ (kill c).1.efs = c.efs := by
  rcases kill_cases c with f | e
  · exact ⟨f.ctx, f.efs⟩
  · rw [e]; exact ⟨(transitionTo_x c _).1, (transitionTo_x c _).2.1⟩

theorem fail_ce (c : Cfg) (e : Exc) : (fail c e).1.ctx = c.ctx ∧ (fail c e).1.efs = c.efs := by
  unfold fail; split
  · exact ⟨rfl, rfl⟩
  · exact ⟨(transitionTo_x c _).1, (transitionTo_x c _).2.1⟩

/-- every event except an awaitable's done-callback leaves the context alone, and no event changes the result of a
completed awaitable -/
theorem step_stable (P : Prog) (hP : AwDistinct P) (c : Cfg) (ev : Ev) (hR : Reach c)
    (hna : ∀ g, ev ≠ .tickCb (.adone g)) :
    (step P c ev).1.ctx = c.ctx ∧
    ∀ (f : Nat) (v : Val), c.efs[f]? = some (EFut.result v) → (step P c ev).1.efs[f]? = some (EFut.result v) := by
  have hof : ∀ d : Cfg, d.ctx = c.ctx ∧ d.efs = c.efs →
      d.ctx = c.ctx ∧ ∀ (f : Nat) (v : Val), c.efs[f]? = some (EFut.result v) → d.efs[f]? = some (EFut.result v) :=
    fun d h => ⟨h.1, fun f v hv => by rw [h.2]; exact hv⟩
  cases ev with
  | tick =>
    have := tickStepper_R P hP c ⟨hR.g, rfl, rfl⟩ hR.invB hR.coh
    exact hof _ ⟨this.ctx, this.efs⟩
  | tickCb cb =>
    simp only [step]
    unfold tickCb; split
    · cases cb with
      | adone g => exact absurd rfl (hna g)
      | trykill => exact hof _ (kill_ce { c with ready := c.ready.erase Cb.trykill })
      | usercb r =>
        dsimp only
        split
        · exact hof _ (fail_ce { c with ready := c.ready.erase (Cb.usercb r) } (.user 8))
        · exact hof _ ⟨rfl, rfl⟩
    · exact hof _ ⟨rfl, rfl⟩
  | pause => exact hof _ ⟨(pause_bf c).ctx, (pause_bf c).efs⟩
  | play => exact hof _ ⟨(play_bf c).ctx, (play_bf c).efs⟩
  | kill => exact hof _ (kill_ce c)
  | resume v =>
    simp only [step]
    unfold resume; split
    · exact hof _ ⟨(deliver_g c _).2.2.2.2.2.2, (deliver_g c _).2.2.2.2.1⟩
    · exact hof _ ⟨rfl, rfl⟩
  | fail e => exact hof _ (fail_ce c e)
  | cancelFut =>
    simp only [step]
    unfold cancelFut; split <;> exact hof _ ⟨rfl, rfl⟩
  | complete f o =>
    simp only [step]
    unfold complete; split
    · rename_i hp
      have key : ∀ (f' : Nat) (v : Val), c.efs[f']? = some (EFut.result v) → (setAt c.efs f o)[f']? = some (EFut.result v) := by
        intro f' v hv
        by_cases hff : f = f'
        · subst hff; rw [hp] at hv; cases hv
        · simpa [setAt, List.getElem?_set, hff] using hv
      dsimp only; split <;> exact ⟨rfl, key⟩
    · exact hof _ ⟨rfl, rfl⟩
  | callSoon r => exact hof _ ⟨rfl, rfl⟩

theorem tickCb_noop (c : Cfg) (cb : Cb) (h : cb ∉ c.ready) : tickCb c cb = c := by
  unfold tickCb
  split
  · rename_i hc; exact absurd (List.contains_iff_mem.mp hc) h
  · rfl

/-- while the current state awaits nothing, no done-callback is scheduled -/
theorem no_adone_ready {c : Cfg} (hg : G c) (hl : terminal c.st.label = false) (haw : awOf c.st = []) (g : Nat) :
    Cb.adone g ∉ c.ready := by
  have := hg.ns hl g
  rw [haw] at this
  have h0 : c.ready.count (Cb.adone g) = 0 := by simp at this; omega
  exact List.count_eq_zero.mp h0

/-! ### `_awaitable_done` and `Waiting._deliver`, computed -/

theorem awaitableDone_exc (c : Cfg) (fn wf : Nat) (wk : Option WF) (aw : List (Nat × Nat)) (g key : Nat) (e : Exc)
    (hst : c.st = .waiting fn wf wk aw) (hfind : aw.find? (·.1 = g) = some (g, key)) (hv : c.efs[g]? = some (.exc e)) :
    awaitableDone c g = deliver { c with st := .waiting fn wf wk (aw.filter (·.1 ≠ g)) } (.failed e) := by
  unfold awaitableDone
  simp only [hst, hfind, hv]

theorem awaitableDone_res_last (c : Cfg) (fn wf : Nat) (wk : Option WF) (aw : List (Nat × Nat)) (g key : Nat) (v : Val)
    (hst : c.st = .waiting fn wf wk aw) (hfind : aw.find? (·.1 = g) = some (g, key)) (hv : c.efs[g]? = some (.result v))
    (hrest : (aw.filter (·.1 ≠ g)).isEmpty = true) :
    awaitableDone c g = deliver { c with st := .waiting fn wf wk (aw.filter (·.1 ≠ g)), ctx := (key, v) :: c.ctx.filter (·.1 ≠ key) } (.result none) := by
  unfold awaitableDone
  simp only [hst, hfind, hv, hrest, if_true]

theorem awaitableDone_res_more (c : Cfg) (fn wf : Nat) (wk : Option WF) (aw : List (Nat × Nat)) (g key : Nat) (v : Val)
    (hst : c.st = .waiting fn wf wk aw) (hfind : aw.find? (·.1 = g) = some (g, key)) (hv : c.efs[g]? = some (.result v))
    (hrest : (aw.filter (·.1 ≠ g)).isEmpty = false) :
    awaitableDone c g = { c with st := .waiting fn wf wk (aw.filter (·.1 ≠ g)), ctx := (key, v) :: c.ctx.filter (·.1 ≠ key) } := by
  unfold awaitableDone
  simp only [hst, hfind, hv, hrest, Bool.false_eq_true, if_false]

/-- delivering an outcome to a wait that holds nothing: the outcome is stored in the future, or parked -/
theorem deliver_unres (c : Cfg) (fn wf : Nat) (aw : List (Nat × Nat)) (o : WF) (hst : c.st = .waiting fn wf none aw)
    (he : c.wfs[wf]? = some .pending ∨ ∃ k, c.wfs[wf]? = some (.interrupted k)) :
    ∃ wk', (deliver c o).st = .waiting fn wf wk' aw ∧
      ((deliver c o).wfs[wf]? = some o ∨ ((∃ k, (deliver c o).wfs[wf]? = some (.interrupted k)) ∧ wk' = some o)) ∧
      (deliver c o).trace = c.trace := by
  rcases he with hp | ⟨k, hk⟩
  · have hlt : wf < c.wfs.length := (List.getElem?_eq_some_iff.mp hp).1
    have : deliver c o = { c with wfs := setAt c.wfs wf o } := by unfold deliver; simp only [hst, hp]
    rw [this]
    exact ⟨none, hst, Or.inl (by simp [setAt, hlt]), rfl⟩
  · have : deliver c o = { c with st := .waiting fn wf (some o) aw } := by unfold deliver; simp [hst, hk]
    rw [this]
    exact ⟨some o, rfl, Or.inr ⟨⟨k, hk⟩, rfl⟩, rfl⟩

/-- a wait that holds a failure ignores every further delivery -/
theorem deliver_heldF_noop (c : Cfg) (o : WF) (fn wf : Nat) (wk : Option WF) (aw : List (Nat × Nat)) (e : Exc)
    (hst : c.st = .waiting fn wf wk aw) (hh : HoldsF c wf wk e) : deliver c o = c := by
  unfold deliver
  rcases hh with g | ⟨⟨k, g⟩, hwk⟩
  · simp [hst, g]
  · simp [hst, g, hwk]

/-! ### `Bar` -/

inductive Bar (fn : Nat) (aw0 : List (Nat × Nat)) (t0 : List Act) (c : Cfg) : Prop
  | pre (wf : Nat) (aw : List (Nat × Nat)) (hst : c.st = .waiting fn wf none aw)
      (he : c.wfs[wf]? = some .pending ∨ ∃ k, c.wfs[wf]? = some (.interrupted k)) (ht : c.trace = t0)
      (hf : PreF aw0 aw c)
  | res (v : Option Val) (hd : Deliv fn v t0 c) (hall : c.trace = t0 → terminal c.st.label = false → AllRes aw0 c)
  | failed (e : Exc) (hf : FailD fn e t0 c)
  | over (hterm : terminal c.st.label = true) (ht : c.trace = t0)

theorem Bar.of_unresA {fn aw0 t0 aw} {c : Cfg} (h : UnresA fn aw t0 c) (hf : PreF aw0 aw c) : Bar fn aw0 t0 c := by
  cases h with
  | waiting wf hst he ht => exact .pre wf aw hst he ht hf
  | over hterm ht => exact .over hterm ht

/-- a configuration with the wait for `fn` held with `v`, every awaitable processed with a result -/
theorem Bar.of_held {fn aw0 t0} {d : Cfg} (v : Option Val) (wf : Nat) (wk : Option WF) (aw : List (Nat × Nat))
    (hst : d.st = .waiting fn wf wk aw) (hh : Holds d wf wk v) (ht : d.trace = t0) (hall : AllRes aw0 d) : Bar fn aw0 t0 d :=
  .res v (.held wf wk aw hst hh ht) (fun _ _ => hall)

/-! ### `Bar` while nothing has been delivered -/

/-- `_awaitable_done` for an awaited, completed future `g` while nothing has been delivered to the wait -/
theorem awaitableDone_pre {fn : Nat} {aw0 : List (Nat × Nat)} {t0 : List Act} (c : Cfg) (g key : Nat) (o : EFut)
    (wf : Nat) (aw : List (Nat × Nat)) (hst : c.st = .waiting fn wf none aw)
    (he : c.wfs[wf]? = some .pending ∨ ∃ k, c.wfs[wf]? = some (.interrupted k)) (ht : c.trace = t0)
    (hf : PreF aw0 aw c) (hnd : DistinctF aw) (hfind : aw.find? (·.1 = g) = some (g, key))
    (ho : c.efs[g]? = some o) (hne : o ≠ .pending) : Bar fn aw0 t0 (awaitableDone c g) := by
  have hpm : (g, key) ∈ aw := List.mem_of_find?_eq_some hfind
  have hsub' : ∀ p ∈ aw.filter (·.1 ≠ g), p ∈ aw0 := fun p hp => hf.sub p (List.mem_filter.mp hp).1
  cases o with
  | pending => exact absurd rfl hne
  | exc e =>
    rw [awaitableDone_exc c fn wf none aw g key e hst hfind ho]
    obtain ⟨wk', h1, h2, h3⟩ := deliver_unres { c with st := .waiting fn wf none (aw.filter (·.1 ≠ g)) }
      fn wf (aw.filter (·.1 ≠ g)) (.failed e) rfl he
    exact .failed e (.held wf wk' _ h1 h2 (h3.trans ht))
  | result v =>
    -- the new facts: `(g, key)` is done, everything else is as before
    have hf' : PreF aw0 (aw.filter (·.1 ≠ g))
        { c with st := .waiting fn wf none (aw.filter (·.1 ≠ g)), ctx := (key, v) :: c.ctx.filter (·.1 ≠ key) } := by
      refine ⟨hsub', ?_⟩
      have hnew : ∃ f' v', (f', key) ∈ aw0 ∧ c.efs[f']? = some (EFut.result v') ∧
          (key, v') ∈ (key, v) :: c.ctx.filter (·.1 ≠ key) :=
        ⟨g, v, hf.sub _ hpm, ho, List.mem_cons_self⟩
      intro f k hk
      rcases hf.done f k hk with hin | hdone
      · by_cases hfg : f = g
        · subst hfg
          have : k = key := distinct_key_unique aw hnd f k key hin hpm
          subst this
          exact Or.inr ⟨⟨v, ho⟩, hnew⟩
        · exact Or.inl (List.mem_filter.mpr ⟨hin, by simpa using hfg⟩)
      · right
        obtain ⟨hv0, f', v', h1, h2, h3⟩ := hdone
        refine ⟨hv0, ?_⟩
        by_cases hkk : k = key
        · subst hkk; exact hnew
        · exact ⟨f', v', h1, h2, List.mem_cons_of_mem _ (List.mem_filter.mpr ⟨h3, by simpa using hkk⟩)⟩
    cases hrest : (aw.filter (·.1 ≠ g)).isEmpty with
    | false =>
      rw [awaitableDone_res_more c fn wf none aw g key v hst hfind ho hrest]
      exact .pre wf _ rfl he ht hf'
    | true =>
      rw [awaitableDone_res_last c fn wf none aw g key v hst hfind ho hrest]
      have hnil : aw.filter (·.1 ≠ g) = [] := List.isEmpty_iff.mp hrest
      obtain ⟨wk', h1, h2, h3⟩ := deliver_unres
        { c with st := .waiting fn wf none (aw.filter (·.1 ≠ g)), ctx := (key, v) :: c.ctx.filter (·.1 ≠ key) }
        fn wf (aw.filter (·.1 ≠ g)) (.result none) rfl he
      have hg := deliver_g
        { c with st := .waiting fn wf none (aw.filter (·.1 ≠ g)), ctx := (key, v) :: c.ctx.filter (·.1 ≠ key) } (.result none)
      rw [hnil] at hf'
      refine Bar.of_held none wf wk' _ h1 h2 (h3.trans ht) ?_
      intro f k hk
      exact (hf'.allRes f k hk).congr hg.2.2.2.2.2.2 hg.2.2.2.2.1

/-- the done-callback of `g` while nothing has been delivered to the wait -/
theorem adone_pre {fn : Nat} {aw0 : List (Nat × Nat)} {t0 : List Act} (c : Cfg) (g : Nat) (hR : Reach c)
    (wf : Nat) (aw : List (Nat × Nat)) (hst : c.st = .waiting fn wf none aw)
    (he : c.wfs[wf]? = some .pending ∨ ∃ k, c.wfs[wf]? = some (.interrupted k)) (ht : c.trace = t0)
    (hf : PreF aw0 aw c) : Bar fn aw0 t0 (tickCb c (.adone g)) ∧ (tickCb c (.adone g)).trace = t0 := by
  refine ⟨?_, (tickCb_trace c _).trans ht⟩
  by_cases hmem : Cb.adone g ∈ c.ready
  · have hlive : terminal c.st.label = false := by rw [hst]; exact terminal_waiting ..
    have hnd : DistinctF aw := by have := hR.g.nd; rw [hst] at this; exact this
    -- `g` is awaited
    have hpos : 0 < aw.countP (·.1 = g) := by
      have h1 := hR.g.ns hlive g
      rw [hst] at h1
      have h2 : 0 < c.ready.count (Cb.adone g) := List.count_pos_iff.mpr hmem
      have h1' : c.ready.count (Cb.adone g) + c.efCb.count g ≤ aw.countP (·.1 = g) := h1
      omega
    obtain ⟨a, ha, hag⟩ := List.countP_pos_iff.mp hpos
    cases hfind : aw.find? (·.1 = g) with
    | none =>
      rw [List.find?_eq_none] at hfind
      exact absurd hag (hfind a ha)
    | some p =>
      have hp1 : p.1 = g := by simpa using List.find?_some hfind
      obtain ⟨g', key⟩ := p
      have : g' = g := hp1
      subst this
      -- the future is done
      obtain ⟨o, ho, hne⟩ := hR.g.rd g' hmem
      have htick : tickCb c (.adone g') = awaitableDone { c with ready := c.ready.erase (Cb.adone g') } g' := by
        unfold tickCb
        rw [if_pos (List.contains_iff_mem.mpr hmem)]
      rw [htick]
      exact awaitableDone_pre { c with ready := c.ready.erase (Cb.adone g') } g' key o wf aw hst he ht
        (hf.mono rfl (fun _ _ h => h)) hnd hfind ho hne
  · rw [tickCb_noop c _ hmem]; exact .pre wf aw hst he ht hf

/-- `resume(v)` while nothing is awaited and nothing has been delivered: the wait now holds `v` -/
theorem resume_pre {fn : Nat} {aw0 : List (Nat × Nat)} {t0 : List Act} (c : Cfg) (v : Option Val)
    (wf : Nat) (hst : c.st = .waiting fn wf none [])
    (he : c.wfs[wf]? = some .pending ∨ ∃ k, c.wfs[wf]? = some (.interrupted k)) (ht : c.trace = t0)
    (hf : PreF aw0 [] c) : Bar fn aw0 t0 (resume c v).1 := by
  have hr : (resume c v).1 = deliver c (.result v) := by unfold resume; simp [hst]
  rw [hr]
  obtain ⟨wk', h1, h2, h3⟩ := deliver_unres c fn wf [] (.result v) hst he
  have hg := deliver_g c (.result v)
  refine Bar.of_held v wf wk' [] h1 h2 (h3.trans ht) ?_
  intro f k hk
  exact (hf.allRes f k hk).congr hg.2.2.2.2.2.2 hg.2.2.2.2.1

theorem step_pre {fn : Nat} {aw0 : List (Nat × Nat)} {t0 : List Act} (P : Prog) (hP : AwDistinct P) (c : Cfg) (ev : Ev)
    (hR : Reach c) (hok : evOk c ev = true)
    (wf : Nat) (aw : List (Nat × Nat)) (hst : c.st = .waiting fn wf none aw)
    (he : c.wfs[wf]? = some .pending ∨ ∃ k, c.wfs[wf]? = some (.interrupted k)) (ht : c.trace = t0)
    (hf : PreF aw0 aw c) : Bar fn aw0 t0 (step P c ev).1 ∧ (step P c ev).1.trace = t0 := by
  have hU : UnresA fn aw t0 c := .waiting wf hst he ht
  by_cases hna : ∃ g, ev = .tickCb (.adone g)
  · obtain ⟨g, rfl⟩ := hna
    exact adone_pre c g hR wf aw hst he ht hf
  · have hna' : ∀ g, ev ≠ .tickCb (.adone g) := fun g h => hna ⟨g, h⟩
    have hstab := step_stable P hP c ev hR hna'
    have hf' : PreF aw0 aw (step P c ev).1 := hf.mono hstab.1 hstab.2
    by_cases hnt : ev = .tick
    · subst hnt
      have hU' := tickStepper_unresA P c hR.coh hU
      exact ⟨Bar.of_unresA hU' hf', hU'.trace⟩
    · by_cases hnr : ∃ v, ev = .resume v
      · obtain ⟨v, rfl⟩ := hnr
        have hnil : aw = [] := by
          have : (awOf c.st).isEmpty = true := hok
          rw [hst] at this
          exact List.isEmpty_iff.mp this
        subst hnil
        exact ⟨resume_pre c v wf hst he ht hf, (resume_trace c v).trans ht⟩
      · have hnr' : ∀ v, ev ≠ .resume v := fun v h => hnr ⟨v, h⟩
        rcases step_quietU P c ev hnt hna' hnr' with q | ⟨a, b⟩
        · have hU' := hU.quiet q
          exact ⟨Bar.of_unresA hU' hf', hU'.trace⟩
        · exact ⟨.over a (b.trans ht), b.trans ht⟩

/-! ### `Bar` once a failure is held -/

theorem FailD.terminated {fn : Nat} {e : Exc} {t0 : List Act} {c d : Cfg} (h : FailD fn e t0 c)
    (hterm : terminal d.st.label = true) (htr : d.trace = c.trace) : FailD fn e t0 d :=
  .over hterm (htr.trans h.trace)

theorem deliver_faild {fn : Nat} {e : Exc} {t0 : List Act} (c : Cfg) (o : WF) (h : FailD fn e t0 c) :
    FailD fn e t0 (deliver c o) := by
  cases h with
  | held wf wk aw hst hh ht => rw [deliver_heldF_noop c o fn wf wk aw e hst hh]; exact .held wf wk aw hst hh ht
  | over hterm ht =>
    have : deliver c o = c := by
      obtain ⟨_, _, h3⟩ := not_live_of_terminal hterm
      unfold deliver
      split
      · rename_i fn' wf' wk' aw' hst; exact absurd hst (h3 fn' wf' wk' aw')
      · rfl
    rw [this]; exact .over hterm ht

theorem awaitableDone_faild {fn : Nat} {e : Exc} {t0 : List Act} (c : Cfg) (f : Nat) (h : FailD fn e t0 c) :
    FailD fn e t0 (awaitableDone c f) := by
  unfold awaitableDone
  have hold : ∀ d : Cfg, FailD fn e t0 d → FailD fn e t0 (match d.efKeys.find? (·.1 = f), d.efs[f]? with
      | some (_, key), some (EFut.result v) => { d with ctx := (key, v) :: d.ctx.filter (·.1 ≠ key) }
      | _, _ => d) := by
    intro d hd; split
    · exact hd.quiet (QuietU.of_eq rfl rfl rfl)
    · exact hd
  dsimp only
  split
  · rename_i fn' wf wakeup aw hst
    split
    · exact hold c h
    · have h1 : FailD fn e t0 { c with st := .waiting fn' wf wakeup (aw.filter (·.1 ≠ f)) } := by
        cases h with
        | held wf' wk' aw' hst' hh ht =>
          rw [hst] at hst'; cases hst'
          exact .held wf wakeup _ rfl hh ht
        | over hterm _ => rw [hst] at hterm; simp [SObj.label, terminal, allowed] at hterm
      split
      · split
        · exact deliver_faild _ _ (h1.quiet (QuietU.of_eq rfl rfl rfl))
        · exact h1.quiet (QuietU.of_eq rfl rfl rfl)
      · exact deliver_faild _ _ h1
      · exact h1
  · exact hold c h

theorem step_faild {fn : Nat} {e : Exc} {t0 : List Act} (P : Prog) (c : Cfg) (ev : Ev) (hC : Coh c)
    (h : FailD fn e t0 c) : FailD fn e t0 (step P c ev).1 := by
  by_cases hnt : ev = .tick
  · subst hnt; exact tickStepper_faild P c hC h
  · by_cases hna : ∃ g, ev = .tickCb (.adone g)
    · obtain ⟨g, rfl⟩ := hna
      simp only [step]
      unfold tickCb; split
      · exact awaitableDone_faild _ g (h.quiet (QuietU.of_eq rfl rfl rfl))
      · exact h
    · by_cases hnr : ∃ v, ev = .resume v
      · obtain ⟨v, rfl⟩ := hnr
        simp only [step]
        unfold resume; split
        · exact deliver_faild c _ h
        · exact h
      · rcases step_quietU P c ev hnt (fun g hg => hna ⟨g, hg⟩) (fun v hv => hnr ⟨v, hv⟩) with q | ⟨a, b⟩
        · exact h.quiet q
        · exact h.terminated a b

/-! ### `Bar` once a result is held -/

theorem holds_awOf_nil {c : Cfg} {fn wf : Nat} {wk : Option WF} {aw : List (Nat × Nat)} {v : Option Val} (hB : InvB c)
    (hst : c.st = .waiting fn wf wk aw) (hh : Holds c wf wk v) : aw = [] := by
  apply (hB fn wf wk aw hst).2
  rcases hh with g | ⟨_, g⟩
  · left; rw [g]; rfl
  · right; rw [g]; rfl

/-- a delivery that has not reached the continuation yet leaves no done-callback scheduled -/
theorem deliv_no_adone {fn : Nat} {v : Option Val} {t0 : List Act} {c : Cfg} (hR : Reach c) (hd : Deliv fn v t0 c)
    (ht : c.trace = t0) (hl : terminal c.st.label = false) (g : Nat) : Cb.adone g ∉ c.ready := by
  apply no_adone_ready hR.g hl
  cases hd with
  | held wf wk aw hst hh _ => rw [hst, holds_awOf_nil hR.invB hst hh]; rfl
  | ready hst _ _ => rw [hst]; rfl
  | over hterm _ => rw [hl] at hterm; cases hterm
  | done extra ht' =>
    rw [ht] at ht'
    have := congrArg List.length ht'
    simp at this; omega

theorem step_res {fn : Nat} {aw0 : List (Nat × Nat)} {t0 : List Act} (P : Prog) (hP : AwDistinct P) (c : Cfg) (ev : Ev)
    (hR : Reach c) (v : Option Val) (hd : Deliv fn v t0 c)
    (hall : c.trace = t0 → terminal c.st.label = false → AllRes aw0 c) :
    Deliv fn v t0 (step P c ev).1 ∧
    ((step P c ev).1.trace = t0 → terminal (step P c ev).1.st.label = false → AllRes aw0 (step P c ev).1) := by
  refine ⟨step_deliv P c ev hR.coh hd, ?_⟩
  intro ht' hl'
  -- nothing had been activated before, and the process was live
  have hl : terminal c.st.label = false := by
    cases h : terminal c.st.label with
    | false => rfl
    | true => rw [(step_terminal_fix P c ev h).1, h] at hl'; cases hl'
  have ht : c.trace = t0 := by
    obtain ⟨x, hx⟩ := (step_trext P c ev).ext
    cases hd with
    | held _ _ _ _ _ ht => exact ht
    | ready _ _ ht => exact ht
    | over _ ht => exact ht
    | done extra hte =>
      rw [ht', hte] at hx
      have := congrArg List.length hx
      simp at this; omega
  have hA := hall ht hl
  have hno := deliv_no_adone hR hd ht hl
  by_cases hna : ∃ g, ev = .tickCb (.adone g)
  · obtain ⟨g, rfl⟩ := hna
    simp only [step]
    rw [tickCb_noop c _ (hno g)]; exact hA
  · have hs := step_stable P hP c ev hR (fun g hg => hna ⟨g, hg⟩)
    intro f k hk
    exact (hA f k hk).mono hs.1 hs.2

/-! ### every event keeps `Bar` -/

theorem step_bar {fn : Nat} {aw0 : List (Nat × Nat)} {t0 : List Act} (P : Prog) (hP : AwDistinct P) (c : Cfg) (ev : Ev)
    (hR : Reach c) (hok : evOk c ev = true) (h : Bar fn aw0 t0 c) : Bar fn aw0 t0 (step P c ev).1 := by
  cases h with
  | pre wf aw hst he ht hf => exact (step_pre P hP c ev hR hok wf aw hst he ht hf).1
  | res v hd hall =>
    have := step_res P hP c ev hR v hd hall
    exact .res v this.1 this.2
  | failed e hf => exact .failed e (step_faild P c ev hR.coh hf)
  | over hterm ht =>
    exact .over (by rw [(step_terminal_fix P c ev hterm).1]; exact hterm) ((step_terminal_trace P c ev hterm).trans ht)

/-- an event that logs an activation while none had been logged since the wait began: the wait had been completed with a
result, and every awaitable of the wait is in the context -/
theorem bar_activation {fn : Nat} {aw0 : List (Nat × Nat)} {t0 : List Act} (P : Prog) (hP : AwDistinct P) (c : Cfg) (ev : Ev)
    (hR : Reach c) (hok : evOk c ev = true) (h : Bar fn aw0 t0 c) (ht : c.trace = t0)
    (hact : (step P c ev).1.trace ≠ c.trace) :
    ∃ v extra, (step P c ev).1.trace = extra ++ actOf fn v :: t0 ∧ AllRes aw0 c := by
  cases h with
  | pre wf aw hst he ht' hf =>
    exact absurd ((step_pre P hP c ev hR hok wf aw hst he ht' hf).2.trans ht.symm) hact
  | failed e hf => exact absurd ((step_faild P c ev hR.coh hf).trace.trans ht.symm) hact
  | over hterm _ => exact absurd (step_terminal_trace P c ev hterm) hact
  | res v hd hall =>
    have hl : terminal c.st.label = false := by
      cases h : terminal c.st.label with
      | false => rfl
      | true => exact absurd (step_terminal_trace P c ev h) hact
    have hd' := step_deliv P c ev hR.coh hd
    cases hd' with
    | held _ _ _ _ _ ht' => exact absurd (ht'.trans ht.symm) hact
    | ready _ _ ht' => exact absurd (ht'.trans ht.symm) hact
    | over _ ht' => exact absurd (ht'.trans ht.symm) hact
    | done extra ht' => exact ⟨v, extra, ht', hall ht hl⟩

theorem run_bar {fn : Nat} {aw0 : List (Nat × Nat)} {t0 : List Act} (P : Prog) (hP : AwDistinct P) (c0 : Cfg)
    (evs : List Ev) (hR : Reach c0) (hf : histFuelOk P c0 evs = true) (hok : histOk P c0 evs = true)
    (h : Bar fn aw0 t0 c0) : Bar fn aw0 t0 (run P c0 evs) := by
  induction evs generalizing c0 with
  | nil => exact h
  | cons e es ih =>
    unfold histFuelOk at hf
    unfold histOk at hok
    rw [Bool.and_eq_true] at hf hok
    exact ih _ (step_reach P hP c0 e hR (by intro he; subst he; exact hf.1) hok.1) hf.2 hok.2
      (step_bar P hP c0 e hR hok.1 h)

theorem run_faild {fn : Nat} {e : Exc} {t0 : List Act} (P : Prog) (c0 : Cfg) (evs : List Ev) (hC : Coh c0)
    (hf : histFuelOk P c0 evs = true) (h : FailD fn e t0 c0) : FailD fn e t0 (run P c0 evs) := by
  induction evs generalizing c0 with
  | nil => exact h
  | cons ev es ih =>
    unfold histFuelOk at hf
    rw [Bool.and_eq_true] at hf
    exact ih _ (step_coh P c0 ev hC (by intro he; subst he; exact hf.1)) hf.2 (step_faild P c0 ev hC h)

end PMF.B10
