import PlumpyModel.PM.LProof14
/-!
# `PMF.L` — with the empty plan the model with listeners is the model (conservativity, part 2: steps, events, histories)

* `PI` (defined in `LProof14.lean`) is an invariant of the ORIGINAL model `PM/Model.lean`: `run_pi`;
* `Ex` (`_stepping → _executing` between two events) is an invariant of the model with listeners: `tickStepperL_ex`, `stepLF_ex0`;
* under `Sim l c` (the `L` configuration carries `c`, an empty plan, no failing entry), `PI c`, `Ex l` and "no transition in
  progress", every event has the same effect and the same return value in both models: `stepL_sim`;
* hence `runL_conservative`: `(runL P (initL nf []) evs).c = run P (init nf) evs`, with equal return values all along.
-/
namespace PMF

/-! ### `PI` is an invariant of the original model -/

theorem endOfStep_interrupt (c : Cfg) (r : StepEnd) : (endOfStep c r).interrupt = none := finally_interrupt _

theorem finishUser_interrupt (c : Cfg) (o : Outcome) : (finishUser c o).interrupt = none := by
  unfold finishUser; split <;> exact endOfStep_interrupt _ _

theorem wake_pi (c : Cfg) (fn wf : Nat) (w : WF) (h : PI c) : PI (wake c fn wf w) := by
  unfold wake; split
  · exact PI.of_none (endOfStep_interrupt _ _)
  · exact PI.of_none (endOfStep_interrupt _ _)
  · exact PI.of_none (endOfStep_interrupt _ _)
  · exact h

theorem stepBodyK_pi (P : Prog) (k : Cfg → Cfg) (hk : ∀ d, PI d → PI (k d)) (c : Cfg) (h : PI c) : PI (stepBodyK P k c) := by
  have hs : PI { c with stepping := true } := h.of_eq rfl rfl rfl
  unfold stepBodyK
  dsimp only
  split
  · exact hk _ (PI.of_none (endOfStep_interrupt _ _))
  · split
    · exact hk _ (PI.of_none (finishUser_interrupt _ _))
    · exact h.of_eq rfl rfl rfl
  · split
    · exact h.of_eq rfl rfl rfl
    · exact hk _ (wake_pi _ _ _ _ hs)
    · exact hs
  · exact hk _ (PI.of_none (endOfStep_interrupt _ _))

theorem loopHead_pi (P : Prog) : ∀ (fuel : Nat) (c : Cfg), PI c → PI (loopHead P fuel c)
  | 0, _, h => h
  | n+1, c, h => by
    have hb := stepBodyK_pi P (loopHead P n) (loopHead_pi P n) c h
    unfold loopHead
    split
    · exact h
    · split
      · exact h.of_eq rfl rfl rfl
      · split
        · exact h.of_eq rfl rfl rfl
        · split
          · split
            · exact h.of_eq rfl rfl rfl
            · exact hb
          · exact hb

theorem tickStepper_pi (P : Prog) (c : Cfg) (h : PI c) : PI (tickStepper P c) := by
  have hb : PI (stepBody P fuel0 c) := stepBodyK_pi P _ (loopHead_pi P fuel0) c h
  unfold tickStepper
  split
  · exact loopHead_pi P _ _ h
  · split
    · split
      · split
        · exact h.of_eq rfl rfl rfl
        · exact hb
      · exact hb
    · exact h
  · split
    · exact loopHead_pi P _ _ (PI.of_none (finishUser_interrupt _ _))
    · exact h.of_eq rfl rfl rfl
  · split
    · exact h
    · exact loopHead_pi P _ _ (wake_pi _ _ _ _ h)
    · exact h
  · exact h

/-- a request made during a step installs a fresh action; for `pause()` it is recorded in `_pausing` at once -/
theorem requestInterrupt_pi (c : Cfg) (k : AKind) (p : Option Nat)
    (hp : k = .pause → p = (requestInterrupt c k).interrupt) :
    PI { requestInterrupt c k with pausing := p } := by
  obtain ⟨h1, h2, _⟩ := requestInterrupt_new c k
  intro i hi _ hk
  have hi' : (requestInterrupt c k).interrupt = some i := hi
  have hk' : actionKind (requestInterrupt c k) i = some .pause := hk
  rw [h1] at hi'; cases hi'
  rw [h2] at hk'
  show p = some c.actions.length
  rw [hp (Option.some.inj hk'), h1]

theorem pause_pi (c : Cfg) (h : PI c) : PI (pause c).1 := by
  unfold pause
  split
  · exact h
  · split
    · exact h
    · split
      · exact h.keep (hand_keep ..)
      · split
        · exact h
        · split
          · dsimp only
            have h1 := requestInterrupt_pi c .pause (requestInterrupt c .pause).interrupt (fun _ => rfl)
            split
            · exact h1.keep (hand_keep ..)
            · exact h1
          · rename_i hpn _ _
            -- `_pausing` was empty: no pending pause action sits in the slot
            intro i hi hp hk
            have := h i hi hp hk
            rw [hpn] at this; cases this

theorem cancelAction_self_status (c : Cfg) (i : Nat) : actionStatus (cancelAction c i) i ≠ .pending := by
  unfold cancelAction
  split
  · exact L.setActionStatus_status c i .cancelled (by simp)
  · rename_i h; exact h

theorem play_pi (c : Cfg) (h : PI c) : PI (play c).1 := by
  unfold play
  split
  · split
    · rename_i i hpi
      intro j hj hp hk
      have hj' : (cancelAction c i).interrupt = some j := hj
      have hp' : actionStatus (cancelAction c i) j = .pending := hp
      have hk' : actionKind (cancelAction c i) j = some .pause := hk
      rw [cancelAction_interrupt] at hj'
      by_cases hij : i = j
      · subst hij
        exact absurd hp' (cancelAction_self_status c i)
      · rw [cancelAction_other c i j hij] at hp'
        rw [cancelAction_kind] at hk'
        have := h j hj' hp' hk'
        rw [hpi] at this; cases this; exact absurd rfl hij
    · exact h
  · dsimp only
    split <;> exact h.of_eq rfl rfl rfl

theorem transitionTo_pi (c : Cfg) (s : SObj) (h : PI c) : PI (transitionTo c s) :=
  h.of_eq (transitionTo_pf c s).interrupt (transitionTo_pf c s).actions (transitionTo_pf c s).pausing

theorem kill_pi (c : Cfg) (h : PI c) : PI (kill c).1 := by
  unfold kill
  split
  · exact h
  · split
    · exact h
    · split
      · exact h.keep (hand_keep ..)
      · split
        · dsimp only
          have h1 : PI { requestInterrupt c .kill with killing := (requestInterrupt c .kill).interrupt } :=
            (requestInterrupt_pi c .kill (requestInterrupt c .kill).pausing (fun hk => by cases hk)).of_eq rfl rfl rfl
          split
          · exact h1.keep (hand_keep ..)
          · exact h1
        · exact transitionTo_pi c _ h

theorem fail_pi (c : Cfg) (e : Exc) (h : PI c) : PI (fail c e).1 := by
  unfold fail; split
  · exact h
  · exact transitionTo_pi c _ h

theorem tickCb_pi (c : Cfg) (cb : Cb) (h : PI c) : PI (tickCb c cb) := by
  unfold tickCb; split
  · have h1 : PI { c with ready := c.ready.erase cb } := h.of_eq rfl rfl rfl
    split
    · exact h1.keep (awaitableDone_keep ..)
    · exact (kill_pi _ h1).of_eq rfl rfl rfl
    · split
      · exact fail_pi _ _ h1
      · exact h1
  · exact h

/-- every event of the original model preserves `PI` -/
theorem step_pi (P : Prog) (c : Cfg) (ev : Ev) (h : PI c) : PI (step P c ev).1 := by
  cases ev <;> simp only [step]
  · exact tickStepper_pi P c h
  · exact tickCb_pi c _ h
  · exact pause_pi c h
  · exact play_pi c h
  · exact kill_pi c h
  · exact h.keep (L.resume_keep ..)
  · exact fail_pi c _ h
  · exact h.keep (L.cancelFut_keep ..)
  · exact h.keep (L.complete_keep ..)
  · exact h.of_eq rfl rfl rfl

theorem run_pi (P : Prog) (c0 : Cfg) (evs : List Ev) (h : PI c0) : PI (run P c0 evs) := by
  induction evs generalizing c0 with
  | nil => exact h
  | cons e es ih => exact ih _ (step_pi P c0 e h)

theorem pi_init (nf : Nat) : PI (init nf) := PI.of_none rfl

/-! ### the events other than a wake-up of the stepping task leave `_stepping` alone -/

theorem pause_stepping (c : Cfg) : (pause c).1.stepping = c.stepping := by
  unfold pause
  split
  · rfl
  · split
    · rfl
    · split
      · exact (hand_keep ..).2.2.2.2.1
      · split
        · rfl
        · split
          · dsimp only
            split
            · exact ((hand_keep ..).2.2.2.2.1).trans (L.requestInterrupt_hkc c .pause).stepping
            · exact (L.requestInterrupt_hkc c .pause).stepping
          · rfl

theorem kill_stepping (c : Cfg) : (kill c).1.stepping = c.stepping := by
  unfold kill
  split
  · rfl
  · split
    · rfl
    · split
      · exact (hand_keep ..).2.2.2.2.1
      · split
        · dsimp only
          split
          · exact ((hand_keep ..).2.2.2.2.1).trans (L.requestInterrupt_hkc c .kill).stepping
          · exact (L.requestInterrupt_hkc c .kill).stepping
        · exact (transitionTo_pf c _).stepping

theorem fail_stepping (c : Cfg) (e : Exc) : (fail c e).1.stepping = c.stepping := by
  unfold fail; split
  · rfl
  · exact (transitionTo_pf c _).stepping

theorem tickCb_stepping (c : Cfg) (cb : Cb) : (tickCb c cb).stepping = c.stepping := by
  unfold tickCb; split
  · split
    · exact (awaitableDone_keep ..).2.2.2.2.1
    · exact kill_stepping _
    · split
      · exact fail_stepping _ _
      · rfl
  · rfl

theorem step_stepping (P : Prog) (c : Cfg) (ev : Ev) (hne : ev ≠ .tick) : (step P c ev).1.stepping = c.stepping := by
  cases ev <;> simp only [step]
  · exact absurd rfl hne
  · exact tickCb_stepping c _
  · exact pause_stepping c
  · exact (L.play_hkc c).stepping
  · exact kill_stepping c
  · exact (L.resume_keep ..).2.2.2.2.1
  · exact fail_stepping c _
  · exact (L.cancelFut_keep ..).2.2.2.2.1
  · exact (L.complete_keep ..).2.2.2.2.1

namespace L

/-! ### `Ex`: a wake-up of the stepping task leaves `_stepping → _executing` (any notification function) -/
section
variable {F : Hook → LCfg → LCfg}

theorem ex_of_not_stepping {l : LCfg} (h : l.c.stepping = false) : Ex l := by
  intro hs; rw [h] at hs; cases hs

theorem finishUserL_ex (l : LCfg) (o : Outcome) : Ex (finishUserL F l o) := by
  unfold finishUserL; split <;> exact ex_of_not_stepping (endOfStepL_not_stepping F _ _)

theorem wakeL_ex (l : LCfg) (fn wf : Nat) (w : WF) (h : Ex l) : Ex (wakeL F l fn wf w) := by
  unfold wakeL; split
  · exact ex_of_not_stepping (endOfStepL_not_stepping F _ _)
  · exact ex_of_not_stepping (endOfStepL_not_stepping F _ _)
  · exact ex_of_not_stepping (endOfStepL_not_stepping F _ _)
  · exact h

theorem stepBodyKL_ex (P : Prog) (k : LCfg → LCfg) (hk : ∀ d, Ex d → Ex (k d)) (l : LCfg) : Ex (stepBodyKL F P k l) := by
  have hs : Ex ({ l with c := { l.c with stepping := true }, executing := true } : LCfg) := fun _ => rfl
  unfold stepBodyKL
  dsimp only
  split
  · exact hk _ (ex_of_not_stepping (endOfStepL_not_stepping F _ _))
  · split
    · exact hk _ (finishUserL_ex _ _)
    · exact fun _ => rfl
  · split
    · exact fun _ => rfl
    · exact hk _ (wakeL_ex _ _ _ _ hs)
    · exact hs
  · exact hk _ (ex_of_not_stepping (endOfStepL_not_stepping F _ _))

theorem loopHeadL_ex (P : Prog) : ∀ (fuel : Nat) (l : LCfg), Ex l → Ex (loopHeadL F P fuel l)
  | 0, _, h => h
  | n+1, l, h => by
    have hb := stepBodyKL_ex (F := F) P (loopHeadL F P n) (loopHeadL_ex P n) l
    unfold loopHeadL
    split
    · exact h
    · split
      · exact h
      · split
        · exact h
        · split
          · split
            · exact h
            · exact hb
          · exact hb

theorem tickStepperL_ex (P : Prog) (l : LCfg) (h : Ex l) : Ex (tickStepperL F P l) := by
  have hb : Ex (stepBodyL F P fuel0 l) := stepBodyKL_ex (F := F) P _ (loopHeadL_ex P fuel0) l
  unfold tickStepperL
  split
  · exact loopHeadL_ex P _ _ h
  · split
    · split
      · split
        · exact h
        · exact hb
      · exact hb
    · exact h
  · split
    · exact loopHeadL_ex P _ _ (finishUserL_ex _ _)
    · exact h
  · split
    · exact h
    · exact loopHeadL_ex P _ _ (wakeL_ex _ _ _ _ h)
    · exact h
  · exact h
end

/-! ### the step body, the loop, a wake-up of the stepping task -/

theorem sim_upd {l : LCfg} {c : Cfg} (h : Sim l c) (f : Cfg → Cfg) : Sim (l.upd f) (f c) :=
  ⟨by rw [upd_c, h.c], h.plan, h.ef⟩

theorem endOfStepL_sim' {l : LCfg} {c : Cfg} (r : StepEnd) (h : Sim l c) (hpi : PI c) :
    Sim (endOfStepL F0 l r) (endOfStep c r) := by
  obtain ⟨rfl, hp, he⟩ := h
  exact endOfStepL_sim l r ⟨rfl, hp, he⟩ hpi

theorem finishUserL_sim {l : LCfg} {c : Cfg} (o : Outcome) (h : Sim l c) (hpi : PI c) :
    Sim (finishUserL F0 l o) (finishUser c o) := by
  obtain ⟨rfl, hp, he⟩ := h
  unfold finishUserL finishUser
  cases o with
  | ret cmd =>
    exact endOfStepL_sim' (l := { l with c := (cmdToState l.c cmd).1 }) _ ⟨rfl, hp, he⟩ (hpi.keep (cmdToState_keep ..))
  | raise e => exact endOfStepL_sim' _ ⟨rfl, hp, he⟩ hpi

theorem wakeL_sim {l : LCfg} {c : Cfg} (fn wf : Nat) (w : WF) (h : Sim l c) (hpi : PI c) :
    Sim (wakeL F0 l fn wf w) (wake c fn wf w) := by
  unfold wakeL wake
  cases w with
  | result v => exact endOfStepL_sim' _ h hpi
  | interrupted cookie =>
    exact endOfStepL_sim' (c := rearm c wf) _ (sim_upd h (fun c => rearm c wf)) (hpi.keep (rearm_keep ..))
  | failed e => exact endOfStepL_sim' _ h hpi
  | pending => exact h

theorem stepBodyK_created (P : Prog) (k : Cfg → Cfg) (c : Cfg) (fn : Nat) (h : c.st = .created fn) :
    stepBodyK P k c = k (endOfStep { c with stepping := true } (.next (some (.running fn [] [])))) := by
  unfold stepBodyK; dsimp only; rw [h]

theorem stepBodyK_running (P : Prog) (k : Cfg → Cfg) (c : Cfg) (fn : Nat) (args : List Val) (kw : List (Nat × Val))
    (h : c.st = .running fn args kw) :
    stepBodyK P k c =
      if (P fn args kw c.ctx).awaits = 0 then
        k (finishUser { c with stepping := true,
                               trace := { fn := fn, args := args, kw := kw, paused := c.paused.isSome } :: c.trace }
            (P fn args kw c.ctx).out)
      else { c with stepping := true,
                    trace := { fn := fn, args := args, kw := kw, paused := c.paused.isSome } :: c.trace,
                    pc := .inUser { P fn args kw c.ctx with awaits := (P fn args kw c.ctx).awaits - 1 } } := by
  unfold stepBodyK; dsimp only; rw [h]

theorem stepBodyK_waiting (P : Prog) (k : Cfg → Cfg) (c : Cfg) (fn wf : Nat) (wk : Option WF) (aw : List (Nat × Nat))
    (h : c.st = .waiting fn wf wk aw) :
    stepBodyK P k c =
      match c.wfs[wf]? with
      | some .pending => { c with stepping := true, pc := .awaitWaiting wf }
      | some w => k (wake { c with stepping := true } fn wf w)
      | none => { c with stepping := true } := by
  unfold stepBodyK; dsimp only; rw [h]; dsimp only
  cases c.wfs[wf]? with
  | none => rfl
  | some w => cases w <;> rfl

theorem stepBodyK_other (P : Prog) (k : Cfg → Cfg) (c : Cfg) (h1 : ∀ fn, c.st = .created fn → False)
    (h2 : ∀ fn args kw, c.st = .running fn args kw → False) (h3 : ∀ fn wf wk aw, c.st = .waiting fn wf wk aw → False) :
    stepBodyK P k c = k (endOfStep { c with stepping := true } (.next none)) := by
  unfold stepBodyK; dsimp only
  split
  · rename_i h; exact (h1 _ h).elim
  · rename_i h; exact (h2 _ _ _ h).elim
  · rename_i h; exact (h3 _ _ _ _ h).elim
  · rfl

theorem stepBodyKL_sim (P : Prog) (k : Cfg → Cfg) (kL : LCfg → LCfg)
    (hk : ∀ d e, Sim d e → PI e → Sim (kL d) (k e)) {l : LCfg} {c : Cfg} (h : Sim l c) (hpi : PI c) :
    Sim (stepBodyKL F0 P kL l) (stepBodyK P k c) := by
  obtain ⟨rfl, hp, he⟩ := h
  have hs : Sim ({ l with c := { l.c with stepping := true }, executing := true } : LCfg) { l.c with stepping := true } :=
    ⟨rfl, hp, he⟩
  have hpis : PI { l.c with stepping := true } := hpi.of_eq rfl rfl rfl
  unfold stepBodyKL
  dsimp only
  split
  · rename_i fn h1
    rw [stepBodyK_created P k l.c fn h1]
    exact hk _ _ (endOfStepL_sim' _ hs hpis) (PI.of_none (endOfStep_interrupt _ _))
  · rename_i fn args kw h1
    rw [stepBodyK_running P k l.c fn args kw h1]
    by_cases hb : (P fn args kw l.c.ctx).awaits = 0
    · rw [if_pos hb, if_pos hb]
      exact hk _ _ (finishUserL_sim _ (sim_upd hs _) (hpis.of_eq rfl rfl rfl)) (PI.of_none (finishUser_interrupt _ _))
    · rw [if_neg hb, if_neg hb]
      exact ⟨rfl, hp, he⟩
  · rename_i fn wf wk aw h1
    rw [stepBodyK_waiting P k l.c fn wf wk aw h1]
    cases hw : l.c.wfs[wf]? with
    | none => exact hs
    | some w =>
      cases w with
      | pending => exact ⟨rfl, hp, he⟩
      | result v => exact hk _ _ (wakeL_sim _ _ _ hs hpis) (wake_pi _ _ _ _ hpis)
      | interrupted cookie => exact hk _ _ (wakeL_sim _ _ _ hs hpis) (wake_pi _ _ _ _ hpis)
      | failed e => exact hk _ _ (wakeL_sim _ _ _ hs hpis) (wake_pi _ _ _ _ hpis)
  · rename_i h1 h2 h3
    rw [stepBodyK_other P k l.c h1 h2 h3]
    exact hk _ _ (endOfStepL_sim' _ hs hpis) (PI.of_none (endOfStep_interrupt _ _))

/-! equations of the original loop, one per branch (so that the case analysis is made once, on the `L` side) -/

theorem loopHead_crashed (P : Prog) (n : Nat) (c : Cfg) (e : Exc) (h : c.pc = .crashed e) : loopHead P (n+1) c = c := by
  unfold loopHead; rw [h]

theorem loopHead_eq (P : Prog) (n : Nat) (c : Cfg) (h : ∀ e, c.pc = .crashed e → False) :
    loopHead P (n+1) c =
      if terminal c.st.label then { c with pc := .done } else
      if c.closed then { c with pc := .crashed .closedErr } else
      match c.paused with
      | some pf => if c.pfs[pf]? = some false then { c with pc := .awaitPaused pf } else stepBodyK P (loopHead P n) c
      | none => stepBodyK P (loopHead P n) c := by
  conv => lhs; unfold loopHead
  split
  · rename_i e he; exact (h e he).elim
  · rfl

theorem loopHeadL_sim (P : Prog) : ∀ (fuel : Nat) {l : LCfg} {c : Cfg}, Sim l c → PI c →
    Sim (loopHeadL F0 P fuel l) (loopHead P fuel c)
  | 0, _, _, h, _ => h
  | n+1, l, c, h, hpi => by
    have hb : Sim (stepBodyKL F0 P (loopHeadL F0 P n) l) (stepBodyK P (loopHead P n) c) :=
      stepBodyKL_sim P _ _ (fun d e hd he => loopHeadL_sim P n hd he) h hpi
    obtain ⟨rfl, hp, he⟩ := h
    unfold loopHeadL
    split
    · rename_i e hc
      rw [loopHead_crashed P n l.c e hc]; exact ⟨rfl, hp, he⟩
    · rename_i hnc
      rw [loopHead_eq P n l.c (fun e h => hnc e h)]
      by_cases ht : terminal l.c.st.label = true
      · rw [if_pos ht, if_pos ht]; exact ⟨rfl, hp, he⟩
      · rw [if_neg ht, if_neg ht]
        by_cases hcl : l.c.closed = true
        · rw [if_pos hcl, if_pos hcl]; exact ⟨rfl, hp, he⟩
        · rw [if_neg hcl, if_neg hcl]
          split
          · rename_i pf hpa
            by_cases hf : l.c.pfs[pf]? = some false
            · rw [if_pos hf]; simp only [hpa, hf, if_true]; exact ⟨by rw [upd_c, hpa], hp, he⟩
            · rw [if_neg hf]; simp only [hpa, hf, if_false]; exact hb
          · rename_i hpa
            simp only [hpa]; exact hb

theorem tickStepperL_sim (P : Prog) {l : LCfg} {c : Cfg} (h : Sim l c) (hpi : PI c) :
    Sim (tickStepperL F0 P l) (tickStepper P c) := by
  have hb : Sim (stepBodyL F0 P fuel0 l) (stepBody P fuel0 c) :=
    stepBodyKL_sim P _ _ (fun d e hd he => loopHeadL_sim P fuel0 hd he) h hpi
  have h' := h
  obtain ⟨rfl, hp, he⟩ := h
  unfold tickStepperL
  split
  · rename_i hpc
    unfold tickStepper; rw [hpc]; dsimp only
    exact loopHeadL_sim P fuel0 h' hpi
  · rename_i pf hpc
    unfold tickStepper; rw [hpc]; dsimp only
    by_cases hpf : l.c.pfs[pf]? = some true
    · rw [if_pos hpf, if_pos hpf]
      split
      · rename_i pf' hpa
        by_cases hf : l.c.pfs[pf']? = some false
        · rw [if_pos hf]; simp only [hpa, hf, if_true]; exact ⟨by rw [upd_c, hpa], hp, he⟩
        · rw [if_neg hf]; simp only [hpa, hf, if_false]; exact hb
      · rename_i hpa
        simp only [hpa]; exact hb
    · rw [if_neg hpf, if_neg hpf]; exact h'
  · rename_i b hpc
    unfold tickStepper; rw [hpc]; dsimp only
    by_cases hb0 : b.awaits = 0
    · rw [if_pos hb0, if_pos hb0]
      exact loopHeadL_sim P fuel0 (finishUserL_sim _ h' hpi) (PI.of_none (finishUser_interrupt _ _))
    · rw [if_neg hb0, if_neg hb0]; exact ⟨rfl, hp, he⟩
  · rename_i wf hpc
    unfold tickStepper; rw [hpc]; dsimp only
    cases hw : l.c.wfs[wf]? with
    | none => exact h'
    | some w =>
      cases w with
      | pending => exact h'
      | result v => exact loopHeadL_sim P fuel0 (wakeL_sim _ _ _ h' hpi) (wake_pi _ _ _ _ hpi)
      | interrupted k => exact loopHeadL_sim P fuel0 (wakeL_sim _ _ _ h' hpi) (wake_pi _ _ _ _ hpi)
      | failed e => exact loopHeadL_sim P fuel0 (wakeL_sim _ _ _ h' hpi) (wake_pi _ _ _ _ hpi)
  · rename_i h1 h2 h3 h4
    have : tickStepper P l.c = l.c := by
      unfold tickStepper
      split
      · rename_i hh; exact (h1 hh).elim
      · rename_i pf hh; exact (h2 pf hh).elim
      · rename_i b hh; exact (h3 b hh).elim
      · rename_i wf hh; exact (h4 wf hh).elim
      · rfl
    rw [this]; exact h'

/-! ### events and histories -/

/-- what holds between two events of a run with the empty plan: the `L` configuration carries the configuration of the original
model (`sim`), which satisfies `PI`; a step in progress is executing (`ex`); no transition is in progress (`tr`; `kj` is the
invariant of `LProof7/8` that carries it) -/
structure Twin (l : LCfg) (c : Cfg) : Prop where
  sim : Sim l c
  pi : PI c
  ex : Ex l
  kj : KJ l
  tr : l.trans = none

theorem twin_init (nf : Nat) : Twin (initL nf []) (init nf) :=
  ⟨⟨rfl, rfl, rfl⟩, pi_init nf, (fun h => by cases h), kj_init nf [], rfl⟩

theorem stepL_eq_F0 (P : Prog) (l : LCfg) (ev : Ev) (hp : l.plan = []) : stepL P l ev = stepLF F0 P l ev := by
  unfold stepL; rw [hp]; rfl

/-- the events other than a wake-up of the stepping task -/
theorem stepLF_cons (P : Prog) (l : LCfg) (ev : Ev) (hne : ev ≠ .tick) (hex : Ex l) (htr : l.trans = none)
    (hef : l.entryFails = false) :
    Cons l (step P l.c ev).1 (stepLF F0 P l ev).1 ∧ (stepLF F0 P l ev).2 = (step P l.c ev).2 := by
  cases ev <;> simp only [stepLF, step]
  · exact absurd rfl hne
  · exact ⟨tickCbL_cons l _ hex htr hef, trivial⟩
  · exact pauseL_cons l hex htr
  · exact playL_cons l
  · exact killL_cons l hex htr hef
  · exact ⟨⟨rfl, rfl, rfl, rfl⟩, trivial⟩
  · exact failL_cons l _ hef
  · exact ⟨⟨rfl, rfl, rfl, rfl⟩, trivial⟩
  · exact ⟨⟨rfl, rfl, rfl, rfl⟩, trivial⟩
  · exact ⟨⟨rfl, rfl, rfl, rfl⟩, trivial⟩

/-- **one event**: with the empty plan every event has, in the model with listeners, exactly the effect and the return value it
has in the original model, and what holds between two events is kept -/
theorem stepL_twin (P : Prog) {l : LCfg} {c : Cfg} (t : Twin l c) (ev : Ev) :
    Twin (stepL P l ev).1 (step P c ev).1 ∧ (stepL P l ev).2 = (step P c ev).2 := by
  rw [stepL_eq_F0 P l ev t.sim.plan]
  obtain ⟨k1, t1⟩ := stepLF_kj (fireN_good 0) P l ev t.kj t.tr
  have hpi := step_pi P c ev t.pi
  by_cases hev : ev = .tick
  · subst hev
    exact ⟨⟨tickStepperL_sim P t.sim t.pi, hpi, tickStepperL_ex P l t.ex, k1, t1⟩, rfl⟩
  · obtain ⟨hs, hp, he⟩ := t.sim
    subst hs
    obtain ⟨hc, hr⟩ := stepLF_cons P l ev hev t.ex t.tr he
    refine ⟨⟨Sim.cons ⟨rfl, hp, he⟩ hc, hpi, ?_, k1, t1⟩, hr⟩
    intro hst
    rw [hc.exe]
    apply t.ex
    rw [hc.c, step_stepping P l.c ev hev] at hst
    exact hst

theorem runL_twin (P : Prog) (evs : List Ev) : ∀ {l : LCfg} {c : Cfg}, Twin l c → Twin (runL P l evs) (run P c evs) := by
  induction evs with
  | nil => intro l c t; exact t
  | cons e es ih => intro l c t; exact ih (stepL_twin P t e).1

/-- **conservativity**: with the empty plan, the run of the model with listeners carries, after every history, exactly the
configuration of the original model -/
theorem runL_conservative (P : Prog) (nf : Nat) (evs : List Ev) : (runL P (initL nf []) evs).c = run P (init nf) evs :=
  (runL_twin P evs (twin_init nf)).sim.c

/-- … and every event returns the same value to its caller -/
theorem runL_conservative_ret (P : Prog) (nf : Nat) (evs : List Ev) (ev : Ev) :
    (stepL P (runL P (initL nf []) evs) ev).2 = (step P (run P (init nf) evs) ev).2 :=
  (stepL_twin P (runL_twin P evs (twin_init nf)) ev).2

end L
end PMF
