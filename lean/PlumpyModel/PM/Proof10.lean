import PlumpyModel.PM.Proof9
import PlumpyModel.PM.Proof8
/-!
# The invariant linking the stepping coroutine to the state object (C02: step_until_terminated() returns)

`Inv10` holds in every reachable configuration (`run_inv10`):

* the stepping task never crashes (`pc ≠ crashed _`);
* `pc = awaitWaiting wf` ⇒ `wf` is a valid index and either the current state is the WAITING state owning `wf`
  or `wfs[wf]` is no longer pending;
* `pc = awaitPaused pf` ⇒ `pf` is valid and it is the current pause future or it is released; if moreover the process
  has terminated, the current pause future is released;
* indices are valid (`paused`, the future of a WAITING state), the futures lists only grow and only get completed
  (`MonoW`, `MonoP`);
* the interrupt action is never one that already ran (`IA`), and no interrupt action is installed and no step is in
  flight while the coroutine sits at the loop head or on the pause future (`qi`, `qs`).

Style as in `Proof1`…`Proof9`: frame relations (`TR` for everything that leaves the coroutine and the action table
alone, `AR` for the action-table functions), one lemma per model function, then `step`, then `run`.
-/
namespace PMF

/-! ### the future heaps only grow and only get completed -/

def MonoW (l l' : List WF) : Prop :=
  l.length ≤ l'.length ∧ ∀ (j : Nat) (w : WF), l[j]? = some w → w ≠ WF.pending → l'[j]? = some w
def MonoP (l l' : List Bool) : Prop :=
  l.length ≤ l'.length ∧ ∀ (j : Nat), l[j]? = some true → l'[j]? = some true

theorem MonoW.rfl' (l : List WF) : MonoW l l := ⟨Nat.le_refl _, fun _ _ h _ => h⟩
theorem MonoW.trans {a b c : List WF} (h1 : MonoW a b) (h2 : MonoW b c) : MonoW a c :=
  ⟨Nat.le_trans h1.1 h2.1, fun j w h hn => h2.2 j w (h1.2 j w h hn) hn⟩
theorem MonoW.of_eq {a b : List WF} (h : b = a) : MonoW a b := by subst h; exact MonoW.rfl' _
theorem MonoP.rfl' (l : List Bool) : MonoP l l := ⟨Nat.le_refl _, fun _ h => h⟩
theorem MonoP.trans {a b c : List Bool} (h1 : MonoP a b) (h2 : MonoP b c) : MonoP a c :=
  ⟨Nat.le_trans h1.1 h2.1, fun j h => h2.2 j (h1.2 j h)⟩
theorem MonoP.of_eq {a b : List Bool} (h : b = a) : MonoP a b := by subst h; exact MonoP.rfl' _

theorem MonoW.set_pending {l : List WF} {i : Nat} (h : l[i]? = some .pending) (o : WF) : MonoW l (setAt l i o) := by
  refine ⟨by simp [setAt], ?_⟩
  intro j w hj hn
  by_cases hij : i = j
  · subst hij; rw [h] at hj; cases hj; exact absurd rfl hn
  · simpa [setAt, List.getElem?_set, hij] using hj

theorem MonoW.append (l : List WF) (x : WF) : MonoW l (l ++ [x]) := by
  refine ⟨by simp, ?_⟩
  intro j w hj _
  have hlt : j < l.length := (List.getElem?_eq_some_iff.mp hj).1
  rw [List.getElem?_append_left hlt]; exact hj

theorem MonoP.set_true (l : List Bool) (i : Nat) : MonoP l (setAt l i true) := by
  refine ⟨by simp [setAt], ?_⟩
  intro j hj
  have hlt : j < l.length := (List.getElem?_eq_some_iff.mp hj).1
  by_cases hij : i = j
  · subst hij; simp [setAt, hlt]
  · simpa [setAt, List.getElem?_set, hij] using hj

theorem MonoP.append (l : List Bool) (x : Bool) : MonoP l (l ++ [x]) := by
  refine ⟨by simp, ?_⟩
  intro j hj
  have hlt : j < l.length := (List.getElem?_eq_some_iff.mp hj).1
  rw [List.getElem?_append_left hlt]; exact hj

/-- a completed entry stays completed -/
theorem MonoW.nonpending {l l' : List WF} (h : MonoW l l') {j : Nat} (hlt : j < l.length) (hn : l[j]? ≠ some .pending) :
    l'[j]? ≠ some .pending := by
  have hj : l[j]? = some l[j] := List.getElem?_eq_getElem hlt
  have hne : l[j] ≠ .pending := by intro h; rw [h] at hj; exact hn hj
  rw [h.2 j _ hj hne]; intro h'; exact hne (Option.some.inj h')

/-! ### frame relations -/

/-- `c'` differs from `c` at most in the state object, the (monotone) future heaps and fields the invariant ignores:
the coroutine, the action table, the interrupt action, the stepping flag and `paused` are the same -/
structure TR (c c' : Cfg) : Prop where
  pc : c'.pc = c.pc
  interrupt : c'.interrupt = c.interrupt
  actions : c'.actions = c.actions
  stepping : c'.stepping = c.stepping
  paused : c'.paused = c.paused
  wfs : MonoW c.wfs c'.wfs
  pfs : MonoP c.pfs c'.pfs

theorem TR.rfl' (c : Cfg) : TR c c := ⟨rfl, rfl, rfl, rfl, rfl, MonoW.rfl' _, MonoP.rfl' _⟩
theorem TR.trans {a b c : Cfg} (h1 : TR a b) (h2 : TR b c) : TR a c :=
  ⟨h2.pc.trans h1.pc, h2.interrupt.trans h1.interrupt, h2.actions.trans h1.actions, h2.stepping.trans h1.stepping,
   h2.paused.trans h1.paused, h1.wfs.trans h2.wfs, h1.pfs.trans h2.pfs⟩
theorem TR.of_eq {c c' : Cfg} (h1 : c'.pc = c.pc) (h2 : c'.interrupt = c.interrupt) (h3 : c'.actions = c.actions)
    (h4 : c'.stepping = c.stepping) (h5 : c'.paused = c.paused) (h6 : c'.wfs = c.wfs) (h7 : c'.pfs = c.pfs) : TR c c' :=
  ⟨h1, h2, h3, h4, h5, MonoW.of_eq h6, MonoP.of_eq h7⟩

/-- the state object is the same, or the same WAITING state (same function, same future) with its parked wake-up or
its awaitables updated -/
def StW (c c' : Cfg) : Prop :=
  c'.st = c.st ∨ ∃ fn wf wk aw wk' aw', c.st = .waiting fn wf wk aw ∧ c'.st = .waiting fn wf wk' aw'

theorem StW.rfl' (c : Cfg) : StW c c := Or.inl rfl
theorem StW.trans {a b c : Cfg} (h1 : StW a b) (h2 : StW b c) : StW a c := by
  rcases h1 with h1 | ⟨fn, wf, wk, aw, wk', aw', ha, hb⟩
  · rcases h2 with h2 | ⟨fn, wf, wk, aw, wk', aw', hb, hc⟩
    · exact Or.inl (h2.trans h1)
    · exact Or.inr ⟨fn, wf, wk, aw, wk', aw', by rw [← h1]; exact hb, hc⟩
  · rcases h2 with h2 | ⟨fn2, wf2, wk2, aw2, wk2', aw2', hb2, hc⟩
    · exact Or.inr ⟨fn, wf, wk, aw, wk', aw', ha, by rw [h2]; exact hb⟩
    · rw [hb] at hb2; cases hb2
      exact Or.inr ⟨fn, wf, wk, aw, wk2', aw2', ha, hc⟩
theorem StW.label {c c' : Cfg} (h : StW c c') : c'.st.label = c.st.label := by
  rcases h with h | ⟨fn, wf, wk, aw, wk', aw', ha, hb⟩
  · rw [h]
  · rw [ha, hb]; rfl

/-- `c'` differs from `c` at most in the action table, the interrupt action and fields the invariant ignores -/
structure AR (c c' : Cfg) : Prop where
  pc : c'.pc = c.pc
  st : c'.st = c.st
  wfs : c'.wfs = c.wfs
  pfs : c'.pfs = c.pfs
  paused : c'.paused = c.paused
  stepping : c'.stepping = c.stepping
  closed : c'.closed = c.closed

theorem AR.rfl' (c : Cfg) : AR c c := ⟨rfl, rfl, rfl, rfl, rfl, rfl, rfl⟩
theorem AR.trans {a b c : Cfg} (h1 : AR a b) (h2 : AR b c) : AR a c :=
  ⟨h2.pc.trans h1.pc, h2.st.trans h1.st, h2.wfs.trans h1.wfs, h2.pfs.trans h1.pfs, h2.paused.trans h1.paused,
   h2.stepping.trans h1.stepping, h2.closed.trans h1.closed⟩

/-! ### the invariant -/

/-- the stepper awaiting waiting-future `wf` will be woken: the current state still owns `wf`, or `wf` is completed -/
def WOk (c : Cfg) (wf : Nat) : Prop :=
  wf < c.wfs.length ∧ ((∃ fn wk aw, c.st = .waiting fn wf wk aw) ∨ c.wfs[wf]? ≠ some .pending)
/-- the pause future is a valid index -/
def PV (c : Cfg) : Prop := ∀ pf, c.paused = some pf → pf < c.pfs.length
/-- the future of a WAITING state is a valid index -/
def WV (c : Cfg) : Prop := ∀ fn wf wk aw, c.st = .waiting fn wf wk aw → wf < c.wfs.length
/-- in a terminated configuration the current pause future is released -/
def RelT (c : Cfg) : Prop := terminal c.st.label = true → ∀ pf, c.paused = some pf → c.pfs[pf]? = some true
/-- (during a wake-up of the stepper) the pause future it was awaiting has been released -/
def Hq (c : Cfg) : Prop := ∀ pf, c.pc = .awaitPaused pf → c.pfs[pf]? = some true

/-- the part of the invariant about the coroutine, the state object and the future heaps -/
structure InvS (c : Cfg) : Prop where
  nocrash : ∀ e, c.pc ≠ .crashed e
  aw : ∀ wf, c.pc = .awaitWaiting wf → WOk c wf
  ap : ∀ pf, c.pc = .awaitPaused pf → pf < c.pfs.length ∧ (c.paused = some pf ∨ c.pfs[pf]? = some true)
  pv : PV c
  wv : WV c
  tp : ∀ pf, c.pc = .awaitPaused pf → RelT c

/-- the interrupt action, if any, has not run yet (it is pending, or was cancelled) -/
def IA (c : Cfg) : Prop :=
  ∀ i a, c.interrupt = some i → c.actions[i]? = some a → a.status = .pending ∨ a.status = .cancelled

/-- the coroutine is at the head of the loop or blocked on the pause future -/
def Quiet (c : Cfg) : Prop := c.pc = .notStarted ∨ ∃ pf, c.pc = .awaitPaused pf

structure Inv10 (c : Cfg) : Prop where
  s : InvS c
  ia : IA c
  qi : Quiet c → c.interrupt = none
  qs : Quiet c → c.stepping = false

theorem PV.tr {c c' : Cfg} (h : PV c) (r : TR c c') : PV c' := by
  intro pf hp; rw [r.paused] at hp; exact Nat.lt_of_lt_of_le (h pf hp) r.pfs.1

theorem Hq.tr {c c' : Cfg} (h : Hq c) (r : TR c c') : Hq c' := by
  intro pf hp; rw [r.pc] at hp; exact r.pfs.2 pf (h pf hp)

theorem WOk.tr {c c' : Cfg} {wf : Nat} (h : WOk c wf) (r : TR c c') (hs : StW c c') : WOk c' wf := by
  refine ⟨Nat.lt_of_lt_of_le h.1 r.wfs.1, ?_⟩
  rcases h.2 with ⟨fn, wk, aw, hst⟩ | hn
  · rcases hs with hs | ⟨fn2, wf2, wk2, aw2, wk', aw', ha, hb⟩
    · exact Or.inl ⟨fn, wk, aw, by rw [hs]; exact hst⟩
    · rw [hst] at ha; cases ha
      exact Or.inl ⟨fn, wk', aw', hb⟩
  · exact Or.inr (r.wfs.nonpending h.1 hn)

theorem WV.tr {c c' : Cfg} (h : WV c) (r : TR c c') (hs : StW c c') : WV c' := by
  intro fn wf wk aw hst
  rcases hs with hs | ⟨fn2, wf2, wk2, aw2, wk', aw', ha, hb⟩
  · rw [hs] at hst; exact Nat.lt_of_lt_of_le (h fn wf wk aw hst) r.wfs.1
  · rw [hb] at hst; cases hst
    exact Nat.lt_of_lt_of_le (h _ _ _ _ ha) r.wfs.1

theorem RelT.tr {c c' : Cfg} (h : RelT c) (r : TR c c') (hs : StW c c') : RelT c' := by
  intro ht pf hp
  rw [hs.label] at ht; rw [r.paused] at hp
  exact r.pfs.2 pf (h ht pf hp)

/-- the coroutine part of the invariant survives everything that leaves the coroutine, `paused` and the identity of
the state object alone -/
theorem InvS.tr {c c' : Cfg} (h : InvS c) (r : TR c c') (hs : StW c c') : InvS c' := by
  refine ⟨?_, ?_, ?_, h.pv.tr r, h.wv.tr r hs, ?_⟩
  · intro e; rw [r.pc]; exact h.nocrash e
  · intro wf hp; rw [r.pc] at hp; exact (h.aw wf hp).tr r hs
  · intro pf hp; rw [r.pc] at hp
    obtain ⟨h1, h2⟩ := h.ap pf hp
    refine ⟨Nat.lt_of_lt_of_le h1 r.pfs.1, ?_⟩
    rcases h2 with h2 | h2
    · exact Or.inl (by rw [r.paused]; exact h2)
    · exact Or.inr (r.pfs.2 pf h2)
  · intro pf hp; rw [r.pc] at hp; exact (h.tp pf hp).tr r hs

theorem InvS.ar {c c' : Cfg} (h : InvS c) (r : AR c c') : InvS c' := by
  obtain ⟨r1, r2, r3, r4, r5, _, _⟩ := r
  refine ⟨?_, ?_, ?_, ?_, ?_, ?_⟩
  · intro e; rw [r1]; exact h.nocrash e
  · intro wf hp; rw [r1] at hp; unfold WOk; rw [r2, r3]; exact h.aw wf hp
  · intro pf hp; rw [r1] at hp; rw [r4, r5]; exact h.ap pf hp
  · unfold PV; rw [r4, r5]; exact h.pv
  · unfold WV; rw [r2, r3]; exact h.wv
  · intro pf hp; rw [r1] at hp; unfold RelT; rw [r2, r4, r5]; exact h.tp pf hp

theorem Hq.ar {c c' : Cfg} (h : Hq c) (r : AR c c') : Hq c' := by
  intro pf hp; rw [r.pc] at hp; rw [r.pfs]; exact h pf hp

theorem IA.of_eq {c c' : Cfg} (h : IA c) (h1 : c'.interrupt = c.interrupt) (h2 : c'.actions = c.actions) : IA c' := by
  unfold IA; rw [h1, h2]; exact h

theorem IA.of_none {c : Cfg} (h : c.interrupt = none) : IA c := by
  intro i a hi; rw [h] at hi; cases hi

theorem Inv10.tr {c c' : Cfg} (h : Inv10 c) (r : TR c c') (hs : StW c c') : Inv10 c' := by
  refine ⟨h.s.tr r hs, h.ia.of_eq r.interrupt r.actions, ?_, ?_⟩
  · intro hq; rw [r.interrupt]; apply h.qi; unfold Quiet at *; rw [r.pc] at hq; exact hq
  · intro hq; rw [r.stepping]; apply h.qs; unfold Quiet at *; rw [r.pc] at hq; exact hq

theorem inv10_init (nf : Nat) : Inv10 (init nf) := by
  refine ⟨⟨?_, ?_, ?_, ?_, ?_, ?_⟩, ?_, ?_, ?_⟩
  · intro e h; simp [init] at h
  · intro wf h; simp [init] at h
  · intro pf h; simp [init] at h
  · intro pf h; simp [init] at h
  · intro fn wf wk aw h; simp [init] at h
  · intro pf h; simp [init] at h
  · exact IA.of_none rfl
  · intro _; rfl
  · intro _; rfl

/-! ### frame lemmas: the action table functions -/

theorem setActionStatus_ar (c : Cfg) (i s) : AR c (setActionStatus c i s) := by
  unfold setActionStatus; split <;> exact ⟨rfl, rfl, rfl, rfl, rfl, rfl, rfl⟩
theorem cancelAction_ar (c : Cfg) (i) : AR c (cancelAction c i) := by
  unfold cancelAction; split
  · exact setActionStatus_ar ..
  · exact AR.rfl' c
theorem setInterrupt_ar (c : Cfg) (n) : AR c (setInterrupt c n) := by
  unfold setInterrupt
  split
  · exact AR.trans (cancelAction_ar c _) ⟨rfl, rfl, rfl, rfl, rfl, rfl, rfl⟩
  · exact ⟨rfl, rfl, rfl, rfl, rfl, rfl, rfl⟩
theorem setInterruptFromExc_ar (c : Cfg) (k n) : AR c (setInterruptFromExc c k n) := by
  unfold setInterruptFromExc cancelInterrupt
  split
  · exact AR.trans (cancelAction_ar c _) ⟨rfl, rfl, rfl, rfl, rfl, rfl, rfl⟩
  · exact ⟨rfl, rfl, rfl, rfl, rfl, rfl, rfl⟩

theorem setInterrupt_interrupt (c : Cfg) (n) : (setInterrupt c n).interrupt = n := by
  unfold setInterrupt; split <;> rfl

/-- cancelling an action leaves every entry as it was or cancelled -/
theorem setActionStatus_get (c : Cfg) (j : Nat) (s : AStatus) (i : Nat) (a' : Action)
    (h : (setActionStatus c j s).actions[i]? = some a') :
    ∃ a, c.actions[i]? = some a ∧ (a'.status = a.status ∨ a'.status = s) := by
  unfold setActionStatus at h
  split at h
  · rename_i a ha
    by_cases hji : j = i
    · subst hji
      have hlt : j < c.actions.length := (List.getElem?_eq_some_iff.mp ha).1
      simp [setAt, hlt] at h
      exact ⟨a, ha, Or.inr (by rw [← h])⟩
    · simp [setAt, List.getElem?_set, hji] at h
      exact ⟨a', h, Or.inl rfl⟩
  · exact ⟨a', h, Or.inl rfl⟩

theorem cancelAction_get (c : Cfg) (j : Nat) (i : Nat) (a' : Action) (h : (cancelAction c j).actions[i]? = some a') :
    ∃ a, c.actions[i]? = some a ∧ (a'.status = a.status ∨ a'.status = .cancelled) := by
  unfold cancelAction at h
  split at h
  · exact setActionStatus_get c j .cancelled i a' h
  · exact ⟨a', h, Or.inl rfl⟩

theorem cancelAction_interrupt (c : Cfg) (j : Nat) : (cancelAction c j).interrupt = c.interrupt := by
  unfold cancelAction setActionStatus
  split
  · split <;> rfl
  · rfl

theorem cancelAction_ia (c : Cfg) (j : Nat) (h : IA c) : IA (cancelAction c j) := by
  intro i a' hi ha'
  rw [cancelAction_interrupt] at hi
  obtain ⟨a, ha, hs⟩ := cancelAction_get c j i a' ha'
  rcases hs with hs | hs
  · rw [hs]; exact h i a hi ha
  · exact Or.inr hs

/-- a freshly installed interrupt action is pending -/
theorem setInterruptFromExc_ia (c : Cfg) (k n) : IA (setInterruptFromExc c k n) := by
  intro i a hi ha
  unfold setInterruptFromExc at hi ha
  simp only at hi ha
  cases hi
  simp at ha
  left; rw [← ha]

/-! ### frame lemmas: transitions -/

theorem exitState_tr (c : Cfg) : TR c (exitState c) := by
  unfold exitState; split
  · dsimp only
    split
    · rename_i hp
      exact ⟨rfl, rfl, rfl, rfl, rfl, MonoW.set_pending hp _, MonoP.rfl' _⟩
    · exact TR.of_eq rfl rfl rfl rfl rfl rfl rfl
  · exact TR.rfl' c

theorem freshFut_tr (c : Cfg) : TR c (freshFutIfCancelled c) := by
  unfold freshFutIfCancelled; split
  · exact TR.of_eq rfl rfl rfl rfl rfl rfl rfl
  · exact TR.rfl' c
theorem setFutExc_tr (c : Cfg) (e) : TR c (setFutExc c e) := by
  unfold setFutExc; split <;> exact TR.of_eq rfl rfl rfl rfl rfl rfl rfl
theorem enteringHooks_tr (c c2 : Cfg) (s : SObj) (h : enteringHooks c s = .ok c2) : TR c c2 := by
  unfold enteringHooks at h
  split at h
  · dsimp only at h
    split at h
    · cases h; exact TR.trans (freshFut_tr c) (TR.of_eq rfl rfl rfl rfl rfl rfl rfl)
    · cases h
  · dsimp only at h
    split at h
    · cases h; exact TR.trans (freshFut_tr c) (TR.of_eq rfl rfl rfl rfl rfl rfl rfl)
    · cases h
  · cases h; exact setFutExc_tr c _
  · cases h; exact TR.rfl' c

theorem enterState_tr (c : Cfg) (s : SObj) : TR c (enterState c s) := by
  unfold enterState; split
  · rename_i aw
    generalize hc : c = c0
    have : ∀ (l : List (Nat × Nat)) (d : Cfg), TR c0 d →
        TR c0 (l.foldl (fun c (p : Nat × Nat) =>
          let c := { c with efKeys := p :: c.efKeys }
          match c.efs[p.1]? with
          | some EFut.pending => { c with efCb := c.efCb ++ [p.1] }
          | some _ => { c with ready := c.ready ++ [.adone p.1] }
          | none => c) d) := by
      intro l; induction l with
      | nil => intro d hd; exact hd
      | cons a l ih =>
        intro d hd; simp only [List.foldl]
        apply ih
        split <;> exact TR.trans hd (TR.of_eq rfl rfl rfl rfl rfl rfl rfl)
    exact this aw c0 (TR.rfl' c0)
  · exact TR.rfl' c

theorem enteredHooks_tr (c : Cfg) (s : SObj) : TR c (enteredHooks c s) := by
  unfold enteredHooks
  split <;> split <;> exact TR.of_eq rfl rfl rfl rfl rfl rfl rfl
theorem setState_tr (c : Cfg) (s : SObj) : TR c (setState c s) := TR.of_eq rfl rfl rfl rfl rfl rfl rfl
theorem onClose_tr (c : Cfg) : TR c (onClose c) := by
  unfold onClose; split
  · exact TR.rfl' c
  · exact TR.of_eq rfl rfl rfl rfl rfl rfl rfl
theorem releasePause_tr (c : Cfg) : TR c (releasePause c) := by
  unfold releasePause; split
  · split
    · exact ⟨rfl, rfl, rfl, rfl, rfl, MonoW.rfl' _, MonoP.set_true _ _⟩
    · exact TR.rfl' c
  · exact TR.rfl' c
theorem onTerminated_tr (c : Cfg) : TR c (onTerminated c) := by
  unfold onTerminated; exact TR.trans (releasePause_tr c) (onClose_tr _)

theorem forceExcepted_tr (c : Cfg) (e : Exc) : TR c (forceExcepted c e) := by
  unfold forceExcepted; split
  · exact TR.of_eq rfl rfl rfl rfl rfl rfl rfl
  · exact TR.trans (TR.trans (TR.trans (setFutExc_tr c e) (setState_tr _ _)) (enteredHooks_tr _ _)) (onTerminated_tr _)

theorem enterNext_tr (c : Cfg) (s : SObj) : TR c (enterNext c s) := by
  unfold enterNext
  have h := TR.trans (TR.trans (enterState_tr c s) (setState_tr _ s)) (enteredHooks_tr _ s)
  dsimp only
  split
  · exact TR.trans h (onTerminated_tr _)
  · exact h

/-- after a permitted exit, the rest of the transition -/
theorem transitionTo_tr_exit (c : Cfg) (s : SObj) (hin : s.label ∈ allowed c.st.label) :
    TR (exitState c) (transitionTo c s) := by
  unfold transitionTo
  rw [if_pos hin]
  dsimp only
  split
  · exact TR.of_eq rfl rfl rfl rfl rfl rfl rfl
  · split
    · exact forceExcepted_tr _ _
    · rename_i c2 hok
      exact TR.trans (enteringHooks_tr _ c2 s hok) (enterNext_tr c2 s)

theorem transitionTo_tr (c : Cfg) (s : SObj) : TR c (transitionTo c s) := by
  by_cases hin : s.label ∈ allowed c.st.label
  · exact TR.trans (exitState_tr c) (transitionTo_tr_exit c s hin)
  · unfold transitionTo; rw [if_neg hin]; exact forceExcepted_tr _ _

theorem forceExcepted_st (c : Cfg) (e : Exc) : (forceExcepted c e).st = .excepted e := by
  unfold forceExcepted; split
  · rfl
  · rw [(onTerminated_sameW _).1, (enteredHooks_sameW _ _).1]; rfl

theorem enterNext_st (c : Cfg) (s : SObj) : (enterNext c s).st = s := by
  unfold enterNext; dsimp only; split
  · rw [(onTerminated_sameW _).1, (enteredHooks_sameW _ _).1]; rfl
  · rw [(enteredHooks_sameW _ _).1]; rfl

/-- a transition installs its target, or an EXCEPTED state -/
theorem transitionTo_st (c : Cfg) (s : SObj) : (transitionTo c s).st = s ∨ ∃ e, (transitionTo c s).st = .excepted e := by
  unfold transitionTo
  split
  · dsimp only
    split
    · exact Or.inl rfl
    · split
      · exact Or.inr ⟨_, forceExcepted_st _ _⟩
      · exact Or.inl (enterNext_st _ _)
  · exact Or.inr ⟨_, forceExcepted_st _ _⟩

end PMF
