import PlumpyModel.PM.Proof9
import PlumpyModel.PM.Proof8
/-!
# The invariant linking the stepping coroutine to the state object (C02: step_until_terminated() returns)

`Inv10` holds in every reachable configuration (`run_inv10`):

* the stepping task never crashes (`pc ≠ crashed _`);
* `pc = awaitWaiting wf` ⇒ `wf` is a valid index and either the current state is the WAITING state owning `wf`
  or `wfs[wf]` is no longer pending;
* `pc = awaitPaused pf` ⇒ `pf` is valid and it is the current pause future or it is released; if moreover the process
  has terminated, the current pause future is released;
* indices are valid (`paused`, the future of a WAITING state), the futures lists only grow and only get completed
  (`MonoW`, `MonoP`);
* the interrupt action is never one that already ran (`IA`), and no interrupt action is installed and no step is in
  flight while the coroutine sits at the loop head or on the pause future (`qi`, `qs`).

Style as in `Proof1`…`Proof9`: frame relations (`TR` for everything that leaves the coroutine and the action table
alone, `AR` for the action-table functions), one lemma per model function, then `step`, then `run`.
-/
namespace PMF

/-! ### the future heaps only grow and only get completed -/

def MonoW (l l' : List WF) : Prop :=
  l.length ≤ l'.length ∧ ∀ (j : Nat) (w : WF), l[j]? = some w → w ≠ WF.pending → l'[j]? = some w
def MonoP (l l' : List Bool) : Prop :=
  l.length ≤ l'.length ∧ ∀ (j : Nat), l[j]? = some true → l'[j]? = some true

theorem MonoW.rfl' (l : List WF) : MonoW l l := ⟨Nat.le_refl _, fun _ _ h _ => h⟩
theorem MonoW.trans {a b c : List WF} (h1 : MonoW a b) (h2 : MonoW b c) : MonoW a c :=
  ⟨Nat.le_trans h1.1 h2.1, fun j w h hn => h2.2 j w (h1.2 j w h hn) hn⟩
theorem MonoW.of_eq {a b : List WF} (h : b = a) : MonoW a b := by subst h; exact MonoW.rfl' _
theorem MonoP.rfl' (l : List Bool) : MonoP l l := ⟨Nat.le_refl _, fun _ h => h⟩
theorem MonoP.trans {a b c : List Bool} (h1 : MonoP a b) (h2 : MonoP b c) : MonoP a c :=
  ⟨Nat.le_trans h1.1 h2.1, fun j h => h2.2 j (h1.2 j h)⟩
theorem MonoP.of_eq {a b : List Bool} (h : b = a) : MonoP a b := by subst h; exact MonoP.rfl' _

theorem MonoW.set_pending {l : List WF} {i : Nat} (h : l[i]? = some .pending) (o : WF) : MonoW l (setAt l i o) := by
  refine ⟨by simp [setAt], ?_⟩
  intro j w hj hn
  by_cases hij : i = j
  · subst hij; rw [h] at hj; cases hj; exact absurd rfl hn
  · simpa [setAt, List.getElem?_set, hij] using hj

theorem MonoW.append (l : List WF) (x : WF) : MonoW l (l ++ [x]) := by
  refine ⟨by simp, ?_⟩
  intro j w hj _
  have hlt : j < l.length := (List.getElem?_eq_some_iff.mp hj).1
  rw [List.getElem?_append_left hlt]; exact hj

theorem MonoP.set_true (l : List Bool) (i : Nat) : MonoP l (setAt l i true) := by
  refine ⟨by simp [setAt], ?_⟩
  intro j hj
  have hlt : j < l.length := (List.getElem?_eq_some_iff.mp hj).1
  by_cases hij : i = j
  · subst hij; simp [setAt, hlt]
  · simpa [setAt, List.getElem?_set, hij] using hj

theorem MonoP.append (l : List Bool) (x : Bool) : MonoP l (l ++ [x]) := by
  refine ⟨by simp, ?_⟩
  intro j hj
  have hlt : j < l.length := (List.getElem?_eq_some_iff.mp hj).1
  rw [List.getElem?_append_left hlt]; exact hj

/-- a completed entry stays completed -/
theorem MonoW.nonpending {l l' : List WF} (h : MonoW l l') {j : Nat} (hlt : j < l.length) (hn : l[j]? ≠ some .pending) :
    l'[j]? ≠ some .pending := by
  have hj : l[j]? = some l[j] := List.getElem?_eq_getElem hlt
  have hne : l[j] ≠ .pending := by intro h; rw [h] at hj; exact hn hj
  rw [h.2 j _ hj hne]; intro h'; exact hne (Option.some.inj h')

/-! ### frame relations -/

/-- `c'` differs from `c` at most in the state object, the (monotone) future heaps and fields the invariant ignores:
the coroutine, the action table, the interrupt action, the stepping flag and `paused` are the same -/
structure TR (c c' : Cfg) : Prop where
  pc : c'.pc = c.pc
  interrupt : c'.interrupt = c.interrupt
  actions : c'.actions = c.actions
  stepping : c'.stepping = c.stepping
  paused : c'.paused = c.paused
  wfs : MonoW c.wfs c'.wfs
  pfs : MonoP c.pfs c'.pfs

theorem TR.rfl' (c : Cfg) : TR c c := ⟨rfl, rfl, rfl, rfl, rfl, MonoW.rfl' _, MonoP.rfl' _⟩
theorem TR.trans {a b c : Cfg} (h1 : TR a b) (h2 : TR b c) : TR a c :=
  ⟨h2.pc.trans h1.pc, h2.interrupt.trans h1.interrupt, h2.actions.trans h1.actions, h2.stepping.trans h1.stepping,
   h2.paused.trans h1.paused, h1.wfs.trans h2.wfs, h1.pfs.trans h2.pfs⟩
theorem TR.of_eq {c c' : Cfg} (h1 : c'.pc = c.pc) (h2 : c'.interrupt = c.interrupt) (h3 : c'.actions = c.actions)
    (h4 : c'.stepping = c.stepping) (h5 : c'.paused = c.paused) (h6 : c'.wfs = c.wfs) (h7 : c'.pfs = c.pfs) : TR c c' :=
  ⟨h1, h2, h3, h4, h5, MonoW.of_eq h6, MonoP.of_eq h7⟩

/-- the state object is the same, or the same WAITING state (same function, same future) with its parked wake-up or
its awaitables updated -/
def StW (c c' : Cfg) : Prop :=
  c'.st = c.st ∨ ∃ fn wf wk aw wk' aw', c.st = .waiting fn wf wk aw ∧ c'.st = .waiting fn wf wk' aw'

theorem StW.rfl' (c : Cfg) : StW c c := Or.inl rfl
theorem StW.trans {a b c : Cfg} (h1 : StW a b) (h2 : StW b c) : StW a c := by
  rcases h1 with h1 | ⟨fn, wf, wk, aw, wk', aw', ha, hb⟩
  · rcases h2 with h2 | ⟨fn, wf, wk, aw, wk', aw', hb, hc⟩
    · exact Or.inl (h2.trans h1)
    · exact Or.inr ⟨fn, wf, wk, aw, wk', aw', by rw [← h1]; exact hb, hc⟩
  · rcases h2 with h2 | ⟨fn2, wf2, wk2, aw2, wk2', aw2', hb2, hc⟩
    · exact Or.inr ⟨fn, wf, wk, aw, wk', aw', ha, by rw [h2]; exact hb⟩
    · rw [hb] at hb2; cases hb2
      exact Or.inr ⟨fn, wf, wk, aw, wk2', aw2', ha, hc⟩
theorem StW.label {c c' : Cfg} (h : StW c c') : c'.st.label = c.st.label := by
  rcases h with h | ⟨fn, wf, wk, aw, wk', aw', ha, hb⟩
  · rw [h]
  · rw [ha, hb]; rfl

/-- `c'` differs from `c` at most in the action table, the interrupt action and fields the invariant ignores -/
structure AR (c c' : Cfg) : Prop where
  pc : c'.pc = c.pc
  st : c'.st = c.st
  wfs : c'.wfs = c.wfs
  pfs : c'.pfs = c.pfs
  paused : c'.paused = c.paused
  stepping : c'.stepping = c.stepping
  closed : c'.closed = c.closed

theorem AR.rfl' (c : Cfg) : AR c c := ⟨rfl, rfl, rfl, rfl, rfl, rfl, rfl⟩
theorem AR.trans {a b c : Cfg} (h1 : AR a b) (h2 : AR b c) : AR a c :=
  ⟨h2.pc.trans h1.pc, h2.st.trans h1.st, h2.wfs.trans h1.wfs, h2.pfs.trans h1.pfs, h2.paused.trans h1.paused,
   h2.stepping.trans h1.stepping, h2.closed.trans h1.closed⟩

/-! ### the invariant -/

/-- the stepper awaiting waiting-future `wf` will be woken: the current state still owns `wf`, or `wf` is completed -/
def WOk (c : Cfg) (wf : Nat) : Prop :=
  wf < c.wfs.length ∧ ((∃ fn wk aw, c.st = .waiting fn wf wk aw) ∨ c.wfs[wf]? ≠ some .pending)
/-- the pause future is a valid index -/
def PV (c : Cfg) : Prop := ∀ pf, c.paused = some pf → pf < c.pfs.length
/-- the future of a WAITING state is a valid index -/
def WV (c : Cfg) : Prop := ∀ fn wf wk aw, c.st = .waiting fn wf wk aw → wf < c.wfs.length
/-- in a terminated configuration the current pause future is released -/
def RelT (c : Cfg) : Prop := terminal c.st.label = true → ∀ pf, c.paused = some pf → c.pfs[pf]? = some true
/-- (during a wake-up of the stepper) the pause future it was awaiting has been released -/
def Hq (c : Cfg) : Prop := ∀ pf, c.pc = .awaitPaused pf → c.pfs[pf]? = some true

/-- the part of the invariant about the coroutine, the state object and the future heaps -/
structure InvS (c : Cfg) : Prop where
  nocrash : ∀ e, c.pc ≠ .crashed e
  aw : ∀ wf, c.pc = .awaitWaiting wf → WOk c wf
  ap : ∀ pf, c.pc = .awaitPaused pf → pf < c.pfs.length ∧ (c.paused = some pf ∨ c.pfs[pf]? = some true)
  pv : PV c
  wv : WV c
  tp : ∀ pf, c.pc = .awaitPaused pf → RelT c

/-- the interrupt action, if any, has not run yet (it is pending, or was cancelled) -/
def IA (c : Cfg) : Prop :=
  ∀ i a, c.interrupt = some i → c.actions[i]? = some a → a.status = .pending ∨ a.status = .cancelled

/-- the coroutine is at the head of the loop or blocked on the pause future -/
def Quiet (c : Cfg) : Prop := c.pc = .notStarted ∨ ∃ pf, c.pc = .awaitPaused pf

structure Inv10 (c : Cfg) : Prop where
  s : InvS c
  ia : IA c
  qi : Quiet c → c.interrupt = none
  qs : Quiet c → c.stepping = false

theorem PV.tr {c c' : Cfg} (h : PV c) (r : TR c c') : PV c' := by
  intro pf hp; rw [r.paused] at hp; exact Nat.lt_of_lt_of_le (h pf hp) r.pfs.1

theorem Hq.tr {c c' : Cfg} (h : Hq c) (r : TR c c') : Hq c' := by
  intro pf hp; rw [r.pc] at hp; exact r.pfs.2 pf (h pf hp)

theorem WOk.tr {c c' : Cfg} {wf : Nat} (h : WOk c wf) (r : TR c c') (hs : StW c c') : WOk c' wf := by
  refine ⟨Nat.lt_of_lt_of_le h.1 r.wfs.1, ?_⟩
  rcases h.2 with ⟨fn, wk, aw, hst⟩ | hn
  · rcases hs with hs | ⟨fn2, wf2, wk2, aw2, wk', aw', ha, hb⟩
    · exact Or.inl ⟨fn, wk, aw, by rw [hs]; exact hst⟩
    · rw [hst] at ha; cases ha
      exact Or.inl ⟨fn, wk', aw', hb⟩
  · exact Or.inr (r.wfs.nonpending h.1 hn)

theorem WV.tr {c c' : Cfg} (h : WV c) (r : TR c c') (hs : StW c c') : WV c' := by
  intro fn wf wk aw hst
  rcases hs with hs | ⟨fn2, wf2, wk2, aw2, wk', aw', ha, hb⟩
  · rw [hs] at hst; exact Nat.lt_of_lt_of_le (h fn wf wk aw hst) r.wfs.1
  · rw [hb] at hst; cases hst
    exact Nat.lt_of_lt_of_le (h _ _ _ _ ha) r.wfs.1

theorem RelT.tr {c c' : Cfg} (h : RelT c) (r : TR c c') (hs : StW c c') : RelT c' := by
  intro ht pf hp
  rw [hs.label] at ht; rw [r.paused] at hp
  exact r.pfs.2 pf (h ht pf hp)

/-- the coroutine part of the invariant survives everything that leaves the coroutine, `paused` and the identity of
the state object alone -/
theorem InvS.tr {c c' : Cfg} (h : InvS c) (r : TR c c') (hs : StW c c') : InvS c' := by
  refine ⟨?_, ?_, ?_, h.pv.tr r, h.wv.tr r hs, ?_⟩
  · intro e; rw [r.pc]; exact h.nocrash e
  · intro wf hp; rw [r.pc] at hp; exact (h.aw wf hp).tr r hs
  · intro pf hp; rw [r.pc] at hp
    obtain ⟨h1, h2⟩ := h.ap pf hp
    refine ⟨Nat.lt_of_lt_of_le h1 r.pfs.1, ?_⟩
    rcases h2 with h2 | h2
    · exact Or.inl (by rw [r.paused]; exact h2)
    · exact Or.inr (r.pfs.2 pf h2)
  · intro pf hp; rw [r.pc] at hp; exact (h.tp pf hp).tr r hs

theorem InvS.ar {c c' : Cfg} (h : InvS c) (r : AR c c') : InvS c' := by
  obtain ⟨r1, r2, r3, r4, r5, _, _⟩ := r
  refine ⟨?_, ?_, ?_, ?_, ?_, ?_⟩
  · intro e; rw [r1]; exact h.nocrash e
  · intro wf hp; rw [r1] at hp; unfold WOk; rw [r2, r3]; exact h.aw wf hp
  · intro pf hp; rw [r1] at hp; rw [r4, r5]; exact h.ap pf hp
  · unfold PV; rw [r4, r5]; exact h.pv
  · unfold WV; rw [r2, r3]; exact h.wv
  · intro pf hp; rw [r1] at hp; unfold RelT; rw [r2, r4, r5]; exact h.tp pf hp

theorem Hq.ar {c c' : Cfg} (h : Hq c) (r : AR c c') : Hq c' := by
  intro pf hp; rw [r.pc] at hp; rw [r.pfs]; exact h pf hp

theorem IA.of_eq {c c' : Cfg} (h : IA c) (h1 : c'.interrupt = c.interrupt) (h2 : c'.actions = c.actions) : IA c' := by
  unfold IA; rw [h1, h2]; exact h

theorem IA.of_none {c : Cfg} (h : c.interrupt = none) : IA c := by
  intro i a hi; rw [h] at hi; cases hi

theorem Inv10.tr {c c' : Cfg} (h : Inv10 c) (r : TR c c') (hs : StW c c') : Inv10 c' := by
  refine ⟨h.s.tr r hs, h.ia.of_eq r.interrupt r.actions, ?_, ?_⟩
  · intro hq; rw [r.interrupt]; apply h.qi; unfold Quiet at *; rw [r.pc] at hq; exact hq
  · intro hq; rw [r.stepping]; apply h.qs; unfold Quiet at *; rw [r.pc] at hq; exact hq

theorem inv10_init (nf : Nat) : Inv10 (init nf) := by
  refine ⟨⟨?_, ?_, ?_, ?_, ?_, ?_⟩, ?_, ?_, ?_⟩
  · intro e h; simp [init] at h
  · intro wf h; simp [init] at h
  · intro pf h; simp [init] at h
  · intro pf h; simp [init] at h
  · intro fn wf wk aw h; simp [init] at h
  · intro pf h; simp [init] at h
  · exact IA.of_none rfl
  · intro _; rfl
  · intro _; rfl

/-! ### frame lemmas: the action table functions -/

theorem setActionStatus_ar (c : Cfg) (i s) : AR c (setActionStatus c i s) := by
  unfold setActionStatus; split <;> exact ⟨rfl, rfl, rfl, rfl, rfl, rfl, rfl⟩
theorem cancelAction_ar (c : Cfg) (i) : AR c (cancelAction c i) := by
  unfold cancelAction; split
  · exact setActionStatus_ar ..
  · exact AR.rfl' c
theorem setInterrupt_ar (c : Cfg) (n) : AR c (setInterrupt c n) := by
  unfold setInterrupt
  split
  · exact AR.trans (cancelAction_ar c _) ⟨rfl, rfl, rfl, rfl, rfl, rfl, rfl⟩
  · exact ⟨rfl, rfl, rfl, rfl, rfl, rfl, rfl⟩
theorem setInterruptFromExc_ar (c : Cfg) (k n) : AR c (setInterruptFromExc c k n) := by
  unfold setInterruptFromExc cancelInterrupt
  split
  · exact AR.trans (cancelAction_ar c _) ⟨rfl, rfl, rfl, rfl, rfl, rfl, rfl⟩
  · exact ⟨rfl, rfl, rfl, rfl, rfl, rfl, rfl⟩

theorem setInterrupt_interrupt (c : Cfg) (n) : (setInterrupt c n).interrupt = n := by
  unfold setInterrupt; split <;> rfl

/-- cancelling an action leaves every entry as it was or cancelled -/
theorem setActionStatus_get (c : Cfg) (j : Nat) (s : AStatus) (i : Nat) (a' : Action)
    (h : (setActionStatus c j s).actions[i]? = some a') :
    ∃ a, c.actions[i]? = some a ∧ (a'.status = a.status ∨ a'.status = s) := by
  unfold setActionStatus at h
  split at h
  · rename_i a ha
    by_cases hji : j = i
    · subst hji
      have hlt : j < c.actions.length := (List.getElem?_eq_some_iff.mp ha).1
      simp [setAt, hlt] at h
      exact ⟨a, ha, Or.inr (by rw [← h])⟩
    · simp [setAt, List.getElem?_set, hji] at h
      exact ⟨a', h, Or.inl rfl⟩
  · exact ⟨a', h, Or.inl rfl⟩

theorem cancelAction_get (c : Cfg) (j : Nat) (i : Nat) (a' : Action) (h : (cancelAction c j).actions[i]? = some a') :
    ∃ a, c.actions[i]? = some a ∧ (a'.status = a.status ∨ a'.status = .cancelled) := by
  unfold cancelAction at h
  split at h
  · exact setActionStatus_get c j .cancelled i a' h
  · exact ⟨a', h, Or.inl rfl⟩

theorem cancelAction_interrupt (c : Cfg) (j : Nat) : (cancelAction c j).interrupt = c.interrupt := by
  unfold cancelAction setActionStatus
  split
  · split <;> rfl
  · rfl

theorem cancelAction_ia (c : Cfg) (j : Nat) (h : IA c) : IA (cancelAction c j) := by
  intro i a' hi ha'
  rw [cancelAction_interrupt] at hi
  obtain ⟨a, ha, hs⟩ := cancelAction_get c j i a' ha'
  rcases hs with hs | hs
  · rw [hs]; exact h i a hi ha
  · exact Or.inr hs

/-- a freshly installed interrupt action is pending -/
theorem setInterruptFromExc_ia (c : Cfg) (k n) : IA (setInterruptFromExc c k n) := by
  intro i a hi ha
  unfold setInterruptFromExc at hi ha
  simp only at hi ha
  cases hi
  simp at ha
  left; rw [← ha]

/-! ### frame lemmas: transitions -/

theorem exitState_tr (c : Cfg) : TR c (exitState c) := by
  unfold exitState; split
  · dsimp only
    split
    · rename_i hp
      exact ⟨rfl, rfl, rfl, rfl, rfl, MonoW.set_pending hp _, MonoP.rfl' _⟩
    · exact TR.of_eq rfl rfl rfl rfl rfl rfl rfl
  · exact TR.rfl' c

theorem freshFut_tr (c : Cfg) : TR c (freshFutIfCancelled c) := by
  unfold freshFutIfCancelled; split
  · exact TR.of_eq rfl rfl rfl rfl rfl rfl rfl
  · exact TR.rfl' c
theorem setFutExc_tr (c : Cfg) (e) : TR c (setFutExc c e) := by
  unfold setFutExc; split <;> exact TR.of_eq rfl rfl rfl rfl rfl rfl rfl
theorem enteringHooks_tr (c c2 : Cfg) (s : SObj) (h : enteringHooks c s = .ok c2) : TR c c2 := by
  unfold enteringHooks at h
  split at h
  · dsimp only at h
    split at h
    · cases h; exact TR.trans (freshFut_tr c) (TR.of_eq rfl rfl rfl rfl rfl rfl rfl)
    · cases h
  · dsimp only at h
    split at h
    · cases h; exact TR.trans (freshFut_tr c) (TR.of_eq rfl rfl rfl rfl rfl rfl rfl)
    · cases h
  · cases h; exact setFutExc_tr c _
  · cases h; exact TR.rfl' c

theorem enterState_tr (c : Cfg) (s : SObj) : TR c (enterState c s) := by
  unfold enterState; split
  · rename_i aw
    generalize hc : c = c0
    have : ∀ (l : List (Nat × Nat)) (d : Cfg), TR c0 d →
        TR c0 (l.foldl (fun c (p : Nat × Nat) =>
          let c := { c with efKeys := p :: c.efKeys }
          match c.efs[p.1]? with
          | some EFut.pending => { c with efCb := c.efCb ++ [p.1] }
          | some _ => { c with ready := c.ready ++ [.adone p.1] }
          | none => c) d) := by
      intro l; induction l with
      | nil => intro d hd; exact hd
      | cons a l ih =>
        intro d hd; simp only [List.foldl]
        apply ih
        split <;> exact TR.trans hd (TR.of_eq rfl rfl rfl rfl rfl rfl rfl)
    exact this aw c0 (TR.rfl' c0)
  · exact TR.rfl' c

theorem enteredHooks_tr (c : Cfg) (s : SObj) : TR c (enteredHooks c s) := by
  unfold enteredHooks
  split <;> split <;> exact TR.of_eq rfl rfl rfl rfl rfl rfl rfl
theorem setState_tr (c : Cfg) (s : SObj) : TR c (setState c s) := TR.of_eq rfl rfl rfl rfl rfl rfl rfl
theorem onClose_tr (c : Cfg) : TR c (onClose c) := by
  unfold onClose; split
  · exact TR.rfl' c
  · exact TR.of_eq rfl rfl rfl rfl rfl rfl rfl
theorem releasePause_tr (c : Cfg) : TR c (releasePause c) := by
  unfold releasePause; split
  · split
    · exact ⟨rfl, rfl, rfl, rfl, rfl, MonoW.rfl' _, MonoP.set_true _ _⟩
    · exact TR.rfl' c
  · exact TR.rfl' c
theorem onTerminated_tr (c : Cfg) : TR c (onTerminated c) := by
  unfold onTerminated; exact TR.trans (releasePause_tr c) (onClose_tr _)

theorem forceExcepted_tr (c : Cfg) (e : Exc) : TR c (forceExcepted c e) := by
  unfold forceExcepted; split
  · exact TR.of_eq rfl rfl rfl rfl rfl rfl rfl
  · exact TR.trans (TR.trans (TR.trans (setFutExc_tr c e) (setState_tr _ _)) (enteredHooks_tr _ _)) (onTerminated_tr _)

theorem enterNext_tr (c : Cfg) (s : SObj) : TR c (enterNext c s) := by
  unfold enterNext
  have h := TR.trans (TR.trans (enterState_tr c s) (setState_tr _ s)) (enteredHooks_tr _ s)
  dsimp only
  split
  · exact TR.trans h (onTerminated_tr _)
  · exact h

/-- after a permitted exit, the rest of the transition -/
theorem transitionTo_tr_exit (c : Cfg) (s : SObj) (hin : s.label ∈ allowed c.st.label) :
    TR (exitState c) (transitionTo c s) := by
  unfold transitionTo
  rw [if_pos hin]
  dsimp only
  split
  · exact TR.of_eq rfl rfl rfl rfl rfl rfl rfl
  · split
    · exact forceExcepted_tr _ _
    · rename_i c2 hok
      exact TR.trans (enteringHooks_tr _ c2 s hok) (enterNext_tr c2 s)

theorem transitionTo_tr (c : Cfg) (s : SObj) : TR c (transitionTo c s) := by
  by_cases hin : s.label ∈ allowed c.st.label
  · exact TR.trans (exitState_tr c) (transitionTo_tr_exit c s hin)
  · unfold transitionTo; rw [if_neg hin]; exact forceExcepted_tr _ _

theorem forceExcepted_st (c : Cfg) (e : Exc) : (forceExcepted c e).st = .excepted e := by
  unfold forceExcepted; split
  · rfl
  · rw [(onTerminated_sameW _).1, (enteredHooks_sameW _ _).1]; rfl

theorem enterNext_st (c : Cfg) (s : SObj) : (enterNext c s).st = s := by
  unfold enterNext; dsimp only; split
  · rw [(onTerminated_sameW _).1, (enteredHooks_sameW _ _).1]; rfl
  · rw [(enteredHooks_sameW _ _).1]; rfl

/-- a transition installs its target, or an EXCEPTED state -/
theorem transitionTo_st (c : Cfg) (s : SObj) : (transitionTo c s).st = s ∨ ∃ e, (transitionTo c s).st = .excepted e := by
  unfold transitionTo
  split
  · dsimp only
    split
    · exact Or.inl rfl
    · split
      · exact Or.inr ⟨_, forceExcepted_st _ _⟩
      · exact Or.inl (enterNext_st _ _)
  · exact Or.inr ⟨_, forceExcepted_st _ _⟩

/-! ### transitions preserve the coroutine invariant -/

/-- the target of a transition is well-formed: not CREATED, and the future of a WAITING target exists -/
def TargetOk (c : Cfg) (s : SObj) : Prop :=
  s.label ≠ .created ∧ ∀ fn wf wk aw, s = .waiting fn wf wk aw → wf < c.wfs.length

theorem TargetOk.ar {c c' : Cfg} {s : SObj} (h : TargetOk c s) (r : AR c c') : TargetOk c' s := by
  unfold TargetOk; rw [r.wfs]; exact h
theorem targetOk_excepted (c : Cfg) (e : Exc) : TargetOk c (.excepted e) :=
  ⟨by simp [SObj.label], by intro _ _ _ _ h; cases h⟩
theorem targetOk_killed (c : Cfg) : TargetOk c .killed :=
  ⟨by simp [SObj.label], by intro _ _ _ _ h; cases h⟩
theorem targetOk_running (c : Cfg) (fn a k) : TargetOk c (.running fn a k) :=
  ⟨by simp [SObj.label], by intro _ _ _ _ h; cases h⟩

theorem allowed_of_waiting {s : SObj} (hs : s.label ≠ .created) : s.label ∈ allowed .waiting := by
  cases s <;> simp_all [SObj.label, allowed]

/-- repair J as an invariant step: a stepper awaiting `wf` stays wake-able across any transition -/
theorem transitionTo_wok (c : Cfg) (s : SObj) (wf : Nat) (hs : s.label ≠ .created) (h : WOk c wf) :
    WOk (transitionTo c s) wf := by
  have r := transitionTo_tr c s
  refine ⟨Nat.lt_of_lt_of_le h.1 r.wfs.1, Or.inr ?_⟩
  rcases h.2 with ⟨fn, wk, aw, hst⟩ | hn
  · have hin : s.label ∈ allowed c.st.label := by rw [hst]; exact allowed_of_waiting hs
    have r2 := transitionTo_tr_exit c s hin
    obtain ⟨w, hw, hne⟩ := exitState_completes_wait c fn wf wk aw hst (by rw [List.getElem?_eq_getElem h.1]; rfl)
    rw [r2.wfs.2 wf w hw hne]; intro h'; exact hne (Option.some.inj h')
  · exact r.wfs.nonpending h.1 hn

/-- repair G as an invariant step: after `on_terminated` the current pause future is released -/
theorem onTerminated_rel (d : Cfg) (hpv : PV d) :
    ∀ pf, (onTerminated d).paused = some pf → (onTerminated d).pfs[pf]? = some true := by
  intro pf hp
  have hp' : d.paused = some pf := by rw [← (onTerminated_tr d).paused]; exact hp
  exact onTerminated_releases_pause d pf hp (by rw [List.getElem?_eq_getElem (hpv pf hp')]; rfl)

theorem forceExcepted_relT (d : Cfg) (e : Exc) (hc : d.closed = false) (hpv : PV d) : RelT (forceExcepted d e) := by
  intro _
  unfold forceExcepted
  simp only [hc, Bool.false_eq_true, if_false]
  apply onTerminated_rel
  exact hpv.tr (TR.trans (TR.trans (setFutExc_tr d e) (setState_tr _ _)) (enteredHooks_tr _ _))

theorem enterNext_relT (d : Cfg) (s : SObj) (hpv : PV d) : RelT (enterNext d s) := by
  intro ht
  rw [enterNext_st] at ht
  unfold enterNext
  dsimp only
  rw [if_pos ht]
  apply onTerminated_rel
  exact hpv.tr (TR.trans (TR.trans (enterState_tr d s) (setState_tr _ s)) (enteredHooks_tr _ s))

theorem transitionTo_relT (c : Cfg) (s : SObj) (hc : c.closed = false) (hpv : PV c) : RelT (transitionTo c s) := by
  unfold transitionTo
  split
  · simp only [hc, Bool.false_eq_true, if_false]
    have hc1 : (exitState c).closed = false := by rw [(exitState_same c).2.2]; exact hc
    have hp1 : PV (exitState c) := hpv.tr (exitState_tr c)
    split
    · exact forceExcepted_relT _ _ hc1 hp1
    · rename_i c2 hok
      exact enterNext_relT c2 s (hp1.tr (enteringHooks_tr _ c2 s hok))
  · exact forceExcepted_relT _ _ hc hpv

theorem transitionTo_wv (c : Cfg) (s : SObj) (hs : TargetOk c s) : WV (transitionTo c s) := by
  intro fn wf wk aw hst
  have r := transitionTo_tr c s
  rcases transitionTo_st c s with h | ⟨e, h⟩
  · rw [h] at hst; exact Nat.lt_of_lt_of_le (hs.2 fn wf wk aw hst) r.wfs.1
  · rw [h] at hst; cases hst

theorem transitionTo_invS (c : Cfg) (s : SObj) (h : InvS c) (hc : c.closed = false) (hs : TargetOk c s) :
    InvS (transitionTo c s) := by
  have r := transitionTo_tr c s
  refine ⟨?_, ?_, ?_, h.pv.tr r, transitionTo_wv c s hs, fun _ _ => transitionTo_relT c s hc h.pv⟩
  · intro e; rw [r.pc]; exact h.nocrash e
  · intro wf hp; rw [r.pc] at hp; exact transitionTo_wok c s wf hs.1 (h.aw wf hp)
  · intro pf hp; rw [r.pc] at hp
    obtain ⟨h1, h2⟩ := h.ap pf hp
    refine ⟨Nat.lt_of_lt_of_le h1 r.pfs.1, ?_⟩
    rcases h2 with h2 | h2
    · exact Or.inl (by rw [r.paused]; exact h2)
    · exact Or.inr (r.pfs.2 pf h2)

/-- the rest of `Inv10` only looks at fields a `TR`-step leaves alone -/
theorem Inv10.of_tr {c c' : Cfg} (h : Inv10 c) (r : TR c c') (hs : InvS c') : Inv10 c' := by
  refine ⟨hs, h.ia.of_eq r.interrupt r.actions, ?_, ?_⟩
  · intro hq; rw [r.interrupt]; apply h.qi; unfold Quiet at *; rw [r.pc] at hq; exact hq
  · intro hq; rw [r.stepping]; apply h.qs; unfold Quiet at *; rw [r.pc] at hq; exact hq

theorem transitionTo_inv10 (c : Cfg) (s : SObj) (h : Inv10 c) (hc : c.closed = false) (hs : TargetOk c s) :
    Inv10 (transitionTo c s) :=
  h.of_tr (transitionTo_tr c s) (transitionTo_invS c s h.s hc hs)

/-! ### the end of a step -/

theorem doPauseHooks_invS (c : Cfg) (h : InvS c) (hq : Hq c)
    (hl : ∀ pf, c.pc = .awaitPaused pf → terminal c.st.label = false) : InvS (doPauseHooks c) := by
  refine ⟨h.nocrash, h.aw, ?_, ?_, h.wv, ?_⟩
  · intro pf hp
    have h1 : c.pfs[pf]? = some true := hq pf hp
    have hlt : pf < c.pfs.length := (List.getElem?_eq_some_iff.mp h1).1
    refine ⟨?_, Or.inr ?_⟩
    · show pf < (c.pfs ++ [false]).length
      simp; omega
    · exact (MonoP.append c.pfs false).2 pf h1
  · intro pf hp
    have h1 : some c.pfs.length = some pf := hp
    cases h1
    show c.pfs.length < (c.pfs ++ [false]).length
    simp
  · intro pf hp ht
    have hl' := hl pf hp
    have ht' : terminal c.st.label = true := ht
    rw [hl'] at ht'; cases ht'

theorem doPauseHooks_hq (c : Cfg) (hq : Hq c) : Hq (doPauseHooks c) := by
  intro pf hp
  exact (MonoP.append c.pfs false).2 pf (hq pf hp)

theorem runAction_invS (c : Cfg) (i : Nat) (next : Option SObj) (h : InvS c) (hq : Hq c) (hc : c.closed = false)
    (hl : terminal c.st.label = false)
    (hp : ∀ a, c.actions[i]? = some a → a.status = .pending)
    (hn : (∃ pf, c.pc = .awaitPaused pf) → next = none)
    (ht : ∀ s, next = some s → TargetOk c s) :
    InvS (runAction c i next) ∧ Hq (runAction c i next) := by
  unfold runAction
  split
  · exact ⟨h, hq⟩
  · rename_i a ha
    split
    · rename_i hne; exact absurd (hp a ha) hne
    · split
      · cases next with
        | none =>
          exact ⟨(doPauseHooks_invS c h hq (fun _ _ => hl)).ar (setActionStatus_ar ..),
            (doPauseHooks_hq c hq).ar (setActionStatus_ar ..)⟩
        | some s =>
          have r := transitionTo_tr c s
          have h1 := transitionTo_invS c s h hc (ht s rfl)
          have hq1 : Hq (transitionTo c s) := hq.tr r
          have hl1 : ∀ pf, (transitionTo c s).pc = .awaitPaused pf → terminal (transitionTo c s).st.label = false := by
            intro pf hpf; rw [r.pc] at hpf; have := hn ⟨pf, hpf⟩; cases this
          exact ⟨(doPauseHooks_invS _ h1 hq1 hl1).ar (setActionStatus_ar ..),
            (doPauseHooks_hq _ hq1).ar (setActionStatus_ar ..)⟩
      · have r := transitionTo_tr c .killed
        have h1 := transitionTo_invS c .killed h hc (targetOk_killed c)
        have a1 : AR (transitionTo c .killed) { transitionTo c .killed with killing := none } :=
          ⟨rfl, rfl, rfl, rfl, rfl, rfl, rfl⟩
        exact ⟨(h1.ar a1).ar (setActionStatus_ar ..), ((hq.tr r).ar a1).ar (setActionStatus_ar ..)⟩

theorem prepare_ar (c : Cfg) (r : StepEnd) : AR c (prepare c r).1 := by
  unfold prepare
  split
  · exact setInterrupt_ar ..
  · exact AR.rfl' c
  · split
    · exact AR.rfl' c
    · exact setInterruptFromExc_ar ..
  · exact setInterrupt_ar ..

theorem prepare_ia (c : Cfg) (r : StepEnd) (h : IA c) : IA (prepare c r).1 := by
  unfold prepare
  split
  · exact IA.of_none (setInterrupt_interrupt ..)
  · exact h
  · split
    · exact h
    · exact setInterruptFromExc_ia _ _ _
  · exact IA.of_none (setInterrupt_interrupt ..)

/-- an interrupt action found by a wake-up from the pause (none was installed) is run without a next state -/
theorem prepare_hn (c : Cfg) (r : StepEnd) (hqi : c.interrupt = none) :
    (prepare c r).1.interrupt = none ∨ (prepare c r).2 = none := by
  unfold prepare
  split
  · exact Or.inl (setInterrupt_interrupt ..)
  · exact Or.inl hqi
  · split <;> exact Or.inr rfl
  · exact Or.inl (setInterrupt_interrupt ..)

theorem prepare_target (c : Cfg) (r : StepEnd) (hr : ∀ s, r = .next (some s) → TargetOk c s) :
    ∀ s, (prepare c r).2 = some s → TargetOk (prepare c r).1 s := by
  have a := prepare_ar c r
  intro s hs
  apply TargetOk.ar _ a
  unfold prepare at hs
  split at hs
  · cases hs; exact targetOk_excepted c _
  · rename_i s' _; dsimp only at hs; exact hr s (by rw [hs])
  · split at hs <;> cases hs
  · cases hs; exact targetOk_excepted c _

theorem dispatch_invS (c : Cfg) (next : Option SObj) (h : InvS c) (hq : Hq c) (h2 : Inv2 c) (hia : IA c)
    (hn : (∃ pf, c.pc = .awaitPaused pf) → c.interrupt = none ∨ next = none)
    (ht : ∀ s, next = some s → TargetOk c s) : InvS (dispatch c next) ∧ Hq (dispatch c next) := by
  unfold dispatch
  split
  · exact ⟨h, hq⟩
  · rename_i hl
    have hl' : terminal c.st.label = false := by simpa using hl
    have hc : c.closed = false := (h2.live hl').2.1
    split
    · rename_i i hi
      split
      · rename_i hnc
        apply runAction_invS c i next h hq hc hl'
        · intro a ha
          rcases hia i a hi ha with hp | hp
          · exact hp
          · exfalso; apply hnc; simp [actionStatus, ha, hp]
        · intro hx; rcases hn hx with h0 | h0
          · rw [hi] at h0; cases h0
          · exact h0
        · exact ht
      · cases next with
        | none => exact ⟨h, hq⟩
        | some s => exact ⟨transitionTo_invS c s h hc (ht s rfl), hq.tr (transitionTo_tr c s)⟩
    · cases next with
      | none => exact ⟨h, hq⟩
      | some s => exact ⟨transitionTo_invS c s h hc (ht s rfl), hq.tr (transitionTo_tr c s)⟩

theorem finally_invS (c : Cfg) (h : InvS c) : InvS (finally_ c) := by
  have h0 : InvS { c with stepping := false } := ⟨h.nocrash, h.aw, h.ap, h.pv, h.wv, h.tp⟩
  exact h0.ar (setInterrupt_ar _ none)
theorem finally_hq (c : Cfg) (h : Hq c) : Hq (finally_ c) := by
  have h0 : Hq { c with stepping := false } := h
  exact h0.ar (setInterrupt_ar _ none)
theorem finally_interrupt (c : Cfg) : (finally_ c).interrupt = none := setInterrupt_interrupt _ _
theorem finally_stepping (c : Cfg) : (finally_ c).stepping = false := (setInterrupt_ar _ none).stepping

/-- what holds at the head of `step_until_terminated`'s loop inside a wake-up of the stepping task: the coroutine
invariant, the pause future the task was blocked on (if any) is released, no interrupt action, no step in flight -/
structure Tick (c : Cfg) : Prop where
  s : InvS c
  q : Hq c
  i2 : Inv2 c
  int : c.interrupt = none
  stp : c.stepping = false

theorem endOfStep_tick (c : Cfg) (r : StepEnd) (h : InvS c) (hq : Hq c) (h2 : Inv2 c) (hia : IA c)
    (hqi : (∃ pf, c.pc = .awaitPaused pf) → c.interrupt = none)
    (hr : ∀ s, r = .next (some s) → TargetOk c s) : Tick (endOfStep c r) := by
  have a := prepare_ar c r
  have d := dispatch_invS (prepare c r).1 (prepare c r).2 (h.ar a) (hq.ar a) (h2.same2 (prepare_same2 c r))
    (prepare_ia c r hia) (by intro ⟨pf, hpf⟩; rw [a.pc] at hpf; exact prepare_hn c r (hqi ⟨pf, hpf⟩))
    (prepare_target c r hr)
  exact ⟨finally_invS _ d.1, finally_hq _ d.2, endOfStep_inv2 c r h2, finally_interrupt _, finally_stepping _⟩

/-! ### the body of a step and the loop -/

theorem tick_inv10 {c : Cfg} (h : Tick c) : Inv10 c :=
  ⟨h.s, IA.of_none h.int, fun _ => h.int, fun _ => h.stp⟩

theorem cmdToState_tr (c : Cfg) (cmd : Cmd) : TR c (cmdToState c cmd).1 := by
  unfold cmdToState; split
  · exact TR.rfl' c
  · exact ⟨rfl, rfl, rfl, rfl, rfl, MonoW.append _ _, MonoP.rfl' _⟩
  · exact ⟨rfl, rfl, rfl, rfl, rfl, MonoW.append _ _, MonoP.rfl' _⟩
  · exact TR.rfl' c
  · exact TR.rfl' c

theorem cmdToState_target (c : Cfg) (cmd : Cmd) : TargetOk (cmdToState c cmd).1 (cmdToState c cmd).2 := by
  unfold cmdToState; split
  · exact targetOk_running ..
  · refine ⟨by simp [SObj.label], ?_⟩
    intro fn' wf wk aw h; cases h; simp
  · refine ⟨by simp [SObj.label], ?_⟩
    intro fn' wf wk aw h; cases h; simp
  · exact ⟨by simp [SObj.label], by intro _ _ _ _ h; cases h⟩
  · exact targetOk_killed _

theorem finishUser_tick (c : Cfg) (o : Outcome) (h : InvS c) (hq : Hq c) (h2 : Inv2 c) (hia : IA c)
    (hqi : (∃ pf, c.pc = .awaitPaused pf) → c.interrupt = none) : Tick (finishUser c o) := by
  unfold finishUser
  split
  · rename_i cmd
    show Tick (endOfStep (cmdToState c cmd).1 (.next (some (cmdToState c cmd).2)))
    have r := cmdToState_tr c cmd
    have hs : StW c (cmdToState c cmd).1 := Or.inl (cmdToState_fields c cmd).2
    apply endOfStep_tick _ _ (h.tr r hs) (hq.tr r) (h2.same2 (cmdToState_same2 ..)) (hia.of_eq r.interrupt r.actions)
    · intro ⟨pf, hpf⟩; rw [r.interrupt]; rw [r.pc] at hpf; exact hqi ⟨pf, hpf⟩
    · intro s hs; cases hs; exact cmdToState_target c cmd
  · exact endOfStep_tick c _ h hq h2 hia hqi (by intro s hs; cases hs; exact targetOk_excepted ..)

/-- `Waiting.execute` after an interruption: the same state object waits on a fresh future (a parked wake-up is delivered) -/
def rearm (c : Cfg) (wf : Nat) : Cfg :=
  match c.st with
  | .waiting f wf' wakeup aw =>
      if wf' = wf then
        let nw : WF := match wakeup with | some o => o | none => .pending
        { c with st := .waiting f c.wfs.length none aw, wfs := c.wfs ++ [nw] }
      else c
  | _ => c

theorem rearm_tr (c : Cfg) (wf : Nat) : TR c (rearm c wf) := by
  unfold rearm; split
  · split
    · exact ⟨rfl, rfl, rfl, rfl, rfl, MonoW.append _ _, MonoP.rfl' _⟩
    · exact TR.rfl' c
  · exact TR.rfl' c

theorem rearm_inv2 (c : Cfg) (wf : Nat) (h : Inv2 c) : Inv2 (rearm c wf) := by
  unfold rearm; split
  · rename_i f wf' wakeup aw hst
    split
    · exact h.same2 ⟨by simp [hst, SObj.label], by simp [hst, outcomeOf], rfl, rfl, rfl, rfl⟩
    · exact h
  · exact h

theorem rearm_invS (c : Cfg) (wf : Nat) (h : InvS c) (k : Nat) (hw : c.wfs[wf]? = some (.interrupted k)) :
    InvS (rearm c wf) := by
  unfold rearm; split
  · rename_i f wf' wakeup aw hst
    split
    · rename_i heq
      subst heq
      refine ⟨h.nocrash, ?_, h.ap, h.pv, ?_, ?_⟩
      · intro j hp
        have hj := h.aw j hp
        refine ⟨Nat.lt_of_lt_of_le hj.1 (MonoW.append _ _).1, Or.inr ?_⟩
        rcases hj.2 with ⟨fn, wk, aw', hst'⟩ | hn
        · rw [hst] at hst'; cases hst'
          show (c.wfs ++ [_])[wf']? ≠ some WF.pending
          rw [List.getElem?_append_left hj.1, hw]; intro h'; cases h'
        · exact (MonoW.append _ _).nonpending hj.1 hn
      · intro fn' wf2 wk' aw' hst'
        cases hst'
        show c.wfs.length < (c.wfs ++ [_]).length
        simp
      · intro pf _ ht
        simp [SObj.label, terminal, allowed] at ht
    · exact h
  · exact h

theorem wake_tick (c : Cfg) (fn wf : Nat) (w : WF) (h : InvS c) (hq : Hq c) (h2 : Inv2 c) (hia : IA c)
    (hqi : (∃ pf, c.pc = .awaitPaused pf) → c.interrupt = none)
    (hw : c.wfs[wf]? = some w) (hne : w ≠ .pending) : Tick (wake c fn wf w) := by
  unfold wake
  split
  · exact endOfStep_tick c _ h hq h2 hia hqi (by intro s hs; cases hs; exact targetOk_running ..)
  · rename_i cookie
    show Tick (endOfStep (rearm c wf) (.interruption cookie))
    have r := rearm_tr c wf
    apply endOfStep_tick _ _ (rearm_invS c wf h cookie hw) (hq.tr r) (rearm_inv2 c wf h2) (hia.of_eq r.interrupt r.actions)
    · intro ⟨pf, hpf⟩; rw [r.interrupt]; rw [r.pc] at hpf; exact hqi ⟨pf, hpf⟩
    · intro s hs; cases hs
  · exact endOfStep_tick c _ h hq h2 hia hqi (by intro s hs; cases hs)
  · exact absurd rfl hne

theorem stepBodyK_inv10 (P : Prog) (k : Cfg → Cfg) (hk : ∀ d, Tick d → Inv10 (k d)) (c : Cfg) (h : Tick c) :
    Inv10 (stepBodyK P k c) := by
  obtain ⟨hs, hq, h2, hint, hstp⟩ := h
  have hs1 : InvS { c with stepping := true } := ⟨hs.nocrash, hs.aw, hs.ap, hs.pv, hs.wv, hs.tp⟩
  have hq1 : Hq { c with stepping := true } := hq
  have h21 : Inv2 { c with stepping := true } := h2.same2 ⟨rfl, rfl, rfl, rfl, rfl, rfl⟩
  have hia1 : IA { c with stepping := true } := IA.of_none hint
  have hqi1 : (∃ pf, ({ c with stepping := true } : Cfg).pc = .awaitPaused pf) → ({ c with stepping := true } : Cfg).interrupt = none :=
    fun _ => hint
  unfold stepBodyK
  dsimp only
  split
  · exact hk _ (endOfStep_tick _ _ hs1 hq1 h21 hia1 hqi1 (by intro s hs; cases hs; exact targetOk_running ..))
  · rename_i fn args kw hst
    split
    · exact hk _ (finishUser_tick _ _ ⟨hs.nocrash, hs.aw, hs.ap, hs.pv, hs.wv, hs.tp⟩ hq
        (h2.same2 ⟨rfl, rfl, rfl, rfl, rfl, rfl⟩) (IA.of_none hint) (fun _ => hint))
    · refine ⟨⟨?_, ?_, ?_, hs.pv, hs.wv, ?_⟩, IA.of_none hint, ?_, ?_⟩
      · intro e h; cases h
      · intro wf h; cases h
      · intro pf h; cases h
      · intro pf h; cases h
      · intro hq; rcases hq with h | ⟨pf, h⟩ <;> cases h
      · intro hq; rcases hq with h | ⟨pf, h⟩ <;> cases h
  · rename_i fn wf wk aw hst
    split
    · rename_i hp
      refine ⟨⟨?_, ?_, ?_, hs.pv, hs.wv, ?_⟩, IA.of_none hint, ?_, ?_⟩
      · intro e h; cases h
      · intro j hj; cases hj
        exact ⟨(List.getElem?_eq_some_iff.mp hp).1, Or.inl ⟨fn, wk, aw, hst⟩⟩
      · intro pf h; cases h
      · intro pf h; cases h
      · intro hq; rcases hq with h | ⟨pf, h⟩ <;> cases h
      · intro hq; rcases hq with h | ⟨pf, h⟩ <;> cases h
    · rename_i w hnp hw
      have hne : w ≠ .pending := by intro h; exact hnp h
      exact hk _ (wake_tick _ fn wf w hs1 hq1 h21 hia1 hqi1 hw hne)
    · rename_i hnone
      exfalso
      have hlt := hs.wv _ _ _ _ hst
      rw [List.getElem?_eq_getElem hlt] at hnone; cases hnone
  · exact hk _ (endOfStep_tick _ _ hs1 hq1 h21 hia1 hqi1 (by intro s hs; cases hs))

theorem loopHead_inv10 (P : Prog) : ∀ (fuel : Nat) (c : Cfg), Tick c → Inv10 (loopHead P fuel c) := by
  intro fuel
  induction fuel with
  | zero => intro c h; simpa [loopHead] using tick_inv10 h
  | succ n ih =>
    intro c h
    have hb := stepBodyK_inv10 P (loopHead P n) ih c h
    unfold loopHead
    split
    · exact tick_inv10 h
    · split
      · -- the process has terminated: the loop ends
        refine ⟨⟨?_, ?_, ?_, h.s.pv, h.s.wv, ?_⟩, IA.of_none h.int, fun _ => h.int, fun _ => h.stp⟩
        · intro e h; cases h
        · intro wf h; cases h
        · intro pf h; cases h
        · intro pf h; cases h
      · rename_i hl
        have hl' : terminal c.st.label = false := by simpa using hl
        split
        · -- a live process is never closed
          rename_i hcl
          rw [(h.i2.live hl').2.1] at hcl; cases hcl
        · split
          · rename_i pf hpa
            split
            · refine ⟨⟨?_, ?_, ?_, h.s.pv, h.s.wv, ?_⟩, IA.of_none h.int, fun _ => h.int, fun _ => h.stp⟩
              · intro e h; cases h
              · intro wf h; cases h
              · intro pf' hp; cases hp
                exact ⟨h.s.pv pf hpa, Or.inl hpa⟩
              · intro pf' _ ht
                have ht' : terminal c.st.label = true := ht
                rw [hl'] at ht'; cases ht'
            · exact hb
          · exact hb

theorem tickStepper_inv10 (P : Prog) (c : Cfg) (h : Inv10 c) (h2 : Inv2 c) : Inv10 (tickStepper P c) := by
  unfold tickStepper
  split
  · rename_i hpc
    exact loopHead_inv10 P _ c ⟨h.s, (by intro pf hp; rw [hpc] at hp; cases hp), h2, h.qi (Or.inl hpc), h.qs (Or.inl hpc)⟩
  · rename_i pf hpc
    split
    · rename_i htrue
      have tk : Tick c := ⟨h.s, (by intro pf' hp; rw [hpc] at hp; cases hp; exact htrue), h2,
        h.qi (Or.inr ⟨pf, hpc⟩), h.qs (Or.inr ⟨pf, hpc⟩)⟩
      have hb : Inv10 (stepBody P fuel0 c) := stepBodyK_inv10 P _ (loopHead_inv10 P fuel0) c tk
      split
      · rename_i pf' hpa
        split
        · refine ⟨⟨?_, ?_, ?_, h.s.pv, h.s.wv, ?_⟩, h.ia, fun _ => h.qi (Or.inr ⟨pf, hpc⟩), fun _ => h.qs (Or.inr ⟨pf, hpc⟩)⟩
          · intro e h; cases h
          · intro wf h; cases h
          · intro p hp; cases hp
            exact ⟨h.s.pv pf' hpa, Or.inl hpa⟩
          · intro p _
            exact h.s.tp pf hpc
        · exact hb
      · exact hb
    · exact h
  · rename_i b hpc
    have hqv : Hq c := by intro pf hp; rw [hpc] at hp; cases hp
    have hqiv : (∃ pf, c.pc = .awaitPaused pf) → c.interrupt = none := by
      intro ⟨pf, hp⟩; rw [hpc] at hp; cases hp
    split
    · exact loopHead_inv10 P _ _ (finishUser_tick c b.out h.s hqv h2 h.ia hqiv)
    · refine ⟨⟨?_, ?_, ?_, h.s.pv, h.s.wv, ?_⟩, h.ia, ?_, ?_⟩
      · intro e h; cases h
      · intro wf h; cases h
      · intro pf h; cases h
      · intro pf h; cases h
      · intro hq; rcases hq with h | ⟨pf, h⟩ <;> cases h
      · intro hq; rcases hq with h | ⟨pf, h⟩ <;> cases h
  · rename_i wf hpc
    have hqv : Hq c := by intro pf hp; rw [hpc] at hp; cases hp
    have hqiv : (∃ pf, c.pc = .awaitPaused pf) → c.interrupt = none := by
      intro ⟨pf, hp⟩; rw [hpc] at hp; cases hp
    split
    · exact h
    · rename_i w hnp hw
      have hne : w ≠ .pending := by intro h; exact hnp h
      exact loopHead_inv10 P _ _ (wake_tick c _ wf w h.s hqv h2 h.ia hqiv hw hne)
    · exact h
  · exact h

/-! ### control calls and scheduled callbacks -/

/-- nothing the invariant looks at changed -/
theorem Inv10.same {c c' : Cfg} (h : Inv10 c) (h1 : c'.pc = c.pc) (h2 : c'.interrupt = c.interrupt)
    (h3 : c'.actions = c.actions) (h4 : c'.stepping = c.stepping) (h5 : c'.paused = c.paused) (h6 : c'.wfs = c.wfs)
    (h7 : c'.pfs = c.pfs) (h8 : c'.st = c.st) : Inv10 c' :=
  h.tr (TR.of_eq h1 h2 h3 h4 h5 h6 h7) (Or.inl h8)

theorem Inv10.ar {c c' : Cfg} (h : Inv10 c) (r : AR c c') (hi : c'.interrupt = c.interrupt) (hia : IA c') : Inv10 c' := by
  refine ⟨h.s.ar r, hia, ?_, ?_⟩
  · intro hq; rw [hi]; apply h.qi; unfold Quiet at *; rw [r.pc] at hq; exact hq
  · intro hq; rw [r.stepping]; apply h.qs; unfold Quiet at *; rw [r.pc] at hq; exact hq

theorem hand_inv10 (c : Cfg) (i : Nat) (h : Inv10 c) : Inv10 (hand c i) := by
  unfold hand; split
  · exact h
  · exact h.same rfl rfl rfl rfl rfl rfl rfl rfl

theorem interruptState_tr (c : Cfg) (k : Nat) : TR c (interruptState c k) := by
  unfold interruptState; split
  · split
    · rename_i hp
      exact ⟨rfl, rfl, rfl, rfl, rfl, MonoW.set_pending hp _, MonoP.rfl' _⟩
    · exact TR.rfl' c
  · exact TR.rfl' c

theorem interruptState_st (c : Cfg) (k : Nat) : (interruptState c k).st = c.st := by
  unfold interruptState; split
  · split <;> rfl
  · rfl

/-- `pause()` / `kill()` during a step: a fresh pending interrupt action; the coroutine is inside the step -/
theorem requestInterrupt_inv10 (c : Cfg) (k : AKind) (h : Inv10 c) (hst : c.stepping = true) :
    Inv10 (requestInterrupt c k) := by
  unfold requestInterrupt
  have hnq : ¬ Quiet c := by intro hq; rw [h.qs hq] at hst; cases hst
  have h0 : InvS { c with nextCookie := c.nextCookie + 1 } := ⟨h.s.nocrash, h.s.aw, h.s.ap, h.s.pv, h.s.wv, h.s.tp⟩
  have a := setInterruptFromExc_ar { c with nextCookie := c.nextCookie + 1 } k c.nextCookie
  have r := interruptState_tr (setInterruptFromExc { c with nextCookie := c.nextCookie + 1 } k c.nextCookie) c.nextCookie
  have hpc : (interruptState (setInterruptFromExc { c with nextCookie := c.nextCookie + 1 } k c.nextCookie) c.nextCookie).pc = c.pc :=
    r.pc.trans a.pc
  refine ⟨(h0.ar a).tr r (Or.inl (interruptState_st _ _)), (setInterruptFromExc_ia _ _ _).of_eq r.interrupt r.actions, ?_, ?_⟩
  · intro hq; exfalso; apply hnq; unfold Quiet at *; rw [hpc] at hq; exact hq
  · intro hq; exfalso; apply hnq; unfold Quiet at *; rw [hpc] at hq; exact hq

theorem pause_inv10 (c : Cfg) (h : Inv10 c) : Inv10 (pause c).1 := by
  unfold pause
  split
  · exact h
  · rename_i hnt
    split
    · exact h
    · rename_i hnp
      split
      · exact hand_inv10 _ _ h
      · split
        · exact h
        · split
          · rename_i hstep
            dsimp only
            have hs : Inv10 { requestInterrupt c .pause with pausing := (requestInterrupt c .pause).interrupt } :=
              (requestInterrupt_inv10 c .pause h hstep).same rfl rfl rfl rfl rfl rfl rfl rfl
            split
            · exact hand_inv10 _ _ hs
            · exact hs
          · have hpa : c.paused = none := by
              cases hpa : c.paused with
              | none => rfl
              | some pf => simp [hpa] at hnp
            have hl : terminal c.st.label = false := by simpa using hnt
            have hq : Hq c := by
              intro pf hp
              rcases (h.s.ap pf hp).2 with h1 | h1
              · rw [hpa] at h1; cases h1
              · exact h1
            exact ⟨doPauseHooks_invS c h.s hq (fun _ _ => hl), h.ia, h.qi, h.qs⟩

/-- `play()` while paused: the pause future is released and forgotten -/
theorem inv10_unpause {c d : Cfg} (h : Inv10 c) (pf : Nat) (hpa : c.paused = some pf) (h1 : d.pc = c.pc) (h2 : d.st = c.st)
    (h3 : d.wfs = c.wfs) (h4 : d.interrupt = c.interrupt) (h5 : d.actions = c.actions) (h6 : d.stepping = c.stepping)
    (h7 : d.paused = none) (h8 : MonoP c.pfs d.pfs) (h9 : d.pfs[pf]? = some true) : Inv10 d := by
  refine ⟨⟨?_, ?_, ?_, ?_, ?_, ?_⟩, h.ia.of_eq h4 h5, ?_, ?_⟩
  · intro e; rw [h1]; exact h.s.nocrash e
  · intro wf hp; rw [h1] at hp; unfold WOk; rw [h2, h3]; exact h.s.aw wf hp
  · intro p hp; rw [h1] at hp
    obtain ⟨a, b⟩ := h.s.ap p hp
    refine ⟨Nat.lt_of_lt_of_le a h8.1, Or.inr ?_⟩
    rcases b with b | b
    · rw [hpa] at b; cases b; exact h9
    · exact h8.2 p b
  · intro p hp; rw [h7] at hp; cases hp
  · unfold WV; rw [h2, h3]; exact h.s.wv
  · intro p _ _ p' hp'; rw [h7] at hp'; cases hp'
  · intro hq; rw [h4]; apply h.qi; unfold Quiet at *; rw [h1] at hq; exact hq
  · intro hq; rw [h6]; apply h.qs; unfold Quiet at *; rw [h1] at hq; exact hq

theorem play_inv10 (c : Cfg) (h : Inv10 c) : Inv10 (play c).1 := by
  unfold play
  split
  · split
    · rename_i i _
      have a : AR c { cancelAction c i with pausing := none } :=
        AR.trans (cancelAction_ar c i) ⟨rfl, rfl, rfl, rfl, rfl, rfl, rfl⟩
      exact h.ar a (cancelAction_interrupt c i) ((cancelAction_ia c i h.ia).of_eq rfl rfl)
    · exact h
  · rename_i pf hpa
    dsimp only
    have hlt := h.s.pv pf hpa
    split
    · exact inv10_unpause h pf hpa rfl rfl rfl rfl rfl rfl rfl (MonoP.set_true _ _) (by simp [setAt, hlt])
    · rename_i hnf
      have h9 : c.pfs[pf]? = some true := by
        rw [List.getElem?_eq_getElem hlt] at hnf ⊢
        cases hb : c.pfs[pf] with
        | true => rfl
        | false => rw [hb] at hnf; exact absurd rfl hnf
      exact inv10_unpause h pf hpa rfl rfl rfl rfl rfl rfl rfl (MonoP.rfl' _) h9

theorem kill_inv10 (c : Cfg) (h : Inv10 c) (h2 : Inv2 c) : Inv10 (kill c).1 := by
  unfold kill
  split
  · exact h
  · split
    · exact h
    · rename_i hnk hnt
      have hl : terminal c.st.label = false := by simpa using hnt
      split
      · exact hand_inv10 _ _ h
      · split
        · rename_i hstep
          dsimp only
          have hs : Inv10 { requestInterrupt c .kill with killing := (requestInterrupt c .kill).interrupt } :=
            (requestInterrupt_inv10 c .kill h hstep).same rfl rfl rfl rfl rfl rfl rfl rfl
          split
          · exact hand_inv10 _ _ hs
          · exact hs
        · exact transitionTo_inv10 c .killed h (h2.live hl).2.1 (targetOk_killed c)

theorem deliver_tr (c : Cfg) (o : WF) : TR c (deliver c o) := by
  unfold deliver
  split
  · split
    · rename_i hp
      exact ⟨rfl, rfl, rfl, rfl, rfl, MonoW.set_pending hp _, MonoP.rfl' _⟩
    · split
      · exact TR.of_eq rfl rfl rfl rfl rfl rfl rfl
      · exact TR.rfl' c
    · exact TR.rfl' c
  · exact TR.rfl' c

theorem deliver_stw (c : Cfg) (o : WF) : StW c (deliver c o) := by
  unfold deliver
  split
  · rename_i fn wf wakeup aw hst
    split
    · exact Or.inl rfl
    · split
      · exact Or.inr ⟨fn, wf, wakeup, aw, some o, aw, hst, rfl⟩
      · exact Or.inl rfl
    · exact Or.inl rfl
  · exact Or.inl rfl

theorem resume_inv10 (c : Cfg) (v) (h : Inv10 c) : Inv10 (resume c v).1 := by
  unfold resume; split
  · exact h.tr (deliver_tr ..) (deliver_stw ..)
  · exact h

theorem fail_inv10 (c : Cfg) (e) (h : Inv10 c) (h2 : Inv2 c) : Inv10 (fail c e).1 := by
  unfold fail; split
  · exact h
  · rename_i hnt
    exact transitionTo_inv10 c _ h (h2.live (by simpa using hnt)).2.1 (targetOk_excepted ..)

theorem cancelFut_inv10 (c : Cfg) (h : Inv10 c) : Inv10 (cancelFut c).1 := by
  unfold cancelFut; split
  · exact h.same rfl rfl rfl rfl rfl rfl rfl rfl
  · exact h

theorem complete_inv10 (c : Cfg) (f o) (h : Inv10 c) : Inv10 (complete c f o) := by
  unfold complete; split
  · dsimp only; split <;> exact h.same rfl rfl rfl rfl rfl rfl rfl rfl
  · exact h

theorem awaitableDone_inv10 (c : Cfg) (f) (h : Inv10 c) : Inv10 (awaitableDone c f) := by
  unfold awaitableDone
  have hold : ∀ d : Cfg, Inv10 d → Inv10 (match d.efKeys.find? (·.1 = f), d.efs[f]? with
      | some (_, key), some (EFut.result v) => { d with ctx := (key, v) :: d.ctx.filter (·.1 ≠ key) }
      | _, _ => d) := by
    intro d hd; split
    · exact hd.same rfl rfl rfl rfl rfl rfl rfl rfl
    · exact hd
  dsimp only
  split
  · rename_i fn wf wakeup aw hst
    split
    · exact hold c h
    · have h1 : Inv10 { c with st := .waiting fn wf wakeup (aw.filter (·.1 ≠ f)) } :=
        h.tr (TR.of_eq rfl rfl rfl rfl rfl rfl rfl) (Or.inr ⟨fn, wf, wakeup, aw, wakeup, _, hst, rfl⟩)
      split
      · split
        · refine Inv10.tr ?_ (deliver_tr _ _) (deliver_stw _ _)
          exact h1.same rfl rfl rfl rfl rfl rfl rfl rfl
        · exact h1.same rfl rfl rfl rfl rfl rfl rfl rfl
      · exact h1.tr (deliver_tr ..) (deliver_stw ..)
      · exact h1
  · exact hold c h

theorem tickCb_inv10 (c : Cfg) (cb) (h : Inv10 c) (h2 : Inv2 c) : Inv10 (tickCb c cb) := by
  unfold tickCb; split
  · have h1 : Inv10 { c with ready := c.ready.erase cb } := h.same rfl rfl rfl rfl rfl rfl rfl rfl
    have h21 : Inv2 { c with ready := c.ready.erase cb } := h2.same2 ⟨rfl, rfl, rfl, rfl, rfl, rfl⟩
    split
    · exact awaitableDone_inv10 _ _ h1
    · exact (kill_inv10 _ h1 h21).same rfl rfl rfl rfl rfl rfl rfl rfl
    · split
      · exact fail_inv10 _ _ h1 h21
      · exact h1
  · exact h

/-- every event preserves the linking invariant -/
theorem step_inv10 (P : Prog) (c : Cfg) (ev : Ev) (h : Inv10 c) (h2 : Inv2 c) : Inv10 (step P c ev).1 := by
  cases ev <;> simp only [step]
  · exact tickStepper_inv10 P c h h2
  · exact tickCb_inv10 c _ h h2
  · exact pause_inv10 c h
  · exact play_inv10 c h
  · exact kill_inv10 c h h2
  · exact resume_inv10 c _ h
  · exact fail_inv10 c _ h h2
  · exact cancelFut_inv10 c h
  · exact complete_inv10 c _ _ h
  · exact h.same rfl rfl rfl rfl rfl rfl rfl rfl

theorem run_inv10 (P : Prog) (c0 : Cfg) (evs : List Ev) (h2 : Inv2 c0) (h : Inv10 c0) : Inv10 (run P c0 evs) := by
  induction evs generalizing c0 with
  | nil => exact h
  | cons e es ih => exact ih _ (step_inv2 P c0 e h2) (step_inv10 P c0 e h h2)

/-! ### step_until_terminated() returns -/

/-- `stepper_returns` with the hypothesis on the current pause future only where it is used: when the coroutine is
blocked on a pause future -/
theorem stepper_returns_gen (P : Prog) (c : Cfg) (ht : terminal c.st.label = true) (hcr : ∀ e, c.pc ≠ .crashed e)
    (hpz : ∀ pf pf', c.pc = .awaitPaused pf → c.paused = some pf' → c.pfs[pf']? = some true)
    (hap : ∀ pf, c.pc = .awaitPaused pf → c.pfs[pf]? = some true)
    (haw : ∀ wf, c.pc = .awaitWaiting wf → ∃ w, c.wfs[wf]? = some w ∧ w ≠ .pending) :
    ∃ n, (ticks P n c).pc = .done := by
  cases hpc : c.pc with
  | done => exact ⟨0, hpc⟩
  | crashed e => exact absurd hpc (hcr e)
  | notStarted =>
    refine ⟨1, ?_⟩
    simp only [ticks, tickStepper, hpc]
    rw [fuel0_pos]; exact loopHead_terminal P _ c ht hcr
  | awaitPaused pf =>
    refine ⟨1, ?_⟩
    have h1 := hap pf hpc
    simp only [ticks, tickStepper, hpc, h1, if_true]
    cases hp : c.paused with
    | none => simp only []; rw [fuel0_pos]; exact stepBody_terminal P _ c ht hcr
    | some pf' =>
      have h2 := hpz pf pf' hpc hp
      simp only [h2]
      rw [fuel0_pos]; exact stepBody_terminal P _ c ht hcr
  | awaitWaiting wf =>
    refine ⟨1, ?_⟩
    obtain ⟨w, hw, hne⟩ := haw wf hpc
    simp only [ticks, tickStepper, hpc, hw]
    have hwk := fun fn' => wake_terminal c fn' wf w ht
    cases w with
    | pending => exact absurd rfl hne
    | result v => rw [fuel0_pos]; exact loopHead_terminal P _ _ (by rw [(hwk _).2]; exact ht) (by intro e; rw [(hwk _).1, hpc]; intro h; cases h)
    | interrupted k => rw [fuel0_pos]; exact loopHead_terminal P _ _ (by rw [(hwk _).2]; exact ht) (by intro e; rw [(hwk _).1, hpc]; intro h; cases h)
    | failed e' => rw [fuel0_pos]; exact loopHead_terminal P _ _ (by rw [(hwk _).2]; exact ht) (by intro e; rw [(hwk _).1, hpc]; intro h; cases h)
  | inUser b =>
    -- by induction on the number of awaits left in the user coroutine
    have key : ∀ (k : Nat) (d : Cfg) (b : Body), b.awaits = k → terminal d.st.label = true → d.pc = .inUser b →
        ∃ n, (ticks P n d).pc = .done := by
      intro k
      induction k with
      | zero =>
        intro d b hb hdt hdp
        refine ⟨1, ?_⟩
        simp only [ticks, tickStepper, hdp, hb, if_true]
        have hf := finishUser_terminal d b.out hdt
        rw [fuel0_pos]
        exact loopHead_terminal P _ _ (by rw [hf.2]; exact hdt) (by intro e; rw [hf.1, hdp]; intro h; cases h)
      | succ k ih =>
        intro d b hb hdt hdp
        have hne : b.awaits ≠ 0 := by omega
        obtain ⟨n, hn⟩ := ih { d with pc := .inUser { b with awaits := b.awaits - 1 } } { b with awaits := b.awaits - 1 }
          (by simp; omega) hdt rfl
        refine ⟨n + 1, ?_⟩
        simp only [ticks, tickStepper, hdp, hne, if_false]
        exact hn
    exact key b.awaits c b rfl ht hpc

/-- **step_until_terminated() returns**: in every reachable terminated configuration, finitely many wake-ups of the
stepping task end it normally -/
theorem stepper_returns_reachable (P : Prog) (nf : Nat) (evs : List Ev)
    (ht : terminal (run P (init nf) evs).st.label = true) : ∃ n, (ticks P n (run P (init nf) evs)).pc = .done := by
  have h := run_inv10 P (init nf) evs (inv2_init nf) (inv10_init nf)
  refine stepper_returns_gen P _ ht h.s.nocrash ?_ ?_ ?_
  · intro pf pf' hpc hpa
    exact h.s.tp pf hpc ht pf' hpa
  · intro pf hpc
    rcases (h.s.ap pf hpc).2 with hp | hp
    · exact h.s.tp pf hpc ht pf hp
    · exact hp
  · intro wf hpc
    obtain ⟨hlt, hw⟩ := h.s.aw wf hpc
    rcases hw with ⟨fn, wk, aw, hst⟩ | hn
    · exact absurd hst ((not_live_of_terminal ht).2.2 fn wf wk aw)
    · exact ⟨_, List.getElem?_eq_getElem hlt, by intro hp; rw [List.getElem?_eq_getElem hlt, hp] at hn; exact hn rfl⟩

end PMF
