import PlumpyModel.PM.Model
namespace PMF

/-- newest-first log: every step is an allowed edge -/
def edgesOk : List Label → Bool
  | b :: a :: rest => decide (b ∈ allowed a) && edgesOk (a :: rest)
  | _ => true

/-- lifecycle invariant: the entered log is a legal path ending at the current label; closed only when terminal -/
structure Inv (c : Cfg) : Prop where
  chain : edgesOk c.entered = true
  head  : c.entered.head? = some c.st.label
  closedTerm : c.closed = true → terminal c.st.label = true

/-- `c'` agrees with `c` on everything the lifecycle invariant looks at -/
def Same (c c' : Cfg) : Prop := c'.st.label = c.st.label ∧ c'.entered = c.entered ∧ c'.closed = c.closed

theorem Same.rfl' (c : Cfg) : Same c c := ⟨rfl, rfl, rfl⟩
theorem Same.trans {a b c : Cfg} (h1 : Same a b) (h2 : Same b c) : Same a c :=
  ⟨h2.1.trans h1.1, h2.2.1.trans h1.2.1, h2.2.2.trans h1.2.2⟩
theorem Inv.same {c c' : Cfg} (h : Inv c) (s : Same c c') : Inv c' :=
  ⟨by rw [s.2.1]; exact h.chain, by rw [s.2.1, s.1]; exact h.head, by rw [s.2.2, s.1]; exact h.closedTerm⟩

theorem inv_init (nf : Nat) : Inv (init nf) := by
  exact ⟨by simp [init, edgesOk], by rfl, by simp [init]⟩

/-! frame lemmas -/
theorem setActionStatus_same (c : Cfg) (i s) : Same c (setActionStatus c i s) := by
  unfold setActionStatus; split <;> exact ⟨rfl, rfl, rfl⟩
theorem cancelAction_same (c : Cfg) (i) : Same c (cancelAction c i) := by
  unfold cancelAction; split
  · exact setActionStatus_same ..
  · exact Same.rfl' c
theorem setInterrupt_same (c : Cfg) (n) : Same c (setInterrupt c n) := by
  unfold setInterrupt
  split
  · exact Same.trans (cancelAction_same c _) ⟨rfl, rfl, rfl⟩
  · exact ⟨rfl, rfl, rfl⟩
theorem setInterruptFromExc_same (c : Cfg) (k n) : Same c (setInterruptFromExc c k n) := by
  unfold setInterruptFromExc cancelInterrupt
  split
  · exact Same.trans (cancelAction_same c _) ⟨rfl, rfl, rfl⟩
  · exact ⟨rfl, rfl, rfl⟩
theorem hand_same (c : Cfg) (i) : Same c (hand c i) := by
  unfold hand; split <;> exact ⟨rfl, rfl, rfl⟩
theorem interruptState_same (c : Cfg) (k) : Same c (interruptState c k) := by
  unfold interruptState; split
  · split <;> exact ⟨rfl, rfl, rfl⟩
  · exact Same.rfl' c
theorem doPauseHooks_same (c : Cfg) : Same c (doPauseHooks c) := ⟨rfl, rfl, rfl⟩
theorem deliver_same (c : Cfg) (o) : Same c (deliver c o) := by
  unfold deliver
  split
  · rename_i fn wf wakeup aw hst
    split
    · exact ⟨rfl, rfl, rfl⟩
    · split
      · exact ⟨by simp [hst, SObj.label], rfl, rfl⟩
      · exact Same.rfl' c
    · exact Same.rfl' c
  · exact Same.rfl' c

theorem live_excepted (l : Label) (h : terminal l = false) : Label.excepted ∈ allowed l := by
  cases l <;> simp_all [terminal, allowed]

theorem edgesOk_cons {a b : Label} {rest : List Label} (h : edgesOk (a :: rest) = true) (hab : b ∈ allowed a) :
    edgesOk (b :: a :: rest) = true := by
  simp [edgesOk, hab, h]

end PMF

namespace PMF

theorem exitState_same (c : Cfg) : Same c (exitState c) := by
  unfold exitState; split
  · split <;> exact ⟨rfl, rfl, rfl⟩
  · exact Same.rfl' c

theorem freshFut_same (c : Cfg) : Same c (freshFutIfCancelled c) := by
  unfold freshFutIfCancelled; split <;> exact ⟨rfl, rfl, rfl⟩

theorem setFutExc_same (c : Cfg) (e) : Same c (setFutExc c e) := by
  unfold setFutExc; split <;> exact ⟨rfl, rfl, rfl⟩

theorem enteringHooks_same (c c2 : Cfg) (s : SObj) (h : enteringHooks c s = .ok c2) : Same c c2 := by
  unfold enteringHooks at h
  split at h
  · dsimp only at h
    split at h
    · cases h; exact Same.trans (freshFut_same c) ⟨rfl, rfl, rfl⟩
    · cases h
  · dsimp only at h
    split at h
    · cases h; exact Same.trans (freshFut_same c) ⟨rfl, rfl, rfl⟩
    · cases h
  · cases h; exact setFutExc_same c _
  · cases h; exact Same.rfl' c

theorem enterState_same (c : Cfg) (s : SObj) : Same c (enterState c s) := by
  unfold enterState; split
  · rename_i aw
    generalize hc : c = c0
    have : ∀ (l : List (Nat × Nat)) (d : Cfg), Same c0 d →
        Same c0 (l.foldl (fun c (p : Nat × Nat) =>
          let c := { c with efKeys := p :: c.efKeys }
          match c.efs[p.1]? with
          | some EFut.pending => { c with efCb := c.efCb ++ [p.1] }
          | some _ => { c with ready := c.ready ++ [.adone p.1] }
          | none => c) d) := by
      intro l; induction l with
      | nil => intro d hd; exact hd
      | cons a l ih =>
        intro d hd; simp only [List.foldl]
        apply ih
        split <;> exact Same.trans hd ⟨rfl, rfl, rfl⟩
    exact this aw c0 (Same.rfl' c0)
  · exact Same.rfl' c

theorem enteredHooks_same (c : Cfg) (s : SObj) : Same c (enteredHooks c s) := by
  unfold enteredHooks
  split <;> split <;> exact ⟨rfl, rfl, rfl⟩

theorem onClose_inv (c : Cfg) (h : Inv c) (ht : terminal c.st.label = true) : Inv (onClose c) := by
  unfold onClose; split
  · exact h
  · exact ⟨h.chain, h.head, fun _ => ht⟩

theorem releasePause_same (c : Cfg) : Same c (releasePause c) := by
  unfold releasePause; split
  · split <;> exact ⟨rfl, rfl, rfl⟩
  · exact Same.rfl' c

/-- entering a terminal state: the stepper is released and the process is closed -/
theorem onTerminated_inv (c : Cfg) (h : Inv c) (ht : terminal c.st.label = true) : Inv (onTerminated c) := by
  unfold onTerminated
  have hs := releasePause_same c
  exact onClose_inv _ (h.same hs) (by rw [hs.1]; exact ht)

/-- assigning an allowed next state keeps the invariant (the process is not closed while live) -/
theorem setState_inv (c : Cfg) (s : SObj) (h : Inv c) (hin : s.label ∈ allowed c.st.label)
    (hnc : c.closed = false) : Inv (setState c s) := by
  refine ⟨?_, by simp [setState], by simp [setState, hnc]⟩
  cases hent : c.entered with
  | nil => have := h.head; simp [hent] at this
  | cons a rest =>
    have hh := h.head; simp [hent] at hh; subst hh
    have hc := h.chain; rw [hent] at hc
    simp only [setState, hent]
    exact edgesOk_cons hc hin

theorem not_closed_of_live {c : Cfg} (h : Inv c) (hl : terminal c.st.label = false) : c.closed = false := by
  cases hc : c.closed with
  | false => rfl
  | true => have := h.closedTerm hc; simp [hl] at this

theorem forceExcepted_inv (c : Cfg) (e : Exc) (h : Inv c) (hl : terminal c.st.label = false) :
    Inv (forceExcepted c e) := by
  have hnc := not_closed_of_live h hl
  unfold forceExcepted
  simp only [hnc, Bool.false_eq_true, if_false]
  have hs := setFutExc_same c e
  have h1 : Inv (setState (setFutExc c e) (.excepted e)) :=
    setState_inv _ _ (h.same hs) (by rw [hs.1]; exact live_excepted _ hl) (by rw [hs.2.2]; exact hnc)
  apply onTerminated_inv _ (h1.same (enteredHooks_same _ _))
  rw [(enteredHooks_same _ _).1]; simp [setState, SObj.label, terminal, allowed]

theorem enterNext_inv (c : Cfg) (s : SObj) (h : Inv c) (hin : s.label ∈ allowed c.st.label)
    (hnc : c.closed = false) : Inv (enterNext c s) := by
  unfold enterNext
  have he := enterState_same c s
  have h1 : Inv (setState (enterState c s) s) :=
    setState_inv _ _ (h.same he) (by rw [he.1]; exact hin) (by rw [he.2.2]; exact hnc)
  have h2 := h1.same (enteredHooks_same _ s)
  dsimp only
  split
  · rename_i ht
    apply onTerminated_inv _ h2
    rw [(enteredHooks_same _ s).1]; simpa [setState] using ht
  · exact h2

theorem transitionTo_inv (c : Cfg) (s : SObj) (h : Inv c) (hl : terminal c.st.label = false) :
    Inv (transitionTo c s) := by
  have hnc := not_closed_of_live h hl
  unfold transitionTo
  split
  · rename_i hin
    simp only [hnc, Bool.false_eq_true, if_false]
    have hex := exitState_same c
    split
    · rename_i e _
      exact forceExcepted_inv _ e (h.same hex) (by rw [hex.1]; exact hl)
    · rename_i c2 hok
      have h2 : Same c c2 := Same.trans hex (enteringHooks_same _ _ _ hok)
      exact enterNext_inv c2 s (h.same h2) (by rw [h2.1]; exact hin) (by rw [h2.2.2]; exact hnc)
  · exact forceExcepted_inv _ _ h hl

end PMF

namespace PMF

/-- a step of the model either keeps the invariant-relevant part, or is reached from a live state -/
theorem runAction_inv (c : Cfg) (i : Nat) (next : Option SObj) (h : Inv c) (hl : terminal c.st.label = false) :
    Inv (runAction c i next) := by
  unfold runAction
  split
  · exact h
  · split
    · exact h.same ⟨rfl, rfl, rfl⟩
    · split
      · cases next with
        | none => exact (h.same (doPauseHooks_same c)).same (setActionStatus_same ..)
        | some s => exact ((transitionTo_inv c s h hl).same (doPauseHooks_same _)).same (setActionStatus_same ..)
      · exact ((transitionTo_inv c .killed h hl).same ⟨rfl, rfl, rfl⟩).same (setActionStatus_same ..)

theorem prepare_same (c : Cfg) (r : StepEnd) : Same c (prepare c r).1 := by
  unfold prepare
  split
  · exact setInterrupt_same ..
  · exact Same.rfl' c
  · split
    · exact Same.rfl' c
    · exact setInterruptFromExc_same ..
  · exact setInterrupt_same ..

theorem dispatch_inv (c : Cfg) (next : Option SObj) (h : Inv c) : Inv (dispatch c next) := by
  unfold dispatch
  split
  · exact h
  · rename_i hl
    have hl' : terminal c.st.label = false := by simpa using hl
    split
    · split
      · exact runAction_inv c _ next h hl'
      · cases next with
        | none => exact h
        | some s => exact transitionTo_inv c s h hl'
    · cases next with
      | none => exact h
      | some s => exact transitionTo_inv c s h hl'

theorem finally_same (c : Cfg) : Same c (finally_ c) :=
  Same.trans (⟨rfl, rfl, rfl⟩ : Same c { c with stepping := false }) (setInterrupt_same _ _)

theorem endOfStep_inv (c : Cfg) (r : StepEnd) (h : Inv c) : Inv (endOfStep c r) := by
  unfold endOfStep
  exact (dispatch_inv _ _ (h.same (prepare_same c r))).same (finally_same _)

theorem cmdToState_same (c : Cfg) (cmd : Cmd) : Same c (cmdToState c cmd).1 := by
  unfold cmdToState; split <;> exact ⟨rfl, rfl, rfl⟩

theorem finishUser_inv (c : Cfg) (o : Outcome) (h : Inv c) : Inv (finishUser c o) := by
  unfold finishUser
  split
  · exact endOfStep_inv _ _ (h.same (cmdToState_same ..))
  · exact endOfStep_inv _ _ h

theorem wake_inv (c : Cfg) (fn wf : Nat) (w : WF) (h : Inv c) : Inv (wake c fn wf w) := by
  unfold wake
  split
  · exact endOfStep_inv _ _ h
  · apply endOfStep_inv
    split
    · rename_i f wf' wakeup aw hst
      split
      · exact h.same ⟨by simp [hst, SObj.label], rfl, rfl⟩
      · exact h
    · exact h
  · exact endOfStep_inv _ _ h
  · exact h

theorem stepBody_of_loopHead (P : Prog) (n : Nat) (hL : ∀ c, Inv c → Inv (loopHead P n c)) :
    ∀ c, Inv c → Inv (stepBody P n c) := by
  intro c h
  unfold stepBody stepBodyK
  have hs : Inv { c with stepping := true } := h.same ⟨rfl, rfl, rfl⟩
  dsimp only
  split
  · exact hL _ (endOfStep_inv _ _ hs)
  · split
    · exact hL _ (finishUser_inv _ _ (hs.same ⟨rfl, rfl, rfl⟩))
    · exact hs.same ⟨rfl, rfl, rfl⟩
  · split
    · exact hs.same ⟨rfl, rfl, rfl⟩
    · exact hL _ (wake_inv _ _ _ _ hs)
    · exact hs
  · exact hL _ (endOfStep_inv _ _ hs)

theorem loopHead_inv (P : Prog) : ∀ (fuel : Nat) (c : Cfg), Inv c → Inv (loopHead P fuel c) := by
  intro fuel
  induction fuel with
  | zero => intro c h; simpa [loopHead] using h
  | succ n ih =>
    intro c h
    have hb := stepBody_of_loopHead P n ih
    unfold loopHead
    split
    · exact h
    · split
      · exact h.same ⟨rfl, rfl, rfl⟩
      · split
        · exact h.same ⟨rfl, rfl, rfl⟩
        · split
          · split
            · exact h.same ⟨rfl, rfl, rfl⟩
            · exact hb c h
          · exact hb c h

theorem stepBody_inv (P : Prog) (fuel : Nat) (c : Cfg) (h : Inv c) : Inv (stepBody P fuel c) :=
  stepBody_of_loopHead P fuel (loopHead_inv P fuel) c h

theorem tickStepper_inv (P : Prog) (c : Cfg) (h : Inv c) : Inv (tickStepper P c) := by
  unfold tickStepper
  split
  · exact loopHead_inv P _ c h
  · split
    · split
      · split
        · exact h.same ⟨rfl, rfl, rfl⟩
        · exact stepBody_inv P _ c h
      · exact stepBody_inv P _ c h
    · exact h
  · split
    · exact loopHead_inv P _ _ (finishUser_inv _ _ h)
    · exact h.same ⟨rfl, rfl, rfl⟩
  · split
    · exact h
    · exact loopHead_inv P _ _ (wake_inv _ _ _ _ h)
    · exact h
  · exact h

end PMF

namespace PMF

theorem requestInterrupt_same (c : Cfg) (k) : Same c (requestInterrupt c k) := by
  unfold requestInterrupt
  exact Same.trans (Same.trans (⟨rfl, rfl, rfl⟩ : Same c { c with nextCookie := c.nextCookie + 1 })
    (setInterruptFromExc_same ..)) (interruptState_same ..)

theorem pause_inv (c : Cfg) (h : Inv c) : Inv (pause c).1 := by
  unfold pause
  split
  · exact h
  · split
    · exact h
    · split
      · exact h.same (hand_same ..)
      · split
        · exact h
        · split
          · dsimp only
            have hs : Same c { requestInterrupt c .pause with pausing := (requestInterrupt c .pause).interrupt } :=
              Same.trans (requestInterrupt_same c .pause) ⟨rfl, rfl, rfl⟩
            split
            · exact (h.same hs).same (hand_same ..)
            · exact h.same hs
          · exact h.same (doPauseHooks_same c)

theorem play_inv (c : Cfg) (h : Inv c) : Inv (play c).1 := by
  unfold play
  split
  · split
    · exact (h.same (cancelAction_same ..)).same ⟨rfl, rfl, rfl⟩
    · exact h
  · dsimp only
    split <;> exact h.same ⟨rfl, rfl, rfl⟩

theorem kill_inv (c : Cfg) (h : Inv c) : Inv (kill c).1 := by
  unfold kill
  split
  · exact h
  · split
    · exact h
    · rename_i hnk hnt
      have hl : terminal c.st.label = false := by simpa using hnt
      split
      · exact h.same (hand_same ..)
      · split
        · dsimp only
          have hs : Same c { requestInterrupt c .kill with killing := (requestInterrupt c .kill).interrupt } :=
            Same.trans (requestInterrupt_same c .kill) ⟨rfl, rfl, rfl⟩
          split
          · exact (h.same hs).same (hand_same ..)
          · exact h.same hs
        · exact transitionTo_inv c .killed h hl

theorem resume_inv (c : Cfg) (v) (h : Inv c) : Inv (resume c v).1 := by
  unfold resume; split
  · exact h.same (deliver_same ..)
  · exact h

theorem fail_inv (c : Cfg) (e) (h : Inv c) : Inv (fail c e).1 := by
  unfold fail; split
  · exact h
  · rename_i hnt
    exact transitionTo_inv c _ h (by simpa using hnt)

theorem cancelFut_inv (c : Cfg) (h : Inv c) : Inv (cancelFut c).1 := by
  unfold cancelFut; split
  · exact h.same ⟨rfl, rfl, rfl⟩
  · exact h

theorem complete_inv (c : Cfg) (f o) (h : Inv c) : Inv (complete c f o) := by
  unfold complete; split
  · dsimp only; split <;> exact h.same ⟨rfl, rfl, rfl⟩
  · exact h

theorem awaitableDone_inv (c : Cfg) (f) (h : Inv c) : Inv (awaitableDone c f) := by
  unfold awaitableDone
  have hold : ∀ d : Cfg, Inv d → Inv (match d.efKeys.find? (·.1 = f), d.efs[f]? with
      | some (_, key), some (EFut.result v) => { d with ctx := (key, v) :: d.ctx.filter (·.1 ≠ key) }
      | _, _ => d) := by
    intro d hd; split
    · exact hd.same ⟨rfl, rfl, rfl⟩
    · exact hd
  dsimp only
  split
  · rename_i fn wf wakeup aw hst
    split
    · exact hold c h
    · have h1 : Inv { c with st := .waiting fn wf wakeup (aw.filter (·.1 ≠ f)) } :=
        h.same ⟨by simp [hst, SObj.label], rfl, rfl⟩
      split
      · split
        · exact (h1.same ⟨rfl, rfl, rfl⟩).same (deliver_same ..)
        · exact h1.same ⟨rfl, rfl, rfl⟩
      · exact h1.same (deliver_same ..)
      · exact h1
  · exact hold c h

theorem tickCb_inv (c : Cfg) (cb) (h : Inv c) : Inv (tickCb c cb) := by
  unfold tickCb; split
  · have h1 : Inv { c with ready := c.ready.erase cb } := h.same ⟨rfl, rfl, rfl⟩
    split
    · exact awaitableDone_inv _ _ h1
    · exact (kill_inv _ h1).same ⟨rfl, rfl, rfl⟩
    · split
      · exact fail_inv _ _ h1
      · exact h1
  · exact h

/-- every event preserves the lifecycle invariant -/
theorem step_inv (P : Prog) (c : Cfg) (ev : Ev) (h : Inv c) : Inv (step P c ev).1 := by
  cases ev <;> simp only [step]
  · exact tickStepper_inv P c h
  · exact tickCb_inv c _ h
  · exact pause_inv c h
  · exact play_inv c h
  · exact kill_inv c h
  · exact resume_inv c _ h
  · exact fail_inv c _ h
  · exact cancelFut_inv c h
  · exact complete_inv c _ _ h
  · exact h.same ⟨rfl, rfl, rfl⟩

theorem run_inv (P : Prog) (c0 : Cfg) (evs : List Ev) (h : Inv c0) : Inv (run P c0 evs) := by
  induction evs generalizing c0 with
  | nil => exact h
  | cons e es ih => exact ih _ (step_inv P c0 e h)

/-- **C01 (model level), first half**: for every user program, every initial program shape and every
history of ticks and control requests, the entered-state log is a path of the lifecycle graph that
starts in CREATED and ends at the current state. -/
theorem C01_edges_legal (P : Prog) (nf : Nat) (evs : List Ev) :
    edgesOk (run P (init nf) evs).entered = true ∧
    (run P (init nf) evs).entered.head? = some (run P (init nf) evs).st.label :=
  let h := run_inv P (init nf) evs (inv_init nf)
  ⟨h.chain, h.head⟩

end PMF

