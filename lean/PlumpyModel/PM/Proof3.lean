import PlumpyModel.PM.Proof2
namespace PMF

/-- C05 invariant: no user activation was started while paused; while live, a set `_paused` future is pending -/
structure InvP (c : Cfg) : Prop where
  traceOk : ∀ a ∈ c.trace, a.paused = false
  pausedPending : terminal c.st.label = false → ∀ pf, c.paused = some pf → c.pfs[pf]? = some false

/-- `c'` agrees with `c` on what InvP looks at -/
def SameP (c c' : Cfg) : Prop :=
  c'.st.label = c.st.label ∧ c'.trace = c.trace ∧ c'.paused = c.paused ∧ c'.pfs = c.pfs

theorem SameP.rfl' (c : Cfg) : SameP c c := ⟨rfl, rfl, rfl, rfl⟩
theorem SameP.trans {a b c : Cfg} (h1 : SameP a b) (h2 : SameP b c) : SameP a c :=
  ⟨h2.1.trans h1.1, h2.2.1.trans h1.2.1, h2.2.2.1.trans h1.2.2.1, h2.2.2.2.trans h1.2.2.2⟩
theorem InvP.same {c c' : Cfg} (h : InvP c) (s : SameP c c') : InvP c' :=
  ⟨by rw [s.2.1]; exact h.traceOk, by rw [s.1, s.2.2.1, s.2.2.2]; exact h.pausedPending⟩

theorem invP_init (nf : Nat) : InvP (init nf) := by
  exact ⟨by simp [init], by simp [init]⟩

/-! frame lemmas -/
theorem setActionStatus_sameP (c : Cfg) (i s) : SameP c (setActionStatus c i s) := by
  unfold setActionStatus; split <;> exact ⟨rfl, rfl, rfl, rfl⟩
theorem cancelAction_sameP (c : Cfg) (i) : SameP c (cancelAction c i) := by
  unfold cancelAction; split
  · exact setActionStatus_sameP ..
  · exact SameP.rfl' c
theorem setInterrupt_sameP (c : Cfg) (n) : SameP c (setInterrupt c n) := by
  unfold setInterrupt; split
  · exact SameP.trans (cancelAction_sameP c _) ⟨rfl, rfl, rfl, rfl⟩
  · exact ⟨rfl, rfl, rfl, rfl⟩
theorem setInterruptFromExc_sameP (c : Cfg) (k n) : SameP c (setInterruptFromExc c k n) := by
  unfold setInterruptFromExc cancelInterrupt
  split
  · exact SameP.trans (cancelAction_sameP c _) ⟨rfl, rfl, rfl, rfl⟩
  · exact ⟨rfl, rfl, rfl, rfl⟩
theorem hand_sameP (c : Cfg) (i) : SameP c (hand c i) := by
  unfold hand; split <;> exact ⟨rfl, rfl, rfl, rfl⟩
theorem interruptState_sameP (c : Cfg) (k) : SameP c (interruptState c k) := by
  unfold interruptState; split
  · split <;> exact ⟨rfl, rfl, rfl, rfl⟩
  · exact SameP.rfl' c
theorem deliver_sameP (c : Cfg) (o) : SameP c (deliver c o) := by
  unfold deliver
  split
  · rename_i fn wf wakeup aw hst
    split
    · exact ⟨rfl, rfl, rfl, rfl⟩
    · split
      · exact ⟨by simp [hst, SObj.label], rfl, rfl, rfl⟩
      · exact SameP.rfl' c
    · exact SameP.rfl' c
  · exact SameP.rfl' c
theorem exitState_sameP (c : Cfg) : SameP c (exitState c) := by
  unfold exitState; split
  · split <;> exact ⟨rfl, rfl, rfl, rfl⟩
  · exact SameP.rfl' c
theorem setFutExc_sameP (c : Cfg) (e) : SameP c (setFutExc c e) := by
  unfold setFutExc; split <;> exact ⟨rfl, rfl, rfl, rfl⟩
theorem freshFut_sameP (c : Cfg) : SameP c (freshFutIfCancelled c) := by
  unfold freshFutIfCancelled; split <;> exact ⟨rfl, rfl, rfl, rfl⟩
theorem enteringHooks_sameP (c c2 : Cfg) (s : SObj) (h : enteringHooks c s = .ok c2) : SameP c c2 := by
  unfold enteringHooks at h
  split at h
  · dsimp only at h
    split at h
    · cases h; exact SameP.trans (freshFut_sameP c) ⟨rfl, rfl, rfl, rfl⟩
    · cases h
  · dsimp only at h
    split at h
    · cases h; exact SameP.trans (freshFut_sameP c) ⟨rfl, rfl, rfl, rfl⟩
    · cases h
  · cases h; exact setFutExc_sameP c _
  · cases h; exact SameP.rfl' c
theorem enterState_sameP (c : Cfg) (s : SObj) : SameP c (enterState c s) := by
  unfold enterState; split
  · rename_i aw
    have : ∀ (l : List (Nat × Nat)) (d : Cfg), SameP c d →
        SameP c (l.foldl (fun c (p : Nat × Nat) =>
          let c := { c with efKeys := p :: c.efKeys }
          match c.efs[p.1]? with
          | some EFut.pending => { c with efCb := c.efCb ++ [p.1] }
          | some _ => { c with ready := c.ready ++ [.adone p.1] }
          | none => c) d) := by
      intro l; induction l with
      | nil => intro d hd; exact hd
      | cons a l ih =>
        intro d hd; simp only [List.foldl]
        apply ih
        split <;> exact SameP.trans hd ⟨rfl, rfl, rfl, rfl⟩
    exact this aw c (SameP.rfl' c)
  · exact SameP.rfl' c

/-- the paused/trace part is untouched by the entered hooks -/
theorem enteredHooks_keep (c : Cfg) (s : SObj) :
    (enteredHooks c s).st = c.st ∧ (enteredHooks c s).trace = c.trace ∧ (enteredHooks c s).paused = c.paused ∧
    (enteredHooks c s).pfs = c.pfs := by
  unfold enteredHooks; split <;> split <;> exact ⟨rfl, rfl, rfl, rfl⟩

theorem releasePause_keep (c : Cfg) : (releasePause c).st = c.st ∧ (releasePause c).trace = c.trace := by
  unfold releasePause; split
  · split <;> exact ⟨rfl, rfl⟩
  · exact ⟨rfl, rfl⟩

end PMF

namespace PMF

theorem live_of_allowed {l m : Label} (h : m ∈ allowed l) : terminal l = false := by
  cases l <;> simp_all [allowed, terminal]

theorem onClose_keep (d : Cfg) : (onClose d).st = d.st ∧ (onClose d).trace = d.trace := by
  unfold onClose; split <;> exact ⟨rfl, rfl⟩

theorem onTerminated_keep (d : Cfg) : (onTerminated d).st = d.st ∧ (onTerminated d).trace = d.trace := by
  unfold onTerminated
  have h1 := onClose_keep (releasePause d)
  have h2 := releasePause_keep d
  exact ⟨h1.1.trans h2.1, h1.2.trans h2.2⟩

theorem forceExcepted_keep (c : Cfg) (e : Exc) :
    (forceExcepted c e).trace = c.trace ∧ terminal (forceExcepted c e).st.label = true := by
  unfold forceExcepted
  split
  · exact ⟨rfl, by simp [SObj.label, terminal, allowed]⟩
  · have hk := enteredHooks_keep (setState (setFutExc c e) (.excepted e)) (.excepted e)
    have hterm : terminal (enteredHooks (setState (setFutExc c e) (.excepted e)) (.excepted e)).st.label = true := by
      rw [hk.1]; simp [setState, SObj.label, terminal, allowed]
    -- onTerminated keeps st and trace
    have hot := onTerminated_keep
    refine ⟨?_, by rw [(hot _).1]; exact hterm⟩
    rw [(hot _).2, hk.2.1]
    simp [setState, (setFutExc_sameP c e).2.1]

/-- what a transition may do to the pause bookkeeping -/
theorem transitionTo_keep (c : Cfg) (s : SObj) :
    (transitionTo c s).trace = c.trace ∧
    (terminal (transitionTo c s).st.label = true ∨
      (terminal c.st.label = false ∧ (transitionTo c s).paused = c.paused ∧ (transitionTo c s).pfs = c.pfs)) := by
  have hot := onTerminated_keep
  unfold transitionTo
  split
  · rename_i hin
    have hlive := live_of_allowed hin
    have hex := exitState_sameP c
    dsimp only
    split
    · exact ⟨hex.2.1, Or.inr ⟨hlive, hex.2.2.1, hex.2.2.2⟩⟩
    · split
      · rename_i e _
        have := forceExcepted_keep (exitState c) e
        exact ⟨this.1.trans hex.2.1, Or.inl this.2⟩
      · rename_i c2 hok
        have h2 : SameP c c2 := SameP.trans hex (enteringHooks_sameP _ _ _ hok)
        have h3 : SameP c (enterState c2 s) := SameP.trans h2 (enterState_sameP _ _)
        have hk := enteredHooks_keep (setState (enterState c2 s) s) s
        unfold enterNext
        dsimp only
        split
        · rename_i ht
          refine ⟨?_, Or.inl ?_⟩
          · rw [(hot _).2, hk.2.1]; simp [setState, h3.2.1]
          · rw [(hot _).1, hk.1]; simpa [setState] using ht
        · refine ⟨?_, Or.inr ⟨hlive, ?_, ?_⟩⟩
          · rw [hk.2.1]; simp [setState, h3.2.1]
          · rw [hk.2.2.1]; simp [setState, h3.2.2.1]
          · rw [hk.2.2.2]; simp [setState, h3.2.2.2]
  · have := forceExcepted_keep c (.noTransition c.st.label s.label)
    exact ⟨this.1, Or.inl this.2⟩

theorem transitionTo_invP (c : Cfg) (s : SObj) (h : InvP c) : InvP (transitionTo c s) := by
  have hk := transitionTo_keep c s
  refine ⟨by rw [hk.1]; exact h.traceOk, ?_⟩
  intro hl pf hp
  rcases hk.2 with ht | ⟨hcl, hpa, hpf⟩
  · simp [hl] at ht
  · rw [hpf]; exact h.pausedPending hcl pf (by rw [← hpa]; exact hp)

/-- pausing installs a fresh, pending pause future -/
theorem doPauseHooks_invP (c : Cfg) (h : InvP c) : InvP (doPauseHooks c) := by
  refine ⟨h.traceOk, ?_⟩
  intro _ pf hp
  simp [doPauseHooks] at hp
  subst hp
  simp [doPauseHooks]

theorem runAction_invP (c : Cfg) (i : Nat) (next : Option SObj) (h : InvP c) : InvP (runAction c i next) := by
  unfold runAction
  split
  · exact h
  · split
    · exact h.same ⟨rfl, rfl, rfl, rfl⟩
    · split
      · cases next with
        | none => exact (doPauseHooks_invP _ h).same (setActionStatus_sameP ..)
        | some s => exact (doPauseHooks_invP _ (transitionTo_invP c s h)).same (setActionStatus_sameP ..)
      · exact ((transitionTo_invP c .killed h).same ⟨rfl, rfl, rfl, rfl⟩).same (setActionStatus_sameP ..)

theorem prepare_sameP (c : Cfg) (r : StepEnd) : SameP c (prepare c r).1 := by
  unfold prepare
  split
  · exact setInterrupt_sameP ..
  · exact SameP.rfl' c
  · split
    · exact SameP.rfl' c
    · exact setInterruptFromExc_sameP ..
  · exact setInterrupt_sameP ..

theorem dispatch_invP (c : Cfg) (next : Option SObj) (h : InvP c) : InvP (dispatch c next) := by
  unfold dispatch
  split
  · exact h
  · split
    · split
      · exact runAction_invP c _ next h
      · cases next with
        | none => exact h
        | some s => exact transitionTo_invP c s h
    · cases next with
      | none => exact h
      | some s => exact transitionTo_invP c s h

theorem finally_sameP (c : Cfg) : SameP c (finally_ c) :=
  SameP.trans (⟨rfl, rfl, rfl, rfl⟩ : SameP c { c with stepping := false }) (setInterrupt_sameP _ _)

theorem endOfStep_invP (c : Cfg) (r : StepEnd) (h : InvP c) : InvP (endOfStep c r) := by
  unfold endOfStep
  exact (dispatch_invP _ _ (h.same (prepare_sameP c r))).same (finally_sameP _)

theorem cmdToState_sameP (c : Cfg) (cmd : Cmd) : SameP c (cmdToState c cmd).1 := by
  unfold cmdToState; split <;> exact ⟨rfl, rfl, rfl, rfl⟩

theorem finishUser_invP (c : Cfg) (o : Outcome) (h : InvP c) : InvP (finishUser c o) := by
  unfold finishUser
  split
  · exact endOfStep_invP _ _ (h.same (cmdToState_sameP ..))
  · exact endOfStep_invP _ _ h

theorem wake_invP (c : Cfg) (fn wf : Nat) (w : WF) (h : InvP c) : InvP (wake c fn wf w) := by
  unfold wake
  split
  · exact endOfStep_invP _ _ h
  · apply endOfStep_invP
    split
    · rename_i f wf' wakeup aw hst
      split
      · exact h.same ⟨by simp [hst, SObj.label], rfl, rfl, rfl⟩
      · exact h
    · exact h
  · exact endOfStep_invP _ _ h
  · exact h

end PMF

namespace PMF

/-- the step body may only start a user activation when not paused: this is where repair F matters -/
theorem stepBodyK_invP (P : Prog) (k : Cfg → Cfg) (hk : ∀ d, InvP d → InvP (k d)) (c : Cfg) (h : InvP c)
    (hnp : terminal c.st.label = false → c.paused = none) : InvP (stepBodyK P k c) := by
  unfold stepBodyK
  have hs : InvP { c with stepping := true } := h.same ⟨rfl, rfl, rfl, rfl⟩
  dsimp only
  split
  · exact hk _ (endOfStep_invP _ _ hs)
  · rename_i fn args kw hst
    have hlive : terminal c.st.label = false := by
      have : c.st = .running fn args kw := hst
      rw [this]; simp [SObj.label, terminal, allowed]
    have hp : c.paused = none := hnp hlive
    have hs2 : InvP { { c with stepping := true } with
        trace := { fn := fn, args := args, kw := kw, paused := c.paused.isSome } :: c.trace } := by
      refine ⟨?_, h.pausedPending⟩
      intro a ha
      simp at ha
      rcases ha with rfl | ha
      · simp [hp]
      · exact h.traceOk a ha
    split
    · exact hk _ (finishUser_invP _ _ hs2)
    · exact hs2.same ⟨rfl, rfl, rfl, rfl⟩
  · split
    · exact hs.same ⟨rfl, rfl, rfl, rfl⟩
    · exact hk _ (wake_invP _ _ _ _ hs)
    · exact hs
  · exact hk _ (endOfStep_invP _ _ hs)

theorem loopHead_invP (P : Prog) : ∀ (fuel : Nat) (c : Cfg), InvP c → InvP (loopHead P fuel c) := by
  intro fuel
  induction fuel with
  | zero => intro c h; simpa [loopHead] using h
  | succ n ih =>
    intro c h
    unfold loopHead
    split
    · exact h
    · split
      · exact h.same ⟨rfl, rfl, rfl, rfl⟩
      · rename_i hnt
        have hl : terminal c.st.label = false := by simpa using hnt
        split
        · exact h.same ⟨rfl, rfl, rfl, rfl⟩
        · split
          · rename_i pf hpa
            split
            · exact h.same ⟨rfl, rfl, rfl, rfl⟩
            · rename_i hne
              exact absurd (h.pausedPending hl pf hpa) hne
          · rename_i hpa
            exact stepBodyK_invP P _ ih c h (fun _ => hpa)

theorem stepBody_invP (P : Prog) (fuel : Nat) (c : Cfg) (h : InvP c)
    (hnp : terminal c.st.label = false → c.paused = none) : InvP (stepBody P fuel c) :=
  stepBodyK_invP P _ (loopHead_invP P fuel) c h hnp

theorem tickStepper_invP (P : Prog) (c : Cfg) (h : InvP c) : InvP (tickStepper P c) := by
  unfold tickStepper
  split
  · exact loopHead_invP P _ c h
  · split
    · split
      · rename_i pf' hpa
        split
        · exact h.same ⟨rfl, rfl, rfl, rfl⟩
        · rename_i hne
          apply stepBody_invP P _ c h
          intro hl
          exact absurd (h.pausedPending hl pf' hpa) hne
      · rename_i hpa
        exact stepBody_invP P _ c h (fun _ => hpa)
    · exact h
  · split
    · exact loopHead_invP P _ _ (finishUser_invP _ _ h)
    · exact h.same ⟨rfl, rfl, rfl, rfl⟩
  · split
    · exact h
    · exact loopHead_invP P _ _ (wake_invP _ _ _ _ h)
    · exact h
  · exact h

theorem requestInterrupt_sameP (c : Cfg) (k) : SameP c (requestInterrupt c k) := by
  unfold requestInterrupt
  exact SameP.trans (SameP.trans (⟨rfl, rfl, rfl, rfl⟩ : SameP c { c with nextCookie := c.nextCookie + 1 })
    (setInterruptFromExc_sameP ..)) (interruptState_sameP ..)

theorem pause_invP (c : Cfg) (h : InvP c) : InvP (pause c).1 := by
  unfold pause
  split
  · exact h
  · split
    · exact h
    · split
      · exact h.same (hand_sameP ..)
      · split
        · exact h
        · split
          · dsimp only
            have hs : SameP c { requestInterrupt c .pause with pausing := (requestInterrupt c .pause).interrupt } :=
              SameP.trans (requestInterrupt_sameP c .pause) ⟨rfl, rfl, rfl, rfl⟩
            split
            · exact (h.same hs).same (hand_sameP ..)
            · exact h.same hs
          · exact doPauseHooks_invP c h

theorem play_invP (c : Cfg) (h : InvP c) : InvP (play c).1 := by
  unfold play
  split
  · split
    · exact (h.same (cancelAction_sameP ..)).same ⟨rfl, rfl, rfl, rfl⟩
    · exact h
  · dsimp only
    refine ⟨?_, by intro _ pf hp; simp at hp⟩
    split <;> exact h.traceOk

theorem kill_invP (c : Cfg) (h : InvP c) : InvP (kill c).1 := by
  unfold kill
  split
  · exact h
  · split
    · exact h
    · split
      · exact h.same (hand_sameP ..)
      · split
        · dsimp only
          have hs : SameP c { requestInterrupt c .kill with killing := (requestInterrupt c .kill).interrupt } :=
            SameP.trans (requestInterrupt_sameP c .kill) ⟨rfl, rfl, rfl, rfl⟩
          split
          · exact (h.same hs).same (hand_sameP ..)
          · exact h.same hs
        · exact transitionTo_invP c .killed h

theorem awaitableDone_invP (c : Cfg) (f) (h : InvP c) : InvP (awaitableDone c f) := by
  unfold awaitableDone
  have hold : ∀ d : Cfg, InvP d → InvP (match d.efKeys.find? (·.1 = f), d.efs[f]? with
      | some (_, key), some (EFut.result v) => { d with ctx := (key, v) :: d.ctx.filter (·.1 ≠ key) }
      | _, _ => d) := by
    intro d hd; split
    · exact hd.same ⟨rfl, rfl, rfl, rfl⟩
    · exact hd
  dsimp only
  split
  · rename_i fn wf wakeup aw hst
    split
    · exact hold c h
    · have h1 : InvP { c with st := .waiting fn wf wakeup (aw.filter (·.1 ≠ f)) } :=
        h.same ⟨by simp [hst, SObj.label], rfl, rfl, rfl⟩
      split
      · split
        · exact (h1.same ⟨rfl, rfl, rfl, rfl⟩).same (deliver_sameP ..)
        · exact h1.same ⟨rfl, rfl, rfl, rfl⟩
      · exact h1.same (deliver_sameP ..)
      · exact h1
  · exact hold c h

theorem fail_invP (c : Cfg) (e : Exc) (h : InvP c) : InvP (fail c e).1 := by
  unfold fail; split
  · exact h
  · exact transitionTo_invP c _ h

theorem step_invP (P : Prog) (c : Cfg) (ev : Ev) (h : InvP c) : InvP (step P c ev).1 := by
  cases ev <;> simp only [step]
  · exact tickStepper_invP P c h
  · unfold tickCb; split
    · have h1 : InvP { c with ready := c.ready.erase ‹Cb› } := h.same ⟨rfl, rfl, rfl, rfl⟩
      split
      · exact awaitableDone_invP _ _ h1
      · exact (kill_invP _ h1).same ⟨rfl, rfl, rfl, rfl⟩
      · split
        · exact fail_invP _ _ h1
        · exact h1
    · exact h
  · exact pause_invP c h
  · exact play_invP c h
  · exact kill_invP c h
  · unfold resume; split
    · exact h.same (deliver_sameP ..)
    · exact h
  · unfold fail; split
    · exact h
    · exact transitionTo_invP c _ h
  · unfold cancelFut; split
    · exact h.same ⟨rfl, rfl, rfl, rfl⟩
    · exact h
  · unfold complete; split
    · dsimp only; split <;> exact h.same ⟨rfl, rfl, rfl, rfl⟩
    · exact h
  · exact h.same ⟨rfl, rfl, rfl, rfl⟩

/-- **C05 (model level), core clause**: for every user program and every history of ticks, scheduled callbacks
and pause / play / kill / resume / fail / cancel / complete requests, no step function or continuation is ever
started while the process reports paused. -/
theorem C05_no_user_code_while_paused (P : Prog) (nf : Nat) (evs : List Ev) :
    ∀ a ∈ (run P (init nf) evs).trace, a.paused = false := by
  have : ∀ (c0 : Cfg), InvP c0 → InvP (run P c0 evs) := by
    induction evs with
    | nil => intro c0 h; exact h
    | cons e es ih => intro c0 h; exact ih _ (step_invP P c0 e h)
  exact (this _ (invP_init nf)).traceOk

end PMF

