import PlumpyModel.PM.LProof4
/-!
# `PMF.L` — a request made during the closing part of a step interrupts nothing

Once `execute` has returned (`_executing = False`) a `pause()` / `kill()` only fills the interrupt-action slot; no wait future —
in particular not the one of the state the step is entering — receives an interruption (F24, F26).
-/
namespace PMF
namespace L

/-- no wait future of `c'` carries an interruption that it did not carry in `c` -/
def NoInt (c c' : Cfg) : Prop := ∀ (i k : Nat), c'.wfs[i]? = some (WF.interrupted k) → c.wfs[i]? = some (WF.interrupted k)

theorem NoInt.of_eq {c c' : Cfg} (h : c'.wfs = c.wfs) : NoInt c c' := fun i k hi => by rw [← h]; exact hi
theorem NoInt.trans {a b c : Cfg} (h1 : NoInt a b) (h2 : NoInt b c) : NoInt a c := fun i k hi => h1 i k (h2 i k hi)

theorem exitState_noInt (c : Cfg) : NoInt c (exitState c) := by
  unfold exitState; split
  · rename_i fn wf wk aw hst
    split
    · rename_i hp
      dsimp only
      intro i k hi
      dsimp only at hi
      by_cases hiw : wf = i
      · subst hiw
        have hlt : wf < c.wfs.length := (List.getElem?_eq_some_iff.mp hp).1
        simp [setAt, hlt] at hi
      · simpa [setAt, List.getElem?_set, hiw] using hi
    · exact NoInt.of_eq rfl
  · exact NoInt.of_eq rfl

theorem setActionStatus_wfs (c : Cfg) (i s) : (setActionStatus c i s).wfs = c.wfs := by
  unfold setActionStatus; split <;> rfl
theorem cancelAction_wfs (c : Cfg) (i) : (cancelAction c i).wfs = c.wfs := by
  unfold cancelAction; split
  · exact setActionStatus_wfs ..
  · rfl
theorem setInterruptFromExc_wfs (c : Cfg) (k n) : (setInterruptFromExc c k n).wfs = c.wfs := by
  unfold setInterruptFromExc cancelInterrupt
  split
  · exact cancelAction_wfs ..
  · rfl
theorem setInterrupt_wfs (c : Cfg) (n) : (setInterrupt c n).wfs = c.wfs := by
  unfold setInterrupt
  split
  · exact cancelAction_wfs ..
  · rfl
theorem hand_wfs (c : Cfg) (i) : (hand c i).wfs = c.wfs := by
  unfold hand; split <;> rfl
theorem play_wfs (c : Cfg) : (play c).1.wfs = c.wfs := by
  unfold play
  split
  · split
    · exact cancelAction_wfs ..
    · rfl
  · dsimp only; split <;> rfl

/-- while the state is not being executed nothing is interrupted -/
def NI (l l' : LCfg) : Prop := l.executing = false → l'.executing = false ∧ NoInt l.c l'.c

theorem NI.rfl' (l : LCfg) : NI l l := fun h => ⟨h, NoInt.of_eq rfl⟩
theorem NI.trans {a b c : LCfg} (h1 : NI a b) (h2 : NI b c) : NI a c := fun h =>
  ⟨(h2 (h1 h).1).1, (h1 h).2.trans (h2 (h1 h).1).2⟩
theorem NI.upd (l : LCfg) (f : Cfg → Cfg) (h : NoInt l.c (f l.c)) : NI l (l.upd f) := fun he => ⟨he, h⟩
theorem NI.updw (l : LCfg) (f : Cfg → Cfg) (h : (f l.c).wfs = l.c.wfs) : NI l (l.upd f) := fun he => ⟨he, NoInt.of_eq h⟩
theorem NI.same (l l' : LCfg) (h1 : l'.executing = l.executing) (h2 : l'.c.wfs = l.c.wfs) : NI l l' :=
  fun he => ⟨by rw [h1]; exact he, NoInt.of_eq h2⟩

def FNI (F : Hook → LCfg → LCfg) : Prop := ∀ h l, NI l (F h l)

section
variable {F : Hook → LCfg → LCfg}

theorem ni_onTerminated (l : LCfg) : NI l (l.upd onTerminated) := by
  obtain ⟨p, cl, n, h⟩ := onTerminated_shape l.c
  exact NI.updw l _ (by rw [h])
theorem ni_enteredHooks (l : LCfg) (s : SObj) : NI l (l.upd (fun c => enteredHooks c s)) := by
  obtain ⟨n, h⟩ := enteredHooks_shape l.c s
  exact NI.updw l _ (by simp only [h])
theorem ni_setFutExc (l : LCfg) (e : Exc) : NI l (l.upd (fun c => setFutExc c e)) := by
  obtain ⟨f, b, h⟩ := setFutExc_shape l.c e
  exact NI.updw l _ (by simp only [h])
theorem ni_enter (l : LCfg) (s : SObj) : NI l (l.upd (fun c => setState (enterState c s) s)) := by
  obtain ⟨k, e, r, h⟩ := enterState_shape l.c s
  exact NI.updw l _ (by simp only [h, setState])

theorem enteredHooksL_ni (hF : FNI F) (l : LCfg) (s : SObj) : NI l (enteredHooksL F l s) := by
  unfold enteredHooksL; dsimp only
  split
  · exact (ni_enteredHooks l s).trans (hF _ _)
  · exact ni_enteredHooks l s

theorem forceExceptedL_ni (hF : FNI F) (l : LCfg) (e : Exc) : NI l (forceExceptedL F l e) := by
  unfold forceExceptedL
  split
  · exact NI.same _ _ rfl rfl
  · dsimp only
    have h1 : NI l ({ l with trans := some .excepted }.upd (fun c => setFutExc c e)) :=
      NI.trans (NI.same _ _ rfl rfl : NI l { l with trans := some .excepted }) (ni_setFutExc _ e)
    have h2 := h1.trans (hF .entering _)
    have h3 := h2.trans (NI.same _ ((F .entering _).upd (fun c => setState c (.excepted e))) rfl rfl)
    exact (h3.trans (enteredHooksL_ni hF _ _)).trans (ni_onTerminated _)

theorem enterNextL_ni (hF : FNI F) (l : LCfg) (s : SObj) : NI l (enterNextL F l s) := by
  unfold enterNextL; dsimp only
  have h1 : NI l (enteredHooksL F (l.upd (fun c => setState (enterState c s) s)) s) :=
    (ni_enter l s).trans (enteredHooksL_ni hF _ _)
  split
  · exact h1.trans (ni_onTerminated _)
  · exact h1

theorem exitPhaseL_ni (hF : FNI F) (l : LCfg) (s : SObj) : NI l (exitPhaseL F l s) := by
  unfold exitPhaseL; dsimp only
  have h1 : NI l ((F .exiting l).upd exitState) := (hF _ _).trans (NI.upd _ _ (exitState_noInt _))
  split
  · exact h1.trans ((hF _ _).trans (NI.upd _ _ (exitState_noInt _)))
  · exact h1

theorem transitionToL_ni (hF : FNI F) (l : LCfg) (s : SObj) : NI l (transitionToL F l s) := by
  have h0 : NI l { l with trans := some s.label } := NI.same _ _ rfl rfl
  have hfin : ∀ d : LCfg, NI l d → NI l { d with trans := none } := fun d hd => hd.trans (NI.same _ _ rfl rfl)
  unfold transitionToL; dsimp only
  apply hfin
  split
  · split
    · refine h0.trans (NI.upd _ _ ?_)
      exact (exitState_noInt l.c).trans (NoInt.of_eq rfl)
    · have h1 := h0.trans (exitPhaseL_ni hF { l with trans := some s.label } s)
      split
      · exact h1.trans (forceExceptedL_ni hF _ _)
      · rename_i c2 hok
        obtain ⟨f, b, h⟩ := enteringHooks_shape _ _ _ hok
        refine NI.trans (h1.trans ?_) (enterNextL_ni hF _ _)
        refine NI.trans ?_ (hF _ _)
        exact NI.same _ _ rfl (by simp only [h])
  · exact h0.trans (forceExceptedL_ni hF _ _)

theorem doPauseL_ni (hF : FNI F) (l : LCfg) : NI l (doPauseL F l) := by
  unfold doPauseL; dsimp only
  refine NI.trans (NI.trans ?_ (hF _ _)) (NI.same _ _ rfl rfl)
  exact NI.same _ _ rfl rfl

theorem requestL_wfs (l : LCfg) (k : AKind) (he : l.executing = false) : (requestL l k).wfs = l.c.wfs := by
  unfold requestL
  simp only [he, Bool.false_and, Bool.false_eq_true, if_false]
  exact setInterruptFromExc_wfs ..

theorem pauseL_ni (hF : FNI F) (l : LCfg) : NI l (pauseL F l).1 := by
  unfold pauseL; dsimp only
  split
  · exact NI.rfl' l
  · split
    · exact NI.rfl' l
    · split
      · exact NI.updw l _ (hand_wfs ..)
      · split
        · exact NI.rfl' l
        · split
          · intro he
            have hw := requestL_wfs l .pause he
            split
            · exact ⟨he, NoInt.of_eq (by rw [hand_wfs]; exact hw)⟩
            · exact ⟨he, NoInt.of_eq hw⟩
          · exact doPauseL_ni hF l

theorem playL_ni (hF : FNI F) (l : LCfg) : NI l (playL F l).1 := by
  unfold playL
  split
  · exact NI.updw l _ (play_wfs _)
  · exact (NI.updw l _ (play_wfs _)).trans (hF _ _)

theorem killL_ni (hF : FNI F) (l : LCfg) : NI l (killL F l).1 := by
  unfold killL; dsimp only
  split
  · exact NI.rfl' l
  · split
    · exact NI.rfl' l
    · split
      · exact NI.updw l _ (hand_wfs ..)
      · split
        · intro he
          have hw := requestL_wfs l .kill he
          split
          · exact ⟨he, NoInt.of_eq (by rw [hand_wfs]; exact hw)⟩
          · exact ⟨he, NoInt.of_eq hw⟩
        · exact transitionToL_ni hF l _

theorem reqK_ni (hF : FNI F) (r : Req) (l : LCfg) : NI l (reqK F r l) := by
  cases r
  · exact pauseL_ni hF l
  · exact playL_ni hF l
  · exact killL_ni hF l
end

theorem fireK_ni {R : Req → LCfg → LCfg} (hR : ∀ r l, NI l (R r l)) (h : Hook) (l : LCfg) : NI l (fireK R h l) := by
  rcases fireK_cases R h l with h1 | ⟨e, _, h1⟩
  · rw [h1]; exact NI.same _ _ rfl rfl
  · rw [h1]
    refine NI.trans ?_ (hR _ _)
    exact NI.same _ _ rfl rfl

theorem fireN_ni : ∀ n, FNI (fireN n)
  | 0 => fun _ _ => NI.same _ _ rfl rfl
  | n+1 => fun h l => by
      unfold fireN
      exact fireK_ni (fun r l => reqK_ni (fireN_ni n) r l) h l

section
variable {F : Hook → LCfg → LCfg}

theorem runActionL_ni (hF : FNI F) (l : LCfg) (i : Nat) (next : Option SObj) : NI l (runActionL F l i next) := by
  unfold runActionL
  split
  · exact NI.rfl' l
  · split
    · exact NI.same _ _ rfl rfl
    · have hbody : ∀ body : LCfg, NI l body →
          NI l (if actionStatus body.c i = .pending then body.upd (fun c => setActionStatus c i .done) else body) := by
        intro body hb
        split
        · exact hb.trans (NI.updw _ _ (setActionStatus_wfs ..))
        · exact hb
      apply hbody
      split
      · split
        · dsimp only
          split
          · exact transitionToL_ni hF _ _
          · exact (transitionToL_ni hF _ _).trans (doPauseL_ni hF _)
        · exact doPauseL_ni hF _
      · exact (transitionToL_ni hF _ _).trans (NI.same _ _ rfl rfl)

theorem enactLoop_ni (hF : FNI F) : ∀ (n : Nat) (l : LCfg), NI l (enactLoop F n l)
  | 0, l => NI.rfl' l
  | n+1, l => by
    unfold enactLoop
    split
    · split
      · exact (runActionL_ni hF l _ none).trans (enactLoop_ni hF n _)
      · exact NI.rfl' l
    · exact NI.rfl' l

theorem dispatchL_ni (hF : FNI F) (l : LCfg) (next : Option SObj) : NI l (dispatchL F l next) := by
  unfold dispatchL
  split
  · exact NI.rfl' l
  · dsimp only
    refine NI.trans ?_ (enactLoop_ni hF _ _)
    unfold dispatch1L
    split
    · split
      · exact runActionL_ni hF _ _ _
      · split
        · exact transitionToL_ni hF _ _
        · exact NI.rfl' l
    · split
      · exact transitionToL_ni hF _ _
      · exact NI.rfl' l

theorem prepare_wfs (c : Cfg) (r : StepEnd) : (prepare c r).1.wfs = c.wfs := by
  unfold prepare
  split
  · exact setInterrupt_wfs ..
  · rfl
  · split
    · rfl
    · exact setInterruptFromExc_wfs ..
  · exact setInterrupt_wfs ..

/-- **the closing part of a step interrupts no wait future**: whatever the step produced and whatever listeners and state-event
callbacks request while it is being closed, every interruption found on a wait future afterwards was there before. -/
theorem endOfStepL_noInt (hF : FNI F) (l : LCfg) (r : StepEnd) : NoInt l.c (endOfStepL F l r).c := by
  unfold endOfStepL; dsimp only
  have h1 := dispatchL_ni hF { l with executing := false, c := (prepare l.c r).1 } (prepare l.c r).2 rfl
  have h2 : NoInt l.c (prepare l.c r).1 := NoInt.of_eq (prepare_wfs ..)
  refine NoInt.trans (h2.trans h1.2) (NoInt.of_eq ?_)
  show (finally_ _).wfs = _
  unfold finally_
  exact setInterrupt_wfs ..
end

end L
end PMF
