import PlumpyModel.PM.LProof16
/-!
# `PMF.L` — progress with listeners, part 2: the linking invariant `InvS` through transitions and requests, in every context

`InvS` (PM/Proof10.lean) links the stepping coroutine to the state object: a task blocked on a waiting future holds the one the
current WAITING state owns or a completed one, a task blocked on a pause future holds the current one or a released one, and on a
terminated process the current pause future is released.  Here: every transition and every request a listener / state-event
callback can issue — made inside a transition, inside the enactment of another request, during or between steps — preserves it.
The lifecycle invariant `Inv` (LProof10) is carried along for "a live process is not closed".

The key intermediate notion is `Exited`: after the exit phase the wait of the state being left is completed (repair J); it is
kept by everything that may run before the new state object is assigned (entering callbacks, their deferred requests).
-/
namespace PMF

/-- the state object's own wait (if it is a WAITING state) is completed -/
def Exited (c : Cfg) : Prop := ∀ fn wf wk aw, c.st = .waiting fn wf wk aw → c.wfs[wf]? ≠ some .pending

theorem exitState_exited (c : Cfg) (hwv : WV c) : Exited (exitState c) := by
  intro fn wf wk aw hst
  rw [exitState_st] at hst
  obtain ⟨w, hw, hne⟩ := exitState_completes_wait c fn wf wk aw hst
    (by rw [List.getElem?_eq_getElem (hwv fn wf wk aw hst)]; rfl)
  rw [hw]; intro h; exact hne (Option.some.inj h)

theorem Exited.mono {c c' : Cfg} (h : Exited c) (hst : c'.st = c.st) (hm : MonoW c.wfs c'.wfs) (hwv : WV c) : Exited c' := by
  intro fn wf wk aw hs
  rw [hst] at hs
  exact hm.nonpending (hwv fn wf wk aw hs) (h fn wf wk aw hs)

theorem exited_of_not_waiting {c : Cfg} (h : ∀ fn wf wk aw, c.st ≠ .waiting fn wf wk aw) : Exited c :=
  fun fn wf wk aw hs => absurd hs (h fn wf wk aw)

/-- entering the next state after the exit phase: the coroutine invariant holds for the new state object -/
theorem enterNext_invS (c : Cfg) (s : SObj) (h : InvS c) (hex : Exited c) (hs : TargetOk c s) : InvS (enterNext c s) := by
  have r := enterNext_tr c s
  refine ⟨?_, ?_, ?_, h.pv.tr r, ?_, fun _ _ => enterNext_relT c s h.pv⟩
  · intro e; rw [r.pc]; exact h.nocrash e
  · intro wf hp; rw [r.pc] at hp
    obtain ⟨hlt, hw⟩ := h.aw wf hp
    refine ⟨Nat.lt_of_lt_of_le hlt r.wfs.1, Or.inr (r.wfs.nonpending hlt ?_)⟩
    rcases hw with ⟨fn, wk, aw, hst⟩ | hn
    · exact hex fn wf wk aw hst
    · exact hn
  · intro pf hp; rw [r.pc] at hp
    obtain ⟨h1, h2⟩ := h.ap pf hp
    refine ⟨Nat.lt_of_lt_of_le h1 r.pfs.1, ?_⟩
    rcases h2 with h2 | h2
    · exact Or.inl (by rw [r.paused]; exact h2)
    · exact Or.inr (r.pfs.2 pf h2)
  · intro fn wf wk aw hst
    rw [enterNext_st] at hst
    exact Nat.lt_of_lt_of_le (hs.2 fn wf wk aw hst) r.wfs.1

theorem enterNext_excepted (c : Cfg) (e : Exc) :
    enterNext c (.excepted e) = onTerminated (enteredHooks (setState c (.excepted e)) (.excepted e)) := by
  simp [enterNext, enterState, SObj.label, terminal, allowed]

theorem enterNext_live (c : Cfg) (s : SObj) (ht : terminal s.label = false) :
    enterNext c s = enteredHooks (setState (enterState c s) s) s := by
  unfold enterNext; simp only [ht]; rfl

theorem TargetOk.mono {c c' : Cfg} {s : SObj} (h : TargetOk c s) (hm : MonoW c.wfs c'.wfs) : TargetOk c' s :=
  ⟨h.1, fun fn wf wk aw hs => Nat.lt_of_lt_of_le (h.2 fn wf wk aw hs) hm.1⟩

/-- `play()` on a paused process: the pause future is released and forgotten -/
theorem invS_unpause {c d : Cfg} (h : InvS c) (pf : Nat) (hpa : c.paused = some pf) (h1 : d.pc = c.pc) (h2 : d.st = c.st)
    (h3 : d.wfs = c.wfs) (h7 : d.paused = none) (h8 : MonoP c.pfs d.pfs) (h9 : d.pfs[pf]? = some true) : InvS d := by
  refine ⟨?_, ?_, ?_, ?_, ?_, ?_⟩
  · intro e; rw [h1]; exact h.nocrash e
  · intro wf hp; rw [h1] at hp; unfold WOk; rw [h2, h3]; exact h.aw wf hp
  · intro p hp; rw [h1] at hp
    obtain ⟨a, b⟩ := h.ap p hp
    refine ⟨Nat.lt_of_lt_of_le a h8.1, Or.inr ?_⟩
    rcases b with b | b
    · rw [hpa] at b; cases b; exact h9
    · exact h8.2 p b
  · intro p hp; rw [h7] at hp; cases hp
  · unfold WV; rw [h2, h3]; exact h.wv
  · intro p _ _ p' hp'; rw [h7] at hp'; cases hp'

theorem play_invS (c : Cfg) (h : InvS c) : InvS (play c).1 := by
  unfold play
  split
  · split
    · rename_i i _
      have a : AR c { cancelAction c i with pausing := none } :=
        AR.trans (cancelAction_ar c i) ⟨rfl, rfl, rfl, rfl, rfl, rfl, rfl⟩
      exact h.ar a
    · exact h
  · rename_i pf hpa
    dsimp only
    have hlt := h.pv pf hpa
    split
    · exact invS_unpause h pf hpa rfl rfl rfl rfl (MonoP.set_true _ _) (by simp [setAt, hlt])
    · rename_i hnf
      have h9 : c.pfs[pf]? = some true := by
        rw [List.getElem?_eq_getElem hlt] at hnf ⊢
        cases hb : c.pfs[pf] with
        | true => rfl
        | false => rw [hb] at hnf; exact absurd rfl hnf
      exact invS_unpause h pf hpa rfl rfl rfl rfl (MonoP.rfl' _) h9

namespace L

/-- a deferred request leaves the coroutine invariant alone (whether or not the state is interrupted) -/
theorem requestL_invS (l : LCfg) (k : AKind) (h : InvS l.c) : InvS (requestL l k) := by
  have h0 : InvS { l.c with nextCookie := l.c.nextCookie + 1 } := ⟨h.nocrash, h.aw, h.ap, h.pv, h.wv, h.tp⟩
  have a := setInterruptFromExc_ar { l.c with nextCookie := l.c.nextCookie + 1 } k l.c.nextCookie
  unfold requestL; split
  · unfold requestInterrupt
    exact (h0.ar a).tr (interruptState_tr _ _) (Or.inl (interruptState_st _ _))
  · exact h0.ar a

/-- what the proofs need of a notification function: the lifecycle invariant and the frame of LProof10, the frame `QQ`, and the
coroutine invariant — in EVERY context (no hypothesis on `_stepping`) -/
structure FJ (F : Hook → LCfg → LCfg) : Prop where
  g1 : FG1 F
  q : FQ F
  inv : ∀ h l, InvS l.c → Inv l.c → InvS (F h l).c

section
variable {F : Hook → LCfg → LCfg}

theorem enteredHooksL_invS (hF : FJ F) (l : LCfg) (s : SObj) (h : InvS l.c) (hi : Inv l.c) : InvS (enteredHooksL F l s).c := by
  unfold enteredHooksL; dsimp only
  have h1 : InvS (l.upd (fun c => enteredHooks c s)).c := h.tr (enteredHooks_tr _ _) (Or.inl (enteredHooks_st _ _))
  split
  · exact hF.inv _ _ h1 (hi.same (enteredHooks_same _ _))
  · exact h1

/-- a phase notification (exiting / entering): state object and closedness are untouched, the heaps only grow -/
theorem phase_step (hF : FJ F) (hk : Hook) (hph : hookPhase hk = true) (l : LCfg) (h : InvS l.c) (hi : Inv l.c)
    (hex : Exited l.c) :
    InvS (F hk l).c ∧ Inv (F hk l).c ∧ Exited (F hk l).c ∧ (F hk l).c.st = l.c.st := by
  have k := hF.g1.phase hk l hph
  exact ⟨hF.inv _ _ h hi, hi.same k.same, hex.mono k.c.st (hF.q hk l).wfs h.wv, k.c.st⟩

theorem forceExceptedL_invS (hF : FJ F) (l : LCfg) (e : Exc) (h : InvS l.c) (hi : Inv l.c) (hex : Exited l.c)
    (hl : terminal l.c.st.label = false) : InvS (forceExceptedL F l e).c := by
  have hnc := not_closed_of_live hi hl
  unfold forceExceptedL
  simp only [hnc, Bool.false_eq_true, if_false]
  rw [enteredHooksL_nohook _ _ (by simp [SObj.label, terminal, allowed])]
  have hst1 := (ctl_setFutExc l.c e).2
  have r1 := setFutExc_tr l.c e
  have h1 : InvS ({ l with trans := some .excepted }.upd (fun c => setFutExc c e)).c := h.tr r1 (Or.inl hst1)
  have i1 : Inv ({ l with trans := some .excepted }.upd (fun c => setFutExc c e)).c := hi.same (setFutExc_same l.c e)
  have x1 : Exited ({ l with trans := some .excepted }.upd (fun c => setFutExc c e)).c := hex.mono hst1 r1.wfs h.wv
  obtain ⟨h2, _, x2, _⟩ := phase_step hF .entering rfl _ h1 i1 x1
  have := enterNext_invS _ (.excepted e) h2 x2 (targetOk_excepted _ e)
  rw [enterNext_excepted] at this
  exact this

theorem exitPhaseL_invS (hF : FJ F) (l : LCfg) (s : SObj) (h : InvS l.c) (hi : Inv l.c) :
    InvS (exitPhaseL F l s).c ∧ Exited (exitPhaseL F l s).c ∧ (exitPhaseL F l s).c.st = l.c.st := by
  -- one round: EXITING callbacks, then `do_exit()`
  have round : ∀ d : LCfg, InvS d.c → Inv d.c →
      InvS ((F .exiting d).upd exitState).c ∧ Inv ((F .exiting d).upd exitState).c ∧
      Exited ((F .exiting d).upd exitState).c ∧ ((F .exiting d).upd exitState).c.st = d.c.st := by
    intro d hd hid
    have k := hF.g1.phase .exiting d rfl
    have h1 : InvS (F .exiting d).c := hF.inv _ _ hd hid
    have i1 : Inv (F .exiting d).c := hid.same k.same
    exact ⟨h1.tr (exitState_tr _) (Or.inl (exitState_st _)), i1.same (exitState_same _), exitState_exited _ h1.wv,
      (exitState_st _).trans k.c.st⟩
  unfold exitPhaseL; dsimp only
  obtain ⟨a1, a2, a3, a4⟩ := round l h hi
  split
  · obtain ⟨b1, _, b3, b4⟩ := round _ a1 a2
    exact ⟨b1, b3, b4.trans a4⟩
  · exact ⟨a1, a3, a4⟩

theorem enterNextL_invS (hF : FJ F) (l : LCfg) (s : SObj) (h : InvS l.c) (hi : Inv l.c) (hex : Exited l.c)
    (hs : TargetOk l.c s) (hin : s.label ∈ allowed l.c.st.label) (hnc : l.c.closed = false) : InvS (enterNextL F l s).c := by
  have hold := enterNext_invS l.c s h hex hs
  by_cases ht : terminal s.label = true
  · have : (enterNextL F l s).c = enterNext l.c s := by
      unfold enterNextL enterNext; dsimp only
      rw [enteredHooksL_nohook _ _ ht]
      simp only [ht, if_true]; rfl
    rw [this]; exact hold
  · have htf : terminal s.label = false := by simpa using ht
    rw [enterNext_live l.c s htf] at hold
    have he := enterState_same l.c s
    have i1 : Inv (setState (enterState l.c s) s) :=
      setState_inv _ _ (hi.same he) (by rw [he.1]; exact hin) (by rw [he.2.2]; exact hnc)
    have i2 : Inv (enteredHooks (setState (enterState l.c s) s) s) := i1.same (enteredHooks_same _ s)
    unfold enterNextL enteredHooksL; dsimp only
    simp only [htf, Bool.false_eq_true, if_false]
    split
    · exact hF.inv _ _ hold i2
    · exact hold

/-- **a transition preserves the coroutine invariant whatever listeners and state-event callbacks request while it runs** -/
theorem transitionToL_invS (hF : FJ F) (l : LCfg) (s : SObj) (h : InvS l.c) (hi : Inv l.c)
    (hl : terminal l.c.st.label = false) (hs : TargetOk l.c s) : InvS (transitionToL F l s).c := by
  have hnc := not_closed_of_live hi hl
  unfold transitionToL; dsimp only
  split
  · rename_i hin
    simp only [hnc, Bool.false_eq_true, if_false]
    obtain ⟨h1, x1, st1⟩ := exitPhaseL_invS hF { l with trans := some s.label } s h hi
    have sm1 := exitPhaseL_same hF.g1 { l with trans := some s.label } s
    have q1 := exitPhaseL_qq hF.q { l with trans := some s.label } s
    have i1 : Inv (exitPhaseL F { l with trans := some s.label } s).c := hi.same sm1
    split
    · rename_i e _
      exact forceExceptedL_invS hF _ e h1 i1 x1 (by rw [sm1.1]; exact hl)
    · rename_i c2 hok
      have r2 := enteringHooks_tr _ c2 s hok
      have st2 : c2.st = (exitPhaseL F { l with trans := some s.label } s).c.st := (ctl_enteringHooks _ c2 s hok).2
      have h2 : InvS c2 := h1.tr r2 (Or.inl st2)
      have sm2 : Same l.c c2 := sm1.trans (enteringHooks_same _ _ _ hok)
      have x2 : Exited c2 := x1.mono st2 r2.wfs h1.wv
      obtain ⟨h3, i3, x3, st3⟩ := phase_step hF .entering rfl
        { exitPhaseL F { l with trans := some s.label } s with c := c2 } h2 (hi.same sm2) x2
      have sm3 : Same l.c (F .entering { exitPhaseL F { l with trans := some s.label } s with c := c2 }).c :=
        sm2.trans (hF.g1.phase .entering _ rfl).same
      have m3 : MonoW l.c.wfs (F .entering { exitPhaseL F { l with trans := some s.label } s with c := c2 }).c.wfs :=
        (MonoW.trans q1.wfs r2.wfs).trans
          (hF.q .entering { exitPhaseL F { l with trans := some s.label } s with c := c2 }).wfs
      exact enterNextL_invS hF _ s h3 i3 x3 (hs.mono m3) (by rw [sm3.1]; exact hin) (by rw [sm3.2.2]; exact hnc)
  · rename_i hin
    refine forceExceptedL_invS hF _ _ h hi (exited_of_not_waiting ?_) hl
    intro fn wf wk aw hst
    apply hin
    show s.label ∈ allowed l.c.st.label
    rw [hst]; exact allowed_of_waiting hs.1

/-- enacting a pause: a fresh, unreleased pause future becomes the current one.  Needs: the pause future the task was blocked on
(if any) is released (`Hq`), and the process is live if the task sits on a pause wait -/
theorem doPauseL_invS (hF : FJ F) (l : LCfg) (h : InvS l.c) (hi : Inv l.c) (hq : Hq l.c)
    (hl : ∀ pf, l.c.pc = .awaitPaused pf → terminal l.c.st.label = false) : InvS (doPauseL F l).c := by
  unfold doPauseL; dsimp only
  have h1 : InvS (l.upd doPauseHooks).c := doPauseHooks_invS l.c h hq hl
  have h2 : InvS (F .paused (l.upd doPauseHooks)).c := hF.inv _ _ h1 (hi.same (doPauseHooks_same l.c))
  exact ⟨h2.nocrash, h2.aw, h2.ap, h2.pv, h2.wv, h2.tp⟩

theorem pauseL_invS (hF : FJ F) (l : LCfg) (h : InvS l.c) (hi : Inv l.c) : InvS (pauseL F l).1.c := by
  unfold pauseL; dsimp only
  split
  · exact h
  · rename_i hnt
    split
    · exact h
    · rename_i hnp
      split
      · exact h.tr (hand_tr _ _) (Or.inl (hand_ctl _ _).2)
      · split
        · exact h
        · split
          · have h1 : InvS { requestL l .pause with pausing := (requestL l .pause).interrupt } := by
              have := requestL_invS l .pause h
              exact ⟨this.nocrash, this.aw, this.ap, this.pv, this.wv, this.tp⟩
            split
            · exact h1.tr (hand_tr _ _) (Or.inl (hand_ctl _ _).2)
            · exact h1
          · have hpa : l.c.paused = none := by
              cases hpa : l.c.paused with
              | none => rfl
              | some pf => simp [hpa] at hnp
            have hl : terminal l.c.st.label = false := by simpa using hnt
            have hq : Hq l.c := by
              intro pf hp
              rcases (h.ap pf hp).2 with h1 | h1
              · rw [hpa] at h1; cases h1
              · exact h1
            exact doPauseL_invS hF l h hi hq (fun _ _ => hl)

theorem playL_invS (hF : FJ F) (l : LCfg) (h : InvS l.c) (hi : Inv l.c) : InvS (playL F l).1.c := by
  unfold playL
  split
  · exact play_invS l.c h
  · exact hF.inv _ _ (play_invS l.c h) (play_inv l.c hi)

theorem killL_invS (hF : FJ F) (l : LCfg) (h : InvS l.c) (hi : Inv l.c) : InvS (killL F l).1.c := by
  unfold killL; dsimp only
  split
  · exact h
  · split
    · exact h
    · rename_i hnk hnt
      have hl : terminal l.c.st.label = false := by simpa using hnt
      split
      · exact h.tr (hand_tr _ _) (Or.inl (hand_ctl _ _).2)
      · split
        · have h1 : InvS { requestL l .kill with killing := (requestL l .kill).interrupt } := by
            have := requestL_invS l .kill h
            exact ⟨this.nocrash, this.aw, this.ap, this.pv, this.wv, this.tp⟩
          split
          · exact h1.tr (hand_tr _ _) (Or.inl (hand_ctl _ _).2)
          · exact h1
        · exact transitionToL_invS hF l .killed h hi hl (targetOk_killed _)

theorem failL_invS (hF : FJ F) (l : LCfg) (e : Exc) (h : InvS l.c) (hi : Inv l.c) : InvS (failL F l e).1.c := by
  unfold failL; split
  · exact h
  · rename_i hnt
    exact transitionToL_invS hF l _ h hi (by simpa using hnt) (targetOk_excepted _ _)

theorem reqK_invS (hF : FJ F) (r : Req) (l : LCfg) (h : InvS l.c) (hi : Inv l.c) : InvS (reqK F r l).c := by
  cases r
  · exact pauseL_invS hF l h hi
  · exact playL_invS hF l h hi
  · exact killL_invS hF l h hi
end

theorem fireK_invS {R : Req → LCfg → LCfg} (hR : ∀ r l, InvS l.c → Inv l.c → InvS (R r l).c) (h : Hook) (l : LCfg)
    (hs : InvS l.c) (hi : Inv l.c) : InvS (fireK R h l).c := by
  rcases fireK_cases R h l with h1 | ⟨e, _, h1⟩
  · rw [h1]; exact hs
  · rw [h1]; exact hR _ _ hs hi

theorem fireN_fj : ∀ n, FJ (fireN n)
  | 0 => ⟨fireN_g1 0, fireN_qq 0, fun _ _ h _ => h⟩
  | n+1 => ⟨fireN_g1 (n+1), fireN_qq (n+1), fun h l hs hi => by
      unfold fireN
      exact fireK_invS (fun r l hs hi => reqK_invS (fireN_fj n) r l hs hi) h l hs hi⟩

end L
end PMF
