import PlumpyModel.PM.LProof15
/-!
# `PMF.L` — progress with listeners, part 1: what no notification and no transition ever touches (`QQ`)

For every model function below the closing part of a step — hence for every request a listener or state-event callback can
issue, in every context — : the program counter of the stepping task and `_stepping` are untouched, the future heaps only grow
and only get completed (`MonoW`, `MonoP`), the interrupt-action slot is untouched unless a step is in progress, and the slot never
holds an action that already ran (`IA`).
-/
namespace PMF
namespace L

structure QC (c c' : Cfg) : Prop where
  pc : c'.pc = c.pc
  stepping : c'.stepping = c.stepping
  wfs : MonoW c.wfs c'.wfs
  pfs : MonoP c.pfs c'.pfs
  int : c.stepping = false → c'.interrupt = c.interrupt
  ia : IA c → IA c'

theorem QC.rfl' (c : Cfg) : QC c c := ⟨rfl, rfl, MonoW.rfl' _, MonoP.rfl' _, fun _ => rfl, fun h => h⟩
theorem QC.trans {a b c : Cfg} (h1 : QC a b) (h2 : QC b c) : QC a c :=
  ⟨h2.pc.trans h1.pc, h2.stepping.trans h1.stepping, h1.wfs.trans h2.wfs, h1.pfs.trans h2.pfs,
   fun hs => (h2.int (by rw [h1.stepping]; exact hs)).trans (h1.int hs), fun h => h2.ia (h1.ia h)⟩
theorem QC.of_tr {c c' : Cfg} (r : TR c c') : QC c c' :=
  ⟨r.pc, r.stepping, r.wfs, r.pfs, fun _ => r.interrupt, fun h => h.of_eq r.interrupt r.actions⟩

def QQ (l l' : LCfg) : Prop := QC l.c l'.c

theorem QQ.rfl' (l : LCfg) : QQ l l := QC.rfl' _
theorem QQ.trans {a b c : LCfg} (h1 : QQ a b) (h2 : QQ b c) : QQ a c := QC.trans h1 h2
/-- a `TR` step of the `Cfg` component -/
theorem QQ.of_tr {l l' : LCfg} (r : TR l.c l'.c) : QQ l l' := QC.of_tr r
theorem QQ.upd_tr (l : LCfg) (f : Cfg → Cfg) (r : TR l.c (f l.c)) : QQ l (l.upd f) := QC.of_tr r
/-- only bookkeeping of the oracle changed -/
theorem QQ.same {l l' : LCfg} (h : l'.c = l.c) : QQ l l' := by
  unfold QQ; rw [h]; exact QC.rfl' _

def FQ (F : Hook → LCfg → LCfg) : Prop := ∀ h l, QQ l (F h l)

theorem hand_tr (c : Cfg) (i : Nat) : TR c (hand c i) := by
  unfold hand; split
  · exact TR.rfl' c
  · exact TR.of_eq rfl rfl rfl rfl rfl rfl rfl

theorem doPauseHooks_qq (l : LCfg) : QQ l (l.upd doPauseHooks) :=
  ⟨rfl, rfl, MonoW.rfl' _, MonoP.append _ _, fun _ => rfl, fun h => h⟩

/-- `play()`: a retracted pause action is cancelled (never un-run), a pause future is released -/
theorem play_qc (c : Cfg) : QC c (play c).1 := by
  unfold play
  split
  · split
    · rename_i i _
      have a : AR c { cancelAction c i with pausing := none } :=
        AR.trans (cancelAction_ar c i) ⟨rfl, rfl, rfl, rfl, rfl, rfl, rfl⟩
      exact ⟨a.pc, a.stepping, MonoW.of_eq a.wfs, MonoP.of_eq a.pfs, fun _ => cancelAction_interrupt c i,
        fun h => (cancelAction_ia c i h).of_eq rfl rfl⟩
    · exact QC.rfl' c
  · dsimp only
    split
    · exact ⟨rfl, rfl, MonoW.rfl' _, MonoP.set_true _ _, fun _ => rfl, fun h => h⟩
    · exact ⟨rfl, rfl, MonoW.rfl' _, MonoP.rfl' _, fun _ => rfl, fun h => h⟩

theorem play_qq (l : LCfg) : QQ l (l.upd (fun c => (play c).1)) := play_qc l.c

/-- a deferred request (made while a step is in progress): a fresh pending action in the slot -/
theorem requestL_qq (l : LCfg) (k : AKind) (p q : Option Nat → Option Nat) (hs : l.c.stepping = true) :
    QQ l { l with c := { requestL l k with pausing := p (requestL l k).pausing, killing := q (requestL l k).killing } } := by
  have hint : ∀ x : Prop, l.c.stepping = false → x := fun _ h => by rw [hs] at h; cases h
  have base : ∀ d : Cfg, d = setInterruptFromExc { l.c with nextCookie := l.c.nextCookie + 1 } k l.c.nextCookie →
      d.pc = l.c.pc ∧ d.stepping = l.c.stepping ∧ d.wfs = l.c.wfs ∧ d.pfs = l.c.pfs ∧ IA d := by
    intro d hd; subst hd
    have a := setInterruptFromExc_ar { l.c with nextCookie := l.c.nextCookie + 1 } k l.c.nextCookie
    exact ⟨a.pc, a.stepping, a.wfs, a.pfs, setInterruptFromExc_ia _ _ _⟩
  obtain ⟨b1, b2, b3, b4, b5⟩ := base _ rfl
  unfold requestL
  split
  · unfold requestInterrupt
    have r := interruptState_tr (setInterruptFromExc { l.c with nextCookie := l.c.nextCookie + 1 } k l.c.nextCookie) l.c.nextCookie
    have rw' := r.wfs
    have rp' := r.pfs
    rw [b3] at rw'; rw [b4] at rp'
    exact ⟨r.pc.trans b1, r.stepping.trans b2, rw', rp', fun h => hint _ h, fun _ => b5.of_eq r.interrupt r.actions⟩
  · exact ⟨b1, b2, MonoW.of_eq b3, MonoP.of_eq b4, fun h => hint _ h, fun _ => b5.of_eq rfl rfl⟩

section
variable {F : Hook → LCfg → LCfg}

theorem enteredHooksL_qq (hF : FQ F) (l : LCfg) (s : SObj) : QQ l (enteredHooksL F l s) := by
  unfold enteredHooksL; dsimp only
  have h1 : QQ l (l.upd (fun c => enteredHooks c s)) := QQ.upd_tr l _ (enteredHooks_tr _ _)
  split
  · exact h1.trans (hF _ _)
  · exact h1

theorem forceExceptedL_qq (hF : FQ F) (l : LCfg) (e : Exc) : QQ l (forceExceptedL F l e) := by
  unfold forceExceptedL
  split
  · exact QQ.upd_tr l _ (TR.of_eq rfl rfl rfl rfl rfl rfl rfl)
  · dsimp only
    refine QQ.trans ?_ (QQ.upd_tr _ _ (onTerminated_tr _))
    refine QQ.trans ?_ (enteredHooksL_qq hF _ _)
    refine QQ.trans ?_ (QQ.upd_tr _ _ (setState_tr _ _))
    refine QQ.trans ?_ (hF _ _)
    exact QQ.trans (QQ.same rfl : QQ l { l with trans := some .excepted }) (QQ.upd_tr _ _ (setFutExc_tr _ e))

theorem enterNextL_qq (hF : FQ F) (l : LCfg) (s : SObj) : QQ l (enterNextL F l s) := by
  unfold enterNextL; dsimp only
  have h1 : QQ l (enteredHooksL F (l.upd (fun c => setState (enterState c s) s)) s) :=
    (QQ.upd_tr l _ (TR.trans (enterState_tr _ _) (setState_tr _ _))).trans (enteredHooksL_qq hF _ _)
  split
  · exact h1.trans (QQ.upd_tr _ _ (onTerminated_tr _))
  · exact h1

theorem exitPhaseL_qq (hF : FQ F) (l : LCfg) (s : SObj) : QQ l (exitPhaseL F l s) := by
  unfold exitPhaseL; dsimp only
  have h1 : QQ l ((F .exiting l).upd exitState) := (hF _ _).trans (QQ.upd_tr _ _ (exitState_tr _))
  split
  · exact h1.trans ((hF _ _).trans (QQ.upd_tr _ _ (exitState_tr _)))
  · exact h1

theorem transitionToL_qq (hF : FQ F) (l : LCfg) (s : SObj) : QQ l (transitionToL F l s) := by
  have h0 : QQ l { l with trans := some s.label } := QQ.same rfl
  have hfin : ∀ d : LCfg, QQ l d → QQ l { d with trans := none } := fun d hd => hd.trans (QQ.same rfl)
  unfold transitionToL; dsimp only
  apply hfin
  split
  · split
    · exact QQ.of_tr (TR.trans (exitState_tr l.c) (TR.of_eq rfl rfl rfl rfl rfl rfl rfl))
    · have h1 := h0.trans (exitPhaseL_qq hF { l with trans := some s.label } s)
      split
      · exact h1.trans (forceExceptedL_qq hF _ _)
      · rename_i c2 hok
        refine QQ.trans (h1.trans ?_) (enterNextL_qq hF _ _)
        refine QQ.trans ?_ (hF _ _)
        exact QQ.of_tr (enteringHooks_tr _ c2 s hok)
  · exact h0.trans (forceExceptedL_qq hF _ _)

theorem doPauseL_qq (hF : FQ F) (l : LCfg) : QQ l (doPauseL F l) := by
  unfold doPauseL; dsimp only
  have h1 : QQ l (F .paused (l.upd doPauseHooks)) := QQ.trans (doPauseHooks_qq l) (hF _ _)
  exact h1.trans (QQ.of_tr (TR.of_eq rfl rfl rfl rfl rfl rfl rfl))

theorem pauseL_qq (hF : FQ F) (l : LCfg) : QQ l (pauseL F l).1 := by
  unfold pauseL; dsimp only
  split
  · exact QQ.rfl' l
  · split
    · exact QQ.rfl' l
    · split
      · exact QQ.upd_tr l _ (hand_tr _ _)
      · split
        · exact QQ.rfl' l
        · split
          · rename_i hs
            have h1 := requestL_qq l .pause (fun _ => (requestL l .pause).interrupt) id hs
            split
            · exact h1.trans (QQ.of_tr (hand_tr _ _))
            · exact h1
          · exact doPauseL_qq hF l

theorem playL_qq (hF : FQ F) (l : LCfg) : QQ l (playL F l).1 := by
  unfold playL
  split
  · exact play_qq l
  · exact (play_qq l).trans (hF _ _)

theorem killL_qq (hF : FQ F) (l : LCfg) : QQ l (killL F l).1 := by
  unfold killL; dsimp only
  split
  · exact QQ.rfl' l
  · split
    · exact QQ.rfl' l
    · split
      · exact QQ.upd_tr l _ (hand_tr _ _)
      · split
        · rename_i hs
          have h1 := requestL_qq l .kill id (fun _ => (requestL l .kill).interrupt) hs
          split
          · exact h1.trans (QQ.of_tr (hand_tr _ _))
          · exact h1
        · exact transitionToL_qq hF l _

theorem failL_qq (hF : FQ F) (l : LCfg) (e : Exc) : QQ l (failL F l e).1 := by
  unfold failL; split
  · exact QQ.rfl' l
  · exact transitionToL_qq hF l _

theorem reqK_qq (hF : FQ F) (r : Req) (l : LCfg) : QQ l (reqK F r l) := by
  cases r
  · exact pauseL_qq hF l
  · exact playL_qq hF l
  · exact killL_qq hF l
end

theorem fireK_qq {R : Req → LCfg → LCfg} (hR : ∀ r l, QQ l (R r l)) (h : Hook) (l : LCfg) : QQ l (fireK R h l) := by
  rcases fireK_cases R h l with h1 | ⟨e, _, h1⟩
  · rw [h1]; exact QQ.same rfl
  · rw [h1]
    have := hR e.2.2 (logIssued { { l with cnt := bump l.cnt h } with plan := l.plan.erase e } h e.2.2)
    exact this

theorem fireN_qq : ∀ n, FQ (fireN n)
  | 0 => fun _ _ => QQ.same rfl
  | n+1 => fun h l => by
      unfold fireN
      exact fireK_qq (fun r l => reqK_qq (fireN_qq n) r l) h l

end L
end PMF
