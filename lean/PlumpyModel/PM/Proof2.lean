import PlumpyModel.PM.Proof1
namespace PMF

/-- the part of a configuration that C01's "terminal states are final" talks about -/
def Fix (c c' : Cfg) : Prop := c'.st = c.st ∧ c'.entered = c.entered
theorem Fix.rfl' (c : Cfg) : Fix c c := ⟨rfl, rfl⟩
theorem Fix.trans {a b c : Cfg} (h1 : Fix a b) (h2 : Fix b c) : Fix a c := ⟨h2.1.trans h1.1, h2.2.trans h1.2⟩

theorem setActionStatus_fix (c : Cfg) (i s) : Fix c (setActionStatus c i s) := by
  unfold setActionStatus; split <;> exact ⟨rfl, rfl⟩
theorem cancelAction_fix (c : Cfg) (i) : Fix c (cancelAction c i) := by
  unfold cancelAction; split
  · exact setActionStatus_fix ..
  · exact Fix.rfl' c
theorem setInterrupt_fix (c : Cfg) (n) : Fix c (setInterrupt c n) := by
  unfold setInterrupt; split
  · exact Fix.trans (cancelAction_fix c _) ⟨rfl, rfl⟩
  · exact ⟨rfl, rfl⟩
theorem setInterruptFromExc_fix (c : Cfg) (k n) : Fix c (setInterruptFromExc c k n) := by
  unfold setInterruptFromExc cancelInterrupt
  split
  · exact Fix.trans (cancelAction_fix c _) ⟨rfl, rfl⟩
  · exact ⟨rfl, rfl⟩
theorem hand_fix (c : Cfg) (i) : Fix c (hand c i) := by
  unfold hand; split <;> exact ⟨rfl, rfl⟩

theorem prepare_fix (c : Cfg) (r : StepEnd) : Fix c (prepare c r).1 := by
  unfold prepare
  split
  · exact setInterrupt_fix ..
  · exact Fix.rfl' c
  · split
    · exact Fix.rfl' c
    · exact setInterruptFromExc_fix ..
  · exact setInterrupt_fix ..

/-- in a terminal state the end of a step changes nothing (repair C) -/
theorem endOfStep_fix (c : Cfg) (r : StepEnd) (ht : terminal c.st.label = true) : Fix c (endOfStep c r) := by
  unfold endOfStep
  have hp := prepare_fix c r
  have : dispatch (prepare c r).1 (prepare c r).2 = (prepare c r).1 := by
    unfold dispatch; simp [hp.1, ht]
  show Fix c (finally_ (dispatch (prepare c r).1 (prepare c r).2))
  rw [this]
  exact Fix.trans hp (Fix.trans (⟨rfl, rfl⟩ : Fix _ { (prepare c r).1 with stepping := false }) (setInterrupt_fix _ _))

theorem cmdToState_fix (c : Cfg) (cmd : Cmd) : Fix c (cmdToState c cmd).1 := by
  unfold cmdToState; split <;> exact ⟨rfl, rfl⟩

theorem finishUser_fix (c : Cfg) (o : Outcome) (ht : terminal c.st.label = true) : Fix c (finishUser c o) := by
  unfold finishUser
  split
  · have h1 := cmdToState_fix c ‹_›
    exact Fix.trans h1 (endOfStep_fix _ _ (by rw [h1.1]; exact ht))
  · exact endOfStep_fix _ _ ht

theorem wake_fix (c : Cfg) (fn wf : Nat) (w : WF) (ht : terminal c.st.label = true) : Fix c (wake c fn wf w) := by
  unfold wake
  split
  · exact endOfStep_fix _ _ ht
  · dsimp only
    split
    · rename_i hs; rw [hs] at ht; simp [SObj.label, terminal, allowed] at ht
    · exact endOfStep_fix _ _ ht
  · exact endOfStep_fix _ _ ht
  · exact Fix.rfl' c

theorem loopHead_fix (P : Prog) (fuel : Nat) (c : Cfg) (ht : terminal c.st.label = true) : Fix c (loopHead P fuel c) := by
  cases fuel with
  | zero => simp [loopHead]; exact Fix.rfl' c
  | succ n =>
    unfold loopHead
    split
    · exact Fix.rfl' c
    · simp [ht]; exact ⟨rfl, rfl⟩

theorem stepBody_fix (P : Prog) (fuel : Nat) (c : Cfg) (ht : terminal c.st.label = true) :
    Fix c (stepBody P fuel c) := by
  unfold stepBody stepBodyK
  dsimp only
  have hs : Fix c { c with stepping := true } := ⟨rfl, rfl⟩
  split
  · rename_i hst; rw [hst] at ht; simp [SObj.label, terminal, allowed] at ht
  · rename_i hst; rw [hst] at ht; simp [SObj.label, terminal, allowed] at ht
  · rename_i hst; rw [hst] at ht; simp [SObj.label, terminal, allowed] at ht
  · have h1 := endOfStep_fix { c with stepping := true } (.next none) ht
    exact Fix.trans (Fix.trans hs h1) (loopHead_fix P fuel _ (by rw [h1.1]; exact ht))

theorem tickStepper_fix (P : Prog) (c : Cfg) (ht : terminal c.st.label = true) : Fix c (tickStepper P c) := by
  unfold tickStepper
  split
  · exact loopHead_fix P _ c ht
  · split
    · split
      · split
        · exact ⟨rfl, rfl⟩
        · exact stepBody_fix P _ c ht
      · exact stepBody_fix P _ c ht
    · exact Fix.rfl' c
  · split
    · have h1 := finishUser_fix c ‹Body›.out ht
      exact Fix.trans h1 (loopHead_fix P _ _ (by rw [h1.1]; exact ht))
    · exact ⟨rfl, rfl⟩
  · split
    · exact Fix.rfl' c
    · have h1 := wake_fix c (match c.st with | .waiting fn .. => fn | _ => 0) ‹Nat› ‹WF› ht
      exact Fix.trans h1 (loopHead_fix P _ _ (by rw [h1.1]; exact ht))
    · exact Fix.rfl' c
  · exact Fix.rfl' c

end PMF

namespace PMF

theorem not_waiting_of_terminal {c : Cfg} (ht : terminal c.st.label = true) :
    ∀ f wf wk aw, c.st ≠ .waiting f wf wk aw := by
  intro f wf wk aw h; rw [h] at ht; simp [SObj.label, terminal, allowed] at ht

theorem pause_fix (c : Cfg) (ht : terminal c.st.label = true) : Fix c (pause c).1 := by
  unfold pause; simp [ht]; exact Fix.rfl' c

theorem play_fix (c : Cfg) : Fix c (play c).1 := by
  unfold play
  split
  · split
    · exact Fix.trans (cancelAction_fix ..) ⟨rfl, rfl⟩
    · exact Fix.rfl' c
  · dsimp only; split <;> exact ⟨rfl, rfl⟩

theorem kill_fix (c : Cfg) (ht : terminal c.st.label = true) : Fix c (kill c).1 := by
  unfold kill; split
  · exact Fix.rfl' c
  · simp [ht]; exact Fix.rfl' c

theorem deliver_fix (c : Cfg) (o) (ht : terminal c.st.label = true) : Fix c (deliver c o) := by
  unfold deliver; split
  · rename_i hs; exact absurd hs (not_waiting_of_terminal ht _ _ _ _)
  · exact Fix.rfl' c

theorem resume_fix (c : Cfg) (v) (ht : terminal c.st.label = true) : Fix c (resume c v).1 := by
  unfold resume; split
  · rename_i hs; exact absurd hs (not_waiting_of_terminal ht _ _ _ _)
  · exact Fix.rfl' c

theorem fail_fix (c : Cfg) (e) (ht : terminal c.st.label = true) : Fix c (fail c e).1 := by
  unfold fail; simp [ht]; exact Fix.rfl' c

theorem cancelFut_fix (c : Cfg) : Fix c (cancelFut c).1 := by
  unfold cancelFut; split <;> exact ⟨rfl, rfl⟩

theorem complete_fix (c : Cfg) (f o) : Fix c (complete c f o) := by
  unfold complete; split
  · dsimp only; split <;> exact ⟨rfl, rfl⟩
  · exact Fix.rfl' c

theorem awaitableDone_fix (c : Cfg) (f) (ht : terminal c.st.label = true) : Fix c (awaitableDone c f) := by
  unfold awaitableDone
  dsimp only
  split
  · rename_i hs; exact absurd hs (not_waiting_of_terminal ht _ _ _ _)
  · split
    · exact ⟨rfl, rfl⟩
    · exact Fix.rfl' c

theorem tickCb_fix (c : Cfg) (cb) (ht : terminal c.st.label = true) : Fix c (tickCb c cb) := by
  unfold tickCb; split
  · have h1 : Fix c { c with ready := c.ready.erase cb } := ⟨rfl, rfl⟩
    split
    · exact Fix.trans h1 (awaitableDone_fix _ _ ht)
    · exact Fix.trans h1 (Fix.trans (kill_fix _ ht) ⟨rfl, rfl⟩)
    · split
      · exact Fix.trans h1 (fail_fix _ _ ht)
      · exact h1
  · exact Fix.rfl' c

/-- **C01 (model level), second half — terminal states are final**: once FINISHED, EXCEPTED or KILLED has
been entered, no event whatsoever (tick of the stepping task or of any scheduled callback, pause, play, kill,
resume, fail, future cancellation, completion of an awaitable) changes the state object or the entered log. -/
theorem step_terminal_fix (P : Prog) (c : Cfg) (ev : Ev) (ht : terminal c.st.label = true) :
    Fix c (step P c ev).1 := by
  cases ev <;> simp only [step]
  · exact tickStepper_fix P c ht
  · exact tickCb_fix c _ ht
  · exact pause_fix c ht
  · exact play_fix c
  · exact kill_fix c ht
  · exact resume_fix c _ ht
  · exact fail_fix c _ ht
  · exact cancelFut_fix c
  · exact complete_fix c _ _
  · exact ⟨rfl, rfl⟩

theorem C01_terminal_final (P : Prog) (c : Cfg) (evs : List Ev) (ht : terminal c.st.label = true) :
    (run P c evs).st = c.st ∧ (run P c evs).entered = c.entered := by
  induction evs generalizing c with
  | nil => exact ⟨rfl, rfl⟩
  | cons e es ih =>
    have h1 := step_terminal_fix P c e ht
    have h2 := ih (step P c e).1 (by rw [h1.1]; exact ht)
    exact ⟨h2.1.trans h1.1, h2.2.trans h1.2⟩

-- non-vacuity: a concrete history reaches a terminal state, and the statement applies to it
def sync2 : Prog := fun fn _ _ _ => if fn = 0 then ⟨0, .ret (.cont 1 [1] [(0, 2)])⟩ else ⟨0, .ret (.stop (some 3) true)⟩
example : terminal (run sync2 (init 0) [.tick]).st.label = true := by decide +kernel

end PMF

