import PlumpyModel.PM.Proof14
/-!
# C05 — transparency, third part: wake-ups between a pause request that interrupted a pending wait and the next tick

Phase `QW2` generalises `QW` of `Proof12`: the wait of the run with pauses carries the interruption of the pause request and
possibly a *parked* wake-up (`Waiting._deliver` on an interrupted wait), while the wait of the reference run has received that
wake-up directly.  Through the view `unint` (the interruption removed, the parked outcome put on the future) this is `InStep`.
At the next tick the run with pauses re-arms its wait; if the pause then takes effect it is held on a wait whose outcome is
already there (`LagW`, the reference run does not tick); if the pause was retracted by `play` both runs resume the wait in
that tick — the run with pauses one loop iteration later, hence the fuel hypothesis with one iteration of slack (`fuelOkN`).
-/
namespace PMF

/-! ### the fuel is irrelevant once the loop is known to end within it -/

theorem stepDoneK_terminal (P : Prog) (k : Cfg → Bool) (c : Cfg) (ht : terminal c.st.label = true) :
    stepDoneK P k c = k (endOfStep { c with stepping := true } (.next none)) := by
  obtain ⟨h1, h2, h3⟩ := not_live_of_terminal ht
  unfold stepDoneK; dsimp only
  split
  · rename_i fn h; exact absurd h (h1 fn)
  · rename_i fn a k h; exact absurd h (h2 fn a k)
  · rename_i fn wf wk aw h; exact absurd h (h3 fn wf wk aw)
  · rfl

theorem stepK_mono (P : Prog) (k k' : Cfg → Cfg) (kd kd' : Cfg → Bool)
    (h : ∀ e, kd e = true → kd' e = true ∧ k' e = k e) (c : Cfg) (hd : stepDoneK P kd c = true) :
    stepDoneK P kd' c = true ∧ stepBodyK P k' c = stepBodyK P k c := by
  cases hst : c.st with
  | created fn =>
    rw [stepDoneK_created P kd c fn hst] at hd
    rw [stepDoneK_created P kd' c fn hst, stepBodyK_created P k c fn hst, stepBodyK_created P k' c fn hst]
    exact h _ hd
  | running fn args kw =>
    rw [stepDoneK_running P kd c fn args kw hst] at hd
    rw [stepDoneK_running P kd' c fn args kw hst, stepBodyK_running P k c fn args kw hst, stepBodyK_running P k' c fn args kw hst]
    by_cases ha : (P fn args kw c.ctx).awaits = 0
    · simp only [ha, if_true] at hd ⊢
      exact h _ hd
    · simp only [ha, if_false]
      exact ⟨trivial, trivial⟩
  | waiting fn wf wk aw =>
    cases hw : c.wfs[wf]? with
    | none =>
      have e1 : ∀ kk : Cfg → Cfg, stepBodyK P kk c = { c with stepping := true } := by
        intro kk; unfold stepBodyK; dsimp only; rw [hst]; dsimp only; rw [hw]
      have e2 : ∀ kk : Cfg → Bool, stepDoneK P kk c = true := by
        intro kk; unfold stepDoneK; dsimp only; rw [hst]; dsimp only; rw [hw]
      rw [e1, e1, e2]; exact ⟨rfl, rfl⟩
    | some w =>
      by_cases hp : w = .pending
      · subst hp
        rw [stepDoneK_waiting_pending P kd' c fn wf wk aw hst hw, stepBodyK_waiting_pending P k c fn wf wk aw hst hw,
          stepBodyK_waiting_pending P k' c fn wf wk aw hst hw]
        exact ⟨rfl, rfl⟩
      · rw [stepDoneK_waiting_done P kd c fn wf wk aw w hst hw hp] at hd
        rw [stepDoneK_waiting_done P kd' c fn wf wk aw w hst hw hp, stepBodyK_waiting_done P k c fn wf wk aw w hst hw hp,
          stepBodyK_waiting_done P k' c fn wf wk aw w hst hw hp]
        exact h _ hd
  | finished v ok =>
    have ht : terminal c.st.label = true := by rw [hst]; simp [SObj.label, terminal, allowed]
    rw [stepDoneK_terminal P kd c ht] at hd
    rw [stepDoneK_terminal P kd' c ht, stepBodyK_terminal P k c ht, stepBodyK_terminal P k' c ht]
    exact h _ hd
  | excepted e =>
    have ht : terminal c.st.label = true := by rw [hst]; simp [SObj.label, terminal, allowed]
    rw [stepDoneK_terminal P kd c ht] at hd
    rw [stepDoneK_terminal P kd' c ht, stepBodyK_terminal P k c ht, stepBodyK_terminal P k' c ht]
    exact h _ hd
  | killed =>
    have ht : terminal c.st.label = true := by rw [hst]; simp [SObj.label, terminal, allowed]
    rw [stepDoneK_terminal P kd c ht] at hd
    rw [stepDoneK_terminal P kd' c ht, stepBodyK_terminal P k c ht, stepBodyK_terminal P k' c ht]
    exact h _ hd

theorem loopHead_crashed (P : Prog) (m : Nat) (c : Cfg) (e : Exc) (h : c.pc = .crashed e) : loopHead P (m + 1) c = c := by
  unfold loopHead; rw [h]
theorem loopDone_crashed (P : Prog) (m : Nat) (c : Cfg) (e : Exc) (h : c.pc = .crashed e) : loopDone P (m + 1) c = true := by
  unfold loopDone; rw [h]
theorem loopDone_term (P : Prog) (m : Nat) (c : Cfg) (ht : terminal c.st.label = true) : loopDone P (m + 1) c = true := by
  unfold loopDone; split
  · rfl
  · simp [ht]
theorem loopDone_closed (P : Prog) (m : Nat) (c : Cfg) (hc : c.closed = true) : loopDone P (m + 1) c = true := by
  unfold loopDone; split
  · rfl
  · simp [hc]
theorem loopDone_held (P : Prog) (m : Nat) (c : Cfg) (hh : Held c) : loopDone P (m + 1) c = true := by
  obtain ⟨pf, hp, hf⟩ := hh
  unfold loopDone; split
  · rfl
  · simp [hp, hf]
theorem loopDone_go' (P : Prog) (m : Nat) (c : Cfg) (hn : NotCrashed c) (ht : terminal c.st.label = false)
    (hc : c.closed = false) (hh : ¬ Held c) : loopDone P (m + 1) c = stepDoneK P (loopDone P m) c := by
  unfold loopDone; split
  · rename_i e he; exact absurd he (hn e)
  · simp only [ht, hc, Bool.false_eq_true, if_false]
    split
    · rename_i pf hp
      split
      · rename_i hf; exact absurd ⟨pf, hp, hf⟩ hh
      · rfl
    · rfl

theorem loop_mono (P : Prog) : ∀ (n : Nat) (c : Cfg), loopDone P n c = true →
    loopDone P (n + 1) c = true ∧ loopHead P (n + 1) c = loopHead P n c := by
  intro n
  induction n with
  | zero => intro c h; simp [loopDone] at h
  | succ n ih =>
    intro c h
    by_cases hcr : ∃ e, c.pc = .crashed e
    · obtain ⟨e, he⟩ := hcr
      rw [loopHead_crashed P _ c e he, loopHead_crashed P _ c e he]
      exact ⟨loopDone_crashed P _ c e he, rfl⟩
    · have hn : NotCrashed c := fun e he => hcr ⟨e, he⟩
      by_cases ht : terminal c.st.label = true
      · rw [loopHead_term P _ c hn ht, loopHead_term P _ c hn ht]
        exact ⟨loopDone_term P _ c ht, rfl⟩
      · have htf : terminal c.st.label = false := by simpa using ht
        by_cases hc : c.closed = true
        · rw [loopHead_closed P _ c hn htf hc, loopHead_closed P _ c hn htf hc]
          exact ⟨loopDone_closed P _ c hc, rfl⟩
        · have hcf : c.closed = false := by simpa using hc
          by_cases hh : Held c
          · obtain ⟨pf, hp, hf⟩ := hh
            rw [loopHead_held P _ c hn htf hcf pf hp hf, loopHead_held P _ c hn htf hcf pf hp hf]
            exact ⟨loopDone_held P _ c ⟨pf, hp, hf⟩, rfl⟩
          · rw [loopDone_go' P n c hn htf hcf hh] at h
            rw [loopDone_go' P (n + 1) c hn htf hcf hh, loopHead_go P (n + 1) c hn htf hcf hh, loopHead_go P n c hn htf hcf hh]
            exact stepK_mono P _ _ _ _ ih c h

theorem loop_mono_le (P : Prog) (n : Nat) (c : Cfg) (h : loopDone P n c = true) :
    ∀ m, n ≤ m → loopDone P m c = true ∧ loopHead P m c = loopHead P n c := by
  intro m hm
  induction m with
  | zero =>
    have : n = 0 := by omega
    subst this; exact ⟨h, rfl⟩
  | succ m ih =>
    by_cases he : n = m + 1
    · subst he; exact ⟨h, rfl⟩
    · obtain ⟨i1, i2⟩ := ih (by omega)
      obtain ⟨j1, j2⟩ := loop_mono P m c i1
      exact ⟨j1, j2.trans i2⟩

/-! ### the fuel hypothesis with slack -/

/-- mirrors `tickDone` with fuel `n` instead of `fuel0` -/
def tickDoneN (P : Prog) (n : Nat) (c : Cfg) : Bool :=
  match c.pc with
  | .notStarted => loopDone P n c
  | .awaitPaused pf =>
      if c.pfs[pf]? = some true then
        match c.paused with
        | some pf' => if c.pfs[pf']? = some false then true else stepDoneK P (loopDone P n) c
        | none => stepDoneK P (loopDone P n) c
      else true
  | .inUser b => if b.awaits = 0 then loopDone P n (finishUser c b.out) else true
  | .awaitWaiting wf =>
      match c.wfs[wf]? with
      | some .pending => true
      | some w =>
          let fn := match c.st with | .waiting fn .. => fn | _ => 0
          loopDone P n (wake c fn wf w)
      | none => true
  | _ => true

/-- no tick of the history comes within `fuel0 - n` iterations of exhausting the fuel of the model's step loop -/
def fuelOkN (P : Prog) (n : Nat) : Cfg → List Ev → Bool
  | _, [] => true
  | c, e :: es => (match e with | .tick => tickDoneN P n c | _ => true) && fuelOkN P n (step P c e).1 es

theorem tickDoneN_fuel0 (P : Prog) (c : Cfg) : tickDoneN P fuel0 c = tickDone P c := rfl

theorem stepDoneK_le (P : Prog) (n m : Nat) (hnm : n ≤ m) (c : Cfg) (h : stepDoneK P (loopDone P n) c = true) :
    stepDoneK P (loopDone P m) c = true :=
  (stepK_mono P id id (loopDone P n) (loopDone P m) (fun e he => ⟨(loop_mono_le P n e he m hnm).1, rfl⟩) c h).1

theorem tickDoneN_le (P : Prog) (n m : Nat) (hnm : n ≤ m) (c : Cfg) (h : tickDoneN P n c = true) : tickDoneN P m c = true := by
  unfold tickDoneN at h ⊢
  cases hpc : c.pc with
  | notStarted =>
    rw [hpc] at h
    exact (loop_mono_le P n c h m hnm).1
  | awaitPaused pf =>
    rw [hpc] at h
    dsimp only at h ⊢
    by_cases hpf : c.pfs[pf]? = some true
    · rw [if_pos hpf] at h ⊢
      cases hpa : c.paused with
      | none =>
        rw [hpa] at h
        exact stepDoneK_le P n m hnm c h
      | some pf' =>
        rw [hpa] at h
        dsimp only at h ⊢
        by_cases hf : c.pfs[pf']? = some false
        · rw [if_pos hf]
        · rw [if_neg hf] at h ⊢
          exact stepDoneK_le P n m hnm c h
    · rw [if_neg hpf]
  | inUser b =>
    rw [hpc] at h
    dsimp only at h ⊢
    by_cases ha : b.awaits = 0
    · rw [if_pos ha] at h ⊢
      exact (loop_mono_le P n _ h m hnm).1
    · rw [if_neg ha]
  | awaitWaiting wf =>
    rw [hpc] at h
    dsimp only at h ⊢
    cases hw : c.wfs[wf]? with
    | none => rfl
    | some w =>
      rw [hw] at h
      cases w with
      | pending => rfl
      | result v => exact (loop_mono_le P n _ h m hnm).1
      | interrupted k => exact (loop_mono_le P n _ h m hnm).1
      | failed e => exact (loop_mono_le P n _ h m hnm).1
  | done => rfl
  | crashed e => rfl

theorem fuelOkN_le (P : Prog) (n : Nat) (hn : n ≤ fuel0) : ∀ (evs : List Ev) (c : Cfg), fuelOkN P n c evs = true →
    fuelOk P c evs = true := by
  intro evs
  induction evs with
  | nil => intro c _; rfl
  | cons e es ih =>
    intro c h
    simp only [fuelOkN, Bool.and_eq_true] at h
    simp only [fuelOk, Bool.and_eq_true]
    refine ⟨?_, ih _ h.2⟩
    cases e with
    | tick => rw [← tickDoneN_fuel0]; exact tickDoneN_le P n fuel0 hn c h.1
    | _ => rfl

theorem fuelOkN_append (P : Prog) (n : Nat) : ∀ (xs ys : List Ev) (c : Cfg),
    fuelOkN P n c (xs ++ ys) = (fuelOkN P n c xs && fuelOkN P n (run P c xs) ys) := by
  intro xs
  induction xs with
  | nil => intro ys c; simp [fuelOkN, run]
  | cons x rest ih =>
    intro ys c
    simp only [List.cons_append, fuelOkN, ih, Bool.and_assoc]
    rfl

theorem tickDoneN_wait_done (P : Prog) (n : Nat) (c : Cfg) (fn wf : Nat) (wk aw) (w : WF) (h : c.pc = .awaitWaiting wf)
    (hst : c.st = .waiting fn wf wk aw) (hw : c.wfs[wf]? = some w) (hp : w ≠ .pending) :
    tickDoneN P n c = loopDone P n (wake c fn wf w) := by
  unfold tickDoneN; rw [h]; dsimp only; rw [hw, hst]
  cases w <;> first | rfl | exact absurd rfl hp

/-! ### the view `unint` -/

/-- view of a configuration whose current wait carries the interruption of a pause request: the interruption removed and
the parked wake-up (if any) put on the wait future -/
def unint (c : Cfg) : Cfg :=
  match c.st with
  | .waiting fn wf wk aw =>
      match c.wfs[wf]? with
      | some (.interrupted _) => { c with st := .waiting fn wf none aw, wfs := setAt c.wfs wf (wk.getD .pending) }
      | _ => c
  | _ => c

theorem unint_int (c : Cfg) (fn wf : Nat) (wk aw) (k : Nat) (hst : c.st = .waiting fn wf wk aw)
    (hw : c.wfs[wf]? = some (.interrupted k)) :
    unint c = { c with st := .waiting fn wf none aw, wfs := setAt c.wfs wf (wk.getD .pending) } := by
  unfold unint; rw [hst]; dsimp only; rw [hw]

/-- a parked wake-up is an outcome -/
def ParkOk (wk : Option WF) : Prop := ∀ o, wk = some o → o ≠ .pending ∧ ∀ k, o ≠ .interrupted k

theorem deliver_unint (c : Cfg) (o : WF) (fn wf : Nat) (wk aw) (k : Nat) (hst : c.st = .waiting fn wf wk aw)
    (hw : c.wfs[wf]? = some (.interrupted k)) (hp : ParkOk wk) : deliver (unint c) o = unint (deliver c o) := by
  cases c
  rename_i st _ _ _ _ _ _ _ wfs _ _ _ _ _ _ _ _ _ _ _ _ _ _ _ _
  simp only at hst hw
  subst hst
  have hg : ∀ x : WF, (setAt wfs wf x)[wf]? = some x := fun x => setAt_self_get _ _ _ _ hw
  cases wk with
  | none =>
    simp only [unint, deliver, hw, hg, Option.getD_none, Option.isNone_none, if_true]
    simp [setAt]
  | some o' =>
    obtain ⟨h1, h2⟩ := hp o' rfl
    simp only [unint, deliver, hw, hg, Option.getD_some, Option.isNone_some]
    cases o' with
    | pending => exact absurd rfl h1
    | interrupted k' => exact absurd rfl (h2 k')
    | result v => simp [hw]
    | failed e => simp [hw]

/-- the run with pauses between the pause request that interrupted its pending wait and the next tick -/
def QShape (c : Cfg) (fn wf : Nat) (aw : List (Nat × Nat)) : Prop :=
  ∃ wk k, c.st = .waiting fn wf wk aw ∧ c.wfs[wf]? = some (.interrupted k) ∧ c.pc = .awaitWaiting wf ∧ ParkOk wk ∧
    c.interrupt ≠ none

theorem parkOk_none : ParkOk none := by intro o h; cases h

theorem deliver_qshape (c : Cfg) (o : WF) (fn wf : Nat) (aw) (ho : o ≠ .pending ∧ ∀ k, o ≠ .interrupted k)
    (h : QShape c fn wf aw) : QShape (deliver c o) fn wf aw := by
  obtain ⟨wk, k, hst, hw, hpc, hp, hi⟩ := h
  cases wk with
  | none =>
    have e : deliver c o = { c with st := .waiting fn wf (some o) aw } := by simp only [deliver, hst, hw]; rfl
    rw [e]
    exact ⟨some o, k, rfl, hw, hpc, by intro o' ho'; cases ho'; exact ho, hi⟩
  | some o' =>
    have e : deliver c o = c := by simp only [deliver, hst, hw]; rfl
    rw [e]
    exact ⟨some o', k, hst, hw, hpc, hp, hi⟩

theorem resume_unint (c : Cfg) (v : Option Val) (fn wf : Nat) (aw) (h : QShape c fn wf aw) :
    (resume (unint c) v).1 = unint (resume c v).1 := by
  obtain ⟨wk, k, hst, hw, hpc, hp, hi⟩ := h
  have e1 : (resume c v).1 = deliver c (.result v) := by simp only [resume, hst]
  have e2 : (resume (unint c) v).1 = deliver (unint c) (.result v) := by
    rw [unint_int c fn wf wk aw k hst hw]; simp only [resume]
  rw [e1, e2, deliver_unint c _ fn wf wk aw k hst hw hp]

theorem resume_qshape (c : Cfg) (v : Option Val) (fn wf : Nat) (aw) (h : QShape c fn wf aw) :
    QShape (resume c v).1 fn wf aw := by
  have h' := h
  obtain ⟨wk, k, hst, _⟩ := h'
  have e1 : (resume c v).1 = deliver c (.result v) := by unfold resume; rw [hst]
  rw [e1]
  exact deliver_qshape c _ fn wf aw ⟨(by intro x; cases x), (by intro k x; cases x)⟩ h

theorem complete_wfs (c : Cfg) (f : Nat) (o : EFut) : (complete c f o).wfs = c.wfs ∧ (complete c f o).pc = c.pc ∧
    (complete c f o).interrupt = c.interrupt := by
  unfold complete; split
  · dsimp only; split <;> exact ⟨rfl, rfl, rfl⟩
  · exact ⟨rfl, rfl, rfl⟩

theorem complete_qshape (c : Cfg) (f : Nat) (o : EFut) (fn wf : Nat) (aw) (h : QShape c fn wf aw) :
    QShape (complete c f o) fn wf aw := by
  obtain ⟨wk, k, hst, hw, hpc, hp, hi⟩ := h
  obtain ⟨g1, g2, g3⟩ := complete_wfs c f o
  exact ⟨wk, k, by rw [complete_st]; exact hst, by rw [g1]; exact hw, by rw [g2]; exact hpc, hp, by rw [g3]; exact hi⟩

theorem complete_unint (c : Cfg) (f : Nat) (o : EFut) (fn wf : Nat) (aw) (h : QShape c fn wf aw) :
    complete (unint c) f o = unint (complete c f o) := by
  obtain ⟨wk, k, hst, hw, hpc, hp, hi⟩ := h
  rw [unint_int c fn wf wk aw k hst hw,
    unint_int (complete c f o) fn wf wk aw k (by rw [complete_st]; exact hst) (by rw [(complete_wfs c f o).1]; exact hw)]
  unfold complete
  dsimp only
  split
  · split <;> rfl
  · rfl

def setCtx (c : Cfg) (X : List (Nat × Val)) : Cfg := { c with ctx := X }

theorem unint_setCtx (c : Cfg) (X : List (Nat × Val)) : unint (setCtx c X) = setCtx (unint c) X := by
  cases c
  rename_i st _ _ _ _ _ _ _ _ _ _ _ _ _ _ _ _ _ _ _ _ _ _ _ _
  cases st <;> try rfl
  simp only [unint, setCtx]
  split <;> rfl

theorem unint_fields (c : Cfg) : (unint c).efs = c.efs ∧ (unint c).efKeys = c.efKeys ∧ (unint c).ctx = c.ctx ∧
    (unint c).ready = c.ready := by
  cases c
  rename_i st _ _ _ _ _ _ _ _ _ _ _ _ _ _ _ _ _ _ _ _ _ _ _ _
  cases st <;> try exact ⟨rfl, rfl, rfl, rfl⟩
  simp only [unint]
  split <;> exact ⟨rfl, rfl, rfl, rfl⟩

theorem onOld_eq (c : Cfg) (f : Nat) : onOld c f =
    match c.efKeys.find? (·.1 = f), c.efs[f]? with
    | some (_, key), some (EFut.result v) => setCtx c ((key, v) :: c.ctx.filter (·.1 ≠ key))
    | _, _ => c := rfl

theorem onOld_unint (c : Cfg) (f : Nat) : onOld (unint c) f = unint (onOld c f) := by
  obtain ⟨g1, g2, g3, _⟩ := unint_fields c
  rw [onOld_eq, onOld_eq, g1, g2, g3]
  split
  · exact (unint_setCtx c _).symm
  · rfl

theorem onOld_qshape (c : Cfg) (f : Nat) (fn wf : Nat) (aw) (h : QShape c fn wf aw) : QShape (onOld c f) fn wf aw := by
  obtain ⟨wk, k, hst, hw, hpc, hp, hi⟩ := h
  unfold onOld
  split
  · exact ⟨wk, k, hst, hw, hpc, hp, hi⟩
  · exact ⟨wk, k, hst, hw, hpc, hp, hi⟩

theorem awaitableDone_unint (c : Cfg) (f : Nat) (fn wf : Nat) (aw) (h : QShape c fn wf aw) :
    awaitableDone (unint c) f = unint (awaitableDone c f) := by
  have h0 := h
  obtain ⟨wk, k, hst, hw, hpc, hp, hi⟩ := h0
  have hu := unint_int c fn wf wk aw k hst hw
  have hst' : (unint c).st = .waiting fn wf none aw := by rw [hu]
  have hefs : (unint c).efs = c.efs := by rw [hu]
  have hctx : (unint c).ctx = c.ctx := by rw [hu]
  cases hf : aw.find? (·.1 = f) with
  | none =>
    rw [aD_waiting_none c f fn wf wk aw hst hf, aD_waiting_none (unint c) f fn wf none aw hst' hf]
    exact onOld_unint c f
  | some xk =>
    obtain ⟨x, key⟩ := xk
    have other : (∀ v, c.efs[f]? ≠ some (.result v)) → (∀ e, c.efs[f]? ≠ some (.exc e)) →
        awaitableDone (unint c) f = unint (awaitableDone c f) := by
      intro n1 n2
      rw [aD_some_other c f fn wf wk aw x key hst hf n1 n2,
        aD_some_other (unint c) f fn wf none aw x key hst' hf (by rw [hefs]; exact n1) (by rw [hefs]; exact n2)]
      rw [hu, unint_int { c with st := .waiting fn wf wk (aw.filter (·.1 ≠ f)) } fn wf wk _ k rfl hw]
    cases he : c.efs[f]? with
    | none => exact other (by rw [he]; intro v hv; cases hv) (by rw [he]; intro v hv; cases hv)
    | some o =>
      cases o with
      | pending => exact other (by rw [he]; intro v hv; cases hv) (by rw [he]; intro v hv; cases hv)
      | result v =>
        rw [aD_some_result c f fn wf wk aw x key v hst hf he,
          aD_some_result (unint c) f fn wf none aw x key v hst' hf (by rw [hefs, he]), hctx]
        have e : ({ unint c with st := .waiting fn wf none (aw.filter (·.1 ≠ f)), ctx := (key, v) :: c.ctx.filter (·.1 ≠ key) } : Cfg)
            = unint { c with st := .waiting fn wf wk (aw.filter (·.1 ≠ f)), ctx := (key, v) :: c.ctx.filter (·.1 ≠ key) } := by
          rw [hu, unint_int { c with st := .waiting fn wf wk (aw.filter (·.1 ≠ f)), ctx := (key, v) :: c.ctx.filter (·.1 ≠ key) }
            fn wf wk _ k rfl hw]
        split
        · rw [e]
          exact deliver_unint { c with st := .waiting fn wf wk (aw.filter (·.1 ≠ f)), ctx := (key, v) :: c.ctx.filter (·.1 ≠ key) }
            _ fn wf wk _ k rfl hw hp
        · exact e
      | exc e =>
        rw [aD_some_exc c f fn wf wk aw x key e hst hf he,
          aD_some_exc (unint c) f fn wf none aw x key e hst' hf (by rw [hefs, he])]
        have e' : ({ unint c with st := .waiting fn wf none (aw.filter (·.1 ≠ f)) } : Cfg)
            = unint { c with st := .waiting fn wf wk (aw.filter (·.1 ≠ f)) } := by
          rw [hu, unint_int { c with st := .waiting fn wf wk (aw.filter (·.1 ≠ f)) } fn wf wk _ k rfl hw]
        rw [e']
        exact deliver_unint { c with st := .waiting fn wf wk (aw.filter (·.1 ≠ f)) } _ fn wf wk _ k rfl hw hp

theorem awaitableDone_qshape (c : Cfg) (f : Nat) (fn wf : Nat) (aw) (h : QShape c fn wf aw) :
    ∃ aw', QShape (awaitableDone c f) fn wf aw' := by
  have h0 := h
  obtain ⟨wk, k, hst, hw, hpc, hp, hi⟩ := h0
  cases hf : aw.find? (·.1 = f) with
  | none =>
    rw [aD_waiting_none c f fn wf wk aw hst hf]
    exact ⟨aw, onOld_qshape c f fn wf aw h⟩
  | some xk =>
    obtain ⟨x, key⟩ := xk
    have sh1 : ∀ (aw' : List (Nat × Nat)) (X : List (Nat × Val)),
        QShape { c with st := .waiting fn wf wk aw', ctx := X } fn wf aw' :=
      fun aw' X => ⟨wk, k, rfl, hw, hpc, hp, hi⟩
    have sh2 : ∀ (aw' : List (Nat × Nat)), QShape { c with st := .waiting fn wf wk aw' } fn wf aw' :=
      fun aw' => ⟨wk, k, rfl, hw, hpc, hp, hi⟩
    have other : (∀ v, c.efs[f]? ≠ some (.result v)) → (∀ e, c.efs[f]? ≠ some (.exc e)) →
        ∃ aw', QShape (awaitableDone c f) fn wf aw' := by
      intro n1 n2
      rw [aD_some_other c f fn wf wk aw x key hst hf n1 n2]
      exact ⟨_, sh2 _⟩
    cases he : c.efs[f]? with
    | none => exact other (by rw [he]; intro v hv; cases hv) (by rw [he]; intro v hv; cases hv)
    | some o =>
      cases o with
      | pending => exact other (by rw [he]; intro v hv; cases hv) (by rw [he]; intro v hv; cases hv)
      | result v =>
        rw [aD_some_result c f fn wf wk aw x key v hst hf he]
        split
        · exact ⟨_, deliver_qshape _ _ fn wf _ ⟨(by intro x; cases x), (by intro k x; cases x)⟩ (sh1 _ _)⟩
        · exact ⟨_, sh1 _ _⟩
      | exc e =>
        rw [aD_some_exc c f fn wf wk aw x key e hst hf he]
        exact ⟨_, deliver_qshape _ _ fn wf _ ⟨(by intro x; cases x), (by intro k x; cases x)⟩ (sh2 _)⟩

theorem unint_setReady (c : Cfg) (R : List Cb) : unint (setReady c R) = setReady (unint c) R := by
  cases c
  rename_i st _ _ _ _ _ _ _ _ _ _ _ _ _ _ _ _ _ _ _ _ _ _ _ _
  cases st <;> try rfl
  simp only [unint, setReady]
  split <;> rfl

theorem setReady_qshape (c : Cfg) (R : List Cb) (fn wf : Nat) (aw) (h : QShape c fn wf aw) : QShape (setReady c R) fn wf aw := by
  obtain ⟨wk, k, hst, hw, hpc, hp, hi⟩ := h
  exact ⟨wk, k, hst, hw, hpc, hp, hi⟩

theorem tickCb_adone_unint (c : Cfg) (f : Nat) (fn wf : Nat) (aw) (h : QShape c fn wf aw) :
    tickCb (unint c) (.adone f) = unint (tickCb c (.adone f)) := by
  rw [tickCb_adone_eq, tickCb_adone_eq, (unint_fields c).2.2.2]
  split
  · rw [← awaitableDone_unint _ f fn wf aw (setReady_qshape c _ fn wf aw h), unint_setReady]
  · rfl

theorem tickCb_adone_qshape (c : Cfg) (f : Nat) (fn wf : Nat) (aw) (h : QShape c fn wf aw) :
    ∃ aw', QShape (tickCb c (.adone f)) fn wf aw' := by
  rw [tickCb_adone_eq]
  split
  · exact awaitableDone_qshape _ f fn wf aw (setReady_qshape c _ fn wf aw h)
  · exact ⟨aw, h⟩

theorem tickCb_usercb_unint (c : Cfg) : tickCb (unint c) (.usercb false) = unint (tickCb c (.usercb false)) := by
  rw [tickCb_usercb_eq, tickCb_usercb_eq, (unint_fields c).2.2.2]
  split
  · rw [unint_setReady]
  · rfl

theorem tickCb_usercb_qshape (c : Cfg) (fn wf : Nat) (aw) (h : QShape c fn wf aw) :
    QShape (tickCb c (.usercb false)) fn wf aw := by
  rw [tickCb_usercb_eq]
  split
  · exact setReady_qshape c _ fn wf aw h
  · exact h

/-! ### the phase `QW2` -/

/-- a pause request interrupted the pending wait of the run with pauses, wake-ups may have been parked on it since; the wait
of the reference run has received them: through `unint` both runs are at the same point -/
structure QW2 (c d : Cfg) : Prop where
  shape : ∃ fn wf aw, QShape c fn wf aw
  view : InStep (unint c) d

theorem qw_to_qw2 {c d : Cfg} (h : QW c d) : QW2 c d := by
  obtain ⟨fn, wf, aw, wf', k, hst, hst', hw, hw', hpc, hpd⟩ := h.wait
  refine ⟨⟨fn, wf, aw, none, k, hst, hw, hpc, parkOk_none, h.intSome⟩, ?_⟩
  rw [unint_int c fn wf none aw k hst hw]
  refine ⟨⟨h.sh, Or.inr ⟨fn, wf, aw, wf', .pending, rfl, hst', setAt_self_get _ _ _ _ hw, hw', by intro k' hk'; cases hk'⟩,
    h.ckill, h.dint, h.dpaused⟩, h.intOk.of_eq rfl rfl, ?_, fun _ => ⟨h.stepping, h.paused⟩, ?_⟩
  · show PcRelAt c.pc _ _
    rw [hpc]
    exact ⟨fn, none, aw, wf', rfl, hst', hpd⟩
  · intro hr
    have : isRunningPc c.pc = false := hr
    rw [hpc] at this; cases this

theorem resume_qw2 (c d : Cfg) (v : Option Val) (h : QW2 c d) : QW2 (resume c v).1 (resume d v).1 := by
  obtain ⟨fn, wf, aw, hs⟩ := h.shape
  exact ⟨⟨fn, wf, aw, resume_qshape c v fn wf aw hs⟩, by rw [← resume_unint c v fn wf aw hs]; exact resume_inStep _ _ v h.view⟩
theorem complete_qw2 (c d : Cfg) (f : Nat) (o : EFut) (h : QW2 c d) : QW2 (complete c f o) (complete d f o) := by
  obtain ⟨fn, wf, aw, hs⟩ := h.shape
  exact ⟨⟨fn, wf, aw, complete_qshape c f o fn wf aw hs⟩,
    by rw [← complete_unint c f o fn wf aw hs]; exact complete_inStep _ _ f o h.view⟩
theorem tickCb_adone_qw2 (c d : Cfg) (f : Nat) (h : QW2 c d) : QW2 (tickCb c (.adone f)) (tickCb d (.adone f)) := by
  obtain ⟨fn, wf, aw, hs⟩ := h.shape
  obtain ⟨aw', hs'⟩ := tickCb_adone_qshape c f fn wf aw hs
  exact ⟨⟨fn, wf, aw', hs'⟩, by rw [← tickCb_adone_unint c f fn wf aw hs]; exact tickCb_adone_inStep _ _ f h.view⟩
theorem tickCb_usercb_qw2 (c d : Cfg) (h : QW2 c d) : QW2 (tickCb c (.usercb false)) (tickCb d (.usercb false)) := by
  obtain ⟨fn, wf, aw, hs⟩ := h.shape
  exact ⟨⟨fn, wf, aw, tickCb_usercb_qshape c fn wf aw hs⟩,
    by rw [← tickCb_usercb_unint c]; exact tickCb_usercb_inStep _ _ h.view⟩
theorem callSoon_qw2 (c d : Cfg) (r : Bool) (h : QW2 c d) :
    QW2 { c with ready := c.ready ++ [.usercb r] } { d with ready := d.ready ++ [.usercb r] } := by
  obtain ⟨fn, wf, aw, hs⟩ := h.shape
  refine ⟨⟨fn, wf, aw, setReady_qshape c _ fn wf aw hs⟩, ?_⟩
  have e : unint { c with ready := c.ready ++ [.usercb r] } = setReady (unint c) ((unint c).ready ++ [.usercb r]) := by
    rw [(unint_fields c).2.2.2]; exact unint_setReady c _
  rw [e]
  exact callSoon_inStep _ _ r h.view

theorem wake_qw2 (P : Prog) (c d : Cfg) (e : Ev) (h : isWake e = true) (hl : QW2 c d) :
    QW2 (step P c e).1 (step P d e).1 := by
  cases e with
  | resume v => exact resume_qw2 c d v hl
  | complete f o => exact complete_qw2 c d f o hl
  | callSoon r => exact callSoon_qw2 c d r hl
  | tickCb cb =>
    cases cb with
    | adone f => exact tickCb_adone_qw2 c d f hl
    | trykill => cases h
    | usercb r =>
      cases r with
      | false => exact tickCb_usercb_qw2 c d hl
      | true => cases h
  | _ => cases h

/-! ### pause and play in phase `QW2` -/

theorem unint_same (c : Cfg) : sh (unint c) = sh c ∧ (unint c).pc = c.pc ∧ (unint c).interrupt = c.interrupt ∧
    (unint c).actions = c.actions ∧ (unint c).paused = c.paused := by
  cases c
  rename_i st _ _ _ _ _ _ _ _ _ _ _ _ _ _ _ _ _ _ _ _ _ _ _ _
  cases st <;> try exact ⟨rfl, rfl, rfl, rfl, rfl⟩
  simp only [unint]
  split <;> exact ⟨rfl, rfl, rfl, rfl, rfl⟩

def unintSt (s : SObj) (w : List WF) : SObj × List WF :=
  match s with
  | .waiting fn wf wk aw =>
      match w[wf]? with
      | some (.interrupted _) => (.waiting fn wf none aw, setAt w wf (wk.getD .pending))
      | _ => (s, w)
  | _ => (s, w)

theorem unint_stw_eq (c : Cfg) : (unint c).st = (unintSt c.st c.wfs).1 ∧ (unint c).wfs = (unintSt c.st c.wfs).2 := by
  cases c
  rename_i st _ _ _ _ _ _ _ wfs _ _ _ _ _ _ _ _ _ _ _ _ _ _ _ _
  cases st <;> try exact ⟨rfl, rfl⟩
  rename_i fn wf wk aw
  cases hq : wfs[wf]? with
  | none => simp only [unint, unintSt, hq]; exact ⟨trivial, trivial⟩
  | some w => cases w <;> (simp only [unint, unintSt, hq]; exact ⟨trivial, trivial⟩)

theorem unint_stw (c c' : Cfg) (h1 : c'.st = c.st) (h2 : c'.wfs = c.wfs) :
    (unint c').st = (unint c).st ∧ (unint c').wfs = (unint c).wfs := by
  rw [(unint_stw_eq c').1, (unint_stw_eq c').2, (unint_stw_eq c).1, (unint_stw_eq c).2, h1, h2]
  exact ⟨rfl, rfl⟩

theorem unint_pframe {c c' : Cfg} (f : PFrame c c') : PFrame (unint c) (unint c') := by
  obtain ⟨s1, s2⟩ := unint_stw c c' f.2.1 f.2.2.1
  exact ⟨by rw [(unint_same c').1, (unint_same c).1]; exact f.1, s1, s2,
    by rw [(unint_same c').2.1, (unint_same c).2.1]; exact f.2.2.2⟩

theorem QW2.stepping {c d : Cfg} (h : QW2 c d) : c.stepping = true ∧ c.paused = none ∧ c.killing = none ∧ IntOk c := by
  obtain ⟨fn, wf, aw, wk, k, hst, hw, hpc, hp, hi⟩ := h.shape
  obtain ⟨u1, u2, u3, u4, u5⟩ := unint_same c
  have hr := h.view.run (by rw [u2, hpc]; rfl)
  have hs := (sh_fields u1).1
  have hk := (sh_fields u1).2.2.2.2.2.2.2.2.2.2.2.2.2.2
  exact ⟨by rw [← hs]; exact hr.1, by rw [← u5]; exact hr.2, by rw [← hk]; exact h.view.core.ckill,
    h.view.intOk.of_eq u3.symm u4.symm⟩

theorem QW2.frame {c c' d : Cfg} (h : QW2 c d) (f : PFrame c c') (hi : c'.interrupt ≠ none) (hio : IntOk c')
    (hp : c'.paused = none) : QW2 c' d := by
  obtain ⟨fn, wf, aw, wk, k, hst, hw, hpc, hpk, _⟩ := h.shape
  obtain ⟨u1, u2, u3, u4, u5⟩ := unint_same c'
  refine ⟨⟨fn, wf, aw, wk, k, by rw [f.2.1]; exact hst, by rw [f.2.2.1]; exact hw, by rw [f.2.2.2]; exact hpc, hpk, hi⟩, ?_⟩
  refine h.view.frame (unint_pframe f) (hio.of_eq u3 u4) ?_ (fun _ => by rw [u5]; exact hp)
  intro hr
  rw [(unint_same c).2.1, hpc] at hr
  cases hr

theorem pause_qw2 (c d : Cfg) (h : QW2 c d) : QW2 (pause c).1 d := by
  obtain ⟨hs, hpn, hk, hio⟩ := h.stepping
  obtain ⟨fn, wf, aw, wk, k, hst, hw, hpc, hpk, hi⟩ := h.shape
  rcases pause_shape c hk with b | ⟨hs', _⟩ | ⟨_, _, b⟩
  · exact h.frame b.1 (by rw [b.2.1]; exact hi) (hio.of_eq b.2.1 b.2.2.1) (by rw [b.2.2.2]; exact hpn)
  · rw [hs] at hs'; cases hs'
  · obtain ⟨r1, r2, r3, r4, r5, r6, r7⟩ := requestInterrupt_props c
    have hwfs : (requestInterrupt c .pause).wfs = c.wfs := by
      rcases r7 with hw2 | ⟨fn2, wf2, wk2, aw2, hst2, hpend, _⟩
      · exact hw2
      · rw [hst] at hst2; cases hst2
        rw [hw] at hpend; cases hpend
    have h1 := h.frame ⟨r1, r2, hwfs, r3⟩ r6 r5 (by rw [r4]; exact hpn)
    exact h1.frame b.1 (by rw [b.2.1]; exact r6) (r5.of_eq b.2.1 b.2.2.1) (by rw [b.2.2.2, r4]; exact hpn)

theorem play_qw2 (c d : Cfg) (h : QW2 c d) : QW2 (play c).1 d := by
  obtain ⟨_, _, _, hio⟩ := h.stepping
  obtain ⟨fn, wf, aw, wk, k, hst, hw, hpc, hpk, hi⟩ := h.shape
  obtain ⟨f, hi', hio', hp⟩ := play_shape c
  exact h.frame f (by rw [hi']; exact hi) (hio' hio) hp

/-! ### the tick in phase `QW2` -/

def heldB (c : Cfg) : Bool :=
  match c.paused with
  | some pf => c.pfs[pf]? == some false
  | none => false

theorem heldB_iff (c : Cfg) : heldB c = true ↔ Held c := by
  unfold heldB Held
  constructor
  · intro h
    split at h
    · rename_i pf hp
      exact ⟨pf, hp, by simpa using h⟩
    · cases h
  · rintro ⟨pf, hp, hf⟩
    rw [hp]
    simp [hf]

/-- the stepping task notices the interruption: it re-arms the wait (with the parked wake-up, if any) and ends the step, the
pending pause taking effect -/
def rearm (c : Cfg) : Cfg :=
  match c.st with
  | .waiting fn wf _ _ =>
      match c.wfs[wf]? with
      | some (.interrupted k) => wake c fn wf (.interrupted k)
      | _ => c
  | _ => c

theorem wake_interrupted' (c : Cfg) (fn wf k f : Nat) (wk) (aw : List (Nat × Nat)) (hst : c.st = .waiting f wf wk aw)
    (hi : c.interrupt ≠ none) :
    wake c fn wf (.interrupted k) =
      finally_ (dispatch { c with st := .waiting f c.wfs.length none aw, wfs := c.wfs ++ [wk.getD .pending] } none) := by
  unfold wake; dsimp only; rw [hst]; dsimp only
  simp only [if_true]
  rw [endOfStep_unfold]
  cases hint : c.interrupt with
  | none => exact absurd hint hi
  | some i =>
    cases wk <;> simp only [prepare, Option.getD]

theorem fuel0_succ : fuel0 = (fuel0 - 1) + 1 := rfl

theorem tick_qw2 (P : Prog) (c d : Cfg) (h : QW2 c d) (hinv : InvP c) (hI : Inv c) :
    (heldB (rearm c) = true → LagW (tickStepper P c) d) ∧
    (heldB (rearm c) = false → tickDoneN P (fuel0 - 1) d = true → SL P (tickStepper P c) (tickStepper P d)) := by
  obtain ⟨hstep, hpn, hk, hio⟩ := h.stepping
  obtain ⟨fn, wf, aw, wk, k, hst, hw, hpc, hpk, hi⟩ := h.shape
  have hts : tickStepper P c = loopHead P fuel0 (wake c fn wf (.interrupted k)) :=
    tickStepper_wait_done P c fn wf wk aw (.interrupted k) hpc hst hw (by intro x; cases x)
  have hre : rearm c = wake c fn wf (.interrupted k) := by
    unfold rearm; rw [hst]; dsimp only; rw [hw]
  have hwinv := wake_invP c fn wf (.interrupted k) hinv
  rw [hts, hre]
  rw [wake_interrupted' c fn wf k fn wk aw hst hi] at hwinv ⊢
  -- the view
  have hu := unint_int c fn wf wk aw k hst hw
  have hv := h.view
  rw [hu] at hv
  obtain ⟨wf', w, _, hst', hcw, hdw, hni⟩ := hv.core.st.waiting_inv rfl
  have hnw : w = wk.getD .pending := by
    have : (setAt c.wfs wf (wk.getD .pending))[wf]? = some (wk.getD .pending) := setAt_self_get _ _ _ _ hw
    have h2 : (setAt c.wfs wf (wk.getD .pending))[wf]? = some w := hcw
    rw [this] at h2; cases h2; rfl
  subst hnw
  have hpd : d.pc = .awaitWaiting wf' := by
    have := hv.pc
    rw [show ({ c with st := SObj.waiting fn wf none aw, wfs := setAt c.wfs wf (wk.getD .pending) } : Cfg).pc = c.pc from rfl,
      hpc] at this
    obtain ⟨fn0, wk0, aw0, wf0, _, h2, h3⟩ := this
    rw [hst'] at h2; cases h2; exact h3
  have hdstep : d.stepping = true := by
    have := (sh_fields hv.core.sh).1
    rw [← this]; exact hstep
  -- the re-armed configuration is related to `d`
  have hcore : Core { c with st := .waiting fn c.wfs.length none aw, wfs := c.wfs ++ [wk.getD .pending] } d :=
    ⟨hv.core.sh, Or.inr ⟨fn, c.wfs.length, aw, wf', wk.getD .pending, rfl, hst', by simp, hdw, hni⟩,
      hv.core.ckill, hv.core.dint, hv.core.dpaused⟩
  have he := endRel_of c d _ d none none hcore (hio.of_eq rfl rfl) (Or.inl ⟨rfl, rfl⟩) rfl rfl
  have hm := mid_of_end he (by intro e he; rw [hpc] at he; cases he) (by intro e he; rw [hpd] at he; cases he)
  have hlive : terminal d.st.label = false := by rw [hst']; simp [SObj.label, terminal, allowed]
  have hlivec : terminal c.st.label = false := by rw [hst]; simp [SObj.label, terminal, allowed]
  have hcl : d.closed = false := by
    have h1 : c.closed = false := not_closed_of_live hI hlivec
    have h2 := (sh_fields hv.core.sh).2.2.2.1
    rw [← h2]; exact h1
  have he' : finally_ (dispatch d none) = { d with stepping := false, interrupt := none } := by
    rw [dispatch_d d none hv.core.dint hlive]
    unfold transOpt finally_ setInterrupt
    simp only [hv.core.dint]
  rw [he'] at hm
  -- `d` is its predecessor with the stepping flag set again
  have hdeq : ({ ({ d with stepping := false, interrupt := none } : Cfg) with stepping := true, pc := .awaitWaiting wf' } : Cfg) = d := by
    cases d
    simp only at hdstep hpd
    have hdi := hv.core.dint
    simp only at hdi
    subst hdstep hpd hdi
    rfl
  have hdeq2 : ({ ({ d with stepping := false, interrupt := none } : Cfg) with stepping := true } : Cfg) = d := by
    cases d
    simp only at hdstep
    have hdi := hv.core.dint
    simp only at hdi
    subst hdstep hdi
    rfl
  -- the state of the run with pauses after the re-arm
  generalize hE : finally_ (dispatch { c with st := .waiting fn c.wfs.length none aw, wfs := c.wfs ++ [wk.getD .pending] } none) = e
    at hm hwinv he ⊢
  have hest : ∃ wfe, e.st = .waiting fn wfe none aw ∧ e.wfs[wfe]? = some (wk.getD .pending) := by
    rcases hm.core.st with ⟨heq, hnw⟩ | ⟨fn0, wfe, aw0, wf0, w0, h1, h2, h3, h4, _⟩
    · exact absurd (heq.trans hst') (hnw _ _ _ _)
    · have h2' : d.st = .waiting fn0 wf0 none aw0 := h2
      rw [hst'] at h2'; cases h2'
      have h4' : d.wfs[wf']? = some w0 := h4
      rw [hdw] at h4'; cases h4'
      exact ⟨wfe, h1, h3⟩
  obtain ⟨wfe, hest, hewf⟩ := hest
  have hlivee : terminal e.st.label = false := by rw [hest]; simp [SObj.label, terminal, allowed]
  have hcle : e.closed = false := by
    have := (sh_fields hm.core.sh).2.2.2.1
    rw [this]; exact hcl
  have hd0st : ({ d with stepping := false, interrupt := none } : Cfg).st = .waiting fn wf' none aw := hst'
  constructor
  · intro hh
    obtain ⟨pf, hp, hf⟩ := (heldB_iff e).mp hh
    rw [fuel0_succ, loopHead_held P _ e hm.ncc hlivee hcle pf hp hf]
    have hm' : Mid { e with pc := .awaitPaused pf } { d with stepping := false, interrupt := none } :=
      ⟨⟨hm.core.sh, hm.core.st, hm.core.ckill, hm.core.dint, hm.core.dpaused⟩, hm.int, hm.stepping,
        (by intro x hx; cases hx), hm.ncd⟩
    have := inStep_onWait_intro _ _ hm' fn wfe wf' none aw hest hd0st
    rw [hdeq] at this
    exact ⟨rfl, by show isWaiting e.st = true; rw [hest]; rfl, hm.stepping, hm.int, this⟩
  · intro hh hD
    have hnh : ¬ Held e := by
      intro hx
      rw [(heldB_iff e).mpr hx] at hh; cases hh
    have hpe : e.paused = none := by
      cases hpa : e.paused with
      | none => rfl
      | some pf => exact absurd ⟨pf, hpa, hwinv.pausedPending hlivee pf hpa⟩ hnh
    rw [fuel0_succ, loopHead_go P _ e hm.ncc hlivee hcle hnh]
    by_cases hwp : wk.getD .pending = .pending
    · rw [hwp] at hewf hdw
      rw [stepBodyK_waiting_pending P _ e fn wfe none aw hest hewf, tickStepper_wait_pending P d wf' hpd hdw,
        ← onWait_eq_of_paused_none e fn wfe none aw hest hpe]
      have := inStep_onWait_intro _ _ hm fn wfe wf' none aw hest hd0st
      rw [hdeq] at this
      exact Or.inl this
    · rw [stepBodyK_waiting_done P _ e fn wfe none aw _ hest hewf hwp,
        tickStepper_wait_done P d fn wf' none aw _ hpd hst' hdw hwp]
      rw [tickDoneN_wait_done P _ d fn wf' none aw _ hpd hst' hdw hwp] at hD
      rw [(loop_mono_le P _ _ hD fuel0 (by unfold fuel0; omega)).2]
      have hc2 := core_stepping _ _ true hm.core
      rw [hdeq2] at hc2
      have he2 := wake_core { e with stepping := true } d fn wfe wf' _ hc2 (IntOk.of_none hm.int) hni hwp
      exact loopHead_sim P (fuel0 - 1) (fuel0 - 1) _ _ (Nat.le_refl _) (by unfold fuel0; omega)
        (mid_of_end he2 hm.ncc (by intro x hx; rw [hpd] at hx; cases hx))
        (wake_invP _ _ _ _ (hwinv.same ⟨rfl, rfl, rfl, rfl⟩)) hD

/-! ### histories -/

/-- a position at which the third partial theorem admits a wake-up request: every position at which the stepping task is not
suspended on a pause future (quiet, or between an interrupting pause request and the next tick), and those of `wakeOk` -/
def wakeOk3 (g : Bool) (c : Cfg) : Bool := !heldPc c || g || pendingWait c

def evAllowed3 (g : Bool) (c : Cfg) (e : Ev) : Bool :=
  match e with
  | .tick | .pause | .play => true
  | e => isWake e && wakeOk3 g c

def nextG3 (g : Bool) (c : Cfg) (e : Ev) : Bool :=
  match e with
  | .tick => if heldPc c then !runsBody c && g else (waitInterrupted c && heldB (rearm c))
  | .pause | .play => g
  | _ => if heldPc c then true else g

def admissible3 (P : Prog) : Bool → Cfg → List Ev → Bool
  | _, _, [] => true
  | g, c, e :: es => evAllowed3 g c e && admissible3 P (nextG3 g c e) (step P c e).1 es

/-- image of one event in the reference history: as `evImage2`, and the tick at which the stepping task re-arms an interrupted
wait and is then held by the pause is dropped (the reference run resumes the wait when the other run is released) -/
def evImage3 (g : Bool) (c : Cfg) : Ev → List Ev
  | .pause => []
  | .play => []
  | .tick =>
      if heldPc c then (if g && runsBody c then [.tick] else [])
      else if waitInterrupted c && heldB (rearm c) then [] else [.tick]
  | e => [e]

def unpaused3 (P : Prog) : Bool → Cfg → List Ev → List Ev
  | _, _, [] => []
  | g, c, e :: es => evImage3 g c e ++ unpaused3 P (nextG3 g c e) (step P c e).1 es

def Sim3 (P : Prog) (g : Bool) (c d : Cfg) : Prop :=
  (g = true ∧ LagW c d) ∨ ((g = false ∨ heldPc c = false) ∧ (InStep c d ∨ QW2 c d ∨ Lag P c d))

theorem Sim.to3 {P : Prog} {c d : Cfg} (h : Sim P c d) : InStep c d ∨ QW2 c d ∨ Lag P c d := by
  rcases h with h | h | h
  · exact Or.inl h
  · exact Or.inr (Or.inl (qw_to_qw2 h))
  · exact Or.inr (Or.inr h)

theorem inStep_not_held {c d : Cfg} (h : InStep c d) : heldPc c = false ∧ waitInterrupted c = false := by
  constructor
  · have := h.pc
    cases hpc : c.pc with
    | awaitPaused pf => rw [hpc] at this; exact absurd this (by simp [PcRelAt])
    | _ => simp [heldPc, hpc, isAwaitPaused]
  · unfold waitInterrupted
    split
    · rename_i fn wf wk aw hst
      obtain ⟨wf', w, _, _, hcw, _, hni⟩ := h.core.st.waiting_inv hst
      rw [hcw]
      cases w <;> first | rfl | exact absurd rfl (hni _)
    · rfl

theorem qw2_not_held {c d : Cfg} (h : QW2 c d) : heldPc c = false ∧ waitInterrupted c = true := by
  obtain ⟨fn, wf, aw, wk, k, hst, hw, hpc, _⟩ := h.shape
  exact ⟨by simp [heldPc, hpc, isAwaitPaused], by simp only [waitInterrupted, hst, hw]⟩

theorem lag_held {P : Prog} {c d : Cfg} (h : Lag P c d) : heldPc c = true := h.1

theorem wake_evImage3 (c : Cfg) (e : Ev) (h : isWake e = true) (g : Bool) : evImage3 g c e = [e] := by
  cases e <;> first | rfl | cases h
theorem wake_nextG3 (c : Cfg) (e : Ev) (h : isWake e = true) (g : Bool) : nextG3 g c e = if heldPc c then true else g := by
  cases e <;> first | rfl | cases h
theorem evAllowed3_wake (g : Bool) (c : Cfg) (e : Ev) (ha : evAllowed3 g c e = true)
    (h1 : e ≠ .tick) (h2 : e ≠ .pause) (h3 : e ≠ .play) : isWake e = true ∧ wakeOk3 g c = true := by
  cases e with
  | tick => exact absurd rfl h1
  | pause => exact absurd rfl h2
  | play => exact absurd rfl h3
  | _ => simpa [evAllowed3] using ha

theorem fuelOkN_tick (P : Prog) (n : Nat) (d : Cfg) (h : fuelOkN P n d [.tick] = true) : tickDoneN P n d = true := by
  simpa [fuelOkN] using h

theorem fuel0_pred_le : fuel0 - 1 ≤ fuel0 := by unfold fuel0; omega

/-- one wake-up request and its image (third class) -/
theorem wake_sim3 (P : Prog) (g : Bool) (c d : Cfg) (e : Ev) (h : Sim3 P g c d) (hinv : InvP c) (hI : Inv c)
    (hw : isWake e = true) (hok : wakeOk3 g c = true) :
    Sim3 P (nextG3 g c e) (step P c e).1 (step P d e).1 := by
  rw [wake_nextG3 c e hw g]
  rcases h with ⟨hg, hl⟩ | ⟨hc, hs⟩
  · have hh : heldPc c = true := hl.pc
    rw [if_pos hh]
    exact Or.inl ⟨rfl, wake_lagW P c d e hw hl⟩
  · have hpc' : heldPc (step P c e).1 = heldPc c := by simp only [heldPc]; rw [wake_pc P c e hw]
    rcases hs with hs | hs | hs
    · obtain ⟨hh, hwi⟩ := inStep_not_held hs
      rw [if_neg (by rw [hh]; simp)]
      have hq : quiet c = true := by
        simp only [heldPc] at hh
        simp [quiet, hh, hwi]
      have := step_sim P c d e (Or.inl hs) hinv hI (wake_evAllowed c e hw hq)
        (by rw [(wake_evImage c e hw g).2]; simp [fuelOk]; cases e <;> first | rfl | cases hw)
      rw [(wake_evImage c e hw g).2] at this
      exact Or.inr ⟨Or.inr (by rw [hpc']; exact hh), this.to3⟩
    · obtain ⟨hh, _⟩ := qw2_not_held hs
      rw [if_neg (by rw [hh]; simp)]
      exact Or.inr ⟨Or.inr (by rw [hpc']; exact hh), Or.inr (Or.inl (wake_qw2 P c d e hw hs))⟩
    · have hh := lag_held hs
      rw [if_pos hh]
      have hg : g = false := by
        rcases hc with hc | hc
        · exact hc
        · rw [hh] at hc; cases hc
      subst hg
      have hpw : pendingWait c = true := by simpa [wakeOk3, hh] using hok
      obtain ⟨fn, wf, wk, aw, hst, hwp⟩ := pendingWait_spec c hpw
      exact Or.inl ⟨rfl, wake_lagW P c d e hw (lag_to_lagW P c d hs hI fn wf wk aw hst hwp)⟩

/-- one event of the history with pauses and its image in the reference history (third class) -/
theorem step_sim3 (P : Prog) (g : Bool) (c d : Cfg) (e : Ev) (h : Sim3 P g c d) (hinv : InvP c) (hI : Inv c)
    (ha : evAllowed3 g c e = true) (hf : fuelOkN P (fuel0 - 1) d (evImage3 g c e) = true) :
    Sim3 P (nextG3 g c e) (step P c e).1 (run P d (evImage3 g c e)) := by
  by_cases h1 : e = .tick
  · subst h1
    rcases h with ⟨hg, hl⟩ | ⟨hc, hs⟩
    · have hh : heldPc c = true := hl.pc
      subst hg
      by_cases hr : runsBody c = true
      · have him : evImage3 true c .tick = [.tick] := by simp [evImage3, hh, hr]
        rw [him] at hf ⊢
        have hD : tickDone P d = true := by
          rw [← tickDoneN_fuel0]; exact tickDoneN_le P _ _ fuel0_pred_le d (fuelOkN_tick P _ d hf)
        have hng : nextG3 true c .tick = false := by simp [nextG3, hh, hr]
        rw [hng]
        exact Or.inr ⟨Or.inl rfl, ((tick_lagW P c d hl hinv).2 hr hD).sim.to3⟩
      · have hrf : runsBody c = false := by simpa using hr
        have him : evImage3 true c .tick = [] := by simp [evImage3, hh, hrf]
        have hng : nextG3 true c .tick = true := by simp [nextG3, hh, hrf]
        rw [him, hng]
        exact Or.inl ⟨rfl, (tick_lagW P c d hl hinv).1 hrf⟩
    · rcases hs with hs | hs | hs
      · obtain ⟨hh, hwi⟩ := inStep_not_held hs
        have him : evImage3 g c .tick = [.tick] := by simp [evImage3, hh, hwi]
        have hng : nextG3 g c .tick = false := by simp [nextG3, hh, hwi]
        rw [him] at hf ⊢
        rw [hng]
        have hD : tickDone P d = true := by
          rw [← tickDoneN_fuel0]; exact tickDoneN_le P _ _ fuel0_pred_le d (fuelOkN_tick P _ d hf)
        exact Or.inr ⟨Or.inl rfl, (tick_inStep P c d hs hinv hD).sim.to3⟩
      · obtain ⟨hh, hwi⟩ := qw2_not_held hs
        by_cases hb : heldB (rearm c) = true
        · have him : evImage3 g c .tick = [] := by simp [evImage3, hh, hwi, hb]
          have hng : nextG3 g c .tick = true := by simp [nextG3, hh, hwi, hb]
          rw [him, hng]
          exact Or.inl ⟨rfl, (tick_qw2 P c d hs hinv hI).1 hb⟩
        · have hbf : heldB (rearm c) = false := by simpa using hb
          have him : evImage3 g c .tick = [.tick] := by simp [evImage3, hh, hwi, hbf]
          have hng : nextG3 g c .tick = false := by simp [nextG3, hh, hwi, hbf]
          rw [him] at hf ⊢
          rw [hng]
          exact Or.inr ⟨Or.inl rfl, ((tick_qw2 P c d hs hinv hI).2 hbf (fuelOkN_tick P _ d hf)).sim.to3⟩
      · have hh := lag_held hs
        have hg : g = false := by
          rcases hc with hc | hc
          · exact hc
          · rw [hh] at hc; cases hc
        subst hg
        have him : evImage3 false c .tick = [] := by simp [evImage3, hh]
        have hng : nextG3 false c .tick = false := by simp [nextG3, hh]
        rw [him, hng]
        exact Or.inr ⟨Or.inl rfl, (tick_lag P c d hs hinv hI).sim.to3⟩
  · by_cases h2 : e = .pause
    · subst h2
      show Sim3 P g (pause c).1 d
      rcases h with ⟨hg, hl⟩ | ⟨hc, hs⟩
      · exact Or.inl ⟨hg, pause_lagW c d hl⟩
      · have hk : c.killing = none := by
          rcases hs with hs | hs | hs
          · exact hs.core.ckill
          · exact hs.stepping.2.2.1
          · exact (Sim.ckill (P := P) (Or.inr (Or.inr hs)))
        refine Or.inr ⟨by simp only [heldPc] at hc ⊢; rw [pause_pc c hk]; exact hc, ?_⟩
        rcases hs with hs | hs | hs
        · exact (pause_sim P c d (Or.inl hs)).to3
        · exact Or.inr (Or.inl (pause_qw2 c d hs))
        · exact (pause_sim P c d (Or.inr (Or.inr hs))).to3
    · by_cases h3 : e = .play
      · subst h3
        show Sim3 P g (play c).1 d
        rcases h with ⟨hg, hl⟩ | ⟨hc, hs⟩
        · exact Or.inl ⟨hg, play_lagW c d hl⟩
        · refine Or.inr ⟨by simp only [heldPc] at hc ⊢; rw [(play_shape c).1.2.2.2]; exact hc, ?_⟩
          rcases hs with hs | hs | hs
          · exact (play_sim P c d (Or.inl hs)).to3
          · exact Or.inr (Or.inl (play_qw2 c d hs))
          · exact (play_sim P c d (Or.inr (Or.inr hs))).to3
      · obtain ⟨hw, hok⟩ := evAllowed3_wake g c e ha h1 h2 h3
        rw [wake_evImage3 c e hw g]
        exact wake_sim3 P g c d e h hinv hI hw hok

/-- **simulation over whole histories (third class)** -/
theorem run_sim3 (P : Prog) : ∀ (evs : List Ev) (g : Bool) (c d : Cfg), Sim3 P g c d → InvP c → Inv c →
    admissible3 P g c evs = true → fuelOkN P (fuel0 - 1) d (unpaused3 P g c evs) = true →
    ∃ g', Sim3 P g' (run P c evs) (run P d (unpaused3 P g c evs)) := by
  intro evs
  induction evs with
  | nil => intro g c d h _ _ _ _; exact ⟨g, h⟩
  | cons e es ih =>
    intro g c d h hinv hI ha hf
    simp only [admissible3, Bool.and_eq_true] at ha
    simp only [unpaused3, fuelOkN_append, Bool.and_eq_true] at hf
    rw [show run P c (e :: es) = run P (step P c e).1 es from rfl]
    simp only [unpaused3, run_append]
    exact ih _ _ _ (step_sim3 P g c d e h hinv hI ha.1 hf.1) (step_invP P c e hinv) (step_inv P c e hI) ha.2 hf.2

theorem sim3_init (P : Prog) (nf : Nat) : Sim3 P false (init nf) (init nf) := Or.inr ⟨Or.inl rfl, (sim_init P nf).to3⟩

theorem Sim3.of_terminal {P : Prog} {g : Bool} {c d : Cfg} (h : Sim3 P g c d) (ht : terminal c.st.label = true) :
    d.st = c.st ∧ sh d = sh c := by
  rcases h with ⟨_, hl⟩ | ⟨_, hs | hs | hs⟩
  · exact (Sim2.of_terminal (P := P) (Or.inl ⟨rfl, hl⟩)) ht
  · exact (Sim.of_terminal (P := P) (Or.inl hs)) ht
  · obtain ⟨fn, wf, aw, wk, k, hst, _⟩ := hs.shape
    rw [hst] at ht; simp [SObj.label, PMF.terminal, allowed] at ht
  · exact (Sim.of_terminal (P := P) (Or.inr (Or.inr hs))) ht

theorem Sim3.never_ahead {P : Prog} {g : Bool} {c d : Cfg} (h : Sim3 P g c d) : TraceExt c d := by
  rcases h with ⟨_, hl⟩ | ⟨_, hs | hs | hs⟩
  · exact (Sim2.never_ahead (P := P) (Or.inl ⟨rfl, hl⟩))
  · exact (Sim.never_ahead (P := P) (Or.inl hs))
  · have h1 := (sh_fields hs.view.core.sh).2.2.2.2.2.2.2.2.2.2.2.1
    have h2 := (sh_fields (unint_same c).1).2.2.2.2.2.2.2.2.2.2.2.1
    exact TraceExt.of_eq (by rw [← h1, h2])
  · exact (Sim.never_ahead (P := P) (Or.inr (Or.inr hs)))

/-! ### the reference history `unpaused3` is again an erasure; the third class contains the second -/

theorem evImage3_cases (g : Bool) (c : Cfg) (x : Ev) :
    evImage3 g c x = [] ∧ (x = .tick ∨ x = .pause ∨ x = .play) ∨ evImage3 g c x = [x] ∧ x ≠ .pause ∧ x ≠ .play := by
  have ne1 : Ev.tick ≠ Ev.pause := by intro h; cases h
  have ne2 : Ev.tick ≠ Ev.play := by intro h; cases h
  cases x with
  | pause => exact Or.inl ⟨rfl, Or.inr (Or.inl rfl)⟩
  | play => exact Or.inl ⟨rfl, Or.inr (Or.inr rfl)⟩
  | tick =>
    by_cases h1 : heldPc c = true
    · by_cases h2 : (g && runsBody c) = true
      · exact Or.inr ⟨by simp only [evImage3, h1, h2, if_true], ne1, ne2⟩
      · exact Or.inl ⟨by simp only [evImage3, h1, h2, if_true, if_false]; rfl, Or.inl rfl⟩
    · by_cases h2 : (waitInterrupted c && heldB (rearm c)) = true
      · exact Or.inl ⟨by simp only [evImage3, h1, h2, if_true, if_false]; rfl, Or.inl rfl⟩
      · exact Or.inr ⟨by simp only [evImage3, h1, h2, if_false]; rfl, ne1, ne2⟩
  | tickCb cb => exact Or.inr ⟨rfl, (by intro h; cases h), (by intro h; cases h)⟩
  | kill => exact Or.inr ⟨rfl, (by intro h; cases h), (by intro h; cases h)⟩
  | resume v => exact Or.inr ⟨rfl, (by intro h; cases h), (by intro h; cases h)⟩
  | fail e => exact Or.inr ⟨rfl, (by intro h; cases h), (by intro h; cases h)⟩
  | cancelFut => exact Or.inr ⟨rfl, (by intro h; cases h), (by intro h; cases h)⟩
  | complete f o => exact Or.inr ⟨rfl, (by intro h; cases h), (by intro h; cases h)⟩
  | callSoon r => exact Or.inr ⟨rfl, (by intro h; cases h), (by intro h; cases h)⟩

theorem unpaused3_no_pp (P : Prog) : ∀ (evs : List Ev) (g : Bool) (c : Cfg), ∀ e ∈ unpaused3 P g c evs, e ≠ .pause ∧ e ≠ .play := by
  intro evs
  induction evs with
  | nil => intro g c e he; simp [unpaused3] at he
  | cons x rest ih =>
    intro g c e he
    simp only [unpaused3, List.mem_append] at he
    rcases he with he | he
    · rcases evImage3_cases g c x with ⟨h1, _⟩ | ⟨h1, h2⟩
      · rw [h1] at he; cases he
      · rw [h1] at he; simp at he; subst he; exact h2
    · exact ih _ _ e he

theorem erasePP_cons_keep (x : Ev) (es : List Ev) (h1 : x ≠ .pause) (h2 : x ≠ .play) : erasePP (x :: es) = x :: erasePP es := by
  cases x <;> first | rfl | exact absurd rfl h1 | exact absurd rfl h2

theorem unpaused3_sublist (P : Prog) : ∀ (evs : List Ev) (g : Bool) (c : Cfg), (unpaused3 P g c evs).Sublist (erasePP evs) := by
  intro evs
  induction evs with
  | nil => intro g c; exact List.Sublist.slnil
  | cons x rest ih =>
    intro g c
    have := ih (nextG3 g c x) (step P c x).1
    simp only [unpaused3]
    rcases evImage3_cases g c x with ⟨h1, h2⟩ | ⟨h1, h2, h3⟩
    · rw [h1]
      rcases h2 with rfl | rfl | rfl
      · exact List.Sublist.cons _ this
      · exact this
      · exact this
    · rw [h1, erasePP_cons_keep x rest h2 h3]
      exact List.Sublist.cons_cons _ this

theorem unpaused3_nonticks (P : Prog) : ∀ (evs : List Ev) (g : Bool) (c : Cfg),
    (unpaused3 P g c evs).filter (fun e => !isTick e) = (erasePP evs).filter (fun e => !isTick e) := by
  intro evs
  induction evs with
  | nil => intro g c; rfl
  | cons x rest ih =>
    intro g c
    have := ih (nextG3 g c x) (step P c x).1
    simp only [unpaused3]
    rcases evImage3_cases g c x with ⟨h1, h2⟩ | ⟨h1, h2, h3⟩
    · rw [h1]
      rcases h2 with rfl | rfl | rfl
      · simpa [erasePP, isTick] using this
      · simpa [erasePP] using this
      · simpa [erasePP] using this
    · rw [h1, erasePP_cons_keep x rest h2 h3]
      simp only [List.cons_append, List.nil_append, List.filter_cons]
      rw [this]

theorem admissible2_sub3 (P : Prog) : ∀ (evs : List Ev) (g g' : Bool) (c : Cfg), (g = true → g' = true) →
    admissible2 P g c evs = true → admissible3 P g' c evs = true := by
  intro evs
  induction evs with
  | nil => intro g g' c _ _; rfl
  | cons x rest ih =>
    intro g g' c hgg h
    simp only [admissible2, Bool.and_eq_true] at h
    simp only [admissible3, Bool.and_eq_true]
    have hng : nextG g c x = true → nextG3 g' c x = true := by
      cases x with
      | tick =>
        simp only [nextG, nextG3]
        intro hh
        simp only [Bool.and_eq_true] at hh
        rw [if_pos hh.1.1, hgg hh.2, hh.1.2]; rfl
      | pause => exact hgg
      | play => exact hgg
      | _ =>
        simp only [nextG, nextG3]
        intro hh
        split
        · rfl
        · rename_i hne
          rw [if_neg hne] at hh
          exact hgg hh
    refine ⟨?_, ih _ _ _ hng h.2⟩
    by_cases h1 : x = .tick
    · subst h1; rfl
    · by_cases h2 : x = .pause
      · subst h2; rfl
      · by_cases h3 : x = .play
        · subst h3; rfl
        · obtain ⟨hw, hok⟩ := evAllowed2_wake g c x h.1 h1 h2 h3
          have hok3 : wakeOk3 g' c = true := by
            simp only [wakeOk, Bool.or_eq_true, Bool.and_eq_true] at hok
            simp only [wakeOk3, Bool.or_eq_true, Bool.not_eq_true']
            rcases hok with hq | ⟨_, hg | hp⟩
            · left; left
              cases hh : heldPc c with
              | false => rfl
              | true => rw [quiet_not_held c hh] at hq; cases hq
            · left; right; exact hgg hg
            · right; exact hp
          cases x <;> first | (simp [evAllowed3, hw, hok3]) | exact absurd rfl h1 | exact absurd rfl h2 | exact absurd rfl h3
