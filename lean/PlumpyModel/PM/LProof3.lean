import PlumpyModel.PM.LProof2
/-!
# `PMF.L` — a kill that is pending when the closing part of a step starts takes effect (whatever the listeners request)
-/
namespace PMF
namespace L

section
variable {F : Hook → LCfg → LCfg}

theorem enactLoop_terminal (n : Nat) (l : LCfg) (ht : terminal l.c.st.label = true) : enactLoop F n l = l := by
  cases n with
  | zero => rfl
  | succ n =>
    unfold enactLoop
    split
    · simp [ht]
    · rfl

theorem ke_terminal {c : Cfg} (h : KE c) : terminal c.st.label = true := by
  rcases h with h | h <;> simp [h, terminal, allowed]

theorem runActionL_kill (l : LCfg) (i : Nat) (next : Option SObj) (a : Action) (ha : l.c.actions[i]? = some a)
    (hp : a.status = .pending) (hk : a.kind = .kill) : KE (runActionL F l i next).c := by
  unfold runActionL
  rw [ha]; simp only [hp, ne_eq, not_true_eq_false, if_false, hk]
  have h1 : KE ((transitionToL F l .killed).upd (fun c => { c with killing := none })).c :=
    transitionToL_ke (F := F) l .killed (Or.inl rfl)
  split
  · unfold KE at h1 ⊢
    rw [upd_c, (setActionStatus_hkc _ _ _).st]; exact h1
  · exact h1

theorem pending_entry {k : Nat} {c : Cfg} (h : Pending k c) :
    ∃ a, c.actions[k]? = some a ∧ a.status = .pending ∧ a.kind = .kill := by
  obtain ⟨_, _, _, hst, _, hkind⟩ := h
  cases ha : c.actions[k]? with
  | none => simp [actionKind, ha] at hkind
  | some a =>
    refine ⟨a, rfl, ?_, ?_⟩
    · simpa [actionStatus, ha] using hst
    · simpa [actionKind, ha] using hkind

/-- **a pending kill takes effect in the closing part**: if the kill action `k` is the pending interrupt action when the step's
`execute` returns (or raises), then — whatever listeners and state-event callbacks request while the closing part runs — the
step ends KILLED, or EXCEPTED (the step failed, or entering KILLED failed). -/
theorem endOfStepL_pending (k : Nat) (l : LCfg) (r : StepEnd) (h : Pending k l.c) : KE (endOfStepL F l r).c := by
  obtain ⟨a, ha, hapend, hakind⟩ := pending_entry h
  obtain ⟨hl, hkill, hint, hst, hstep, hkind⟩ := h
  have hfin : ∀ d : LCfg, KE d.c → KE (d.upd finally_).c := by
    intro d hd; unfold KE at hd ⊢; rw [upd_c, (finally_same d.c).1]; exact hd
  -- dispatch with the kill still in the slot
  have hdisp : ∀ (l' : LCfg) next, l'.c = l.c → KE (dispatchL F l' next).c := by
    intro l' next hc
    unfold dispatchL
    simp only [hc, hl, Bool.false_eq_true, if_false]
    have h1 : KE (dispatch1L F l' next).c := by
      unfold dispatch1L
      have : actionStatus l.c k ≠ .cancelled := by rw [hst]; simp
      simp only [hc, hint, this, ne_eq, not_false_eq_true, if_true]
      exact runActionL_kill l' k next a (by rw [hc]; exact ha) hapend hakind
    rw [enactLoop_terminal _ _ (ke_terminal h1)]; exact h1
  -- dispatch after the step failed
  have hexc : ∀ (l' : LCfg) e, l'.c = setInterrupt l.c none → KE (dispatchL F l' (some (.excepted e))).c := by
    intro l' e hc
    have hs := setInterrupt_same l.c none
    unfold dispatchL
    simp only [hc, hs.1, hl, Bool.false_eq_true, if_false]
    have hi : (setInterrupt l.c none).interrupt = none := by unfold setInterrupt; split <;> rfl
    have h1 : KE (dispatch1L F l' (some (.excepted e))).c := by
      unfold dispatch1L
      simp only [hc, hi]
      exact transitionToL_ke _ _ (Or.inr rfl)
    rw [enactLoop_terminal _ _ (ke_terminal h1)]; exact h1
  unfold endOfStepL
  dsimp only
  apply hfin
  unfold prepare
  split
  · exact hexc _ _ rfl
  · exact hdisp _ _ rfl
  · simp only [hint]; exact hdisp _ none rfl
  · exact hexc _ _ rfl
end

end L
end PMF
