import PlumpyModel.PM.Proof12
/-!
# C05 — the unrestricted transparency statement fails for a program that awaits ONE future under TWO context keys

`dupP` registers the external future 0 under the keys 5 and 6 in one `ToContext` and then returns what it finds under key 6.
`dupHist` resumes the wait, completes the future, and pauses so that the stepping task is held at the step boundary *after*
the wait; the future's done-callback runs during the hold.  It is then a callback of a state that was left, and
`awaitableDone` files the result under the key found in `efKeys` (the last one registered: 6); the next step reads it.
Without a pause the callback either runs on the WAITING state (`aw.find?`: the first key, 5) or after the next step has read
the context.  The proof explores all histories over `tick` and the three requests (each once, any order, any number of ticks
anywhere): 44 configurations, none of them FINISHED with result 3.

(The real `WorkChain.to_context` keeps ONE key per future — a dict keyed by the future —, so the program is outside what the
harness generates and outside `AwDistinct` of `Proof13`; see DESIGN.md, C05.)
-/
namespace PMF

deriving instance DecidableEq for Action
deriving instance DecidableEq for Cfg

def dupP : Prog := fun fn _ _ ctx =>
  match fn with
  | 0 => ⟨0, .ret (.waitOn 1 [(0, 5), (0, 6)])⟩
  | _ => ⟨0, .ret (.stop ((ctx.find? (·.1 = 6)).map (·.2)) true)⟩

def dupHist : List Ev :=
  [.tick, .resume none, .complete 0 (.result 3), .pause, .tick, .tickCb (.adone 0), .play, .tick]

def dupReqs : List Ev := [.resume none, .complete 0 (.result 3), .tickCb (.adone 0)]

/-- a configuration together with the requests not yet issued -/
abbrev DSt := Cfg × List Ev

def dupSuccs (s : DSt) : List DSt :=
  ((step dupP s.1 .tick).1, s.2) :: s.2.map (fun e => ((step dupP s.1 e).1, s.2.erase e))

def dupBfs : Nat → List DSt → List DSt → List DSt
  | 0, seen, _ => seen
  | _+1, seen, [] => seen
  | n+1, seen, s :: todo =>
    let new := ((dupSuccs s).filter (fun t => !(seen.contains t))).eraseDups
    dupBfs n (seen ++ new) (todo ++ new)

def dupReach : List DSt := dupBfs 200 [(init 1, dupReqs)] [(init 1, dupReqs)]

theorem dupReach_init : (init 1, dupReqs) ∈ dupReach := by decide +kernel
theorem dupReach_closed : dupReach.all (fun s => (dupSuccs s).all dupReach.contains) = true := by decide +kernel
theorem dupReach_done : dupReach.all (fun s => tickDone dupP s.1) = true := by decide +kernel
theorem dupReach_final : dupReach.all (fun s => !s.2.isEmpty || decide (s.1.st ≠ .finished (some 3) true)) = true := by
  decide +kernel

theorem dupReach_step (s t : DSt) (hs : s ∈ dupReach) (ht : t ∈ dupSuccs s) : t ∈ dupReach := by
  have h := dupReach_closed
  rw [List.all_eq_true] at h
  have h2 := h s hs
  rw [List.all_eq_true] at h2
  have := h2 t ht
  simpa using this

/-- every history over ticks and the three requests (each once) stays inside `dupReach` and never exhausts the fuel -/
theorem dupReach_run : ∀ (evs : List Ev) (c : Cfg) (rem : List Ev), (c, rem) ∈ dupReach →
    (evs.filter (fun e => !isTick e)).Perm rem →
    fuelOk dupP c evs = true ∧ (run dupP c evs, []) ∈ dupReach := by
  intro evs
  induction evs with
  | nil =>
    intro c rem hm hp
    have : rem = [] := by simpa using hp.symm
    subst this
    exact ⟨rfl, hm⟩
  | cons e es ih =>
    intro c rem hm hp
    by_cases ht : e = .tick
    · subst ht
      have hp' : (es.filter (fun e => !isTick e)).Perm rem := by simpa [isTick] using hp
      have hm' : ((step dupP c .tick).1, rem) ∈ dupReach :=
        dupReach_step (c, rem) _ hm (List.mem_cons_self ..)
      obtain ⟨i1, i2⟩ := ih _ _ hm' hp'
      have hd : tickDone dupP c = true := by
        have h := dupReach_done
        rw [List.all_eq_true] at h
        exact h (c, rem) hm
      refine ⟨?_, i2⟩
      simp only [fuelOk, hd, Bool.true_and]
      exact i1
    · have hnt : isTick e = false := by cases e <;> first | rfl | exact absurd rfl ht
      have hp' : (e :: es.filter (fun e => !isTick e)).Perm rem := by simpa [List.filter, hnt] using hp
      obtain ⟨hmem, hp2⟩ := List.cons_perm_iff_perm_erase.mp hp'
      have hm' : ((step dupP c e).1, rem.erase e) ∈ dupReach := by
        apply dupReach_step (c, rem) _ hm
        refine List.mem_cons_of_mem _ ?_
        exact List.mem_map.mpr ⟨e, hmem, rfl⟩
      obtain ⟨i1, i2⟩ := ih _ _ hm' hp2
      refine ⟨?_, i2⟩
      have : fuelOk dupP c (e :: es) = fuelOk dupP (step dupP c e).1 es := by
        cases e <;> first | rfl | exact absurd rfl ht
      rw [this]; exact i1

/-- no history without pause and play that issues the three requests of `dupHist` once each (in any order, with any ticks)
ends FINISHED with result 3 — and none of them exhausts the fuel -/
theorem dup_no_reference (evs : List Ev) (hp : (evs.filter (fun e => !isTick e)).Perm dupReqs) :
    fuelOk dupP (init 1) evs = true ∧ (run dupP (init 1) evs).st ≠ .finished (some 3) true := by
  obtain ⟨h1, h2⟩ := dupReach_run evs (init 1) dupReqs dupReach_init hp
  refine ⟨h1, ?_⟩
  have h := dupReach_final
  rw [List.all_eq_true] at h
  have := h _ h2
  simpa using this

theorem dupHist_result : (run dupP (init 1) dupHist).st = .finished (some 3) true := by decide +kernel
theorem dupHist_reqs : (erasePP dupHist).filter (fun e => !isTick e) = dupReqs := by decide +kernel

end PMF
