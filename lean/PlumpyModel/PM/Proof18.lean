import PlumpyModel.PM.Proof17
/-!
# C05 — transparency, fourth class: histories, the reference history with deferred ticks, the simulation

`admissible4` / `unpaused4` extend `admissible3` / `unpaused3` (`Proof16.lean`) by one more piece of state, `p : Option (List Nat)`:
`p = some L` says that a tick of the reference history is **deferred** — the run with pauses made a tick whose first step ended
with the pause taking effect at a step boundary in CREATED or RUNNING (`defers`), the reference history has not emitted that tick
yet, and `L` lists the external futures that carried a done-callback when that tick started.  While `p = some L` the wake-ups
`pendOk L` are admitted and emitted at once (so they reach the reference run *before* the deferred tick); the deferred tick is
emitted when the held stepping task is woken (`runsBody`; that tick of the run with pauses has no image of its own) or at
the end of the history.
-/
namespace PMF

/-- the next tick ends, after its first step, with the pause taking effect at a step boundary in CREATED or RUNNING: the
stepping task is not suspended on a pause future, the current wait is not interrupted, the first step is a transition into
RUNNING or the task has not started (`okFirst`), and after it the process is paused (`heldB`) in CREATED or RUNNING -/
def defers (c : Cfg) : Bool :=
  !heldPc c && !waitInterrupted c && okFirst c && heldB (firstStep c) && isCR (firstStep c).st

def wakeOk4 (g : Bool) (p : Option (List Nat)) (c : Cfg) (e : Ev) : Bool :=
  wakeOk3 g c || (match p with | some L => pendOk L e | none => false)

def evAllowed4 (g : Bool) (p : Option (List Nat)) (c : Cfg) (e : Ev) : Bool :=
  match e with
  | .tick | .pause | .play => true
  | e => isWake e && wakeOk4 g p c e

def nextG4 (g : Bool) (c : Cfg) (e : Ev) : Bool :=
  match e with
  | .tick | .pause | .play => nextG3 g c e
  | e => if wakeOk3 g c then nextG3 g c e else g

def nextP (p : Option (List Nat)) (c : Cfg) (e : Ev) : Option (List Nat) :=
  match e with
  | .tick =>
      (match p with
       | none => if defers c then some c.efCb else none
       | some L => if runsBody c then none else some L)
  | _ => p

def admissible4 (P : Prog) : Bool → Option (List Nat) → Cfg → List Ev → Bool
  | _, _, _, [] => true
  | g, p, c, e :: es => evAllowed4 g p c e && admissible4 P (nextG4 g c e) (nextP p c e) (step P c e).1 es

/-- image of one event in the reference history: as `evImage3`, except that a tick that `defers` is not emitted, and that
the tick that wakes the held stepping task while a tick is deferred emits the deferred one -/
def evImage4 (g : Bool) (p : Option (List Nat)) (c : Cfg) : Ev → List Ev
  | .tick =>
      (match p with
       | none => if defers c then [] else evImage3 g c .tick
       | some _ => if runsBody c then [.tick] else [])
  | e => evImage3 g c e

/-- the reference history of the fourth class; a tick still deferred at the end of the history is emitted last -/
def unpaused4 (P : Prog) : Bool → Option (List Nat) → Cfg → List Ev → List Ev
  | _, p, _, [] => if p.isSome then [.tick] else []
  | g, p, c, e :: es => evImage4 g p c e ++ unpaused4 P (nextG4 g c e) (nextP p c e) (step P c e).1 es

/-- the relation of the fourth class: `Sim3`, or `Pend` while a tick is deferred -/
def Sim4 (P : Prog) (g : Bool) (p : Option (List Nat)) (c d : Cfg) : Prop :=
  match p with
  | none => Sim3 P g c d
  | some L => g = false ∧ Pend L c d

theorem evImage4_nontick (g : Bool) (p : Option (List Nat)) (c : Cfg) (e : Ev) (h : e ≠ .tick) :
    evImage4 g p c e = evImage3 g c e := by
  cases e <;> first | rfl | exact absurd rfl h

theorem nextP_nontick (p : Option (List Nat)) (c : Cfg) (e : Ev) (h : e ≠ .tick) : nextP p c e = p := by
  cases e <;> first | rfl | exact absurd rfl h

theorem nextG4_wake (g : Bool) (c : Cfg) (e : Ev) (h : isWake e = true) :
    nextG4 g c e = if wakeOk3 g c then nextG3 g c e else g := by
  cases e <;> first | rfl | cases h

theorem evAllowed4_wake (g : Bool) (p : Option (List Nat)) (c : Cfg) (e : Ev) (ha : evAllowed4 g p c e = true)
    (h1 : e ≠ .tick) (h2 : e ≠ .pause) (h3 : e ≠ .play) : isWake e = true ∧ wakeOk4 g p c e = true := by
  cases e with
  | tick => exact absurd rfl h1
  | pause => exact absurd rfl h2
  | play => exact absurd rfl h3
  | _ => simpa [evAllowed4] using ha

theorem run_single (P : Prog) (d : Cfg) (e : Ev) : run P d [e] = (step P d e).1 := rfl

theorem pend_not_wakeOk3 {L : List Nat} {c d : Cfg} (h : Pend L c d) : wakeOk3 false c = false := by
  have h1 : heldPc c = true := h.held
  have h2 : pendingWait c = false := by
    unfold pendingWait
    split
    · rename_i fn wf wk aw hst; exact absurd hst (isCR_notWaiting h.cr _ _ _ _)
    · rfl
  simp [wakeOk3, h1, h2]

/-- one event of the history with pauses and its image in the reference history (fourth class) -/
theorem step_sim4 (P : Prog) (g : Bool) (p : Option (List Nat)) (c d : Cfg) (e : Ev) (h : Sim4 P g p c d) (hinv : InvP c)
    (hI : Inv c) (ha : evAllowed4 g p c e = true) (hf : fuelOkN P (fuel0 - 1) d (evImage4 g p c e) = true) :
    Sim4 P (nextG4 g c e) (nextP p c e) (step P c e).1 (run P d (evImage4 g p c e)) := by
  cases p with
  | none =>
    have h3 : Sim3 P g c d := h
    by_cases h1 : e = .tick
    · subst h1
      by_cases hd : defers c = true
      · have him : evImage4 g none c .tick = [] := by simp [evImage4, hd]
        have hnp : nextP none c .tick = some c.efCb := by simp [nextP, hd]
        simp only [defers, Bool.and_eq_true, Bool.not_eq_true'] at hd
        obtain ⟨⟨⟨⟨hh, hwi⟩, hok⟩, hb⟩, hcr⟩ := hd
        have hng : nextG4 g c .tick = false := by
          show nextG3 g c .tick = false
          simp [nextG3, hh, hwi]
        rw [him, hnp, hng]
        have hin : InStep c d := by
          rcases h3 with ⟨_, hl⟩ | ⟨_, hs | hs | hs⟩
          · have : heldPc c = true := hl.pc
            rw [hh] at this; cases this
          · exact hs
          · rw [(qw2_not_held hs).2] at hwi; cases hwi
          · rw [lag_held hs] at hh; cases hh
        exact ⟨rfl, pend_intro P c d hin hI hok hb hcr⟩
      · have hdf : defers c = false := by simpa using hd
        have him : evImage4 g none c .tick = evImage3 g c .tick := by simp [evImage4, hdf]
        have hnp : nextP none c .tick = none := by simp [nextP, hdf]
        rw [him] at hf ⊢
        rw [hnp]
        exact step_sim3 P g c d .tick h3 hinv hI rfl hf
    · rw [evImage4_nontick g none c e h1] at hf ⊢
      rw [nextP_nontick none c e h1]
      by_cases h2 : e = .pause
      · subst h2; exact step_sim3 P g c d .pause h3 hinv hI rfl hf
      · by_cases h3' : e = .play
        · subst h3'; exact step_sim3 P g c d .play h3 hinv hI rfl hf
        · obtain ⟨hw, hok⟩ := evAllowed4_wake g none c e ha h1 h2 h3'
          have hok3 : wakeOk3 g c = true := by simpa [wakeOk4] using hok
          rw [nextG4_wake g c e hw, if_pos hok3, wake_evImage3 c e hw g, run_single]
          exact wake_sim3 P g c d e h3 hinv hI hw hok3
  | some L =>
    obtain ⟨hg, hp⟩ : g = false ∧ Pend L c d := h
    subst hg
    have hh : heldPc c = true := hp.held
    by_cases h1 : e = .tick
    · subst h1
      have hng : nextG4 false c .tick = false := by
        show nextG3 false c .tick = false
        simp [nextG3, hh]
      rw [hng]
      by_cases hr : runsBody c = true
      · have him : evImage4 false (some L) c .tick = [.tick] := by simp [evImage4, hr]
        have hnp : nextP (some L) c .tick = none := by simp [nextP, hr]
        rw [him] at hf ⊢
        rw [hnp, run_single]
        have hD : tickDone P d = true := by
          rw [← tickDoneN_fuel0]; exact tickDoneN_le P _ _ fuel0_pred_le d (fuelOkN_tick P _ d hf)
        have hlag := pend_flush P L c d hp hD
        exact Or.inr ⟨Or.inl rfl, (tick_lag P c _ hlag hinv hI).sim.to3⟩
      · have hrf : runsBody c = false := by simpa using hr
        have him : evImage4 false (some L) c .tick = [] := by simp [evImage4, hrf]
        have hnp : nextP (some L) c .tick = some L := by simp [nextP, hrf]
        rw [him, hnp]
        exact ⟨rfl, tick_pend_idle P L c d hp hrf⟩
    · rw [evImage4_nontick false (some L) c e h1] at hf ⊢
      rw [nextP_nontick (some L) c e h1]
      by_cases h2 : e = .pause
      · subst h2; exact ⟨rfl, pause_pend L c d hp⟩
      · by_cases h3' : e = .play
        · subst h3'; exact ⟨rfl, play_pend L c d hp⟩
        · obtain ⟨hw, hok⟩ := evAllowed4_wake false (some L) c e ha h1 h2 h3'
          have hn3 := pend_not_wakeOk3 hp
          have hpo : pendOk L e = true := by simpa [wakeOk4, hn3] using hok
          rw [nextG4_wake false c e hw, hn3, wake_evImage3 c e hw false, run_single]
          exact ⟨rfl, pend_wake P L c d e hp hpo⟩

/-- **simulation over whole histories (fourth class)**: at the end the deferred tick, if any, has been delivered, and the two
runs are related by `Sim3` -/
theorem run_sim4 (P : Prog) : ∀ (evs : List Ev) (g : Bool) (p : Option (List Nat)) (c d : Cfg), Sim4 P g p c d → InvP c →
    Inv c → admissible4 P g p c evs = true → fuelOkN P (fuel0 - 1) d (unpaused4 P g p c evs) = true →
    ∃ g', Sim3 P g' (run P c evs) (run P d (unpaused4 P g p c evs)) := by
  intro evs
  induction evs with
  | nil =>
    intro g p c d h _ _ _ hf
    cases p with
    | none => exact ⟨g, h⟩
    | some L =>
      obtain ⟨_, hp⟩ : g = false ∧ Pend L c d := h
      have hu : unpaused4 P g (some L) c [] = [.tick] := rfl
      rw [hu] at hf ⊢
      have hD : tickDone P d = true := by
        rw [← tickDoneN_fuel0]; exact tickDoneN_le P _ _ fuel0_pred_le d (fuelOkN_tick P _ d hf)
      exact ⟨false, Or.inr ⟨Or.inl rfl, Or.inr (Or.inr (pend_flush P L c d hp hD))⟩⟩
  | cons e es ih =>
    intro g p c d h hinv hI ha hf
    simp only [admissible4, Bool.and_eq_true] at ha
    simp only [unpaused4, fuelOkN_append, Bool.and_eq_true] at hf
    rw [show run P c (e :: es) = run P (step P c e).1 es from rfl]
    simp only [unpaused4, run_append]
    exact ih _ _ _ _ (step_sim4 P g p c d e h hinv hI ha.1 hf.1) (step_invP P c e hinv) (step_inv P c e hI) ha.2 hf.2

theorem sim4_init (P : Prog) (nf : Nat) : Sim4 P false none (init nf) (init nf) := sim3_init P nf

/-! ### the reference history `unpaused4`: no pause, no play, the other requests in their original order; ticks dropped or
moved later -/

theorem evImage4_cases (g : Bool) (p : Option (List Nat)) (c : Cfg) (x : Ev) :
    evImage4 g p c x = [] ∧ (x = .tick ∨ x = .pause ∨ x = .play) ∨ evImage4 g p c x = [x] ∧ x ≠ .pause ∧ x ≠ .play := by
  by_cases h1 : x = .tick
  · subst h1
    have ne1 : Ev.tick ≠ Ev.pause := by intro h; cases h
    have ne2 : Ev.tick ≠ Ev.play := by intro h; cases h
    cases p with
    | none =>
      by_cases hd : defers c = true
      · exact Or.inl ⟨by simp [evImage4, hd], Or.inl rfl⟩
      · have hdf : defers c = false := by simpa using hd
        have : evImage4 g none c .tick = evImage3 g c .tick := by simp [evImage4, hdf]
        rw [this]; exact evImage3_cases g c .tick
    | some L =>
      by_cases hr : runsBody c = true
      · exact Or.inr ⟨by simp [evImage4, hr], ne1, ne2⟩
      · have hrf : runsBody c = false := by simpa using hr
        exact Or.inl ⟨by simp [evImage4, hrf], Or.inl rfl⟩
  · rw [evImage4_nontick g p c x h1]; exact evImage3_cases g c x

theorem unpaused4_no_pp (P : Prog) : ∀ (evs : List Ev) (g : Bool) (p : Option (List Nat)) (c : Cfg),
    ∀ e ∈ unpaused4 P g p c evs, e ≠ .pause ∧ e ≠ .play := by
  intro evs
  induction evs with
  | nil =>
    intro g p c e he
    simp only [unpaused4] at he
    split at he
    · simp at he; subst he; exact ⟨(by intro h; cases h), (by intro h; cases h)⟩
    · cases he
  | cons x rest ih =>
    intro g p c e he
    simp only [unpaused4, List.mem_append] at he
    rcases he with he | he
    · rcases evImage4_cases g p c x with ⟨h1, _⟩ | ⟨h1, h2⟩
      · rw [h1] at he; cases he
      · rw [h1] at he; simp at he; subst he; exact h2
    · exact ih _ _ _ e he

/-- the requests other than ticks are those of the history with pauses, **in the same order**: the wake-ups of a hold are moved
before the deferred tick by moving the tick, not the requests -/
theorem unpaused4_nonticks (P : Prog) : ∀ (evs : List Ev) (g : Bool) (p : Option (List Nat)) (c : Cfg),
    (unpaused4 P g p c evs).filter (fun e => !isTick e) = (erasePP evs).filter (fun e => !isTick e) := by
  intro evs
  induction evs with
  | nil =>
    intro g p c
    simp only [unpaused4]
    split <;> rfl
  | cons x rest ih =>
    intro g p c
    have := ih (nextG4 g c x) (nextP p c x) (step P c x).1
    simp only [unpaused4]
    rcases evImage4_cases g p c x with ⟨h1, h2⟩ | ⟨h1, h2, h3⟩
    · rw [h1]
      rcases h2 with rfl | rfl | rfl
      · simpa [erasePP, isTick] using this
      · simpa [erasePP] using this
      · simpa [erasePP] using this
    · rw [h1, erasePP_cons_keep x rest h2 h3]
      simp only [List.cons_append, List.nil_append, List.filter_cons]
      rw [this]

/-- apart from one tick possibly delivered after the last request, the reference history is a sublist of the history with
pauses: ticks are dropped, or emitted at the position of a later tick -/
theorem unpaused4_sublist (P : Prog) : ∀ (evs : List Ev) (g : Bool) (p : Option (List Nat)) (c : Cfg),
    (unpaused4 P g p c evs).Sublist (erasePP evs ++ [.tick]) := by
  intro evs
  induction evs with
  | nil =>
    intro g p c
    simp only [unpaused4]
    split
    · exact List.Sublist.refl _
    · exact List.nil_sublist _
  | cons x rest ih =>
    intro g p c
    have := ih (nextG4 g c x) (nextP p c x) (step P c x).1
    simp only [unpaused4]
    rcases evImage4_cases g p c x with ⟨h1, h2⟩ | ⟨h1, h2, h3⟩
    · rw [h1]
      rcases h2 with rfl | rfl | rfl
      · exact List.Sublist.cons _ this
      · exact this
      · exact this
    · rw [h1, erasePP_cons_keep x rest h2 h3]
      exact List.Sublist.cons_cons _ this

/-- **the fourth class contains the third** (whatever the deferral state) -/
theorem admissible3_sub4 (P : Prog) : ∀ (evs : List Ev) (g : Bool) (p : Option (List Nat)) (c : Cfg),
    admissible3 P g c evs = true → admissible4 P g p c evs = true := by
  intro evs
  induction evs with
  | nil => intro g p c _; rfl
  | cons x rest ih =>
    intro g p c h
    simp only [admissible3, Bool.and_eq_true] at h
    simp only [admissible4, Bool.and_eq_true]
    by_cases h1 : x = .tick
    · subst h1; exact ⟨rfl, ih _ _ _ h.2⟩
    · by_cases h2 : x = .pause
      · subst h2; exact ⟨rfl, ih _ _ _ h.2⟩
      · by_cases h3 : x = .play
        · subst h3; exact ⟨rfl, ih _ _ _ h.2⟩
        · obtain ⟨hw, hok⟩ := evAllowed3_wake g c x h.1 h1 h2 h3
          have hng : nextG4 g c x = nextG3 g c x := by rw [nextG4_wake g c x hw, if_pos hok]
          rw [hng]
          refine ⟨?_, ih _ _ _ h.2⟩
          have hok4 : wakeOk4 g p c x = true := by simp [wakeOk4, hok]
          cases x <;> first | (simp [evAllowed4, hw, hok4]) | exact absurd rfl h1 | exact absurd rfl h2 | exact absurd rfl h3

/-! ### the one-step commutation behind the fourth class, stated on its own -/

theorem firstTarget_cr (d : Cfg) (s : SObj) (h : firstTarget d = some s) : isCR s = true := by
  unfold firstTarget at h
  split at h
  · split at h
    · cases h; rfl
    · cases h
  · split at h
    · cases h; rfl
    · cases h
  · cases h

theorem firstStep_resumeNoop (d : Cfg) (hok : okFirst d = true) (hi : d.interrupt = none) (hl : terminal d.st.label = false)
    (hc : d.closed = false) (hr : ResumeNoop d) : ResumeNoop (firstStep d) := by
  rw [firstStep_eq d hok hi hl hc]
  split
  · rename_i s hs
    exact Or.inl (by rw [(toRunning_fields d s).2.2.2]; exact isCR_notWaiting (firstTarget_cr d s hs))
  · exact hr

/-- **a wake-up request commutes with the first step of a tick** when that step is a transition into RUNNING (the user code
returns a continuation, or the wait was resumed with a value) or the stepping task has not started, and the request is a
`resume` that is refused or ineffective, a `call_soon`, the run of a non-raising callback, or the completion of a future that
carries no done-callback (`pendOk`, with `L` ⊇ the futures carrying one) -/
theorem firstStep_wake_comm (P : Prog) (L : List Nat) (d : Cfg) (e : Ev) (hok : okFirst d = true) (hi : d.interrupt = none)
    (hl : terminal d.st.label = false) (hc : d.closed = false) (hr : ResumeNoop d) (hL : ∀ f, f ∈ d.efCb → f ∈ L)
    (he : pendOk L e = true) : firstStep (step P d e).1 = (step P (firstStep d) e).1 := by
  obtain ⟨f1, f2, f3⟩ := firstStep_fields d hok hi hl hc
  rw [wake_upd P d L e he hL hr, firstStep_upd d _ _ hok hi hl hc,
    wake_upd P (firstStep d) L e he (fun f hf => hL f (f3 f hf)) (firstStep_resumeNoop d hok hi hl hc hr), f1, f2]

end PMF
