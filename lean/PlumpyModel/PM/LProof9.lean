import PlumpyModel.PM.LProof8
/-!
# `PMF.L` — pause / play requested during a transition: `play()` really un-pauses and retracts
-/
namespace PMF
namespace L

theorem setActionStatus_paused (c : Cfg) (i s) : (setActionStatus c i s).paused = c.paused ∧
    (setActionStatus c i s).notif = c.notif := by
  unfold setActionStatus; split <;> exact ⟨rfl, rfl⟩
theorem cancelAction_paused' (c : Cfg) (i) : (cancelAction c i).paused = c.paused := by
  unfold cancelAction; split
  · exact (setActionStatus_paused ..).1
  · rfl
theorem setInterruptFromExc_paused (c : Cfg) (k n) : (setInterruptFromExc c k n).paused = c.paused := by
  unfold setInterruptFromExc cancelInterrupt
  split
  · exact cancelAction_paused' ..
  · rfl
theorem interruptState_paused (c : Cfg) (k) : (interruptState c k).paused = c.paused := by
  unfold interruptState; split
  · split <;> rfl
  · rfl
theorem requestL_paused (l : LCfg) (k : AKind) : (requestL l k).paused = l.c.paused := by
  unfold requestL requestInterrupt; split
  · rw [interruptState_paused, setInterruptFromExc_paused]
  · rw [setInterruptFromExc_paused]
theorem hand_paused (c : Cfg) (i) : (hand c i).paused = c.paused := by
  unfold hand; split <;> rfl
theorem play_paused (c : Cfg) : (play c).1.paused = none := by
  unfold play
  split
  · rename_i hp
    split
    · show (cancelAction c _).paused = none; rw [cancelAction_paused']; exact hp
    · exact hp
  · rfl

/-- a request made while a step is in progress never pauses at once (it is deferred) -/
def FPN (F : Hook → LCfg → LCfg) : Prop := ∀ h l, l.c.stepping = true → l.c.paused = none → (F h l).c.paused = none

section
variable {F : Hook → LCfg → LCfg}

theorem pauseL_pn (l : LCfg) (hs : l.c.stepping = true) (hp : l.c.paused = none) : (pauseL F l).1.c.paused = none := by
  unfold pauseL; dsimp only
  split
  · exact hp
  · split
    · exact hp
    · split
      · rw [upd_c, hand_paused]; exact hp
      · split
        · exact hp
        · split
          · show (hand _ _).paused = none
            rw [hand_paused]; show (requestL l .pause).paused = none; rw [requestL_paused]; exact hp
          · show (requestL l .pause).paused = none; rw [requestL_paused]; exact hp

theorem killL_pn (l : LCfg) (hs : l.c.stepping = true) (hp : l.c.paused = none) : (killL F l).1.c.paused = none := by
  unfold killL; dsimp only
  split
  · exact hp
  · split
    · exact hp
    · split
      · rw [upd_c, hand_paused]; exact hp
      · split
        · show (hand _ _).paused = none
          rw [hand_paused]; show (requestL l .kill).paused = none; rw [requestL_paused]; exact hp
        · show (requestL l .kill).paused = none; rw [requestL_paused]; exact hp

/-- **`play()` really un-pauses**, also when it is called from `on_process_paused` while the pause is being enacted at the end of
a step: when `play()` returns the process is not paused — whatever `on_process_played` listeners request in turn (their `pause()`
is deferred to the interrupt slot while stepping). -/
theorem playL_unpauses (hF : FPN F) (l : LCfg) (hs : l.c.stepping = true) : (playL F l).1.c.paused = none := by
  unfold playL
  split
  · rw [upd_c]; exact play_paused _
  · exact hF _ _ (by rw [upd_c, (play_hkc l.c).stepping]; exact hs) (by rw [upd_c]; exact play_paused _)

theorem reqK_pn (hF : FPN F) (r : Req) (l : LCfg) (hs : l.c.stepping = true) (hp : l.c.paused = none) :
    (reqK F r l).c.paused = none := by
  cases r
  · exact pauseL_pn l hs hp
  · exact playL_unpauses hF l hs
  · exact killL_pn l hs hp
end

theorem fireK_pn {R : Req → LCfg → LCfg} (hR : ∀ r l, l.c.stepping = true → l.c.paused = none → (R r l).c.paused = none)
    (h : Hook) (l : LCfg) (hs : l.c.stepping = true) (hp : l.c.paused = none) : (fireK R h l).c.paused = none := by
  rcases fireK_cases R h l with h1 | ⟨e, _, h1⟩
  · rw [h1]; exact hp
  · rw [h1]; exact hR _ _ hs hp

theorem fireN_pn : ∀ n, FPN (fireN n)
  | 0 => fun _ _ _ hp => hp
  | n+1 => fun h l hs hp => by
      unfold fireN
      exact fireK_pn (fun r l hs hp => reqK_pn (fireN_pn n) r l hs hp) h l hs hp

/-- **`play()` during the transition of a pending pause retracts the pause** (F23): if by the time the transition performed by the
pause action returns `_pausing` has been cleared (by a `play()` from a listener or state-event callback), the action does not
pause: `paused`, the notifications and the state are those the transition left. -/
theorem runActionL_retracted (F : Hook → LCfg → LCfg) (l : LCfg) (i : Nat) (s : SObj) (a : Action)
    (ha : l.c.actions[i]? = some a) (hp : a.status = .pending) (hk : a.kind = .pause)
    (hr : (transitionToL F l s).c.pausing = none) :
    (runActionL F l i (some s)).c.paused = (transitionToL F l s).c.paused ∧
    (runActionL F l i (some s)).c.notif = (transitionToL F l s).c.notif ∧
    (runActionL F l i (some s)).c.st = (transitionToL F l s).c.st := by
  unfold runActionL
  rw [ha]; simp only [hp, ne_eq, not_true_eq_false, if_false, hk, hr, Option.isNone_none, if_true]
  split
  · rw [upd_c]
    exact ⟨(setActionStatus_paused ..).1, (setActionStatus_paused ..).2, (setActionStatus_hkc ..).st⟩
  · exact ⟨rfl, rfl, rfl⟩

/-- the wait future created for the state that a step returns (`Wait`) carries no interruption when the step has ended -/
theorem finishUserL_wait_noInt {F : Hook → LCfg → LCfg} (hF : FNI F) (l : LCfg) (fn k : Nat) :
    (finishUserL F l (.ret (.wait fn))).c.wfs[l.c.wfs.length]? ≠ some (.interrupted k) := by
  intro h
  unfold finishUserL at h
  simp only [cmdToState] at h
  have := endOfStepL_noInt hF _ _ _ _ h
  simp at this
end L
end PMF
