import PlumpyModel.PM.LProof7
/-!
# `PMF.L` — the invariant `KJ` through the closing part of a step; the owed kill is enacted
-/
namespace PMF
namespace L

structure FGood (F : Hook → LCfg → LCfg) : Prop where
  fk : FK F
  fhk : FHk F
  fkd : FKd F
  fadv : FAdv F

theorem fireN_good (n : Nat) : FGood (fireN n) := ⟨fireN_fk n, fireN_fhk n, fireN_kd n, fireN_adv n⟩

/-- what the closing part knows at every point: still stepping, invariant holds -/
structure CP (l : LCfg) : Prop where
  step : l.c.stepping = true
  kj : KJ l

section
variable {F : Hook → LCfg → LCfg}

theorem F_cp (hF : FGood F) (h : Hook) (l : LCfg) (p : CP l) :
    CP (F h l) ∧ (F h l).c.st = l.c.st ∧ (F h l).trans = l.trans := by
  have hk := hF.fhk h l p.step
  exact ⟨⟨by rw [hk.c.stepping]; exact p.step, hF.fk h l p.step p.kj⟩, hk.c.st, hk.tr⟩

theorem CP.upd {l : LCfg} (p : CP l) (f : Cfg → Cfg) (s : Ctl l.c (f l.c))
    (hl : (f l.c).st.label = l.c.st.label ∨ terminal l.c.st.label = false)
    (hf : Owed l → (f l.c).st.label ≠ .finished) : CP (l.upd f) :=
  ⟨by rw [upd_c, s.stepping]; exact p.step, p.kj.upd f s hl hf⟩

/-- label-preserving control-preserving update -/
theorem CP.upd' {l : LCfg} (p : CP l) (f : Cfg → Cfg) (s : Ctl l.c (f l.c) ∧ (f l.c).st = l.c.st) : CP (l.upd f) :=
  p.upd f s.1 (Or.inl (by rw [s.2])) (fun ho => by rw [s.2]; exact (p.kj.nofin ho).1)

theorem KJ.untrans {d : LCfg} (h : KJ d) (hke : boundKE d → KE d.c) : KJ { d with trans := none } := by
  refine ⟨h.kok, h.pok, fun ho => ⟨(h.nofin ho).1, by simp⟩, fun ho => ?_⟩
  rcases h.ook ho with hk | hb | hk
  · exact Or.inl hk
  · exact Or.inl (hke hb)
  · exact Or.inr (Or.inr hk)

theorem forceExceptedL_cp (hF : FGood F) (l : LCfg) (e : Exc) (p : CP l) (hl : terminal l.c.st.label = false) :
    CP (forceExceptedL F l e) := by
  unfold forceExceptedL
  split
  · exact p.upd _ ⟨rfl, rfl, rfl, rfl, Or.inl rfl⟩ (Or.inr hl) (fun _ => by simp [SObj.label])
  · dsimp only
    have p1 : CP { l with trans := some .excepted } :=
      ⟨p.step, p.kj.kok, p.kj.pok, fun ho => ⟨(p.kj.nofin ho).1, by simp⟩, fun _ => Or.inr (Or.inl (Or.inr rfl))⟩
    have p2 : CP ({ l with trans := some .excepted }.upd (fun c => setFutExc c e)) := p1.upd' _ (ctl_setFutExc _ e)
    obtain ⟨p3, hst3, _⟩ := F_cp hF .entering _ p2
    have hl3 : terminal (F .entering ({ l with trans := some .excepted }.upd (fun c => setFutExc c e))).c.st.label = false := by
      rw [hst3, upd_c, (ctl_setFutExc _ e).2]; exact hl
    have p4 := p3.upd (fun c => setState c (.excepted e)) ⟨rfl, rfl, rfl, rfl, Or.inl rfl⟩ (Or.inr hl3)
      (fun _ => by simp [setState, SObj.label])
    rw [enteredHooksL_nohook _ _ (by simp [SObj.label, terminal, allowed])]
    have p5 := p4.upd' (fun c => enteredHooks c (.excepted e)) (ctl_enteredHooks _ _ (by simp [SObj.label]))
    exact p5.upd' onTerminated (ctl_onTerminated _)

/-- control fields after the ENTERED hooks and `on_terminated` -/
theorem tail_fields (c : Cfg) (s : SObj) : (onTerminated (enteredHooks c s)).stepping = c.stepping ∧
    (onTerminated (enteredHooks c s)).pausing = c.pausing ∧ (onTerminated (enteredHooks c s)).actions = c.actions := by
  obtain ⟨pf, cl, cn, ho⟩ := onTerminated_shape (enteredHooks c s)
  obtain ⟨n, hn⟩ := enteredHooks_shape c s
  rw [ho, hn]; exact ⟨rfl, rfl, rfl⟩

theorem terminal_cases {lb : Label} (ht : terminal lb = true) (hf : lb ≠ .finished) : lb = .killed ∨ lb = .excepted := by
  cases lb <;> simp_all [terminal, allowed]

theorem enterNextL_cp (hF : FGood F) (l : LCfg) (s : SObj) (p : CP l) (hl : terminal l.c.st.label = false)
    (hfin : Owed l → s.label ≠ .finished) :
    CP (enterNextL F l s) ∧ (enterNextL F l s).trans = l.trans ∧ (terminal s.label = true → (enterNextL F l s).c.st = s) := by
  have p1 : CP (l.upd (fun c => setState (enterState c s) s)) :=
    p.upd _ (ctl_enter l.c s).1 (Or.inr hl) (fun ho => by rw [(ctl_enter l.c s).2]; exact hfin ho)
  by_cases ht : terminal s.label = true
  · refine ⟨?_, ?_, fun _ => enterNextL_label_terminal l s ht⟩
    · have hst := enterNextL_label_terminal (F := F) l s ht
      have heq : enterNextL F l s =
          ((l.upd fun c => setState (enterState c s) s).upd (fun c => enteredHooks c s)).upd onTerminated := by
        unfold enterNextL; dsimp only
        rw [enteredHooksL_nohook _ _ ht]
        simp only [ht, if_true]
      rw [heq] at hst ⊢
      have hlabel : (((l.upd fun c => setState (enterState c s) s).upd (fun c => enteredHooks c s)).upd onTerminated).c.st.label
          = s.label := by rw [hst]
      have hf := tail_fields (setState (enterState l.c s) s) s
      refine ⟨?_, ?_, ?_, fun ho' => ⟨by rw [hlabel]; exact hfin ho', (p.kj.nofin ho').2⟩, fun ho' => ?_⟩
      · simp only [upd_c]; rw [hf.1]; exact p1.step
      · intro k _; left; rw [hlabel]; exact ht
      · intro i hi
        simp only [upd_c] at hi ⊢
        rw [hf.2.1] at hi
        have := p1.kj.pok i hi
        simpa [actionKind, hf.2.2] using this
      · left
        unfold KE; rw [hlabel]
        exact terminal_cases ht (hfin ho')
    · unfold enterNextL; dsimp only
      rw [enteredHooksL_nohook _ _ ht]
      simp only [ht, if_true]; rfl
  · have htf : terminal s.label = false := by simpa using ht
    have hnk : s.label ≠ .killed := by intro hk; rw [hk] at htf; simp [terminal, allowed] at htf
    have p2 : CP ((l.upd fun c => setState (enterState c s) s).upd (fun c => enteredHooks c s)) :=
      p1.upd' _ (ctl_enteredHooks _ s hnk)
    refine ⟨?_, ?_, fun h => absurd h ht⟩
    · unfold enterNextL enteredHooksL
      dsimp only
      simp only [htf, Bool.false_eq_true, if_false]
      split
      · exact (F_cp hF _ _ p2).1
      · exact p2
    · unfold enterNextL enteredHooksL
      dsimp only
      simp only [htf, Bool.false_eq_true, if_false]
      split
      · rw [(F_cp hF _ _ p2).2.2]; rfl
      · rfl

theorem exitPhaseL_cp (hF : FGood F) (l : LCfg) (s : SObj) (p : CP l) :
    CP (exitPhaseL F l s) ∧ (exitPhaseL F l s).c.st = l.c.st ∧ (exitPhaseL F l s).trans = l.trans := by
  unfold exitPhaseL; dsimp only
  obtain ⟨p1, hst1, htr1⟩ := F_cp hF .exiting l p
  have p2 : CP ((F .exiting l).upd exitState) := p1.upd' _ (ctl_exitState _)
  have hst2 : ((F .exiting l).upd exitState).c.st = l.c.st := by rw [upd_c, (ctl_exitState _).2, hst1]
  split
  · obtain ⟨p3, hst3, htr3⟩ := F_cp hF .exiting _ p2
    refine ⟨p3.upd' _ (ctl_exitState _), ?_, ?_⟩
    · rw [upd_c, (ctl_exitState _).2, hst3, hst2]
    · rw [upd_trans, htr3, upd_trans, htr1]
  · exact ⟨p2, hst2, by rw [upd_trans, htr1]⟩

/-- a transition started in the closing part of a step (no transition in progress, process live; if a kill is owed the
target is not FINISHED) -/
theorem transitionToL_cp (hF : FGood F) (l : LCfg) (s : SObj) (p : CP l) (hl : terminal l.c.st.label = false)
    (htr : l.trans = none) (hfin : Owed l → s.label ≠ .finished) :
    CP (transitionToL F l s) ∧ (transitionToL F l s).trans = none := by
  have p0 : CP { l with trans := some s.label } := by
    refine ⟨p.step, p.kj.kok, p.kj.pok, fun ho => ⟨(p.kj.nofin ho).1, ?_⟩, fun ho => ?_⟩
    · intro h; injection h with h; exact hfin ho h
    · rcases p.kj.ook ho with hk | hb | hk
      · exact Or.inl hk
      · rcases hb with hb | hb <;> rw [htr] at hb <;> cases hb
      · exact Or.inr (Or.inr hk)
  have hfinish : ∀ d : LCfg, CP d → (boundKE d → KE d.c) → CP { d with trans := none } ∧ ({ d with trans := none } : LCfg).trans = none :=
    fun d pd hke => ⟨⟨pd.step, pd.kj.untrans hke⟩, rfl⟩
  have hforce : ∀ (d : LCfg) e, CP d → terminal d.c.st.label = false →
      CP { forceExceptedL F d e with trans := none } ∧ ({ forceExceptedL F d e with trans := none } : LCfg).trans = none :=
    fun d e pd hd => hfinish _ (forceExceptedL_cp hF d e pd hd) (fun _ => Or.inr (forceExceptedL_label d e))
  unfold transitionToL; dsimp only
  split
  · split
    · -- closed: the state object is replaced, no hooks
      apply hfinish
      · refine p0.upd _ ?_ (Or.inr hl) (fun ho => hfin ho)
        obtain ⟨w, e, h⟩ := exitState_shape l.c
        simp only [h]; exact ⟨rfl, rfl, rfl, rfl, Or.inl rfl⟩
      · intro hb
        unfold KE
        rcases hb with hb | hb <;> injection hb with hb
        · exact Or.inl hb
        · exact Or.inr hb
    · obtain ⟨p1, hst1, htr1⟩ := exitPhaseL_cp hF { l with trans := some s.label } s p0
      have hl1 : terminal (exitPhaseL F { l with trans := some s.label } s).c.st.label = false := by rw [hst1]; exact hl
      split
      · exact hforce _ _ p1 hl1
      · rename_i c2 hok
        have hc2 := ctl_enteringHooks _ _ _ hok
        have p2 : CP { exitPhaseL F { l with trans := some s.label } s with c := c2 } := p1.upd' (fun _ => c2) hc2
        obtain ⟨p3, hst3, htr3⟩ := F_cp hF .entering _ p2
        have hl3 : terminal (F .entering { exitPhaseL F { l with trans := some s.label } s with c := c2 }).c.st.label = false := by
          rw [hst3]; show terminal c2.st.label = false; rw [hc2.2]; exact hl1
        have htr3' : (F .entering { exitPhaseL F { l with trans := some s.label } s with c := c2 }).trans = some s.label := by
          rw [htr3]; exact htr1
        obtain ⟨p4, htr4, hst4⟩ := enterNextL_cp hF _ s p3 hl3
          (fun ho => by
            have := (p3.kj.nofin ho).2
            rw [htr3'] at this
            intro h; exact this (by rw [h]))
        apply hfinish _ p4
        intro hb
        have hs : s.label = .killed ∨ s.label = .excepted := by
          rcases hb with hb | hb <;> rw [htr4, htr3'] at hb <;> injection hb with hb
          · exact Or.inl hb
          · exact Or.inr hb
        have ht : terminal s.label = true := by rcases hs with h | h <;> simp [h, terminal, allowed]
        unfold KE; rw [hst4 ht]; exact hs
  · exact hforce _ _ p0 hl

theorem doPauseL_cp (hF : FGood F) (l : LCfg) (p : CP l) : CP (doPauseL F l) ∧ (doPauseL F l).trans = l.trans := by
  unfold doPauseL; dsimp only
  have p1 : CP (l.upd doPauseHooks) := p.upd' _ ⟨⟨rfl, rfl, rfl, rfl, Or.inr rfl⟩, rfl⟩
  obtain ⟨p2, _, htr2⟩ := F_cp hF .paused _ p1
  exact ⟨p2.upd' _ ⟨⟨rfl, rfl, rfl, rfl, Or.inr rfl⟩, rfl⟩, by rw [upd_trans, htr2]; rfl⟩
end

end L
end PMF

namespace PMF
namespace L

section
variable {F : Hook → LCfg → LCfg}

/-- while a kill is owed and the process is live, the kill is the pending action in the slot -/
theorem owed_slot {l : LCfg} (p : CP l) (hl : terminal l.c.st.label = false) (htr : l.trans = none) (ho : Owed l) :
    ∃ k, Pending k l.c := by
  rcases p.kj.ook ho with hk | hb | hk
  · exact (ke_not_live hk hl).elim
  · rcases hb with hb | hb <;> rw [htr] at hb <;> cases hb
  · cases hkk : l.c.killing with
    | none => exact (hk hkk).elim
    | some k =>
      rcases p.kj.kok k hkk with ht | hp
      · rw [ht] at hl; cases hl
      · exact ⟨k, hp⟩

theorem KJ.setDone {d : LCfg} (h : KJ d) (i : Nat)
    (hc : terminal d.c.st.label = true ∨ actionKind d.c i = some .pause) :
    KJ (d.upd (fun c => setActionStatus c i .done)) := by
  have hf := setActionStatus_ctl' d.c i .done
  refine h.rebuild _ hf.2.2.2.2 ?_ (h.pok.kx (setActionStatus_kx ..)) (fun hne => by rw [hf.1]; exact hne)
  intro k hk
  rw [hf.1] at hk
  rcases h.kok k hk with ht | hp
  · left; rw [hf.2.2.2.2]; exact ht
  · rcases hc with hc | hc
    · left; rw [hf.2.2.2.2]; exact hc
    · right
      have hne : i ≠ k := ne_of_kinds hc hp.2.2.2.2.2
      obtain ⟨h1, h2, h3, h4, h5, h6⟩ := hp
      exact ⟨by rw [hf.2.2.2.2]; exact h1, by rw [hf.1]; exact h2, by rw [hf.2.1]; exact h3,
        by rw [(setActionStatus_other d.c i k _ hne).1]; exact h4, by rw [hf.2.2.1]; exact h5,
        by rw [setActionStatus_kind]; exact h6⟩

theorem CP.setDone {d : LCfg} (p : CP d) (i : Nat)
    (hc : terminal d.c.st.label = true ∨ actionKind d.c i = some .pause) :
    CP (d.upd (fun c => setActionStatus c i .done)) :=
  ⟨by rw [upd_c, (setActionStatus_ctl' d.c i .done).2.2.1]; exact p.step, p.kj.setDone i hc⟩

/-- running the action that sits in the interrupt slot -/
theorem runActionL_cp (hF : FGood F) (l : LCfg) (i : Nat) (next : Option SObj) (p : CP l)
    (hl : terminal l.c.st.label = false) (htr : l.trans = none) (hint : l.c.interrupt = some i) :
    CP (runActionL F l i next) ∧ (runActionL F l i next).trans = none := by
  unfold runActionL
  split
  · exact ⟨p, htr⟩
  · rename_i a ha
    split
    · exact ⟨p.upd' _ ⟨⟨rfl, rfl, rfl, rfl, Or.inl rfl⟩, rfl⟩, htr⟩
    · -- closing: the result is stored unless the action was cancelled meanwhile
      have hclose : ∀ body : LCfg, CP body → body.trans = none →
          (terminal body.c.st.label = true ∨ actionKind body.c i = some .pause) →
          CP (if actionStatus body.c i = .pending then body.upd (fun c => setActionStatus c i .done) else body) ∧
          (if actionStatus body.c i = .pending then body.upd (fun c => setActionStatus c i .done) else body).trans = none := by
        intro body pb hb hc
        split
        · exact ⟨pb.setDone i hc, hb⟩
        · exact ⟨pb, hb⟩
      cases hkind : a.kind with
      | pause =>
        have hki : actionKind l.c i = some .pause := by simp [actionKind, ha, hkind]
        have hno : ¬ Owed l := by
          intro ho
          obtain ⟨k, hp⟩ := owed_slot p hl htr ho
          have : i = k := by have := hp.2.2.1; rw [hint] at this; injection this
          subst this
          have := hp.2.2.2.2.2; rw [hki] at this; cases this
        simp only
        cases next with
        | some s =>
          dsimp only
          obtain ⟨p1, htr1⟩ := transitionToL_cp hF l s p hl htr (fun ho => (hno ho).elim)
          have hk1 : actionKind (transitionToL F l s).c i = some .pause := transitionToL_kd hF.fkd l s i _ hki
          split
          · exact hclose _ p1 htr1 (Or.inr hk1)
          · obtain ⟨p2, htr2⟩ := doPauseL_cp hF _ p1
            exact hclose _ p2 (by rw [htr2]; exact htr1) (Or.inr (doPauseL_kd hF.fkd _ i _ hk1))
        | none =>
          dsimp only
          obtain ⟨p2, htr2⟩ := doPauseL_cp hF _ p
          exact hclose _ p2 (by rw [htr2]; exact htr) (Or.inr (doPauseL_kd hF.fkd _ i _ hki))
      | kill =>
        simp only
        obtain ⟨p1, htr1⟩ := transitionToL_cp hF l .killed p hl htr (fun _ => by simp [SObj.label])
        have hke : KE (transitionToL F l .killed).c := transitionToL_ke l .killed (Or.inl rfl)
        have p2 : CP ((transitionToL F l .killed).upd (fun c => { c with killing := none })) := by
          exact CP.mk p1.step (KJ.mk (fun k hk => by cases hk) p1.kj.pok p1.kj.nofin (fun _ => Or.inl hke))
        exact hclose _ p2 htr1 (Or.inl (ke_terminal hke))
end

end L
end PMF

namespace PMF
namespace L

section
variable {F : Hook → LCfg → LCfg}

theorem enactLoop_cp (hF : FGood F) : ∀ (n : Nat) (l : LCfg), CP l → l.trans = none →
    CP (enactLoop F n l) ∧ (enactLoop F n l).trans = none
  | 0, l, p, htr => ⟨p, htr⟩
  | n+1, l, p, htr => by
    unfold enactLoop
    split
    · rename_i i hi
      split
      · rename_i hc
        simp only [Bool.and_eq_true, decide_eq_true_eq, Bool.not_eq_true'] at hc
        obtain ⟨p1, htr1⟩ := runActionL_cp hF l i none p hc.2 htr hi
        exact enactLoop_cp hF n _ p1 htr1
      · exact ⟨p, htr⟩
    · exact ⟨p, htr⟩

theorem dispatch1L_cp (hF : FGood F) (l : LCfg) (next : Option SObj) (p : CP l) (hl : terminal l.c.st.label = false)
    (htr : l.trans = none) : CP (dispatch1L F l next) ∧ (dispatch1L F l next).trans = none := by
  -- the nominal transition happens only when no kill is owed (an owed kill is the pending action in the slot)
  have hnom : (l.c.interrupt = none ∨ ∃ i, l.c.interrupt = some i ∧ actionStatus l.c i = .cancelled) → ¬ Owed l := by
    intro h ho
    obtain ⟨k, hp⟩ := owed_slot p hl htr ho
    rcases h with h | ⟨i, h1, h2⟩
    · have := hp.2.2.1; rw [h] at this; cases this
    · have : i = k := by have := hp.2.2.1; rw [h1] at this; injection this
      subst this
      have := hp.2.2.2.1; rw [h2] at this; cases this
  unfold dispatch1L
  split
  · rename_i i hi
    split
    · exact runActionL_cp hF l i next p hl htr hi
    · rename_i hc
      have hc' : actionStatus l.c i = .cancelled := by simpa using hc
      split
      · exact transitionToL_cp hF l _ p hl htr (fun ho => (hnom (Or.inr ⟨i, hi, hc'⟩) ho).elim)
      · exact ⟨p, htr⟩
  · rename_i hn
    split
    · exact transitionToL_cp hF l _ p hl htr (fun ho => (hnom (Or.inl hn) ho).elim)
    · exact ⟨p, htr⟩

theorem dispatchL_cp (hF : FGood F) (l : LCfg) (next : Option SObj) (p : CP l) (htr : l.trans = none) :
    CP (dispatchL F l next) ∧ (dispatchL F l next).trans = none := by
  unfold dispatchL
  split
  · exact ⟨p, htr⟩
  · rename_i hl
    obtain ⟨p1, htr1⟩ := dispatch1L_cp hF l next p (by simpa using hl) htr
    exact enactLoop_cp hF _ _ p1 htr1

/-- **a kill issued by a listener or a state-event callback during the closing part of a step is enacted before the step
ends**: if, when the closing part starts, the invariant holds (`CP`: stepping, a recorded kill is the pending action, the
pause alias is a pause action, no owed kill is outstanding on a FINISHED process) and no transition is in progress, then
when `dispatchL` returns, a kill that the oracle issued while the process was live (and not inside a transition into a
terminal state) has left the process KILLED — or EXCEPTED, if entering KILLED failed. -/
theorem dispatchL_owed (hF : FGood F) (l : LCfg) (next : Option SObj) (p : CP l) (htr : l.trans = none) :
    Owed (dispatchL F l next) → KE (dispatchL F l next).c := by
  intro ho
  obtain ⟨p1, htr1⟩ := dispatchL_cp hF l next p htr
  have hq := dispatchL_quiet hF.fadv l next
  by_cases hl : terminal (dispatchL F l next).c.st.label = true
  · exact terminal_cases hl (p1.kj.nofin ho).1
  · obtain ⟨k, hp⟩ := owed_slot p1 (by simpa using hl) htr1 ho
    unfold Quiet at hq
    rw [hp.2.2.1] at hq
    rcases hq with hq | hq
    · exact (hq hp.2.2.2.1).elim
    · exact (hl hq).elim

theorem owed_of_issued_eq {l l' : LCfg} (h : l'.issued = l.issued) : Owed l' ↔ Owed l := by
  unfold Owed; rw [h]

theorem finally_ke (d : LCfg) : KE (d.upd finally_).c ↔ KE d.c := by
  unfold KE; rw [upd_c, (finally_same d.c).1]

/-- the same for the whole closing part (`except` clauses, `dispatchL`, `finally`), for a step that starts closing with no
kill recorded (the other case is `endOfStepL_pending`) -/
theorem endOfStepL_owed (hF : FGood F) (l : LCfg) (r : StepEnd) (hs : l.c.stepping = true) (htr : l.trans = none)
    (hk : l.c.killing = none) (hp : PausingOk l.c) (hno : ¬ Owed l) :
    Owed (endOfStepL F l r) → KE (endOfStepL F l r).c := by
  unfold endOfStepL; dsimp only
  intro ho
  rw [finally_ke]
  have hprep : (prepare l.c r).1.killing = none ∧ (prepare l.c r).1.stepping = true := by
    have hf1 : ∀ n, (setInterrupt l.c n).killing = l.c.killing ∧ (setInterrupt l.c n).stepping = l.c.stepping := by
      intro n; unfold setInterrupt; split
      · exact ⟨(cancelAction_fields _ _).1, (cancelAction_fields _ _).2.2.1⟩
      · exact ⟨rfl, rfl⟩
    unfold prepare
    split
    · rw [(hf1 none).1, (hf1 none).2]; exact ⟨hk, hs⟩
    · exact ⟨hk, hs⟩
    · split
      · exact ⟨hk, hs⟩
      · rw [(setInterruptFromExc_new _ _ _).2.2.2.1, (setInterruptFromExc_hkc _ _ _).stepping]; exact ⟨hk, hs⟩
    · rw [(hf1 none).1, (hf1 none).2]; exact ⟨hk, hs⟩
  have p0 : CP { l with executing := false, c := (prepare l.c r).1 } := by
    refine ⟨hprep.2, ?_, hp.kx (prepare_kx l.c r), fun o => (hno o).elim, fun o => (hno o).elim⟩
    intro k hk'
    have : (prepare l.c r).1.killing = some k := hk'
    rw [hprep.1] at this; cases this
  exact dispatchL_owed hF _ _ p0 htr ho
end

end L
end PMF
