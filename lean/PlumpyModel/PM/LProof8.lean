import PlumpyModel.PM.LProof7
/-!
# `PMF.L` — the invariant `KJ` through transitions, the closing part of a step and every event; the owed kill is enacted

Nothing here assumes `_stepping`: the lemmas hold in every context in which the model functions can be called.
-/
namespace PMF
namespace L

structure FGood (F : Hook → LCfg → LCfg) : Prop where
  fk : FK F
  fp : FP F
  phase : FHkPhase F
  fkd : FKd F
  fadv : FAdv F

theorem fireN_good (n : Nat) : FGood (fireN n) := ⟨fireN_fk n, fireN_fp n, fireN_fhkPhase n, fireN_kd n, fireN_adv n⟩

section
variable {F : Hook → LCfg → LCfg}

/-- a notification of the exiting / entering phase -/
theorem F_phase (hF : FGood F) (h : Hook) (hph : hookPhase h = true) (l : LCfg) (k : KJ l) :
    KJ (F h l) ∧ (F h l).c.st = l.c.st ∧ (F h l).trans = l.trans :=
  ⟨(hF.fk h l k).1, (hF.phase h l hph).c.st, (hF.phase h l hph).tr⟩

/-- label-preserving control-preserving update -/
theorem KJ.upd' {l : LCfg} (p : KJ l) (f : Cfg → Cfg) (s : Ctl l.c (f l.c) ∧ (f l.c).st = l.c.st) : KJ (l.upd f) :=
  p.upd f s.1 (Or.inl (by rw [s.2])) (fun ho => by rw [s.2]; exact (p.nofin ho).1)

theorem KJ.untrans {d : LCfg} (h : KJ d) (hke : boundKE d → KE d.c) : KJ { d with trans := none } := by
  refine ⟨h.kok, h.pok, fun ho => ⟨(h.nofin ho).1, by simp⟩, fun ho => ?_⟩
  rcases h.ook ho with hk | hb | hk
  · exact Or.inl hk
  · exact Or.inl (hke hb)
  · exact Or.inr (Or.inr hk)

/-- control fields after the ENTERED hooks and `on_terminated` -/
theorem tail_fields (c : Cfg) (s : SObj) : (onTerminated (enteredHooks c s)).stepping = c.stepping ∧
    (onTerminated (enteredHooks c s)).pausing = c.pausing ∧ (onTerminated (enteredHooks c s)).actions = c.actions := by
  obtain ⟨pf, cl, cn, ho⟩ := onTerminated_shape (enteredHooks c s)
  obtain ⟨n, hn⟩ := enteredHooks_shape c s
  rw [ho, hn]; exact ⟨rfl, rfl, rfl⟩

theorem terminal_cases {lb : Label} (ht : terminal lb = true) (hf : lb ≠ .finished) : lb = .killed ∨ lb = .excepted := by
  cases lb <;> simp_all [terminal, allowed]

theorem enterNextL_kj (hF : FGood F) (l : LCfg) (s : SObj) (p : KJ l) (hl : terminal l.c.st.label = false)
    (hfin : Owed l → s.label ≠ .finished) :
    KJ (enterNextL F l s) ∧ TrRel l (enterNextL F l s) ∧ (terminal s.label = true → (enterNextL F l s).c.st = s) := by
  have p1 : KJ (l.upd (fun c => setState (enterState c s) s)) :=
    p.upd _ (ctl_enter l.c s).1 (Or.inr hl) (fun ho => by rw [(ctl_enter l.c s).2]; exact hfin ho)
  by_cases ht : terminal s.label = true
  · have heq : enterNextL F l s =
        ((l.upd fun c => setState (enterState c s) s).upd (fun c => enteredHooks c s)).upd onTerminated := by
      unfold enterNextL; dsimp only
      rw [enteredHooksL_nohook _ _ ht]
      simp only [ht, if_true]
    refine ⟨?_, ?_, fun _ => enterNextL_label_terminal l s ht⟩
    · have hst := enterNextL_label_terminal (F := F) l s ht
      rw [heq] at hst ⊢
      have hlabel : (((l.upd fun c => setState (enterState c s) s).upd (fun c => enteredHooks c s)).upd onTerminated).c.st.label
          = s.label := by rw [hst]
      have hf := tail_fields (setState (enterState l.c s) s) s
      refine ⟨?_, ?_, fun ho' => ⟨by rw [hlabel]; exact hfin ho', (p.nofin ho').2⟩, fun ho' => ?_⟩
      · intro k _; left; rw [hlabel]; exact ht
      · intro i hi
        simp only [upd_c] at hi ⊢
        rw [hf.2.1] at hi
        have := p1.pok i hi
        simpa [actionKind, hf.2.2] using this
      · left
        unfold KE; rw [hlabel]
        exact terminal_cases ht (hfin ho')
    · rw [heq]; exact Or.inl rfl
  · have htf : terminal s.label = false := by simpa using ht
    have hnk : s.label ≠ .killed := by intro hk; rw [hk] at htf; simp [terminal, allowed] at htf
    have p2 : KJ ((l.upd fun c => setState (enterState c s) s).upd (fun c => enteredHooks c s)) :=
      p1.upd' _ (ctl_enteredHooks _ s hnk)
    refine ⟨?_, ?_, fun h => absurd h ht⟩
    · unfold enterNextL enteredHooksL
      dsimp only
      simp only [htf, Bool.false_eq_true, if_false]
      split
      · exact (hF.fk _ _ p2).1
      · exact p2
    · unfold enterNextL enteredHooksL
      dsimp only
      simp only [htf, Bool.false_eq_true, if_false]
      split
      · exact TrRel.trans (Or.inl rfl) (hF.fk _ _ p2).2
      · exact Or.inl rfl

theorem exitPhaseL_kj (hF : FGood F) (l : LCfg) (s : SObj) (p : KJ l) :
    KJ (exitPhaseL F l s) ∧ (exitPhaseL F l s).c.st = l.c.st ∧ (exitPhaseL F l s).trans = l.trans := by
  unfold exitPhaseL; dsimp only
  obtain ⟨p1, hst1, htr1⟩ := F_phase hF .exiting rfl l p
  have p2 : KJ ((F .exiting l).upd exitState) := p1.upd' _ (ctl_exitState _)
  have hst2 : ((F .exiting l).upd exitState).c.st = l.c.st := by rw [upd_c, (ctl_exitState _).2, hst1]
  split
  · obtain ⟨p3, hst3, htr3⟩ := F_phase hF .exiting rfl _ p2
    refine ⟨p3.upd' _ (ctl_exitState _), ?_, ?_⟩
    · rw [upd_c, (ctl_exitState _).2, hst3, hst2]
    · rw [upd_trans, htr3, upd_trans, htr1]
  · exact ⟨p2, hst2, by rw [upd_trans, htr1]⟩

/-- a transition started with no transition in progress on a live process (if a kill is owed the target is not FINISHED) -/
theorem transitionToL_kj (hF : FGood F) (l : LCfg) (s : SObj) (p : KJ l) (hl : terminal l.c.st.label = false)
    (htr : l.trans = none) (hfin : Owed l → s.label ≠ .finished) : KJ (transitionToL F l s) := by
  have p0 : KJ { l with trans := some s.label } := by
    refine ⟨p.kok, p.pok, fun ho => ⟨(p.nofin ho).1, ?_⟩, fun ho => ?_⟩
    · intro h; injection h with h; exact hfin ho h
    · rcases p.ook ho with hk | hb | hk
      · exact Or.inl hk
      · rcases hb with hb | hb <;> rw [htr] at hb <;> cases hb
      · exact Or.inr (Or.inr hk)
  have hforce : ∀ (d : LCfg) e, PausingOk d.c → KJ { forceExceptedL F d e with trans := none } :=
    fun d e pd => KJ.of_ke (Or.inr (forceExceptedL_label d e)) (forceExceptedL_pok hF.fp d e pd) rfl
  unfold transitionToL; dsimp only
  split
  · split
    · -- closed: the state object is replaced, no hooks
      refine KJ.untrans (d := { l with trans := some s.label }.upd _) ?_ ?_
      · refine p0.upd _ ?_ (Or.inr hl) (fun ho => hfin ho)
        obtain ⟨w, e, h⟩ := exitState_shape l.c
        simp only [h]; exact ⟨rfl, rfl, rfl, rfl, Or.inl rfl⟩
      · intro hb
        unfold KE
        rcases hb with hb | hb <;> injection hb with hb
        · exact Or.inl hb
        · exact Or.inr hb
    · obtain ⟨p1, hst1, htr1⟩ := exitPhaseL_kj hF { l with trans := some s.label } s p0
      have hl1 : terminal (exitPhaseL F { l with trans := some s.label } s).c.st.label = false := by rw [hst1]; exact hl
      split
      · exact hforce _ _ p1.pok
      · rename_i c2 hok
        have hc2 := ctl_enteringHooks _ _ _ hok
        have p2 : KJ { exitPhaseL F { l with trans := some s.label } s with c := c2 } := p1.upd' (fun _ => c2) hc2
        obtain ⟨p3, hst3, htr3⟩ := F_phase hF .entering rfl _ p2
        have hl3 : terminal (F .entering { exitPhaseL F { l with trans := some s.label } s with c := c2 }).c.st.label = false := by
          rw [hst3]; show terminal c2.st.label = false; rw [hc2.2]; exact hl1
        have htr3' : (F .entering { exitPhaseL F { l with trans := some s.label } s with c := c2 }).trans = some s.label := by
          rw [htr3]; exact htr1
        obtain ⟨p4, htr4, hst4⟩ := enterNextL_kj hF _ s p3 hl3
          (fun ho => by
            have := (p3.nofin ho).2
            rw [htr3'] at this
            intro h; exact this (by rw [h]))
        refine KJ.untrans p4 ?_
        intro hb
        have hs : s.label = .killed ∨ s.label = .excepted := by
          rcases htr4 with htr4 | htr4
          · rcases hb with hb | hb <;> rw [htr4, htr3'] at hb <;> injection hb with hb
            · exact Or.inl hb
            · exact Or.inr hb
          · rcases hb with hb | hb <;> rw [htr4] at hb <;> cases hb
        have ht : terminal s.label = true := by rcases hs with h | h <;> simp [h, terminal, allowed]
        unfold KE; rw [hst4 ht]; exact hs
  · exact hforce _ _ p.pok

/-- while a kill is owed and the process is live, the kill is the pending action in the slot -/
theorem owed_slot {l : LCfg} (p : KJ l) (hl : terminal l.c.st.label = false) (htr : l.trans = none) (ho : Owed l) :
    ∃ k, Pending k l.c := by
  rcases p.ook ho with hk | hb | hk
  · exact (ke_not_live hk hl).elim
  · rcases hb with hb | hb <;> rw [htr] at hb <;> cases hb
  · cases hkk : l.c.killing with
    | none => exact (hk hkk).elim
    | some k =>
      rcases p.kok k hkk with ht | hp
      · rw [ht] at hl; cases hl
      · exact ⟨k, hp⟩

theorem KJ.setDone {d : LCfg} (h : KJ d) (i : Nat)
    (hc : terminal d.c.st.label = true ∨ actionKind d.c i = some .pause) :
    KJ (d.upd (fun c => setActionStatus c i .done)) := by
  have hf := setActionStatus_ctl' d.c i .done
  refine h.rebuild _ hf.2.2.2.2 ?_ (h.pok.kx (setActionStatus_kx ..)) (fun hne => by rw [hf.1]; exact hne)
  intro k hk
  rw [hf.1] at hk
  rcases h.kok k hk with ht | hp
  · left; rw [hf.2.2.2.2]; exact ht
  · rcases hc with hc | hc
    · left; rw [hf.2.2.2.2]; exact hc
    · right
      have hne : i ≠ k := ne_of_kinds hc hp.2.2.2.2.2
      obtain ⟨h1, h2, h3, h4, h5, h6⟩ := hp
      exact ⟨by rw [hf.2.2.2.2]; exact h1, by rw [hf.1]; exact h2, by rw [hf.2.1]; exact h3,
        by rw [(setActionStatus_other d.c i k _ hne).1]; exact h4, by rw [hf.2.2.1]; exact h5,
        by rw [setActionStatus_kind]; exact h6⟩

/-- running the action that sits in the interrupt slot -/
theorem runActionL_kj (hF : FGood F) (l : LCfg) (i : Nat) (next : Option SObj) (p : KJ l)
    (hl : terminal l.c.st.label = false) (htr : l.trans = none) (hint : l.c.interrupt = some i) :
    KJ (runActionL F l i next) ∧ (runActionL F l i next).trans = none := by
  unfold runActionL
  split
  · exact ⟨p, htr⟩
  · rename_i a ha
    split
    · exact ⟨p.upd' _ ⟨⟨rfl, rfl, rfl, rfl, Or.inl rfl⟩, rfl⟩, htr⟩
    · have hclose : ∀ body : LCfg, KJ body → body.trans = none →
          (terminal body.c.st.label = true ∨ actionKind body.c i = some .pause) →
          KJ (if actionStatus body.c i = .pending then body.upd (fun c => setActionStatus c i .done) else body) ∧
          (if actionStatus body.c i = .pending then body.upd (fun c => setActionStatus c i .done) else body).trans = none := by
        intro body pb hb hc
        split
        · exact ⟨pb.setDone i hc, hb⟩
        · exact ⟨pb, hb⟩
      cases hkind : a.kind with
      | pause =>
        have hki : actionKind l.c i = some .pause := by simp [actionKind, ha, hkind]
        have hno : ¬ Owed l := by
          intro ho
          obtain ⟨k, hp⟩ := owed_slot p hl htr ho
          have : i = k := by have := hp.2.2.1; rw [hint] at this; injection this
          subst this
          have := hp.2.2.2.2.2; rw [hki] at this; cases this
        simp only
        cases next with
        | some s =>
          dsimp only
          have p1 := transitionToL_kj hF l s p hl htr (fun ho => (hno ho).elim)
          have htr1 := transitionToL_trans F l s
          have hk1 : actionKind (transitionToL F l s).c i = some .pause := transitionToL_kd hF.fkd l s i _ hki
          split
          · exact hclose _ p1 htr1 (Or.inr hk1)
          · obtain ⟨p2, t2⟩ := doPauseL_kj hF.fk _ p1
            exact hclose _ p2 (t2.none htr1) (Or.inr (doPauseL_kd hF.fkd _ i _ hk1))
        | none =>
          dsimp only
          obtain ⟨p2, t2⟩ := doPauseL_kj hF.fk _ p
          exact hclose _ p2 (t2.none htr) (Or.inr (doPauseL_kd hF.fkd _ i _ hki))
      | kill =>
        simp only
        have p1 := transitionToL_ke_kj hF.fp l .killed (Or.inl rfl) p.pok
        have htr1 := transitionToL_trans F l .killed
        have hke : KE (transitionToL F l .killed).c := transitionToL_ke l .killed (Or.inl rfl)
        have p2 : KJ ((transitionToL F l .killed).upd (fun c => { c with killing := none })) :=
          KJ.mk (fun k hk => by cases hk) p1.pok p1.nofin (fun _ => Or.inl hke)
        exact hclose _ p2 htr1 (Or.inl (ke_terminal hke))

theorem enactLoop_kj (hF : FGood F) : ∀ (n : Nat) (l : LCfg), KJ l → l.trans = none →
    KJ (enactLoop F n l) ∧ (enactLoop F n l).trans = none
  | 0, l, p, htr => ⟨p, htr⟩
  | n+1, l, p, htr => by
    unfold enactLoop
    split
    · rename_i i hi
      split
      · rename_i hc
        simp only [Bool.and_eq_true, decide_eq_true_eq, Bool.not_eq_true'] at hc
        obtain ⟨p1, htr1⟩ := runActionL_kj hF l i none p hc.2 htr hi
        exact enactLoop_kj hF n _ p1 htr1
      · exact ⟨p, htr⟩
    · exact ⟨p, htr⟩

theorem dispatch1L_kj (hF : FGood F) (l : LCfg) (next : Option SObj) (p : KJ l) (hl : terminal l.c.st.label = false)
    (htr : l.trans = none) : KJ (dispatch1L F l next) ∧ (dispatch1L F l next).trans = none := by
  -- the nominal transition happens only when no kill is owed (an owed kill is the pending action in the slot)
  have hnom : (l.c.interrupt = none ∨ ∃ i, l.c.interrupt = some i ∧ actionStatus l.c i = .cancelled) → ¬ Owed l := by
    intro h ho
    obtain ⟨k, hp⟩ := owed_slot p hl htr ho
    rcases h with h | ⟨i, h1, h2⟩
    · have := hp.2.2.1; rw [h] at this; cases this
    · have : i = k := by have := hp.2.2.1; rw [h1] at this; injection this
      subst this
      have := hp.2.2.2.1; rw [h2] at this; cases this
  unfold dispatch1L
  split
  · rename_i i hi
    split
    · exact runActionL_kj hF l i next p hl htr hi
    · rename_i hc
      have hc' : actionStatus l.c i = .cancelled := by simpa using hc
      split
      · exact ⟨transitionToL_kj hF l _ p hl htr (fun ho => (hnom (Or.inr ⟨i, hi, hc'⟩) ho).elim), transitionToL_trans ..⟩
      · exact ⟨p, htr⟩
  · rename_i hn
    split
    · exact ⟨transitionToL_kj hF l _ p hl htr (fun ho => (hnom (Or.inl hn) ho).elim), transitionToL_trans ..⟩
    · exact ⟨p, htr⟩

theorem dispatchL_kj (hF : FGood F) (l : LCfg) (next : Option SObj) (p : KJ l) (htr : l.trans = none) :
    KJ (dispatchL F l next) ∧ (dispatchL F l next).trans = none := by
  unfold dispatchL
  split
  · exact ⟨p, htr⟩
  · rename_i hl
    obtain ⟨p1, htr1⟩ := dispatch1L_kj hF l next p (by simpa using hl) htr
    exact enactLoop_kj hF _ _ p1 htr1

/-- **a kill issued by a listener or a state-event callback during the closing part of a step is enacted before the step
ends**: if the invariant holds when `dispatchL` starts, with no transition in progress, then when it returns a kill that the oracle
issued while the process was live (and not inside a transition into a terminal state) has left the process KILLED — or EXCEPTED, if
entering KILLED failed. -/
theorem dispatchL_owed (hF : FGood F) (l : LCfg) (next : Option SObj) (p : KJ l) (htr : l.trans = none) :
    Owed (dispatchL F l next) → KE (dispatchL F l next).c := by
  intro ho
  obtain ⟨p1, htr1⟩ := dispatchL_kj hF l next p htr
  have hq := dispatchL_quiet hF.fadv l next
  by_cases hl : terminal (dispatchL F l next).c.st.label = true
  · exact terminal_cases hl (p1.nofin ho).1
  · obtain ⟨k, hp⟩ := owed_slot p1 (by simpa using hl) htr1 ho
    unfold Quiet at hq
    rw [hp.2.2.1] at hq
    rcases hq with hq | hq
    · exact (hq hp.2.2.2.1).elim
    · exact (hl hq).elim
end

end L
end PMF

namespace PMF
namespace L

theorem owed_of_issued_eq {l l' : LCfg} (h : l'.issued = l.issued) : Owed l' ↔ Owed l := by
  unfold Owed; rw [h]

theorem finally_ke (d : LCfg) : KE (d.upd finally_).c ↔ KE d.c := by
  unfold KE; rw [upd_c, (finally_same d.c).1]

theorem setInterrupt_fields (c : Cfg) (n : Option Nat) : (setInterrupt c n).killing = c.killing ∧
    (setInterrupt c n).stepping = c.stepping ∧ (setInterrupt c n).st = c.st := by
  unfold setInterrupt; split
  · exact ⟨(cancelAction_fields _ _).1, (cancelAction_fields _ _).2.2.1, (cancelAction_fields _ _).2.2.2.2⟩
  · exact ⟨rfl, rfl, rfl⟩

/-- the `finally` of `step()`: with nothing left to enact the invariant survives the clearing of the slot -/
theorem finally_kj {d : LCfg} (p : KJ d) (hq : Quiet d) : KJ (d.upd finally_) := by
  have hf := setInterrupt_fields { d.c with stepping := false } none
  have hst : (finally_ d.c).st = d.c.st := hf.2.2
  have hkl : (finally_ d.c).killing = d.c.killing := hf.1
  refine p.rebuild _ hst ?_ (p.pok.kx (finally_kx d.c)) (fun hne => by rw [hkl]; exact hne)
  intro k hk
  rw [hkl] at hk
  left; rw [hst]
  rcases p.kok k hk with ht | hp
  · exact ht
  · unfold Quiet at hq
    rw [hp.2.2.1] at hq
    rcases hq with hq | hq
    · exact (hq hp.2.2.2.1).elim
    · exact hq

section
variable {F : Hook → LCfg → LCfg}

theorem enactLoop_terminal' (n : Nat) (l : LCfg) (ht : terminal l.c.st.label = true) : enactLoop F n l = l :=
  enactLoop_terminal n l ht

/-- the closing part of a step keeps the invariant, whatever the step produced -/
theorem endOfStepL_kj (hF : FGood F) (l : LCfg) (r : StepEnd) (p : KJ l) (htr : l.trans = none) :
    KJ (endOfStepL F l r) ∧ (endOfStepL F l r).trans = none := by
  unfold endOfStepL; dsimp only
  -- `dispatchL` from a configuration that satisfies the invariant
  have hgood : ∀ (c' : Cfg) next, KJ { l with executing := false, c := c' } →
      KJ ((dispatchL F { l with executing := false, c := c' } next).upd finally_) ∧
      ((dispatchL F { l with executing := false, c := c' } next).upd finally_).trans = none := by
    intro c' next p'
    obtain ⟨p1, htr1⟩ := dispatchL_kj hF _ next p' htr
    exact ⟨finally_kj p1 (dispatchL_quiet hF.fadv _ next), htr1⟩
  -- the step failed: whatever was requested is dropped, the process excepts
  have hexc : ∀ e, KJ ((dispatchL F { l with executing := false, c := setInterrupt l.c none } (some (.excepted e))).upd finally_) ∧
      ((dispatchL F { l with executing := false, c := setInterrupt l.c none } (some (.excepted e))).upd finally_).trans = none := by
    intro e
    have hf := setInterrupt_fields l.c none
    have hpok : PausingOk (setInterrupt l.c none) := p.pok.kx (setInterrupt_kx l.c none)
    have hi : (setInterrupt l.c none).interrupt = none := by unfold setInterrupt; split <;> rfl
    by_cases ht : terminal l.c.st.label = true
    · have hd : dispatchL F { l with executing := false, c := setInterrupt l.c none } (some (.excepted e)) =
          { l with executing := false, c := setInterrupt l.c none } := by
        unfold dispatchL; simp [hf.2.2, ht]
      rw [hd]
      have p' : KJ { l with executing := false, c := setInterrupt l.c none } :=
        (p.rebuild _ hf.2.2 (fun k _ => Or.inl (by rw [hf.2.2]; exact ht)) hpok (fun hne => by rw [hf.1]; exact hne)).same rfl rfl rfl
      refine ⟨finally_kj p' ?_, htr⟩
      unfold Quiet; simp only [hi]
    · have hd : dispatchL F { l with executing := false, c := setInterrupt l.c none } (some (.excepted e)) =
          transitionToL F { l with executing := false, c := setInterrupt l.c none } (.excepted e) := by
        have hke : KE (transitionToL F { l with executing := false, c := setInterrupt l.c none } (.excepted e)).c :=
          transitionToL_ke _ _ (Or.inr rfl)
        unfold dispatchL
        simp only [hf.2.2, ht]
        have h1 : dispatch1L F { l with executing := false, c := setInterrupt l.c none } (some (.excepted e)) =
            transitionToL F { l with executing := false, c := setInterrupt l.c none } (.excepted e) := by
          unfold dispatch1L; simp only [hi]
        rw [h1, enactLoop_terminal _ _ (ke_terminal hke)]
        simp
      rw [hd]
      have p1 : KJ (transitionToL F { l with executing := false, c := setInterrupt l.c none } (.excepted e)) :=
        transitionToL_ke_kj hF.fp _ _ (Or.inr rfl) hpok
      refine ⟨finally_kj p1 ?_, by rw [upd_trans]; exact transitionToL_trans ..⟩
      have := dispatchL_quiet hF.fadv { l with executing := false, c := setInterrupt l.c none } (some (.excepted e))
      rw [hd] at this; exact this
  have p0 : KJ { l with executing := false, c := l.c } := p.same rfl rfl rfl
  unfold prepare
  split
  · exact hexc _
  · exact hgood _ _ p0
  · split
    · exact hgood _ _ p0
    · rename_i ck _ hn
      refine hgood _ _ ?_
      have hnew := setInterruptFromExc_new l.c (kindOfCookie l.c ck) ck
      refine (p.rebuild _ (setInterruptFromExc_hkc ..).st ?_ (p.pok.kx (setInterruptFromExc_kx ..))
        (fun hne => by rw [hnew.2.2.2.1]; exact hne)).same rfl rfl rfl
      intro k hk
      rw [hnew.2.2.2.1] at hk
      rcases p.kok k hk with ht | hp
      · left; rw [(setInterruptFromExc_hkc ..).st]; exact ht
      · have := hp.2.2.1; rw [hn] at this; cases this
  · exact hexc _

/-- the owed kill, for the whole closing part, from any configuration that satisfies the invariant -/
theorem endOfStepL_owed' (hF : FGood F) (l : LCfg) (r : StepEnd) (p : KJ l) (htr : l.trans = none) :
    Owed (endOfStepL F l r) → KE (endOfStepL F l r).c ∨ ∃ k, Pending k (endOfStepL F l r).c := by
  intro ho
  obtain ⟨p1, htr1⟩ := endOfStepL_kj hF l r p htr
  by_cases hl : terminal (endOfStepL F l r).c.st.label = true
  · exact Or.inl (terminal_cases hl (p1.nofin ho).1)
  · exact Or.inr (owed_slot p1 (by simpa using hl) htr1 ho)

theorem KJ.keep {l : LCfg} (p : KJ l) (f : Cfg → Cfg) (k : Keep l.c (f l.c)) : KJ (l.upd f) :=
  p.upd f ⟨k.2.1, k.2.2.1, k.2.2.2.1, k.2.2.2.2.1, Or.inl k.2.2.2.2.2⟩ (Or.inl k.1) (fun ho => by rw [k.1]; exact (p.nofin ho).1)

theorem finishUserL_kj (hF : FGood F) (l : LCfg) (o : Outcome) (p : KJ l) (htr : l.trans = none) :
    KJ (finishUserL F l o) ∧ (finishUserL F l o).trans = none := by
  unfold finishUserL
  split
  · exact endOfStepL_kj hF _ _ (p.keep (fun c => (cmdToState c _).1) (cmdToState_keep ..)) htr
  · exact endOfStepL_kj hF _ _ p htr

theorem rearm_keep (c : Cfg) (wf : Nat) : Keep c (rearm c wf) := by
  unfold rearm
  split
  · rename_i hst
    split
    · exact ⟨by simp [hst, SObj.label], rfl, rfl, rfl, rfl, rfl⟩
    · exact Keep.rfl' c
  · exact Keep.rfl' c

theorem wakeL_kj (hF : FGood F) (l : LCfg) (fn wf : Nat) (w : WF) (p : KJ l) (htr : l.trans = none) :
    KJ (wakeL F l fn wf w) ∧ (wakeL F l fn wf w).trans = none := by
  unfold wakeL
  split
  · exact endOfStepL_kj hF _ _ p htr
  · exact endOfStepL_kj hF _ _ (p.keep _ (rearm_keep ..)) htr
  · exact endOfStepL_kj hF _ _ p htr
  · exact ⟨p, htr⟩

/-- `self._stepping = True` -/
theorem KJ.setStepping {l : LCfg} (p : KJ l) (x : Bool) :
    KJ ({ l with c := { l.c with stepping := true }, executing := x } : LCfg) := by
  refine ⟨?_, p.pok, p.nofin, p.ook⟩
  intro k hk
  rcases p.kok k hk with ht | hp
  · exact Or.inl ht
  · exact Or.inr ⟨hp.1, hp.2.1, hp.2.2.1, hp.2.2.2.1, rfl, hp.2.2.2.2.2⟩

theorem stepBodyKL_kj (hF : FGood F) (P : Prog) (k : LCfg → LCfg)
    (hk : ∀ l, (KJ l ∧ l.trans = none) → KJ (k l) ∧ (k l).trans = none) (l : LCfg) (p : KJ l) (htr : l.trans = none) :
    KJ (stepBodyKL F P k l) ∧ (stepBodyKL F P k l).trans = none := by
  unfold stepBodyKL
  have hs : KJ ({ l with c := { l.c with stepping := true }, executing := true } : LCfg) := p.setStepping true
  dsimp only
  split
  · exact hk _ (endOfStepL_kj hF _ _ hs htr)
  · split
    · exact hk _ (finishUserL_kj hF _ _ (hs.keep _ ⟨rfl, rfl, rfl, rfl, rfl, rfl⟩) htr)
    · exact ⟨(hs.keep _ ⟨rfl, rfl, rfl, rfl, rfl, rfl⟩).keep _ ⟨rfl, rfl, rfl, rfl, rfl, rfl⟩, htr⟩
  · split
    · exact ⟨hs.keep _ ⟨rfl, rfl, rfl, rfl, rfl, rfl⟩, htr⟩
    · exact hk _ (wakeL_kj hF _ _ _ _ hs htr)
    · exact ⟨hs, htr⟩
  · exact hk _ (endOfStepL_kj hF _ _ hs htr)

theorem loopHeadL_kj (hF : FGood F) (P : Prog) : ∀ (fuel : Nat) (l : LCfg), KJ l → l.trans = none →
    KJ (loopHeadL F P fuel l) ∧ (loopHeadL F P fuel l).trans = none
  | 0, _, p, htr => ⟨p, htr⟩
  | n+1, l, p, htr => by
    have hb := fun l p htr => stepBodyKL_kj hF P (loopHeadL F P n) (fun l h => loopHeadL_kj hF P n l h.1 h.2) l p htr
    have hpc : ∀ x, KJ (l.upd (fun c => { c with pc := x })) := fun x => p.keep _ ⟨rfl, rfl, rfl, rfl, rfl, rfl⟩
    unfold loopHeadL
    split
    · exact ⟨p, htr⟩
    · split
      · exact ⟨hpc _, htr⟩
      · split
        · exact ⟨hpc _, htr⟩
        · split
          · split
            · exact ⟨hpc _, htr⟩
            · exact hb l p htr
          · exact hb l p htr

theorem tickStepperL_kj (hF : FGood F) (P : Prog) (l : LCfg) (p : KJ l) (htr : l.trans = none) :
    KJ (tickStepperL F P l) ∧ (tickStepperL F P l).trans = none := by
  have hb := fun l p htr => stepBodyKL_kj hF P (loopHeadL F P fuel0) (fun l h => loopHeadL_kj hF P fuel0 l h.1 h.2) l p htr
  have hpc : ∀ x, KJ (l.upd (fun c => { c with pc := x })) := fun x => p.keep _ ⟨rfl, rfl, rfl, rfl, rfl, rfl⟩
  unfold tickStepperL
  split
  · exact loopHeadL_kj hF P _ l p htr
  · split
    · split
      · split
        · exact ⟨hpc _, htr⟩
        · exact hb l p htr
      · exact hb l p htr
    · exact ⟨p, htr⟩
  · split
    · obtain ⟨p1, t1⟩ := finishUserL_kj hF l _ p htr
      exact loopHeadL_kj hF P _ _ p1 t1
    · exact ⟨hpc _, htr⟩
  · split
    · exact ⟨p, htr⟩
    · obtain ⟨p1, t1⟩ := wakeL_kj hF l _ _ _ p htr
      exact loopHeadL_kj hF P _ _ p1 t1
    · exact ⟨p, htr⟩
  · exact ⟨p, htr⟩

theorem failL_kj (hF : FGood F) (l : LCfg) (e : Exc) (p : KJ l) (htr : l.trans = none) :
    KJ (failL F l e).1 ∧ (failL F l e).1.trans = none := by
  unfold failL; split
  · exact ⟨p, htr⟩
  · exact ⟨transitionToL_ke_kj hF.fp l _ (Or.inr rfl) p.pok, transitionToL_trans ..⟩

/-- `kill()` called by the environment -/
theorem killL_env_kj (hF : FGood F) (l : LCfg) (p : KJ l) (htr : l.trans = none) :
    KJ (killL F l).1 ∧ (killL F l).1.trans = none := by
  obtain ⟨p1, t1⟩ := killL_kj hF.fp l l p rfl rfl (fun o => Or.inl o)
  exact ⟨p1, t1.none htr⟩

theorem tickCbL_kj (hF : FGood F) (l : LCfg) (cb : Cb) (p : KJ l) (htr : l.trans = none) :
    KJ (tickCbL F l cb) ∧ (tickCbL F l cb).trans = none := by
  unfold tickCbL; split
  · have p1 : KJ (l.upd (fun c => { c with ready := c.ready.erase cb })) := p.keep _ ⟨rfl, rfl, rfl, rfl, rfl, rfl⟩
    dsimp only
    split
    · exact ⟨p1.keep _ (awaitableDone_keep ..), htr⟩
    · unfold tryKillingL
      obtain ⟨p2, t2⟩ := killL_env_kj hF _ p1 htr
      exact ⟨p2.keep _ ⟨rfl, rfl, rfl, rfl, rfl, rfl⟩, t2⟩
    · split
      · exact failL_kj hF _ _ p1 htr
      · exact ⟨p1, htr⟩
  · exact ⟨p, htr⟩

theorem resume_keep (c : Cfg) (v) : Keep c (resume c v).1 := by
  unfold resume; split
  · exact deliver_keep ..
  · exact Keep.rfl' c
theorem cancelFut_keep (c : Cfg) : Keep c (cancelFut c).1 := by
  unfold cancelFut; split <;> exact ⟨rfl, rfl, rfl, rfl, rfl, rfl⟩
theorem complete_keep (c : Cfg) (f o) : Keep c (complete c f o) := by
  unfold complete; split
  · dsimp only; split <;> exact ⟨rfl, rfl, rfl, rfl, rfl, rfl⟩
  · exact Keep.rfl' c

theorem stepLF_kj (hF : FGood F) (P : Prog) (l : LCfg) (ev : Ev) (p : KJ l) (htr : l.trans = none) :
    KJ (stepLF F P l ev).1 ∧ (stepLF F P l ev).1.trans = none := by
  cases ev <;> simp only [stepLF]
  · exact tickStepperL_kj hF P l p htr
  · exact tickCbL_kj hF l _ p htr
  · obtain ⟨p1, t1⟩ := pauseL_kj hF.fk l p; exact ⟨p1, t1.none htr⟩
  · obtain ⟨p1, t1⟩ := playL_kj hF.fk l p; exact ⟨p1, t1.none htr⟩
  · exact killL_env_kj hF l p htr
  · exact ⟨p.keep _ (resume_keep ..), htr⟩
  · exact failL_kj hF l _ p htr
  · exact ⟨p.keep _ (cancelFut_keep ..), htr⟩
  · exact ⟨p.keep _ (complete_keep ..), htr⟩
  · exact ⟨p.keep _ ⟨rfl, rfl, rfl, rfl, rfl, rfl⟩, htr⟩
end

theorem kj_init (nf : Nat) (plan : Plan) : KJ (initL nf plan) :=
  KJ.mk (fun k hk => by cases hk) (fun i hi => by cases hi) (fun ho => by obtain ⟨_, hm⟩ := ho; cases hm)
    (fun ho => by obtain ⟨_, hm⟩ := ho; cases hm)

/-- the invariant holds in every configuration reached by `runL`, and no transition is in progress between two events -/
theorem runL_kj (P : Prog) (l0 : LCfg) (evs : List Ev) (p : KJ l0) (htr : l0.trans = none) :
    KJ (runL P l0 evs) ∧ (runL P l0 evs).trans = none := by
  induction evs generalizing l0 with
  | nil => exact ⟨p, htr⟩
  | cons e es ih =>
    obtain ⟨p1, t1⟩ := stepLF_kj (fireN_good l0.plan.length) P l0 e p htr
    exact ih _ p1 t1

end L
end PMF

namespace PMF
namespace L

theorem endOfStepL_not_stepping (F : Hook → LCfg → LCfg) (l : LCfg) (r : StepEnd) : (endOfStepL F l r).c.stepping = false := by
  unfold endOfStepL; dsimp only
  rw [upd_c]
  unfold finally_
  rw [(setInterrupt_fields _ none).2.1]

/-- **a kill issued by a listener or state-event callback during the closing part of a step has been enacted when the step
ends** (whole closing part: `except` clauses, interrupt action or nominal transition, the `while` loop, `finally`). -/
theorem endOfStepL_owed {F : Hook → LCfg → LCfg} (hF : FGood F) (l : LCfg) (r : StepEnd) (p : KJ l) (htr : l.trans = none) :
    Owed (endOfStepL F l r) → KE (endOfStepL F l r).c := by
  intro ho
  rcases endOfStepL_owed' hF l r p htr ho with h | ⟨k, hp⟩
  · exact h
  · have := hp.2.2.2.2.1
    rw [endOfStepL_not_stepping] at this; cases this

/-- **kill committed, with listeners**: in every configuration reached by `runL`, a kill that the oracle issued on a live process
(not inside a transition into a terminal state) has left the process KILLED / EXCEPTED, or is the pending interrupt action of the
step in flight. -/
theorem runL_owed (P : Prog) (nf : Nat) (plan : Plan) (evs : List Ev) :
    Owed (runL P (initL nf plan) evs) → KE (runL P (initL nf plan) evs).c ∨ ∃ k, Pending k (runL P (initL nf plan) evs).c := by
  intro ho
  obtain ⟨p, htr⟩ := runL_kj P (initL nf plan) evs (kj_init nf plan) rfl
  by_cases hl : terminal (runL P (initL nf plan) evs).c.st.label = true
  · exact Or.inl (terminal_cases hl (p.nofin ho).1)
  · exact Or.inr (owed_slot p (by simpa using hl) htr ho)

end L
end PMF
