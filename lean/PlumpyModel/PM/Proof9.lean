import PlumpyModel.PM.Proof6
/-!
# Progress of the stepping coroutine on a terminated process (C02: step_until_terminated() returns)
-/
namespace PMF

/-- frame: the end of a step on a terminated process changes neither state nor program counter nor the futures -/
theorem cancelAction_pc (c : Cfg) (i : Nat) : (cancelAction c i).pc = c.pc ∧ (cancelAction c i).st = c.st ∧
    (cancelAction c i).paused = c.paused ∧ (cancelAction c i).pfs = c.pfs ∧ (cancelAction c i).closed = c.closed := by
  unfold cancelAction; split
  · unfold setActionStatus; split <;> exact ⟨rfl, rfl, rfl, rfl, rfl⟩
  · exact ⟨rfl, rfl, rfl, rfl, rfl⟩

theorem setInterrupt_pc (c : Cfg) (n) : (setInterrupt c n).pc = c.pc ∧ (setInterrupt c n).st = c.st ∧
    (setInterrupt c n).paused = c.paused ∧ (setInterrupt c n).pfs = c.pfs ∧ (setInterrupt c n).closed = c.closed := by
  unfold setInterrupt; split
  · obtain ⟨a, b, d, e, f⟩ := cancelAction_pc c ‹Nat›
    exact ⟨a, b, d, e, f⟩
  · exact ⟨rfl, rfl, rfl, rfl, rfl⟩

theorem setInterruptFromExc_pc (c : Cfg) (k n) : (setInterruptFromExc c k n).pc = c.pc ∧ (setInterruptFromExc c k n).st = c.st ∧
    (setInterruptFromExc c k n).paused = c.paused ∧ (setInterruptFromExc c k n).pfs = c.pfs ∧
    (setInterruptFromExc c k n).closed = c.closed := by
  unfold setInterruptFromExc cancelInterrupt
  split
  · obtain ⟨a, b, d, e, f⟩ := cancelAction_pc c ‹Nat›
    exact ⟨a, b, d, e, f⟩
  · exact ⟨rfl, rfl, rfl, rfl, rfl⟩

/-- on a terminated process the whole end-of-step is a no-op as far as the stepping coroutine is concerned -/
theorem endOfStep_terminal (c : Cfg) (r : StepEnd) (ht : terminal c.st.label = true) :
    (endOfStep c r).pc = c.pc ∧ (endOfStep c r).st = c.st ∧ (endOfStep c r).paused = c.paused ∧
    (endOfStep c r).pfs = c.pfs ∧ (endOfStep c r).closed = c.closed := by
  unfold endOfStep
  have hp : (prepare c r).1.pc = c.pc ∧ (prepare c r).1.st = c.st ∧ (prepare c r).1.paused = c.paused ∧
      (prepare c r).1.pfs = c.pfs ∧ (prepare c r).1.closed = c.closed := by
    unfold prepare
    split
    · exact setInterrupt_pc ..
    · exact ⟨rfl, rfl, rfl, rfl, rfl⟩
    · split
      · exact ⟨rfl, rfl, rfl, rfl, rfl⟩
      · exact setInterruptFromExc_pc ..
    · exact setInterrupt_pc ..
  have hd : dispatch (prepare c r).1 (prepare c r).2 = (prepare c r).1 := by
    unfold dispatch; rw [hp.2.1]; simp [ht]
  simp only [hd]
  unfold finally_
  obtain ⟨a, b, d, e, f⟩ := setInterrupt_pc { (prepare c r).1 with stepping := false } none
  exact ⟨a.trans hp.1, b.trans hp.2.1, d.trans hp.2.2.1, e.trans hp.2.2.2.1, f.trans hp.2.2.2.2⟩

theorem loopHead_terminal (P : Prog) (fuel : Nat) (c : Cfg) (ht : terminal c.st.label = true)
    (hcr : ∀ e, c.pc ≠ .crashed e) : (loopHead P (fuel + 1) c).pc = .done := by
  unfold loopHead
  split
  · rename_i e he; exact absurd he (hcr e)
  · simp [ht]

theorem not_live_of_terminal {c : Cfg} (ht : terminal c.st.label = true) :
    (∀ fn, c.st ≠ .created fn) ∧ (∀ fn a k, c.st ≠ .running fn a k) ∧ (∀ fn wf wk aw, c.st ≠ .waiting fn wf wk aw) := by
  refine ⟨?_, ?_, ?_⟩ <;> intros <;> intro h <;> rw [h] at ht <;> simp [SObj.label, terminal, allowed] at ht

/-- a step body started on a terminated process (woken from the pause wait) does nothing and the loop ends -/
theorem stepBody_terminal (P : Prog) (fuel : Nat) (c : Cfg) (ht : terminal c.st.label = true)
    (hcr : ∀ e, c.pc ≠ .crashed e) : (stepBody P (fuel + 1) c).pc = .done := by
  obtain ⟨h1, h2, h3⟩ := not_live_of_terminal ht
  unfold stepBody stepBodyK
  dsimp only
  split
  · rename_i fn h; exact absurd h (h1 fn)
  · rename_i fn a k h; exact absurd h (h2 fn a k)
  · rename_i fn wf wk aw h; exact absurd h (h3 fn wf wk aw)
  · have he := endOfStep_terminal { c with stepping := true } (.next none) ht
    exact loopHead_terminal P fuel _ (by rw [he.2.1]; exact ht) (by intro e; rw [he.1]; exact hcr e)

def ticks (P : Prog) : Nat → Cfg → Cfg
  | 0, c => c
  | n + 1, c => ticks P n (tickStepper P c)

theorem fuel0_pos : fuel0 = 999 + 1 := rfl


theorem cmdToState_fields (c : Cfg) (cmd : Cmd) : (cmdToState c cmd).1.pc = c.pc ∧ (cmdToState c cmd).1.st = c.st := by
  unfold cmdToState; split <;> exact ⟨rfl, rfl⟩

theorem finishUser_terminal (c : Cfg) (o : Outcome) (ht : terminal c.st.label = true) :
    (finishUser c o).pc = c.pc ∧ (finishUser c o).st = c.st := by
  unfold finishUser
  split
  · rename_i cmd
    obtain ⟨a, b⟩ := cmdToState_fields c cmd
    have he := endOfStep_terminal (cmdToState c cmd).1 (.next (some (cmdToState c cmd).2)) (by rw [b]; exact ht)
    exact ⟨he.1.trans a, he.2.1.trans b⟩
  · have he := endOfStep_terminal c (.next (some (.excepted ‹Exc›))) ht
    exact ⟨he.1, he.2.1⟩

theorem wake_terminal (c : Cfg) (fn wf : Nat) (w : WF) (ht : terminal c.st.label = true) :
    (wake c fn wf w).pc = c.pc ∧ (wake c fn wf w).st = c.st := by
  obtain ⟨_, _, h3⟩ := not_live_of_terminal ht
  unfold wake
  split
  · have he := endOfStep_terminal c (.next (some (.running fn (match ‹Option Val› with | some x => [x] | none => []) []))) ht
    exact ⟨he.1, he.2.1⟩
  · dsimp only
    split
    · rename_i f wf' wk aw h; exact absurd h (h3 f wf' wk aw)
    · have he := endOfStep_terminal c (.interruption ‹Nat›) ht
      exact ⟨he.1, he.2.1⟩
  · have he := endOfStep_terminal c (.exception ‹Exc›) ht
    exact ⟨he.1, he.2.1⟩
  · exact ⟨rfl, rfl⟩

/-- **step_until_terminated() returns (partial)**: from a terminated configuration in which the stepping coroutine is not
blocked on an unreleased future — the pause future it awaits (and the current one) has been released, the waiting
future it awaits has been completed — finitely many wake-ups of the stepping task end it normally. -/
theorem stepper_returns (P : Prog) (c : Cfg) (ht : terminal c.st.label = true) (hcr : ∀ e, c.pc ≠ .crashed e)
    (hpz : ∀ pf, c.paused = some pf → c.pfs[pf]? = some true)
    (hap : ∀ pf, c.pc = .awaitPaused pf → c.pfs[pf]? = some true)
    (haw : ∀ wf, c.pc = .awaitWaiting wf → ∃ w, c.wfs[wf]? = some w ∧ w ≠ .pending) :
    ∃ n, (ticks P n c).pc = .done := by
  cases hpc : c.pc with
  | done => exact ⟨0, hpc⟩
  | crashed e => exact absurd hpc (hcr e)
  | notStarted =>
    refine ⟨1, ?_⟩
    simp only [ticks, tickStepper, hpc]
    rw [fuel0_pos]; exact loopHead_terminal P _ c ht hcr
  | awaitPaused pf =>
    refine ⟨1, ?_⟩
    have h1 := hap pf hpc
    simp only [ticks, tickStepper, hpc, h1, if_true]
    cases hp : c.paused with
    | none => simp only []; rw [fuel0_pos]; exact stepBody_terminal P _ c ht hcr
    | some pf' =>
      have h2 := hpz pf' hp
      simp only [h2]
      rw [fuel0_pos]; exact stepBody_terminal P _ c ht hcr
  | awaitWaiting wf =>
    refine ⟨1, ?_⟩
    obtain ⟨w, hw, hne⟩ := haw wf hpc
    simp only [ticks, tickStepper, hpc, hw]
    have hwk := fun fn' => wake_terminal c fn' wf w ht
    cases w with
    | pending => exact absurd rfl hne
    | result v => rw [fuel0_pos]; exact loopHead_terminal P _ _ (by rw [(hwk _).2]; exact ht) (by intro e; rw [(hwk _).1, hpc]; intro h; cases h)
    | interrupted k => rw [fuel0_pos]; exact loopHead_terminal P _ _ (by rw [(hwk _).2]; exact ht) (by intro e; rw [(hwk _).1, hpc]; intro h; cases h)
    | failed e' => rw [fuel0_pos]; exact loopHead_terminal P _ _ (by rw [(hwk _).2]; exact ht) (by intro e; rw [(hwk _).1, hpc]; intro h; cases h)
  | inUser b =>
    -- by induction on the number of awaits left in the user coroutine
    have key : ∀ (k : Nat) (d : Cfg) (b : Body), b.awaits = k → terminal d.st.label = true → d.pc = .inUser b →
        ∃ n, (ticks P n d).pc = .done := by
      intro k
      induction k with
      | zero =>
        intro d b hb hdt hdp
        refine ⟨1, ?_⟩
        simp only [ticks, tickStepper, hdp, hb, if_true]
        have hf := finishUser_terminal d b.out hdt
        rw [fuel0_pos]
        exact loopHead_terminal P _ _ (by rw [hf.2]; exact hdt) (by intro e; rw [hf.1, hdp]; intro h; cases h)
      | succ k ih =>
        intro d b hb hdt hdp
        have hne : b.awaits ≠ 0 := by omega
        obtain ⟨n, hn⟩ := ih { d with pc := .inUser { b with awaits := b.awaits - 1 } } { b with awaits := b.awaits - 1 }
          (by simp; omega) hdt rfl
        refine ⟨n + 1, ?_⟩
        simp only [ticks, tickStepper, hdp, hne, if_false]
        exact hn
    exact key b.awaits c b rfl ht hpc

end PMF

namespace PMF

/-- repair G at the transition level: `on_terminated` releases the pause future the process currently has -/
theorem releasePause_paused (d : Cfg) : (releasePause d).paused = d.paused := by
  unfold releasePause; split
  · split <;> rfl
  · rfl

theorem onClose_paused_pfs (d : Cfg) : (onClose d).paused = d.paused ∧ (onClose d).pfs = d.pfs := by
  unfold onClose; split <;> exact ⟨rfl, rfl⟩

theorem onTerminated_releases_pause (d : Cfg) (pf : Nat) (hp : (onTerminated d).paused = some pf)
    (hv : (d.pfs[pf]?).isSome = true) : (onTerminated d).pfs[pf]? = some true := by
  unfold onTerminated at *
  rw [(onClose_paused_pfs _).1, releasePause_paused] at hp
  rw [(onClose_paused_pfs _).2]
  unfold releasePause
  simp only [hp]
  cases hb : d.pfs[pf]? with
  | none => simp [hb] at hv
  | some b =>
    have hlt : pf < d.pfs.length := (List.getElem?_eq_some_iff.mp hb).1
    cases b
    · simp [hb, setAt, hlt]
    · simp [hb]

/-- repair J at the transition level: leaving a WAITING state completes its wait, so a step still awaiting it returns -/
theorem exitState_completes_wait (c : Cfg) (fn wf : Nat) (wk : Option WF) (aw : List (Nat × Nat))
    (hst : c.st = .waiting fn wf wk aw) (hv : (c.wfs[wf]?).isSome = true) :
    ∃ w, (exitState c).wfs[wf]? = some w ∧ w ≠ .pending := by
  unfold exitState
  simp only [hst]
  cases hw : c.wfs[wf]? with
  | none => simp [hw] at hv
  | some w =>
    have hlt : wf < c.wfs.length := (List.getElem?_eq_some_iff.mp hw).1
    by_cases hp : w = .pending
    · subst hp
      exact ⟨.result none, by simp [hw, setAt, hlt], by intro h; cases h⟩
    · refine ⟨w, ?_, hp⟩
      have : ¬ (some w = some WF.pending) := by intro h; cases h; exact hp rfl
      simp [hw, this]

end PMF
