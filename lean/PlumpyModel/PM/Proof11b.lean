import PlumpyModel.PM.Proof11
/-!
# C06 at the level of histories, part 2: the coherence invariant `Coh` of reachable configurations

`Coh c` ties the program counter of the stepping coroutine to the rest of the configuration:

* `Rob` (robust part): while no step is in flight there is no interrupt action; an installed interrupt action is pending
  or was cancelled by `play()`, and it is cancelled or aliased by `_pausing` / `_killing`; the future of the current
  WAITING state carries an interruption only while the interrupted step is still in flight; its index is valid; a parked
  wake-up is an outcome, never an interruption.
* `PcOk`: where the coroutine is suspended matches `stepping` and the state object (suspended inside user code: RUNNING or
  terminated by `fail()`; suspended on a waiting future: that of the current WAITING state; suspended on a pause future:
  that future is the current one or was released; finished: terminal) — and the coroutine never crashed.

`PcOk` is an invariant only of histories in which no single callback of the stepping task runs out of the model's
fuel (`histFuelOk`: fewer than `fuel0 = 1000` synchronous steps in one callback); `loopHead P 0 c = c` leaves a stale
program counter behind, after which the model's next tick would re-run an already consumed continuation.
-/
namespace PMF.H6
open PMF

def wfOf : SObj → Option Nat
  | .waiting _ wf _ _ => some wf
  | _ => none
def wkOf : SObj → Option WF
  | .waiting _ _ wk _ => wk
  | _ => none

theorem wfOf_waiting {s : SObj} {wf : Nat} (h : wfOf s = some wf) : ∃ fn wk aw, s = .waiting fn wf wk aw := by
  cases s <;> simp [wfOf] at h
  subst h; exact ⟨_, _, _, rfl⟩
theorem wfOf_none_of_terminal {s : SObj} (h : terminal s.label = true) : wfOf s = none := by
  cases s <;> simp [wfOf, SObj.label, terminal, allowed] at h ⊢

def Int0 (c : Cfg) : Prop := c.stepping = false → c.interrupt = none
def Alias (c : Cfg) : Prop :=
  ∀ i, c.interrupt = some i → actionStatus c i = .cancelled ∨ c.pausing = some i ∨ c.killing = some i
def Intr (c : Cfg) : Prop :=
  ∀ wf k, wfOf c.st = some wf → c.wfs[wf]? = some (.interrupted k) → c.stepping = true ∧ c.interrupt ≠ none
def Wfv (c : Cfg) : Prop := ∀ wf, wfOf c.st = some wf → wf < c.wfs.length
def Park (c : Cfg) : Prop := ∀ o k, wkOf c.st = some o → o ≠ .interrupted k

/-- the robust part of the invariant (holds whatever the fuel) -/
structure Rob (c : Cfg) : Prop where
  int0 : Int0 c
  actOk : ActOk c
  alias : Alias c
  intr : Intr c
  wfv : Wfv c
  park : Park c

def PcOk (c : Cfg) : Prop :=
  match c.pc with
  | .notStarted => c.stepping = false
  | .awaitPaused pf => c.stepping = false ∧ (terminal c.st.label = false → c.pfs[pf]? = some true ∨ c.paused = some pf)
  | .inUser _ => c.stepping = true ∧ wfOf c.st = none
  | .awaitWaiting wf => c.stepping = true ∧ (terminal c.st.label = true ∨ wfOf c.st = some wf)
  | .done => c.stepping = false ∧ terminal c.st.label = true
  | .crashed _ => False

/-- the coherence invariant of reachable configurations -/
structure Coh (c : Cfg) : Prop where
  rob : Rob c
  inv : Inv c
  invP : InvP c
  pcOk : PcOk c

/-- a configuration between two steps of one callback of the stepping task (the program counter is stale) -/
structure Mid (c : Cfg) : Prop where
  rob : Rob c
  inv : Inv c
  invP : InvP c
  nstep : c.stepping = false
  ncr : ∀ e, c.pc ≠ .crashed e

/-- `d` agrees with `c` on everything `Coh` looks at -/
structure SameAll (c d : Cfg) : Prop where
  label : d.st.label = c.st.label
  wfOf : wfOf d.st = wfOf c.st
  wkOf : wkOf d.st = wkOf c.st
  wfs : d.wfs = c.wfs
  stepping : d.stepping = c.stepping
  interrupt : d.interrupt = c.interrupt
  actions : d.actions = c.actions
  pausing : d.pausing = c.pausing
  killing : d.killing = c.killing
  pc : d.pc = c.pc
  paused : d.paused = c.paused
  pfs : d.pfs = c.pfs
  entered : d.entered = c.entered
  closed : d.closed = c.closed
  trace : d.trace = c.trace

theorem SameAll.rfl' (c : Cfg) : SameAll c c := ⟨rfl, rfl, rfl, rfl, rfl, rfl, rfl, rfl, rfl, rfl, rfl, rfl, rfl, rfl, rfl⟩

theorem actionStatus_congr {c d : Cfg} (h : d.actions = c.actions) (i : Nat) : actionStatus d i = actionStatus c i := by
  simp [actionStatus, h]

theorem Rob.congr {c d : Cfg} (h : Rob c) (hwf : wfOf d.st = wfOf c.st) (hwk : wkOf d.st = wkOf c.st) (hwfs : d.wfs = c.wfs)
    (hstep : d.stepping = c.stepping) (hint : d.interrupt = c.interrupt) (hact : d.actions = c.actions)
    (hpau : d.pausing = c.pausing) (hkil : d.killing = c.killing) : Rob d := by
  refine ⟨?_, ?_, ?_, ?_, ?_, ?_⟩
  · intro hs; rw [hint]; exact h.int0 (by rw [← hstep]; exact hs)
  · intro i hi; rw [actionStatus_congr hact]; exact h.actOk i (by rw [← hint]; exact hi)
  · intro i hi; rw [actionStatus_congr hact, hpau, hkil]; exact h.alias i (by rw [← hint]; exact hi)
  · intro wf k h1 h2; rw [hstep, hint]
    exact h.intr wf k (by rw [← hwf]; exact h1) (by rw [← hwfs]; exact h2)
  · intro wf h1; rw [hwfs]; exact h.wfv wf (by rw [← hwf]; exact h1)
  · intro o k h1; exact h.park o k (by rw [← hwk]; exact h1)

theorem Rob.same {c d : Cfg} (h : Rob c) (s : SameAll c d) : Rob d :=
  h.congr s.wfOf s.wkOf s.wfs s.stepping s.interrupt s.actions s.pausing s.killing

theorem PcOk.congr {c d : Cfg} (h : PcOk c) (hpc' : d.pc = c.pc) (hst : d.stepping = c.stepping)
    (hl : d.st.label = c.st.label) (hw : wfOf d.st = wfOf c.st) (hpf : d.pfs = c.pfs) (hpa : d.paused = c.paused) : PcOk d := by
  unfold PcOk at *
  rw [hpc']
  cases hpc : c.pc <;> simp only [hpc] at h ⊢ <;> simp only [hst, hl, hpf, hpa, hw] <;> exact h

theorem PcOk.same {c d : Cfg} (h : PcOk c) (s : SameAll c d) : PcOk d :=
  h.congr s.pc s.stepping s.label s.wfOf s.pfs s.paused

theorem Coh.same {c d : Cfg} (h : Coh c) (s : SameAll c d) : Coh d :=
  ⟨h.rob.same s, h.inv.same ⟨s.label, s.entered, s.closed⟩, h.invP.same ⟨s.label, s.trace, s.paused, s.pfs⟩, h.pcOk.same s⟩

theorem rob_init (nf : Nat) : Rob (init nf) := by
  refine ⟨fun _ => rfl, ?_, ?_, ?_, ?_, ?_⟩
  · intro i hi; simp [init] at hi
  · intro i hi; simp [init] at hi
  · intro wf k h; simp [init, wfOf] at h
  · intro wf h; simp [init, wfOf] at h
  · intro o k h; simp [init, wkOf] at h

theorem coh_init (nf : Nat) : Coh (init nf) :=
  ⟨rob_init nf, inv_init nf, invP_init nf, by simp [PcOk, init]⟩


theorem wkOf_none_of_terminal {s : SObj} (h : terminal s.label = true) : wkOf s = none := by
  cases s <;> simp [wkOf, SObj.label, terminal, allowed] at h ⊢

/-! ### `deliver` (resume, `_awaitable_done`) -/

theorem deliver_coh (c : Cfg) (o : WF) (ho : ∀ k, o ≠ .interrupted k) (h : Coh c) : Coh (deliver c o) := by
  refine ⟨?_, h.inv.same (deliver_same c o), h.invP.same (deliver_sameP c o), ?_⟩
  · unfold deliver
    split
    · rename_i fn wf wk aw hst
      have hlt : wf < c.wfs.length := h.rob.wfv wf (by rw [hst]; rfl)
      split
      · refine ⟨h.rob.int0, h.rob.actOk, h.rob.alias, ?_, ?_, h.rob.park⟩
        · intro wf' k h1 h2
          have h1' : wfOf c.st = some wf' := h1
          rw [hst] at h1'; simp [wfOf] at h1'; subst h1'
          have h2' : (setAt c.wfs wf o)[wf]? = some (.interrupted k) := h2
          simp [setAt, hlt] at h2'
          exact absurd h2' (ho k)
        · intro wf' h1
          have := h.rob.wfv wf' h1
          show wf' < (setAt c.wfs wf o).length
          simpa [setAt] using this
      · split
        · refine ⟨h.rob.int0, h.rob.actOk, h.rob.alias, ?_, ?_, ?_⟩
          · intro wf' k h1 h2
            simp [wfOf] at h1; subst h1
            exact h.rob.intr wf k (by rw [hst]; rfl) h2
          · intro wf' h1
            simp [wfOf] at h1; subst h1
            exact hlt
          · intro o' k h1
            simp [wkOf] at h1; subst h1
            exact ho k
        · exact h.rob
      · exact h.rob
    · exact h.rob
  · unfold deliver
    split
    · rename_i fn wf wk aw hst
      split
      · exact h.pcOk.congr rfl rfl rfl rfl rfl rfl
      · split
        · exact h.pcOk.congr rfl rfl (by simp [hst, SObj.label]) (by simp [hst, wfOf]) rfl rfl
        · exact h.pcOk
      · exact h.pcOk
    · exact h.pcOk

theorem resume_coh (c : Cfg) (v) (h : Coh c) : Coh (resume c v).1 := by
  unfold resume; split
  · exact deliver_coh c _ (by intro k hk; cases hk) h
  · exact h

/-! ### transitions requested from outside a step (`kill()` between steps, `fail()`) -/

theorem transitionTo_terminal (c : Cfg) (s : SObj) (hs : terminal s.label = true) :
    terminal (transitionTo c s).st.label = true := by
  rcases transitionTo_res c s with ⟨e, he⟩ | ⟨a, _, _⟩
  · rw [he]; simp [SObj.label, terminal, allowed]
  · rw [a]; exact hs

theorem transitionTo_rp (c : Cfg) (s : SObj) (hr : Rob c) (hp : PcOk c) (hterm : terminal s.label = true)
    (hint : c.interrupt = none ∨ s.label ≠ .killed) : Rob (transitionTo c s) ∧ PcOk (transitionTo c s) := by
  have hc := transitionTo_core c s
  have ht := transitionTo_terminal c s hterm
  constructor
  · refine ⟨?_, ?_, ?_, ?_, ?_, ?_⟩
    · intro h1; rw [hc.interrupt]; exact hr.int0 (by rw [← hc.stepping]; exact h1)
    · intro i hi; rw [actionStatus_congr hc.actions]; exact hr.actOk i (by rw [← hc.interrupt]; exact hi)
    · intro i hi
      rw [hc.interrupt] at hi
      rcases hint with h0 | hk
      · rw [h0] at hi; cases hi
      · rw [actionStatus_congr hc.actions, hc.pausing, transitionTo_killing c s hk]; exact hr.alias i hi
    · intro wf k h1; rw [wfOf_none_of_terminal ht] at h1; cases h1
    · intro wf h1; rw [wfOf_none_of_terminal ht] at h1; cases h1
    · intro o k h1; rw [wkOf_none_of_terminal ht] at h1; cases h1
  · unfold PcOk at hp ⊢
    rw [hc.pc]
    cases hpc : c.pc <;> simp only [hpc] at hp ⊢
    · rw [hc.stepping]; exact hp
    · rw [hc.stepping]; exact ⟨hp.1, fun hl => by rw [ht] at hl; cases hl⟩
    · rw [hc.stepping]; exact ⟨hp.1, wfOf_none_of_terminal ht⟩
    · rw [hc.stepping]; exact ⟨hp.1, Or.inl ht⟩
    · rw [hc.stepping]; exact ⟨hp.1, ht⟩

theorem fail_coh (c : Cfg) (e) (h : Coh c) : Coh (fail c e).1 := by
  refine ⟨?_, fail_inv c e h.inv, fail_invP c e h.invP, ?_⟩
  · unfold fail; split
    · exact h.rob
    · exact (transitionTo_rp c _ h.rob h.pcOk (by simp [SObj.label, terminal, allowed]) (Or.inr (by simp [SObj.label]))).1
  · unfold fail; split
    · exact h.pcOk
    · exact (transitionTo_rp c _ h.rob h.pcOk (by simp [SObj.label, terminal, allowed]) (Or.inr (by simp [SObj.label]))).2

/-! ### `pause()`, `play()`, `kill()` -/

theorem interruptState_fields (c : Cfg) (k : Nat) :
    (interruptState c k).st = c.st ∧ (interruptState c k).pc = c.pc ∧ (interruptState c k).stepping = c.stepping ∧
    (interruptState c k).paused = c.paused ∧ (interruptState c k).pfs = c.pfs ∧ (interruptState c k).pausing = c.pausing ∧
    (interruptState c k).killing = c.killing ∧ (interruptState c k).wfs.length = c.wfs.length ∧
    (interruptState c k).interrupt = c.interrupt ∧ (interruptState c k).actions = c.actions := by
  unfold interruptState; split
  · split
    · exact ⟨rfl, rfl, rfl, rfl, rfl, rfl, rfl, by simp [setAt], rfl, rfl⟩
    · exact ⟨rfl, rfl, rfl, rfl, rfl, rfl, rfl, rfl, rfl, rfl⟩
  · exact ⟨rfl, rfl, rfl, rfl, rfl, rfl, rfl, rfl, rfl, rfl⟩

theorem requestInterrupt_fields (c : Cfg) (k : AKind) :
    (requestInterrupt c k).st = c.st ∧ (requestInterrupt c k).pc = c.pc ∧ (requestInterrupt c k).stepping = c.stepping ∧
    (requestInterrupt c k).paused = c.paused ∧ (requestInterrupt c k).pfs = c.pfs ∧
    (requestInterrupt c k).pausing = c.pausing ∧ (requestInterrupt c k).killing = c.killing ∧
    (requestInterrupt c k).wfs.length = c.wfs.length := by
  unfold requestInterrupt
  have h1 := interruptState_fields (setInterruptFromExc { c with nextCookie := c.nextCookie + 1 } k c.nextCookie) c.nextCookie
  have h2 := setInterruptFromExc_rest { c with nextCookie := c.nextCookie + 1 } k c.nextCookie
  exact ⟨h1.1.trans h2.st, h1.2.1.trans h2.pc, h1.2.2.1.trans h2.stepping, h1.2.2.2.1.trans h2.paused,
    h1.2.2.2.2.1.trans h2.pfs, h1.2.2.2.2.2.1.trans h2.pausing, h1.2.2.2.2.2.2.1.trans h2.killing,
    h1.2.2.2.2.2.2.2.1.trans (by rw [h2.wfs])⟩

/-- after `requestInterrupt` on a stepping process, whichever alias (`_pausing` or `_killing`) is pointed at the new
interrupt action -/
theorem requestInterrupt_rp (c : Cfg) (k : AKind) (hr : Rob c) (hp : PcOk c) (hs : c.stepping = true) (d : Cfg)
    (hst : d.st = (requestInterrupt c k).st) (hwfs : d.wfs = (requestInterrupt c k).wfs)
    (hstep : d.stepping = (requestInterrupt c k).stepping) (hi : d.interrupt = (requestInterrupt c k).interrupt)
    (hact : d.actions = (requestInterrupt c k).actions) (hpc : d.pc = (requestInterrupt c k).pc)
    (hpa : d.paused = (requestInterrupt c k).paused) (hpf : d.pfs = (requestInterrupt c k).pfs)
    (hal : d.pausing = d.interrupt ∨ d.killing = d.interrupt) : Rob d ∧ PcOk d := by
  have hf := requestInterrupt_fields c k
  have hn := requestInterrupt_new c k
  have hstep' : d.stepping = true := by rw [hstep, hf.2.2.1]; exact hs
  have hint : d.interrupt = some c.actions.length := by rw [hi]; exact hn.1
  constructor
  · refine ⟨?_, ?_, ?_, ?_, ?_, ?_⟩
    · intro h1; rw [hstep'] at h1; cases h1
    · intro i h1; rw [hint] at h1; cases h1
      rw [actionStatus_congr hact]; exact Or.inl hn.2.2
    · intro i h1
      rcases hal with g | g
      · exact Or.inr (Or.inl (by rw [g]; exact h1))
      · exact Or.inr (Or.inr (by rw [g]; exact h1))
    · intro wf k' _ _; exact ⟨hstep', by rw [hint]; intro g; cases g⟩
    · intro wf h1; rw [hwfs, hf.2.2.2.2.2.2.2]; exact hr.wfv wf (by rw [← hf.1, ← hst]; exact h1)
    · intro o k' h1; exact hr.park o k' (by rw [← hf.1, ← hst]; exact h1)
  · exact hp.congr (hpc.trans hf.2.1) (hstep.trans hf.2.2.1) (by rw [hst, hf.1]) (by rw [hst, hf.1]) (hpf.trans hf.2.2.2.2.1)
      (hpa.trans hf.2.2.2.1)

theorem hand_sameAll (c : Cfg) (i) : SameAll c (hand c i) := by
  unfold hand; split
  · exact SameAll.rfl' c
  · exact ⟨rfl, rfl, rfl, rfl, rfl, rfl, rfl, rfl, rfl, rfl, rfl, rfl, rfl, rfl, rfl⟩

theorem rp_same {c d : Cfg} (h : Rob c ∧ PcOk c) (s : SameAll c d) : Rob d ∧ PcOk d := ⟨h.1.same s, h.2.same s⟩

theorem pause_rp (c : Cfg) (hr : Rob c) (hp : PcOk c) : Rob (pause c).1 ∧ PcOk (pause c).1 := by
  unfold pause
  split
  · exact ⟨hr, hp⟩
  · split
    · exact ⟨hr, hp⟩
    · rename_i hnp
      split
      · exact rp_same ⟨hr, hp⟩ (hand_sameAll ..)
      · split
        · exact ⟨hr, hp⟩
        · split
          · rename_i hs
            dsimp only
            have key := requestInterrupt_rp c .pause hr hp hs
              { requestInterrupt c .pause with pausing := (requestInterrupt c .pause).interrupt }
              rfl rfl rfl rfl rfl rfl rfl rfl (Or.inl rfl)
            split
            · exact rp_same key (hand_sameAll ..)
            · exact key
          · rename_i hs
            have hs' : c.stepping = false := by simpa using hs
            have hi0 := hr.int0 hs'
            have hpn : c.paused = none := by
              cases hpa : c.paused with
              | none => rfl
              | some pf => simp [hpa] at hnp
            constructor
            · refine ⟨hr.int0, hr.actOk, ?_, hr.intr, hr.wfv, hr.park⟩
              intro i hi
              have hi' : c.interrupt = some i := hi
              rw [hi0] at hi'; cases hi'
            · unfold PcOk at hp ⊢
              show (match c.pc with
                | .notStarted => c.stepping = false
                | .awaitPaused pf => c.stepping = false ∧ (terminal c.st.label = false →
                    (c.pfs ++ [false])[pf]? = some true ∨ some c.pfs.length = some pf)
                | .inUser _ => c.stepping = true ∧ wfOf c.st = none
                | .awaitWaiting wf => c.stepping = true ∧ (terminal c.st.label = true ∨ wfOf c.st = some wf)
                | .done => c.stepping = false ∧ terminal c.st.label = true
                | .crashed _ => False)
              cases hpc : c.pc <;> simp only [hpc] at hp ⊢ <;> try exact hp
              rename_i pf
              refine ⟨hp.1, fun hl => ?_⟩
              rcases hp.2 hl with g | g
              · left
                have hlt : pf < c.pfs.length := (List.getElem?_eq_some_iff.mp g).1
                rw [List.getElem?_append_left hlt]; exact g
              · rw [hpn] at g; cases g

theorem pause_coh (c : Cfg) (h : Coh c) : Coh (pause c).1 :=
  ⟨(pause_rp c h.rob h.pcOk).1, pause_inv c h.inv, pause_invP c h.invP, (pause_rp c h.rob h.pcOk).2⟩

theorem kill_rp (c : Cfg) (hr : Rob c) (hp : PcOk c) : Rob (kill c).1 ∧ PcOk (kill c).1 := by
  unfold kill
  split
  · exact ⟨hr, hp⟩
  · split
    · exact ⟨hr, hp⟩
    · split
      · exact rp_same ⟨hr, hp⟩ (hand_sameAll ..)
      · split
        · rename_i hs
          dsimp only
          have key := requestInterrupt_rp c .kill hr hp hs
            { requestInterrupt c .kill with killing := (requestInterrupt c .kill).interrupt }
            rfl rfl rfl rfl rfl rfl rfl rfl (Or.inr rfl)
          split
          · exact rp_same key (hand_sameAll ..)
          · exact key
        · rename_i hs
          have hs' : c.stepping = false := by simpa using hs
          exact transitionTo_rp c .killed hr hp (by simp [SObj.label, terminal, allowed]) (Or.inl (hr.int0 hs'))

theorem kill_coh (c : Cfg) (h : Coh c) : Coh (kill c).1 :=
  ⟨(kill_rp c h.rob h.pcOk).1, kill_inv c h.inv, kill_invP c h.invP, (kill_rp c h.rob h.pcOk).2⟩


theorem play_rp (c : Cfg) (hr : Rob c) (hp : PcOk c) (hP : InvP c) : Rob (play c).1 ∧ PcOk (play c).1 := by
  unfold play
  split
  · rename_i hpa
    split
    · rename_i i hpi
      have hR := cancelAction_rest c i
      constructor
      · refine ⟨?_, ?_, ?_, ?_, ?_, ?_⟩
        · intro h1
          show (cancelAction c i).interrupt = none
          rw [hR.2]; exact hr.int0 (by rw [← hR.1.stepping]; exact h1)
        · intro j hj
          have hj' : c.interrupt = some j := by rw [← hR.2]; exact hj
          show actionStatus (cancelAction c i) j = .pending ∨ actionStatus (cancelAction c i) j = .cancelled
          by_cases hji : i = j
          · subst hji; exact Or.inr (cancelAction_self c i (hr.actOk i hj'))
          · rw [cancelAction_other c i j hji]; exact hr.actOk j hj'
        · intro j hj
          have hj' : c.interrupt = some j := by rw [← hR.2]; exact hj
          show actionStatus (cancelAction c i) j = .cancelled ∨ none = some j ∨ (cancelAction c i).killing = some j
          by_cases hji : i = j
          · subst hji; exact Or.inl (cancelAction_self c i (hr.actOk i hj'))
          · rw [cancelAction_other c i j hji, hR.1.killing]
            rcases hr.alias j hj' with g | g | g
            · exact Or.inl g
            · rw [hpi] at g; cases g; exact absurd rfl hji
            · exact Or.inr (Or.inr g)
        · intro wf k h1 h2
          show (cancelAction c i).stepping = true ∧ (cancelAction c i).interrupt ≠ none
          rw [hR.1.stepping, hR.2]
          exact hr.intr wf k (by rw [← hR.1.st]; exact h1) (by rw [← hR.1.wfs]; exact h2)
        · intro wf h1
          show wf < (cancelAction c i).wfs.length
          rw [hR.1.wfs]; exact hr.wfv wf (by rw [← hR.1.st]; exact h1)
        · intro o k h1; exact hr.park o k (by rw [← hR.1.st]; exact h1)
      · exact hp.congr hR.1.pc hR.1.stepping (by show (cancelAction c i).st.label = _; rw [hR.1.st])
          (by show wfOf (cancelAction c i).st = _; rw [hR.1.st]) hR.1.pfs (by show (cancelAction c i).paused = c.paused; exact hR.1.paused)
    · exact ⟨hr, hp⟩
  · rename_i pf hpa
    dsimp only
    by_cases hfalse : c.pfs[pf]? = some false
    · simp only [hfalse, if_true]
      refine ⟨hr.congr rfl rfl rfl rfl rfl rfl rfl rfl, ?_⟩
      have hlt : pf < c.pfs.length := (List.getElem?_eq_some_iff.mp hfalse).1
      unfold PcOk at hp ⊢
      show (match c.pc with
        | .notStarted => c.stepping = false
        | .awaitPaused pf' => c.stepping = false ∧ (terminal c.st.label = false →
            (setAt c.pfs pf true)[pf']? = some true ∨ none = some pf')
        | .inUser _ => c.stepping = true ∧ wfOf c.st = none
        | .awaitWaiting wf => c.stepping = true ∧ (terminal c.st.label = true ∨ wfOf c.st = some wf)
        | .done => c.stepping = false ∧ terminal c.st.label = true
        | .crashed _ => False)
      cases hpc : c.pc <;> simp only [hpc] at hp ⊢ <;> try exact hp
      rename_i pf'
      refine ⟨hp.1, fun hl => Or.inl ?_⟩
      by_cases hpp : pf = pf'
      · subst hpp; simp [setAt, hlt]
      · rcases hp.2 hl with g | g
        · rw [setAt_getElem?_ne _ _ _ _ hpp]; exact g
        · rw [hpa] at g; cases g; exact absurd rfl hpp
    · simp only [hfalse, if_false]
      refine ⟨hr.congr rfl rfl rfl rfl rfl rfl rfl rfl, ?_⟩
      unfold PcOk at hp ⊢
      show (match c.pc with
        | .notStarted => c.stepping = false
        | .awaitPaused pf' => c.stepping = false ∧ (terminal c.st.label = false →
            c.pfs[pf']? = some true ∨ none = some pf')
        | .inUser _ => c.stepping = true ∧ wfOf c.st = none
        | .awaitWaiting wf => c.stepping = true ∧ (terminal c.st.label = true ∨ wfOf c.st = some wf)
        | .done => c.stepping = false ∧ terminal c.st.label = true
        | .crashed _ => False)
      cases hpc : c.pc <;> simp only [hpc] at hp ⊢ <;> try exact hp
      rename_i pf'
      refine ⟨hp.1, fun hl => Or.inl ?_⟩
      rcases hp.2 hl with g | g
      · exact g
      · rw [hpa] at g; cases g
        exact absurd (hP.pausedPending hl pf hpa) hfalse

theorem play_coh (c : Cfg) (h : Coh c) : Coh (play c).1 :=
  ⟨(play_rp c h.rob h.pcOk h.invP).1, play_inv c h.inv, play_invP c h.invP, (play_rp c h.rob h.pcOk h.invP).2⟩

theorem cancelFut_coh (c : Cfg) (h : Coh c) : Coh (cancelFut c).1 := by
  unfold cancelFut; split
  · exact h.same ⟨rfl, rfl, rfl, rfl, rfl, rfl, rfl, rfl, rfl, rfl, rfl, rfl, rfl, rfl, rfl⟩
  · exact h

theorem complete_coh (c : Cfg) (f o) (h : Coh c) : Coh (complete c f o) := by
  unfold complete; split
  · dsimp only; split <;> exact h.same ⟨rfl, rfl, rfl, rfl, rfl, rfl, rfl, rfl, rfl, rfl, rfl, rfl, rfl, rfl, rfl⟩
  · exact h

theorem awaitableDone_coh (c : Cfg) (f) (h : Coh c) : Coh (awaitableDone c f) := by
  unfold awaitableDone
  have hold : ∀ d : Cfg, Coh d → Coh (match d.efKeys.find? (·.1 = f), d.efs[f]? with
      | some (_, key), some (EFut.result v) => { d with ctx := (key, v) :: d.ctx.filter (·.1 ≠ key) }
      | _, _ => d) := by
    intro d hd; split
    · exact hd.same ⟨rfl, rfl, rfl, rfl, rfl, rfl, rfl, rfl, rfl, rfl, rfl, rfl, rfl, rfl, rfl⟩
    · exact hd
  dsimp only
  split
  · rename_i fn wf wakeup aw hst
    split
    · exact hold c h
    · have h1 : Coh { c with st := .waiting fn wf wakeup (aw.filter (·.1 ≠ f)) } :=
        h.same ⟨by simp [hst, SObj.label], by simp [hst, wfOf], by simp [hst, wkOf], rfl, rfl, rfl, rfl, rfl, rfl, rfl, rfl, rfl,
          rfl, rfl, rfl⟩
      split
      · split
        · exact deliver_coh _ _ (by intro k hk; cases hk)
            (h1.same ⟨rfl, rfl, rfl, rfl, rfl, rfl, rfl, rfl, rfl, rfl, rfl, rfl, rfl, rfl, rfl⟩)
        · exact h1.same ⟨rfl, rfl, rfl, rfl, rfl, rfl, rfl, rfl, rfl, rfl, rfl, rfl, rfl, rfl, rfl⟩
      · exact deliver_coh _ _ (by intro k hk; cases hk) h1
      · exact h1
  · exact hold c h

theorem tickCb_coh (c : Cfg) (cb) (h : Coh c) : Coh (tickCb c cb) := by
  unfold tickCb; split
  · have h1 : Coh { c with ready := c.ready.erase cb } :=
      h.same ⟨rfl, rfl, rfl, rfl, rfl, rfl, rfl, rfl, rfl, rfl, rfl, rfl, rfl, rfl, rfl⟩
    split
    · exact awaitableDone_coh _ _ h1
    · exact (kill_coh _ h1).same ⟨rfl, rfl, rfl, rfl, rfl, rfl, rfl, rfl, rfl, rfl, rfl, rfl, rfl, rfl, rfl⟩
    · split
      · exact fail_coh _ _ h1
      · exact h1
  · exact h

end PMF.H6
