import PlumpyModel.PM.Proof4
namespace PMF

/-- action kinds only ever get extended, and the pause alias is kept or cleared -/
def Kx (c c' : Cfg) : Prop :=
  (∀ i a, actionKind c i = some a → actionKind c' i = some a) ∧ (c'.pausing = c.pausing ∨ c'.pausing = none)

theorem Kx.rfl' (c : Cfg) : Kx c c := ⟨fun _ _ h => h, Or.inl rfl⟩
theorem Kx.trans {a b c : Cfg} (h1 : Kx a b) (h2 : Kx b c) : Kx a c := by
  refine ⟨fun i x h => h2.1 i x (h1.1 i x h), ?_⟩
  rcases h2.2 with h | h
  · rcases h1.2 with g | g
    · exact Or.inl (h.trans g)
    · exact Or.inr (h.trans g)
  · exact Or.inr h
theorem PausingOk.kx {c c' : Cfg} (h : PausingOk c) (s : Kx c c') : PausingOk c' := by
  intro i hi
  rcases s.2 with g | g
  · exact s.1 i _ (h i (by rw [← g]; exact hi))
  · rw [g] at hi; cases hi
/-- same action table and same pause alias -/
theorem Kx.of_eq {c c' : Cfg} (h1 : c'.actions = c.actions) (h2 : c'.pausing = c.pausing) : Kx c c' :=
  ⟨fun i a h => by simpa [actionKind, h1] using h, Or.inl h2⟩

theorem setActionStatus_kx (c : Cfg) (i s) : Kx c (setActionStatus c i s) := by
  refine ⟨fun j a h => by rw [setActionStatus_kind]; exact h, Or.inl ?_⟩
  unfold setActionStatus; split <;> rfl
theorem cancelAction_kx (c : Cfg) (i) : Kx c (cancelAction c i) := by
  unfold cancelAction; split
  · exact setActionStatus_kx ..
  · exact Kx.rfl' c
theorem setInterrupt_kx (c : Cfg) (n) : Kx c (setInterrupt c n) := by
  unfold setInterrupt; split
  · exact Kx.trans (cancelAction_kx c _) (Kx.of_eq rfl rfl)
  · exact Kx.of_eq rfl rfl
theorem append_kx (c : Cfg) (a : Action) (n : Option Nat) :
    Kx c { c with actions := c.actions ++ [a], interrupt := n } := by
  refine ⟨fun i x h => ?_, Or.inl rfl⟩
  unfold actionKind at *
  cases hi : c.actions[i]? with
  | none => simp [hi] at h
  | some y =>
    have hlt := (List.getElem?_eq_some_iff.mp hi).1
    simp only [List.getElem?_append_left hlt, hi]; simpa [hi] using h
theorem setInterruptFromExc_kx (c : Cfg) (k n) : Kx c (setInterruptFromExc c k n) := by
  unfold setInterruptFromExc cancelInterrupt
  split
  · exact Kx.trans (cancelAction_kx c _) (append_kx _ _ _)
  · exact append_kx _ _ _
theorem hand_kx (c : Cfg) (i) : Kx c (hand c i) := by
  unfold hand; split <;> exact Kx.of_eq rfl rfl
theorem interruptState_kx (c : Cfg) (k) : Kx c (interruptState c k) := by
  unfold interruptState; split
  · split <;> exact Kx.of_eq rfl rfl
  · exact Kx.rfl' c
theorem doPauseHooks_kx (c : Cfg) : Kx c (doPauseHooks c) := ⟨fun _ _ h => h, Or.inr rfl⟩
theorem deliver_kx (c : Cfg) (o) : Kx c (deliver c o) := by
  have := deliver_keep c o; exact Kx.of_eq this.2.2.2.1 this.2.2.2.2.2
theorem exitState_kx (c : Cfg) : Kx c (exitState c) := by
  unfold exitState; split
  · split <;> exact Kx.of_eq rfl rfl
  · exact Kx.rfl' c
theorem setFutExc_kx (c : Cfg) (e) : Kx c (setFutExc c e) := by
  unfold setFutExc; split <;> exact Kx.of_eq rfl rfl
theorem freshFut_kx (c : Cfg) : Kx c (freshFutIfCancelled c) := by
  unfold freshFutIfCancelled; split <;> exact Kx.of_eq rfl rfl
theorem enteringHooks_kx (c c2 : Cfg) (s : SObj) (h : enteringHooks c s = .ok c2) : Kx c c2 := by
  unfold enteringHooks at h
  split at h
  · dsimp only at h
    split at h
    · cases h; exact Kx.trans (freshFut_kx c) (Kx.of_eq rfl rfl)
    · cases h
  · dsimp only at h
    split at h
    · cases h; exact Kx.trans (freshFut_kx c) (Kx.of_eq rfl rfl)
    · cases h
  · cases h; exact setFutExc_kx c _
  · cases h; exact Kx.rfl' c
theorem enterState_kx (c : Cfg) (s : SObj) : Kx c (enterState c s) := by
  unfold enterState; split
  · rename_i aw
    have : ∀ (l : List (Nat × Nat)) (d : Cfg), Kx c d →
        Kx c (l.foldl (fun c (p : Nat × Nat) =>
          let c := { c with efKeys := p :: c.efKeys }
          match c.efs[p.1]? with
          | some EFut.pending => { c with efCb := c.efCb ++ [p.1] }
          | some _ => { c with ready := c.ready ++ [.adone p.1] }
          | none => c) d) := by
      intro l; induction l with
      | nil => intro d hd; exact hd
      | cons a l ih =>
        intro d hd; simp only [List.foldl]
        apply ih
        split <;> exact Kx.trans hd (Kx.of_eq rfl rfl)
    exact this aw c (Kx.rfl' c)
  · exact Kx.rfl' c
theorem enteredHooks_kx (c : Cfg) (s : SObj) : Kx c (enteredHooks c s) := by
  unfold enteredHooks; split <;> split <;> exact Kx.of_eq rfl rfl
theorem setState_kx (c : Cfg) (s : SObj) : Kx c (setState c s) := Kx.of_eq rfl rfl
theorem onClose_kx (c : Cfg) : Kx c (onClose c) := by
  unfold onClose; split <;> exact Kx.of_eq rfl rfl
theorem releasePause_kx (c : Cfg) : Kx c (releasePause c) := by
  unfold releasePause; split
  · split <;> exact Kx.of_eq rfl rfl
  · exact Kx.rfl' c
theorem onTerminated_kx (c : Cfg) : Kx c (onTerminated c) := by
  unfold onTerminated
  exact Kx.trans (releasePause_kx c) (onClose_kx _)
theorem forceExcepted_kx (c : Cfg) (e) : Kx c (forceExcepted c e) := by
  unfold forceExcepted; split
  · exact Kx.of_eq rfl rfl
  · exact Kx.trans (Kx.trans (Kx.trans (setFutExc_kx c e) (setState_kx _ _)) (enteredHooks_kx _ _))
      (onTerminated_kx _)
theorem enterNext_kx (c : Cfg) (s) : Kx c (enterNext c s) := by
  unfold enterNext; dsimp only
  have h := Kx.trans (Kx.trans (enterState_kx c s) (setState_kx _ s)) (enteredHooks_kx _ s)
  split
  · exact Kx.trans h (onTerminated_kx _)
  · exact h
theorem transitionTo_kx (c : Cfg) (s) : Kx c (transitionTo c s) := by
  unfold transitionTo
  split
  · dsimp only
    split
    · exact Kx.trans (exitState_kx c) (Kx.of_eq rfl rfl)
    · split
      · exact Kx.trans (exitState_kx c) (forceExcepted_kx _ _)
      · rename_i c2 hok
        exact Kx.trans (Kx.trans (exitState_kx c) (enteringHooks_kx _ _ _ hok)) (enterNext_kx _ _)
  · exact forceExcepted_kx _ _

end PMF

namespace PMF

theorem Kx.step {c d e : Cfg} (h1 : Kx c d) (ha : e.actions = d.actions) (hp : e.pausing = d.pausing) : Kx c e :=
  Kx.trans h1 (Kx.of_eq ha hp)

theorem runAction_kx (c : Cfg) (i next) : Kx c (runAction c i next) := by
  unfold runAction
  split
  · exact Kx.rfl' c
  · split
    · exact Kx.of_eq rfl rfl
    · split
      · cases next with
        | none => exact Kx.trans (doPauseHooks_kx c) (setActionStatus_kx ..)
        | some s => exact Kx.trans (Kx.trans (transitionTo_kx c s) (doPauseHooks_kx _)) (setActionStatus_kx ..)
      · dsimp only
        refine Kx.trans ?_ (setActionStatus_kx ..)
        exact Kx.step (transitionTo_kx c .killed) rfl rfl
theorem prepare_kx (c : Cfg) (r) : Kx c (prepare c r).1 := by
  unfold prepare
  split
  · exact setInterrupt_kx ..
  · exact Kx.rfl' c
  · split
    · exact Kx.rfl' c
    · exact setInterruptFromExc_kx ..
  · exact setInterrupt_kx ..
theorem dispatch_kx (c : Cfg) (next) : Kx c (dispatch c next) := by
  unfold dispatch
  split
  · exact Kx.rfl' c
  · split
    · split
      · exact runAction_kx ..
      · cases next with
        | none => exact Kx.rfl' c
        | some s => exact transitionTo_kx c s
    · cases next with
      | none => exact Kx.rfl' c
      | some s => exact transitionTo_kx c s
theorem finally_kx (c : Cfg) : Kx c (finally_ c) := by
  unfold finally_
  exact Kx.trans (Kx.of_eq rfl rfl : Kx c { c with stepping := false }) (setInterrupt_kx _ _)
theorem endOfStep_kx (c : Cfg) (r) : Kx c (endOfStep c r) := by
  unfold endOfStep
  exact Kx.trans (Kx.trans (prepare_kx c r) (dispatch_kx _ _)) (finally_kx _)
theorem cmdToState_kx (c : Cfg) (cmd : Cmd) : Kx c (cmdToState c cmd).1 := by
  have h := cmdToState_keep c cmd
  exact Kx.of_eq h.2.2.2.1 h.2.2.2.2.2
theorem finishUser_kx (c : Cfg) (o) : Kx c (finishUser c o) := by
  unfold finishUser
  split
  · exact Kx.trans (cmdToState_kx c _) (endOfStep_kx _ _)
  · exact endOfStep_kx _ _
theorem wake_kx (c : Cfg) (fn wf w) : Kx c (wake c fn wf w) := by
  unfold wake
  split
  · exact endOfStep_kx _ _
  · refine Kx.trans ?_ (endOfStep_kx _ _)
    split
    · split
      · exact Kx.of_eq rfl rfl
      · exact Kx.rfl' c
    · exact Kx.rfl' c
  · exact endOfStep_kx _ _
  · exact Kx.rfl' c
theorem stepBodyK_kx (P : Prog) (k : Cfg → Cfg) (hk : ∀ d, Kx d (k d)) (c : Cfg) : Kx c (stepBodyK P k c) := by
  unfold stepBodyK
  have hs : Kx c { c with stepping := true } := Kx.of_eq rfl rfl
  dsimp only
  split
  · exact Kx.trans (Kx.trans hs (endOfStep_kx _ _)) (hk _)
  · split
    · refine Kx.trans (Kx.trans ?_ (finishUser_kx _ _)) (hk _)
      exact Kx.step hs rfl rfl
    · exact Kx.step hs rfl rfl
  · split
    · exact Kx.step hs rfl rfl
    · exact Kx.trans (Kx.trans hs (wake_kx _ _ _ _)) (hk _)
    · exact hs
  · exact Kx.trans (Kx.trans hs (endOfStep_kx _ _)) (hk _)
theorem loopHead_kx (P : Prog) : ∀ (fuel : Nat) (c : Cfg), Kx c (loopHead P fuel c) := by
  intro fuel
  induction fuel with
  | zero => intro c; simp [loopHead]; exact Kx.rfl' c
  | succ n ih =>
    intro c
    unfold loopHead
    split
    · exact Kx.rfl' c
    · split
      · exact Kx.of_eq rfl rfl
      · split
        · exact Kx.of_eq rfl rfl
        · split
          · split
            · exact Kx.of_eq rfl rfl
            · exact stepBodyK_kx P _ ih c
          · exact stepBodyK_kx P _ ih c
theorem tickStepper_kx (P : Prog) (c : Cfg) : Kx c (tickStepper P c) := by
  have hb : ∀ d, Kx d (stepBody P fuel0 d) := fun d => stepBodyK_kx P _ (loopHead_kx P fuel0) d
  unfold tickStepper
  split
  · exact loopHead_kx P _ c
  · split
    · split
      · split
        · exact Kx.of_eq rfl rfl
        · exact hb c
      · exact hb c
    · exact Kx.rfl' c
  · split
    · exact Kx.trans (finishUser_kx _ _) (loopHead_kx P _ _)
    · exact Kx.of_eq rfl rfl
  · split
    · exact Kx.rfl' c
    · exact Kx.trans (wake_kx _ _ _ _) (loopHead_kx P _ _)
    · exact Kx.rfl' c
  · exact Kx.rfl' c

theorem requestInterrupt_kx (c : Cfg) (k) : Kx c (requestInterrupt c k) := by
  unfold requestInterrupt
  exact Kx.trans (Kx.trans (Kx.of_eq rfl rfl : Kx c { c with nextCookie := c.nextCookie + 1 })
    (setInterruptFromExc_kx ..)) (interruptState_kx ..)

theorem play_kx (c : Cfg) : Kx c (play c).1 := by
  unfold play
  split
  · split
    · rename_i i _
      exact ⟨fun j a h => by rw [show actionKind { cancelAction c i with pausing := none } j = actionKind (cancelAction c i) j from rfl, cancelAction_kind]; exact h, Or.inr rfl⟩
    · exact Kx.rfl' c
  · dsimp only; split <;> exact Kx.of_eq rfl rfl

theorem kill_kx (c : Cfg) : Kx c (kill c).1 := by
  unfold kill
  split
  · exact Kx.rfl' c
  · split
    · exact Kx.rfl' c
    · split
      · exact hand_kx ..
      · split
        · dsimp only
          have hs : Kx c { requestInterrupt c .kill with killing := (requestInterrupt c .kill).interrupt } :=
            Kx.step (requestInterrupt_kx c .kill) rfl rfl
          split
          · exact Kx.trans hs (hand_kx ..)
          · exact hs
        · exact transitionTo_kx c .killed

theorem awaitableDone_kx (c : Cfg) (f) : Kx c (awaitableDone c f) := by
  have h := awaitableDone_keep c f
  exact Kx.of_eq h.2.2.2.1 h.2.2.2.2.2

end PMF

namespace PMF

theorem cancelInterrupt_len (c : Cfg) : (cancelInterrupt c).actions.length = c.actions.length := by
  unfold cancelInterrupt cancelAction setActionStatus
  split
  · split
    · split <;> simp [setAt]
    · rfl
  · rfl

/-- what `requestInterrupt` creates: a fresh pending action of the requested kind, installed as the interrupt action -/
theorem requestInterrupt_new (c : Cfg) (k : AKind) :
    (requestInterrupt c k).interrupt = some c.actions.length ∧
    actionKind (requestInterrupt c k) c.actions.length = some k ∧
    actionStatus (requestInterrupt c k) c.actions.length = .pending := by
  have hlen := cancelInterrupt_len { c with nextCookie := c.nextCookie + 1 }
  have hsi : ∀ d : Cfg, d = setInterruptFromExc { c with nextCookie := c.nextCookie + 1 } k c.nextCookie →
      d.interrupt = some c.actions.length ∧ actionKind d c.actions.length = some k ∧
      actionStatus d c.actions.length = .pending := by
    intro d hd; subst hd
    unfold setInterruptFromExc
    dsimp only
    have hget : ((cancelInterrupt { c with nextCookie := c.nextCookie + 1 }).actions ++
        [({ kind := k, cookie := c.nextCookie, status := .pending } : Action)])[c.actions.length]? =
        some { kind := k, cookie := c.nextCookie, status := .pending } := by
      rw [List.getElem?_append_right (by rw [hlen]; exact Nat.le_refl _)]
      simp [hlen]
    refine ⟨by rw [hlen], ?_, ?_⟩
    · simp [actionKind, hget]
    · simp [actionStatus, hget]
  have h := hsi _ rfl
  unfold requestInterrupt
  have hks := interruptState_keep' (setInterruptFromExc { c with nextCookie := c.nextCookie + 1 } k c.nextCookie) c.nextCookie
  exact ⟨by rw [hks.2.2.1]; exact h.1, by simpa [actionKind, hks.2.2.2.1] using h.2.1, by simpa [actionStatus, hks.2.2.2.1] using h.2.2⟩

end PMF

namespace PMF

theorem pause_pausingOk (c : Cfg) (h : PausingOk c) : PausingOk (pause c).1 := by
  unfold pause
  split
  · exact h
  · split
    · exact h
    · split
      · exact h.kx (hand_kx ..)
      · split
        · exact h
        · split
          · dsimp only
            have hn := requestInterrupt_new c .pause
            have hok : PausingOk { requestInterrupt c .pause with pausing := (requestInterrupt c .pause).interrupt } := by
              intro i hi
              simp only [hn.1] at hi
              cases hi
              exact hn.2.1
            split
            · exact hok.kx (hand_kx ..)
            · exact hok
          · exact h.kx (doPauseHooks_kx c)

theorem fail_pausingOk (c : Cfg) (e : Exc) (h : PausingOk c) : PausingOk (fail c e).1 := by
  unfold fail; split
  · exact h
  · exact h.kx (transitionTo_kx ..)

theorem step_pausingOk (P : Prog) (c : Cfg) (ev : Ev) (h : PausingOk c) : PausingOk (step P c ev).1 := by
  cases ev <;> simp only [step]
  · exact h.kx (tickStepper_kx P c)
  · unfold tickCb; split
    · have h1 : PausingOk { c with ready := c.ready.erase ‹Cb› } := h.kx (Kx.of_eq rfl rfl)
      split
      · exact h1.kx (awaitableDone_kx ..)
      · exact (h1.kx (kill_kx _)).kx (Kx.of_eq rfl rfl)
      · split
        · exact fail_pausingOk _ _ h1
        · exact h1
    · exact h
  · exact pause_pausingOk c h
  · exact h.kx (play_kx c)
  · exact h.kx (kill_kx c)
  · unfold resume; split
    · exact h.kx (deliver_kx ..)
    · exact h
  · unfold fail; split
    · exact h
    · exact h.kx (transitionTo_kx ..)
  · unfold cancelFut; split
    · exact h.kx (Kx.of_eq rfl rfl)
    · exact h
  · unfold complete; split
    · dsimp only; split <;> exact h.kx (Kx.of_eq rfl rfl)
    · exact h
  · exact h.kx (Kx.of_eq rfl rfl)

theorem run_pausingOk (P : Prog) (c0 : Cfg) (evs : List Ev) (h : PausingOk c0) : PausingOk (run P c0 evs) := by
  induction evs generalizing c0 with
  | nil => exact h
  | cons e es ih => exact ih _ (step_pausingOk P c0 e h)

theorem pausingOk_init (nf : Nat) : PausingOk (init nf) := by
  intro i hi; simp [init] at hi

/-- a `kill()` that hands back an action on a live process with no kill pending yet commits the process -/
theorem kill_commits (c : Cfg) (k : Nat) (hl : terminal c.st.label = false) (hnk : c.killing = none)
    (hr : (kill c).2 = .action k) : Pending k (kill c).1 := by
  have hnkl : c.st.label ≠ .killed := by intro h; simp [h, terminal, allowed] at hl
  have hn := requestInterrupt_new c .kill
  have hkeepL : (requestInterrupt c .kill).st.label = c.st.label := by
    unfold requestInterrupt
    exact ((interruptState_keep' _ _).1).trans (setInterruptFromExc_same _ _ _).1
  by_cases hstep : c.stepping = true
  · have hstepping : (requestInterrupt c .kill).stepping = true := by
      unfold requestInterrupt
      rw [(interruptState_keep' _ _).2.2.2.2.1]
      unfold setInterruptFromExc cancelInterrupt
      dsimp only
      split
      · rw [(cancelAction_fields _ _).2.2.1]; exact hstep
      · exact hstep
    -- the configuration `kill` builds in its stepping branch
    have hp : Pending c.actions.length
        { requestInterrupt c .kill with killing := (requestInterrupt c .kill).interrupt } :=
      ⟨by simpa [hkeepL] using hl, hn.1, hn.1, by simpa [actionStatus] using hn.2.2, hstepping,
        by simpa [actionKind] using hn.2.1⟩
    have hval : kill c = (hand { requestInterrupt c .kill with killing := (requestInterrupt c .kill).interrupt }
        c.actions.length, .action c.actions.length) := by
      unfold kill
      simp only [hnkl, if_false, hl, Bool.false_eq_true, hnk, hstep, if_true]
      simp only [hn.1]
    rw [hval] at hr ⊢
    cases hr
    exact hp.keep (hand_keep ..)
  · exfalso
    unfold kill at hr
    simp only [hnkl, if_false, hl, Bool.false_eq_true, hnk, hstep] at hr
    cases hr

/-- **C04 (model level) — a kill is never lost**: take any history `evs₁`; if `kill()` then hands back an action
future `k` (the process was live, in a step, and no kill was pending), then after *every* further history `evs₂`
— pauses, plays, resumes, more kills, `fail`, future cancellation, awaitable completions, any ticks — the process
is KILLED or EXCEPTED, or the kill is still the pending interrupt action of the step in flight (and then the end
of that step ends the process: `endOfStep_pending`). -/
theorem C04_kill_never_lost (P : Prog) (nf : Nat) (evs₁ evs₂ : List Ev) (k : Nat) :
    let c₁ := run P (init nf) evs₁
    terminal c₁.st.label = false → c₁.killing = none → (kill c₁).2 = .action k →
    Committed k (run P (kill c₁).1 evs₂) := by
  intro c₁ hl hnk hr
  have hp0 : Pending k (kill c₁).1 := kill_commits c₁ k hl hnk hr
  have hok0 : PausingOk (kill c₁).1 :=
    (run_pausingOk P _ evs₁ (pausingOk_init nf)).kx (kill_kx c₁)
  have : ∀ (evs : List Ev) (c : Cfg), Committed k c → PausingOk c → Committed k (run P c evs) := by
    intro evs
    induction evs with
    | nil => intro c h _; exact h
    | cons e es ih => intro c h hp; exact ih _ (step_committed P k c e h hp) (step_pausingOk P c e hp)
  exact this evs₂ _ (Or.inr (Or.inr hp0)) hok0

end PMF

