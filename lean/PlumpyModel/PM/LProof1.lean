import PlumpyModel.PM.Listener
import PlumpyModel.PM.Proof7
/-!
# `PMF.L` — frame facts

* `HkC` / `Hk`: what a request of the oracle cannot touch while a step is in progress (`_stepping`): the state object, the
  entered log, closedness, the flags.  (`pause()` / `kill()` defer to the interrupt-action slot, `play()` only un-pauses.)
* every notification function `fireN n` has that frame while stepping, and in the exiting / entering phase always.
-/
namespace PMF
namespace L

@[simp] theorem upd_c (l : LCfg) (f : Cfg → Cfg) : (l.upd f).c = f l.c := rfl
@[simp] theorem upd_plan (l : LCfg) (f : Cfg → Cfg) : (l.upd f).plan = l.plan := rfl
@[simp] theorem upd_cnt (l : LCfg) (f : Cfg → Cfg) : (l.upd f).cnt = l.cnt := rfl
@[simp] theorem upd_executing (l : LCfg) (f : Cfg → Cfg) : (l.upd f).executing = l.executing := rfl
@[simp] theorem upd_trans (l : LCfg) (f : Cfg → Cfg) : (l.upd f).trans = l.trans := rfl
@[simp] theorem upd_issued (l : LCfg) (f : Cfg → Cfg) : (l.upd f).issued = l.issued := rfl
@[simp] theorem upd_entryFails (l : LCfg) (f : Cfg → Cfg) : (l.upd f).entryFails = l.entryFails := rfl

/-- Cfg part of the frame of a deferred request -/
structure HkC (c c' : Cfg) : Prop where
  st : c'.st = c.st
  entered : c'.entered = c.entered
  closed : c'.closed = c.closed
  stepping : c'.stepping = c.stepping

theorem HkC.rfl' (c : Cfg) : HkC c c := ⟨rfl, rfl, rfl, rfl⟩
theorem HkC.trans {a b c : Cfg} (h1 : HkC a b) (h2 : HkC b c) : HkC a c :=
  ⟨h2.st.trans h1.st, h2.entered.trans h1.entered, h2.closed.trans h1.closed, h2.stepping.trans h1.stepping⟩

theorem setActionStatus_hkc (c : Cfg) (i s) : HkC c (setActionStatus c i s) := by
  unfold setActionStatus; split <;> exact ⟨rfl, rfl, rfl, rfl⟩
theorem cancelAction_hkc (c : Cfg) (i) : HkC c (cancelAction c i) := by
  unfold cancelAction; split
  · exact setActionStatus_hkc ..
  · exact HkC.rfl' c
theorem setInterruptFromExc_hkc (c : Cfg) (k n) : HkC c (setInterruptFromExc c k n) := by
  unfold setInterruptFromExc cancelInterrupt
  split
  · exact HkC.trans (cancelAction_hkc c _) ⟨rfl, rfl, rfl, rfl⟩
  · exact ⟨rfl, rfl, rfl, rfl⟩
theorem hand_hkc (c : Cfg) (i) : HkC c (hand c i) := by
  unfold hand; split <;> exact ⟨rfl, rfl, rfl, rfl⟩
theorem interruptState_hkc (c : Cfg) (k) : HkC c (interruptState c k) := by
  unfold interruptState; split
  · split <;> exact ⟨rfl, rfl, rfl, rfl⟩
  · exact HkC.rfl' c
theorem requestInterrupt_hkc (c : Cfg) (k) : HkC c (requestInterrupt c k) := by
  unfold requestInterrupt
  exact HkC.trans (HkC.trans (⟨rfl, rfl, rfl, rfl⟩ : HkC c { c with nextCookie := c.nextCookie + 1 })
    (setInterruptFromExc_hkc ..)) (interruptState_hkc ..)
theorem requestL_hkc (l : LCfg) (k) : HkC l.c (requestL l k) := by
  unfold requestL; split
  · exact requestInterrupt_hkc ..
  · exact HkC.trans (⟨rfl, rfl, rfl, rfl⟩ : HkC l.c { l.c with nextCookie := l.c.nextCookie + 1 }) (setInterruptFromExc_hkc ..)
theorem play_hkc (c : Cfg) : HkC c (play c).1 := by
  unfold play
  split
  · split
    · exact HkC.trans (cancelAction_hkc ..) ⟨rfl, rfl, rfl, rfl⟩
    · exact HkC.rfl' c
  · dsimp only; split <;> exact ⟨rfl, rfl, rfl, rfl⟩

/-- the frame of a request made while a step is in progress -/
structure Hk (l l' : LCfg) : Prop where
  c : HkC l.c l'.c
  exe : l'.executing = l.executing
  tr : l'.trans = l.trans
  ef : l'.entryFails = l.entryFails

theorem Hk.rfl' (l : LCfg) : Hk l l := ⟨HkC.rfl' _, rfl, rfl, rfl⟩
theorem Hk.trans {a b c : LCfg} (h1 : Hk a b) (h2 : Hk b c) : Hk a c :=
  ⟨h1.c.trans h2.c, h2.exe.trans h1.exe, h2.tr.trans h1.tr, h2.ef.trans h1.ef⟩
theorem Hk.upd (l : LCfg) (f : Cfg → Cfg) (h : HkC l.c (f l.c)) : Hk l (l.upd f) := ⟨h, rfl, rfl, rfl⟩
theorem Hk.setc (l : LCfg) (c' : Cfg) (h : HkC l.c c') : Hk l { l with c := c' } := ⟨h, rfl, rfl, rfl⟩

/-- `F` has the frame while stepping -/
def FHk (F : Hook → LCfg → LCfg) : Prop := ∀ h l, l.c.stepping = true → Hk l (F h l)
/-- … and in the exiting / entering phase always (outside a step no request is made there) -/
def FHkPhase (F : Hook → LCfg → LCfg) : Prop := ∀ h l, hookPhase h = true → Hk l (F h l)

section
variable {F : Hook → LCfg → LCfg}

theorem pauseL_hk (l : LCfg) (hs : l.c.stepping = true) : Hk l (pauseL F l).1 := by
  unfold pauseL
  dsimp only
  split
  · exact Hk.rfl' l
  · split
    · exact Hk.rfl' l
    · split
      · exact Hk.upd l (fun c => hand c _) (hand_hkc ..)
      · split
        · exact Hk.rfl' l
        · have h1 : HkC l.c { requestL l .pause with pausing := (requestL l .pause).interrupt } :=
            HkC.trans (requestL_hkc l .pause) ⟨rfl, rfl, rfl, rfl⟩
          split
          · exact Hk.setc l _ (HkC.trans h1 (hand_hkc ..))
          · exact Hk.setc l _ h1

theorem killL_hk (l : LCfg) (hs : l.c.stepping = true) : Hk l (killL F l).1 := by
  unfold killL
  dsimp only
  split
  · exact Hk.rfl' l
  · split
    · exact Hk.rfl' l
    · split
      · exact Hk.upd l (fun c => hand c _) (hand_hkc ..)
      · have h1 : HkC l.c { requestL l .kill with killing := (requestL l .kill).interrupt } :=
          HkC.trans (requestL_hkc l .kill) ⟨rfl, rfl, rfl, rfl⟩
        split
        · exact Hk.setc l _ (HkC.trans h1 (hand_hkc ..))
        · exact Hk.setc l _ h1

theorem playL_hk (hF : FHk F) (l : LCfg) (hs : l.c.stepping = true) : Hk l (playL F l).1 := by
  unfold playL
  have h1 : Hk l (l.upd (fun c => (play c).1)) := Hk.upd l _ (play_hkc _)
  split
  · exact h1
  · exact h1.trans (hF _ _ (by rw [h1.c.stepping]; exact hs))

theorem reqK_hk (hF : FHk F) (r : Req) (l : LCfg) (hs : l.c.stepping = true) : Hk l (reqK F r l) := by
  cases r
  · exact pauseL_hk l hs
  · exact playL_hk hF l hs
  · exact killL_hk l hs

theorem fireK_hk {R : Req → LCfg → LCfg} (hR : ∀ r l, l.c.stepping = true → Hk l (R r l)) (h : Hook) (l : LCfg)
    (hs : l.c.stepping = true ∨ hookPhase h = true) : Hk l (fireK R h l) := by
  unfold fireK
  dsimp only
  have h0 : Hk l { l with cnt := bump l.cnt h } := ⟨HkC.rfl' _, rfl, rfl, rfl⟩
  split
  · exact h0
  · rename_i hg
    have hst : l.c.stepping = true := by
      rcases hs with hs | hs
      · exact hs
      · have : (l.c.stepping && !l.executing) = true := by simpa [hs] using hg
        simp only [Bool.and_eq_true] at this
        exact this.1
    split
    · exact h0
    · refine Hk.trans ?_ (hR _ _ hst)
      exact ⟨HkC.rfl' _, rfl, rfl, rfl⟩
end

theorem fireN_hk : ∀ (n : Nat) (h : Hook) (l : LCfg), (l.c.stepping = true ∨ hookPhase h = true) → Hk l (fireN n h l)
  | 0, h, l, _ => ⟨HkC.rfl' _, rfl, rfl, rfl⟩
  | n+1, h, l, hs => by
      unfold fireN
      exact fireK_hk (fun r l hs => reqK_hk (fun h l hs => fireN_hk n h l (Or.inl hs)) r l hs) h l hs

theorem fireN_fhk (n : Nat) : FHk (fireN n) := fun h l hs => fireN_hk n h l (Or.inl hs)
theorem fireN_fhkPhase (n : Nat) : FHkPhase (fireN n) := fun h l hs => fireN_hk n h l (Or.inr hs)

end L
end PMF
