import PlumpyModel.PM.Proof11b
/-!
# C06 at the level of histories, part 3: the stepping task keeps `Coh` (as long as a callback does not run out of fuel)
-/
namespace PMF.H6
open PMF

/-- does the step that `Process.step` is about to execute end without suspending the coroutine? -/
def stepSync (P : Prog) (c : Cfg) : Bool :=
  match c.st with
  | .running fn args kw => (P fn args kw c.ctx).awaits == 0
  | .waiting _ wf _ _ => match c.wfs[wf]? with | some .pending => false | some _ => true | none => false
  | _ => true

theorem stepBodyK_sync (P : Prog) (k : Cfg → Cfg) (c : Cfg) (h : stepSync P c = true) :
    stepBodyK P k c = k (stepBody P 0 c) := by
  unfold stepBody stepBodyK
  unfold stepSync at h
  dsimp only
  cases hst : c.st <;> simp only [hst] at h ⊢ <;> try rfl
  · rename_i fn args kw
    have : (P fn args kw c.ctx).awaits = 0 := by simpa using h
    simp only [this, if_true]; rfl
  · rename_i fn wf wk aw
    cases hw : c.wfs[wf]? with
    | none => simp [hw] at h
    | some w => cases w <;> simp [hw] at h ⊢ <;> rfl

theorem stepBodyK_susp (P : Prog) (k : Cfg → Cfg) (c : Cfg) (h : stepSync P c = false) :
    stepBodyK P k c = stepBody P 0 c := by
  unfold stepBody stepBodyK
  unfold stepSync at h
  dsimp only
  cases hst : c.st <;> simp only [hst] at h ⊢ <;> try (simp at h)
  · rename_i fn args kw
    have : ¬ (P fn args kw c.ctx).awaits = 0 := by simpa using h
    simp only [this, if_false]
  · rename_i fn wf wk aw
    cases hw : c.wfs[wf]? with
    | none => rfl
    | some w => cases w <;> simp [hw] at h ⊢

/-- enough fuel: within `fuel` iterations of `step_until_terminated`'s loop the coroutine suspends or ends -/
def fuelOk (P : Prog) : Nat → Cfg → Bool
  | 0, _ => false
  | fuel+1, c =>
    terminal c.st.label ||
    (match c.paused with | some pf => c.pfs[pf]? == some false | none => false) ||
    !stepSync P c || fuelOk P fuel (stepBody P 0 c)

def wakeFn (c : Cfg) : Nat := match c.st with | .waiting fn .. => fn | _ => 0

/-- the callback of the stepping task that is about to run at `c` does not run out of fuel -/
def tickFuelOk (P : Prog) (c : Cfg) : Bool :=
  match c.pc with
  | .notStarted => fuelOk P fuel0 c
  | .awaitPaused _ => !stepSync P c || fuelOk P fuel0 (stepBody P 0 c)
  | .inUser b => !(b.awaits == 0) || fuelOk P fuel0 (finishUser c b.out)
  | .awaitWaiting wf =>
      match c.wfs[wf]? with
      | some .pending => true
      | some w => fuelOk P fuel0 (wake c (wakeFn c) wf w)
      | none => true
  | _ => true

/-- no callback of the stepping task in the history `evs` (started at `c`) runs out of fuel, i.e. executes `fuel0`
(= 1000) steps of the process without suspending once -/
def histFuelOk (P : Prog) : Cfg → List Ev → Bool
  | _, [] => true
  | c, e :: es => (match e with | .tick => tickFuelOk P c | _ => true) && histFuelOk P (step P c e).1 es

/-! ### the end of a step keeps the robust invariant -/

theorem wkOf_none_of_wfOf_none {s : SObj} (h : wfOf s = none) : wkOf s = none := by
  cases s <;> simp [wfOf, wkOf] at h ⊢

theorem exitState_of_not_waiting (c : Cfg) (h : wfOf c.st = none) : exitState c = c := by
  unfold exitState
  split
  · rename_i fn wf wk aw hst; rw [hst] at h; simp [wfOf] at h
  · rfl

def NI (c : Cfg) : Prop := ∀ wf k, wfOf c.st = some wf → c.wfs[wf]? ≠ some (.interrupted k)

theorem endOfStep_rsp (c : Cfg) (r : StepEnd) (h : Rob c) (hni : NI c)
    (hfresh : ∀ s, r = .next (some s) → ∀ wf, wfOf s = some wf → wkOf s = none ∧ (exitState c).wfs[wf]? = some .pending) :
    Rob (endOfStep c r) ∧ (endOfStep c r).stepping = false ∧ (endOfStep c r).pc = c.pc := by
  obtain ⟨h1, h2, h3, _, h5⟩ := endOfStep_spec c r h.actOk
  -- the third alternative: the state the step asked for is fresh, or is EXCEPTED
  have hthird : ∀ s, (match r with | .next s => s | .interruption _ => none | .exception e => some (.excepted e)) = some s →
      ∀ wf, wfOf s = some wf → wkOf s = none ∧ (exitState c).wfs[wf]? = some .pending := by
    intro s hs wf hw
    cases r with
    | next s' => simp only at hs; subst hs; exact hfresh s rfl wf hw
    | interruption k => simp at hs
    | exception e => simp only [Option.some.injEq] at hs; subst hs; simp [wfOf] at hw
  refine ⟨⟨fun _ => h2, ?_, ?_, ?_, ?_, ?_⟩, h1, h3⟩
  · intro i hi; rw [h2] at hi; cases hi
  · intro i hi; rw [h2] at hi; cases hi
  · intro wf k hw hk
    exfalso
    rcases h5 with ⟨a, b⟩ | a | ⟨s, hs, a, b⟩
    · exact hni wf k (by rw [← a]; exact hw) (by rw [← b]; exact hk)
    · rw [wfOf_none_of_terminal a] at hw; cases hw
    · have := (hthird s hs wf (by rw [← a]; exact hw)).2
      rw [b, this] at hk; cases hk
  · intro wf hw
    rcases h5 with ⟨a, b⟩ | a | ⟨s, hs, a, b⟩
    · rw [b]; exact h.wfv wf (by rw [← a]; exact hw)
    · rw [wfOf_none_of_terminal a] at hw; cases hw
    · have := (hthird s hs wf (by rw [← a]; exact hw)).2
      rw [b]; exact (List.getElem?_eq_some_iff.mp this).1
  · intro o k hw
    rcases h5 with ⟨a, b⟩ | a | ⟨s, hs, a, b⟩
    · exact h.park o k (by rw [← a]; exact hw)
    · rw [wkOf_none_of_terminal a] at hw; cases hw
    · rw [a] at hw
      cases hwf : wfOf s with
      | none => rw [wkOf_none_of_wfOf_none hwf] at hw; cases hw
      | some wf => rw [(hthird s hs wf hwf).1] at hw; cases hw

theorem finishUser_rsp (c : Cfg) (o : Outcome) (h : Rob c) (hnw : wfOf c.st = none) :
    Rob (finishUser c o) ∧ (finishUser c o).stepping = false ∧ (finishUser c o).pc = c.pc := by
  have hwk := wkOf_none_of_wfOf_none hnw
  have hni : NI c := by intro wf k hw; rw [hnw] at hw; cases hw
  unfold finishUser
  split
  · rename_i cmd
    -- the configuration in which a fresh waiting future has been allocated
    have happ : Rob { c with wfs := c.wfs ++ [WF.pending] } := by
      refine ⟨h.int0, h.actOk, h.alias, ?_, ?_, ?_⟩
      · intro wf k hw; rw [hnw] at hw; cases hw
      · intro wf hw; rw [hnw] at hw; cases hw
      · intro o k hw; rw [hwk] at hw; cases hw
    have hwaitfresh : ∀ fn aw wf, wfOf (SObj.waiting fn c.wfs.length none aw) = some wf →
        wkOf (SObj.waiting fn c.wfs.length none aw) = none ∧
        (exitState { c with wfs := c.wfs ++ [WF.pending] }).wfs[wf]? = some .pending := by
      intro fn aw wf hw
      simp [wfOf] at hw; subst hw
      rw [exitState_of_not_waiting { c with wfs := c.wfs ++ [WF.pending] } hnw]
      exact ⟨rfl, by simp⟩
    cases cmd with
    | cont fn args kw =>
      exact endOfStep_rsp c _ h hni (by intro s hs wf hw; cases hs; simp [wfOf] at hw)
    | wait fn =>
      have := endOfStep_rsp { c with wfs := c.wfs ++ [WF.pending] } (.next (some (.waiting fn c.wfs.length none []))) happ
        (by intro wf k hw; rw [hnw] at hw; cases hw) (by intro s hs wf hw; cases hs; exact hwaitfresh fn [] wf hw)
      exact this
    | waitOn fn aw =>
      have := endOfStep_rsp { c with wfs := c.wfs ++ [WF.pending] } (.next (some (.waiting fn c.wfs.length none aw))) happ
        (by intro wf k hw; rw [hnw] at hw; cases hw) (by intro s hs wf hw; cases hs; exact hwaitfresh fn aw wf hw)
      exact this
    | stop v ok =>
      exact endOfStep_rsp c _ h hni (by intro s hs wf hw; cases hs; simp [wfOf] at hw)
    | kill =>
      exact endOfStep_rsp c _ h hni (by intro s hs wf hw; cases hs; simp [wfOf] at hw)
  · exact endOfStep_rsp c _ h hni (by intro s hs wf hw; cases hs; simp [wfOf] at hw)

theorem wake_rsp (c : Cfg) (fn wf : Nat) (w : WF) (h : Rob c) (hw : c.wfs[wf]? = some w) (hne : w ≠ .pending)
    (hwf : ∀ wf', wfOf c.st = some wf' → wf' = wf) :
    Rob (wake c fn wf w) ∧ (wake c fn wf w).stepping = false ∧ (wake c fn wf w).pc = c.pc := by
  unfold wake
  split
  · refine endOfStep_rsp c _ h ?_ (by intro s hs wf' hw'; cases hs; simp [wfOf] at hw')
    intro wf' k h1 h2
    have := hwf wf' h1; subst this
    rw [hw] at h2; cases h2
  · rename_i cookie
    dsimp only
    split
    · rename_i f wf' wk aw hst
      have hwf' : wf' = wf := hwf wf' (by rw [hst]; rfl)
      subst hwf'
      simp only [if_true]
      have hnw : ∀ k, (match wk with | some o => o | none => WF.pending) ≠ .interrupted k := by
        intro k
        cases wk with
        | none => intro g; cases g
        | some o => exact h.park o k (by rw [hst]; rfl)
      have hget : (c.wfs ++ [match wk with | some o => o | none => WF.pending])[c.wfs.length]? =
          some (match wk with | some o => o | none => WF.pending) := by simp
      have hR : Rob { c with st := .waiting f c.wfs.length none aw,
                             wfs := c.wfs ++ [match wk with | some o => o | none => WF.pending] } := by
        refine ⟨h.int0, h.actOk, h.alias, ?_, ?_, ?_⟩
        · intro wf'' k h1 h2
          simp [wfOf] at h1; subst h1
          have h2' : (c.wfs ++ [match wk with | some o => o | none => WF.pending])[c.wfs.length]? = some (.interrupted k) := h2
          rw [hget] at h2'; exact absurd (Option.some.inj h2') (hnw k)
        · intro wf'' h1
          simp [wfOf] at h1; subst h1
          simp
        · intro o k h1; simp [wkOf] at h1
      refine endOfStep_rsp _ _ hR ?_ (by intro s hs; cases hs)
      intro wf'' k h1 h2
      simp [wfOf] at h1; subst h1
      have h2' : (c.wfs ++ [match wk with | some o => o | none => WF.pending])[c.wfs.length]? = some (.interrupted k) := h2
      rw [hget] at h2'; exact absurd (Option.some.inj h2') (hnw k)
    · rename_i hnw
      refine endOfStep_rsp c _ h ?_ (by intro s hs; cases hs)
      intro wf' k h1
      obtain ⟨fn', wk', aw', hst⟩ := wfOf_waiting h1
      exact absurd hst (hnw fn' wf' wk' aw')
  · refine endOfStep_rsp c _ h ?_ (by intro s hs; cases hs)
    intro wf' k h1 h2
    have := hwf wf' h1; subst this
    rw [hw] at h2; cases h2
  · exact absurd rfl hne


/-! ### one step of the loop, the loop, the callback -/

theorem ni_of_nstep (c : Cfg) (h : Rob c) (hns : c.stepping = false) : NI c := by
  intro wf k hw hk
  have := (h.intr wf k hw hk).1
  rw [hns] at this; cases this

theorem rob_stepping (c : Cfg) (h : Rob c) (hns : c.stepping = false) : Rob { c with stepping := true } := by
  have hi := h.int0 hns
  refine ⟨?_, ?_, ?_, ?_, h.wfv, h.park⟩
  · intro g; cases g
  · intro i g; have g' : c.interrupt = some i := g; rw [hi] at g'; cases g'
  · intro i g; have g' : c.interrupt = some i := g; rw [hi] at g'; cases g'
  · intro wf k hw hk; exact absurd hk (ni_of_nstep c h hns wf k hw)

/-- a step that ends without suspending leaves a configuration "between two steps" -/
theorem stepBody0_mid (P : Prog) (c : Cfg) (hm : Mid c) (hnp : terminal c.st.label = false → c.paused = none)
    (hs : stepSync P c = true) : Mid (stepBody P 0 c) := by
  have hR := rob_stepping c hm.rob hm.nstep
  have hN : NI { c with stepping := true } := ni_of_nstep c hm.rob hm.nstep
  have key : Rob (stepBody P 0 c) ∧ (stepBody P 0 c).stepping = false ∧ (stepBody P 0 c).pc = c.pc := by
    unfold stepBody stepBodyK
    unfold stepSync at hs
    dsimp only
    split
    · exact endOfStep_rsp _ _ hR hN (by intro s hs' wf hw; cases hs'; simp [wfOf] at hw)
    · rename_i fn args kw hst
      have hst' : c.st = .running fn args kw := hst
      have h0 : (P fn args kw c.ctx).awaits = 0 := by simpa [hst'] using hs
      simp only [h0, if_true]
      exact finishUser_rsp _ _ (hR.congr rfl rfl rfl rfl rfl rfl rfl rfl) (by show wfOf c.st = none; rw [hst']; rfl)
    · rename_i fn wf wk aw hst
      have hst' : c.st = .waiting fn wf wk aw := hst
      split
      · rename_i hw
        have hw' : c.wfs[wf]? = some .pending := hw
        simp [hst', hw'] at hs
      · rename_i w hnp hw
        have hw' : c.wfs[wf]? = some w := hw
        have hne : w ≠ .pending := by intro g; exact hnp g
        show Rob (wake { c with stepping := true } fn wf w) ∧ _
        exact wake_rsp _ fn wf w hR hw' hne (by
          intro wf' h1; have h1' : wfOf c.st = some wf' := h1; rw [hst'] at h1'; simp [wfOf] at h1'; exact h1'.symm)
      · rename_i hw
        have hw' : c.wfs[wf]? = none := hw
        simp [hst', hw'] at hs
    · rename_i hn1 hn2 hn3
      refine endOfStep_rsp _ _ hR hN (by intro s hs'; cases hs')
  exact ⟨key.1, stepBody_inv P 0 c hm.inv, stepBody_invP P 0 c hm.invP hnp, key.2.1, by intro e; rw [key.2.2]; exact hm.ncr e⟩

/-- the body of `Process.step` followed by any continuation `k` that is only used after a synchronous step -/
theorem stepBodyK_coh (P : Prog) (k : Cfg → Cfg) (c : Cfg) (hm : Mid c)
    (hnp : terminal c.st.label = false → c.paused = none)
    (hk : stepSync P c = true → Coh (k (stepBody P 0 c))) : Coh (stepBodyK P k c) := by
  cases hs : stepSync P c with
  | true => rw [stepBodyK_sync P k c hs]; exact hk hs
  | false =>
    rw [stepBodyK_susp P k c hs]
    have hR := rob_stepping c hm.rob hm.nstep
    refine ⟨?_, stepBody_inv P 0 c hm.inv, stepBody_invP P 0 c hm.invP hnp, ?_⟩
    · unfold stepBody stepBodyK
      unfold stepSync at hs
      dsimp only
      split
      · rename_i fn hst
        have hst' : c.st = .created fn := hst
        simp [hst'] at hs
      · rename_i fn args kw hst
        have hst' : c.st = .running fn args kw := hst
        have h0 : ¬ (P fn args kw c.ctx).awaits = 0 := by simpa [hst'] using hs
        simp only [h0, if_false]
        exact hR.congr rfl rfl rfl rfl rfl rfl rfl rfl
      · rename_i fn wf wk aw hst
        have hst' : c.st = .waiting fn wf wk aw := hst
        have hlt : wf < c.wfs.length := hm.rob.wfv wf (by rw [hst']; rfl)
        split
        · exact hR.congr rfl rfl rfl rfl rfl rfl rfl rfl
        · rename_i w hnp hw
          have hw' : c.wfs[wf]? = some w := hw
          have hne : w ≠ .pending := by intro g; exact hnp g
          cases w <;> first | exact absurd rfl hne | simp [hst', hw'] at hs
        · rename_i hw
          have hw' : c.wfs[wf]? = none := hw
          rw [List.getElem?_eq_none_iff] at hw'; omega
      · rename_i hn1 hn2 hn3
        cases hst : c.st with
        | created fn => exact absurd hst (hn1 fn)
        | running fn a kw => exact absurd hst (hn2 fn a kw)
        | waiting fn wf wk aw => exact absurd hst (hn3 fn wf wk aw)
        | finished v ok => simp [hst] at hs
        | excepted e => simp [hst] at hs
        | killed => simp [hst] at hs
    · unfold stepBody stepBodyK
      unfold stepSync at hs
      dsimp only
      split
      · rename_i fn hst
        have hst' : c.st = .created fn := hst
        simp [hst'] at hs
      · rename_i fn args kw hst
        have hst' : c.st = .running fn args kw := hst
        have h0 : ¬ (P fn args kw c.ctx).awaits = 0 := by simpa [hst'] using hs
        simp only [h0, if_false]
        simp [PcOk, hst', wfOf]
      · rename_i fn wf wk aw hst
        have hst' : c.st = .waiting fn wf wk aw := hst
        have hlt : wf < c.wfs.length := hm.rob.wfv wf (by rw [hst']; rfl)
        split
        · simp [PcOk, hst', wfOf]
        · rename_i w hnp hw
          have hw' : c.wfs[wf]? = some w := hw
          have hne : w ≠ .pending := by intro g; exact hnp g
          cases w <;> first | exact absurd rfl hne | simp [hst', hw'] at hs
        · rename_i hw
          have hw' : c.wfs[wf]? = none := hw
          rw [List.getElem?_eq_none_iff] at hw'; omega
      · rename_i hn1 hn2 hn3
        cases hst : c.st with
        | created fn => exact absurd hst (hn1 fn)
        | running fn a kw => exact absurd hst (hn2 fn a kw)
        | waiting fn wf wk aw => exact absurd hst (hn3 fn wf wk aw)
        | finished v ok => simp [hst] at hs
        | excepted e => simp [hst] at hs
        | killed => simp [hst] at hs

theorem loopHead_coh (P : Prog) : ∀ (fuel : Nat) (c : Cfg), Mid c → fuelOk P fuel c = true → Coh (loopHead P fuel c) := by
  intro fuel
  induction fuel with
  | zero => intro c _ hf; simp [fuelOk] at hf
  | succ n ih =>
    intro c hm hf
    unfold loopHead
    split
    · rename_i e he; exact absurd he (hm.ncr e)
    · split
      · rename_i ht
        exact ⟨hm.rob.congr rfl rfl rfl rfl rfl rfl rfl rfl, hm.inv.same ⟨rfl, rfl, rfl⟩, hm.invP.same ⟨rfl, rfl, rfl, rfl⟩,
          by simp [PcOk]; exact ⟨hm.nstep, ht⟩⟩
      · rename_i hnt
        have hl : terminal c.st.label = false := by simpa using hnt
        split
        · rename_i hcl; have := hm.inv.closedTerm hcl; rw [hl] at this; cases this
        · have hbody : ∀ (hnp : terminal c.st.label = false → c.paused = none), Coh (stepBodyK P (loopHead P n) c) := by
            intro hnp
            refine stepBodyK_coh P _ c hm hnp ?_
            intro hs
            apply ih _ (stepBody0_mid P c hm hnp hs)
            unfold fuelOk at hf
            have hpn := hnp hl
            simpa [hl, hpn, hs] using hf
          split
          · rename_i pf hpa
            split
            · exact ⟨hm.rob.congr rfl rfl rfl rfl rfl rfl rfl rfl, hm.inv.same ⟨rfl, rfl, rfl⟩, hm.invP.same ⟨rfl, rfl, rfl, rfl⟩,
                by simp [PcOk]; exact ⟨hm.nstep, fun _ => Or.inr hpa⟩⟩
            · rename_i hne
              exact absurd (hm.invP.pausedPending hl pf hpa) hne
          · rename_i hpa
            exact hbody (fun _ => hpa)


theorem fuel0_ne : fuel0 = 999 + 1 := rfl

theorem tickStepper_coh (P : Prog) (c : Cfg) (h : Coh c) (hf : tickFuelOk P c = true) : Coh (tickStepper P c) := by
  have hpcok := h.pcOk
  unfold PcOk at hpcok
  unfold tickFuelOk at hf
  unfold tickStepper
  split
  · rename_i hpc
    simp only [hpc] at hpcok hf
    exact loopHead_coh P _ c ⟨h.rob, h.inv, h.invP, hpcok, by intro e; rw [hpc]; intro g; cases g⟩ hf
  · rename_i pf hpc
    simp only [hpc] at hpcok hf
    have hm : Mid c := ⟨h.rob, h.inv, h.invP, hpcok.1, by intro e; rw [hpc]; intro g; cases g⟩
    have hbody : ∀ (hnp : terminal c.st.label = false → c.paused = none), Coh (stepBody P fuel0 c) := by
      intro hnp
      unfold stepBody
      refine stepBodyK_coh P _ c hm hnp ?_
      intro hs
      apply loopHead_coh P _ _ (stepBody0_mid P c hm hnp hs)
      simpa [hs] using hf
    split
    · split
      · rename_i pf' hpa
        split
        · exact ⟨h.rob.congr rfl rfl rfl rfl rfl rfl rfl rfl, h.inv.same ⟨rfl, rfl, rfl⟩, h.invP.same ⟨rfl, rfl, rfl, rfl⟩,
            by simp [PcOk]; exact ⟨hpcok.1, fun _ => Or.inr hpa⟩⟩
        · rename_i hne
          exact hbody (fun hl => absurd (h.invP.pausedPending hl pf' hpa) hne)
      · rename_i hpa
        exact hbody (fun _ => hpa)
    · exact h
  · rename_i b hpc
    simp only [hpc] at hpcok hf
    split
    · rename_i hb
      have key := finishUser_rsp c b.out h.rob hpcok.2
      apply loopHead_coh P _ _ ⟨key.1, finishUser_inv _ _ h.inv, finishUser_invP _ _ h.invP, key.2.1,
        by intro e; rw [key.2.2, hpc]; intro g; cases g⟩
      simpa [hb] using hf
    · exact ⟨h.rob.congr rfl rfl rfl rfl rfl rfl rfl rfl, h.inv.same ⟨rfl, rfl, rfl⟩, h.invP.same ⟨rfl, rfl, rfl, rfl⟩,
        by simp [PcOk]; exact hpcok⟩
  · rename_i wf hpc
    simp only [hpc] at hpcok hf
    split
    · exact h
    · rename_i w hnp hw
      have hne : w ≠ .pending := by intro g; exact hnp g
      have hwf : ∀ wf', wfOf c.st = some wf' → wf' = wf := by
        intro wf' h1
        rcases hpcok.2 with g | g
        · rw [wfOf_none_of_terminal g] at h1; cases h1
        · rw [g] at h1; cases h1; rfl
      have hf' : fuelOk P fuel0 (wake c (wakeFn c) wf w) = true := by
        rw [hw] at hf
        cases w <;> first | exact absurd rfl hne | exact hf
      have key := wake_rsp c (wakeFn c) wf w h.rob hw hne hwf
      show Coh (loopHead P fuel0 (wake c (wakeFn c) wf w))
      exact loopHead_coh P _ _ ⟨key.1, wake_inv _ _ _ _ h.inv, wake_invP _ _ _ _ h.invP, key.2.1,
        by intro e; rw [key.2.2, hpc]; intro g; cases g⟩ hf'
    · exact h
  · exact h

/-- every event keeps the coherence invariant, provided a callback of the stepping task does not run out of fuel -/
theorem step_coh (P : Prog) (c : Cfg) (ev : Ev) (h : Coh c) (hf : ev = .tick → tickFuelOk P c = true) :
    Coh (step P c ev).1 := by
  cases ev <;> simp only [step]
  · exact tickStepper_coh P c h (hf rfl)
  · exact tickCb_coh c _ h
  · exact pause_coh c h
  · exact play_coh c h
  · exact kill_coh c h
  · exact resume_coh c _ h
  · exact fail_coh c _ h
  · exact cancelFut_coh c h
  · exact complete_coh c _ _ h
  · exact h.same ⟨rfl, rfl, rfl, rfl, rfl, rfl, rfl, rfl, rfl, rfl, rfl, rfl, rfl, rfl, rfl⟩

theorem run_coh (P : Prog) (c0 : Cfg) (evs : List Ev) (h : Coh c0) (hf : histFuelOk P c0 evs = true) :
    Coh (run P c0 evs) := by
  induction evs generalizing c0 with
  | nil => exact h
  | cons e es ih =>
    unfold histFuelOk at hf
    rw [Bool.and_eq_true] at hf
    exact ih _ (step_coh P c0 e h (by intro he; subst he; exact hf.1)) hf.2

theorem histFuelOk_append (P : Prog) (c0 : Cfg) (es1 es2 : List Ev) :
    histFuelOk P c0 (es1 ++ es2) = (histFuelOk P c0 es1 && histFuelOk P (run P c0 es1) es2) := by
  induction es1 generalizing c0 with
  | nil => simp [histFuelOk, run]
  | cons e es ih =>
    simp only [List.cons_append, histFuelOk, ih, Bool.and_assoc]
    rfl

theorem run_append (P : Prog) (c0 : Cfg) (es1 es2 : List Ev) : run P c0 (es1 ++ es2) = run P (run P c0 es1) es2 := by
  simp [run, List.foldl_append]

end PMF.H6
