import PlumpyModel.PM.Proof11f
/-!
# C06 at the level of histories, part 7: nothing is activated for a WAITING epoch that holds no outcome (`Unres`)

`Unres fn t0 c`: the process is still WAITING for continuation `fn` with NOTHING delivered (the future is pending or
carries an interruption, the wake-up slot is empty) and the trace of user calls is still `t0` — or it terminated with the
trace still `t0`.  Every event other than a delivery (`resume`, an awaitable's done-callback) keeps it.
-/
namespace PMF.H6
open PMF

inductive Unres (fn : Nat) (t0 : List Act) (c : Cfg) : Prop
  | waiting (wf : Nat) (aw : List (Nat × Nat)) (hst : c.st = .waiting fn wf none aw)
      (he : c.wfs[wf]? = some .pending ∨ ∃ k, c.wfs[wf]? = some (.interrupted k)) (ht : c.trace = t0)
  | over (hterm : terminal c.st.label = true) (ht : c.trace = t0)

/-- `d` differs from `c` at most by an interruption written into the PENDING future of the current wait -/
def QuietU (c d : Cfg) : Prop :=
  d.st = c.st ∧ d.trace = c.trace ∧
  (∀ wf, wfOf c.st = some wf → d.wfs[wf]? = c.wfs[wf]? ∨ (c.wfs[wf]? = some .pending ∧ ∃ k, d.wfs[wf]? = some (.interrupted k)))

theorem QuietU.of_eq {c d : Cfg} (h1 : d.st = c.st) (h2 : d.trace = c.trace) (h3 : d.wfs = c.wfs) : QuietU c d :=
  ⟨h1, h2, fun _ _ => Or.inl (by rw [h3])⟩

theorem Unres.quiet {fn : Nat} {t0 : List Act} {c d : Cfg} (h : Unres fn t0 c) (q : QuietU c d) : Unres fn t0 d := by
  cases h with
  | waiting wf aw hst he ht =>
    refine .waiting wf aw (q.1.trans hst) ?_ (q.2.1.trans ht)
    rcases q.2.2 wf (by rw [hst]; rfl) with g | ⟨_, k, g⟩
    · rw [g]; exact he
    · exact Or.inr ⟨k, g⟩
  | over hterm ht => exact .over (by rw [q.1]; exact hterm) (q.2.1.trans ht)

theorem Unres.terminated {fn : Nat} {t0 : List Act} {c d : Cfg} (h : Unres fn t0 c)
    (hterm : terminal d.st.label = true) (htr : d.trace = c.trace) : Unres fn t0 d := by
  cases h with
  | waiting wf aw hst he ht => exact .over hterm (htr.trans ht)
  | over _ ht => exact .over hterm (htr.trans ht)

theorem requestInterrupt_quietU (c : Cfg) (k : AKind) : QuietU c (requestInterrupt c k) := by
  refine ⟨(requestInterrupt_fields c k).1, (requestInterrupt_sameP c k).2.1, ?_⟩
  intro wf hw
  have h2 := setInterruptFromExc_rest { c with nextCookie := c.nextCookie + 1 } k c.nextCookie
  obtain ⟨fn, wk, aw, hst⟩ := wfOf_waiting hw
  have hst2 : (setInterruptFromExc { c with nextCookie := c.nextCookie + 1 } k c.nextCookie).st = .waiting fn wf wk aw :=
    h2.st.trans hst
  have hw2 : (setInterruptFromExc { c with nextCookie := c.nextCookie + 1 } k c.nextCookie).wfs = c.wfs := h2.wfs
  unfold requestInterrupt interruptState
  simp only [hst2, hw2]
  by_cases hp : c.wfs[wf]? = some .pending
  · have hlt : wf < c.wfs.length := (List.getElem?_eq_some_iff.mp hp).1
    simp only [hp, if_true]
    exact Or.inr ⟨trivial, c.nextCookie, by simp [setAt, hlt]⟩
  · simp only [hp, if_false]
    exact Or.inl (by rw [hw2])

theorem hand_quietU (c d : Cfg) (i : Nat) (q : QuietU c d) : QuietU c (hand d i) := by
  unfold hand; split <;> exact q

theorem pause_quietU (c : Cfg) : QuietU c (pause c).1 := by
  unfold pause
  split
  · exact QuietU.of_eq rfl rfl rfl
  · split
    · exact QuietU.of_eq rfl rfl rfl
    · split
      · exact hand_quietU c c _ (QuietU.of_eq rfl rfl rfl)
      · split
        · exact QuietU.of_eq rfl rfl rfl
        · split
          · dsimp only
            split
            · exact hand_quietU _ _ _ (requestInterrupt_quietU c .pause)
            · exact requestInterrupt_quietU c .pause
          · exact QuietU.of_eq rfl rfl rfl

theorem kill_unres {fn : Nat} {t0 : List Act} (c : Cfg) (h : Unres fn t0 c) : Unres fn t0 (kill c).1 := by
  unfold kill
  split
  · exact h
  · split
    · exact h
    · split
      · exact h.quiet (hand_quietU c c _ (QuietU.of_eq rfl rfl rfl))
      · split
        · dsimp only
          split
          · exact h.quiet (hand_quietU _ _ _ (requestInterrupt_quietU c .kill))
          · exact h.quiet (requestInterrupt_quietU c .kill)
        · exact h.terminated (transitionTo_terminal c .killed (by simp [SObj.label, terminal, allowed]))
            (transitionTo_core c .killed).trace

theorem fail_unres {fn : Nat} {t0 : List Act} (c : Cfg) (e) (h : Unres fn t0 c) : Unres fn t0 (fail c e).1 := by
  unfold fail; split
  · exact h
  · exact h.terminated (transitionTo_terminal c _ (by simp [SObj.label, terminal, allowed])) (transitionTo_core c _).trace

/-- `Process.step` on a WAITING state whose future is pending suspends on that future, whatever the continuation -/
theorem stepBodyK_pending_fields (P : Prog) (k : Cfg → Cfg) (c : Cfg) (fn wf : Nat) (wk : Option WF) (aw : List (Nat × Nat))
    (hst : c.st = .waiting fn wf wk aw) (hw : c.wfs[wf]? = some .pending) :
    (stepBodyK P k c).st = c.st ∧ (stepBodyK P k c).wfs = c.wfs ∧ (stepBodyK P k c).trace = c.trace := by
  unfold stepBodyK
  dsimp only
  split
  · rename_i fn' h; have h' : c.st = .created fn' := h; rw [hst] at h'; cases h'
  · rename_i fn' args' kw' h; have h' : c.st = .running fn' args' kw' := h; rw [hst] at h'; cases h'
  · rename_i fn' wf' wk' aw' h
    have h' : c.st = .waiting fn' wf' wk' aw' := h
    rw [hst] at h'; cases h'
    split
    · exact ⟨rfl, rfl, rfl⟩
    · rename_i w hnp hw'
      have hw'' : c.wfs[wf]? = some w := hw'
      rw [hw] at hw''; cases hw''
      exact absurd rfl hnp
    · rename_i hn; have hn' : c.wfs[wf]? = none := hn; rw [hw] at hn'; cases hn'
  · rename_i h1 h2 h3; exact absurd hst (h3 fn wf wk aw)

theorem pending_of_nstep {c : Cfg} {fn wf : Nat} {wk : Option WF} {aw : List (Nat × Nat)} (hr : Rob c)
    (hns : c.stepping = false) (hst : c.st = .waiting fn wf wk aw)
    (he : c.wfs[wf]? = some .pending ∨ ∃ k, c.wfs[wf]? = some (.interrupted k)) : c.wfs[wf]? = some .pending := by
  rcases he with g | ⟨k, g⟩
  · exact g
  · have := (hr.intr wf k (by rw [hst]; rfl) g).1
    rw [hns] at this; cases this

theorem loopHead_mid_unres {fn : Nat} {t0 : List Act} (P : Prog) (m : Nat) (d : Cfg) (hm : Mid d)
    (h : Unres fn t0 d) : Unres fn t0 (loopHead P (m + 1) d) := by
  cases h with
  | waiting wf aw hst he ht =>
    have hw := pending_of_nstep hm.rob hm.nstep hst he
    have hlive : terminal d.st.label = false := by rw [hst]; simp [SObj.label, terminal, allowed]
    have hcl := not_closed_of_live hm.inv hlive
    cases hpa : d.paused with
    | none =>
      have hf := stepBodyK_pending_fields P (loopHead P m) d fn wf none aw hst hw
      have : loopHead P (m + 1) d = stepBodyK P (loopHead P m) d := by
        show loopHead P (m + 1) d = _
        unfold loopHead
        split
        · rename_i e he'; exact absurd he' (hm.ncr e)
        · simp only [hlive, hcl, Bool.false_eq_true, if_false, hpa]
      rw [this]
      exact .waiting wf aw (hf.1.trans hst) (Or.inl (by rw [hf.2.1]; exact hw)) (hf.2.2.trans ht)
    | some pf =>
      rw [loopHead_blocked P m d pf hm.ncr hlive hcl hpa (hm.invP.pausedPending hlive pf hpa)]
      exact .waiting wf aw hst he ht
  | over hterm ht =>
    have hf := loopHead_terminal_fields P (m + 1) d hterm
    exact .over (by rw [hf.2]; exact hterm) (hf.1.trans ht)

theorem tickStepper_unres {fn : Nat} {t0 : List Act} (P : Prog) (c : Cfg) (hC : Coh c)
    (h : Unres fn t0 c) : Unres fn t0 (tickStepper P c) := by
  have hpcok := hC.pcOk
  unfold PcOk at hpcok
  cases h with
  | over hterm ht =>
    exact .over (by rw [(tickStepper_fix P c hterm).1]; exact hterm) ((tickStepper_terminal_trace P c hterm).trans ht)
  | waiting wf aw hst he ht =>
    have hlive : terminal c.st.label = false := by rw [hst]; simp [SObj.label, terminal, allowed]
    have hwfo : wfOf c.st = some wf := by rw [hst]; rfl
    cases hpc : c.pc with
    | notStarted =>
      simp only [hpc] at hpcok
      unfold tickStepper
      simp only [hpc]
      exact loopHead_mid_unres P 999 c ⟨hC.rob, hC.inv, hC.invP, hpcok, by intro e; rw [hpc]; intro g; cases g⟩
        (.waiting wf aw hst he ht)
    | awaitPaused pf =>
      simp only [hpc] at hpcok
      have hw := pending_of_nstep hC.rob hpcok.1 hst he
      unfold tickStepper
      simp only [hpc]
      split
      · split
        · rename_i pf' hpa
          simp only [hC.invP.pausedPending hlive pf' hpa, if_true]
          exact .waiting wf aw hst he ht
        · have hf := stepBodyK_pending_fields P (loopHead P fuel0) c fn wf none aw hst hw
          unfold stepBody
          exact .waiting wf aw (hf.1.trans hst) (Or.inl (by rw [hf.2.1]; exact hw)) (hf.2.2.trans ht)
      · exact .waiting wf aw hst he ht
    | inUser b => simp only [hpc] at hpcok; rw [hpcok.2] at hwfo; cases hwfo
    | done => simp only [hpc] at hpcok; rw [hlive] at hpcok; cases hpcok.2
    | crashed e => simp only [hpc] at hpcok
    | awaitWaiting wf' =>
      simp only [hpc] at hpcok
      have hwf' : wf' = wf := by
        rcases hpcok.2 with g | g
        · rw [hlive] at g; cases g
        · rw [hwfo] at g; cases g; rfl
      subst hwf'
      rcases he with hw | ⟨k, hwk⟩
      · unfold tickStepper
        simp only [hpc, hw]
        exact .waiting wf' aw hst (Or.inl hw) ht
      · have hwf : ∀ wf'', wfOf c.st = some wf'' → wf'' = wf' := by
          intro wf'' h1; rw [hwfo] at h1; cases h1; rfl
        have hk := wake_rsp c fn wf' (.interrupted k) hC.rob hwk (by intro g; cases g) hwf
        have hm : Mid (wake c fn wf' (.interrupted k)) := ⟨hk.1, wake_inv _ _ _ _ hC.inv, wake_invP _ _ _ _ hC.invP, hk.2.1,
          by intro e; rw [hk.2.2, hpc]; intro g; cases g⟩
        have hwake : wake c fn wf' (.interrupted k) =
            endOfStep { c with st := .waiting fn c.wfs.length none aw, wfs := c.wfs ++ [WF.pending] } (.interruption k) := by
          unfold wake
          simp only [hst, if_true]
        have hs := endOfStep_spec { c with st := .waiting fn c.wfs.length none aw, wfs := c.wfs ++ [WF.pending] }
          (.interruption k) hC.rob.actOk
        have hd : Unres fn t0 (wake c fn wf' (.interrupted k)) := by
          rw [hwake]
          rcases hs.2.2.2.2 with ⟨a, b⟩ | a | ⟨s, hs', _, _⟩
          · exact .waiting c.wfs.length aw a (Or.inl (by rw [b]; simp)) (hs.2.2.2.1.trans ht)
          · exact .over a (hs.2.2.2.1.trans ht)
          · cases hs'
        have := loopHead_mid_unres P 999 _ hm hd
        unfold tickStepper
        simp only [hpc, hwk, hst]
        exact this

/-- every event that is not a delivery keeps `Unres` -/
theorem step_unres {fn : Nat} {t0 : List Act} (P : Prog) (c : Cfg) (ev : Ev) (hC : Coh c)
    (hnr : ∀ u, ev ≠ .resume u) (hna : ∀ f, ev ≠ .tickCb (.adone f)) (h : Unres fn t0 c) :
    Unres fn t0 (step P c ev).1 := by
  cases ev <;> simp only [step]
  · exact tickStepper_unres P c hC h
  · rename_i cb
    unfold tickCb; split
    · have h1 : Unres fn t0 { c with ready := c.ready.erase cb } := h.quiet (QuietU.of_eq rfl rfl rfl)
      cases cb with
      | adone f => exact absurd rfl (hna f)
      | trykill => exact (kill_unres _ h1).quiet (QuietU.of_eq rfl rfl rfl)
      | usercb raises =>
        dsimp only
        split
        · exact fail_unres _ _ h1
        · exact h1
    · exact h
  · exact h.quiet (pause_quietU c)
  · have q := play_quiet c
    exact h.quiet ⟨q.1, q.2.2.1, fun wf hw => by
      unfold play
      split
      · split
        · exact Or.inl (by rw [(cancelAction_rest c _).1.wfs])
        · exact Or.inl rfl
      · dsimp only; split <;> exact Or.inl rfl⟩
  · exact kill_unres c h
  · exact absurd rfl (hnr _)
  · exact fail_unres c _ h
  · unfold cancelFut; split
    · exact h.quiet (QuietU.of_eq rfl rfl rfl)
    · exact h
  · unfold complete; split
    · dsimp only; split <;> exact h.quiet (QuietU.of_eq rfl rfl rfl)
    · exact h
  · exact h.quiet (QuietU.of_eq rfl rfl rfl)

theorem run_unres {fn : Nat} {t0 : List Act} (P : Prog) (c0 : Cfg) (evs : List Ev) (hC : Coh c0)
    (hf : histFuelOk P c0 evs = true) (hnd : ∀ e ∈ evs, (∀ u, e ≠ .resume u) ∧ (∀ f, e ≠ .tickCb (.adone f)))
    (h : Unres fn t0 c0) : Unres fn t0 (run P c0 evs) := by
  induction evs generalizing c0 with
  | nil => exact h
  | cons e es ih =>
    unfold histFuelOk at hf
    rw [Bool.and_eq_true] at hf
    have hfe : e = .tick → tickFuelOk P c0 = true := by intro he; subst he; exact hf.1
    have hne := hnd e (by simp)
    exact ih _ (step_coh P c0 e hC hfe) hf.2 (fun e' he' => hnd e' (by simp [he']))
      (step_unres P c0 e hC hne.1 hne.2 h)

end PMF.H6
