import PlumpyModel.PM.Proof3
namespace PMF

def actionKind (c : Cfg) (i : Nat) : Option AKind := (c.actions[i]?).map (·.kind)

/-- the kill action `k` is the pending interrupt action of the step in flight -/
def Pending (k : Nat) (c : Cfg) : Prop :=
  terminal c.st.label = false ∧
  c.killing = some k ∧ c.interrupt = some k ∧ actionStatus c k = .pending ∧ c.stepping = true ∧
  actionKind c k = some .kill

/-- **commitment**: the process is KILLED or EXCEPTED, or the kill is still the pending interrupt action -/
def Committed (k : Nat) (c : Cfg) : Prop :=
  c.st.label = .killed ∨ c.st.label = .excepted ∨ Pending k c

/-- side invariant: the pending-pause alias points to a pause action -/
def PausingOk (c : Cfg) : Prop := ∀ i, c.pausing = some i → actionKind c i = some .pause

/-! ### action table bookkeeping -/
theorem setAt_getElem?_ne {α} (l : List α) (i j : Nat) (a : α) (h : i ≠ j) : (setAt l i a)[j]? = l[j]? := by
  simp [setAt, List.getElem?_set, h]

theorem setActionStatus_other (c : Cfg) (i j : Nat) (s) (h : i ≠ j) :
    actionStatus (setActionStatus c i s) j = actionStatus c j ∧ actionKind (setActionStatus c i s) j = actionKind c j := by
  unfold setActionStatus
  split
  · simp [actionStatus, actionKind, setAt_getElem?_ne _ _ _ _ h]
  · exact ⟨rfl, rfl⟩

theorem setActionStatus_kind (c : Cfg) (i j : Nat) (s) : actionKind (setActionStatus c i s) j = actionKind c j := by
  unfold setActionStatus
  split
  · rename_i a ha
    by_cases h : i = j
    · subst h; simp [actionKind, setAt, List.getElem?_set, ha]
      exact (List.getElem?_eq_some_iff.mp ha).1
    · simp [actionKind, setAt_getElem?_ne _ _ _ _ h]
  · rfl

theorem cancelAction_other (c : Cfg) (i j : Nat) (h : i ≠ j) :
    actionStatus (cancelAction c i) j = actionStatus c j := by
  unfold cancelAction; split
  · exact (setActionStatus_other c i j _ h).1
  · rfl

theorem cancelAction_kind (c : Cfg) (i j : Nat) : actionKind (cancelAction c i) j = actionKind c j := by
  unfold cancelAction; split
  · exact setActionStatus_kind ..
  · rfl

/-- fields that `cancelAction`/`setActionStatus` never touch -/
theorem cancelAction_fields (c : Cfg) (i : Nat) :
    (cancelAction c i).killing = c.killing ∧ (cancelAction c i).interrupt = c.interrupt ∧
    (cancelAction c i).stepping = c.stepping ∧ (cancelAction c i).pausing = c.pausing ∧
    (cancelAction c i).st = c.st := by
  unfold cancelAction setActionStatus
  split
  · split <;> exact ⟨rfl, rfl, rfl, rfl, rfl⟩
  · exact ⟨rfl, rfl, rfl, rfl, rfl⟩

/-- kinds differ, hence indices differ -/
theorem ne_of_kinds {c : Cfg} {i k : Nat} (hi : actionKind c i = some .pause) (hk : actionKind c k = some .kill) :
    i ≠ k := by
  intro h; subst h; rw [hi] at hk; cases hk

end PMF

namespace PMF

/-- `c'` agrees with `c` on everything `Pending` and `PausingOk` look at -/
def Keep (c c' : Cfg) : Prop :=
  c'.st.label = c.st.label ∧ c'.killing = c.killing ∧ c'.interrupt = c.interrupt ∧ c'.actions = c.actions ∧
  c'.stepping = c.stepping ∧ c'.pausing = c.pausing

theorem Keep.rfl' (c : Cfg) : Keep c c := ⟨rfl, rfl, rfl, rfl, rfl, rfl⟩
theorem Keep.trans {a b c : Cfg} (h1 : Keep a b) (h2 : Keep b c) : Keep a c :=
  ⟨h2.1.trans h1.1, h2.2.1.trans h1.2.1, h2.2.2.1.trans h1.2.2.1, h2.2.2.2.1.trans h1.2.2.2.1,
   h2.2.2.2.2.1.trans h1.2.2.2.2.1, h2.2.2.2.2.2.trans h1.2.2.2.2.2⟩

theorem Pending.keep {k : Nat} {c c' : Cfg} (h : Pending k c) (s : Keep c c') : Pending k c' := by
  obtain ⟨h0, h1, h2, h3, h4, h5⟩ := h
  refine ⟨by rw [s.1]; exact h0, by rw [s.2.1]; exact h1, by rw [s.2.2.1]; exact h2, ?_, by rw [s.2.2.2.2.1]; exact h4, ?_⟩
  · simpa [actionStatus, s.2.2.2.1] using h3
  · simpa [actionKind, s.2.2.2.1] using h5

theorem PausingOk.keep {c c' : Cfg} (h : PausingOk c) (s : Keep c c') : PausingOk c' := by
  intro i hi
  have := h i (by rw [← s.2.2.2.2.2]; exact hi)
  simpa [actionKind, s.2.2.2.1] using this

theorem hand_keep (c : Cfg) (i) : Keep c (hand c i) := by
  unfold hand; split <;> exact ⟨rfl, rfl, rfl, rfl, rfl, rfl⟩

theorem deliver_keep (c : Cfg) (o) : Keep c (deliver c o) := by
  unfold deliver
  split
  · rename_i fn wf wakeup aw hst
    split
    · exact ⟨rfl, rfl, rfl, rfl, rfl, rfl⟩
    · split
      · exact ⟨by simp [hst, SObj.label], rfl, rfl, rfl, rfl, rfl⟩
      · exact Keep.rfl' c
    · exact Keep.rfl' c
  · exact Keep.rfl' c

theorem interruptState_keep' (c : Cfg) (k) : Keep c (interruptState c k) := by
  unfold interruptState; split
  · split <;> exact ⟨rfl, rfl, rfl, rfl, rfl, rfl⟩
  · exact Keep.rfl' c

theorem cmdToState_keep (c : Cfg) (cmd : Cmd) : Keep c (cmdToState c cmd).1 := by
  unfold cmdToState; split <;> exact ⟨rfl, rfl, rfl, rfl, rfl, rfl⟩

theorem transitionTo_label (c : Cfg) (s : SObj) :
    (transitionTo c s).st.label = s.label ∨ (transitionTo c s).st.label = .excepted := by
  have hfe : ∀ d e, (forceExcepted d e).st.label = .excepted := by
    intro d e; unfold forceExcepted; split
    · rfl
    · rw [(onTerminated_keep _).1, (enteredHooks_keep _ _).1]; rfl
  unfold transitionTo
  split
  · dsimp only
    split
    · exact Or.inl rfl
    · split
      · exact Or.inr (hfe _ _)
      · left
        unfold enterNext; dsimp only
        split
        · rw [(onTerminated_keep _).1, (enteredHooks_keep _ _).1]; rfl
        · rw [(enteredHooks_keep _ _).1]; rfl
  · exact Or.inr (hfe _ _)

/-- with the kill pending, whatever the step produced, the process ends KILLED or EXCEPTED at the end of the step -/
theorem endOfStep_pending (k : Nat) (c : Cfg) (r : StepEnd) (h : Pending k c) :
    (endOfStep c r).st.label = .killed ∨ (endOfStep c r).st.label = .excepted := by
  obtain ⟨hl, hkill, hint, hst, hstep, hkind⟩ := h
  have hfin : ∀ d : Cfg, (finally_ d).st.label = d.st.label := fun d => (finally_same d).1
  unfold endOfStep; dsimp only; rw [hfin]
  -- the kill action entry
  have hget : ∃ a, c.actions[k]? = some a ∧ a.status = .pending ∧ a.kind = .kill := by
    cases ha : c.actions[k]? with
    | none => simp [actionKind, ha] at hkind
    | some a =>
      refine ⟨a, rfl, ?_, ?_⟩
      · simpa [actionStatus, ha] using hst
      · simpa [actionKind, ha] using hkind
  obtain ⟨a, ha, hapend, hakind⟩ := hget
  -- running the kill action on `c` with any `next`
  have hrun : ∀ next, (runAction c k next).st.label = .killed ∨ (runAction c k next).st.label = .excepted := by
    intro next
    unfold runAction
    rw [ha]; simp only [hapend, ne_eq, not_true_eq_false, if_false, hakind]
    have hs := (setActionStatus_same ({ transitionTo c .killed with killing := none }) k .done).1
    rw [hs]
    exact transitionTo_label c .killed
  have hdisp_c : ∀ next, (dispatch c next).st.label = .killed ∨ (dispatch c next).st.label = .excepted := by
    intro next
    unfold dispatch
    simp only [hl, Bool.false_eq_true, if_false, hint]
    have : actionStatus c k ≠ .cancelled := by rw [hst]; simp
    simp only [this, ne_eq, not_false_eq_true, if_true]
    exact hrun next
  have hexc : ∀ e, (dispatch (setInterrupt c none) (some (.excepted e))).st.label = .excepted := by
    intro e
    have hs := setInterrupt_same c none
    unfold dispatch
    simp only [hs.1, hl, Bool.false_eq_true, if_false]
    have hi : (setInterrupt c none).interrupt = none := by unfold setInterrupt; split <;> rfl
    simp only [hi]
    rcases transitionTo_label (setInterrupt c none) (.excepted e) with h | h <;> simpa [SObj.label] using h
  unfold prepare
  split
  · exact Or.inr (hexc _)
  · exact hdisp_c _
  · simp only [hint]; exact hdisp_c none
  · exact Or.inr (hexc _)

end PMF

namespace PMF

theorem committed_of_label {k : Nat} {c : Cfg} (h : c.st.label = .killed ∨ c.st.label = .excepted) : Committed k c := by
  rcases h with h | h
  · exact Or.inl h
  · exact Or.inr (Or.inl h)

theorem terminal_of_label {c : Cfg} (h : c.st.label = .killed ∨ c.st.label = .excepted) :
    terminal c.st.label = true := by
  rcases h with h | h <;> simp [h, terminal, allowed]

theorem finishUser_committed (k : Nat) (c : Cfg) (o : Outcome) (h : Pending k c) : Committed k (finishUser c o) := by
  unfold finishUser
  split
  · exact committed_of_label (endOfStep_pending k _ _ (h.keep (cmdToState_keep ..)))
  · exact committed_of_label (endOfStep_pending k _ _ h)

theorem wake_committed (k : Nat) (c : Cfg) (fn wf : Nat) (w : WF) (h : Pending k c) : Committed k (wake c fn wf w) := by
  unfold wake
  split
  · exact committed_of_label (endOfStep_pending k _ _ h)
  · apply committed_of_label; apply endOfStep_pending k
    split
    · rename_i f wf' wakeup aw hst
      split
      · exact h.keep ⟨by simp [hst, SObj.label], rfl, rfl, rfl, rfl, rfl⟩
      · exact h
    · exact h
  · exact committed_of_label (endOfStep_pending k _ _ h)
  · exact Or.inr (Or.inr h)

/-- the body of `step` under a pending kill, followed by any continuation that respects commitments -/
theorem stepBodyK_committed (P : Prog) (k : Nat) (kont : Cfg → Cfg) (hk : ∀ d, Committed k d → Committed k (kont d))
    (c : Cfg) (h : Pending k c) : Committed k (stepBodyK P kont c) := by
  unfold stepBodyK
  have hs : Pending k { c with stepping := true } := h.keep ⟨rfl, rfl, rfl, rfl, h.2.2.2.2.1.symm, rfl⟩
  dsimp only
  split
  · exact hk _ (committed_of_label (endOfStep_pending k _ _ hs))
  · split
    · exact hk _ (finishUser_committed k _ _ (hs.keep ⟨rfl, rfl, rfl, rfl, rfl, rfl⟩))
    · exact Or.inr (Or.inr (hs.keep ⟨rfl, rfl, rfl, rfl, rfl, rfl⟩))
  · split
    · exact Or.inr (Or.inr (hs.keep ⟨rfl, rfl, rfl, rfl, rfl, rfl⟩))
    · exact hk _ (wake_committed k _ _ _ _ hs)
    · exact Or.inr (Or.inr hs)
  · exact hk _ (committed_of_label (endOfStep_pending k _ _ hs))

/-- the rest of the stepping loop does not disturb a commitment -/
theorem loopHead_committed (P : Prog) (k : Nat) : ∀ (fuel : Nat) (c : Cfg), Committed k c → Committed k (loopHead P fuel c) := by
  intro fuel
  induction fuel with
  | zero => intro c h; simpa [loopHead] using h
  | succ n ih =>
    intro c h
    rcases h with h | h | h
    · have := (loopHead_fix P (n+1) c (terminal_of_label (Or.inl h))).1
      exact Or.inl (by rw [this]; exact h)
    · have := (loopHead_fix P (n+1) c (terminal_of_label (Or.inr h))).1
      exact Or.inr (Or.inl (by rw [this]; exact h))
    · have hl := h.1
      have hbody := stepBodyK_committed P k (loopHead P n) ih c h
      unfold loopHead
      split
      · exact Or.inr (Or.inr h)
      · simp only [hl, Bool.false_eq_true, if_false]
        split
        · exact Or.inr (Or.inr (h.keep ⟨rfl, rfl, rfl, rfl, rfl, rfl⟩))
        · split
          · split
            · exact Or.inr (Or.inr (h.keep ⟨rfl, rfl, rfl, rfl, rfl, rfl⟩))
            · exact hbody
          · exact hbody

theorem tickStepper_committed (P : Prog) (k : Nat) (c : Cfg) (h : Committed k c) : Committed k (tickStepper P c) := by
  rcases h with h | h | h
  · have := (tickStepper_fix P c (terminal_of_label (Or.inl h))).1
    exact Or.inl (by rw [this]; exact h)
  · have := (tickStepper_fix P c (terminal_of_label (Or.inr h))).1
    exact Or.inr (Or.inl (by rw [this]; exact h))
  · have hbody := stepBodyK_committed P k (loopHead P fuel0) (loopHead_committed P k fuel0) c h
    unfold tickStepper
    split
    · exact loopHead_committed P k _ c (Or.inr (Or.inr h))
    · split
      · split
        · split
          · exact Or.inr (Or.inr (h.keep ⟨rfl, rfl, rfl, rfl, rfl, rfl⟩))
          · exact hbody
        · exact hbody
      · exact Or.inr (Or.inr h)
    · split
      · exact loopHead_committed P k _ _ (finishUser_committed k _ _ h)
      · exact Or.inr (Or.inr (h.keep ⟨rfl, rfl, rfl, rfl, rfl, rfl⟩))
    · split
      · exact Or.inr (Or.inr h)
      · exact loopHead_committed P k _ _ (wake_committed k _ _ _ _ h)
      · exact Or.inr (Or.inr h)
    · exact Or.inr (Or.inr h)

end PMF

namespace PMF

/-- a control call or callback on a configuration with the kill pending -/
theorem pause_pending (k : Nat) (c : Cfg) (h : Pending k c) : Pending k (pause c).1 := by
  unfold pause
  simp only [h.1, Bool.false_eq_true, if_false]
  split
  · exact h
  · split
    · exact h.keep (hand_keep ..)
    · simp [h.2.1]; exact h

theorem play_pending (k : Nat) (c : Cfg) (h : Pending k c) (hp : PausingOk c) : Pending k (play c).1 := by
  unfold play
  split
  · split
    · rename_i i hi
      have hne : i ≠ k := ne_of_kinds (hp i hi) h.2.2.2.2.2
      have hf := cancelAction_fields c i
      refine ⟨by simp [hf.2.2.2.2, h.1], by simp [hf.1, h.2.1], by simp [hf.2.1, h.2.2.1], ?_, by simp [hf.2.2.1, h.2.2.2.2.1], ?_⟩
      · have := cancelAction_other c i k hne
        simpa [actionStatus] using this.trans h.2.2.2.1
      · have := cancelAction_kind c i k
        simpa [actionKind] using this.trans h.2.2.2.2.2
    · exact h
  · dsimp only
    split <;> exact h.keep ⟨rfl, rfl, rfl, rfl, rfl, rfl⟩

theorem kill_pending (k : Nat) (c : Cfg) (h : Pending k c) : Pending k (kill c).1 := by
  unfold kill
  have hnk : c.st.label ≠ .killed := by
    intro hk; have := h.1; simp [hk, terminal, allowed] at this
  simp only [hnk, if_false, h.1, Bool.false_eq_true, h.2.1]
  exact h.keep (hand_keep ..)

theorem awaitableDone_keep (c : Cfg) (f) : Keep c (awaitableDone c f) := by
  unfold awaitableDone
  have hold : ∀ d : Cfg, Keep d (match d.efKeys.find? (·.1 = f), d.efs[f]? with
      | some (_, key), some (EFut.result v) => { d with ctx := (key, v) :: d.ctx.filter (·.1 ≠ key) }
      | _, _ => d) := by
    intro d; split
    · exact ⟨rfl, rfl, rfl, rfl, rfl, rfl⟩
    · exact Keep.rfl' d
  dsimp only
  split
  · rename_i fn wf wakeup aw hst
    split
    · exact hold c
    · have h1 : Keep c { c with st := .waiting fn wf wakeup (aw.filter (·.1 ≠ f)) } :=
        ⟨by simp [hst, SObj.label], rfl, rfl, rfl, rfl, rfl⟩
      split
      · split
        · exact Keep.trans (Keep.trans h1 ⟨rfl, rfl, rfl, rfl, rfl, rfl⟩) (deliver_keep ..)
        · exact Keep.trans h1 ⟨rfl, rfl, rfl, rfl, rfl, rfl⟩
      · exact Keep.trans h1 (deliver_keep ..)
      · exact h1
  · exact hold c

/-- `fail(e)` on a process with a pending kill excepts it -/
theorem fail_committed (k : Nat) (c : Cfg) (e : Exc) (hpend : Pending k c) : Committed k (fail c e).1 := by
  unfold fail
  simp only [hpend.1, Bool.false_eq_true, if_false]
  rcases transitionTo_label c (.excepted e) with h | h
  · exact Or.inr (Or.inl (by simpa [SObj.label] using h))
  · exact Or.inr (Or.inl h)

/-- every event preserves the commitment (given the pause alias is well-kinded) -/
theorem step_committed (P : Prog) (k : Nat) (c : Cfg) (ev : Ev) (h : Committed k c) (hp : PausingOk c) :
    Committed k (step P c ev).1 := by
  by_cases hterm : c.st.label = .killed ∨ c.st.label = .excepted
  · have := (step_terminal_fix P c ev (terminal_of_label hterm)).1
    exact committed_of_label (by rw [this]; exact hterm)
  · have hpend : Pending k c := by
      rcases h with h | h | h
      · exact absurd (Or.inl h) hterm
      · exact absurd (Or.inr h) hterm
      · exact h
    cases ev <;> simp only [step]
    · exact tickStepper_committed P k c (Or.inr (Or.inr hpend))
    · unfold tickCb; split
      · have h1 : Pending k { c with ready := c.ready.erase ‹Cb› } := hpend.keep ⟨rfl, rfl, rfl, rfl, rfl, rfl⟩
        split
        · exact Or.inr (Or.inr (h1.keep (awaitableDone_keep ..)))
        · exact Or.inr (Or.inr ((kill_pending k _ h1).keep ⟨rfl, rfl, rfl, rfl, rfl, rfl⟩))
        · split
          · exact fail_committed k _ _ h1
          · exact Or.inr (Or.inr h1)
      · exact Or.inr (Or.inr hpend)
    · exact Or.inr (Or.inr (pause_pending k c hpend))
    · exact Or.inr (Or.inr (play_pending k c hpend hp))
    · exact Or.inr (Or.inr (kill_pending k c hpend))
    · unfold resume; split
      · exact Or.inr (Or.inr (hpend.keep (deliver_keep ..)))
      · exact Or.inr (Or.inr hpend)
    · -- fail(e) on a live process: it excepts
      unfold fail
      simp only [hpend.1, Bool.false_eq_true, if_false]
      rcases transitionTo_label c (.excepted ‹Exc›) with h | h
      · exact Or.inr (Or.inl (by simpa [SObj.label] using h))
      · exact Or.inr (Or.inl h)
    · unfold cancelFut; split
      · exact Or.inr (Or.inr (hpend.keep ⟨rfl, rfl, rfl, rfl, rfl, rfl⟩))
      · exact Or.inr (Or.inr hpend)
    · unfold complete; split
      · dsimp only; split <;> exact Or.inr (Or.inr (hpend.keep ⟨rfl, rfl, rfl, rfl, rfl, rfl⟩))
      · exact Or.inr (Or.inr hpend)
    · exact Or.inr (Or.inr (hpend.keep ⟨rfl, rfl, rfl, rfl, rfl, rfl⟩))

end PMF
