import PlumpyModel.PM.Proof12
/-!
# C05 — transparency, second part: wake-ups that arrive while the process is held by a pause on a wait

`Proof12` relates the run with pauses `c` and the reference run `d` by `Sim` and admits wake-up requests at quiet positions
only.  Here the relation is extended by the phase `LagW`: `c` is suspended on a pause future at a step boundary, its state is
WAITING, and the reference run is suspended *on that wait*.  Seen through the view `onWait` (the held stepping task put on the
wait) this is the phase `InStep` again, and every wake-up request commutes with the view, so the lemmas of `Proof12` apply.
-/
namespace PMF

def isWaiting : SObj → Bool
  | .waiting .. => true
  | _ => false

/-- view of a configuration held at a step boundary in WAITING: as if its stepping task were suspended on the wait -/
def onWait (c : Cfg) : Cfg :=
  match c.st with
  | .waiting _ wf _ _ => { c with pc := .awaitWaiting wf, stepping := true, paused := none }
  | _ => c

theorem onWait_waiting (c : Cfg) (fn wf wk aw) (h : c.st = .waiting fn wf wk aw) :
    onWait c = { c with pc := .awaitWaiting wf, stepping := true, paused := none } := by
  unfold onWait; rw [h]

/-- what the wake-up requests leave alone -/
def HFrame (c c' : Cfg) : Prop :=
  c'.pc = c.pc ∧ c'.stepping = c.stepping ∧ c'.interrupt = c.interrupt ∧ isWaiting c'.st = isWaiting c.st
theorem HFrame.rfl' (c : Cfg) : HFrame c c := ⟨rfl, rfl, rfl, rfl⟩
theorem HFrame.trans {a b c : Cfg} (h1 : HFrame a b) (h2 : HFrame b c) : HFrame a c :=
  ⟨h2.1.trans h1.1, h2.2.1.trans h1.2.1, h2.2.2.1.trans h1.2.2.1, h2.2.2.2.trans h1.2.2.2⟩

theorem deliver_hf (c : Cfg) (o : WF) : HFrame c (deliver c o) := by
  unfold deliver
  split
  · rename_i fn wf wk aw hst
    split
    · exact ⟨rfl, rfl, rfl, rfl⟩
    · split
      · exact ⟨rfl, rfl, rfl, by simp [isWaiting, hst]⟩
      · exact HFrame.rfl' c
    · exact HFrame.rfl' c
  · exact HFrame.rfl' c

theorem deliver_onWait (c : Cfg) (o : WF) : deliver (onWait c) o = onWait (deliver c o) := by
  cases c
  rename_i st _ _ _ _ _ _ _ _ _ _ _ _ _ _ _ _ _ _ _ _ _ _ _ _
  cases st <;> try rfl
  simp only [onWait, deliver]
  split
  · rfl
  · split <;> rfl
  · rfl

theorem resume_onWait (c : Cfg) (v : Option Val) : (resume (onWait c) v).1 = onWait (resume c v).1 := by
  cases hst : c.st with
  | waiting fn wf wk aw =>
    have e1 : (resume c v).1 = deliver c (.result v) := by simp only [resume, hst]
    have e2 : (resume (onWait c) v).1 = deliver (onWait c) (.result v) := by
      rw [onWait_waiting c fn wf wk aw hst]; simp only [resume, hst]
    rw [e1, e2, deliver_onWait]
  | _ =>
    have e : onWait c = c := by unfold onWait; rw [hst]
    have e2 : (resume c v).1 = c := by unfold resume; rw [hst]
    rw [e, e2, e]

theorem resume_hf (c : Cfg) (v : Option Val) : HFrame c (resume c v).1 := by
  unfold resume; split
  · exact deliver_hf c _
  · exact HFrame.rfl' c

theorem onWait_ready (c : Cfg) (R : List Cb) : onWait { c with ready := R } = { onWait c with ready := R } := by
  cases c
  rename_i st _ _ _ _ _ _ _ _ _ _ _ _ _ _ _ _ _ _ _ _ _ _ _ _
  cases st <;> rfl

theorem complete_st (c : Cfg) (f : Nat) (o : EFut) : (complete c f o).st = c.st := by
  unfold complete; split
  · dsimp only; split <;> rfl
  · rfl

theorem complete_onWait (c : Cfg) (f : Nat) (o : EFut) : complete (onWait c) f o = onWait (complete c f o) := by
  cases hst : c.st with
  | waiting fn wf wk aw =>
    rw [onWait_waiting c fn wf wk aw hst, onWait_waiting (complete c f o) fn wf wk aw (by rw [complete_st]; exact hst)]
    unfold complete
    dsimp only
    split
    · split <;> rfl
    · rfl
  | _ =>
    have e : onWait c = c := by unfold onWait; rw [hst]
    have e2 : onWait (complete c f o) = complete c f o := by unfold onWait; rw [complete_st, hst]
    rw [e, e2]

theorem complete_hf (c : Cfg) (f : Nat) (o : EFut) : HFrame c (complete c f o) := by
  unfold complete; split
  · dsimp only; split <;> exact ⟨rfl, rfl, rfl, rfl⟩
  · exact HFrame.rfl' c

theorem onOld_onWait (c : Cfg) (f : Nat) : onOld (onWait c) f = onWait (onOld c f) := by
  cases c
  rename_i st _ _ _ _ _ _ _ _ _ _ _ _ _ _ _ _ _ _ _ _ _ _ _ _
  cases st <;> (simp only [onWait, onOld]; split <;> rfl)

theorem awaitableDone_onWait (c : Cfg) (f : Nat) : awaitableDone (onWait c) f = onWait (awaitableDone c f) := by
  cases hst : c.st with
  | waiting fn wf wk aw =>
    have hst' : (onWait c).st = .waiting fn wf wk aw := by rw [onWait_waiting c fn wf wk aw hst]; exact hst
    have hefs : (onWait c).efs = c.efs := by rw [onWait_waiting c fn wf wk aw hst]
    cases hf : aw.find? (·.1 = f) with
    | none =>
      rw [aD_waiting_none c f fn wf wk aw hst hf, aD_waiting_none (onWait c) f fn wf wk aw hst' hf]
      exact onOld_onWait c f
    | some xk =>
      obtain ⟨x, key⟩ := xk
      cases he : c.efs[f]? with
      | none =>
        rw [aD_some_other c f fn wf wk aw x key hst hf (by rw [he]; intro v hv; cases hv) (by rw [he]; intro v hv; cases hv),
          aD_some_other (onWait c) f fn wf wk aw x key hst' hf (by rw [hefs, he]; intro v hv; cases hv)
            (by rw [hefs, he]; intro v hv; cases hv)]
        rw [onWait_waiting c fn wf wk aw hst, onWait_waiting _ fn wf wk _ rfl]
      | some o =>
        cases o with
        | pending =>
          rw [aD_some_other c f fn wf wk aw x key hst hf (by rw [he]; intro v hv; cases hv) (by rw [he]; intro v hv; cases hv),
            aD_some_other (onWait c) f fn wf wk aw x key hst' hf (by rw [hefs, he]; intro v hv; cases hv)
              (by rw [hefs, he]; intro v hv; cases hv)]
          rw [onWait_waiting c fn wf wk aw hst, onWait_waiting _ fn wf wk _ rfl]
        | result v =>
          rw [aD_some_result c f fn wf wk aw x key v hst hf he,
            aD_some_result (onWait c) f fn wf wk aw x key v hst' hf (by rw [hefs, he])]
          split
          · rw [← deliver_onWait]
            rw [onWait_waiting c fn wf wk aw hst, onWait_waiting _ fn wf wk _ rfl]
          · rw [onWait_waiting c fn wf wk aw hst, onWait_waiting _ fn wf wk _ rfl]
        | exc e =>
          rw [aD_some_exc c f fn wf wk aw x key e hst hf he,
            aD_some_exc (onWait c) f fn wf wk aw x key e hst' hf (by rw [hefs, he])]
          rw [← deliver_onWait]
          rw [onWait_waiting c fn wf wk aw hst, onWait_waiting _ fn wf wk _ rfl]
  | _ =>
    have e : onWait c = c := by unfold onWait; rw [hst]
    have hnw : NotWaiting c.st := by intro a b c' d' h; rw [hst] at h; cases h
    have e2 : awaitableDone c f = onOld c f := aD_notWaiting c f hnw
    rw [e, e2, ← onOld_onWait, e]

theorem awaitableDone_hf (c : Cfg) (f : Nat) : HFrame c (awaitableDone c f) := by
  have onOld_hf : ∀ c : Cfg, HFrame c (match c.efKeys.find? (·.1 = f), c.efs[f]? with
      | some (_, key), some (EFut.result v) => { c with ctx := (key, v) :: c.ctx.filter (·.1 ≠ key) }
      | _, _ => c) := by
    intro c; split <;> exact ⟨rfl, rfl, rfl, rfl⟩
  unfold awaitableDone
  dsimp only
  split
  · rename_i fn wf wk aw hst
    split
    · exact onOld_hf c
    · have h0 : ∀ (X : List (Nat × Val)) (aw' : List (Nat × Nat)),
          HFrame c { c with st := .waiting fn wf wk aw', ctx := X } := by
        intro X aw'; exact ⟨rfl, rfl, rfl, by simp [isWaiting, hst]⟩
      have h1 : ∀ (aw' : List (Nat × Nat)), HFrame c { c with st := .waiting fn wf wk aw' } := by
        intro aw'; exact ⟨rfl, rfl, rfl, by simp [isWaiting, hst]⟩
      split
      · split
        · exact HFrame.trans (h0 _ _) (deliver_hf _ _)
        · exact h0 _ _
      · exact HFrame.trans (h1 _) (deliver_hf _ _)
      · exact h1 _
  · exact onOld_hf c
