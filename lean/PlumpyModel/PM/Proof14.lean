import PlumpyModel.PM.Proof12
/-!
# C05 — transparency, second part: wake-ups that arrive while the process is held by a pause on a wait

`Proof12` relates the run with pauses `c` and the reference run `d` by `Sim` and admits wake-up requests at quiet positions
only.  Here the relation is extended by the phase `LagW`: `c` is suspended on a pause future at a step boundary, its state is
WAITING, and the reference run is suspended *on that wait*.  Seen through the view `onWait` (the held stepping task put on the
wait) this is the phase `InStep` again, and every wake-up request commutes with the view, so the lemmas of `Proof12` apply.
-/
namespace PMF

def isWaiting : SObj → Bool
  | .waiting .. => true
  | _ => false

/-- view of a configuration held at a step boundary in WAITING: as if its stepping task were suspended on the wait -/
def onWait (c : Cfg) : Cfg :=
  match c.st with
  | .waiting _ wf _ _ => { c with pc := .awaitWaiting wf, stepping := true, paused := none }
  | _ => c

theorem onWait_waiting (c : Cfg) (fn wf wk aw) (h : c.st = .waiting fn wf wk aw) :
    onWait c = { c with pc := .awaitWaiting wf, stepping := true, paused := none } := by
  unfold onWait; rw [h]

/-- what the wake-up requests leave alone -/
def HFrame (c c' : Cfg) : Prop :=
  c'.pc = c.pc ∧ c'.stepping = c.stepping ∧ c'.interrupt = c.interrupt ∧ isWaiting c'.st = isWaiting c.st
theorem HFrame.rfl' (c : Cfg) : HFrame c c := ⟨rfl, rfl, rfl, rfl⟩
theorem HFrame.trans {a b c : Cfg} (h1 : HFrame a b) (h2 : HFrame b c) : HFrame a c :=
  ⟨h2.1.trans h1.1, h2.2.1.trans h1.2.1, h2.2.2.1.trans h1.2.2.1, h2.2.2.2.trans h1.2.2.2⟩

theorem deliver_hf (c : Cfg) (o : WF) : HFrame c (deliver c o) := by
  unfold deliver
  split
  · rename_i fn wf wk aw hst
    split
    · exact ⟨rfl, rfl, rfl, rfl⟩
    · split
      · exact ⟨rfl, rfl, rfl, by simp [isWaiting, hst]⟩
      · exact HFrame.rfl' c
    · exact HFrame.rfl' c
  · exact HFrame.rfl' c

theorem deliver_onWait (c : Cfg) (o : WF) : deliver (onWait c) o = onWait (deliver c o) := by
  cases c
  rename_i st _ _ _ _ _ _ _ _ _ _ _ _ _ _ _ _ _ _ _ _ _ _ _ _
  cases st <;> try rfl
  simp only [onWait, deliver]
  split
  · rfl
  · split <;> rfl
  · rfl

theorem resume_onWait (c : Cfg) (v : Option Val) : (resume (onWait c) v).1 = onWait (resume c v).1 := by
  cases hst : c.st with
  | waiting fn wf wk aw =>
    have e1 : (resume c v).1 = deliver c (.result v) := by simp only [resume, hst]
    have e2 : (resume (onWait c) v).1 = deliver (onWait c) (.result v) := by
      rw [onWait_waiting c fn wf wk aw hst]; simp only [resume, hst]
    rw [e1, e2, deliver_onWait]
  | _ =>
    have e : onWait c = c := by unfold onWait; rw [hst]
    have e2 : (resume c v).1 = c := by unfold resume; rw [hst]
    rw [e, e2, e]

theorem resume_hf (c : Cfg) (v : Option Val) : HFrame c (resume c v).1 := by
  unfold resume; split
  · exact deliver_hf c _
  · exact HFrame.rfl' c

def setReady (c : Cfg) (R : List Cb) : Cfg := { c with ready := R }
theorem onWait_ready (c : Cfg) (R : List Cb) : onWait (setReady c R) = setReady (onWait c) R := by
  cases c
  rename_i st _ _ _ _ _ _ _ _ _ _ _ _ _ _ _ _ _ _ _ _ _ _ _ _
  cases st <;> rfl

theorem complete_st (c : Cfg) (f : Nat) (o : EFut) : (complete c f o).st = c.st := by
  unfold complete; split
  · dsimp only; split <;> rfl
  · rfl

theorem complete_onWait (c : Cfg) (f : Nat) (o : EFut) : complete (onWait c) f o = onWait (complete c f o) := by
  cases hst : c.st with
  | waiting fn wf wk aw =>
    rw [onWait_waiting c fn wf wk aw hst, onWait_waiting (complete c f o) fn wf wk aw (by rw [complete_st]; exact hst)]
    unfold complete
    dsimp only
    split
    · split <;> rfl
    · rfl
  | _ =>
    have e : onWait c = c := by unfold onWait; rw [hst]
    have e2 : onWait (complete c f o) = complete c f o := by unfold onWait; rw [complete_st, hst]
    rw [e, e2]

theorem complete_hf (c : Cfg) (f : Nat) (o : EFut) : HFrame c (complete c f o) := by
  unfold complete; split
  · dsimp only; split <;> exact ⟨rfl, rfl, rfl, rfl⟩
  · exact HFrame.rfl' c

theorem onOld_onWait (c : Cfg) (f : Nat) : onOld (onWait c) f = onWait (onOld c f) := by
  cases c
  rename_i st _ _ _ _ _ _ _ _ _ _ _ _ _ _ _ _ _ _ _ _ _ _ _ _
  cases st <;> (simp only [onWait, onOld]; split <;> rfl)

theorem awaitableDone_onWait (c : Cfg) (f : Nat) : awaitableDone (onWait c) f = onWait (awaitableDone c f) := by
  cases hst : c.st with
  | waiting fn wf wk aw =>
    have hst' : (onWait c).st = .waiting fn wf wk aw := by rw [onWait_waiting c fn wf wk aw hst]; exact hst
    have hefs : (onWait c).efs = c.efs := by rw [onWait_waiting c fn wf wk aw hst]
    cases hf : aw.find? (·.1 = f) with
    | none =>
      rw [aD_waiting_none c f fn wf wk aw hst hf, aD_waiting_none (onWait c) f fn wf wk aw hst' hf]
      exact onOld_onWait c f
    | some xk =>
      obtain ⟨x, key⟩ := xk
      cases he : c.efs[f]? with
      | none =>
        rw [aD_some_other c f fn wf wk aw x key hst hf (by rw [he]; intro v hv; cases hv) (by rw [he]; intro v hv; cases hv),
          aD_some_other (onWait c) f fn wf wk aw x key hst' hf (by rw [hefs, he]; intro v hv; cases hv)
            (by rw [hefs, he]; intro v hv; cases hv)]
        rw [onWait_waiting c fn wf wk aw hst, onWait_waiting _ fn wf wk _ rfl]
      | some o =>
        cases o with
        | pending =>
          rw [aD_some_other c f fn wf wk aw x key hst hf (by rw [he]; intro v hv; cases hv) (by rw [he]; intro v hv; cases hv),
            aD_some_other (onWait c) f fn wf wk aw x key hst' hf (by rw [hefs, he]; intro v hv; cases hv)
              (by rw [hefs, he]; intro v hv; cases hv)]
          rw [onWait_waiting c fn wf wk aw hst, onWait_waiting _ fn wf wk _ rfl]
        | result v =>
          rw [aD_some_result c f fn wf wk aw x key v hst hf he,
            aD_some_result (onWait c) f fn wf wk aw x key v hst' hf (by rw [hefs, he])]
          split
          · rw [← deliver_onWait]
            rw [onWait_waiting c fn wf wk aw hst, onWait_waiting _ fn wf wk _ rfl]
          · rw [onWait_waiting c fn wf wk aw hst, onWait_waiting _ fn wf wk _ rfl]
        | exc e =>
          rw [aD_some_exc c f fn wf wk aw x key e hst hf he,
            aD_some_exc (onWait c) f fn wf wk aw x key e hst' hf (by rw [hefs, he])]
          rw [← deliver_onWait]
          rw [onWait_waiting c fn wf wk aw hst, onWait_waiting _ fn wf wk _ rfl]
  | _ =>
    have e : onWait c = c := by unfold onWait; rw [hst]
    have hnw : NotWaiting c.st := by intro a b c' d' h; rw [hst] at h; cases h
    have e2 : awaitableDone c f = onOld c f := aD_notWaiting c f hnw
    rw [e, e2, ← onOld_onWait, e]

theorem awaitableDone_hf (c : Cfg) (f : Nat) : HFrame c (awaitableDone c f) := by
  have onOld_hf : ∀ c : Cfg, HFrame c (match c.efKeys.find? (·.1 = f), c.efs[f]? with
      | some (_, key), some (EFut.result v) => { c with ctx := (key, v) :: c.ctx.filter (·.1 ≠ key) }
      | _, _ => c) := by
    intro c; split <;> exact ⟨rfl, rfl, rfl, rfl⟩
  unfold awaitableDone
  dsimp only
  split
  · rename_i fn wf wk aw hst
    split
    · exact onOld_hf c
    · have h0 : ∀ (X : List (Nat × Val)) (aw' : List (Nat × Nat)),
          HFrame c { c with st := .waiting fn wf wk aw', ctx := X } := by
        intro X aw'; exact ⟨rfl, rfl, rfl, by simp [isWaiting, hst]⟩
      have h1 : ∀ (aw' : List (Nat × Nat)), HFrame c { c with st := .waiting fn wf wk aw' } := by
        intro aw'; exact ⟨rfl, rfl, rfl, by simp [isWaiting, hst]⟩
      split
      · split
        · exact HFrame.trans (h0 _ _) (deliver_hf _ _)
        · exact h0 _ _
      · exact HFrame.trans (h1 _) (deliver_hf _ _)
      · exact h1 _
  · exact onOld_hf c

theorem onWait_readyEq (c : Cfg) : (onWait c).ready = c.ready := by
  cases hst : c.st with
  | waiting fn wf wk aw => rw [onWait_waiting c fn wf wk aw hst]
  | _ => unfold onWait; rw [hst]

theorem tickCb_adone_eq (c : Cfg) (f : Nat) : tickCb c (.adone f) =
    if c.ready.contains (.adone f) then awaitableDone (setReady c (c.ready.erase (.adone f))) f else c := rfl
theorem tickCb_usercb_eq (c : Cfg) : tickCb c (.usercb false) =
    if c.ready.contains (.usercb false) then setReady c (c.ready.erase (.usercb false)) else c := by
  unfold tickCb; split
  · simp only [Bool.false_eq_true, if_false]; rfl
  · rfl

theorem tickCb_adone_onWait (c : Cfg) (f : Nat) : tickCb (onWait c) (.adone f) = onWait (tickCb c (.adone f)) := by
  rw [tickCb_adone_eq, tickCb_adone_eq, onWait_readyEq]
  split
  · rw [← awaitableDone_onWait, onWait_ready]
  · rfl

theorem tickCb_adone_hf (c : Cfg) (f : Nat) : HFrame c (tickCb c (.adone f)) := by
  unfold tickCb; split
  · exact HFrame.trans (show HFrame c { c with ready := c.ready.erase (.adone f) } from ⟨rfl, rfl, rfl, rfl⟩)
      (awaitableDone_hf _ f)
  · exact HFrame.rfl' c

theorem tickCb_usercb_onWait (c : Cfg) : tickCb (onWait c) (.usercb false) = onWait (tickCb c (.usercb false)) := by
  rw [tickCb_usercb_eq, tickCb_usercb_eq, onWait_readyEq]
  split
  · rw [onWait_ready]
  · rfl

theorem tickCb_usercb_hf (c : Cfg) : HFrame c (tickCb c (.usercb false)) := by
  unfold tickCb; split
  · exact ⟨rfl, rfl, rfl, rfl⟩
  · exact HFrame.rfl' c

/-! ### the phase `LagW` -/

/-- the run with pauses is suspended on a pause future at a step boundary in WAITING, and the reference run is suspended on
that wait: through the view `onWait` both are at the same point -/
structure LagW (c d : Cfg) : Prop where
  pc : isAwaitPaused c.pc = true
  wait : isWaiting c.st = true
  stepping : c.stepping = false
  int : c.interrupt = none
  view : InStep (onWait c) d

theorem LagW.hframe {c c' d d' : Cfg} (h : LagW c d) (f : HFrame c c') (hv : InStep (onWait c') d') : LagW c' d' :=
  ⟨by rw [f.1]; exact h.pc, by rw [f.2.2.2]; exact h.wait, by rw [f.2.1]; exact h.stepping, by rw [f.2.2.1]; exact h.int, hv⟩

theorem resume_lagW (c d : Cfg) (v : Option Val) (h : LagW c d) : LagW (resume c v).1 (resume d v).1 :=
  h.hframe (resume_hf c v) (by rw [← resume_onWait]; exact resume_inStep _ _ v h.view)
theorem complete_lagW (c d : Cfg) (f : Nat) (o : EFut) (h : LagW c d) : LagW (complete c f o) (complete d f o) :=
  h.hframe (complete_hf c f o) (by rw [← complete_onWait]; exact complete_inStep _ _ f o h.view)
theorem tickCb_adone_lagW (c d : Cfg) (f : Nat) (h : LagW c d) : LagW (tickCb c (.adone f)) (tickCb d (.adone f)) :=
  h.hframe (tickCb_adone_hf c f) (by rw [← tickCb_adone_onWait]; exact tickCb_adone_inStep _ _ f h.view)
theorem tickCb_usercb_lagW (c d : Cfg) (h : LagW c d) : LagW (tickCb c (.usercb false)) (tickCb d (.usercb false)) :=
  h.hframe (tickCb_usercb_hf c) (by rw [← tickCb_usercb_onWait]; exact tickCb_usercb_inStep _ _ h.view)
theorem callSoon_lagW (c d : Cfg) (r : Bool) (h : LagW c d) :
    LagW { c with ready := c.ready ++ [.usercb r] } { d with ready := d.ready ++ [.usercb r] } := by
  refine h.hframe ⟨rfl, rfl, rfl, rfl⟩ ?_
  have e : onWait { c with ready := c.ready ++ [.usercb r] } = setReady (onWait c) ((onWait c).ready ++ [.usercb r]) := by
    rw [onWait_readyEq]; exact onWait_ready c _
  rw [e]
  exact callSoon_inStep _ _ r h.view

/-! ### pause and play while held on a wait -/

theorem onWait_interrupt (c : Cfg) : (onWait c).interrupt = c.interrupt := by
  cases hst : c.st with
  | waiting fn wf wk aw => rw [onWait_waiting c fn wf wk aw hst]
  | _ => unfold onWait; rw [hst]

theorem onWait_paused (c : Cfg) (h : isWaiting c.st = true) : (onWait c).paused = none := by
  cases hst : c.st with
  | waiting fn wf wk aw => rw [onWait_waiting c fn wf wk aw hst]
  | _ => rw [hst] at h; cases h

theorem onWait_setPc (c : Cfg) (p : Pc) (h : isWaiting c.st = true) : onWait { c with pc := p } = onWait c := by
  cases c
  rename_i st _ _ _ _ _ _ _ _ _ _ _ _ _ _ _ _ _ _ _ _ _ _ _ _
  cases st <;> first | rfl | (simp [isWaiting] at h)

theorem onWait_pframe {c c' : Cfg} (f : PFrame c c') : PFrame (onWait c) (onWait c') := by
  obtain ⟨g1, g2, g3, g4, g5, g6, g7, g8, g9, g10, g11, g12, g13, g14, g15⟩ := sh_fields f.1
  cases hst : c.st with
  | waiting fn wf wk aw =>
    have hst' : c'.st = .waiting fn wf wk aw := by rw [f.2.1]; exact hst
    rw [onWait_waiting c fn wf wk aw hst, onWait_waiting c' fn wf wk aw hst']
    refine ⟨?_, f.2.1, f.2.2.1, rfl⟩
    rw [sh_eq_iff]; simp [*]
  | _ =>
    have e : onWait c = c := by unfold onWait; rw [hst]
    have e' : onWait c' = c' := by unfold onWait; rw [f.2.1, hst]
    rw [e, e']; exact f

theorem LagW.pframe {c c' d : Cfg} (h : LagW c d) (f : PFrame c c') (hi : c'.interrupt = none) : LagW c' d := by
  have hw : isWaiting c'.st = true := by rw [f.2.1]; exact h.wait
  refine ⟨by rw [f.2.2.2]; exact h.pc, hw, by rw [(sh_fields f.1).1]; exact h.stepping, hi, ?_⟩
  exact h.view.frame (onWait_pframe f) (IntOk.of_none (by rw [onWait_interrupt]; exact hi))
    (fun _ => by rw [onWait_interrupt]; exact hi) (fun _ => onWait_paused c' hw)

theorem onWait_killing (c : Cfg) : (onWait c).killing = c.killing := by
  cases hst : c.st with
  | waiting fn wf wk aw => rw [onWait_waiting c fn wf wk aw hst]
  | _ => unfold onWait; rw [hst]

theorem pause_lagW (c d : Cfg) (h : LagW c d) : LagW (pause c).1 d := by
  have hk : c.killing = none := by rw [← onWait_killing]; exact h.view.core.ckill
  rcases pause_shape c hk with b | ⟨_, he⟩ | ⟨hs, _, _⟩
  · exact h.pframe b.1 (by rw [b.2.1]; exact h.int)
  · rw [he]; exact h.pframe (doPauseHooks_pf c) h.int
  · rw [h.stepping] at hs; cases hs

theorem play_lagW (c d : Cfg) (h : LagW c d) : LagW (play c).1 d := by
  obtain ⟨f, hi, _, _⟩ := play_shape c
  exact h.pframe f (by rw [hi]; exact h.int)

/-! ### from `Lag` to `LagW`: the reference run that ran ahead of a pending wait is suspended on it -/

theorem inStep_onWait_intro (c d0 : Cfg) (hm : Mid c d0) (fn wf wf' : Nat) (wk aw)
    (hst : c.st = .waiting fn wf wk aw) (hst' : d0.st = .waiting fn wf' none aw) :
    InStep (onWait c) { d0 with stepping := true, pc := .awaitWaiting wf' } := by
  rw [onWait_waiting c fn wf wk aw hst]
  refine ⟨⟨?_, hm.core.st, hm.core.ckill, hm.core.dint, hm.core.dpaused⟩, IntOk.of_none hm.int,
    ⟨fn, wk, aw, wf', hst, hst', rfl⟩, fun _ => ⟨rfl, rfl⟩, fun h => by simp [isRunningPc] at h⟩
  obtain ⟨g1, g2, g3, g4, g5, g6, g7, g8, g9, g10, g11, g12, g13, g14, g15⟩ := sh_fields hm.core.sh
  rw [sh_eq_iff]; simp [*]

theorem lag_to_lagW (P : Prog) (c d : Cfg) (h : Lag P c d) (hI : Inv c) (fn wf : Nat) (wk aw)
    (hst : c.st = .waiting fn wf wk aw) (hw : c.wfs[wf]? = some .pending) : LagW c d := by
  obtain ⟨hap, d0, n, hn, hD, hd, hm⟩ := h
  obtain ⟨n', rfl⟩ : ∃ n', n = n' + 1 := by
    cases n with
    | zero => simp [loopDone] at hD
    | succ n' => exact ⟨n', rfl⟩
  obtain ⟨wf', w, hwk, hst', hcw, hdw, hni⟩ := hm.core.st.waiting_inv hst
  rw [hw] at hcw; cases hcw
  have hlc : terminal c.st.label = false := by rw [hst]; simp [SObj.label, terminal, allowed]
  have hld : terminal d0.st.label = false := by rw [hst']; simp [SObj.label, terminal, allowed]
  have hcl : d0.closed = false := by
    rw [← (sh_fields hm.core.sh).2.2.2.1]; exact not_closed_of_live hI hlc
  have hd' : d = { d0 with stepping := true, pc := .awaitWaiting wf' } := by
    rw [hd, loopHead_go P n' d0 hm.ncd hld hcl (not_held_of_none hm.core.dpaused),
      stepBodyK_waiting_pending P _ d0 fn wf' none aw hst' hdw]
  rw [hd']
  exact ⟨hap, by rw [hst]; rfl, hm.stepping, hm.int, inStep_onWait_intro c d0 hm fn wf wf' wk aw hst hst'⟩

/-! ### a tick while held on a wait -/

/-- the tick wakes the stepping task from a released pause future and starts the next step -/
def runsBody (c : Cfg) : Bool :=
  match c.pc with
  | .awaitPaused pf =>
      c.pfs[pf]? == some true &&
        (match c.paused with
         | some pf' => !(c.pfs[pf']? == some false)
         | none => true)
  | _ => false

theorem tickStepper_runsBody (P : Prog) (c : Cfg) (h : runsBody c = true) : tickStepper P c = stepBody P fuel0 c := by
  unfold runsBody at h
  unfold tickStepper
  split at h
  · rename_i pf hpc
    rw [hpc]
    simp only [Bool.and_eq_true, beq_iff_eq] at h
    dsimp only
    rw [if_pos h.1]
    split
    · rename_i pf' hpa
      rw [hpa] at h
      have h2 := h.2
      simp only [Bool.not_eq_true', beq_eq_false_iff_ne, ne_eq] at h2
      rw [if_neg h2]
    · rfl
  · cases h

theorem tickStepper_not_runsBody (P : Prog) (c : Cfg) (hap : isAwaitPaused c.pc = true) (h : runsBody c = false) :
    tickStepper P c = c ∨ ∃ pf', tickStepper P c = { c with pc := .awaitPaused pf' } := by
  unfold runsBody at h
  unfold tickStepper
  split at h
  · rename_i pf hpc
    rw [hpc]
    dsimp only
    by_cases h1 : c.pfs[pf]? = some true
    · rw [if_pos h1]
      simp only [h1, beq_self_eq_true, Bool.true_and] at h
      split
      · rename_i pf' hpa
        rw [hpa] at h
        simp only [Bool.not_eq_false', beq_iff_eq] at h
        rw [if_pos h]
        exact Or.inr ⟨pf', rfl⟩
      · rename_i hpa
        rw [hpa] at h; cases h
    · rw [if_neg h1]; exact Or.inl rfl
  · rename_i hne
    cases hpc : c.pc with
    | awaitPaused pf => exact absurd hpc (hne pf)
    | _ => rw [hpc] at hap; cases hap

theorem runsBody_paused (c : Cfg) (hinv : InvP c) (hl : terminal c.st.label = false) (h : runsBody c = true) :
    c.paused = none := by
  cases hp : c.paused with
  | none => rfl
  | some pf' =>
    have := hinv.pausedPending hl pf' hp
    unfold runsBody at h
    split at h
    · rw [hp] at h
      simp [this] at h
    · cases h

theorem onWait_eq_of_paused_none (c : Cfg) (fn wf : Nat) (wk aw) (hst : c.st = .waiting fn wf wk aw)
    (hp : c.paused = none) : onWait c = { c with stepping := true, pc := .awaitWaiting wf } := by
  rw [onWait_waiting c fn wf wk aw hst]
  cases c
  simp only at hp
  subst hp
  rfl

/-- a tick while held on a wait: nothing or re-suspension on a newer pause future (the reference run does not tick), or —
released — the wait is resumed by both runs -/
theorem tick_lagW (P : Prog) (c d : Cfg) (h : LagW c d) (hinv : InvP c) :
    (runsBody c = false → LagW (tickStepper P c) d) ∧
    (runsBody c = true → tickDone P d = true → SL P (tickStepper P c) (tickStepper P d)) := by
  constructor
  · intro hr
    rcases tickStepper_not_runsBody P c h.pc hr with e | ⟨pf', e⟩
    · rw [e]; exact h
    · rw [e]
      exact ⟨rfl, h.wait, h.stepping, h.int, by rw [onWait_setPc c _ h.wait]; exact h.view⟩
  · intro hr hD
    rw [tickStepper_runsBody P c hr]
    cases hst : c.st with
    | waiting fn wf wk aw =>
      have hl : terminal c.st.label = false := by rw [hst]; simp [SObj.label, terminal, allowed]
      have hp := runsBody_paused c hinv hl hr
      have hv := h.view
      have hstv : (onWait c).st = .waiting fn wf wk aw := by rw [onWait_waiting c fn wf wk aw hst]; exact hst
      have hwfs : (onWait c).wfs = c.wfs := by rw [onWait_waiting c fn wf wk aw hst]
      obtain ⟨wf', w, hwk, hst', hcw, hdw, hni⟩ := hv.core.st.waiting_inv hstv
      rw [hwfs] at hcw
      have hpcv : (onWait c).pc = .awaitWaiting wf := by rw [onWait_waiting c fn wf wk aw hst]
      have hpd : d.pc = .awaitWaiting wf' := by
        have := hv.pc
        rw [hpcv] at this
        obtain ⟨fn0, wk0, aw0, wf0, _, h2, h3⟩ := this
        rw [hst'] at h2; cases h2; exact h3
      have hpcc : ∃ pf, c.pc = .awaitPaused pf := by
        cases hpc : c.pc with
        | awaitPaused pf => exact ⟨pf, rfl⟩
        | _ => have := h.pc; rw [hpc] at this; cases this
      obtain ⟨pf, hpc⟩ := hpcc
      unfold stepBody
      by_cases hwp : w = .pending
      · subst hwp
        rw [stepBodyK_waiting_pending P _ c fn wf wk aw hst hcw, tickStepper_wait_pending P d wf' hpd hdw,
          ← onWait_eq_of_paused_none c fn wf wk aw hst hp]
        exact Or.inl hv
      · rw [stepBodyK_waiting_done P _ c fn wf wk aw w hst hcw hwp,
          tickStepper_wait_done P d fn wf' none aw w hpd hst' hdw hwp]
        rw [tickDone_wait_done P d fn wf' none aw w hpd hst' hdw hwp] at hD
        have hcore : Core { c with stepping := true } d := by
          have := hv.core
          rw [onWait_waiting c fn wf wk aw hst] at this
          exact ⟨this.sh, this.st, this.ckill, this.dint, this.dpaused⟩
        have he := wake_core { c with stepping := true } d fn wf wf' w hcore (IntOk.of_none h.int) hni hwp
        exact loopHead_sim P fuel0 fuel0 _ _ (Nat.le_refl _) (Nat.le_refl _)
          (mid_of_end he (by intro e he; rw [show ({ c with stepping := true } : Cfg).pc = c.pc from rfl, hpc] at he; cases he)
            (by intro e he; rw [hpd] at he; cases he))
          (wake_invP _ _ _ _ (hinv.same ⟨rfl, rfl, rfl, rfl⟩)) hD
    | _ => have := h.wait; rw [hst] at this; cases this

/-! ### histories -/

/-- the wake-up requests of the partial theorems -/
def isWake : Ev → Bool
  | .resume _ | .complete _ _ | .tickCb (.adone _) | .callSoon _ | .tickCb (.usercb false) => true
  | _ => false

/-- the current state is WAITING on a future that has no outcome yet -/
def pendingWait (c : Cfg) : Bool :=
  match c.st with
  | .waiting _ wf _ _ => c.wfs[wf]? == some .pending
  | _ => false

/-- the stepping task is suspended on a pause future (the process is held by a pause, or released and not yet woken) -/
def heldPc (c : Cfg) : Bool := isAwaitPaused c.pc

/-- a position at which the second partial theorem admits a wake-up request: a quiet one, or one at which the process is held
by a pause *on a wait* — `g` (computed along the history by `nextG`) says that an earlier wake-up already arrived during this
hold, otherwise the wait must still be pending -/
def wakeOk (g : Bool) (c : Cfg) : Bool := quiet c || (heldPc c && (g || pendingWait c))

def evAllowed2 (g : Bool) (c : Cfg) (e : Ev) : Bool :=
  match e with
  | .tick | .pause | .play => true
  | e => isWake e && wakeOk g c

/-- the flag "held on a wait, and the reference run is suspended on that wait" after one event -/
def nextG (g : Bool) (c : Cfg) (e : Ev) : Bool :=
  match e with
  | .tick => heldPc c && !runsBody c && g
  | .pause | .play => g
  | _ => if heldPc c then true else g

def admissible2 (P : Prog) : Bool → Cfg → List Ev → Bool
  | _, _, [] => true
  | g, c, e :: es => evAllowed2 g c e && admissible2 P (nextG g c e) (step P c e).1 es

/-- image of one event in the reference history: as `evImage`, but the tick that wakes the stepping task from a hold during
which wake-ups arrived is kept (the reference run resumes its wait at that tick, too) -/
def evImage2 (g : Bool) (c : Cfg) : Ev → List Ev
  | .pause => []
  | .play => []
  | .tick => if heldPc c then (if g && runsBody c then [.tick] else []) else [.tick]
  | e => [e]

def unpaused2 (P : Prog) : Bool → Cfg → List Ev → List Ev
  | _, _, [] => []
  | g, c, e :: es => evImage2 g c e ++ unpaused2 P (nextG g c e) (step P c e).1 es

/-- the extended simulation relation: `LagW` when the flag is set, `Sim` otherwise -/
def Sim2 (P : Prog) (g : Bool) (c d : Cfg) : Prop :=
  (g = true ∧ LagW c d) ∨ ((g = false ∨ heldPc c = false) ∧ Sim P c d)

theorem Sim.held {P : Prog} {c d : Cfg} (h : Sim P c d) (hp : heldPc c = true) : Lag P c d := by
  rcases h with h | h | h
  · have := h.pc
    cases hpc : c.pc with
    | awaitPaused pf => rw [hpc] at this; exact absurd this (by simp [PcRelAt])
    | _ => simp [heldPc, hpc, isAwaitPaused] at hp
  · obtain ⟨fn, wf, aw, wf', k, _, _, _, _, hpc, _⟩ := h.wait
    simp [heldPc, hpc, isAwaitPaused] at hp
  · exact h

theorem Sim.ckill {P : Prog} {c d : Cfg} (h : Sim P c d) : c.killing = none := by
  rcases h with h | h | h
  · exact h.core.ckill
  · exact h.ckill
  · exact h.2.choose_spec.choose_spec.2.2.2.core.ckill

theorem pause_pc (c : Cfg) (hk : c.killing = none) : (pause c).1.pc = c.pc := by
  rcases pause_shape c hk with b | ⟨_, he⟩ | ⟨_, _, b⟩
  · exact b.1.2.2.2
  · rw [he]; rfl
  · rw [b.1.2.2.2]; exact (requestInterrupt_props c).2.2.1

theorem wake_pc (P : Prog) (c : Cfg) (e : Ev) (h : isWake e = true) : (step P c e).1.pc = c.pc := by
  cases e with
  | resume v => exact (resume_hf c v).1
  | complete f o => exact (complete_hf c f o).1
  | callSoon r => rfl
  | tickCb cb =>
    cases cb with
    | adone f => exact (tickCb_adone_hf c f).1
    | trykill => cases h
    | usercb r =>
      cases r with
      | false => exact (tickCb_usercb_hf c).1
      | true => cases h
  | _ => cases h

theorem wake_lagW (P : Prog) (c d : Cfg) (e : Ev) (h : isWake e = true) (hl : LagW c d) :
    LagW (step P c e).1 (step P d e).1 := by
  cases e with
  | resume v => exact resume_lagW c d v hl
  | complete f o => exact complete_lagW c d f o hl
  | callSoon r => exact callSoon_lagW c d r hl
  | tickCb cb =>
    cases cb with
    | adone f => exact tickCb_adone_lagW c d f hl
    | trykill => cases h
    | usercb r =>
      cases r with
      | false => exact tickCb_usercb_lagW c d hl
      | true => cases h
  | _ => cases h

theorem wake_evAllowed (c : Cfg) (e : Ev) (h : isWake e = true) (hq : quiet c = true) : evAllowed c e = true := by
  cases e with
  | resume v => exact hq
  | complete f o => exact hq
  | callSoon r => exact hq
  | tickCb cb =>
    cases cb with
    | adone f => exact hq
    | trykill => cases h
    | usercb r =>
      cases r with
      | false => exact hq
      | true => cases h
  | _ => cases h

theorem wake_evImage (c : Cfg) (e : Ev) (h : isWake e = true) (g : Bool) : evImage2 g c e = [e] ∧ evImage c e = [e] := by
  cases e <;> first | exact ⟨rfl, rfl⟩ | cases h

theorem wake_nextG (c : Cfg) (e : Ev) (h : isWake e = true) (g : Bool) : nextG g c e = if heldPc c then true else g := by
  cases e <;> first | rfl | cases h

theorem pendingWait_spec (c : Cfg) (h : pendingWait c = true) :
    ∃ fn wf wk aw, c.st = .waiting fn wf wk aw ∧ c.wfs[wf]? = some .pending := by
  unfold pendingWait at h
  split at h
  · rename_i fn wf wk aw hst
    exact ⟨fn, wf, wk, aw, hst, by simpa using h⟩
  · cases h

theorem quiet_not_held (c : Cfg) (h : heldPc c = true) : quiet c = false := by
  simp only [heldPc] at h
  simp [quiet, h]

theorem evAllowed2_wake (g : Bool) (c : Cfg) (e : Ev) (ha : evAllowed2 g c e = true)
    (h1 : e ≠ .tick) (h2 : e ≠ .pause) (h3 : e ≠ .play) : isWake e = true ∧ wakeOk g c = true := by
  cases e with
  | tick => exact absurd rfl h1
  | pause => exact absurd rfl h2
  | play => exact absurd rfl h3
  | _ => simpa [evAllowed2] using ha

/-- one wake-up request and its image -/
theorem wake_sim2 (P : Prog) (g : Bool) (c d : Cfg) (e : Ev) (h : Sim2 P g c d) (hinv : InvP c) (hI : Inv c)
    (hw : isWake e = true) (hok : wakeOk g c = true) :
    Sim2 P (nextG g c e) (step P c e).1 (step P d e).1 := by
  rw [wake_nextG c e hw g]
  rcases h with ⟨hg, hl⟩ | ⟨hc, hs⟩
  · have hh : heldPc c = true := hl.pc
    rw [if_pos hh]
    exact Or.inl ⟨rfl, wake_lagW P c d e hw hl⟩
  · by_cases hh : heldPc c = true
    · rw [if_pos hh]
      have hg : g = false := by
        rcases hc with hc | hc
        · exact hc
        · rw [hh] at hc; cases hc
      subst hg
      have hlag := hs.held hh
      have hpw : pendingWait c = true := by
        simpa [wakeOk, quiet_not_held c hh, hh] using hok
      obtain ⟨fn, wf, wk, aw, hst, hwp⟩ := pendingWait_spec c hpw
      exact Or.inl ⟨rfl, wake_lagW P c d e hw (lag_to_lagW P c d hlag hI fn wf wk aw hst hwp)⟩
    · have hhf : heldPc c = false := by simpa using hh
      rw [if_neg hh]
      have hq : quiet c = true := by simpa [wakeOk, hhf] using hok
      have := step_sim P c d e hs hinv hI (wake_evAllowed c e hw hq) (by rw [(wake_evImage c e hw g).2]; simp [fuelOk]; cases e <;> first | rfl | cases hw)
      rw [(wake_evImage c e hw g).2] at this
      refine Or.inr ⟨Or.inr ?_, this⟩
      simp only [heldPc] at hhf ⊢
      rw [wake_pc P c e hw]; exact hhf

/-- one event of the history with pauses and its image in the reference history -/
theorem step_sim2 (P : Prog) (g : Bool) (c d : Cfg) (e : Ev) (h : Sim2 P g c d) (hinv : InvP c) (hI : Inv c)
    (ha : evAllowed2 g c e = true) (hf : fuelOk P d (evImage2 g c e) = true) :
    Sim2 P (nextG g c e) (step P c e).1 (run P d (evImage2 g c e)) := by
  by_cases h1 : e = .tick
  · subst h1
    rcases h with ⟨hg, hl⟩ | ⟨hc, hs⟩
    · have hh : heldPc c = true := hl.pc
      subst hg
      by_cases hr : runsBody c = true
      · have him : evImage2 true c .tick = [.tick] := by simp [evImage2, hh, hr]
        rw [him] at hf ⊢
        simp only [fuelOk, Bool.and_true] at hf
        have hng : nextG true c .tick = false := by simp [nextG, hh, hr]
        rw [hng]
        exact Or.inr ⟨Or.inl rfl, ((tick_lagW P c d hl hinv).2 hr hf).sim⟩
      · have hrf : runsBody c = false := by simpa using hr
        have him : evImage2 true c .tick = [] := by simp [evImage2, hh, hrf]
        have hng : nextG true c .tick = true := by simp [nextG, hh, hrf]
        rw [him, hng]
        exact Or.inl ⟨rfl, (tick_lagW P c d hl hinv).1 hrf⟩
    · have him : evImage2 g c .tick = evImage c .tick := by
        rcases hc with hc | hc
        · subst hc; simp [evImage2, evImage, heldPc]
        · simp only [heldPc] at hc; simp [evImage2, evImage, heldPc, hc]
      have hng : nextG g c .tick = false := by
        rcases hc with hc | hc
        · subst hc; simp [nextG]
        · simp [nextG, hc]
      rw [him] at hf ⊢
      rw [hng]
      exact Or.inr ⟨Or.inl rfl, step_sim P c d .tick hs hinv hI rfl hf⟩
  · by_cases h2 : e = .pause
    · subst h2
      show Sim2 P g (pause c).1 d
      rcases h with ⟨hg, hl⟩ | ⟨hc, hs⟩
      · exact Or.inl ⟨hg, pause_lagW c d hl⟩
      · refine Or.inr ⟨?_, pause_sim P c d hs⟩
        simp only [heldPc] at hc ⊢
        rw [pause_pc c hs.ckill]; exact hc
    · by_cases h3 : e = .play
      · subst h3
        show Sim2 P g (play c).1 d
        rcases h with ⟨hg, hl⟩ | ⟨hc, hs⟩
        · exact Or.inl ⟨hg, play_lagW c d hl⟩
        · refine Or.inr ⟨?_, play_sim P c d hs⟩
          simp only [heldPc] at hc ⊢
          rw [(play_shape c).1.2.2.2]; exact hc
      · obtain ⟨hw, hok⟩ := evAllowed2_wake g c e ha h1 h2 h3
        rw [(wake_evImage c e hw g).1]
        exact wake_sim2 P g c d e h hinv hI hw hok

/-- **simulation over whole histories (second part)** -/
theorem run_sim2 (P : Prog) : ∀ (evs : List Ev) (g : Bool) (c d : Cfg), Sim2 P g c d → InvP c → Inv c →
    admissible2 P g c evs = true → fuelOk P d (unpaused2 P g c evs) = true →
    ∃ g', Sim2 P g' (run P c evs) (run P d (unpaused2 P g c evs)) := by
  intro evs
  induction evs with
  | nil => intro g c d h _ _ _ _; exact ⟨g, h⟩
  | cons e es ih =>
    intro g c d h hinv hI ha hf
    simp only [admissible2, Bool.and_eq_true] at ha
    simp only [unpaused2, fuelOk_append, Bool.and_eq_true] at hf
    rw [show run P c (e :: es) = run P (step P c e).1 es from rfl]
    simp only [unpaused2, run_append]
    exact ih _ _ _ (step_sim2 P g c d e h hinv hI ha.1 hf.1) (step_invP P c e hinv) (step_inv P c e hI) ha.2 hf.2

theorem sim2_init (P : Prog) (nf : Nat) : Sim2 P false (init nf) (init nf) := Or.inr ⟨Or.inl rfl, sim_init P nf⟩

/-- when the run with pauses has terminated, so has the reference run, in the same state and with the same shared fields -/
theorem Sim2.of_terminal {P : Prog} {g : Bool} {c d : Cfg} (h : Sim2 P g c d) (ht : terminal c.st.label = true) :
    d.st = c.st ∧ sh d = sh c := by
  rcases h with ⟨_, hl⟩ | ⟨_, hs⟩
  · have := hl.wait
    cases hst : c.st with
    | waiting fn wf wk aw => rw [hst] at ht; simp [SObj.label, PMF.terminal, allowed] at ht
    | _ => rw [hst] at this; cases this
  · exact hs.of_terminal ht

theorem Sim2.never_ahead {P : Prog} {g : Bool} {c d : Cfg} (h : Sim2 P g c d) : TraceExt c d := by
  rcases h with ⟨_, hl⟩ | ⟨_, hs⟩
  · have h1 := (sh_fields hl.view.core.sh).2.2.2.2.2.2.2.2.2.2.2.1
    refine TraceExt.of_eq ?_
    rw [← h1]
    cases hst : c.st with
    | waiting fn wf wk aw => rw [onWait_waiting c fn wf wk aw hst]
    | _ => unfold onWait; rw [hst]
  · exact hs.never_ahead

/-! ### the reference history `unpaused2` is again an erasure -/

theorem evImage2_mem (g : Bool) (c : Cfg) (x e : Ev) (h : e ∈ evImage2 g c x) : e ≠ .pause ∧ e ≠ .play := by
  cases x with
  | pause => simp [evImage2] at h
  | play => simp [evImage2] at h
  | tick =>
    simp only [evImage2] at h
    split at h
    · split at h
      · simp at h; subst h; exact ⟨(by intro h; cases h), (by intro h; cases h)⟩
      · cases h
    · simp at h; subst h; exact ⟨(by intro h; cases h), (by intro h; cases h)⟩
  | _ => simp [evImage2] at h; subst h; exact ⟨(by intro h; cases h), (by intro h; cases h)⟩

theorem unpaused2_no_pp (P : Prog) : ∀ (evs : List Ev) (g : Bool) (c : Cfg), ∀ e ∈ unpaused2 P g c evs, e ≠ .pause ∧ e ≠ .play := by
  intro evs
  induction evs with
  | nil => intro g c e he; simp [unpaused2] at he
  | cons x rest ih =>
    intro g c e he
    simp only [unpaused2, List.mem_append] at he
    rcases he with he | he
    · exact evImage2_mem g c x e he
    · exact ih _ _ e he

theorem unpaused2_sublist (P : Prog) : ∀ (evs : List Ev) (g : Bool) (c : Cfg), (unpaused2 P g c evs).Sublist (erasePP evs) := by
  intro evs
  induction evs with
  | nil => intro g c; exact List.Sublist.slnil
  | cons x rest ih =>
    intro g c
    have := ih (nextG g c x) (step P c x).1
    cases x with
    | pause => simpa [unpaused2, evImage2, erasePP] using this
    | play => simpa [unpaused2, evImage2, erasePP] using this
    | tick =>
      simp only [unpaused2, evImage2, erasePP]
      split
      · split
        · exact List.Sublist.cons_cons _ this
        · exact List.Sublist.cons _ this
      · exact List.Sublist.cons_cons _ this
    | tickCb cb => exact List.Sublist.cons_cons _ this
    | kill => exact List.Sublist.cons_cons _ this
    | resume v => exact List.Sublist.cons_cons _ this
    | fail e => exact List.Sublist.cons_cons _ this
    | cancelFut => exact List.Sublist.cons_cons _ this
    | complete f o => exact List.Sublist.cons_cons _ this
    | callSoon r => exact List.Sublist.cons_cons _ this

theorem unpaused2_nonticks (P : Prog) : ∀ (evs : List Ev) (g : Bool) (c : Cfg),
    (unpaused2 P g c evs).filter (fun e => !isTick e) = (erasePP evs).filter (fun e => !isTick e) := by
  intro evs
  induction evs with
  | nil => intro g c; rfl
  | cons x rest ih =>
    intro g c
    have := ih (nextG g c x) (step P c x).1
    cases x with
    | pause => simpa [unpaused2, evImage2, erasePP] using this
    | play => simpa [unpaused2, evImage2, erasePP] using this
    | tick =>
      simp only [unpaused2, evImage2, erasePP]
      split
      · split <;> simpa [isTick] using this
      · simpa [isTick] using this
    | tickCb cb => simpa [unpaused2, evImage2, erasePP, isTick] using this
    | kill => simpa [unpaused2, evImage2, erasePP, isTick] using this
    | resume v => simpa [unpaused2, evImage2, erasePP, isTick] using this
    | fail e => simpa [unpaused2, evImage2, erasePP, isTick] using this
    | cancelFut => simpa [unpaused2, evImage2, erasePP, isTick] using this
    | complete f o => simpa [unpaused2, evImage2, erasePP, isTick] using this
    | callSoon r => simpa [unpaused2, evImage2, erasePP, isTick] using this

theorem evAllowed_quiet (c : Cfg) (x : Ev) (h : evAllowed c x = true) :
    x = .tick ∨ x = .pause ∨ x = .play ∨ quiet c = true := by
  cases x with
  | tick => exact Or.inl rfl
  | pause => exact Or.inr (Or.inl rfl)
  | play => exact Or.inr (Or.inr (Or.inl rfl))
  | resume v => exact Or.inr (Or.inr (Or.inr h))
  | complete f o => exact Or.inr (Or.inr (Or.inr h))
  | callSoon r => exact Or.inr (Or.inr (Or.inr h))
  | tickCb cb =>
    cases cb with
    | adone f => exact Or.inr (Or.inr (Or.inr h))
    | trykill => simp [evAllowed] at h
    | usercb r =>
      cases r with
      | false => exact Or.inr (Or.inr (Or.inr h))
      | true => simp [evAllowed] at h
  | kill => simp [evAllowed] at h
  | fail e => simp [evAllowed] at h
  | cancelFut => simp [evAllowed] at h

/-- the new class contains the old one: a history admissible for `C05_transparent_partial` is admissible here, with the same
reference history -/
theorem admissible_sub (P : Prog) : ∀ (evs : List Ev) (c : Cfg), admissible P c evs = true →
    admissible2 P false c evs = true ∧ unpaused2 P false c evs = unpaused P c evs := by
  intro evs
  induction evs with
  | nil => intro c _; exact ⟨rfl, rfl⟩
  | cons x rest ih =>
    intro c h
    simp only [admissible, Bool.and_eq_true] at h
    have hng : nextG false c x = false := by
      rcases evAllowed_quiet c x h.1 with rfl | rfl | rfl | hq
      · simp [nextG]
      · rfl
      · rfl
      · have : heldPc c = false := by
          cases hh : heldPc c with
          | false => rfl
          | true => rw [quiet_not_held c hh] at hq; cases hq
        cases x <;> simp [nextG, this]
    have him : evImage2 false c x = evImage c x := by
      cases x <;> simp [evImage2, evImage, heldPc]
    have hal : evAllowed2 false c x = true := by
      cases x with
      | tick => rfl
      | pause => rfl
      | play => rfl
      | resume v => have hq : quiet c = true := h.1; simp [evAllowed2, isWake, wakeOk, hq]
      | complete f o => have hq : quiet c = true := h.1; simp [evAllowed2, isWake, wakeOk, hq]
      | callSoon r => have hq : quiet c = true := h.1; simp [evAllowed2, isWake, wakeOk, hq]
      | tickCb cb =>
        cases cb with
        | adone f => have hq : quiet c = true := h.1; simp [evAllowed2, isWake, wakeOk, hq]
        | trykill => simp [evAllowed] at h
        | usercb r =>
          cases r with
          | false => have hq : quiet c = true := h.1; simp [evAllowed2, isWake, wakeOk, hq]
          | true => simp [evAllowed] at h
      | kill => simp [evAllowed] at h
      | fail e => simp [evAllowed] at h
      | cancelFut => simp [evAllowed] at h
    obtain ⟨i1, i2⟩ := ih (step P c x).1 h.2
    simp only [admissible2, unpaused2, unpaused, hng, him, hal, i1, i2, Bool.and_self]
    exact ⟨trivial, trivial⟩
