import PlumpyModel.Persist.Model
/-!
# The generated persistence tables, as the persistence model needs them

`load ∘ save = id` for futures, the event helper, every state class, stepper states of any depth and the process.
The first section restates the generated tables for the classes the model knows: **these are the obligations that
break when a member set or a hand-written key changes in the source** (`decide` on `Gen/Persist.lean`).
-/
namespace Persist
open Outline
set_option linter.unusedSimpArgs false

/-! ### the generated tables, as the model needs them -/
section Tables
theorem members_fut : members futCls = ["_result", "_state"] := by decide +kernel
theorem members_eh : members ehCls = ["_listener_type", "_listeners"] := by decide +kernel
theorem members_proc : members procCls =
    ["_creation_time", "_event_helper", "_future", "_paused", "_pid", "_pre_paused_status", "_status"] := by decide +kernel
theorem members_chain : members chainCls = members procCls := by decide +kernel
theorem members_created : members createdCls = ["args", "in_state", "kwargs"] := by decide +kernel
theorem members_running : members runningCls = ["args", "in_state", "kwargs"] := by decide +kernel
theorem members_waiting : members waitingCls = ["data", "in_state", "msg"] := by decide +kernel
theorem members_wcWaiting : members wcWaitingCls = ["_awaiting", "data", "in_state", "msg"] := by decide +kernel
theorem members_finished : members finishedCls = ["in_state", "result", "successful"] := by decide +kernel
theorem members_excepted : members exceptedCls = ["in_state"] := by decide +kernel
theorem members_killed : members killedCls = ["in_state", "msg"] := by decide +kernel
theorem members_fnStep : members fnStepCls = [] := by decide +kernel
theorem members_retStep : members retStepCls = [] := by decide +kernel
theorem members_blockStep : members blockStepCls = ["_pos"] := by decide +kernel
theorem members_ifStep : members ifStepCls = ["_pos"] := by decide +kernel
theorem members_whileStep : members whileStepCls = [] := by decide +kernel

/-- the `super().save_instance_state` chains with the keys each class writes by hand -/
def chainSyms (cls : String) : List (String × List String) := ((cls :: bases cls).reverse).map (fun c => (c, handSyms c))

theorem chain_fut : chainSyms futCls = [("plumpy.persistence.Savable", []), (futCls, ["exception"])] := by decide +kernel
theorem chain_eh : chainSyms ehCls = [("plumpy.persistence.Savable", []), (ehCls, [])] := by decide +kernel
theorem chain_proc : chainSyms procCls =
    [("plumpy.persistence.Savable", []), (procCls, ["INPUTS_PARSED", "INPUTS_RAW", "OUTPUTS", "_state"])] := by decide +kernel
theorem chain_chain : chainSyms chainCls =
    [("plumpy.persistence.Savable", []), (procCls, ["INPUTS_PARSED", "INPUTS_RAW", "OUTPUTS", "_state"]),
     (ctxCls, ["CONTEXT"]), (chainCls, ["_STEPPER_STATE"])] := by decide +kernel
theorem chain_created : chainSyms createdCls =
    [("plumpy.persistence.Savable", []), ("plumpy.process_states.State", []), (createdCls, ["RUN_FN"])] := by decide +kernel
theorem chain_running : chainSyms runningCls =
    [("plumpy.persistence.Savable", []), ("plumpy.process_states.State", []), (runningCls, ["COMMAND", "RUN_FN"])] := by decide +kernel
theorem chain_waiting : chainSyms waitingCls =
    [("plumpy.persistence.Savable", []), ("plumpy.process_states.State", []), (waitingCls, ["DONE_CALLBACK"])] := by decide +kernel
theorem chain_wcWaiting : chainSyms wcWaitingCls =
    [("plumpy.persistence.Savable", []), ("plumpy.process_states.State", []), (waitingCls, ["DONE_CALLBACK"]),
     (wcWaitingCls, [])] := by decide +kernel
theorem chain_finished : chainSyms finishedCls =
    [("plumpy.persistence.Savable", []), ("plumpy.process_states.State", []), (finishedCls, [])] := by decide +kernel
theorem chain_excepted : chainSyms exceptedCls =
    [("plumpy.persistence.Savable", []), ("plumpy.process_states.State", []), (exceptedCls, ["EXC_VALUE", "TRACEBACK"])] := by decide +kernel
theorem chain_killed : chainSyms killedCls =
    [("plumpy.persistence.Savable", []), ("plumpy.process_states.State", []), (killedCls, [])] := by decide +kernel
theorem chain_fnStep : chainSyms fnStepCls =
    [("plumpy.persistence.Savable", []), ("plumpy.workchains.Stepper", []), (fnStepCls, ["_fn"])] := by decide +kernel
theorem chain_retStep : chainSyms retStepCls =
    [("plumpy.persistence.Savable", []), ("plumpy.workchains.Stepper", []), (retStepCls, [])] := by decide +kernel
theorem chain_blockStep : chainSyms blockStepCls =
    [("plumpy.persistence.Savable", []), ("plumpy.workchains.Stepper", []), (blockStepCls, ["STEPPER_STATE"])] := by decide +kernel
theorem chain_ifStep : chainSyms ifStepCls =
    [("plumpy.persistence.Savable", []), ("plumpy.workchains.Stepper", []), (ifStepCls, ["STEPPER_STATE"])] := by decide +kernel
theorem chain_whileStep : chainSyms whileStepCls =
    [("plumpy.persistence.Savable", []), ("plumpy.workchains.Stepper", []), (whileStepCls, ["STEPPER_STATE"])] := by decide +kernel

/-- the keys the symbolic names resolve to, all distinct from each other, from the members and from META -/
theorem hk_values :
    hk futCls "exception" = "exception" ∧ hk procCls "_state" = "_state" ∧ hk procCls "INPUTS_RAW" = "INPUTS_RAW" ∧
    hk procCls "INPUTS_PARSED" = "INPUTS_PARSED" ∧ hk procCls "OUTPUTS" = "OUTPUTS" ∧ hk ctxCls "CONTEXT" = "_context" ∧
    hk chainCls "_STEPPER_STATE" = "stepper_state" ∧ hk createdCls "RUN_FN" = "run_fn" ∧ hk runningCls "RUN_FN" = "run_fn" ∧
    hk runningCls "COMMAND" = "command" ∧ hk waitingCls "DONE_CALLBACK" = "DONE_CALLBACK" ∧
    hk exceptedCls "EXC_VALUE" = "ex_value" ∧ hk exceptedCls "TRACEBACK" = "traceback" ∧ hk fnStepCls "_fn" = "_fn" ∧
    hk blockStepCls "STEPPER_STATE" = "stepper_state" ∧ hk ifStepCls "STEPPER_STATE" = "stepper_state" ∧
    hk whileStepCls "STEPPER_STATE" = "stepper_state" := by decide +kernel

/-- every key a class writes by hand is read back by hand by the same class (TRACEBACK is read only to hand it to the
optional `tblib`, `command` is never written) -/
theorem handSaved_subset_handLoaded :
    ∀ c ∈ Gen.handKeyValues, ∀ kv ∈ c.2, kv.2 ∈ (Gen.handLoadedKeys.lookup c.1).getD [] := by decide +kernel

/-- the state classes are told apart by their identifiers -/
theorem cid_values :
    cid createdCls = "plumpy.process_states:Created" ∧ cid runningCls = "plumpy.process_states:Running" ∧
    cid waitingCls = "plumpy.process_states:Waiting" ∧ cid wcWaitingCls = "plumpy.workchains:Waiting" ∧
    cid finishedCls = "plumpy.process_states:Finished" ∧ cid exceptedCls = "plumpy.process_states:Excepted" ∧
    cid killedCls = "plumpy.process_states:Killed" := by decide +kernel
end Tables

end Persist
